package rules

import (
	"fmt"
	"go/token"
	"go/types"
	"regexp"
	"strings"

	"golang.org/x/tools/go/ssa"

	"verif/internal/core"
)

func init() { register("C11", runC11) }

// ---- ORDER-DOMAIN --------------------------------------------------------------

// orderEval abstractly interprets a function whose result depends on its
// integer parameters only through comparisons, over one weak ordering of the
// parameters (given as ranks). It returns (result, decided).
func orderEval(fn *ssa.Function, rank map[*ssa.Parameter]int) (bool, bool) {
	vals := map[ssa.Value]int{}                   // 0/1 for bools
	var evalV func(v ssa.Value) (int, bool, bool) // (value, isRank, ok)
	evalV = func(v ssa.Value) (int, bool, bool) {
		if p, ok := v.(*ssa.Parameter); ok {
			r, ok := rank[p]
			return r, true, ok
		}
		if b, ok := core.ConstBool(v); ok {
			if b {
				return 1, false, true
			}
			return 0, false, true
		}
		if x, ok := vals[v]; ok {
			return x, false, true
		}
		return 0, false, false
	}
	b := fn.Blocks[0]
	var prev *ssa.BasicBlock
	for steps := 0; steps < 1000; steps++ {
		for _, in := range b.Instrs {
			switch in := in.(type) {
			case *ssa.Phi:
				for i, p := range b.Preds {
					if p == prev {
						x, _, ok := evalV(in.Edges[i])
						if !ok {
							return false, false
						}
						vals[in] = x
					}
				}
			case *ssa.BinOp:
				x, xr, ok1 := evalV(in.X)
				y, yr, ok2 := evalV(in.Y)
				if !ok1 || !ok2 || xr != yr {
					return false, false
				}
				var r bool
				switch in.Op {
				case token.LSS:
					r = x < y
				case token.LEQ:
					r = x <= y
				case token.GTR:
					r = x > y
				case token.GEQ:
					r = x >= y
				case token.EQL:
					r = x == y
				case token.NEQ:
					r = x != y
				case token.AND, token.LAND:
					if xr {
						return false, false
					}
					r = x != 0 && y != 0
				case token.OR, token.LOR:
					if xr {
						return false, false
					}
					r = x != 0 || y != 0
				default:
					return false, false
				}
				if r {
					vals[in] = 1
				} else {
					vals[in] = 0
				}
			case *ssa.UnOp:
				if in.Op != token.NOT {
					return false, false
				}
				x, xr, ok := evalV(in.X)
				if !ok || xr {
					return false, false
				}
				vals[in] = 1 - x
			case *ssa.If:
				x, xr, ok := evalV(in.Cond)
				if !ok || xr {
					return false, false
				}
				prev = b
				if x != 0 {
					b = b.Succs[0]
				} else {
					b = b.Succs[1]
				}
			case *ssa.Jump:
				prev = b
				b = b.Succs[0]
			case *ssa.Return:
				if len(in.Results) != 1 {
					return false, false
				}
				x, xr, ok := evalV(in.Results[0])
				if !ok || xr {
					return false, false
				}
				return x != 0, true
			case *ssa.DebugRef:
			default:
				return false, false
			}
			if _, ok := in.(*ssa.If); ok {
				break
			}
			if _, ok := in.(*ssa.Jump); ok {
				break
			}
		}
	}
	return false, false
}

// weakOrderings enumerates all rank assignments of n items (surjective onto 0..k-1).
func weakOrderings(n int) [][]int {
	var out [][]int
	cur := make([]int, n)
	var rec func(i int)
	rec = func(i int) {
		if i == n {
			// surjective?
			mx := 0
			seen := map[int]bool{}
			for _, r := range cur {
				seen[r] = true
				if r > mx {
					mx = r
				}
			}
			if len(seen) == mx+1 {
				out = append(out, append([]int(nil), cur...))
			}
			return
		}
		for r := 0; r < n; r++ {
			cur[i] = r
			rec(i + 1)
		}
	}
	rec(0)
	return out
}

// ---- splitting loops --------------------------------------------------------------

type splitLoop struct {
	fn     *ssa.Function
	header *ssa.BasicBlock
	rem    *ssa.Phi  // remaining
	chunk  ssa.Value // X
}

func findSplitLoops(fn *ssa.Function) []splitLoop {
	var out []splitLoop
	for _, h := range fn.Blocks {
		for _, in := range h.Instrs {
			phi, ok := in.(*ssa.Phi)
			if !ok {
				break
			}
			for _, e := range phi.Edges {
				bo, ok := e.(*ssa.BinOp)
				if !ok || bo.Op != token.SUB || bo.X != ssa.Value(phi) {
					continue
				}
				// exit test: phi > 0
				if len(h.Instrs) == 0 {
					continue
				}
				ifi, ok := h.Instrs[len(h.Instrs)-1].(*ssa.If)
				if !ok {
					continue
				}
				c, ok := ifi.Cond.(*ssa.BinOp)
				if !ok {
					continue
				}
				cop, cx, cy := cmpConstRight(c)
				z, isZ := core.ConstInt(cy)
				if cx == ssa.Value(phi) && isZ && z == 0 && (cop == token.GTR || cop == token.NEQ) {
					out = append(out, splitLoop{fn: fn, header: h, rem: phi, chunk: bo.Y})
				}
			}
		}
	}
	return out
}

// minOf: v = min(a, b) written as `v := a; if b < v { v = b }` (any of the
// equivalent comparison spellings). Returns the two alternatives.
func minOf(v ssa.Value) (a, b ssa.Value, ok bool, why string) {
	if call, isCall := v.(*ssa.Call); isCall && len(call.Call.Args) == 2 {
		if core.IsBuiltin(call, "min") {
			return call.Call.Args[0], call.Call.Args[1], true, ""
		}
		if cal := call.Call.StaticCallee(); cal != nil && cal.Name() == "min" && isMinHelper(cal) {
			return call.Call.Args[0], call.Call.Args[1], true, ""
		}
	}
	phi, isPhi := v.(*ssa.Phi)
	if !isPhi || len(phi.Edges) != 2 {
		return nil, nil, false, "the chunk size is not a two-way choice"
	}
	blk := phi.Block()
	// one predecessor is the condition block D, the other the then-block T with T.Preds == [D]
	for i := 0; i < 2; i++ {
		T, D := blk.Preds[i], blk.Preds[1-i]
		if len(T.Preds) != 1 || T.Preds[0] != D {
			continue
		}
		ifi, isIf := D.Instrs[len(D.Instrs)-1].(*ssa.If)
		if !isIf {
			continue
		}
		cond, isB := ifi.Cond.(*ssa.BinOp)
		if !isB {
			continue
		}
		assigned, dflt := phi.Edges[i], phi.Edges[1-i]
		// assigned is taken when: cond true if T == D.Succs[0], else cond false
		op := cond.Op
		x, y := cond.X, cond.Y
		if T != D.Succs[0] {
			switch op {
			case token.LSS:
				op = token.GEQ
			case token.LEQ:
				op = token.GTR
			case token.GTR:
				op = token.LEQ
			case token.GEQ:
				op = token.LSS
			default:
				return nil, nil, false, "unrecognised comparison"
			}
		}
		// require: assigned < dflt  (or <=)
		switch {
		case (op == token.LSS || op == token.LEQ) && x == assigned && y == dflt:
			return dflt, assigned, true, ""
		case (op == token.GTR || op == token.GEQ) && x == dflt && y == assigned:
			return dflt, assigned, true, ""
		default:
			return dflt, assigned, false, "the smaller value is not the one selected (comparison direction or operands wrong)"
		}
	}
	return nil, nil, false, "no if/assign shape found"
}

func dependsOn(v ssa.Value, target func(ssa.Value) bool, seen map[ssa.Value]bool) bool {
	if v == nil || seen[v] {
		return false
	}
	seen[v] = true
	if target(v) {
		return true
	}
	in, ok := v.(ssa.Instruction)
	if !ok {
		return false
	}
	for _, op := range in.Operands(nil) {
		if *op != nil && dependsOn(*op, target, seen) {
			return true
		}
	}
	return false
}

func runC11(c *core.Ctx) core.Meta {
	c.Load(driverPkg, cpPkg, "amd/emu", "amd/protocol", "amd/samples/runner/timingconfig", r9nanoPkg, mi300aPkg)
	c.BuildSSA()
	prov := core.NewProv(c)
	pd := NewPkgInfo(c, driverPkg)
	checkLaunchPathsMarkDirty(c, "R11.16", pd)
	checkDirtyMarkUnconditional(c, "R11.17")
	checkLocalRangeOfGPU(c, "R11.15", NewPkgInfo(c, tconfigPkg), NewPkgInfo(c, r9nanoPkg), NewPkgInfo(c, mi300aPkg))
	pc := NewPkgInfo(c, cpPkg)
	pe := NewPkgInfo(c, "amd/emu")

	checkCopySiblings(c, pd)
	// R11.13: a copy reads its host source when it is processed, so that it observes what earlier
	// commands of its queue wrote there (c12.go, R12.15); EnqueueMemCopyD2D stages its tail this way
	checkHostDataAtProcessingTime(c, pd, "R11.13")

	checkFlushDecision(c, "R11.1", pd, prov)

	// ---------------- R11.2 completion exactly once, after all pieces ----------------
	st2 := c.Rule("R11.2", "a copy command is dequeued only where its list of outstanding requests was found empty, IsRunning=false is paired with Dequeue, and a device-to-host copy fills the host value before being dequeued; the DMA engine answers the CP only when the request collection is finished, and isFinished is subordinateCount==0", 5)
	isDequeue := func(in ssa.Instruction) bool {
		return core.IsCall(in, core.ModPath+"/amd/driver.CommandQueue.Dequeue")
	}
	for _, fn := range pd.Funcs {
		name := core.FuncName(fn)
		if !strings.HasPrefix(name, "defaultMemoryCopyMiddleware.") && !strings.HasPrefix(name, "globalStorageMemoryCopyMiddleware.") {
			continue
		}
		g := core.BuildGraph(fn, 0, nil)
		for _, d := range g.NodesWhere(func(n *core.Node) bool { return isDequeue(n.Instr) }) {
			st2.Instances++
			c.MarkAnalysed(fn)
			if strings.HasPrefix(name, "globalStorageMemoryCopyMiddleware.") {
				// synchronous path: data is moved before Dequeue in the same function
				st2.Ob(true)
				continue
			}
			emptyCut := CmpCut(func(_ *core.Node, op token.Token, x, y ssa.Value) int {
				if !core.ProvMatch(regexp.MustCompile(`^len\(.*\.Reqs\)$`), prov.Of(x)) {
					return 0
				}
				if z, ok := core.ConstInt(y); !ok || z != 0 {
					return 0
				}
				switch op {
				case token.EQL, token.LEQ:
					return 1
				case token.NEQ, token.GTR:
					return -1
				}
				return 0
			})
			ok := g.Guarded(d, AnyCut(emptyCut, copySizeCut(prov, true)))
			st2.Ob(ok)
			st2.Sample("%s: Dequeue guarded by len(cmd.Reqs)==0 (or by a zero copy size): %v", name, ok)
			if !ok {
				c.ReportAt("R11.2", fn, d.Instr.Pos(), "Dequeue:guard", "the copy command is dequeued on a path that did not find its outstanding-request list empty: it completes before all its transactions completed")
			}
			// IsRunning=false on the same path before
			paired := false
			for _, n := range g.Nodes {
				if s, ok := storeToField(n.Instr, "CommandQueue.IsRunning"); ok {
					if b, isC := core.ConstBool(s.Val); isC && !b && n.Block.Dominates(d.Block) {
						paired = true
					}
				}
			}
			if !paired {
				// a command that never started running (zero-length copy) has nothing to clear
				started := false
				for _, n := range g.Nodes {
					if s, ok := storeToField(n.Instr, "CommandQueue.IsRunning"); ok {
						if b, isC := core.ConstBool(s.Val); isC && b {
							if after, _ := g.Reach(core.After(n, nil), core.WalkOpts{}); after[d] {
								started = true
							}
						}
					}
				}
				paired = !started
			}
			st2.Ob(paired)
			if !paired {
				c.ReportAt("R11.2", fn, d.Instr.Pos(), "Dequeue:IsRunning", "Dequeue without clearing IsRunning: the queue never processes its next command")
			}
			if strings.Contains(name, "D2H") && !g.Guarded(d, copySizeCut(prov, true)) {
				filled := false
				for _, n := range g.Nodes {
					if core.IsCall(n.Instr, "encoding/binary.Read") {
						after, _ := g.Reach(core.After(n, nil), core.WalkOpts{ForwardOnly: true})
						if after[d] && n.Block.Dominates(d.Block) {
							a := core.CallOf(n.Instr).Args
							if strings.HasSuffix(prov.Of(a[2]), ".Dst") && strings.Contains(prov.Of(a[0]), ".RawData") {
								filled = true
							}
						}
					}
				}
				st2.Ob(filled)
				if !filled {
					c.ReportAt("R11.2", fn, d.Instr.Pos(), "Dequeue:host-value", "the device-to-host command is dequeued without first decoding RawData into the host destination")
				}
			}
		}
		// the request removed from the list is the one that returned
		for _, n := range g.Nodes {
			if s, ok := storeToField(n.Instr, "MemCopyH2DCommand.Reqs"); ok && strings.Contains(name, "Return") {
				st2.Instances++
				pv := prov.Of(s.Val)
				ok2 := strings.Contains(pv, "append(@,[") && strings.Contains(pv, "make(slice)")
				st2.Ob(ok2)
				if !ok2 {
					c.ReportAt("R11.2", fn, s.Pos(), "Reqs:filter", "the outstanding list is not rebuilt as the filter of the remaining requests: "+short(pv))
				}
			}
		}
	}
	// DMA side
	if fin := c.MustFunc("R11.2", cpPkg, "RequestCollection.isFinished"); fin != nil {
		st2.Instances++
		ok := false
		for _, b := range fin.Blocks {
			for _, in := range b.Instrs {
				if r, isR := in.(*ssa.Return); isR {
					if bo, isB := r.Results[0].(*ssa.BinOp); isB && bo.Op == token.EQL && prov.Of(bo.X) == "recv.subordinateCount" {
						if z, isZ := core.ConstInt(bo.Y); isZ && z == 0 {
							ok = true
						}
					}
				}
			}
		}
		st2.Ob(ok)
		if !ok {
			c.ReportAt("R11.2", fin, fin.Pos(), "isFinished", "isFinished is not subordinateCount == 0")
		}
		n, ung := pc.GuardedUp(func(in ssa.Instruction) bool {
			call, ok := in.(*ssa.Call)
			if !ok || call.Call.StaticCallee() == nil {
				return false
			}
			return core.FuncName(call.Call.StaticCallee()) == "GeneralRspBuilder.Build" && strings.HasPrefix(core.FuncName(in.Parent()), "DMAEngine.")
		}, CallFnCut(true, map[*ssa.Function]bool{fin: true}))
		st2.Instances += n
		if n < 2 {
			c.Report(core.Finding{Rule: "R11.2", Kind: "floor", Pkg: cpPkg, Func: "DMAEngine", Detail: "GeneralRsp-sites", Msg: fmt.Sprintf("%d response construction sites in the DMA engine, 2 confirmed", n)})
		}
		for i := 0; i < n-len(ung); i++ {
			st2.Ob(true)
		}
		for _, u := range ung {
			st2.Ob(false)
			c.ReportAt("R11.2", u.Target.Fn(), u.Target.Instr.Pos(), "DMA:rsp-guard", "the DMA engine answers the copy on a path that did not find the request collection finished: the copy completes before all memory transactions completed")
		}
	}
	if dec := c.MustFunc("R11.2", cpPkg, "RequestCollection.decrementCountIfExists"); dec != nil {
		g := core.BuildGraph(dec, 0, nil)
		for _, n := range g.Nodes {
			if s, ok := storeToField(n.Instr, "RequestCollection.subordinateCount"); ok {
				st2.Instances++
				okV := prov.Of(s.Val) == "(recv.subordinateCount-1)"
				okG := g.Guarded(n, CmpCut(func(_ *core.Node, op token.Token, x, y ssa.Value) int {
					_, xp := x.(*ssa.Parameter)
					_, yp := y.(*ssa.Parameter)
					px, py := prov.Of(x), prov.Of(y)
					if (xp && strings.HasPrefix(py, "recv.subordinateRequestIDs[")) || (yp && strings.HasPrefix(px, "recv.subordinateRequestIDs[")) {
						if op == token.EQL {
							return 1
						}
						if op == token.NEQ {
							return -1
						}
					}
					return 0
				}))
				st2.Ob(okV && okG)
				if !(okV && okG) {
					c.ReportAt("R11.2", dec, s.Pos(), "decrement", "the outstanding count is not decremented by exactly one only when the returned ID belongs to this collection")
				}
				// returns right after (one decrement per ID)
				leak := false
				g.Walk(core.After(n, nil), core.WalkOpts{}, func(st core.State) {
					if st.N != n {
						if _, ok := storeToField(st.N.Instr, "RequestCollection.subordinateCount"); ok {
							leak = true
						}
					}
				})
				st2.Ob(!leak)
				if leak {
					c.ReportAt("R11.2", dec, s.Pos(), "decrement:twice", "one returned transaction can decrement the outstanding count more than once")
				}
			}
		}
	}
	if ap := c.MustFunc("R11.2", cpPkg, "RequestCollection.appendSubordinateID"); ap != nil {
		st2.Instances++
		inc := false
		for _, b := range ap.Blocks {
			for _, in := range b.Instrs {
				if s, ok := storeToField(in, "RequestCollection.subordinateCount"); ok && prov.Of(s.Val) == "(recv.subordinateCount+1)" {
					inc = true
				}
			}
		}
		st2.Ob(inc)
		if !inc {
			c.ReportAt("R11.2", ap, ap.Pos(), "append:count", "registering a transaction does not increase the outstanding count by one")
		}
	}

	// R11.2 host value, by the type of the command: in every response handler of the asynchronous
	// middleware (the functions that look the command up by the returned request, helpers expanded),
	// no path reaches Dequeue unless the command is known not to be a device-to-host copy (a type
	// test of the COMMAND value) or RawData was decoded into Dst. A decision taken on the type of
	// the returning request does not count: the last response of a device-to-host copy can be the
	// flush acknowledgement of another GPU.
	{
		isCmdIface := func(v ssa.Value) bool {
			nt, ok := v.Type().(*types.Named)
			return ok && nt.Obj().Name() == "Command" && nt.Obj().Pkg() != nil && nt.Obj().Pkg().Path() == core.ModPath+"/"+driverPkg
		}
		assertedName := func(ta *ssa.TypeAssert) string {
			t := ta.AssertedType
			if pt, ok := t.(*types.Pointer); ok {
				t = pt.Elem()
			}
			if nt, ok := t.(*types.Named); ok {
				return nt.Obj().Name()
			}
			return ""
		}
		notD2HCut := func(n *core.Node, i int) bool {
			ifi, ok := n.Instr.(*ssa.If)
			if !ok {
				return false
			}
			v, neg := stripNot(ifi.Cond)
			ex, ok := v.(*ssa.Extract)
			if !ok || ex.Index != 1 {
				return false
			}
			ta, ok := ex.Tuple.(*ssa.TypeAssert)
			if !ok || !ta.CommaOk || !isCmdIface(ta.X) {
				return false
			}
			isD2HOnTrue := !neg
			switch assertedName(ta) {
			case "MemCopyD2HCommand":
				// the edge on which the command is not a device-to-host copy
				if isD2HOnTrue {
					return i == 1
				}
				return i == 0
			case "":
				return false
			default:
				// the command is of another concrete type on the success edge
				if isD2HOnTrue {
					return i == 0
				}
				return i == 1
			}
		}
		for _, fn := range pd.Funcs {
			name := core.FuncName(fn)
			if !strings.HasPrefix(name, "defaultMemoryCopyMiddleware.") {
				continue
			}
			looksUp := false
			for _, b := range fn.Blocks {
				for _, in := range b.Instrs {
					if cal := core.CalleeFunc(in); cal != nil && cal.Name() == "findCommandByReq" {
						looksUp = true
					}
				}
			}
			if !looksUp {
				continue
			}
			g := core.BuildGraph(fn, 2, func(cal *ssa.Function) bool {
				return cal.Pkg == fn.Pkg && strings.HasPrefix(core.FuncName(cal), "defaultMemoryCopyMiddleware.")
			})
			deqs := g.NodesWhere(func(n *core.Node) bool { return isDequeue(n.Instr) })
			if len(deqs) == 0 {
				continue
			}
			st2.Instances++
			c.MarkAnalysed(fn)
			var bad *core.Node
			done := g.Walk([]core.State{{N: g.Entry}}, core.WalkOpts{
				Stop: func(n *core.Node) bool {
					if core.IsCall(n.Instr, "encoding/binary.Read") {
						a := core.CallOf(n.Instr).Args
						return strings.HasSuffix(prov.Of(a[2]), ".Dst") && strings.Contains(prov.Of(a[0]), ".RawData")
					}
					if ta, ok := n.Instr.(*ssa.TypeAssert); ok && !ta.CommaOk && isCmdIface(ta.X) {
						an := assertedName(ta)
						return an != "" && an != "MemCopyD2HCommand"
					}
					return false
				},
				CutEdge: notD2HCut,
			}, func(s core.State) {
				if isDequeue(s.N.Instr) && (bad == nil || s.N.ID < bad.ID) {
					bad = s.N
				}
			})
			ok := done && bad == nil
			st2.Ob(ok)
			st2.Sample("%s: no path retires a command that may be a device-to-host copy without decoding RawData into Dst: %v", name, ok)
			if !done {
				c.Undecided("R11.2", fn, fn.Pos(), "Dequeue:host-value-by-command", "path exploration exceeded its bound")
			} else if bad != nil {
				c.ReportAt("R11.2", fn, bad.Instr.Pos(), "Dequeue:host-value-by-command", name+" retires the command on a path on which it may be a device-to-host copy and RawData was not decoded into the host destination (only a type test of the command itself excludes that; the returning request can be the flush of another GPU): MemCopyD2H returns with the destination untouched")
			}
		}
	}

	// ---------------- R11.8 whoever removes the last outstanding request completes the command ----------------
	st8 := c.Rule("R11.8", "every response handler of the copy middleware that removes a request from a command's outstanding list (copy pieces and the cache flushes attached to the command alike) goes on to retire the command when the list became empty: responses of different GPUs return in any order, and a handler that only removes leaves a command with nothing outstanding at the head of its queue forever", 1)
	for _, fn := range pd.Funcs {
		name := core.FuncName(fn)
		if !strings.HasPrefix(name, "defaultMemoryCopyMiddleware.") {
			continue
		}
		g := core.BuildGraph(fn, 2, func(cal *ssa.Function) bool {
			return cal.Pkg == fn.Pkg && strings.HasPrefix(core.FuncName(cal), "defaultMemoryCopyMiddleware.")
		})
		for _, n := range g.Nodes {
			if n.Frame.Parent != nil {
				continue
			}
			removes := false
			if cc := core.CallOf(n.Instr); cc != nil && cc.IsInvoke() && cc.Method.Name() == "RemoveReq" {
				removes = true
			}
			if st, ok := storeToField(n.Instr, "MemCopyH2DCommand.Reqs"); ok && strings.Contains(name, "Return") && !strings.Contains(prov.Of(st.Val), "NewMemCopy") {
				removes = true
			}
			if cal := core.CalleeFunc(n.Instr); cal != nil && cal.Name() == "RemoveReq" && !removes {
				removes = true
			}
			if !removes {
				continue
			}
			st8.Instances++
			c.MarkAnalysed(fn)
			after, _ := g.Reach(core.After(n, nil), core.WalkOpts{ForwardOnly: true})
			okD := false
			for m := range after {
				if isDequeue(m.Instr) {
					okD = true
				}
			}
			st8.Ob(okD)
			st8.Sample("%s removes a request from its command; completion (Dequeue) reachable afterwards: %v", name, okD)
			if !okD {
				c.ReportAt("R11.8", fn, n.Instr.Pos(), "remove-without-completion", name+" removes a returned request from the command's outstanding list and never retires the command: when this response is the last one to arrive (a flush of another GPU returning after the copy pieces) the command stays at the head of its queue with nothing outstanding, and every later DrainCommandQueue blocks")
			}
		}
	}

	// ---------------- R11.12 a command is not retired on the spot once requests were attached to it ----------------
	st12 := c.Rule("R11.12", "in the functions that start a command (process…Command of the driver and its copy middlewares, helpers expanded), CommandQueue.Dequeue is not reachable after a request was attached to the command (an append to its Reqs list, directly, through AddReq or through the flush helper): a command that is retired at once while a flush or copy request of its own is outstanding completes before its transactions did, and the late response finds no command (`cannot find command`)", 4)
	{
		deq := c.SSAFunc(driverPkg, "CommandQueue.Dequeue")
		isAttach := func(n *core.Node) bool {
			if s, ok := n.Instr.(*ssa.Store); ok {
				if f := core.FieldOfAddr(s.Addr); f != nil && f.Name() == "Reqs" {
					if call, ok := s.Val.(*ssa.Call); ok && core.IsBuiltin(call, "append") {
						return true
					}
				}
			}
			if cc := core.CallOf(n.Instr); cc != nil && cc.IsInvoke() && cc.Method.Name() == "AddReq" {
				return true
			}
			return false
		}
		for _, fn := range pd.Funcs {
			name := fn.Name()
			if !strings.HasPrefix(name, "process") || !strings.HasSuffix(name, "Command") {
				continue
			}
			g := core.BuildGraph(fn, 3, func(cal *ssa.Function) bool { return cal.Pkg == fn.Pkg && cal != deq })
			attaches := g.NodesWhere(isAttach)
			st12.Instances++
			c.MarkAnalysed(fn)
			var bad *core.Node
			for _, a := range attaches {
				// requests are attached inside loops (one flush per GPU, one piece per page): leaving the loop takes its back edge
				reach, _ := g.Reach(core.After(a, nil), core.WalkOpts{})
				for m := range reach {
					if cc := core.CallOf(m.Instr); cc != nil && cc.StaticCallee() == deq && (bad == nil || m.ID < bad.ID) {
						bad = m
					}
				}
			}
			st12.Ob(bad == nil)
			if len(attaches) > 0 {
				st12.Sample("%s attaches requests at %d sites; no Dequeue afterwards: %v", core.FuncName(fn), len(attaches), bad == nil)
			}
			if bad != nil {
				c.ReportAt("R11.12", fn, bad.Instr.Pos(), "dequeue-after-attach:"+core.FuncName(fn), core.FuncName(fn)+" can dequeue the command ("+core.FuncName(bad.Fn())+") after a request was attached to it: the command completes while that request is outstanding, and its response later finds no command")
			}
		}
	}

	// ---------------- R11.7 a copy with nothing to move still completes ----------------
	st7 := c.Rule("R11.7", "a copy command is put into the running state only on a path on which its size was found non-zero: the splitting loop creates no request for an empty copy, so nothing would ever complete it and the queue (and every later DrainCommandQueue) would block forever", 2)
	for _, fname := range []string{"defaultMemoryCopyMiddleware.processMemCopyH2DCommand", "defaultMemoryCopyMiddleware.processMemCopyD2HCommand"} {
		fn := c.MustFunc("R11.7", driverPkg, fname)
		if fn == nil {
			continue
		}
		c.MarkAnalysed(fn)
		g := core.BuildGraph(fn, 0, nil)
		for _, n := range g.Nodes {
			s, ok := storeToField(n.Instr, "CommandQueue.IsRunning")
			if !ok {
				continue
			}
			if b, isC := core.ConstBool(s.Val); !isC || !b {
				continue
			}
			st7.Instances++
			okG := g.Guarded(n, copySizeCut(prov, false))
			if okG {
				// the size that is tested is the size of the host value: Src of a host-to-device copy,
				// Dst of a device-to-host copy (the other end is a device pointer, eight bytes whatever is copied)
				host := "Src"
				if strings.Contains(fname, "D2H") {
					host = "Dst"
				}
				if !g.Guarded(n, hostSizeCut(prov, host)) {
					okG = false
					st7.Ob(false)
					c.ReportAt("R11.7", fn, n.Instr.Pos(), "zero-length:size-of-other-end", "the empty-copy test of "+fname+" does not measure the command's "+host+" (the host value): the other end is a device pointer, whose size is never 0, so an empty copy is marked running and never completes")
					continue
				}
			}
			st7.Ob(okG)
			st7.Sample("%s: IsRunning=true only for a non-empty copy: %v", fname, okG)
			if !okG {
				c.ReportAt("R11.7", fn, n.Instr.Pos(), "zero-length:IsRunning", "the command is marked running also when the copy is empty: the loop `for sizeLeft > 0` then creates no request, no response ever arrives to dequeue the command, and the queue is stuck (a zero-length copy never completes)")
			}
		}
	}

	// ---------------- R11.3 splitting loops ----------------
	st3 := c.Rule("R11.3", "every splitting loop (remaining>0; remaining-=X) takes X=min(remaining, unit remainder depending on the current address), advances every cursor by the same X, slices data as [off:off+X] and requests exactly X bytes", 6)
	checkSplitLoops(c, st3, "R11.3", []*PkgInfo{pd, pc, pe}, prov)
	// physical address of each piece: page.PAddr + (addr - page.VAddr)
	for _, p := range []*PkgInfo{pd, pe} {
		p.Instrs(func(fn *ssa.Function, in ssa.Instruction) {
			for _, id := range []string{core.ModPath + "/amd/protocol.NewMemCopyH2DReq", core.ModPath + "/amd/protocol.NewMemCopyD2HReq"} {
				if core.IsCall(in, id) {
					st3.Instances++
					args := core.CallOf(in).Args
					idx := 3
					if strings.HasSuffix(id, "D2HReq") {
						idx = 2
					}
					pv := prov.Of(args[idx])
					ok := isPagePlusOffset(args[idx])
					st3.Ob(ok)
					st3.Sample("%s: copy piece address %s", core.FuncName(fn), short(pv))
					if !ok {
						c.ReportAt("R11.3", fn, in.Pos(), "piece:address", "a copy piece is addressed at "+short(pv)+", not page.PAddr + (addr - page.VAddr) of the page found for addr")
					}
				}
			}
		})
	}

	// ---------------- R11.4 SEND-DISCIPLINE + FIELDS ----------------
	RunProto(c, &ProtoCfg{
		AllEffectsAfterSend: true,
		RuleBase:            "R11.4.cp", Pkg: cpPkg, FloorSends: 4,
		Effects: []Effect{
			RetrieveEffect,
			FieldWriteEffect("h2d-map-write", "CommandProcessor.bottomMemCopyH2DReqIDToTopReqMap"),
			FieldWriteEffect("d2h-map-write", "CommandProcessor.bottomMemCopyD2HReqIDToTopReqMap"),
			{Label: "queue-pop", Consume: true, Match: func(n *core.Node) bool {
				// *reqs = (*reqs)[1:] through a pointer parameter (DMAEngine.send)
				st, ok := n.Instr.(*ssa.Store)
				if !ok {
					return false
				}
				_, isParam := st.Addr.(*ssa.Parameter)
				_, isSlice := st.Val.(*ssa.Slice)
				return isParam && isSlice
			}},
		},
		SkipRoots: cpSequencers,
		OnlyFuncs: func(name string) bool {
			return strings.HasPrefix(name, "cpMiddleware.") || strings.HasPrefix(name, "DMAEngine.")
		},
		Exempt: map[string]string{
			"cpMiddleware.cloneMemCopyH2DReq:h2d-map-write:pre": "registers the clone under its fresh ID before the Send; undone by nobody but harmless: keyed by a unique ID",
			"cpMiddleware.cloneMemCopyD2HReq:d2h-map-write:pre": "same as above",
		},
	})
	st4 := c.Rule("R11.4.fields", "the copy request forwarded to the DMA engine is a copy of the driver's request in which only ID, Src and Dst change; its response to the driver names the original request; the DMA engine's pop happens only after a successful Send", 3)
	for _, name := range []string{"cpMiddleware.cloneMemCopyH2DReq", "cpMiddleware.cloneMemCopyD2HReq"} {
		fn := c.MustFunc("R11.4.fields", cpPkg, name)
		if fn == nil {
			continue
		}
		st4.Instances++
		whole := false
		var changed []string
		for _, b := range fn.Blocks {
			for _, in := range b.Instrs {
				s, ok := in.(*ssa.Store)
				if !ok {
					continue
				}
				if _, isAlloc := s.Addr.(*ssa.Alloc); isAlloc {
					if u, ok := s.Val.(*ssa.UnOp); ok && u.Op == token.MUL {
						if _, isParam := u.X.(*ssa.Parameter); isParam {
							whole = true
						}
					}
				}
				if f := core.FieldOfAddr(s.Addr); f != nil && (strings.HasPrefix(core.ShortFieldID(f), "MemCopy") || strings.HasPrefix(core.ShortFieldID(f), "MsgMeta")) {
					changed = append(changed, f.Name())
				}
			}
		}
		ok := whole
		for _, f := range changed {
			if f != "ID" && f != "Src" && f != "Dst" {
				ok = false
			}
		}
		st4.Ob(ok)
		st4.Sample("%s: whole copy=%v, fields changed=%v", name, whole, changed)
		if !ok {
			c.ReportAt("R11.4.fields", fn, fn.Pos(), "clone", fmt.Sprintf("the forwarded copy request is not a full copy of the original with only ID/Src/Dst changed (whole copy=%v, changed=%v): address or buffer may differ", whole, changed))
		}
	}
	pc.CheckFields("R11.4.fields", []FieldSpec{
		{Builder: "sim.GeneralRspBuilder", MinSites: 1, OnlyIn: `^cpMiddleware\.processMemCopyRsp$`,
			Require: map[string]string{"WithOriginalReq": `^recv\.findAndRemoveOriginalMemCopyRequest\(`, "WithDst": `findAndRemoveOriginalMemCopyRequest\(.*\)\.Meta\(\)\.Src$`}},
		{Builder: "sim.GeneralRspBuilder", MinSites: 2, OnlyIn: `^DMAEngine\.`,
			Require: map[string]string{"WithOriginalReq": `getSuperior\(\)$`, "WithDst": `getSuperior\(\)\.Src$`}},
	})
	// DMA data placement: read data copied at (request address - copy source address); write data sliced from the source buffer at the same offsets
	if fn := c.MustFunc("R11.4.fields", cpPkg, "DMAEngine.processDataReadyRsp"); fn != nil {
		st4.Instances++
		ok := false
		for _, b := range fn.Blocks {
			for _, in := range b.Instrs {
				if core.IsBuiltin(in, "copy") {
					a := core.CallOf(in).Args
					d, s := prov.Of(a[0]), prov.Of(a[1])
					if core.ProvMatch(regexp.MustCompile(`\.DstBuffer\[\(.*\.Address-.*\.SrcAddress\):\]$`), d) && strings.HasSuffix(s, ".Data") {
						ok = true
					}
					st4.Sample("DMA read placement: copy(%s, %s)", short(d), short(s))
				}
			}
		}
		st4.Ob(ok)
		if !ok {
			c.ReportAt("R11.4.fields", fn, fn.Pos(), "read-placement", "returned data is not copied to DstBuffer[req.Address - SrcAddress:]")
		}
	}
	// driver side send
	RunProto(c, &ProtoCfg{
		AllEffectsAfterSend: true,
		RuleBase:            "R11.4.driver", Pkg: driverPkg, FloorSends: 1,
		Effects:   []Effect{RetrieveEffect, FieldWriteEffect("requestsToSend-write", "Driver.requestsToSend")},
		OnlyFuncs: func(name string) bool { return name == "Driver.sendToGPUs" },
	})

	// ---------------- R11.6 dirtiness is never forgotten early ----------------
	st6 := c.Rule("R11.6", "buffers are marked dirty whenever a kernel launch request is created, and the dirty marks are not cleared by anything reachable from the copy / launch command handlers (a flush that is only being issued, or that races with a running kernel, does not make later kernel writes visible)", 3)
	pd.Instrs(func(fn *ssa.Function, in ssa.Instruction) {
		if core.IsCall(in, core.ModPath+"/amd/protocol.NewLaunchKernelReq") {
			st6.Instances++
			marks := false
			allCtx := false
			g6 := core.BuildGraph(fn, 3, func(cal *ssa.Function) bool { return cal.Pkg == fn.Pkg })
			for _, n := range g6.Nodes {
				if callsFunc(n.Instr, pd.Pkg, "Context.markAllBuffersDirty") {
					marks = true
					// the contexts marked are those of the driver's list with the
					// launching process's ID (pid equality dominates the call)
					rp := prov.Of(core.CallOf(n.Instr).Args[0])
					pidCut := CmpCut(func(_ *core.Node, op token.Token, x, y ssa.Value) int {
						if strings.HasSuffix(prov.Of(x), ".pid") && strings.HasSuffix(prov.Of(y), ".pid") {
							switch op {
							case token.EQL:
								return 1
							case token.NEQ:
								return -1
							}
						}
						return 0
					})
					if strings.Contains(rp, ".contexts[") && g6.Guarded(n, pidCut) {
						allCtx = true
					}
				}
			}
			st6.Instances++
			st6.Ob(!marks || allCtx)
			if marks && !allCtx {
				c.ReportAt("R11.6", fn, in.Pos(), "dirty-mark-single-context", "the kernel launch marks only the launching context's buffers dirty: a buffer allocated through another context of the same process (InitWithExistingPID) and written by this kernel is later copied to the host without a flush")
			}
			st6.Ob(marks)
			st6.Sample("%s: kernel launch marks all buffers dirty: %v", core.FuncName(fn), marks)
			if !marks {
				c.ReportAt("R11.6", fn, in.Pos(), "launch-without-dirty-mark", "a kernel launch request is created without marking the context's buffers dirty: a later device-to-host copy skips the flush and reads stale memory")
			}
		}
	})
	cleaners := pd.Having(func(in ssa.Instruction) bool {
		s, ok := in.(*ssa.Store)
		if !ok {
			return false
		}
		f := core.FieldOfAddr(s.Addr)
		if f == nil || f.Name() != "l2Dirty" {
			return false
		}
		if freshBase(s.Addr.(*ssa.FieldAddr).X) {
			return false // initialising a newly created buffer
		}
		b, isC := core.ConstBool(s.Val)
		return isC && !b
	})
	nClean := 0
	for fn := range cleaners {
		name := core.FuncName(fn)
		direct := false
		for _, b := range fn.Blocks {
			for _, in := range b.Instrs {
				if s, ok := in.(*ssa.Store); ok {
					if f := core.FieldOfAddr(s.Addr); f != nil && f.Name() == "l2Dirty" && !freshBase(s.Addr.(*ssa.FieldAddr).X) {
						if bv, isC := core.ConstBool(s.Val); isC && !bv {
							direct = true
						}
					}
				}
			}
		}
		st6.Instances++
		if direct {
			nClean++
			st6.Ob(true) // the helper itself; its callers are judged
			continue
		}
		// a function that (transitively) clears dirty marks: allowed only for buffer creation
		ok := name == "Driver.AllocateMemory" || name == "Driver.AllocateUnifiedMemory"
		st6.Ob(ok)
		if !ok {
			c.ReportAt("R11.6", fn, fn.Pos(), "clears-dirty:"+name, name+" clears the dirty marks of buffers: only the completion of a flush with no kernel in flight could justify that; done when a flush is merely issued (or while a kernel of another queue runs) it hides later kernel writes from device-to-host copies")
		}
	}
	if nClean == 0 {
		c.Notes = append(c.Notes, "R11.6: no function clears l2Dirty any more (the helper is gone); the who-may rule has no subject")
	}

	// ---------------- R02.4 flush before copy (shared with C02) ----------------
	checkFlushBeforeCopy(c, pd, pc, prov, "R11.5")

	checkIntegerWidths(c, "R11.18", "Addresses and sizes in the storage accessor and the copy paths are not narrowed, nor widened after they could wrap.", 2, []widthScope{{rel: emuPkg, filter: recvIs("storageAccessorImpl")}}, []string{"narrow", "widen-wrapped", "unsigned-diff"}, widthAllowC11)
	checkDstFoundFromRequestAddress(c, "R11.19", "In the DMA engine the address is the current copy address: a read of a device-to-host copy that starts at the beginning of the access unit returns bytes before the range and the reply is put at a negative offset.", 2, NewPkgInfo(c, cpPkg))
	st1120 := c.Rule("R11.20", "a flush or copy request the command processor refuses (return false: the caches are still acknowledging an earlier flush, the request stays at the head of the port and is retried) does not change the middleware's state: in every bool-returning handler of cpMiddleware no store to a field of the middleware is followed by a return false. A held flush request that replaces currFlushRequest takes the response of the flush that is running: the first copy never completes and the second is answered twice", 1)
	checkNoStoreBeforeRefusal(c, st1120, "R11.20", NewPkgInfo(c, cpPkg), "cpMiddleware", "the flush that is running is answered under the held request's identity")
	checkFieldStoredFresh(c, "R11.21", "the staging bytes of a device-to-host copy belong to its command: every store into MemCopyD2HCommand.RawData stores storage allocated by that call - the per-page destination buffers of the DMA requests are windows of it, so a staging buffer kept by the middleware is shared by every copy in flight and each is decoded from whatever was written last", 1, driverPkg, "MemCopyD2HCommand.RawData")
	checkNotRunningThenDequeued(c, "R11.22")
	checkBufferRecordInBytes(c)
	checkScanNotLeftByBreak(c, "R11.24", "DMAEngine.removeReqFromPendingReqList looks at every pending request until it finds the one that was answered: its walk over pendingReqs is left at the end or by the return of the match, never by a break. Memory answers the pieces of one copy in any order; a walk that stops at the first non-match finds only the oldest request, and an overtaking answer panics the engine with the copy half done", cpPkg, "DMAEngine.removeReqFromPendingReqList", "pendingReqs")
	return core.Meta{Level: "other",
		Explanation: "Structural clauses of host-device copies decided on SSA of amd/driver, amd/timing/cp (CP middleware + DMA engine) and the emulator's storage accessor: the overlap predicate over all 75 weak orderings (order-domain abstract interpretation), completion only on an empty outstanding list / finished collection, the six splitting loops (min(remaining, unit remainder), same step for all cursors, slice and size = chunk), piece addressing through the page found for the address, SEND-DISCIPLINE of DMA/CP/driver send stages, clone FIELDS, flush-before-copy ordering.",
		NotDecided:  "byte equality of copied data for every offset/length (arithmetic over runtime values); cache flush effectiveness; zero-length copies",
		Assumptions: commonAssumptions}
}

// checkFlushBeforeCopy: R02.4 / R11.5.
func checkFlushBeforeCopy(c *core.Ctx, pd, pc *PkgInfo, prov *core.Prov, rule string) {
	st := c.Rule(rule, "copy requests are created only after needFlushing was evaluated for the copied range and, when it holds, a flush request was queued first; the CP refuses copies and flushes while cache acknowledgements are outstanding", 4)
	for _, name := range []string{"defaultMemoryCopyMiddleware.processMemCopyH2DCommand", "defaultMemoryCopyMiddleware.processMemCopyD2HCommand"} {
		fn := c.MustFunc(rule, driverPkg, name)
		if fn == nil {
			continue
		}
		c.MarkAnalysed(fn)
		g := core.BuildGraph(fn, 0, nil)
		isNeed := func(n *core.Node) bool { return callsFunc(n.Instr, pd.Pkg, "defaultMemoryCopyMiddleware.needFlushing") }
		isFlush := func(n *core.Node) bool {
			return callsFunc(n.Instr, pd.Pkg, "defaultMemoryCopyMiddleware.sendFlushRequest")
		}
		isCopyReq := func(n *core.Node) bool {
			return core.IsCall(n.Instr, core.ModPath+"/amd/protocol.NewMemCopyH2DReq", core.ModPath+"/amd/protocol.NewMemCopyD2HReq")
		}
		needs := g.NodesWhere(isNeed)
		st.Instances++
		if len(needs) != 1 {
			st.Ob(false)
			c.ReportAt(rule, fn, fn.Pos(), "needFlushing:count", fmt.Sprintf("%d calls of needFlushing; exactly one per copy command expected", len(needs)))
			continue
		}
		nd := needs[0]
		args := core.CallOf(nd.Instr).Args
		rng := "Dst"
		other := "Src"
		if strings.Contains(name, "D2H") {
			rng, other = "Src", "Dst"
		}
		okArgs := prov.Of(args[1]) == "param:queue.Context" && prov.Of(args[2]) == "param:cmd."+rng &&
			strings.HasPrefix(prov.Of(args[3]), "binary.Size(param:cmd."+other)
		st.Ob(okArgs)
		st.Sample("%s: needFlushing(%s, %s, %s)", name, prov.Of(args[1]), prov.Of(args[2]), short(prov.Of(args[3])))
		if !okArgs {
			c.ReportAt(rule, fn, nd.Instr.Pos(), "needFlushing:args", "needFlushing is not asked about the device range of the copy (context, device pointer, byte size of the host value)")
		}
		for _, cr := range g.NodesWhere(isCopyReq) {
			st.Instances++
			// must pass needFlushing
			passNeed := true
			g.Walk([]core.State{{N: g.Entry}}, core.WalkOpts{Stop: isNeed}, func(s core.State) {
				if s.N == cr {
					passNeed = false
				}
			})
			st.Ob(passNeed)
			if !passNeed {
				c.ReportAt(rule, fn, cr.Instr.Pos(), "copy-without-needFlushing", "a copy request is created on a path that did not evaluate needFlushing")
			}
			// when true: must pass sendFlushRequest
			passFlush := true
			nv := nd.Instr.(ssa.Value)
			g.Walk(core.After(nd, core.FactFor(nd, nv, 1)), core.WalkOpts{Stop: isFlush}, func(s core.State) {
				if s.N == cr {
					passFlush = false
				}
			})
			st.Ob(passFlush)
			if !passFlush {
				c.ReportAt(rule, fn, cr.Instr.Pos(), "copy-without-flush", "when needFlushing holds, a copy request can be created without queuing the flush request first: the copy reads stale memory / is overwritten by a later write-back")
			}
		}
	}
	// flush requests are queued before copy requests: sendFlushRequest appends to requestsToSend, copy requests go to awaitingReqs that are appended later
	if fn := c.MustFunc(rule, driverPkg, "defaultMemoryCopyMiddleware.sendFlushRequest"); fn != nil {
		st.Instances++
		ok := false
		for _, b := range fn.Blocks {
			for _, in := range b.Instrs {
				if s, isS := storeToField(in, "Driver.requestsToSend"); isS && strings.Contains(prov.Of(s.Val), "protocol.NewFlushReq(") {
					ok = true
				}
			}
		}
		st.Ob(ok)
		if !ok {
			c.ReportAt(rule, fn, fn.Pos(), "flush-not-queued", "sendFlushRequest does not queue a FlushReq for sending")
		}
	}
	// CP side gates
	for _, name := range []string{"cpMiddleware.processMemCopyReq", "cpMiddleware.processFlushReq"} {
		fn := c.MustFunc(rule, cpPkg, name)
		if fn == nil {
			continue
		}
		g := core.BuildGraph(fn, 1, func(cal *ssa.Function) bool { return cal.Pkg == pc.Pkg })
		gate := CmpCut(func(_ *core.Node, op token.Token, x, y ssa.Value) int {
			if prov.Of(x) != "recv.numCacheACK" {
				return 0
			}
			if z, ok := core.ConstInt(y); !ok || z != 0 {
				return 0
			}
			switch op {
			case token.GTR, token.NEQ:
				return -1
			case token.EQL, token.LEQ:
				return 1
			}
			return 0
		})
		for _, n := range g.NodesWhere(func(n *core.Node) bool { return isSend(n) || isRetrieve(n) }) {
			st.Instances++
			ok := g.Guarded(n, gate)
			st.Ob(ok)
			if !ok {
				c.ReportAt(rule, fn, n.Instr.Pos(), "gate:numCacheACK", name+" proceeds on a path that did not find numCacheACK == 0: a copy or flush overlaps an unfinished cache flush")
			}
		}
	}
}

// isPagePlusOffset: v == page.PAddr + (addr - page.VAddr) where page is the
// first result of a pageTable.Find(pid, addr) on the same addr.
func isPagePlusOffset(v ssa.Value) bool {
	add, ok := v.(*ssa.BinOp)
	if !ok || add.Op != token.ADD {
		return false
	}
	try := func(p, o ssa.Value) bool {
		pb, pn := structFieldLoad(p)
		if pb == nil || pn != "PAddr" {
			return false
		}
		sub, ok := o.(*ssa.BinOp)
		if !ok || sub.Op != token.SUB {
			return false
		}
		vb, vn := structFieldLoad(sub.Y)
		if vb == nil || vn != "VAddr" || vb != pb {
			return false
		}
		ex, ok := pb.(*ssa.Extract)
		if !ok || ex.Index != 0 {
			return false
		}
		call, ok := ex.Tuple.(*ssa.Call)
		if !ok || !call.Call.IsInvoke() || call.Call.Method.Name() != "Find" || len(call.Call.Args) != 2 {
			return false
		}
		return call.Call.Args[1] == sub.X
	}
	return try(add.X, add.Y) || try(add.Y, add.X)
}

func fieldName(f *ssa.Field) string {
	st, ok := f.X.Type().Underlying().(*types.Struct)
	if !ok {
		return ""
	}
	return st.Field(f.Field).Name()
}

// structFieldLoad: v reads field `name` of a struct value `base`, either
// directly (ssa.Field) or through a local cell that holds exactly one stored value.
func structFieldLoad(v ssa.Value) (ssa.Value, string) {
	switch v := v.(type) {
	case *ssa.Field:
		return v.X, fieldName(v)
	case *ssa.UnOp:
		if v.Op != token.MUL {
			return nil, ""
		}
		fa, ok := v.X.(*ssa.FieldAddr)
		if !ok {
			return nil, ""
		}
		a, ok := fa.X.(*ssa.Alloc)
		if !ok || a.Referrers() == nil {
			return nil, ""
		}
		var stored ssa.Value
		n := 0
		for _, r := range *a.Referrers() {
			if st, ok := r.(*ssa.Store); ok && st.Addr == a {
				stored = st.Val
				n++
			}
		}
		if n != 1 {
			return nil, ""
		}
		return stored, core.FieldOfAddr(fa).Name()
	}
	return nil, ""
}

// isMinHelper: a two-parameter function returning the smaller of its parameters.
func isMinHelper(fn *ssa.Function) bool {
	if len(fn.Params) != 2 || len(fn.Blocks) == 0 {
		return false
	}
	for _, b := range fn.Blocks {
		for _, in := range b.Instrs {
			r, ok := in.(*ssa.Return)
			if !ok {
				continue
			}
			if len(r.Results) != 1 {
				return false
			}
			if r.Results[0] != ssa.Value(fn.Params[0]) && r.Results[0] != ssa.Value(fn.Params[1]) {
				if _, isPhi := r.Results[0].(*ssa.Phi); !isPhi {
					return false
				}
			}
		}
	}
	return true
}

// copySizeCut: edges on which the size of the copied host value (binary.Size(...)
// or len of the serialised bytes, not the request list) is zero (wantZero) or non-zero.
func copySizeCut(prov *core.Prov, wantZero bool) EdgeCut {
	return CmpCut(func(_ *core.Node, op token.Token, x, y ssa.Value) int {
		pv := prov.Of(core.StripConv(x))
		if strings.Contains(pv, ".Reqs") || !(strings.Contains(pv, "binary.Size(") || strings.HasPrefix(pv, "len(")) {
			return 0
		}
		if z, ok := core.ConstInt(y); !ok || z != 0 {
			return 0
		}
		d := 0
		switch op {
		case token.EQL, token.LEQ:
			d = 1 // zero on the true edge
		case token.NEQ, token.GTR:
			d = -1
		}
		if !wantZero {
			d = -d
		}
		return d
	})
}

// returnedConstBool resolves the boolean a return yields, including the form
// go/ssa gives functions with a defer: the result is spilled to a local cell
// (`*t0 = true; rundefers; t = *t0; return t`).
func returnedConstBool(r *ssa.Return) (val, ok bool) {
	if len(r.Results) != 1 {
		return false, false
	}
	if b, isC := core.ConstBool(r.Results[0]); isC {
		return b, true
	}
	ld, isLoad := r.Results[0].(*ssa.UnOp)
	if !isLoad || ld.Op != token.MUL {
		return false, false
	}
	cell, isAlloc := ld.X.(*ssa.Alloc)
	if !isAlloc {
		return false, false
	}
	instrs := r.Block().Instrs
	for i := len(instrs) - 1; i >= 0; i-- {
		if st, isStore := instrs[i].(*ssa.Store); isStore && st.Addr == ssa.Value(cell) {
			return core.ConstBool(st.Val)
		}
	}
	return false, false
}

// checkSplitLoops: the splitting loops of a copy path (R11.3; shared with C18 as
// R18.8, because a chunk that ignores the page boundary is only wrong where
// consecutive virtual pages are not physically consecutive: distributed buffers
// and unified devices).
func checkSplitLoops(c *core.Ctx, st3 *core.RuleStat, rule string, pkgs []*PkgInfo, prov *core.Prov) {
	for _, p := range pkgs {
		for _, fn := range p.Funcs {
			for _, sl := range findSplitLoops(fn) {
				st3.Instances++
				c.MarkAnalysed(fn)
				name := core.FuncName(fn)
				X := sl.chunk
				a, b, ok, why := minOf(X)
				st3.Ob(ok)
				if !ok {
					c.ReportAt(rule, fn, sl.rem.Pos(), "chunk:min", "the chunk size is not min(remaining, bytes left in the unit): "+why)
				} else {
					// one alternative is the remaining counter, the other depends on an address cursor of the loop
					var unit ssa.Value
					switch {
					case core.StripConv(a) == ssa.Value(sl.rem):
						unit = b
					case core.StripConv(b) == ssa.Value(sl.rem):
						unit = a
					}
					st3.Ob(unit != nil)
					if unit == nil {
						c.ReportAt(rule, fn, sl.rem.Pos(), "chunk:remaining", "neither alternative of the chunk size is the remaining byte count")
					} else {
						// the cursor that counts bytes of the host buffer starts at 0 and says nothing about
						// where the access unit ends: the remainder must follow a cursor that starts at an address
						dep := dependsOn(unit, func(v ssa.Value) bool {
							ph, ok := v.(*ssa.Phi)
							if !ok || ph.Block() != sl.header || ph == sl.rem {
								return false
							}
							for _, e := range ph.Edges {
								if k, isC := core.ConstInt(e); isC && k == 0 {
									return false
								}
							}
							return true
						}, map[ssa.Value]bool{}) || dependsOn(unit, func(v ssa.Value) bool {
							// ... or that adds the byte counter to an address handed in (vAddr + offset)
							prm, ok := v.(*ssa.Parameter)
							if !ok {
								return false
							}
							bt, isB := prm.Type().Underlying().(*types.Basic)
							return isB && bt.Info()&types.IsInteger != 0
						}, map[ssa.Value]bool{})
						st3.Ob(dep)
						st3.Sample("%s: chunk=min(remaining, %s)", name, short(prov.Of(unit)))
						if !dep {
							c.ReportAt(rule, fn, sl.rem.Pos(), "chunk:unit", "the unit remainder ("+short(prov.Of(unit))+") does not depend on the current address: chunks ignore page / cache-line boundaries")
						}
					}
				}
				// other cursors
				for _, in := range sl.header.Instrs {
					phi, isPhi := in.(*ssa.Phi)
					if !isPhi {
						break
					}
					if phi == sl.rem {
						continue
					}
					for _, e := range phi.Edges {
						bo, isB := e.(*ssa.BinOp)
						if !isB || (bo.Op != token.ADD && bo.Op != token.SUB) {
							continue
						}
						var step ssa.Value
						if bo.X == ssa.Value(phi) {
							step = bo.Y
						} else if bo.Y == ssa.Value(phi) && bo.Op == token.ADD {
							step = bo.X
						} else {
							continue
						}
						okS := step == X && bo.Op == token.ADD
						st3.Ob(okS)
						if !okS {
							c.ReportAt(rule, fn, bo.Pos(), "cursor:"+core.PinnedName(fn, phi.Comment), fmt.Sprintf("cursor %s advances by %s while the remaining count decreases by %s", phi.Comment, short(prov.Of(step)), short(prov.Of(X))))
						}
					}
				}
				// slices and sizes inside the loop
				for _, blk := range fn.Blocks {
					if !sl.header.Dominates(blk) {
						continue
					}
					for _, in := range blk.Instrs {
						if s, isS := in.(*ssa.Slice); isS && s.Low != nil && s.High != nil {
							hb, isB := s.High.(*ssa.BinOp)
							okSl := isB && hb.Op == token.ADD && ((hb.X == s.Low && hb.Y == X) || (hb.Y == s.Low && hb.X == X))
							st3.Ob(okSl)
							if !okSl {
								c.ReportAt(rule, fn, s.Pos(), "slice", "a buffer is sliced as ["+short(prov.Of(s.Low))+":"+short(prov.Of(s.High))+"], not [cursor:cursor+chunk]")
							}
						}
						// the page of a piece is looked up with the loop's address cursor
						if cc := core.CallOf(in); cc != nil && len(cc.Args) >= 1 {
							isFind := (cc.IsInvoke() && cc.Method.Name() == "Find") || (cc.StaticCallee() != nil && cc.StaticCallee().Name() == "Find")
							if isFind && strings.Contains(strings.ToLower(prov.Of(cc.Value)), "pagetable") {
								addrArg := cc.Args[len(cc.Args)-1]
								okF := dependsOn(addrArg, func(v ssa.Value) bool {
									ph, ok := v.(*ssa.Phi)
									return ok && ph.Block() == sl.header
								}, map[ssa.Value]bool{})
								st3.Ob(okF)
								if !okF {
									c.ReportAt(rule, fn, in.Pos(), "find:cursor", "inside the splitting loop the page is looked up at "+short(prov.Of(addrArg))+", which does not move with the loop: every piece is translated with the page of the first byte, so the part of the range that lies in another page lands behind the first page's frame")
								}
							}
						}
						if cc := core.CallOf(in); cc != nil {
							if f := core.CalleeFunc(in); f != nil && (f.Name() == "WithByteSize" || (f.Name() == "Read" && strings.HasSuffix(core.FuncID(f), "Storage.Read"))) {
								arg := cc.Args[len(cc.Args)-1]
								okB := arg == X
								st3.Ob(okB)
								if !okB {
									c.ReportAt(rule, fn, in.Pos(), "size", "the transaction size is "+short(prov.Of(arg))+", not the chunk size")
								}
							}
						}
					}
				}
			}
		}
	}
}

// hostSizeCut: a zero test of binary.Size(v) or len(v) where v is the command's field `host`
// (directly, or through a one-expression helper whose parameter is bound to it); the edge on
// which the size is non-zero.
func hostSizeCut(prov *core.Prov, host string) EdgeCut {
	return func(n *core.Node, i int) bool {
		ifi, ok := n.Instr.(*ssa.If)
		if !ok {
			return false
		}
		v, neg := stripNot(ifi.Cond)
		var outer *ssa.Call
		if body, ok := predicateBody(v); ok {
			outer, _ = v.(*ssa.Call)
			v2, n2 := stripNot(body)
			v = v2
			if n2 {
				neg = !neg
			}
		}
		b, ok := v.(*ssa.BinOp)
		if !ok {
			return false
		}
		x, y := b.X, b.Y
		op := b.Op
		if _, isK := core.ConstInt(x); isK {
			x, y, op = y, x, mirrorCmp(op)
		}
		if z, isK := core.ConstInt(y); !isK || z != 0 {
			return false
		}
		call, ok := core.StripConv(x).(*ssa.Call)
		if !ok || len(call.Call.Args) == 0 {
			return false
		}
		arg := call.Call.Args[0]
		if mi, isMI := arg.(*ssa.MakeInterface); isMI {
			arg = mi.X
		}
		if p, isP := arg.(*ssa.Parameter); isP && outer != nil {
			for k, fp := range outer.Call.StaticCallee().Params {
				if fp == p && k < len(outer.Call.Args) {
					arg = outer.Call.Args[k]
				}
			}
			if mi, isMI := arg.(*ssa.MakeInterface); isMI {
				arg = mi.X
			}
		}
		if !strings.HasSuffix(prov.Of(arg), "."+host) {
			return false
		}
		d := 0
		switch op {
		case token.EQL, token.LEQ:
			d = -1 // non-zero on the false edge
		case token.NEQ, token.GTR:
			d = 1
		}
		if neg {
			d = -d
		}
		if d > 0 {
			return i == 0
		}
		return d < 0 && i == 1
	}
}

// checkFlushDecision: the decision whether a copy must be preceded by a cache flush
// (R11.1; R12.32 for the queue property: a copy observes the kernels before it in its
// queue only through that flush).
func checkFlushDecision(c *core.Ctx, rule string, pd *PkgInfo, prov *core.Prov) {
	// ---------------- R11.1 overlap predicate ----------------
	st1 := c.Rule(rule, "memRangeOverlap(s1,e1,s2,e2) equals s1<e2 && s2<e1 on every weak ordering of its four arguments with s1<e1 and s2<e2 (abstract interpretation of the comparison skeleton over the order domain)", 1)
	if fn := c.MustFunc(rule, driverPkg, "memRangeOverlap"); fn != nil {
		c.MarkAnalysed(fn)
		st1.Instances++
		if len(fn.Params) != 4 {
			c.Undecided(rule, fn, fn.Pos(), "arity", "overlap predicate no longer has four parameters")
		} else {
			for _, w := range weakOrderings(4) {
				s1, e1, s2, e2 := w[0], w[1], w[2], w[3]
				if !(s1 < e1 && s2 < e2) {
					continue
				}
				rank := map[*ssa.Parameter]int{fn.Params[0]: s1, fn.Params[1]: e1, fn.Params[2]: s2, fn.Params[3]: e2}
				got, ok := orderEval(fn, rank)
				if !ok {
					c.Undecided(rule, fn, fn.Pos(), "shape", "the predicate is no longer a pure comparison skeleton; cannot be decided over the order domain")
					break
				}
				want := s1 < e2 && s2 < e1
				st1.Ob(got == want)
				if len(st1.Samples) < 4 {
					st1.Sample("ordering s1=%d e1=%d s2=%d e2=%d: got %v want %v", s1, e1, s2, e2, got, want)
				}
				if got != want {
					c.ReportAt(rule, fn, fn.Pos(), fmt.Sprintf("ordering:s1=%d,e1=%d,s2=%d,e2=%d", s1, e1, s2, e2),
						fmt.Sprintf("for the ordering (ranks) s1=%d e1=%d s2=%d e2=%d the predicate yields %v, overlapping=%v: a dirty buffer overlapping the copy is missed (or a disjoint one flushed)", s1, e1, s2, e2, got, want))
				}
			}
		}
	}
	// needFlushing uses the predicate with (buffer start, buffer end, copy start, copy end) and requires dirtiness
	if fn := c.MustFunc(rule, driverPkg, "defaultMemoryCopyMiddleware.needFlushing"); fn != nil {
		g := core.BuildGraph(fn, 3, func(cal *ssa.Function) bool { return cal.Pkg == fn.Pkg })
		st1.Instances++
		found := false
		for _, n := range g.Nodes {
			if callsFunc(n.Instr, pd.Pkg, "memRangeOverlap") {
				found = true
				var a []string
				for _, x := range core.CallOf(n.Instr).Args {
					a = append(a, prov.Of(x))
				}
				ok := len(a) == 4 && core.ProvMatch(regexp.MustCompile(`\.buffers\[[^\]]*\]\.vAddr$`), a[0]) &&
					core.ProvEq(a[1], "("+a[0]+"+"+strings.TrimSuffix(a[0], ".vAddr")+".size)") &&
					(strings.HasPrefix(a[3], "("+a[2]+"+") || strings.HasSuffix(a[3], "+"+a[2]+")")) && !strings.Contains(a[2], ".buffers[")
				st1.Ob(ok)
				st1.Sample("needFlushing: memRangeOverlap(%s)", strings.Join(a, ", "))
				if !ok {
					c.ReportAt(rule, fn, n.Instr.Pos(), "needFlushing:args", "the overlap test is not (buffer start, buffer start+size, copy start, copy start+size): "+strings.Join(a, ", "))
				}
				// a buffer can have been allocated through any context of the process
				// (InitWithExistingPID): the buffers examined are those of the driver's
				// contexts with the copy's process ID, not only the copying context's
				st1.Instances++
				okAll := len(a) == 4 && strings.Contains(a[0], ".contexts[")
				st1.Ob(okAll)
				if !okAll {
					c.ReportAt(rule, fn, n.Instr.Pos(), "needFlushing:single-context", "needFlushing examines only the buffers of the copying context ("+short(a[0])+"): a buffer allocated through another context of the same process (InitWithExistingPID) and written by a kernel is copied without a flush")
				}
			}
		}
		if !found {
			c.ReportAt(rule, fn, fn.Pos(), "needFlushing:no-overlap-test", "needFlushing no longer tests range overlap")
		}
		for _, r := range g.NodesWhere(func(n *core.Node) bool { _, ok := n.Instr.(*ssa.Return); return ok }) {
			ret := r.Instr.(*ssa.Return)
			if b, isC := core.ConstBool(ret.Results[0]); isC && !b {
				// returning false must not be possible while an overlapping dirty buffer exists: the false return is after the loop only
				continue
			}
		}
		// an overlapping dirty buffer forces true: from the edge (overlap true & dirty true) only `return true` is reachable
		st1.Instances++
		okTrue := true
		for _, n := range g.Nodes {
			ifi, ok := n.Instr.(*ssa.If)
			if !ok {
				continue
			}
			// the dirty test itself, or a test of the result of a helper that
			// contains it (needFlushing -> per-context helper)
			isDirtyTest := false
			if f := core.LoadedField(ifi.Cond); f != nil && f.Name() == "l2Dirty" {
				isDirtyTest = true
			}
			if call, ok := ifi.Cond.(*ssa.Call); ok {
				if cal := call.Call.StaticCallee(); cal != nil && cal.Pkg == fn.Pkg {
					for _, b2 := range cal.Blocks {
						for _, i2 := range b2.Instrs {
							if fa, ok := i2.(*ssa.FieldAddr); ok && core.FieldOfAddr(fa) != nil && core.FieldOfAddr(fa).Name() == "l2Dirty" {
								isDirtyTest = true
							}
						}
					}
				}
			}
			if isDirtyTest {
				g.Walk([]core.State{{N: n.Succs[0]}}, core.WalkOpts{ForwardOnly: true}, func(s core.State) {
					if r, ok := s.N.Instr.(*ssa.Return); ok && s.N.Frame == n.Frame {
						if b, isC := returnedConstBool(r); !isC || !b {
							okTrue = false
						}
					}
				})
			}
		}
		st1.Ob(okTrue)
		if !okTrue {
			c.ReportAt(rule, fn, fn.Pos(), "needFlushing:dirty-not-true", "an overlapping dirty buffer does not force needFlushing to return true")
		}
	}
}
