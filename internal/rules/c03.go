package rules

import (
	"fmt"
	"go/ast"
	"go/constant"
	"go/token"
	"go/types"
	"regexp"
	"sort"
	"strings"

	"golang.org/x/tools/go/packages"
	"golang.org/x/tools/go/ssa"

	"verif/internal/core"
)

func init() { register("C03", runC03) }

type aluDesc struct {
	pkg, typ string
}

type handlerRef struct {
	alu     aluDesc
	format  string // FormatType constant name
	opcodes []int64
	name    string // handler method name
	insts   []string
	instOps map[string]int64 // mnemonic -> the opcode it is dispatched under
}

// dispatchersOf maps format -> dispatcher method for an ALU (from Run's switch).
func dispatchersOf(c *core.Ctx, a aluDesc) (map[string]string, *ast.FuncDecl) {
	p := c.Pkg(a.pkg)
	run := findFuncDecl(p, a.typ+".Run")
	out := map[string]string{}
	if run == nil {
		return out, nil
	}
	var sw *ast.SwitchStmt
	ast.Inspect(run.Body, func(n ast.Node) bool {
		if s, ok := n.(*ast.SwitchStmt); ok && sw == nil && s.Tag != nil && strings.HasSuffix(exprString(s.Tag), "FormatType") {
			sw = s
		}
		return true
	})
	if sw == nil {
		return out, run
	}
	for _, st := range sw.Body.List {
		cc := st.(*ast.CaseClause)
		callee := ""
		for _, b := range cc.Body {
			ast.Inspect(b, func(n ast.Node) bool {
				if call, ok := n.(*ast.CallExpr); ok && callee == "" {
					if sel, ok := call.Fun.(*ast.SelectorExpr); ok && strings.HasPrefix(sel.Sel.Name, "run") {
						callee = sel.Sel.Name
					}
				}
				return true
			})
		}
		for _, e := range cc.List {
			if sel, ok := e.(*ast.SelectorExpr); ok {
				out[sel.Sel.Name] = callee
			}
		}
	}
	return out, run
}

type opcodeCase struct {
	values  []int64
	callees []string
	panics  bool
	isDef   bool
	pos     token.Pos
	empty   bool
}

// opcodeCases returns all case clauses of switches over the opcode in a dispatcher.
func opcodeCases(p *packages.Package, fd *ast.FuncDecl) (cases []opcodeCase, switches int) {
	ast.Inspect(fd.Body, func(n ast.Node) bool {
		sw, ok := n.(*ast.SwitchStmt)
		if !ok || sw.Tag == nil {
			return true
		}
		ts := exprString(sw.Tag)
		if !strings.HasSuffix(ts, "Opcode") && !strings.HasSuffix(ts, "opcode") {
			return true
		}
		// a switch over the opcode none of whose arms calls a handler is a
		// guard (it rejects or admits opcodes), not a dispatcher
		dispatches := false
		ast.Inspect(sw.Body, func(n ast.Node) bool {
			if call, ok := n.(*ast.CallExpr); ok {
				name := exprString(call.Fun)
				if _, isSel := call.Fun.(*ast.SelectorExpr); isSel && !strings.HasPrefix(name, "log.") && !strings.HasPrefix(name, "fmt.") {
					dispatches = true
				}
			}
			return true
		})
		if !dispatches {
			return true
		}
		switches++
		for _, st := range sw.Body.List {
			cc := st.(*ast.CaseClause)
			oc := opcodeCase{isDef: cc.List == nil, pos: cc.Pos()}
			for _, e := range cc.List {
				if v, ok := constInt64(p, e); ok {
					oc.values = append(oc.values, v)
				}
			}
			stmts := 0
			for _, b := range cc.Body {
				stmts++
				ast.Inspect(b, func(n ast.Node) bool {
					if call, ok := n.(*ast.CallExpr); ok {
						name := exprString(call.Fun)
						if name == "log.Panicf" || name == "log.Panic" || name == "panic" || name == "log.Fatalf" {
							oc.panics = true
							return true
						}
						if sel, ok := call.Fun.(*ast.SelectorExpr); ok && strings.HasPrefix(sel.Sel.Name, "run") {
							oc.callees = append(oc.callees, sel.Sel.Name)
						}
					}
					return true
				})
			}
			oc.empty = stmts == 0
			cases = append(cases, oc)
		}
		return true
	})
	return
}

// instructions that have no architectural effect in functional emulation
var functionalNoOps = map[string]string{
	"s_nop":     "no architectural effect",
	"s_waitcnt": "orders memory operations; functional emulation executes them synchronously",
}

var shiftName = regexp.MustCompile(`_(lshl|lshr|ashr|lshlrev|lshrrev|ashrrev)_[biu](16|32|64)$`)

func runC03(c *core.Ctx) core.Meta {
	c.Load(emuPkg, cdna3Pkg, instsPkg, cuPkg, wfPkg)
	c.BuildSSA()
	t := LoadInstTables(c)
	prov := core.NewLocalProv(c)
	alus := []aluDesc{{emuPkg, "ALUImpl"}, {cdna3Pkg, "ALU"}}

	st3 := c.Rule("R03.3", "dispatch integrity: every format dispatcher of both ALUs selects exactly one handler per opcode case, has a default arm that panics (an unimplemented opcode is never a silent no-op) and no empty case", 500)
	var handlers []handlerRef
	for _, a := range alus {
		p := c.Pkg(a.pkg)
		disp, run := dispatchersOf(c, a)
		if run == nil || len(disp) < 10 {
			c.Report(core.Finding{Rule: "R03.3", Kind: "anchor", Pkg: a.pkg, Func: a.typ + ".Run", Detail: "anchor", Msg: "Run dispatch over the format type not found"})
			continue
		}
		for _, format := range sortedKeys(disp) {
			dn := disp[format]
			fd := findFuncDecl(p, a.typ+"."+dn)
			if fd == nil {
				c.Report(core.Finding{Rule: "R03.3", Kind: "anchor", Pkg: a.pkg, Func: a.typ + "." + dn, Detail: "anchor", Msg: "dispatcher not found"})
				continue
			}
			cases, nsw := opcodeCases(p, fd)
			if nsw == 0 {
				continue // e.g. runFlat may dispatch differently
			}
			hasDefault := false
			for _, oc := range cases {
				st3.Instances++
				if oc.isDef {
					hasDefault = true
					ok := oc.panics || len(oc.callees) > 0
					st3.Ob(ok)
					if !ok {
						c.Report(core.Finding{Rule: "R03.3", Pkg: a.pkg, Func: a.typ + "." + dn, Detail: "default-not-panicking", Pos: c.Position(oc.pos), Msg: "the default arm of the opcode switch neither panics nor delegates: an unimplemented opcode executes as a silent no-op"})
					}
					continue
				}
				uniq := map[string]bool{}
				for _, cl := range oc.callees {
					uniq[cl] = true
				}
				ok := (len(uniq) >= 1 || oc.panics) && !oc.empty
				if !ok {
					// architectural no-ops of functional emulation, by instruction name from the decode table
					all := len(oc.values) > 0
					for _, op := range oc.values {
						r, has := t.Lookup(format, op)
						if !has || functionalNoOps[r.Name] == "" {
							all = false
						}
					}
					if all {
						ok = true
					}
				}
				st3.Ob(ok)
				if !ok {
					c.Report(core.Finding{Rule: "R03.3", Pkg: a.pkg, Func: a.typ + "." + dn, Detail: fmt.Sprintf("case-without-handler:%v", oc.values), Pos: c.Position(oc.pos), Msg: fmt.Sprintf("opcode case %v has no handler: the instruction executes as a silent no-op", oc.values)})
				}
				// a case whose opcode has no decode-table row can never be reached:
				// its handler is dead code or, more likely, filed under the wrong
				// opcode (the instruction then panics as "not implemented")
				if len(uniq) > 0 {
					for _, op := range oc.values {
						st3.Instances++
						_, has := t.Lookup(format, op)
						if !has {
							// VOP3a and VOP3b share one encoding and opcode space: an opcode
							// tabled in the sibling format may keep an alias case here (for
							// instructions built by hand) as long as the sibling's dispatcher
							// sends the opcode to the same handler
							sib := map[string]string{"VOP3a": "VOP3b", "VOP3b": "VOP3a"}[format]
							if _, hasSib := t.Lookup(sib, op); sib != "" && hasSib {
								if sfd := findFuncDecl(p, a.typ+"."+disp[sib]); sfd != nil {
									scases, _ := opcodeCases(p, sfd)
									for _, sc := range scases {
										for _, sop := range sc.values {
											if sop == op && strings.Join(sc.callees, ",") == strings.Join(oc.callees, ",") {
												has = true
											}
										}
									}
								}
							}
						}
						st3.Ob(has)
						if !has {
							c.Report(core.Finding{Rule: "R03.3", Pkg: a.pkg, Func: a.typ + "." + dn, Detail: fmt.Sprintf("case-without-decode-row:%s:%d", format, op), Pos: c.Position(oc.pos), Msg: fmt.Sprintf("%s dispatches opcode %d of format %s to %v, but the decode table has no %s instruction with that opcode: the case is unreachable and the instruction the handler implements is dispatched nowhere", dn, op, format, sortedKeys(uniq), format)})
						}
					}
				}
				for cl := range uniq {
					h := handlerRef{alu: a, format: format, opcodes: oc.values, name: cl, instOps: map[string]int64{}}
					for _, op := range oc.values {
						if r, ok := t.Lookup(format, op); ok {
							h.insts = append(h.insts, r.Name)
							h.instOps[r.Name] = op
						}
					}
					handlers = append(handlers, h)
				}
			}
			st3.Instances++
			st3.Ob(hasDefault)
			if !hasDefault {
				c.Report(core.Finding{Rule: "R03.3", Pkg: a.pkg, Func: a.typ + "." + dn, Detail: "no-default", Pos: c.Position(fd.Pos()), Msg: "the opcode switch has no default arm: an unimplemented opcode executes as a silent no-op"})
			}
			st3.Sample("%s.%s: %d opcode cases", a.typ, dn, len(cases))
		}
	}

	// ---------------- R03.1 condition-code totality ----------------
	st1 := c.Rule("R03.1", "ALL-OR-NONE: a handler that sets a condition code (SetSCC / SetVCC / SetEXEC) on some path to its normal return sets it on every such path; the ISA defines the code as a function of the result, a handler that only ever sets it leaves a stale value behind", 150)
	for _, a := range alus {
		for _, fn := range c.SrcFuncs(a.pkg) {
			if fn.Signature.Recv() == nil || !strings.HasPrefix(fn.Name(), "run") {
				continue
			}
			g := core.BuildGraph(fn, 2, func(cal *ssa.Function) bool {
				return cal.Pkg == fn.Pkg && !strings.HasPrefix(cal.Name(), "run")
			})
			for _, m := range []string{"SetSCC", "SetVCC", "SetEXEC"} {
				m := m
				isSet := func(n *core.Node) bool { name, _ := stateMethod(n.Instr); return name == m }
				sets := g.NodesWhere(isSet)
				if len(sets) == 0 {
					continue
				}
				// dispatchers call many handlers; only leaf handlers (direct sets in root frame or helpers)
				direct := false
				for _, s := range sets {
					if s.Frame.Parent == nil {
						direct = true
					}
				}
				if !direct {
					continue
				}
				st1.Instances++
				c.MarkAnalysed(fn)
				missing := false
				// a call of a sibling handler (run*, not inlined) that sets the code itself - and is
				// judged by this rule in its own right - sets it on that path
				isSetOrHandler := func(n *core.Node) bool {
					if isSet(n) {
						return true
					}
					cc := core.CallOf(n.Instr)
					if cc == nil || cc.IsInvoke() {
						return false
					}
					cal := cc.StaticCallee()
					if cal == nil || cal.Pkg != fn.Pkg || !strings.HasPrefix(cal.Name(), "run") {
						return false
					}
					for _, cb := range cal.Blocks {
						for _, cin := range cb.Instrs {
							if name, _ := stateMethod(cin); name == m {
								return true
							}
						}
					}
					return false
				}
				g.Walk([]core.State{{N: g.Entry}}, core.WalkOpts{Stop: isSetOrHandler}, func(s core.State) {
					if _, ok := s.N.Instr.(*ssa.Return); ok && s.N.Frame.Parent == nil {
						missing = true
					}
				})
				st1.Ob(!missing)
				if missing {
					c.ReportAt("R03.1", fn, fn.Pos(), "one-sided:"+m, fmt.Sprintf("%s is called on some paths of %s but a path returns without calling it: the condition code keeps its previous value instead of being computed from this instruction's result", m, core.FuncName(fn)))
				} else {
					st1.Sample("%s: %s on every path", core.FuncName(fn), m)
				}
			}
		}
	}

	// ---------------- R03.6 float-to-integer conversions are range-guarded ----------------
	st6 := c.Rule("R03.6", "a conversion of a floating-point operand value to an integer type in an instruction handler is reached only on paths on which that floating-point value was compared against an upper and a lower bound (or a 64-bit integer image of it, which on the supported Go ports is outside the 32-bit range for out-of-range inputs): Go leaves out-of-range and NaN conversions implementation-specific, while the ISA saturates; and no range test compares an already converted integer with a bound of its own type (such a clamp can never fire)", 4)
	st30 := c.Rule("R03.30", "a conversion of a floating-point operand value to a 16- or 32-bit integer type in an instruction handler is reached only on paths that tested that value for NaN (math.IsNaN of it, or a self-comparison) in a branch that dominates the conversion: v_cvt_i32_f32 and v_cvt_u32_f32 of NaN are 0", 3)
	for _, a := range alus {
		for _, fn := range c.SrcFuncs(a.pkg) {
			if fn.Signature.Recv() == nil {
				continue
			}
			isFloat := func(t types.Type) bool {
				b, ok := t.Underlying().(*types.Basic)
				return ok && b.Info()&types.IsFloat != 0
			}
			isInt := func(t types.Type) bool {
				b, ok := t.Underlying().(*types.Basic)
				return ok && b.Info()&types.IsInteger != 0
			}
			// floats that are the same runtime value: through float32<->float64 widening and phi-free copies
			var rootF func(v ssa.Value) ssa.Value
			rootF = func(v ssa.Value) ssa.Value {
				if cv, ok := v.(*ssa.Convert); ok && isFloat(cv.X.Type()) && isFloat(cv.Type()) {
					return rootF(cv.X)
				}
				return v
			}
			is64 := func(t types.Type) bool {
				b, ok := t.Underlying().(*types.Basic)
				return ok && (b.Kind() == types.Int64 || b.Kind() == types.Uint64)
			}
			// rootC: as rootF, and a 64-bit integer image of a float stands for the float in a range test
			rootC := func(v ssa.Value) ssa.Value {
				if cv, ok := v.(*ssa.Convert); ok && isFloat(cv.X.Type()) && is64(cv.Type()) {
					return rootF(cv.X)
				}
				return rootF(v)
			}
			for _, b := range fn.Blocks {
				for _, in := range b.Instrs {
					cv, ok := in.(*ssa.Convert)
					if !ok || !isFloat(cv.X.Type()) || !isInt(cv.Type()) {
						continue
					}
					if _, isC := cv.X.(*ssa.Const); isC {
						continue
					}
					src := rootF(cv.X)
					// a 64-bit integer image that only feeds range tests is itself the test (idiom `uint64(f) > MaxUint32`)
					if is64(cv.Type()) {
						onlyCmp := cv.Referrers() != nil && len(*cv.Referrers()) > 0
						for _, r := range *cv.Referrers() {
							if bo, ok := r.(*ssa.BinOp); !ok || !(bo.Op == token.GTR || bo.Op == token.GEQ || bo.Op == token.LSS || bo.Op == token.LEQ) {
								onlyCmp = false
							}
						}
						if onlyCmp {
							continue
						}
					}
					// results of rounding helpers keep the range question open; values produced from an integer are in range
					if c2, ok := src.(*ssa.Convert); ok && isInt(c2.X.Type()) {
						continue
					}
					st6.Instances++
					c.MarkAnalysed(fn)
					upper, lower := false, false
					for _, b2 := range fn.Blocks {
						for _, i2 := range b2.Instrs {
							bo, ok := i2.(*ssa.BinOp)
							if !ok {
								continue
							}
							var side int // +1: src OP bound, -1: bound OP src
							switch {
							case rootC(bo.X) == src:
								side = 1
							case rootC(bo.Y) == src:
								side = -1
							default:
								continue
							}
							// the comparison must decide the branch that leads (or does not lead) to the conversion
							decides := false
							for _, ref := range *bo.Referrers() {
								if iff, ok := ref.(*ssa.If); ok && iff.Block().Dominates(b) && iff.Block() != b {
									decides = true
								}
								if iff, ok := ref.(*ssa.If); ok && iff.Block() == b {
									_ = iff // same block: the test comes after the conversion
								}
							}
							if !decides {
								continue
							}
							switch bo.Op {
							case token.GTR, token.GEQ:
								if side > 0 {
									upper = true
								} else {
									lower = true
								}
							case token.LSS, token.LEQ:
								if side > 0 {
									lower = true
								} else {
									upper = true
								}
							}
						}
					}
					// R03.30: NaN excluded before the conversion
					nan := false
					for _, b2 := range fn.Blocks {
						for _, i2 := range b2.Instrs {
							var test ssa.Value
							switch x := i2.(type) {
							case *ssa.Call:
								if cal := x.Call.StaticCallee(); cal != nil && cal.Pkg != nil && cal.Pkg.Pkg.Path() == "math" && cal.Name() == "IsNaN" && len(x.Call.Args) == 1 && rootF(x.Call.Args[0]) == src {
									test = x
								}
							case *ssa.BinOp:
								if (x.Op == token.NEQ || x.Op == token.EQL) && rootF(x.X) == src && rootF(x.Y) == src {
									test = x
								}
							}
							if test == nil || test.Referrers() == nil {
								continue
							}
							// the test may be combined with others (a || b): follow to the If through phi-free uses
							work := []ssa.Value{test}
							for len(work) > 0 {
								v := work[0]
								work = work[1:]
								for _, ref := range *v.Referrers() {
									switch r := ref.(type) {
									case *ssa.If:
										if r.Block().Dominates(b) && r.Block() != b {
											nan = true
										}
									case *ssa.UnOp:
										work = append(work, r)
									case *ssa.Phi: // short-circuit || / &&
										if r.Referrers() != nil {
											work = append(work, r)
										}
									}
								}
							}
						}
					}
					if bk, ok := cv.Type().Underlying().(*types.Basic); ok && (bk.Kind() == types.Int32 || bk.Kind() == types.Uint32 || bk.Kind() == types.Int16 || bk.Kind() == types.Uint16 || bk.Kind() == types.Int || bk.Kind() == types.Uint) {
						st30.Instances++
						st30.Ob(nan)
						if !nan {
							c.ReportAt("R03.30", fn, in.Pos(), fmt.Sprintf("nan-unguarded-f2i:%s", cv.Type()), fmt.Sprintf("a %s operand value is converted to %s on a path that never tested it for NaN: range comparisons are false for NaN, so NaN reaches the conversion, whose Go result is implementation-specific (0x80000000 on amd64); the ISA gives 0", cv.X.Type(), cv.Type()))
						}
					}
					ok2 := upper && lower
					st6.Ob(ok2)
					st6.Sample("%s: %s(%s) upper-bound test: %v lower-bound test: %v", core.FuncName(fn), cv.Type(), cv.X.Type(), upper, lower)
					if !ok2 {
						c.ReportAt("R03.6", fn, in.Pos(), fmt.Sprintf("unguarded-f2i:%s", cv.Type()), fmt.Sprintf("a %s value is converted to %s without having been compared against both bounds of the integer range first (upper bound tested: %v, lower bound tested: %v): for out-of-range inputs and NaN Go's result is implementation-specific, the ISA prescribes saturation", cv.X.Type(), cv.Type(), upper, lower))
					}
				}
			}
			// clamps that cannot fire: int<W>(x) compared with a bound of int<W>
			for _, b := range fn.Blocks {
				for _, in := range b.Instrs {
					bo, ok := in.(*ssa.BinOp)
					if !ok {
						continue
					}
					for _, pr := range [][2]ssa.Value{{bo.X, bo.Y}, {bo.Y, bo.X}} {
						cv, ok := pr[0].(*ssa.Convert)
						k, isC := pr[1].(*ssa.Const)
						if !ok || !isC || !isFloat(cv.X.Type()) || !isInt(cv.Type()) || k.Value == nil {
							continue
						}
						bt := cv.Type().Underlying().(*types.Basic)
						lo, hi, okR := intRange(bt.Kind())
						kv, exact := constant.Int64Val(constant.ToInt(k.Value))
						if !okR || !exact {
							continue
						}
						op := bo.Op
						if pr[0] == bo.Y { // bound OP conv -> mirror
							op = map[token.Token]token.Token{token.LSS: token.GTR, token.GTR: token.LSS, token.LEQ: token.GEQ, token.GEQ: token.LEQ}[op]
						}
						dead := (op == token.GTR && kv >= hi) || (op == token.LSS && kv <= lo) || (op == token.GEQ && kv > hi) || (op == token.LEQ && kv < lo)
						if op == token.GTR || op == token.LSS || op == token.GEQ || op == token.LEQ {
							st6.Instances++
							st6.Ob(!dead)
							if dead {
								c.ReportAt("R03.6", fn, in.Pos(), fmt.Sprintf("dead-clamp:%s%s%d", cv.Type(), op, kv), fmt.Sprintf("%s(x) %s %d can never hold: the saturation branch behind it is dead, the test has to be made on the floating-point value before converting", cv.Type(), op, kv))
							}
						}
					}
				}
			}
		}
	}

	// ---------------- R03.7 no implicit zero result ----------------
	st7 := c.Rule("R03.7", "the value a handler writes to its vector destination is assigned on every path: a result variable declared without a value and assigned only in the arms of an if / else-if chain (or switch) that has no final else (default) is the zero value whenever none of the conditions holds, although the ISA defines the result as a function of the operands for every input", 5)
	for _, a := range alus {
		pk := c.Pkg(a.pkg)
		core.FuncDecls(pk, func(fd *ast.FuncDecl) {
			if fd.Recv == nil || !strings.HasPrefix(fd.Name.Name, "run") {
				return
			}
			// result variables: `var x T` (no initialiser) whose value reaches WriteOperand(inst.Dst, lane, x)
			written := map[string]bool{}
			ast.Inspect(fd.Body, func(n ast.Node) bool {
				call, ok := n.(*ast.CallExpr)
				if !ok || len(call.Args) != 3 || !strings.HasSuffix(exprString(call.Fun), ".WriteOperand") || !strings.HasSuffix(exprString(call.Args[0]), ".Dst") {
					return true
				}
				ast.Inspect(call.Args[2], func(m ast.Node) bool {
					if id, ok := m.(*ast.Ident); ok {
						written[id.Name] = true
					}
					return true
				})
				return true
			})
			ast.Inspect(fd.Body, func(n ast.Node) bool {
				blk, ok := n.(*ast.BlockStmt)
				if !ok {
					return true
				}
				for i, st := range blk.List {
					ds, ok := st.(*ast.DeclStmt)
					if !ok {
						continue
					}
					gd, ok := ds.Decl.(*ast.GenDecl)
					if !ok || gd.Tok != token.VAR {
						continue
					}
					for _, sp := range gd.Specs {
						vs := sp.(*ast.ValueSpec)
						if len(vs.Values) != 0 {
							continue
						}
						for _, nm := range vs.Names {
							if !written[nm.Name] {
								continue
							}
							// every later statement of this block that assigns nm
							var assigners []ast.Stmt
							for _, later := range blk.List[i+1:] {
								assigns := false
								ast.Inspect(later, func(m ast.Node) bool {
									if as, ok := m.(*ast.AssignStmt); ok {
										for _, l := range as.Lhs {
											if id, ok := l.(*ast.Ident); ok && id.Name == nm.Name {
												assigns = true
											}
										}
									}
									return true
								})
								if assigns {
									assigners = append(assigners, later)
								}
							}
							if len(assigners) != 1 {
								continue // assigned unconditionally somewhere, or built up in steps
							}
							open := ""
							switch t := assigners[0].(type) {
							case *ast.IfStmt:
								cur := t
								for {
									if cur.Else == nil {
										open = "the if / else-if chain has no final else"
										break
									}
									nx, ok := cur.Else.(*ast.IfStmt)
									if !ok {
										break
									}
									cur = nx
								}
							case *ast.SwitchStmt:
								hasDef := false
								for _, cc := range t.Body.List {
									if len(cc.(*ast.CaseClause).List) == 0 {
										hasDef = true
									}
								}
								if !hasDef {
									open = "the switch has no default"
								}
							default:
								continue
							}
							st7.Instances++
							st7.Ob(open == "")
							st7.Sample("%s.%s: result variable %s assigned by a closed chain: %v", a.typ, fd.Name.Name, nm.Name, open == "")
							if open != "" {
								c.Report(core.Finding{Rule: "R03.7", Pkg: a.pkg, Func: a.typ + "." + fd.Name.Name, Detail: "implicit-zero:" + nm.Name, Pos: c.Position(assigners[0].Pos()),
									Msg: fmt.Sprintf("%s is declared without a value and assigned only inside a chain of conditions (%s); for every input that matches none of them the destination register receives 0", nm.Name, open)})
							}
						}
					}
				}
				return true
			})
		})
	}

	// ---------------- R03.8 compare instructions: truth table over the ordering domain ----------------
	st8 := c.Rule("R03.8", "every compare handler (v_cmp / v_cmpx / s_cmp, tied to its instruction name through decode table -> dispatch switch -> callee) sets its result bit exactly for the orderings of (S0, S1) that the name prescribes - decided by resolving the handler's comparisons of the two operand values under each of less / equal / greater / unordered (NaN) and asking whether the bit-setting block is reachable - and compares values of the signedness, width and kind (i / u / f) the name prescribes", 150)
	cmpName := regexp.MustCompile(`^(v_cmpx?|s_cmpk?)_(f|lt|eq|le|gt|lg|ne|ge|o|u|nge|nlg|ngt|nle|neq|nlt|tru|t)_([iuf])(16|32|64)(_e32|_e64)?$`)
	wantSet := map[string]string{"f": "", "lt": "L", "eq": "E", "le": "LE", "gt": "G", "lg": "LG", "ne": "LG", "ge": "EG", "o": "LEG", "u": "U",
		"nge": "LU", "nlg": "EU", "ngt": "LEU", "nle": "GU", "neq": "LGU", "nlt": "EGU", "tru": "LEGU", "t": "LEGU"}
	seen8 := map[string]bool{}
	type cmpJob struct {
		h  handlerRef
		m  []string
		op int64
	}
	var jobs []cmpJob
	for _, h := range handlers {
		for _, n := range h.insts {
			if mm := cmpName.FindStringSubmatch(n); mm != nil {
				key := h.alu.pkg + "." + h.name + "|" + mm[2] + mm[3] + mm[4]
				if !seen8[key] {
					seen8[key] = true
					jobs = append(jobs, cmpJob{h, mm, h.instOps[n]})
				}
			}
		}
	}
	for _, job := range jobs {
		h, m := job.h, job.m
		fn := c.SSAFunc(h.alu.pkg, h.alu.typ+"."+h.name)
		if fn == nil {
			continue
		}
		opTok, kind, width := m[2], m[3], m[4]
		// a handler that only delegates to another handler is judged by what it delegates to
		for hop := 0; hop < 2; hop++ {
			var only *ssa.Function
			n := 0
			for _, b := range fn.Blocks {
				for _, in := range b.Instrs {
					if cc := core.CallOf(in); cc != nil {
						n++
						if cal := cc.StaticCallee(); cal != nil && cal.Pkg == fn.Pkg && strings.HasPrefix(cal.Name(), "run") {
							only = cal
						}
					}
				}
			}
			if n == 1 && only != nil && len(fn.Blocks) == 1 {
				fn = only
			} else {
				break
			}
		}
		// comparisons of the two operand values
		side := func(v ssa.Value) string {
			pv := prov.Of(v)
			if !strings.Contains(pv, "ReadOperand(") {
				return ""
			}
			has0, has1 := strings.Contains(pv, ".Src0"), strings.Contains(pv, ".Src1")
			if m[1] == "s_cmpk" { // the 32-bit destination register is compared with the sign-extended immediate
				has0, has1 = strings.Contains(pv, ".Dst"), strings.Contains(pv, ".SImm16")
			}
			switch {
			case has0 && !has1:
				return "0"
			case has1 && !has0:
				return "1"
			}
			return ""
		}
		type cmpIf struct {
			bo     *ssa.BinOp
			mirror bool
		}
		cmps := map[*ssa.BinOp]cmpIf{}
		var typeSample types.Type
		for _, b := range fn.Blocks {
			for _, in := range b.Instrs {
				bo, ok := in.(*ssa.BinOp)
				if !ok {
					continue
				}
				switch bo.Op {
				case token.LSS, token.LEQ, token.GTR, token.GEQ, token.EQL, token.NEQ:
				default:
					continue
				}
				sx, sy := side(bo.X), side(bo.Y)
				if sx == "0" && sy == "1" {
					cmps[bo] = cmpIf{bo, false}
					typeSample = bo.X.Type()
				} else if sx == "1" && sy == "0" {
					cmps[bo] = cmpIf{bo, true}
					typeSample = bo.X.Type()
				}
			}
		}
		// the block that sets the result bit
		var setBlocks []*ssa.BasicBlock
		for _, b := range fn.Blocks {
			for _, in := range b.Instrs {
				if bo, ok := in.(*ssa.BinOp); ok && bo.Op == token.OR {
					for _, o := range []ssa.Value{bo.X, bo.Y} {
						if sh, ok := core.StripConv(o).(*ssa.BinOp); ok && sh.Op == token.SHL {
							if k, isC := core.ConstInt(core.StripConv(sh.X)); isC && k == 1 {
								setBlocks = append(setBlocks, b)
							}
						}
					}
				}
				if name, cc := stateMethod(in); name == "SetSCC" {
					if k, isC := core.ConstInt(cc.Args[0]); isC && k == 1 {
						setBlocks = append(setBlocks, b)
					}
				}
			}
		}
		if len(cmps) == 0 || len(setBlocks) == 0 {
			if opTok != "f" && opTok != "tru" && opTok != "t" {
				st8.Sample("%s.%s (%s): comparison of the operand values or bit-setting block not recognised; not modelled", h.alu.typ, h.name, m[0])
			}
			continue
		}
		st8.Instances++
		c.MarkAnalysed(fn)
		holds := func(op token.Token, mirror bool, k byte) bool {
			if mirror {
				switch k {
				case 'L':
					k = 'G'
				case 'G':
					k = 'L'
				}
			}
			switch op {
			case token.LSS:
				return k == 'L'
			case token.LEQ:
				return k == 'L' || k == 'E'
			case token.GTR:
				return k == 'G'
			case token.GEQ:
				return k == 'G' || k == 'E'
			case token.EQL:
				return k == 'E'
			case token.NEQ:
				return k != 'E'
			}
			return false
		}
		got := ""
		domain := "LEG"
		if kind == "f" {
			domain = "LEGU"
		}
		for i := 0; i < len(domain); i++ {
			k := domain[i]
			// the blocks the handler can execute for this mnemonic (a handler shared by several
			// compares selects the relation by the opcode or the name) under the ordering k; a
			// relation computed into a variable is known from the edge the path took
			blocks, _ := rowReachEdgesWith(fn, job.op, m[0], func(v ssa.Value) (bool, bool) {
				if bo, ok := v.(*ssa.BinOp); ok {
					if ci, ok := cmps[bo]; ok {
						return holds(bo.Op, ci.mirror, k), true
					}
				}
				return false, false
			})
			reach := map[*ssa.BasicBlock]bool{}
			for _, b := range blocks {
				reach[b] = true
			}
			for _, sb := range setBlocks {
				if reach[sb] {
					got += string(k)
					break
				}
			}
		}
		want := ""
		for i := 0; i < len(domain); i++ {
			if strings.ContainsRune(wantSet[opTok], rune(domain[i])) {
				want += string(domain[i])
			}
		}
		okT := got == want
		st8.Ob(okT)
		st8.Sample("%s.%s (%s): result set for orderings {%s}, prescribed {%s}", h.alu.typ, h.name, m[0], got, want)
		if !okT {
			c.ReportAt("R03.8", fn, fn.Pos(), "compare-table:"+opTok+"_"+kind+width, fmt.Sprintf("%s sets its result for the orderings {%s} of (S0,S1) (L less, E equal, G greater, U unordered/NaN); the instruction name %s prescribes {%s}", h.name, got, m[0], want))
		}
		// kind, signedness and width of the compared values
		if bt, ok := typeSample.Underlying().(*types.Basic); ok {
			st8.Instances++
			var okK bool
			switch kind {
			case "f":
				okK = (width == "32" && bt.Kind() == types.Float32) || (width == "64" && bt.Kind() == types.Float64) || width == "16"
			case "i":
				okK = bt.Info()&types.IsInteger != 0 && bt.Info()&types.IsUnsigned == 0 && (map[string]types.BasicKind{"16": types.Int16, "32": types.Int32, "64": types.Int64}[width] == bt.Kind())
			case "u":
				okK = bt.Info()&types.IsUnsigned != 0 && (map[string]types.BasicKind{"16": types.Uint16, "32": types.Uint32, "64": types.Uint64}[width] == bt.Kind())
			}
			if !okK && kind != "f" && (opTok == "eq" || opTok == "lg" || opTok == "ne") {
				// equality of bit patterns does not depend on signedness; only the width must be the prescribed one
				okK = bt.Info()&types.IsInteger != 0 && (map[string]bool{"16int16": true, "16uint16": true, "32int32": true, "32uint32": true, "64int64": true, "64uint64": true}[width+bt.Name()])
			}
			st8.Ob(okK)
			if !okK {
				c.ReportAt("R03.8", fn, fn.Pos(), "compare-type:"+kind+width, fmt.Sprintf("%s compares values of Go type %s; %s compares %s%s values (signedness / width / kind differ)", h.name, bt.Name(), m[0], kind, width))
			}
		}
	}

	// ---------------- R03.9 LDS instructions address LDS at ADDR plus their offset field ----------------
	st9 := c.Rule("R03.9", "every access of an LDS instruction handler (tied to its name through decode table -> dispatch switch -> callee) addresses the LDS at the ADDR operand plus the instruction's offset field: the 16-bit OFFSET for single-address instructions, OFFSET0 / OFFSET1 times the element size for the read2 / write2 forms", 10)
	dsName := regexp.MustCompile(`^ds_(read|write)(2(st64)?)?_b(8|16|32|64|96|128)$`)
	seen9 := map[string]bool{}
	for _, h := range handlers {
		var m []string
		for _, n := range h.insts {
			if mm := dsName.FindStringSubmatch(n); mm != nil {
				m = mm
			}
		}
		if m == nil || seen9[h.alu.pkg+"."+h.name] {
			continue
		}
		seen9[h.alu.pkg+"."+h.name] = true
		fn := c.SSAFunc(h.alu.pkg, h.alu.typ+"."+h.name)
		if fn == nil {
			continue
		}
		scale := int64(1)
		if m[2] != "" {
			fmt.Sscan(m[4], &scale)
			scale /= 8
			if m[3] != "" {
				scale *= 64
			}
		}
		for _, b := range fn.Blocks {
			for _, in := range b.Instrs {
				sl, ok := in.(*ssa.Slice)
				if !ok || sl.Low == nil {
					continue
				}
				call, ok := sl.X.(*ssa.Call)
				if !ok || core.CalleeFunc(call) == nil || core.CalleeFunc(call).Name() != "LDS" {
					continue
				}
				st9.Instances++
				c.MarkAnalysed(fn)
				pv := prov.Of(sl.Low)
				hasAddr := strings.Contains(pv, ".Addr")
				var okOff bool
				if scale == 1 {
					okOff = core.ProvMatch(regexp.MustCompile(`\.Offset0\)?$|\.Offset0\)*\+`), pv) || strings.Contains(pv, ".Offset0")
					if core.ProvMatch(regexp.MustCompile(`\.Offset[01]\*`), pv) {
						okOff = false
					}
				} else {
					okOff = core.ProvMatch(regexp.MustCompile(fmt.Sprintf(`\.Offset[01]\*%d\)`, scale)), pv)
				}
				st9.Ob(hasAddr && okOff)
				st9.Sample("%s.%s (%s): LDS[%s]", h.alu.typ, h.name, m[0], short(pv))
				if !(hasAddr && okOff) {
					want := "ADDR + OFFSET"
					if scale != 1 {
						want = fmt.Sprintf("ADDR + OFFSET0/1 * %d", scale)
					}
					c.ReportAt("R03.9", fn, in.Pos(), "lds-address:"+m[0], fmt.Sprintf("%s accesses the LDS at %s; %s addresses %s: with a non-zero offset field the wrong LDS location is read or written", h.name, short(pv), m[0], want))
				}
			}
		}
	}

	// ---------------- R03.10 bitwise instructions: truth table per bit ----------------
	st10 := c.Rule("R03.10", "every bitwise instruction handler (and / or / xor / andn2 / orn2 / nand / nor / xnor / not, incl. the …_saveexec forms, tied to its name through decode table -> dispatch switch -> callee) computes, bit by bit, the boolean function its mnemonic names: the expression written to the destination (or to EXEC) is evaluated over both values of a bit of S0 and of S1 (EXEC for the saveexec forms) and compared with the mnemonic's truth table", 20)
	bitName := regexp.MustCompile(`^[sv]_(and|or|xor|andn2|orn2|nand|nor|xnor|not)(_saveexec)?_b(32|64)(_e32|_e64)?$`)
	bitFn := map[string]func(a, b int) int{
		"and": func(a, b int) int { return a & b }, "or": func(a, b int) int { return a | b }, "xor": func(a, b int) int { return a ^ b },
		"andn2": func(a, b int) int { return a & (1 - b) }, "orn2": func(a, b int) int { return a | (1 - b) },
		"nand": func(a, b int) int { return 1 - (a & b) }, "nor": func(a, b int) int { return 1 - (a | b) }, "xnor": func(a, b int) int { return 1 - (a ^ b) },
		"not": func(a, b int) int { return 1 - a },
	}
	seen10 := map[string]bool{}
	for _, h := range handlers {
		for _, iname := range h.insts {
			m := bitName.FindStringSubmatch(iname)
			if m == nil || seen10[h.alu.pkg+"."+h.name+"|"+m[1]+m[2]] {
				continue
			}
			seen10[h.alu.pkg+"."+h.name+"|"+m[1]+m[2]] = true
			fn := c.SSAFunc(h.alu.pkg, h.alu.typ+"."+h.name)
			if fn == nil {
				continue
			}
			saveexec := m[2] != ""
			var eval func(v ssa.Value, a, b, depth int) int // -1 unknown
			eval = func(v ssa.Value, a, b, depth int) int {
				if depth > 12 {
					return -1
				}
				if k, ok := v.(*ssa.Const); ok && k.Value != nil {
					if u, isU := core.ConstUint(v); isU {
						if u == 0 {
							return 0
						}
						if u == 0xffffffff || u == 0xffffffffffffffff {
							return 1
						}
					}
					if i, isI := core.ConstInt(v); isI && i == -1 {
						return 1
					}
					return -1
				}
				switch t := v.(type) {
				case *ssa.Convert:
					return eval(t.X, a, b, depth+1)
				case *ssa.ChangeType:
					return eval(t.X, a, b, depth+1)
				case *ssa.UnOp:
					if t.Op == token.XOR {
						if x := eval(t.X, a, b, depth+1); x >= 0 {
							return 1 - x
						}
					}
					return -1
				case *ssa.BinOp:
					x, y := eval(t.X, a, b, depth+1), eval(t.Y, a, b, depth+1)
					if x < 0 || y < 0 {
						return -1
					}
					switch t.Op {
					case token.AND:
						return x & y
					case token.OR:
						return x | y
					case token.XOR:
						return x ^ y
					case token.AND_NOT:
						return x & (1 - y)
					}
					return -1
				case *ssa.Call:
					name, cc := stateMethod(t)
					switch name {
					case "ReadOperand":
						pv := prov.Of(cc.Args[0])
						if strings.HasSuffix(pv, ".Src0") {
							return a
						}
						if strings.HasSuffix(pv, ".Src1") && !saveexec {
							return b
						}
					case "EXEC":
						if saveexec {
							return b
						}
					}
					return -1
				}
				return -1
			}
			for _, blk := range fn.Blocks {
				for _, in := range blk.Instrs {
					name, cc := stateMethod(in)
					var val ssa.Value
					if !saveexec && name == "WriteOperand" && strings.HasSuffix(prov.Of(cc.Args[0]), ".Dst") {
						val = cc.Args[len(cc.Args)-1]
					}
					if saveexec && name == "SetEXEC" {
						val = cc.Args[0]
					}
					if val == nil {
						continue
					}
					got, want := "", ""
					for _, ab := range [][2]int{{0, 0}, {0, 1}, {1, 0}, {1, 1}} {
						r := eval(val, ab[0], ab[1], 0)
						if r < 0 {
							got = "?"
							break
						}
						got += fmt.Sprint(r)
						want += fmt.Sprint(bitFn[m[1]](ab[0], ab[1]))
					}
					if got == "?" {
						st10.Sample("%s.%s (%s): written value %s is not a pure bitwise expression of the operands; not modelled", h.alu.typ, h.name, iname, short(prov.Of(val)))
						continue
					}
					st10.Instances++
					c.MarkAnalysed(fn)
					st10.Ob(got == want)
					st10.Sample("%s.%s (%s): truth table (S0,S1 = 00 01 10 11) %s, prescribed %s", h.alu.typ, h.name, iname, got, want)
					if got != want {
						c.ReportAt("R03.10", fn, in.Pos(), "bitwise-table:"+m[1]+m[2], fmt.Sprintf("%s computes, per bit, the truth table %s for (S0,S1) = 00,01,10,11; %s prescribes %s", h.name, got, iname, want))
					}
				}
			}
		}
	}

	// ---------------- R03.11 integer min / max select the right operand ----------------
	st11 := c.Rule("R03.11", "every integer min / max handler (tied to its name through decode table -> dispatch switch -> callee) writes S0 when S0 is the smaller (min) / larger (max) operand and S1 when S1 is, decided by resolving the handler's comparisons of the two operand values under each ordering and following the value that reaches the destination write through the control flow (phi resolution along the path); the compared values have the signedness the mnemonic prescribes", 8)
	mmName := regexp.MustCompile(`^[sv]_(min|max)_([iu])(16|32|64)(_e32|_e64)?$`)
	seen11 := map[string]bool{}
	for _, h := range handlers {
		for _, iname := range h.insts {
			m := mmName.FindStringSubmatch(iname)
			if m == nil || seen11[h.alu.pkg+"."+h.name+"|"+m[1]+m[2]] {
				continue
			}
			seen11[h.alu.pkg+"."+h.name+"|"+m[1]+m[2]] = true
			fn := c.SSAFunc(h.alu.pkg, h.alu.typ+"."+h.name)
			if fn == nil {
				continue
			}
			side := func(v ssa.Value) string {
				pv := prov.Of(v)
				if !strings.Contains(pv, "ReadOperand(") {
					return ""
				}
				has0, has1 := strings.Contains(pv, ".Src0"), strings.Contains(pv, ".Src1")
				switch {
				case has0 && !has1:
					return "S0"
				case has1 && !has0:
					return "S1"
				}
				return ""
			}
			// under ordering k, which operand can reach the destination write?
			reachOperands := func(k byte) (map[string]bool, types.Type, bool) {
				out := map[string]bool{}
				var cmpType types.Type
				sawCmp := false
				type key struct {
					b, pred *ssa.BasicBlock
				}
				seen := map[key]bool{}
				var walk func(b, pred *ssa.BasicBlock, env map[*ssa.Phi]ssa.Value)
				resolve := func(v ssa.Value, env map[*ssa.Phi]ssa.Value) ssa.Value {
					for i := 0; i < 8; i++ {
						switch t := v.(type) {
						case *ssa.Convert:
							v = t.X
							continue
						case *ssa.ChangeType:
							v = t.X
							continue
						case *ssa.Phi:
							if r, ok := env[t]; ok {
								v = r
								continue
							}
						case *ssa.Call:
							// asInt32(uint32(x)) style helpers keep the operand
							if cal := t.Call.StaticCallee(); cal != nil && len(t.Call.Args) == 1 && strings.Contains(strings.ToLower(cal.Name()), "int") {
								v = t.Call.Args[0]
								continue
							}
						}
						break
					}
					return v
				}
				walk = func(b, pred *ssa.BasicBlock, env map[*ssa.Phi]ssa.Value) {
					if seen[key{b, pred}] {
						return
					}
					seen[key{b, pred}] = true
					env2 := map[*ssa.Phi]ssa.Value{}
					for k2, v2 := range env {
						env2[k2] = v2
					}
					for _, in := range b.Instrs {
						if phi, ok := in.(*ssa.Phi); ok && pred != nil {
							for i, p := range b.Preds {
								if p == pred {
									env2[phi] = resolve(phi.Edges[i], env)
								}
							}
						}
						if name, cc := stateMethod(in); name == "WriteOperand" && strings.HasSuffix(prov.Of(cc.Args[0]), ".Dst") {
							if sd := side(resolve(cc.Args[len(cc.Args)-1], env2)); sd != "" {
								out[sd] = true
							} else {
								out["?"] = true
							}
						}
					}
					if iff, ok := b.Instrs[len(b.Instrs)-1].(*ssa.If); ok {
						if bo, ok := iff.Cond.(*ssa.BinOp); ok {
							sx, sy := side(bo.X), side(bo.Y)
							if (sx == "S0" && sy == "S1") || (sx == "S1" && sy == "S0") {
								sawCmp = true
								cmpType = bo.X.Type()
								kk := k
								if sx == "S1" { // mirrored
									kk = map[byte]byte{'L': 'G', 'G': 'L', 'E': 'E'}[k]
								}
								var holds bool
								switch bo.Op {
								case token.LSS:
									holds = kk == 'L'
								case token.LEQ:
									holds = kk != 'G'
								case token.GTR:
									holds = kk == 'G'
								case token.GEQ:
									holds = kk != 'L'
								case token.EQL:
									holds = kk == 'E'
								case token.NEQ:
									holds = kk != 'E'
								}
								if holds {
									walk(b.Succs[0], b, env2)
								} else {
									walk(b.Succs[1], b, env2)
								}
								return
							}
						}
					}
					for _, sc := range b.Succs {
						walk(sc, b, env2)
					}
				}
				walk(fn.Blocks[0], nil, map[*ssa.Phi]ssa.Value{})
				return out, cmpType, sawCmp
			}
			lres, ct, saw := reachOperands('L')
			gres, _, _ := reachOperands('G')
			if !saw || lres["?"] || gres["?"] || len(lres) == 0 {
				st11.Sample("%s.%s (%s): operand selection not recognised; not modelled", h.alu.typ, h.name, iname)
				continue
			}
			st11.Instances++
			c.MarkAnalysed(fn)
			wantL, wantG := "S0", "S1" // min
			if m[1] == "max" {
				wantL, wantG = "S1", "S0"
			}
			okSel := len(lres) == 1 && lres[wantL] && len(gres) == 1 && gres[wantG]
			st11.Ob(okSel)
			st11.Sample("%s.%s (%s): S0<S1 writes %v, S0>S1 writes %v", h.alu.typ, h.name, iname, sortedKeys(lres), sortedKeys(gres))
			if !okSel {
				c.ReportAt("R03.11", fn, fn.Pos(), "select-table:"+m[1]+"_"+m[2]+m[3], fmt.Sprintf("%s writes %v when S0 < S1 and %v when S0 > S1; %s writes %s and %s", h.name, sortedKeys(lres), sortedKeys(gres), iname, wantL, wantG))
			}
			if bt, ok := ct.Underlying().(*types.Basic); ok {
				st11.Instances++
				unsigned := bt.Info()&types.IsUnsigned != 0
				okT := bt.Info()&types.IsInteger != 0 && unsigned == (m[2] == "u")
				st11.Ob(okT)
				if !okT {
					c.ReportAt("R03.11", fn, fn.Pos(), "select-type:"+m[2]+m[3], fmt.Sprintf("%s compares values of Go type %s; %s orders its operands as %s integers", h.name, bt.Name(), iname, map[string]string{"i": "signed", "u": "unsigned"}[m[2]]))
				}
			}
		}
	}

	// ---------------- R03.19 float min / max incl. NaN operands (c03fsel.go) ----------------
	checkFloatMinMax(c, handlers, prov)

	// ---------------- R03.20 SDWA sub-dword selection (c03sdwa.go, bitprov.go) ----------------
	checkSDWASelect(c, alus, prov)
	checkSDWAHandled(c, alus, handlers)

	// ---------------- R03.22 VOP3 input modifiers (c03mod.go) ----------------
	checkVOP3Modifiers(c, handlers, prov)
	checkDecodedFieldsConsumed(c, prov)
	checkALUParamsUsed(c, alus)
	checkSharedHandlers(c, handlers)
	checkInlineFloatWidth(c, prov)
	checkWrappedComparisons(c)
	checkMaskWrittenWhole(c)
	checkUnsignedCarry(c, handlers)
	checkClampValues(c)
	checkIdentityHandlers(c, handlers)
	checkImmediateExtension(c, handlers)
	checkCarryAddends(c)
	checkHighHalfInert(c, handlers)
	checkMedian3(c, handlers)
	checkFlatOffsetSigned(c, "R03.37", []string{emuPkg, cdna3Pkg}, 2)
	checkModifierHelpers(c, alus)
	checkSCCWidth(c, handlers)
	checkBitSemantics(c, handlers)
	checkClassCoverage(c, handlers)
	checkPackedHalfSelection(c, handlers)
	checkLaneIndexBounded(c, []string{emuPkg, cdna3Pkg})
	checkInlineIntegerReadWhole(c, []string{emuPkg, wfPkg})
	checkNoneFoundValue(c, handlers)
	checkI24SourcesSignExtended(c, handlers)
	checkLDSBoundBeforeEveryRun(c)
	// R03.47: the value a load hands to a lane is built from that lane's bytes only (c06scratch.go, R06.scratch)
	checkScratchPerLane(c, "R03.47", []string{emuPkg, cdna3Pkg})
	checkImmediateArithmeticWide(c, "R03.44", []string{emuPkg, cdna3Pkg}, 6, "A branch handler that multiplies in int16 sends far branches to the wrong address")
	checkLoadWidths(c, handlers)
	checkWideMultiply(c, handlers)

	// ---------------- R03.12 conditional moves select with the right polarity ----------------
	st12 := c.Rule("R03.12", "v_cndmask_b32 writes S1 where the lane's bit of the condition mask (VCC, or the SGPR pair in SRC2) is set and S0 where it is clear; s_cselect writes S0 when SCC is 1 and S1 otherwise; s_cmov / s_cmovk write only when SCC is 1: decided by resolving the handler's test of the selector both ways and following the value that reaches the destination write", 6)
	selName := regexp.MustCompile(`^(v_cndmask_b32|s_cselect_b(32|64)|s_cmovk?_[ib](32|64))(_e32|_e64)?$`)
	seen12 := map[string]bool{}
	for _, h := range handlers {
		for _, iname := range h.insts {
			m := selName.FindStringSubmatch(iname)
			if m == nil || seen12[h.alu.pkg+"."+h.name] {
				continue
			}
			seen12[h.alu.pkg+"."+h.name] = true
			fn := c.SSAFunc(h.alu.pkg, h.alu.typ+"."+h.name)
			if fn == nil {
				continue
			}
			isSel := func(cond ssa.Value) (setOnTrue bool, ok bool) {
				bo, isB := cond.(*ssa.BinOp)
				if !isB {
					return false, false
				}
				bop, bx, by := cmpConstRight(bo)
				pv := prov.Of(bx)
				k, isC := core.ConstInt(by)
				if !isC {
					if ku, isU := core.ConstUint(by); isU {
						k, isC = int64(ku), true
					}
				}
				if !isC || strings.Contains(pv, ".EXEC()") {
					return false, false
				}
				vector := strings.HasPrefix(m[1], "v_")
				if vector && !(strings.Contains(pv, ".VCC()") || strings.Contains(pv, ".Src2")) {
					return false, false
				}
				if !vector && !strings.Contains(pv, ".SCC()") {
					return false, false
				}
				switch {
				case (bop == token.NEQ || bop == token.GTR) && k == 0, bop == token.EQL && k == 1 && !vector:
					return true, true
				case bop == token.EQL && k == 0, bop == token.NEQ && k == 1 && !vector:
					return false, true
				}
				return false, false
			}
			operandOf := func(v ssa.Value) string {
				pv := prov.Of(v)
				switch {
				case strings.Contains(pv, ".Src0") && !strings.Contains(pv, ".Src1"):
					return "S0"
				case strings.Contains(pv, ".Src1") && !strings.Contains(pv, ".Src0"):
					return "S1"
				case strings.Contains(pv, ".SImm16"):
					return "SIMM16"
				}
				return "?"
			}
			written := func(selSet bool) (map[string]bool, bool) {
				out := map[string]bool{}
				saw := false
				seen := map[*ssa.BasicBlock]bool{}
				var walk func(b *ssa.BasicBlock)
				walk = func(b *ssa.BasicBlock) {
					if seen[b] {
						return
					}
					seen[b] = true
					for _, in := range b.Instrs {
						if name, cc := stateMethod(in); name == "WriteOperand" && strings.HasSuffix(prov.Of(cc.Args[0]), ".Dst") {
							out[operandOf(cc.Args[len(cc.Args)-1])] = true
						}
					}
					if iff, ok := b.Instrs[len(b.Instrs)-1].(*ssa.If); ok {
						if setOnTrue, ok := isSel(iff.Cond); ok {
							saw = true
							if setOnTrue == selSet {
								walk(b.Succs[0])
							} else {
								walk(b.Succs[1])
							}
							return
						}
					}
					for _, sc := range b.Succs {
						walk(sc)
					}
				}
				walk(fn.Blocks[0])
				return out, saw
			}
			onSet, saw := written(true)
			onClear, _ := written(false)
			if !saw {
				st12.Sample("%s.%s (%s): selector test not recognised; not modelled", h.alu.typ, h.name, iname)
				continue
			}
			st12.Instances++
			c.MarkAnalysed(fn)
			var wantSet, wantClear string
			switch {
			case strings.HasPrefix(m[1], "v_cndmask"):
				wantSet, wantClear = "S1", "S0"
			case strings.HasPrefix(m[1], "s_cselect"):
				wantSet, wantClear = "S0", "S1"
			case strings.HasPrefix(m[1], "s_cmovk"):
				wantSet, wantClear = "SIMM16", ""
			default:
				wantSet, wantClear = "S0", ""
			}
			gotSet, gotClear := strings.Join(sortedKeys(onSet), "+"), strings.Join(sortedKeys(onClear), "+")
			ok := gotSet == wantSet && gotClear == wantClear
			st12.Ob(ok)
			st12.Sample("%s.%s (%s): selector set -> %q, clear -> %q", h.alu.typ, h.name, iname, gotSet, gotClear)
			if !ok {
				c.ReportAt("R03.12", fn, fn.Pos(), "select-polarity:"+m[1], fmt.Sprintf("%s writes %q when the selector is set and %q when it is clear; %s writes %q and %q", h.name, gotSet, gotClear, iname, wantSet, wantClear))
			}
		}
	}

	// ---------------- R03.13 conditional branches test the right register with the right polarity ----------------
	st13 := c.Rule("R03.13", "s_cbranch_{scc0,scc1,vccz,vccnz,execz,execnz} change the PC only on the edge on which the register named by the mnemonic is zero / non-zero as the mnemonic says, and every branch target is PC + sign-extended SIMM16 * 4", 7)
	brName := regexp.MustCompile(`^s_(branch|cbranch_(scc0|scc1|vccz|vccnz|execz|execnz))$`)
	seen13 := map[string]bool{}
	for _, h := range handlers {
		for _, iname := range h.insts {
			m := brName.FindStringSubmatch(iname)
			if m == nil || seen13[h.alu.pkg+"."+h.name] {
				continue
			}
			seen13[h.alu.pkg+"."+h.name] = true
			fn := c.SSAFunc(h.alu.pkg, h.alu.typ+"."+h.name)
			if fn == nil {
				continue
			}
			g := core.BuildGraph(fn, 0, nil)
			for _, n := range g.Nodes {
				name, cc := stateMethod(n.Instr)
				if name != "SetPC" {
					continue
				}
				st13.Instances++
				c.MarkAnalysed(fn)
				// target
				pv := prov.Of(cc.Args[0])
				okT := strings.Contains(pv, ".PC()") && strings.Contains(pv, ".SImm16") && strings.Contains(pv, "*4)")
				st13.Ob(okT)
				if !okT {
					c.ReportAt("R03.13", fn, n.Instr.Pos(), "branch-target", h.name+" sets the PC to "+short(pv)+", not PC + SIMM16 * 4")
				}
				if m[2] == "" {
					continue
				}
				reg := map[string]string{"scc0": ".SCC()", "scc1": ".SCC()", "vccz": ".VCC()", "vccnz": ".VCC()", "execz": ".EXEC()", "execnz": ".EXEC()"}[m[2]]
				wantZero := m[2] == "scc0" || m[2] == "vccz" || m[2] == "execz"
				st13.Instances++
				cut := CmpCut(func(_ *core.Node, op token.Token, x, y ssa.Value) int {
					if !strings.HasSuffix(prov.Of(core.StripConv(x)), reg) {
						return 0
					}
					k, isC := core.ConstInt(y)
					if !isC {
						if ku, isU := core.ConstUint(y); isU {
							k, isC = int64(ku), true
						}
					}
					if !isC {
						return 0
					}
					// d: +1 when "register is zero" holds on the true edge
					d := 0
					switch {
					case op == token.EQL && k == 0, op == token.NEQ && k == 1 && reg == ".SCC()":
						d = 1
					case op == token.NEQ && k == 0, op == token.EQL && k == 1 && reg == ".SCC()", op == token.GTR && k == 0:
						d = -1
					}
					if !wantZero {
						d = -d
					}
					return d
				})
				okP := g.Guarded(n, cut)
				st13.Ob(okP)
				st13.Sample("%s.%s (%s): PC changes only when %s is %s: %v", h.alu.typ, h.name, iname, strings.Trim(reg, ".()"), map[bool]string{true: "zero", false: "non-zero"}[wantZero], okP)
				if !okP {
					c.ReportAt("R03.13", fn, n.Instr.Pos(), "branch-polarity:"+m[2], fmt.Sprintf("%s changes the PC on a path that did not find %s %s: %s branches exactly when it is", h.name, strings.Trim(reg, ".()"), map[bool]string{true: "zero", false: "non-zero"}[wantZero], iname))
				}
			}
		}
	}

	// ---------------- R03.14 operand order of non-commutative instructions ----------------
	st14 := c.Rule("R03.14", "subtractions and shifts take their operands in the order the mnemonic prescribes: sub / subb: S0 - S1, subrev / subbrev: S1 - S0; lshl / lshr / ashr: S0 shifted by S1, the …rev forms: S1 shifted by S0 (handlers tied to names through decode table -> dispatch switch -> callee; the first subtraction / shift whose two sides derive from different source operands is examined)", 30)
	ordName := regexp.MustCompile(`^[sv]_(sub|subb|subrev|subbrev|lshl|lshr|ashr|lshlrev|lshrrev|ashrrev)_[a-z]*(16|32|64)?(_e32|_e64)?$`)
	seen14 := map[string]bool{}
	for _, h := range handlers {
		for _, iname := range h.insts {
			m := ordName.FindStringSubmatch(iname)
			if m == nil || seen14[h.alu.pkg+"."+h.name+"|"+m[1]] {
				continue
			}
			seen14[h.alu.pkg+"."+h.name+"|"+m[1]] = true
			fn := c.SSAFunc(h.alu.pkg, h.alu.typ+"."+h.name)
			if fn == nil {
				continue
			}
			sideOf := func(v ssa.Value) string {
				pv := prov.Of(v)
				has0, has1 := strings.Contains(pv, ".Src0"), strings.Contains(pv, ".Src1")
				switch {
				case has0 && !has1:
					return "S0"
				case has1 && !has0:
					return "S1"
				}
				return ""
			}
			isShift := strings.Contains(m[1], "sh")
			wantLeft := "S0"
			if strings.HasSuffix(m[1], "rev") {
				wantLeft = "S1"
			}
			found := false
			for _, b := range fn.Blocks {
				for _, in := range b.Instrs {
					bo, ok := in.(*ssa.BinOp)
					if !ok || found {
						continue
					}
					if isShift && bo.Op != token.SHL && bo.Op != token.SHR {
						continue
					}
					if !isShift && bo.Op != token.SUB {
						continue
					}
					l, r := sideOf(bo.X), sideOf(bo.Y)
					if l == "" || r == "" || l == r {
						continue
					}
					found = true
					st14.Instances++
					c.MarkAnalysed(fn)
					ok2 := l == wantLeft
					st14.Ob(ok2)
					st14.Sample("%s.%s (%s): %s %s %s", h.alu.typ, h.name, iname, l, bo.Op, r)
					if !ok2 {
						c.ReportAt("R03.14", fn, in.Pos(), "operand-order:"+m[1], fmt.Sprintf("%s computes %s %s %s; %s prescribes %s on the left", h.name, l, bo.Op, r, iname, wantLeft))
					}
				}
			}
			if !found {
				st14.Sample("%s.%s (%s): no subtraction / shift between the two source operands recognised; not modelled", h.alu.typ, h.name, iname)
			}
		}
	}

	// ---------------- R03.15 sources are read before destinations are written ----------------
	st15 := c.Rule("R03.15", "within one execution of a handler (one lane iteration for vector handlers) no source operand is read after a destination operand, EXEC, VCC or SCC was written: a destination may name the same register as a source, and the ISA reads all sources first", 300)
	for _, a := range alus {
		for _, fn := range c.SrcFuncs(a.pkg) {
			if fn.Signature.Recv() == nil || !strings.HasPrefix(fn.Name(), "run") {
				continue
			}
			var writes []*core.Node
			g := core.BuildGraph(fn, 0, nil)
			for _, n := range g.Nodes {
				if name, cc := stateMethod(n.Instr); name == "WriteOperand" || name == "WriteOperandBytes" {
					pv := prov.Of(cc.Args[0])
					if strings.HasSuffix(pv, ".Dst") || strings.HasSuffix(pv, ".SDst") {
						writes = append(writes, n)
					}
				}
			}
			if len(writes) == 0 {
				continue
			}
			st15.Instances++
			c.MarkAnalysed(fn)
			var bad *core.Node
			var badW *core.Node
			for _, w := range writes {
				wcc := core.CallOf(w.Instr)
				after, _ := g.Reach(core.After(w, nil), core.WalkOpts{ForwardOnly: true})
				for m := range after {
					name, cc := stateMethod(m.Instr)
					if name != "ReadOperand" && name != "ReadOperandBytes" {
						continue
					}
					pv := prov.Of(cc.Args[0])
					if !(strings.HasSuffix(pv, ".Src0") || strings.HasSuffix(pv, ".Src1") || strings.HasSuffix(pv, ".Src2")) {
						continue
					}
					// reading another lane's copy in a later iteration is not reachable forward-only; a different lane argument
					// in the same iteration (scalar destination at lane 0, vector source at lane i) cannot alias either
					if len(cc.Args) > 1 && len(wcc.Args) > 1 && prov.Of(cc.Args[1]) != prov.Of(wcc.Args[1]) {
						continue
					}
					bad, badW = m, w
				}
			}
			st15.Ob(bad == nil)
			if bad != nil {
				c.ReportAt("R03.15", fn, bad.Instr.Pos(), "source-read-after-write", fmt.Sprintf("%s reads %s after it has written %s: when the instruction names the same register as source and destination the source value is already overwritten (the ISA reads all sources before writing)", core.FuncName(fn), short(prov.Of(core.CallOf(bad.Instr).Args[0])), short(prov.Of(core.CallOf(badW.Instr).Args[0]))))
			} else {
				st15.Sample("%s: all source reads precede the destination writes", core.FuncName(fn))
			}
		}
	}

	// ---------------- R03.16 32-bit instructions do not let bits 32..63 of an operand value decide anything ----------------
	st16 := c.Rule("R03.16", "ReadOperand returns 64 bits, and for an inline constant such as -1 they are the sign extension; in the handler of a 32-bit instruction (every mnemonic it serves ends in b32 / u32 / i32 / f32) such a raw value is truncated or masked to 32 bits before it is shifted right, divided, compared or tested against zero - operations in which the upper half changes the low half of the result or the condition code", 60)
	n32 := regexp.MustCompile(`_(b|u|i|f)32(_e32|_e64)?$`)
	for _, a := range alus {
		byFn := map[string][]string{}
		for _, h := range handlers {
			if h.alu.pkg == a.pkg {
				byFn[h.name] = append(byFn[h.name], h.insts...)
			}
		}
		for _, fname := range sortedKeys(byFn) {
			names := byFn[fname]
			all32 := len(names) > 0
			for _, n := range names {
				if !n32.MatchString(n) || strings.Contains(n, "64") || strings.Contains(n, "_i24") || strings.Contains(n, "_u24") || strings.HasPrefix(n, "v_pk_") {
					all32 = false
				}
			}
			if !all32 {
				continue
			}
			fn := c.SSAFunc(a.pkg, a.typ+"."+fname)
			if fn == nil {
				continue
			}
			memo := map[ssa.Value]bool{}
			var dirty func(v ssa.Value, depth int) bool
			dirty = func(v ssa.Value, depth int) bool {
				if d, ok := memo[v]; ok {
					return d
				}
				if depth > 20 {
					return false
				}
				memo[v] = false
				res := false
				switch t := v.(type) {
				case *ssa.Call:
					if name, cc := stateMethod(t); name == "ReadOperand" {
						pv := prov.Of(cc.Args[0])
						res = strings.HasSuffix(pv, ".Src0") || strings.HasSuffix(pv, ".Src1") || strings.HasSuffix(pv, ".Src2")
					}
				case *ssa.BinOp:
					bt, ok := t.Type().Underlying().(*types.Basic)
					if ok && (bt.Kind() == types.Uint64 || bt.Kind() == types.Int64) {
						switch t.Op {
						case token.AND:
							// a mask, or the AND of two operand values (at most one of them is a sign-extended
							// inline constant, the other a zero-extended register), has a clean upper half
							res = false
						case token.ADD, token.SUB, token.MUL, token.OR, token.XOR, token.SHL:
							res = dirty(t.X, depth+1) || dirty(t.Y, depth+1)
						}
					}
				case *ssa.Phi:
					for _, e := range t.Edges {
						if dirty(e, depth+1) {
							res = true
						}
					}
				}
				memo[v] = res
				return res
			}
			for _, b := range fn.Blocks {
				for _, in := range b.Instrs {
					bo, ok := in.(*ssa.BinOp)
					if !ok {
						continue
					}
					var sens []ssa.Value
					switch bo.Op {
					case token.SHR, token.QUO, token.REM:
						sens = []ssa.Value{bo.X}
					case token.LSS, token.LEQ, token.GTR, token.GEQ, token.EQL, token.NEQ:
						sens = []ssa.Value{bo.X, bo.Y}
					default:
						continue
					}
					for _, v := range sens {
						if !dirty(v, 0) {
							continue
						}
						// x >> k whose only use is masked so that the selected bits lie below bit 32
						if bo.Op == token.SHR {
							if k, isC := core.ConstInt(bo.Y); isC && bo.Referrers() != nil {
								fine := len(*bo.Referrers()) > 0
								for _, r := range *bo.Referrers() {
									and, ok := r.(*ssa.BinOp)
									if !ok || and.Op != token.AND {
										if cvt, isCv := r.(*ssa.Convert); isCv {
											if bt, okB := cvt.Type().Underlying().(*types.Basic); okB && (bt.Kind() == types.Uint8 || bt.Kind() == types.Uint16) && k <= 16 {
												continue
											}
										}
										fine = false
										continue
									}
									other := and.X
									if other == ssa.Value(bo) {
										other = and.Y
									}
									m, isM := core.ConstUint(other)
									if !isM || (m<<uint(k)) > 0xffffffff {
										fine = false
									}
								}
								if fine {
									continue
								}
							}
						}
						st16.Instances++
						st16.Ob(false)
						c.MarkAnalysed(fn)
						c.ReportAt("R03.16", fn, in.Pos(), "upper-bits:"+bo.Op.String(), fmt.Sprintf("%s (%s) applies %s to %s, the raw 64-bit value of a source operand: for an inline constant such as -1 bits 32..63 are set and change the 32-bit result or the condition code", fname, strings.Join(names, ", "), bo.Op, short(prov.Of(v))))
					}
				}
			}
			st16.Instances++
			st16.Ob(true)
		}
	}

	// ---------------- R03.17 signed add / sub set SCC from signed overflow ----------------
	st17 := c.Rule("R03.17", "s_add_i32 / s_sub_i32 / s_addk_i32 / s_mulk_i32 define SCC as signed overflow: the comparisons that decide SetSCC in their handlers are made on signed values (an unsigned carry test gives 1 for -1 + 3 and 0 for 0x7fffffff + 1)", 3)
	sovName := regexp.MustCompile(`^s_(add|sub|addk)_i32$`)
	seen17 := map[string]bool{}
	for _, h := range handlers {
		for _, iname := range h.insts {
			if !sovName.MatchString(iname) || seen17[h.alu.pkg+"."+h.name] {
				continue
			}
			seen17[h.alu.pkg+"."+h.name] = true
			fn := c.SSAFunc(h.alu.pkg, h.alu.typ+"."+h.name)
			if fn == nil {
				continue
			}
			// comparisons that decide which SetSCC constant is executed: Ifs that dominate a SetSCC
			var sccBlocks []*ssa.BasicBlock
			for _, b := range fn.Blocks {
				for _, in := range b.Instrs {
					if name, _ := stateMethod(in); name == "SetSCC" {
						sccBlocks = append(sccBlocks, b)
					}
				}
			}
			unsignedCmp := ""
			signedCmp := false
			for _, b := range fn.Blocks {
				iff, ok := b.Instrs[len(b.Instrs)-1].(*ssa.If)
				if !ok {
					continue
				}
				decides := false
				for _, sb := range sccBlocks {
					if b.Dominates(sb) {
						decides = true
					}
				}
				if !decides {
					continue
				}
				var visit func(v ssa.Value, d int)
				visit = func(v ssa.Value, d int) {
					bo, ok := v.(*ssa.BinOp)
					if !ok || d > 4 {
						return
					}
					switch bo.Op {
					case token.LSS, token.LEQ, token.GTR, token.GEQ:
						if bt, ok := bo.X.Type().Underlying().(*types.Basic); ok && bt.Info()&types.IsInteger != 0 {
							if bt.Info()&types.IsUnsigned != 0 {
								unsignedCmp = core.InstrString(bo)
							} else {
								signedCmp = true
							}
						}
					}
				}
				visit(iff.Cond, 0)
			}
			// the flag may also be computed as a value: phi of constants decided by comparisons
			for _, b := range fn.Blocks {
				for _, in := range b.Instrs {
					if bo, ok := in.(*ssa.BinOp); ok {
						switch bo.Op {
						case token.LSS, token.LEQ, token.GTR, token.GEQ:
							if bt, ok := bo.X.Type().Underlying().(*types.Basic); ok && bt.Info()&types.IsInteger != 0 {
								if bt.Info()&types.IsUnsigned != 0 {
									if unsignedCmp == "" {
										unsignedCmp = core.InstrString(bo)
									}
								} else {
									signedCmp = true
								}
							}
						}
					}
				}
			}
			st17.Instances++
			c.MarkAnalysed(fn)
			ok := signedCmp && unsignedCmp == ""
			st17.Ob(ok)
			st17.Sample("%s.%s (%s): SCC decided by signed comparisons only: %v", h.alu.typ, h.name, iname, ok)
			if !ok {
				c.ReportAt("R03.17", fn, fn.Pos(), "scc-not-signed-overflow:"+iname, fmt.Sprintf("%s decides SCC with the unsigned comparison %s: %s defines SCC as signed overflow (0x7fffffff + 1 must set it, 0xffffffff + 3 must not)", h.name, unsignedCmp, iname))
			}
		}
	}

	// ---------------- R03.18 IEEE bit patterns are not used as numbers ----------------
	st18 := c.Rule("R03.18", "in the ALU packages no floating-point value is the numeric conversion of an integer constant that is an IEEE-754 special bit pattern (0x7FF0…, 0xFFF0…, 0x7FF8…, 0xFFF8…, 0x8000000000000000): infinity, NaN and -0 have to be produced and recognised through math.Float64frombits / math.Inf / math.IsInf / math.IsNaN; and no value is compared for equality with a NaN (always false)", 1)
	special := map[uint64]string{0x7FF0000000000000: "+Inf", 0xFFF0000000000000: "-Inf", 0x7FF8000000000000: "NaN", 0xFFF8000000000000: "-NaN", 0x8000000000000000: "-0"}
	for _, a := range alus {
		for _, fn := range c.SrcFuncs(a.pkg) {
			reported := map[string]bool{}
			isNaNValue := func(v ssa.Value) bool {
				call, ok := v.(*ssa.Call)
				if !ok {
					return false
				}
				f := core.CalleeFunc(call)
				if f == nil || f.Pkg() == nil || f.Pkg().Path() != "math" {
					return false
				}
				if f.Name() == "NaN" {
					return true
				}
				if f.Name() == "Float64frombits" {
					if u, isU := core.ConstUint(call.Call.Args[0]); isU {
						return (u>>52)&0x7ff == 0x7ff && u&((1<<52)-1) != 0
					}
				}
				return false
			}
			for _, b := range fn.Blocks {
				for _, in := range b.Instrs {
					var ops []*ssa.Value
					for _, op := range in.Operands(ops) {
						k, ok := (*op).(*ssa.Const)
						if !ok || k.Value == nil {
							continue
						}
						bt, ok := k.Type().Underlying().(*types.Basic)
						if !ok || bt.Info()&types.IsFloat == 0 {
							continue
						}
						f, _ := constant.Float64Val(k.Value)
						for pat, what := range special {
							if f == float64(pat) && !reported[what] {
								reported[what] = true
								st18.Instances++
								st18.Ob(false)
								c.MarkAnalysed(fn)
								c.ReportAt("R03.18", fn, in.Pos(), "bit-pattern-as-number:"+what, fmt.Sprintf("%s uses the floating-point number %g, the numeric value of the integer 0x%X, where the IEEE bit pattern of %s is meant: the special case neither recognises nor produces %s", core.FuncName(fn), f, pat, what, what))
							}
						}
					}
					if bo, ok := in.(*ssa.BinOp); ok && (bo.Op == token.EQL || bo.Op == token.NEQ) {
						if (isNaNValue(bo.X) || isNaNValue(bo.Y)) && !reported["==NaN"] {
							reported["==NaN"] = true
							st18.Instances++
							st18.Ob(false)
							c.MarkAnalysed(fn)
							c.ReportAt("R03.18", fn, in.Pos(), "compared-with-nan", core.FuncName(fn)+" compares a value with a NaN using "+bo.Op.String()+": the result does not depend on the value (NaN is unequal to everything, itself included), so the NaN special case is never taken")
						}
					}
				}
			}
		}
	}
	st18.Instances++
	st18.Ob(true)

	// ---------------- R03.2 shift-amount masking ----------------
	st2 := c.Rule("R03.2", "in handlers of shift instructions (tied to their names through decode table -> dispatch switch -> callee) every data-dependent shift amount is confined to [0, W-1] (W from the instruction name) by a mask or modulus before it reaches the Go shift, because Go saturates where the ISA uses the low 4/5/6 bits", 15)
	seenH := map[string]bool{}
	for _, h := range handlers {
		W := int64(0)
		var iname string
		for _, n := range h.insts {
			if m := shiftName.FindStringSubmatch(n); m != nil {
				fmt.Sscan(m[2], &W)
				iname = n
			}
		}
		if W == 0 {
			continue
		}
		key := h.alu.pkg + "." + h.name
		if seenH[key] {
			continue
		}
		seenH[key] = true
		fn := c.SSAFunc(h.alu.pkg, h.alu.typ+"."+h.name)
		if fn == nil {
			c.Report(core.Finding{Rule: "R03.2", Kind: "anchor", Pkg: h.alu.pkg, Func: h.alu.typ + "." + h.name, Detail: "anchor", Msg: "shift handler not found"})
			continue
		}
		c.MarkAnalysed(fn)
		st2.Instances++
		// collect data-dependent shifts in the handler and the helpers it calls (depth 2, same package)
		var fns []*ssa.Function
		seenF := map[*ssa.Function]bool{}
		var add func(f *ssa.Function, d int)
		add = func(f *ssa.Function, d int) {
			if seenF[f] || d > 2 {
				return
			}
			seenF[f] = true
			fns = append(fns, f)
			for _, b := range f.Blocks {
				for _, in := range b.Instrs {
					if call, ok := in.(*ssa.Call); ok {
						if cal := call.Call.StaticCallee(); cal != nil && cal.Pkg == fn.Pkg && len(cal.Blocks) > 0 && !strings.HasPrefix(cal.Name(), "run") {
							add(cal, d+1)
						}
					}
				}
			}
		}
		add(fn, 0)
		nShifts := 0
		for _, f := range fns {
			for _, b := range f.Blocks {
				for _, in := range b.Instrs {
					bo, ok := in.(*ssa.BinOp)
					if !ok || (bo.Op != token.SHL && bo.Op != token.SHR) {
						continue
					}
					if _, isC := core.ConstInt(bo.Y); isC {
						continue
					}
					if ivOf(bo.Y) != nil {
						continue // lane index / loop counter, not an operand value
					}
					if !dependsOn(bo.Y, func(v ssa.Value) bool {
						if in2, ok := v.(ssa.Instruction); ok {
							name, _ := stateMethod(in2)
							return name == "ReadOperand" || name == "ReadOperandBytes"
						}
						_, isParam := v.(*ssa.Parameter)
						return isParam && f != fn
					}, map[ssa.Value]bool{}) {
						continue
					}
					nShifts++
					iv := intervalOf(bo.Y, 0)
					ok2 := iv.hi <= W-1
					st2.Ob(ok2)
					st2.Sample("%s (%s): shift amount in [%d,%d], width %d", core.FuncName(f), iname, iv.lo, iv.hi, W)
					if !ok2 {
						c.ReportAt("R03.2", fn, bo.Pos(), "unmasked-shift:"+iname, fmt.Sprintf("%s: the shift amount %s is not confined to [0,%d]; a register value >= %d makes Go produce 0 / sign fill where the ISA shifts by the low bits only", iname, short(prov.Of(bo.Y)), W-1, W))
					}
				}
			}
		}
		if nShifts == 0 {
			st2.Ob(true)
		}
	}

	// ---------------- R03.5 carry / borrow predicates do not wrap ----------------
	st5 := c.Rule("R03.5", "an ordered comparison that decides a carry or borrow (one operand is a sum or difference of operand values) in the handlers of carry-in instructions (addc / subb / subbrev, tied to their names through the decode table) is evaluated in 64 bits: in a 32-bit type `src1 + carry` wraps to 0 for src1 = 0xffffffff and the carry-out is lost", 6)
	carryName := regexp.MustCompile(`(addc|subb|subbrev)`)
	carryHandlers := map[string]string{}
	for _, h := range handlers {
		for _, n := range h.insts {
			if carryName.MatchString(n) {
				carryHandlers[h.alu.pkg+"."+h.name] = n
			}
		}
	}
	for _, a := range alus {
		for _, fn := range c.SrcFuncs(a.pkg) {
			if fn.Signature.Recv() == nil || !strings.HasPrefix(fn.Name(), "run") {
				continue
			}
			if _, isCarry := carryHandlers[a.pkg+"."+fn.Name()]; !isCarry {
				continue
			}
			for _, b := range fn.Blocks {
				for _, in := range b.Instrs {
					cmp, ok := in.(*ssa.BinOp)
					if !ok {
						continue
					}
					switch cmp.Op {
					case token.LSS, token.GTR, token.LEQ, token.GEQ:
					default:
						continue
					}
					for _, opnd := range []ssa.Value{cmp.X, cmp.Y} {
						sum, ok := opnd.(*ssa.BinOp)
						if !ok || (sum.Op != token.ADD && sum.Op != token.SUB) {
							continue
						}
						if sum.Op == token.SUB {
							// MAX - x cannot wrap; (MAX - x) - y, or any difference whose minuend is data, can
							if _, isC := core.ConstUint(sum.X); isC {
								continue
							}
							if _, isC := core.ConstInt(sum.X); isC {
								continue
							}
						}
						// only sums of data values (not loop counters / constants-only)
						if _, isC := core.ConstInt(sum.Y); isC {
							if _, isC2 := core.ConstInt(sum.X); isC2 {
								continue
							}
						}
						if ivOf(sum.X) != nil || ivOf(sum.Y) != nil {
							continue
						}
						if !dependsOn(sum, func(v ssa.Value) bool {
							if in2, ok := v.(ssa.Instruction); ok {
								name, _ := stateMethod(in2)
								return name == "ReadOperand" || name == "VCC" || name == "SCC"
							}
							return false
						}, map[ssa.Value]bool{}) {
							continue
						}
						bt, isBasic := sum.Type().Underlying().(*types.Basic)
						if !isBasic || bt.Info()&types.IsInteger == 0 {
							continue
						}
						st5.Instances++
						wide := bt.Kind() == types.Uint64 || bt.Kind() == types.Int64 || bt.Kind() == types.Uint || bt.Kind() == types.Int
						st5.Ob(wide)
						if wide {
							st5.Sample("%s: %s compared in %s", core.FuncName(fn), short(prov.Of(sum)), bt.Name())
						} else {
							c.ReportAt("R03.5", fn, cmp.Pos(), "wrapping-sum-compare", fmt.Sprintf("the carry/borrow predicate compares the %s sum %s, which wraps around for operand 0x%s…: the condition code is wrong for the extreme operand (the sibling handlers evaluate it in 64 bits)", bt.Name(), short(prov.Of(sum)), "ff"))
						}
					}
				}
			}
		}
	}

	// ---------------- R03.4 writes go to destinations only ----------------
	st4 := c.Rule("R03.4", "a handler writes operands only through the instruction's destination fields (Dst, SDst, and Data for loads); SetPC only in branch / PC instructions; SetEXEC only in instructions whose name says they write EXEC", 350)
	pcNames := regexp.MustCompile(`branch|setpc|swappc|getpc|call|s_endpgm|cbranch`)
	execNames := regexp.MustCompile(`exec|cmpx`)
	instsOf := map[string][]string{}
	for _, h := range handlers {
		k := h.alu.pkg + "." + h.name
		instsOf[k] = append(instsOf[k], h.insts...)
	}
	for _, a := range alus {
		for _, fn := range c.SrcFuncs(a.pkg) {
			for _, b := range fn.Blocks {
				for _, in := range b.Instrs {
					name, cc := stateMethod(in)
					switch name {
					case "WriteOperand", "WriteOperandBytes":
						st4.Instances++
						pv := prov.Of(cc.Args[0])
						ok := core.ProvMatch(regexp.MustCompile(`\.Inst\(\)\.(Dst|SDst|Data)$`), pv) || (strings.HasPrefix(pv, "param:") && !strings.Contains(pv, ".Inst()."))
						st4.Ob(ok)
						if !ok {
							c.ReportAt("R03.4", fn, in.Pos(), "write-to:"+pv[strings.LastIndex(pv, ".")+1:], "a handler writes operand "+pv+", which is not a destination field of the instruction: a source register is modified")
						}
					case "SetPC", "SetEXEC":
						names := instsOf[a.pkg+"."+fn.Name()]
						if len(names) == 0 {
							continue // helper or dispatcher-level code; judged through its handlers
						}
						st4.Instances++
						re := pcNames
						if name == "SetEXEC" {
							re = execNames
						}
						ok := false
						for _, n := range names {
							if re.MatchString(n) {
								ok = true
							}
						}
						st4.Ob(ok)
						if !ok {
							sort.Strings(names)
							c.ReportAt("R03.4", fn, in.Pos(), name+":"+strings.Join(names, ","), fmt.Sprintf("%s is called by the handler of %v, an instruction that does not write that register", name, names))
						}
					}
				}
			}
		}
	}

	checkDestinationNeverRead(c)
	checkCompareDispatcherAlwaysDispatches(c)
	checkNoAppendOntoWindow(c, "R03.54", "In the DS handlers the storage is the work-group's LDS: a load that assembles its result with append writes the second element into the LDS behind the first.", 2, emuPkg, cdna3Pkg)
	return core.Meta{Level: "other",
		Explanation: "ISA rules that are uniform across opcodes and visible in the code shape, decided for both ALUs: dispatch integrity of every opcode switch (one handler per case, panicking default), ALL-OR-NONE for condition-code writes in every handler, shift-amount intervals in every handler of a shift instruction (handlers tied to instruction names through decode table → dispatch switch → callee), and destination-only operand writes / PC / EXEC writers.",
		NotDecided:  "arithmetic, rounding, saturation, carries and comparison semantics of individual opcodes (bit-exact conformance needs an executable ISA transcription, a different technique)",
		Assumptions: commonAssumptions}
}

func intRange(k types.BasicKind) (lo, hi int64, ok bool) {
	switch k {
	case types.Int8:
		return -1 << 7, 1<<7 - 1, true
	case types.Int16:
		return -1 << 15, 1<<15 - 1, true
	case types.Int32:
		return -1 << 31, 1<<31 - 1, true
	case types.Uint8:
		return 0, 1<<8 - 1, true
	case types.Uint16:
		return 0, 1<<16 - 1, true
	case types.Uint32:
		return 0, 1<<32 - 1, true
	}
	return 0, 0, false
}

// DebugSiblings prints, for instructions handled by both ALUs, the provenance of the values written (exploration aid).
func DebugSiblings(c *core.Ctx) {
	c.Load(emuPkg, cdna3Pkg, instsPkg)
	c.BuildSSA()
	t := LoadInstTables(c)
	prov := core.NewLocalProv(c)
	byInst := map[string]map[string]string{}
	for _, a := range []aluDesc{{emuPkg, "ALUImpl"}, {cdna3Pkg, "ALU"}} {
		p := c.Pkg(a.pkg)
		disp, _ := dispatchersOf(c, a)
		for format, dn := range disp {
			fd := findFuncDecl(p, a.typ+"."+dn)
			if fd == nil {
				continue
			}
			cases, _ := opcodeCases(p, fd)
			for _, oc := range cases {
				for _, cl := range oc.callees {
					fn := c.SSAFunc(a.pkg, a.typ+"."+cl)
					if fn == nil {
						continue
					}
					var outs []string
					for _, b := range fn.Blocks {
						for _, in := range b.Instrs {
							if name, cc := stateMethod(in); name == "WriteOperand" || name == "SetVCC" || name == "SetSCC" || name == "SetEXEC" {
								outs = append(outs, name+":"+prov.Of(cc.Args[len(cc.Args)-1]))
							}
						}
					}
					sort.Strings(outs)
					for _, op := range oc.values {
						if r, ok := t.Lookup(format, op); ok {
							if byInst[r.Name] == nil {
								byInst[r.Name] = map[string]string{}
							}
							byInst[r.Name][a.typ] = strings.Join(outs, " ; ")
						}
					}
				}
			}
		}
	}
	names := []string{}
	for n := range byInst {
		names = append(names, n)
	}
	sort.Strings(names)
	same, diff := 0, 0
	for _, n := range names {
		m := byInst[n]
		if len(m) < 2 {
			continue
		}
		if m["ALUImpl"] == m["ALU"] {
			same++
			continue
		}
		diff++
		fmt.Printf("== %s\n   gcn3 : %s\n   cdna3: %s\n", n, m["ALUImpl"], m["ALU"])
	}
	fmt.Println("same", same, "different", diff)
}
