package rules

import (
	"fmt"
	"go/constant"
	"go/token"
	"go/types"
	"sort"
	"strings"

	"golang.org/x/tools/go/ssa"

	"verif/internal/core"
)

func init() { register("C12", runC12) }

type lockKey struct {
	base  ssa.Value
	field string
}

// mutexCall: (*sync.Mutex).Lock/Unlock (or RWMutex) on &base.field
func mutexCall(in ssa.Instruction) (op string, k lockKey, ok bool) {
	cc := core.CallOf(in)
	if cc == nil || cc.IsInvoke() {
		return
	}
	cal := cc.StaticCallee()
	if cal == nil || cal.Pkg == nil || cal.Pkg.Pkg.Path() != "sync" || len(cc.Args) == 0 {
		return
	}
	switch cal.Name() {
	case "Lock", "RLock":
		op = "lock"
	case "Unlock", "RUnlock":
		op = "unlock"
	default:
		return
	}
	fa, isFA := cc.Args[0].(*ssa.FieldAddr)
	if !isFA {
		return
	}
	f := core.FieldOfAddr(fa)
	return op, lockKey{fa.X, f.Name()}, true
}

// locksets computes, per instruction, the set of mutexes certainly held.
func locksets(fn *ssa.Function) map[ssa.Instruction]map[lockKey]bool {
	in := map[*ssa.BasicBlock]map[lockKey]bool{}
	out := map[*ssa.BasicBlock]map[lockKey]bool{}
	top := map[*ssa.BasicBlock]bool{}
	for _, b := range fn.Blocks {
		top[b] = true
	}
	top[fn.Blocks[0]] = false
	in[fn.Blocks[0]] = map[lockKey]bool{}
	clone := func(m map[lockKey]bool) map[lockKey]bool {
		c := map[lockKey]bool{}
		for k := range m {
			c[k] = true
		}
		return c
	}
	transfer := func(b *ssa.BasicBlock, s map[lockKey]bool, rec map[ssa.Instruction]map[lockKey]bool) map[lockKey]bool {
		s = clone(s)
		for _, i := range b.Instrs {
			if rec != nil {
				rec[i] = clone(s)
			}
			if _, isDefer := i.(*ssa.Defer); isDefer {
				continue // a deferred Unlock releases at return only
			}
			if op, k, ok := mutexCall(i); ok {
				if op == "lock" {
					s[k] = true
				} else {
					delete(s, k)
				}
			}
		}
		return s
	}
	for changed := true; changed; {
		changed = false
		for _, b := range fn.Blocks {
			if b != fn.Blocks[0] {
				var acc map[lockKey]bool
				first := true
				for _, p := range b.Preds {
					if top[p] {
						continue
					}
					if first {
						acc = clone(out[p])
						first = false
					} else {
						for k := range acc {
							if !out[p][k] {
								delete(acc, k)
							}
						}
					}
				}
				if first {
					continue
				}
				in[b] = acc
			}
			o := transfer(b, in[b], nil)
			if top[b] || len(o) != len(out[b]) {
				changed = true
			} else {
				for k := range o {
					if !out[b][k] {
						changed = true
					}
				}
			}
			out[b] = o
			top[b] = false
		}
	}
	rec := map[ssa.Instruction]map[lockKey]bool{}
	for _, b := range fn.Blocks {
		if !top[b] {
			transfer(b, in[b], rec)
		}
	}
	return rec
}

func freshBase(v ssa.Value) bool {
	switch x := v.(type) {
	case *ssa.Alloc:
		return true
	case *ssa.Call:
		if b, ok := x.Call.Value.(*ssa.Builtin); ok && b.Name() == "new" {
			return true
		}
	}
	return false
}

func runC12(c *core.Ctx) core.Meta {
	c.Load(driverPkg, r9nanoPkg, mi300aPkg, tconfigPkg)
	c.BuildSSA()
	pd := NewPkgInfo(c, driverPkg)
	checkNoCountdownBeforeImmediateRetire(c, "R12.23", pd)
	checkParkedRequestsReleasedAtZero(c, pd)
	checkLaunchPathsMarkDirty(c, "R12.25", pd)
	checkDirtyMarkUnconditional(c, "R12.26")
	checkFlushDecision(c, "R12.32", pd, core.NewProv(c))
	checkAppendToOwnField(c, "R12.22", "The command processor flushes and invalidates the caches on its lists before a copy that touches a dirty buffer: a cache that is on no list keeps stale lines, and the kernel after the copy does not see what the copy wrote.", 8, NewPkgInfo(c, r9nanoPkg), NewPkgInfo(c, mi300aPkg), NewPkgInfo(c, tconfigPkg))
	checkNoCompactionWhileRanging(c, "R12.21", 7, pd)
	prov := core.NewLocalProv(c)

	// ---------------- R12.1 no droppable notification ----------------
	st1 := c.Rule("R12.1", "a channel that is the target of a non-blocking send (select with default) is created with capacity >= 1, so a notification issued between the waiter's condition test and its receive is kept; the waiter subscribes before its first test, re-tests its condition after every receive and returns only when the condition holds", 3)
	nbFields := map[string]bool{}
	pd.Instrs(func(fn *ssa.Function, in ssa.Instruction) {
		sel, ok := in.(*ssa.Select)
		if !ok || sel.Blocking {
			return
		}
		for _, st := range sel.States {
			if st.Dir == types.SendOnly {
				if f := core.LoadedField(st.Chan); f != nil {
					nbFields[core.ShortFieldID(f)] = true
				}
			}
		}
	})
	st1.Instances++
	st1.Ob(len(nbFields) > 0)
	if len(nbFields) == 0 {
		c.Report(core.Finding{Rule: "R12.1", Kind: "anchor", Pkg: driverPkg, Func: "-", Detail: "non-blocking-send", Msg: "no non-blocking notification send found: the rule lost its subject"})
	}
	pd.Instrs(func(fn *ssa.Function, in ssa.Instruction) {
		s, ok := in.(*ssa.Store)
		if !ok {
			return
		}
		f := core.FieldOfAddr(s.Addr)
		if f == nil || !nbFields[core.ShortFieldID(f)] {
			return
		}
		st1.Instances++
		mc, isMake := s.Val.(*ssa.MakeChan)
		capv, isC := int64(-1), false
		if isMake {
			capv, isC = core.ConstInt(mc.Size)
		}
		ok2 := isMake && isC && capv >= 1
		st1.Ob(ok2)
		st1.Sample("%s: %s = make(chan, %d)", core.FuncName(fn), core.ShortFieldID(f), capv)
		if !ok2 {
			c.ReportAt("R12.1", fn, in.Pos(), "capacity:"+core.ShortFieldID(f), fmt.Sprintf("the notification channel %s is created with capacity %d: Notify's non-blocking send is dropped when the waiter is between its emptiness test and its receive, and the waiter then blocks forever (lost wake-up)", core.ShortFieldID(f), capv))
		}
	})
	if fn := c.MustFunc("R12.1", driverPkg, "Driver.DrainCommandQueue"); fn != nil {
		c.MarkAnalysed(fn)
		g := core.BuildGraph(fn, 0, nil)
		var sub, wait, numc []*core.Node
		for _, n := range g.Nodes {
			if f := core.CalleeFunc(n.Instr); f != nil {
				if _, isDefer := n.Instr.(*ssa.Defer); isDefer {
					continue
				}
				switch core.FuncID(f) {
				case core.ModPath + "/amd/driver.CommandQueue.Subscribe":
					sub = append(sub, n)
				case core.ModPath + "/amd/driver.CommandQueueStatusListener.Wait":
					wait = append(wait, n)
				case core.ModPath + "/amd/driver.CommandQueue.NumCommand":
					numc = append(numc, n)
				}
			}
		}
		st1.Instances++
		ok := len(sub) == 1 && len(wait) >= 1 && len(numc) >= 1
		if ok {
			for _, n := range numc {
				if !sub[0].Block.Dominates(n.Block) {
					ok = false
				}
			}
		}
		st1.Ob(ok)
		if !ok {
			c.ReportAt("R12.1", fn, fn.Pos(), "drain:subscribe-first", "DrainCommandQueue does not subscribe before its first emptiness test: a completion between test and subscription is never signalled")
		}
		// every return is guarded by NumCommand()==0
		empty := queueEmptyCut()
		for _, r := range g.NodesWhere(func(n *core.Node) bool { _, isR := n.Instr.(*ssa.Return); return isR }) {
			st1.Instances++
			okR := g.Guarded(r, empty)
			st1.Ob(okR)
			if !okR {
				c.ReportAt("R12.1", fn, r.Instr.Pos(), "drain:return-guard", "DrainCommandQueue can return on a path that did not find the queue empty: it returns before earlier commands completed")
			}
		}
		// after each Wait the emptiness test is evaluated again before returning
		for _, w := range wait {
			st1.Instances++
			leak := false
			g.Walk(core.After(w, nil), core.WalkOpts{Stop: func(n *core.Node) bool {
				f := core.CalleeFunc(n.Instr)
				return f != nil && f.Name() == "NumCommand"
			}}, func(s core.State) {
				if _, isR := s.N.Instr.(*ssa.Return); isR {
					leak = true
				}
			})
			st1.Ob(!leak)
			if leak {
				c.ReportAt("R12.1", fn, w.Instr.Pos(), "drain:recheck", "after being woken the waiter can return without re-testing that the queue is empty")
			}
		}
	}

	// ---------------- R12.2 guarded-by ----------------
	st2 := c.Rule("R12.2", "guarded-by (lockset on the CFG): every access to CommandQueue.commands / .listeners, Driver.contexts / .engineRunning, Context.queues / .buffers happens while the paired mutex of the same object is held (constructors of fresh objects excepted)", 20)
	guarded := map[string]string{
		"CommandQueue.commands":  "commandsMutex",
		"CommandQueue.listeners": "listenerMutex",
		"Driver.contexts":        "contextMutex",
		"Driver.engineRunning":   "engineRunningMutex",
		"Context.queues":         "queueMutex",
		"Context.buffers":        "buffersMutex",
	}
	entryHeld := entryLockNames(pd)
	for _, fn := range pd.Funcs {
		var ls map[ssa.Instruction]map[lockKey]bool
		for _, b := range fn.Blocks {
			for _, in := range b.Instrs {
				fa, ok := in.(*ssa.FieldAddr)
				if !ok {
					continue
				}
				f := core.FieldOfAddr(fa)
				mu, isG := guarded[core.ShortFieldID(f)]
				if !isG {
					continue
				}
				if freshBase(fa.X) {
					continue
				}
				if ls == nil {
					ls = locksets(fn)
					c.MarkAnalysed(fn)
				}
				st2.Instances++
				held := ls[in][lockKey{fa.X, mu}] || entryHeld[fn][mu] // in the function, or at every call site of it
				st2.Ob(held)
				if held {
					st2.Sample("%s: %s accessed under %s", core.FuncName(fn), core.ShortFieldID(f), mu)
				} else {
					c.ReportAt("R12.2", fn, in.Pos(), "unlocked:"+core.ShortFieldID(f), fmt.Sprintf("%s is accessed without holding %s of the same object: a data race with the threads that append to it", core.ShortFieldID(f), mu))
				}
			}
		}
	}

	// ---------------- R12.3 no mixed atomic / plain access ----------------
	st3 := c.Rule("R12.3", "a variable that is passed to sync/atomic anywhere is accessed through sync/atomic everywhere", 1)
	atomicVars := map[string]bool{}
	pd.Instrs(func(fn *ssa.Function, in ssa.Instruction) {
		cc := core.CallOf(in)
		if cc == nil || cc.IsInvoke() || cc.StaticCallee() == nil || cc.StaticCallee().Pkg == nil || cc.StaticCallee().Pkg.Pkg.Path() != "sync/atomic" || len(cc.Args) == 0 {
			return
		}
		switch a := cc.Args[0].(type) {
		case *ssa.Global:
			atomicVars["global:"+a.Name()] = true
		case *ssa.FieldAddr:
			atomicVars["field:"+core.ShortFieldID(core.FieldOfAddr(a))] = true
		}
	})
	pd.Instrs(func(fn *ssa.Function, in ssa.Instruction) {
		check := func(addr ssa.Value, what string) {
			var key string
			switch a := addr.(type) {
			case *ssa.Global:
				key = "global:" + a.Name()
			case *ssa.FieldAddr:
				key = "field:" + core.ShortFieldID(core.FieldOfAddr(a))
			default:
				return
			}
			if !atomicVars[key] {
				return
			}
			st3.Instances++
			st3.Ob(false)
			c.ReportAt("R12.3", fn, in.Pos(), "plain-"+what+":"+key, fmt.Sprintf("%s is updated with sync/atomic elsewhere but %s here without it: two threads can observe the same value (e.g. two contexts receive the same process id)", key, what))
		}
		switch x := in.(type) {
		case *ssa.UnOp:
			if x.Op == token.MUL {
				check(x.X, "read")
			}
		case *ssa.Store:
			check(x.Addr, "write")
		}
	})
	for k := range atomicVars {
		st3.Instances++
		st3.Ob(true)
		st3.Sample("%s is an atomic variable", k)
	}

	// ---------------- R12.4 FIFO ownership ----------------
	st4 := c.Rule("R12.4", "the command list is written only by append at the tail (Enqueue) and removal of the head (Dequeue) and read at index 0 only; every command handler takes its command from Peek()", 4)
	pd.Instrs(func(fn *ssa.Function, in ssa.Instruction) {
		if s, ok := storeToField(in, "CommandQueue.commands"); ok {
			st4.Instances++
			pv := prov.Of(s.Val)
			ok2 := strings.HasPrefix(pv, "append(recv.commands,[") || pv == "recv.commands[1:]"
			st4.Ob(ok2)
			st4.Sample("%s: commands = %s", core.FuncName(fn), short(pv))
			if !ok2 {
				c.ReportAt("R12.4", fn, in.Pos(), "commands:write", "the command list is rewritten as "+short(pv)+": only append at the tail and removal of the head keep submission order")
			}
		}
		if ia, ok := in.(*ssa.IndexAddr); ok {
			if f := core.LoadedField(ia.X); f != nil && core.ShortFieldID(f) == "CommandQueue.commands" {
				st4.Instances++
				k, isC := core.ConstInt(ia.Index)
				ok2 := isC && k == 0
				st4.Ob(ok2)
				if !ok2 {
					c.ReportAt("R12.4", fn, in.Pos(), "commands:index", "a command other than the head of the queue is accessed ("+prov.Of(ia.Index)+")")
				}
			}
		}
	})
	if fn := c.MustFunc("R12.4", driverPkg, "Driver.processOneCommand"); fn != nil {
		st4.Instances++
		ok := false
		for _, b := range fn.Blocks {
			for _, in := range b.Instrs {
				if ta, isTA := in.(*ssa.TypeAssert); isTA {
					if strings.HasSuffix(prov.Of(ta.X), ".Peek()") {
						ok = true
					}
				}
			}
		}
		st4.Ob(ok)
		if !ok {
			c.ReportAt("R12.4", fn, fn.Pos(), "handler:peek", "the command processed is not the one returned by Peek()")
		}
	}

	// ---------------- R12.5 one command at a time ----------------
	st5 := c.Rule("R12.5", "a queue's next command is started only when the queue is not running one; a handler that starts a command marks the queue running; IsRunning is cleared only together with Dequeue", 4)
	n5, ung5 := pd.GuardedUp(func(in ssa.Instruction) bool { return callsFunc(in, pd.Pkg, "Driver.processOneCommand") }, BoolFieldCut("CommandQueue.IsRunning", false))
	st5.Instances += n5
	if n5 == 0 {
		c.Report(core.Finding{Rule: "R12.5", Kind: "anchor", Pkg: driverPkg, Func: "Driver.processOneCommand", Detail: "anchor", Msg: "no call of processOneCommand found"})
	}
	for i := 0; i < n5-len(ung5); i++ {
		st5.Ob(true)
	}
	for _, u := range ung5 {
		st5.Ob(false)
		c.ReportAt("R12.5", u.Target.Fn(), u.Target.Instr.Pos(), "start:guard", "a command is started on a path that did not find the queue idle (IsRunning == false): two commands of one queue overlap")
	}
	// a call that dequeues: CommandQueue.Dequeue itself or a function of the package that reaches it
	deqFn := c.SSAFunc(driverPkg, "CommandQueue.Dequeue")
	deqReach := map[*ssa.Function]bool{}
	for changed := true; changed; {
		changed = false
		for _, fn := range pd.Funcs {
			if deqReach[fn] {
				continue
			}
			for _, b := range fn.Blocks {
				for _, in := range b.Instrs {
					if cc := core.CallOf(in); cc != nil {
						if cal := cc.StaticCallee(); cal != nil && (cal == deqFn || deqReach[cal]) && !deqReach[fn] {
							deqReach[fn] = true
							changed = true
						}
					}
				}
			}
		}
	}
	dequeues := func(in ssa.Instruction) bool {
		cc := core.CallOf(in)
		if cc == nil {
			return false
		}
		cal := cc.StaticCallee()
		return cal != nil && (cal == deqFn || deqReach[cal])
	}
	pd.Instrs(func(fn *ssa.Function, in ssa.Instruction) {
		s, ok := storeToField(in, "CommandQueue.IsRunning")
		if !ok {
			return
		}
		b, isC := core.ConstBool(s.Val)
		if !isC {
			return
		}
		st5.Instances++
		if !b {
			paired := false
			for _, i2 := range in.Block().Instrs {
				if dequeues(i2) {
					paired = true
				}
			}
			// or a Dequeue dominated by this store
			if !paired {
				for _, b2 := range fn.Blocks {
					for _, i2 := range b2.Instrs {
						if dequeues(i2) && in.Block().Dominates(b2) {
							paired = true
						}
					}
				}
			}
			st5.Ob(paired)
			if !paired {
				c.ReportAt("R12.5", fn, in.Pos(), "IsRunning=false:unpaired", "IsRunning is cleared without dequeuing the command: the same command is started again")
			}
		} else {
			st5.Ob(true)
			st5.Sample("%s: IsRunning = true when the command starts", core.FuncName(fn))
		}
	})
	// asynchronous handlers (those that queue requests for a command) mark the queue running
	for _, fn := range pd.Funcs {
		name := core.FuncName(fn)
		if !(strings.HasPrefix(name, "Driver.process") || strings.HasPrefix(name, "defaultMemoryCopyMiddleware.process")) || !strings.HasSuffix(name, "Command") {
			continue
		}
		queues := false
		sets := false
		for _, b := range fn.Blocks {
			for _, in := range b.Instrs {
				if f := writtenField(in); f != nil && (f.Name() == "requestsToSend" || f.Name() == "awaitingReqs") {
					queues = true
				}
				if s, ok := storeToField(in, "CommandQueue.IsRunning"); ok {
					if b, isC := core.ConstBool(s.Val); isC && b {
						sets = true
					}
				}
			}
		}
		if !queues {
			continue
		}
		st5.Instances++
		st5.Ob(sets)
		if !sets {
			c.ReportAt("R12.5", fn, fn.Pos(), "start-without-IsRunning", name+" issues requests for a command without marking the queue running: the next tick starts the following command (or the same one again) before this one completed")
		}
	}

	// ---------------- R12.6 goroutine inventory ----------------
	st6 := c.Rule("R12.6", "goroutines and multi-way selects of the driver are exactly the frozen inventory (Run->runAsync, runAsync->runEngine; selects in runAsync and Notify); the engine is run only from runEngine, under engineMutex; enqueueSignal is received only in runAsync", 4)
	inventory := map[string]string{
		"go:Driver.Run->Driver.runAsync":           "the driver thread",
		"go:Driver.runAsync->Driver.runEngine":     "the engine thread (one at a time, guarded by engineRunning)",
		"select:Driver.runAsync":                   "stop / enqueue signals",
		"select:CommandQueueStatusListener.Notify": "non-blocking notification",
	}
	seen := map[string]bool{}
	pd.Instrs(func(fn *ssa.Function, in ssa.Instruction) {
		var key string
		switch x := in.(type) {
		case *ssa.Go:
			callee := "?"
			if cal := x.Call.StaticCallee(); cal != nil {
				callee = core.FuncName(cal)
			}
			key = "go:" + core.FuncName(fn) + "->" + callee
		case *ssa.Select:
			if len(x.States) < 2 {
				return
			}
			key = "select:" + core.FuncName(fn)
		default:
			return
		}
		st6.Instances++
		_, ok := inventory[key]
		seen[key] = true
		st6.Ob(ok)
		st6.Sample("%s", key)
		if !ok {
			c.ReportAt("R12.6", fn, in.Pos(), key, "a goroutine / multi-way select outside the reviewed inventory: new interleavings between application, driver and engine threads are introduced")
		}
	})
	for _, k := range sortedKeys(inventory) {
		if !seen[k] {
			st6.Instances++
			st6.Ob(false)
			c.Report(core.Finding{Rule: "R12.6", Kind: "anchor", Pkg: driverPkg, Func: "-", Detail: k, Msg: "inventory entry no longer present: " + k})
		}
	}
	// Engine.Run only in runEngine, with engineMutex held
	pd.Instrs(func(fn *ssa.Function, in ssa.Instruction) {
		cc := core.CallOf(in)
		if cc == nil || !cc.IsInvoke() || cc.Method.Name() != "Run" || cc.Method.Pkg() == nil || cc.Method.Pkg().Path() != core.SimPkg {
			return
		}
		st6.Instances++
		ls := locksets(fn)
		held := false
		for k := range ls[in] {
			if k.field == "engineMutex" {
				held = true
			}
		}
		ok := core.FuncName(fn) == "Driver.runEngine" && held
		st6.Ob(ok)
		if !ok {
			c.ReportAt("R12.6", fn, in.Pos(), "Engine.Run", "the event engine is run outside runEngine / without engineMutex: two threads could execute events concurrently")
		}
	})
	// receivers of enqueueSignal
	pd.Instrs(func(fn *ssa.Function, in ssa.Instruction) {
		recvOn := func(ch ssa.Value) {
			if f := core.LoadedField(ch); f != nil && f.Name() == "enqueueSignal" {
				st6.Instances++
				ok := core.FuncName(fn) == "Driver.runAsync"
				st6.Ob(ok)
				if !ok {
					c.ReportAt("R12.6", fn, in.Pos(), "enqueueSignal:receiver", "enqueueSignal is received outside runAsync: wake-ups for the driver thread can be stolen")
				}
			}
		}
		switch x := in.(type) {
		case *ssa.UnOp:
			if x.Op == token.ARROW {
				recvOn(x.X)
			}
		case *ssa.Select:
			for _, s := range x.States {
				if s.Dir == types.RecvOnly {
					recvOn(s.Chan)
				}
			}
		}
	})
	// engine start hand-off: engineRunning set true only where it was found false under the mutex, and runEngine clears it
	if fn := c.MustFunc("R12.6", driverPkg, "Driver.runAsync"); fn != nil {
		// helpers of the driver that take the decision are expanded at their call sites
		g := core.BuildGraph(fn, 2, func(callee *ssa.Function) bool { return callee.Pkg == fn.Pkg })
		for _, n := range g.Nodes {
			if _, isGo := n.Instr.(*ssa.Go); isGo {
				st6.Instances++
				ok := g.Guarded(n, BoolFieldCut("Driver.engineRunning", false))
				st6.Ob(ok)
				if !ok {
					c.ReportAt("R12.6", fn, n.Instr.Pos(), "engine-start:guard", "an engine thread is started on a path that did not find engineRunning == false: two engine threads run events concurrently")
				}
			}
		}
	}

	// ---------------- R12.7 a run request is never dropped on the word of a stale flag ----------------
	st7 := c.Rule("R12.7", "when runAsync finds engineRunning set and therefore does not start an engine goroutine, it leaves a re-run request (a store under engineRunningMutex) and runEngine clears engineRunning only on a path on which it found that request absent, under the same mutex, running the engine again otherwise: the engine can already have found its event queue empty when the flag is read, and the tick scheduled for the request would never be executed (DrainCommandQueue blocks forever)", 1)
	if ra, re := c.MustFunc("R12.7", driverPkg, "Driver.runAsync"), c.MustFunc("R12.7", driverPkg, "Driver.runEngine"); ra != nil && re != nil {
		c.MarkAnalysed(ra)
		c.MarkAnalysed(re)
		gra := core.BuildGraph(ra, 2, func(callee *ssa.Function) bool { return callee.Pkg == ra.Pkg })
		lsCache := map[*ssa.Function]map[ssa.Instruction]map[lockKey]bool{}
		lsOf := func(fn *ssa.Function) map[ssa.Instruction]map[lockKey]bool {
			if _, ok := lsCache[fn]; !ok {
				lsCache[fn] = locksets(fn)
			}
			return lsCache[fn]
		}
		// does runAsync skip starting the engine on engineRunning == true?
		skips := false
		var reqField string
		for _, n := range gra.Nodes {
			iff, ok := n.Instr.(*ssa.If)
			if !ok {
				continue
			}
			f := condField(iff.Cond)
			if f == nil || core.ShortFieldID(f) != "Driver.engineRunning" {
				continue
			}
			skips = true
			// on the true edge, before looping back: a store of true into another Driver field, with the mutex held
			gra.Walk([]core.State{{N: n.Succs[0]}}, core.WalkOpts{ForwardOnly: true}, func(st core.State) {
				if s, ok := st.N.Instr.(*ssa.Store); ok {
					if wf := core.FieldOfAddr(s.Addr); wf != nil && core.ShortFieldID(wf) != "Driver.engineRunning" && strings.HasPrefix(core.ShortFieldID(wf), "Driver.") {
						if b, isC := core.ConstBool(s.Val); isC && b {
							held := false
							for k := range lsOf(st.N.Fn())[st.N.Instr] {
								if k.field == "engineRunningMutex" {
									held = true
								}
							}
							if held {
								reqField = core.ShortFieldID(wf)
							}
						}
					}
				}
			})
		}
		st7.Instances++
		if !skips {
			st7.Ob(true)
			st7.Sample("runAsync starts (or queues) an engine run for every signal: no request can be dropped")
		} else {
			st7.Ob(reqField != "")
			st7.Sample("runAsync leaves a re-run request in %q when it finds the engine flagged as running", reqField)
			if reqField == "" {
				c.ReportAt("R12.7", ra, ra.Pos(), "rerun-request:missing", "runAsync skips starting the engine when engineRunning is set and records nothing: if the engine goroutine has already found its event queue empty and is about to clear the flag, the tick scheduled for this signal is never executed and DrainCommandQueue blocks forever (lost wake-up between runAsync and runEngine)")
			} else {
				// runEngine: engineRunning=false guarded by reqField == false, and Engine.Run reachable from the reqField == true edge
				gre := core.BuildGraph(re, 0, nil)
				okClear, okLoop := true, false
				for _, n := range gre.Nodes {
					if s, ok := storeToField(n.Instr, "Driver.engineRunning"); ok {
						if b, isC := core.ConstBool(s.Val); isC && !b {
							st7.Instances++
							g1 := gre.Guarded(n, BoolFieldCut(reqField, false))
							st7.Ob(g1)
							if !g1 {
								okClear = false
							}
						}
					}
					if iff, ok := n.Instr.(*ssa.If); ok {
						if f := condField(iff.Cond); f != nil && core.ShortFieldID(f) == reqField {
							after, _ := gre.Reach([]core.State{{N: n.Succs[0]}}, core.WalkOpts{})
							for m := range after {
								if cc := core.CallOf(m.Instr); cc != nil && cc.IsInvoke() && cc.Method.Name() == "Run" {
									okLoop = true
								}
							}
						}
					}
				}
				st7.Instances++
				st7.Ob(okLoop)
				if !okClear {
					c.ReportAt("R12.7", re, re.Pos(), "rerun-request:clear-unguarded", "runEngine clears engineRunning on a path that did not find the re-run request ("+reqField+") absent: a request recorded by runAsync is dropped")
				}
				if !okLoop {
					c.ReportAt("R12.7", re, re.Pos(), "rerun-request:not-served", "runEngine does not run the engine again when it finds the re-run request ("+reqField+") set")
				}
			}
		}
	}

	// ---------------- R12.13 the engine hand-off is decided after the tick is scheduled ----------------
	st13 := c.Rule("R12.13", "runAsync schedules the driver's tick (TickLater) before it either asks the running engine goroutine for one more run (the re-run request) or claims the engine for a new goroutine (engineRunning = true): within one turn of its loop, helpers expanded, no such store is reachable before the TickLater call. An engine goroutine that is leaving Engine.Run can consume a request raised earlier, run the still empty event queue, clear engineRunning and exit; the tick scheduled afterwards is never executed and DrainCommandQueue blocks forever", 2)
	if ra := c.MustFunc("R12.13", driverPkg, "Driver.runAsync"); ra != nil {
		g := core.BuildGraph(ra, 2, func(callee *ssa.Function) bool { return callee.Pkg == ra.Pkg })
		isTick := func(n *core.Node) bool {
			cc := core.CallOf(n.Instr)
			if cc == nil {
				return false
			}
			if cc.IsInvoke() {
				return cc.Method.Name() == "TickLater" || cc.Method.Name() == "TickNow"
			}
			cal := cc.StaticCallee()
			return cal != nil && (cal.Name() == "TickLater" || cal.Name() == "TickNow")
		}
		ticks := 0
		for _, n := range g.Nodes {
			if isTick(n) {
				ticks++
			}
		}
		claims := map[*core.Node]string{}
		for _, n := range g.Nodes {
			s, ok := n.Instr.(*ssa.Store)
			if !ok {
				continue
			}
			f := core.FieldOfAddr(s.Addr)
			if f == nil {
				continue
			}
			id := core.ShortFieldID(f)
			if id != "Driver.engineRunning" && id != "Driver.engineRerun" {
				continue
			}
			if b, isC := core.ConstBool(s.Val); isC && b {
				claims[n] = id
			}
		}
		early := map[*core.Node]bool{}
		g.Walk([]core.State{{N: g.Entry}}, core.WalkOpts{ForwardOnly: true, Stop: isTick}, func(st core.State) {
			if _, ok := claims[st.N]; ok {
				early[st.N] = true
			}
		})
		if ticks == 0 {
			c.ReportAt("R12.13", ra, ra.Pos(), "handoff:no-tick", "runAsync does not schedule the driver's tick for an enqueue signal")
		}
		for n, id := range claims {
			st13.Instances++
			st13.Ob(!early[n])
			st13.Sample("runAsync: %s = true only after the tick is scheduled: %v", id, !early[n])
			if early[n] {
				c.ReportAt("R12.13", n.Fn(), n.Instr.Pos(), "handoff:before-tick:"+id, id+" is set before the tick for the enqueue signal is scheduled: an engine goroutine that is on its way out of Engine.Run can serve the request on an empty event queue, clear engineRunning and exit before TickLater runs; the tick stays in an engine nobody runs and DrainCommandQueue / MemCopy / LaunchKernel never return")
			}
		}
	}

	_ = sort.Strings
	// ---------------- R12.8 waiters are released only after the command's results are in place ----------------
	checkHostWritesAfterRelease(c, pd, prov, "R12.8")

	// ---------------- R12.9 nothing is traced for a command after its waiters were released ----------------
	st9 := c.Rule("R12.9", "in the driver's command dispatch (Driver.processOneCommand with its callees; a call through the Middleware interface counts as a release when an implementation of the method in the package reaches CommandQueue.Dequeue) no tracing.StartTask is reachable after a point that can release the threads waiting for the queue: the released application thread may end the simulation and close the tracers while the simulation goroutine is still starting a task for the finished command", 2)
	if root := c.MustFunc("R12.9", driverPkg, "Driver.processOneCommand"); root != nil {
		deq := c.SSAFunc(driverPkg, "CommandQueue.Dequeue")
		// functions of the package that can reach Dequeue
		reaches := map[*ssa.Function]bool{}
		changed := true
		for changed {
			changed = false
			for _, fn := range pd.Funcs {
				if reaches[fn] {
					continue
				}
				for _, b := range fn.Blocks {
					for _, in := range b.Instrs {
						if cc := core.CallOf(in); cc != nil {
							if cal := cc.StaticCallee(); cal != nil && (cal == deq || reaches[cal]) {
								if !reaches[fn] {
									reaches[fn] = true
									changed = true
								}
							}
						}
					}
				}
			}
		}
		mayRelease := func(in ssa.Instruction) bool {
			cc := core.CallOf(in)
			if cc == nil {
				return false
			}
			if cal := cc.StaticCallee(); cal != nil {
				return cal == deq
			}
			if cc.IsInvoke() {
				for fn := range reaches {
					if fn.Name() == cc.Method.Name() && fn.Signature.Recv() != nil && types.Implements(fn.Signature.Recv().Type(), cc.Value.Type().Underlying().(*types.Interface)) {
						return true
					}
				}
			}
			return false
		}
		isStart := func(in ssa.Instruction) bool {
			cc := core.CallOf(in)
			if cc == nil {
				return false
			}
			cal := cc.StaticCallee()
			return cal != nil && cal.Pkg != nil && strings.HasSuffix(cal.Pkg.Pkg.Path(), "/tracing") && cal.Name() == "StartTask"
		}
		c.MarkAnalysed(root)
		g := core.BuildGraph(root, 5, func(cal *ssa.Function) bool { return cal.Pkg == root.Pkg && cal != deq })
		rel := g.NodesWhere(func(n *core.Node) bool { return mayRelease(n.Instr) })
		starts := g.NodesWhere(func(n *core.Node) bool { return isStart(n.Instr) })
		st9.Sample("%d release points and %d StartTask calls in the command dispatch", len(rel), len(starts))
		if len(rel) < 2 || len(starts) < 1 {
			c.Report(core.Finding{Rule: "R12.9", Kind: "floor", Pkg: driverPkg, Func: "Driver.processOneCommand", Detail: "subject", Msg: fmt.Sprintf("%d release points and %d StartTask calls recognised in the command dispatch: the rule lost its subject", len(rel), len(starts))})
		}
		for _, n := range rel {
			st9.Instances++
			reach, okW := g.Reach(core.After(n, nil), core.WalkOpts{ForwardOnly: true})
			var late *core.Node
			for _, s := range starts {
				if reach[s] {
					late = s
				}
			}
			st9.Ob(okW && late == nil)
			if late != nil {
				c.ReportAt("R12.9", late.Fn(), late.Instr.Pos(), "start-task-after-release:"+core.FuncName(n.Fn()), "tracing.StartTask for the command is reachable after "+core.InstrString(n.Instr)+" in "+core.FuncName(n.Fn())+", which can release the threads waiting for the queue: the task is started for a command that is already finished, possibly after the application closed the tracers (nil-map panic in the DB tracer)")
			}
		}
	}

	// ---------------- R12.14 a command's task is closed before its waiters are released ----------------
	checkTraceAfterRelease(c, pd, "R12.14")

	// ---------------- R12.20 a buffer is clean when the flush has returned, not when it is requested ----------------
	st20 := c.Rule("R12.20", "the driver's dirty marks are set when a kernel is launched and tell a later copy to flush first. A mark may be cleared only by what follows the return of a flush (a function reached from processFlushReturn only): no function that a command-processing function (process...Command), an Enqueue* method or an exported API reaches stores l2Dirty = false on an existing buffer or context. Clearing the marks when a flush is requested erases the mark of a kernel of another queue that is still running; the copy that follows that kernel sends no flush and reads memory while the kernel's results are in the L2", 1)
	{
		callers := map[*ssa.Function][]*ssa.Function{}
		for _, fn := range pd.Funcs {
			for _, b := range fn.Blocks {
				for _, in := range b.Instrs {
					if cc := core.CallOf(in); cc != nil {
						if cal := cc.StaticCallee(); cal != nil && cal.Pkg == pd.Pkg {
							callers[cal] = append(callers[cal], fn)
						}
					}
				}
			}
		}
		dirtyStores := 0
		pd.Instrs(func(fn *ssa.Function, in ssa.Instruction) {
			sto, ok := in.(*ssa.Store)
			if !ok {
				return
			}
			f := core.FieldOfAddr(sto.Addr)
			if f == nil || f.Name() != "l2Dirty" {
				return
			}
			k, isC := sto.Val.(*ssa.Const)
			if !isC || k.Value == nil {
				return
			}
			if constant.BoolVal(k.Value) {
				dirtyStores++
				return
			}
			// a fresh object (composite literal of a new buffer) is clean by construction
			if fa, ok := sto.Addr.(*ssa.FieldAddr); ok {
				if _, fresh := fa.X.(*ssa.Alloc); fresh {
					return
				}
			}
			st20.Instances++
			c.MarkAnalysed(fn)
			// who reaches this function?
			seen := map[*ssa.Function]bool{}
			var bad *ssa.Function
			var up func(g *ssa.Function)
			up = func(g *ssa.Function) {
				if seen[g] || bad != nil {
					return
				}
				seen[g] = true
				name := g.Name()
				if strings.Contains(name, "FlushReturn") || strings.Contains(name, "FlushRsp") {
					return // the flush has returned
				}
				if (strings.HasPrefix(name, "process") && strings.HasSuffix(name, "Command")) || strings.HasPrefix(name, "Enqueue") || (g.Object() != nil && g.Object().Exported() && g != fn) {
					bad = g
					return
				}
				for _, cl := range callers[g] {
					up(cl)
				}
			}
			up(fn)
			st20.Ob(bad == nil)
			st20.Sample("%s clears a dirty mark; reached from command processing: %v", core.FuncName(fn), bad != nil)
			if bad != nil {
				c.ReportAt("R12.20", fn, in.Pos(), "dirty-mark-cleared-at-request:"+core.FuncName(fn), core.FuncName(fn)+" clears l2Dirty and is reached from "+core.FuncName(bad)+", which runs when a command is processed, not when a flush has returned: the marks of kernels that are still in flight on other queues are erased, and the copy that follows such a kernel in its queue reads memory without a flush")
			}
		})
		st20.Instances += dirtyStores
		for i := 0; i < dirtyStores; i++ {
			st20.Ob(true)
		}
		st20.Sample("stores that set a dirty mark (the matcher's positive example): %d", dirtyStores)
	}

	// ---------------- R12.19 progress of every context counts ----------------
	st19 := c.Rule("R12.19", "the driver keeps ticking while any context made progress: where a function with a bool result collects its answer in a loop (processNewCommand over the contexts, the queue loops below it), the value carried around the loop is derived from itself on the back edge (p = step() || p), so that an earlier iteration's progress is not forgotten. With p = step(), a command started from an older context while the newer ones are idle is reported as no progress: the driver sleeps with the command's requests unsent and the wait on its queue never returns", 2)
	checkProgressAccumulated(c, st19, "R12.19", pd, "A command that an older context started is not continued: the engine runs dry and DrainCommandQueue never returns")

	// ---------------- R12.18 the running flag falls only with the command ----------------
	st18 := c.Rule("R12.18", "a queue stops counting as running only when its head command is retired: after every store CommandQueue.IsRunning = false the same pass reaches CommandQueue.Dequeue (directly or through a helper of the package) on every path to the function's return. A flag cleared while the command stays at the head (a kernel on a unified device still waiting for the other GPUs' responses) lets processNewCommand start the same command again on the next tick: the kernel runs repeatedly, the command is never dequeued and the drain never returns", 4)
	pd.Instrs(func(fn *ssa.Function, in ssa.Instruction) {
		sto, ok := storeToField(in, "CommandQueue.IsRunning")
		if !ok {
			return
		}
		if k, isC := sto.Val.(*ssa.Const); !isC || k.Value == nil || constant.BoolVal(k.Value) {
			return
		}
		g := core.BuildGraph(fn, 0, nil)
		n := g.NodeOf(in)
		if n == nil {
			return
		}
		st18.Instances++
		c.MarkAnalysed(fn)
		var leak *core.Node
		okW := g.Walk(core.After(n, nil), core.WalkOpts{ForwardOnly: true, Stop: func(m *core.Node) bool { return dequeues(m.Instr) }}, func(x core.State) {
			if _, isRet := x.N.Instr.(*ssa.Return); isRet && leak == nil {
				leak = x.N
			}
		})
		st18.Ob(okW && leak == nil)
		st18.Sample("%s: IsRunning = false is followed by Dequeue on every path: %v", core.FuncName(fn), leak == nil)
		if leak != nil {
			c.ReportAt("R12.18", fn, in.Pos(), "running-flag-cleared-without-dequeue:"+core.FuncName(fn), core.FuncName(fn)+" clears the queue's running flag and can return ("+c.Position(leak.Instr.Pos())+") without dequeuing the command: the command is still at the head, the queue looks idle, and the next tick starts it again (a unified multi-GPU kernel is re-issued to every GPU after each response; the queue is never drained)")
		}
	})

	// ---------------- R12.15 host data is touched when the command runs, not when it is enqueued ----------------
	checkHostDataAtProcessingTime(c, pd, "R12.15")

	// ---------------- R12.16 a response that was consumed counts as progress ----------------
	st16 := c.Rule("R12.16", "the driver is woken by the arrival of a message and keeps ticking only while a tick reports progress: in its receive handlers (functions with a bool result, helpers expanded and their results followed) no `return false` is reachable after RetrieveIncoming took a message. A handler that consumes one of several responses of a command and reports no progress lets the engine run dry with the next response still queued; the command is never retired and DrainCommandQueue / LaunchKernel never return (unified multi-GPU kernels: one response per GPU)", 6)
	checkRetrievedThenGivenUp(c, st16, "R12.16", pd, "nobody schedules another tick for a message that is already queued behind it, the engine runs out of events and the wait on the command queue never returns")

	// ---------------- R12.17 a listener / command / response is removed alone ----------------
	st17 := c.Rule("R12.17", "removing one waiter, command or response from a list of the driver removes exactly that one: every append / in-place copy of the driver package that joins two windows of the same slice (the removal idiom of Unsubscribe, of the response matching and of the queues) takes element i out and nothing else - append(s[:i], s[i+1:]...), or copy(s[i:], s[i+1:]) followed by cutting the slice by one. A shifted window drops a live listener: its DrainCommandQueue is never notified again and blocks although the queue is empty", 2)
	checkSliceRemovalIdiom(c, st17, "R12.17", pd, "with two threads waiting on one queue the earlier subscriber's departure silently drops the later one, whose wait never returns")

	// ---------------- R12.11 what a launch reads was written earlier on its own queue ----------------
	st11 := c.Rule("R12.11", "commands of one queue take effect in order, queues are not ordered against each other: every device address that EnqueueLaunchKernel puts into the dispatch packet or the launch command (code object, kernel arguments, packet) is the destination of an EnqueueMemCopyH2D on the same queue on every path to the launch command (must-pass on the flow graph); a launch that relies on a copy enqueued on another queue can start before that copy has completed", 3)
	if fn := c.MustFunc("R12.11", driverPkg, "Driver.EnqueueLaunchKernel"); fn != nil {
		c.MarkAnalysed(fn)
		g := core.BuildGraph(fn, 0, nil)
		var launch *core.Node
		var ptrs []ssa.Value
		var names []string
		for _, n := range g.Nodes {
			cc := core.CallOf(n.Instr)
			if cc == nil || cc.StaticCallee() == nil {
				continue
			}
			switch cc.StaticCallee().Name() {
			case "createAQLPacket":
				if len(cc.Args) == 5 { // receiver, grid, wg, code object, kernel arguments
					ptrs = append(ptrs, cc.Args[3], cc.Args[4])
					names = append(names, "code object", "kernel arguments")
				}
			case "enqueueLaunchKernelCommand":
				launch = n
				if len(cc.Args) == 5 { // receiver, queue, co, packet, device packet
					ptrs = append(ptrs, cc.Args[4])
					names = append(names, "dispatch packet")
				}
			}
		}
		if launch == nil || len(ptrs) != 3 {
			c.Report(core.Finding{Rule: "R12.11", Kind: "anchor", Pkg: driverPkg, Func: "Driver.EnqueueLaunchKernel", Detail: "shape", Msg: fmt.Sprintf("launch command / packet construction not recognised (%d addresses)", len(ptrs))})
		} else {
			queueArg := core.CallOf(launch.Instr).Args[1]
			for i, p := range ptrs {
				st11.Instances++
				isCopy := func(n *core.Node) bool {
					cc := core.CallOf(n.Instr)
					if cc == nil || cc.StaticCallee() == nil || cc.StaticCallee().Name() != "EnqueueMemCopyH2D" || len(cc.Args) < 4 {
						return false
					}
					return cc.Args[1] == queueArg && core.StripConv(cc.Args[2]) == core.StripConv(p)
				}
				reach, okW := g.Reach([]core.State{{N: g.Entry}}, core.WalkOpts{Stop: isCopy})
				okP := okW && !reach[launch]
				st11.Ob(okP)
				st11.Sample("%s: copied on the launching queue on every path: %v", names[i], okP)
				if !okP {
					c.ReportAt("R12.11", fn, launch.Instr.Pos(), "launch-reads-uncopied:"+strings.ReplaceAll(names[i], " ", "-"), "the launch command can be enqueued on a path on which the "+names[i]+" was not copied to the device by a command of the same queue (the address comes from the code-object cache, filled by a copy on whichever queue launched the kernel first): commands of different queues are not ordered, so the kernel can start before its code is in device memory")
				}
			}
		}
	}

	// ---------------- R12.12 a cached device address stays in the process that allocated it ----------------
	st12 := c.Rule("R12.12", "device addresses are virtual addresses of one process (every process starts allocating at the same address): where the driver caches the address it allocated for an object (a map from the object to a Ptr that is filled with the result of AllocateMemory), the key of every lookup and update carries the process ID of the context that allocated it; otherwise a second process is handed an address of the first one, which in its own address space names unrelated data", 1)
	{
		nSites := 0
		for _, fn := range pd.Funcs {
			var allocs []ssa.Value
			for _, b := range fn.Blocks {
				for _, in := range b.Instrs {
					if call, ok := in.(*ssa.Call); ok {
						if cal := call.Call.StaticCallee(); cal != nil && cal.Name() == "AllocateMemory" {
							allocs = append(allocs, call)
						}
					}
				}
			}
			if len(allocs) == 0 {
				continue
			}
			isAlloc := func(v ssa.Value) bool {
				for i := 0; i < 4; i++ {
					for _, a := range allocs {
						if v == a {
							return true
						}
					}
					switch t := v.(type) {
					case *ssa.Phi:
						for _, e := range t.Edges {
							for _, a := range allocs {
								if e == a {
									return true
								}
							}
						}
						return false
					case *ssa.ChangeType:
						v = t.X
					default:
						return false
					}
				}
				return false
			}
			for _, b := range fn.Blocks {
				for _, in := range b.Instrs {
					mu, ok := in.(*ssa.MapUpdate)
					if !ok || !isAlloc(mu.Value) {
						continue
					}
					nSites++
					st12.Instances++
					c.MarkAnalysed(fn)
					kp := prov.Of(mu.Key)
					okK := strings.Contains(kp, ".pid")
					st12.Ob(okK)
					st12.Sample("%s caches an allocated address under %s", core.FuncName(fn), short(kp))
					if !okK {
						c.ReportAt("R12.12", fn, mu.Pos(), "address-cache-key-without-pid", core.FuncName(fn)+" caches the device address it allocated under the key "+short(kp)+", which does not carry the allocating context's process ID: a launch from another process reuses the address although it belongs to the first process's address space (the kernel then fetches that process's own data as code)")
					}
				}
			}
		}
		if nSites == 0 {
			c.Report(core.Finding{Rule: "R12.12", Kind: "floor", Pkg: driverPkg, Func: "-", Detail: "cache-sites", Msg: "no cache of allocated device addresses found, 1 confirmed by hand"})
		}
	}

	// ---------------- R12.10 thread-shared fields, discovered (c12shared.go) ----------------
	checkSharedFields(c, pd)

	checkIntegerWidths(c, "R12.27", "Addresses and sizes in the driver are not narrowed, widened after they could wrap, or clamped by an unsigned difference.", 5, []widthScope{{rel: driverPkg}}, []string{"narrow", "widen-wrapped", "unsigned-diff", "unsigned-bound-minus-one"}, widthAllowDriver)
	checkClosedChannelHasNoSender(c, "R12.28", pd)
	checkNotifyAfterChange(c, pd)
	checkEmptyCopyMeasuresHostValue(c, "R12.30")
	checkListWalkedUnderItsLock(c, "R12.31", pd)
	return core.Meta{Level: "other",
		Explanation: "Structural conditions whose absence is the lost wake-up, the data race or the reordering, decided on SSA of amd/driver: capacity of channels targeted by non-blocking sends, the subscribe/test/wait/re-test shape of the drain loop, a guarded-by lockset analysis for five field/mutex pairs, no mixed atomic/plain access, FIFO ownership of the command list, one command at a time per queue (start guard, IsRunning pairing), the frozen inventory of goroutines, selects, engine runs and signal receivers, and the hand-off between runAsync and runEngine (a run request recorded while the engine is flagged as running is honoured before the flag is cleared).",
		NotDecided:  "liveness under all interleavings (a model-checking question); memory effects between commands",
		Assumptions: commonAssumptions}
}

// queueEmptyCut: the edges on which `q.NumCommand() == 0` holds.
func queueEmptyCut() EdgeCut {
	return CmpCut(func(_ *core.Node, op token.Token, x, y ssa.Value) int {
		call, isCall := x.(*ssa.Call)
		if !isCall || core.CalleeFunc(call) == nil || core.CalleeFunc(call).Name() != "NumCommand" {
			return 0
		}
		if z, isC := core.ConstInt(y); !isC || z != 0 {
			return 0
		}
		switch op {
		case token.EQL, token.LEQ:
			return 1
		case token.NEQ, token.GTR:
			return -1
		}
		return 0
	})
}

// checkHostWritesAfterRelease (R12.8, shared with C05 as R05.8): no write into a command's
// host destination after the command was dequeued.
func checkHostWritesAfterRelease(c *core.Ctx, pd *PkgInfo, prov *core.Prov, rule string) {
	st8 := c.Rule(rule, "CommandQueue.Dequeue wakes the application threads that wait for the queue to drain; in every driver function that retires a command (calls Dequeue itself or through helpers of the package, which are expanded), no write into the command's host-side destination (encoding/binary.Read or copy into a value whose provenance ends in .Dst) is reachable after the Dequeue call: the waiter would read its buffer while the simulation goroutine is still filling it, and what the program reads back depends on how the two threads are scheduled", 5)
	deq := c.SSAFunc(driverPkg, "CommandQueue.Dequeue")
	deqReach := map[*ssa.Function]bool{}
	for changed := true; changed; {
		changed = false
		for _, fn := range pd.Funcs {
			if deqReach[fn] {
				continue
			}
			for _, b := range fn.Blocks {
				for _, in := range b.Instrs {
					if cc := core.CallOf(in); cc != nil {
						if cal := cc.StaticCallee(); cal != nil && (cal == deq || deqReach[cal]) && !deqReach[fn] {
							deqReach[fn] = true
							changed = true
						}
					}
				}
			}
		}
	}
	isHostWrite := func(n *core.Node) bool {
		cc := core.CallOf(n.Instr)
		if cc == nil {
			return false
		}
		if b, ok := cc.Value.(*ssa.Builtin); ok && b.Name() == "copy" && len(cc.Args) == 2 {
			return strings.Contains(provThroughFrames(prov, n, cc.Args[0]), ".Dst")
		}
		if cal := cc.StaticCallee(); cal != nil && cal.Pkg != nil && cal.Pkg.Pkg.Path() == "encoding/binary" && cal.Name() == "Read" && len(cc.Args) == 3 {
			pv := provThroughFrames(prov, n, cc.Args[2])
			if strings.Contains(pv, ".Dst") {
				return true
			}
			// `cmd.Dst` of a command handed to a helper: the field is loaded from the helper's parameter
			if ld, ok := cc.Args[2].(*ssa.UnOp); ok {
				if f := core.LoadedField(ld); f != nil && f.Name() == "Dst" {
					return true
				}
			}
		}
		return false
	}
	nWrites := 0
	seenWrite := map[ssa.Instruction]bool{}
	for _, fn := range pd.Funcs {
		has := false
		for _, b := range fn.Blocks {
			for _, in := range b.Instrs {
				if cc := core.CallOf(in); cc != nil && deq != nil {
					if cal := cc.StaticCallee(); cal != nil && (cal == deq || deqReach[cal]) {
						has = true
					}
				}
			}
		}
		if !has {
			continue
		}
		c.MarkAnalysed(fn)
		g := core.BuildGraph(fn, 3, func(cal *ssa.Function) bool { return cal.Pkg == fn.Pkg && cal != deq })
		for _, n := range g.NodesWhere(func(n *core.Node) bool {
			cc := core.CallOf(n.Instr)
			return cc != nil && cc.StaticCallee() == deq
		}) {
			st8.Instances++
			reach, okW := g.Reach(core.After(n, nil), core.WalkOpts{ForwardOnly: true})
			var late *core.Node
			for m := range reach {
				if isHostWrite(m) && (late == nil || m.ID < late.ID) {
					late = m
				}
			}
			st8.Ob(okW && late == nil)
			if late != nil {
				c.ReportAt(rule, fn, late.Instr.Pos(), "host-write-after-dequeue:"+core.FuncName(late.Fn()), "the command's host destination is written after CommandQueue.Dequeue released the threads waiting for the queue: MemCopyD2H / DrainCommandQueue can return before the data is in the caller's buffer")
			}
		}
		for _, n := range g.Nodes {
			if isHostWrite(n) && !seenWrite[n.Instr] {
				seenWrite[n.Instr] = true
				nWrites++
			}
		}
	}
	st8.Sample("%d host-destination writes in functions that retire commands", nWrites)
	if nWrites < 2 {
		c.Report(core.Finding{Rule: rule, Kind: "floor", Pkg: driverPkg, Func: "-", Detail: "host-writes", Msg: fmt.Sprintf("%d writes into a command's host destination recognised, 3 confirmed by hand: the rule lost its subject", nWrites)})
	}
}

// checkTraceAfterRelease (R12.14, shared with C05 as R05.11): nothing is traced for a command
// after CommandQueue.Dequeue released the application thread.
func checkTraceAfterRelease(c *core.Ctx, pd *PkgInfo, rule string) {
	// a call that dequeues: CommandQueue.Dequeue itself or a function of the package that reaches it
	deqFn := c.SSAFunc(driverPkg, "CommandQueue.Dequeue")
	deqReach := map[*ssa.Function]bool{}
	for changed := true; changed; {
		changed = false
		for _, fn := range pd.Funcs {
			if deqReach[fn] {
				continue
			}
			for _, b := range fn.Blocks {
				for _, in := range b.Instrs {
					if cc := core.CallOf(in); cc != nil {
						if cal := cc.StaticCallee(); cal != nil && (cal == deqFn || deqReach[cal]) && !deqReach[fn] {
							deqReach[fn] = true
							changed = true
						}
					}
				}
			}
		}
	}
	dequeues := func(in ssa.Instruction) bool {
		cc := core.CallOf(in)
		if cc == nil {
			return false
		}
		cal := cc.StaticCallee()
		return cal != nil && (cal == deqFn || deqReach[cal])
	}
	st14 := c.Rule(rule, "in every function of the driver that retires a command (calls CommandQueue.Dequeue), helpers of the package expanded, no call into the tracing package (EndTask, StartTask, AddTaskStep ...) is reachable after the Dequeue within the same pass: Dequeue releases the application thread, which reads the kernel-time and busy-time tracers right after the last command (Runner.Run reports without waiting for the engine); a task that is ended afterwards is missing from that report or races with it", 4)
	if deq := c.SSAFunc(driverPkg, "CommandQueue.Dequeue"); deq != nil {
		isTrace := func(in ssa.Instruction) bool {
			cc := core.CallOf(in)
			if cc == nil {
				return false
			}
			cal := cc.StaticCallee()
			return cal != nil && cal.Pkg != nil && strings.HasSuffix(cal.Pkg.Pkg.Path(), "/tracing")
		}
		for _, fn := range pd.Funcs {
			direct := false
			for _, b := range fn.Blocks {
				for _, in := range b.Instrs {
					if dequeues(in) {
						direct = true
					}
				}
			}
			if !direct {
				continue
			}
			c.MarkAnalysed(fn)
			g := core.BuildGraph(fn, 2, func(cal *ssa.Function) bool { return cal.Pkg == fn.Pkg && cal != deq })
			for _, n := range g.Nodes {
				cc := core.CallOf(n.Instr)
				if cc == nil || cc.StaticCallee() != deq {
					continue
				}
				st14.Instances++
				var late *core.Node
				okW := g.Walk(core.After(n, nil), core.WalkOpts{ForwardOnly: true}, func(x core.State) {
					if isTrace(x.N.Instr) && late == nil {
						late = x.N
					}
				})
				st14.Ob(okW && late == nil)
				st14.Sample("%s: nothing is traced after Dequeue: %v", core.FuncName(fn), late == nil)
				if late != nil {
					c.ReportAt(rule, fn, n.Instr.Pos(), "trace-after-release:"+core.FuncName(fn), core.InstrString(late.Instr)+" ("+core.FuncName(late.Fn())+") is reachable after the command was dequeued: the application thread waiting in DrainCommandQueue is released first and can read or close the tracers while the command's task is still open; the last command's time is missing from the report in that schedule")
				}
			}
		}
	}

}

// checkHostDataAtProcessingTime (R12.15, shared with C11 as R11.13): a copy command touches its
// host buffer when it is processed, not when it is enqueued.
func checkHostDataAtProcessingTime(c *core.Ctx, pd *PkgInfo, rule string) {
	st15 := c.Rule(rule, "a copy command reads its host source and writes its host destination when it is processed at the head of its queue (simulation side), not when it is enqueued: no function that an exported Enqueue* method of the driver reaches by static calls inside the package encodes or decodes host data (encoding/binary.Write / Read). A source serialised at enqueue time misses what earlier commands of the same queue write into that host buffer (EnqueueMemCopyD2D stages its tail bytes through one: D2H into tmp, then H2D from tmp)", 3)
	{
		reach := map[*ssa.Function]*ssa.Function{} // function -> the API entry that reaches it
		var add func(fn, root *ssa.Function)
		add = func(fn, root *ssa.Function) {
			if fn == nil || fn.Pkg != pd.Pkg {
				return
			}
			if _, seen := reach[fn]; seen {
				return
			}
			reach[fn] = root
			for _, b := range fn.Blocks {
				for _, in := range b.Instrs {
					if cc := core.CallOf(in); cc != nil {
						add(cc.StaticCallee(), root)
					}
				}
			}
		}
		var roots []*ssa.Function
		for _, fn := range pd.Funcs {
			if fn.Signature.Recv() != nil && namedTypeName(fn.Signature.Recv().Type()) == "driver.Driver" && strings.HasPrefix(fn.Name(), "Enqueue") && fn.Object() != nil && fn.Object().Exported() {
				roots = append(roots, fn)
			}
		}
		sort.Slice(roots, func(i, j int) bool { return roots[i].Name() < roots[j].Name() })
		for _, r := range roots {
			add(r, r)
		}
		for _, r := range roots {
			st15.Instances++
			c.MarkAnalysed(r)
			var bad ssa.Instruction
			var where *ssa.Function
			for fn, root := range reach {
				if root != r {
					continue
				}
				for _, b := range fn.Blocks {
					for _, in := range b.Instrs {
						if cc := core.CallOf(in); cc != nil {
							if cal := cc.StaticCallee(); cal != nil && cal.Pkg != nil && cal.Pkg.Pkg.Path() == "encoding/binary" && (cal.Name() == "Write" || cal.Name() == "Read") {
								if bad == nil || in.Pos() < bad.Pos() {
									bad, where = in, fn
								}
							}
						}
					}
				}
			}
			st15.Ob(bad == nil)
			if bad != nil {
				c.ReportAt(rule, where, bad.Pos(), "host-data-at-enqueue:"+r.Name(), "Driver."+r.Name()+" reaches "+core.FuncName(where)+", which encodes / decodes host data with encoding/binary on the enqueuing thread: the command is built from the host buffer as it is at enqueue time, so it does not see what earlier commands of the same queue write into that buffer (MemCopyD2D of a byte count that is not a multiple of four copies zeros for its tail)")
			}
		}
		st15.Sample("%d exported Enqueue* methods, %d functions reachable from them", len(roots), len(reach))
	}

}
