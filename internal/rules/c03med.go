package rules

import (
	"fmt"
	"go/token"
	"go/types"
	"strings"

	"golang.org/x/tools/go/ssa"

	"verif/internal/core"
)

// orderEvalRank interprets a function that only compares and selects its integer
// parameters: each parameter is given a rank, every comparison is decided on the
// ranks, and the result is the rank that is returned. Phi nodes, conditional moves
// through assignments and swaps are followed. ok is false when the function does
// anything else (arithmetic on the values, calls).
func orderEvalRank(fn *ssa.Function, rank map[*ssa.Parameter]int) (int, bool) {
	type val struct {
		v      int
		isRank bool
	}
	vals := map[ssa.Value]val{}
	get := func(v ssa.Value) (val, bool) {
		if p, ok := v.(*ssa.Parameter); ok {
			r, ok := rank[p]
			return val{r, true}, ok
		}
		if b, ok := core.ConstBool(v); ok {
			if b {
				return val{1, false}, true
			}
			return val{0, false}, true
		}
		x, ok := vals[v]
		return x, ok
	}
	if len(fn.Blocks) == 0 {
		return 0, false
	}
	b := fn.Blocks[0]
	var prev *ssa.BasicBlock
	for steps := 0; steps < 1000; steps++ {
		// phis read their operands simultaneously
		upd := map[ssa.Value]val{}
		for _, in := range b.Instrs {
			phi, ok := in.(*ssa.Phi)
			if !ok {
				break
			}
			for i, p := range b.Preds {
				if p == prev {
					x, ok := get(phi.Edges[i])
					if !ok {
						return 0, false
					}
					upd[phi] = x
				}
			}
		}
		for k, v := range upd {
			vals[k] = v
		}
		for _, in := range b.Instrs {
			switch t := in.(type) {
			case *ssa.Phi, *ssa.DebugRef:
			case *ssa.BinOp:
				x, ok1 := get(t.X)
				y, ok2 := get(t.Y)
				if !ok1 || !ok2 || x.isRank != y.isRank {
					return 0, false
				}
				var r bool
				switch t.Op {
				case token.LSS:
					r = x.v < y.v
				case token.LEQ:
					r = x.v <= y.v
				case token.GTR:
					r = x.v > y.v
				case token.GEQ:
					r = x.v >= y.v
				case token.EQL:
					r = x.v == y.v
				case token.NEQ:
					r = x.v != y.v
				default:
					return 0, false
				}
				if r {
					vals[t] = val{1, false}
				} else {
					vals[t] = val{0, false}
				}
			case *ssa.UnOp:
				x, ok := get(t.X)
				if !ok || x.isRank || t.Op != token.NOT {
					return 0, false
				}
				vals[t] = val{1 - x.v, false}
			case *ssa.If:
				c, ok := get(t.Cond)
				if !ok || c.isRank {
					return 0, false
				}
				prev = b
				if c.v != 0 {
					b = b.Succs[0]
				} else {
					b = b.Succs[1]
				}
			case *ssa.Jump:
				prev = b
				b = b.Succs[0]
			case *ssa.Return:
				if len(t.Results) != 1 {
					return 0, false
				}
				r, ok := get(t.Results[0])
				if !ok || !r.isRank {
					return 0, false
				}
				return r.v, true
			case *ssa.Call:
				// the builtins min / max of ranks
				if bi, ok := t.Call.Value.(*ssa.Builtin); ok && (bi.Name() == "min" || bi.Name() == "max") {
					out := 0
					for i, a := range t.Call.Args {
						x, ok := get(a)
						if !ok || !x.isRank {
							return 0, false
						}
						if i == 0 || (bi.Name() == "min" && x.v < out) || (bi.Name() == "max" && x.v > out) {
							out = x.v
						}
					}
					vals[t] = val{out, true}
					continue
				}
				return 0, false
			default:
				return 0, false
			}
		}
	}
	return 0, false
}

// R03.36: the median-of-three helpers return the median.
func checkMedian3(c *core.Ctx, handlers []handlerRef) {
	st := c.Rule("R03.36", "v_med3_u32 / v_med3_i32 return the median of their three sources, ties included: every helper named median3* that the v_med3 handlers call is interpreted over the order domain (each of the 13 weak orderings of three values; comparisons decided on ranks, selections and swaps followed through the SSA form) and must return a value whose rank is the middle one of the sorted triple", 2)
	seen := map[*ssa.Function]bool{}
	for _, h := range handlers {
		isMed := false
		for _, n := range h.insts {
			if strings.HasPrefix(baseMnemonic(n), "v_med3_") {
				isMed = true
			}
		}
		if !isMed {
			continue
		}
		root := c.SSAFunc(h.alu.pkg, h.alu.typ+"."+h.name)
		if root == nil {
			continue
		}
		for _, b := range root.Blocks {
			for _, in := range b.Instrs {
				call, ok := in.(*ssa.Call)
				if !ok {
					continue
				}
				cal := call.Call.StaticCallee()
				if cal == nil || !strings.HasPrefix(strings.ToLower(cal.Name()), "median3") || len(cal.Params) != 3 {
					continue
				}
				// the order the helper compares in is the order of the mnemonic's type: a signed
				// median taken over the unsigned reinterpretation ranks every negative source above
				// every non-negative one
				wantSigned, known := false, false
				for _, n := range h.insts {
					switch {
					case strings.Contains(baseMnemonic(n), "_i32"), strings.Contains(baseMnemonic(n), "_i16"):
						wantSigned, known = true, true
					case strings.Contains(baseMnemonic(n), "_u32"), strings.Contains(baseMnemonic(n), "_u16"):
						wantSigned, known = false, true
					}
				}
				if bt, isB := cal.Params[0].Type().Underlying().(*types.Basic); isB && known && bt.Info()&types.IsInteger != 0 {
					st.Instances++
					gotSigned := bt.Info()&types.IsUnsigned == 0
					st.Ob(gotSigned == wantSigned)
					if gotSigned != wantSigned {
						c.ReportAt("R03.36", root, call.Pos(), "median-signedness:"+h.name, core.FuncName(root)+" ("+strings.Join(h.insts, ", ")+") takes the median with "+core.FuncName(cal)+", which compares "+bt.Name()+" values: the sources are ordered as the wrong kind of integer (v_med3_i32 5, -128, 127 returns 127: as unsigned numbers -128 is the largest)")
					}
				}
				if seen[cal] {
					continue
				}
				seen[cal] = true
				st.Instances++
				c.MarkAnalysed(cal)
				bad := ""
				for _, w := range weakOrderings(3) {
					rank := map[*ssa.Parameter]int{cal.Params[0]: w[0], cal.Params[1]: w[1], cal.Params[2]: w[2]}
					got, ok := orderEvalRank(cal, rank)
					if !ok {
						c.Undecided("R03.36", cal, cal.Pos(), "shape", "the median helper is no longer a comparison / selection skeleton; it cannot be decided over the order domain")
						bad = "undecided"
						break
					}
					s := []int{w[0], w[1], w[2]}
					if s[0] > s[1] {
						s[0], s[1] = s[1], s[0]
					}
					if s[1] > s[2] {
						s[1], s[2] = s[2], s[1]
					}
					if s[0] > s[1] {
						s[0], s[1] = s[1], s[0]
					}
					if got != s[1] && bad == "" {
						bad = fmt.Sprintf("for values ordered like (%d, %d, %d) it returns the one ranked %d, the median is ranked %d", w[0], w[1], w[2], got, s[1])
					}
				}
				st.Ob(bad == "")
				if bad != "" && bad != "undecided" {
					c.ReportAt("R03.36", cal, cal.Pos(), "median-of-ties", core.FuncName(cal)+" does not return the median when two sources are equal: "+bad+" (v_med3_u32 5, 3, 3 gives 5)")
				}
			}
		}
	}
}
