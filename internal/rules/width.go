package rules

import (
	"fmt"
	"go/token"
	"go/types"
	"math/big"
	"sort"
	"strings"

	"golang.org/x/tools/go/ssa"

	"verif/internal/core"
)

// width.go: integer width, signedness and wrap-around rules.
//
// The quantities the properties are about (virtual and physical addresses,
// byte sizes, work-group and thread-block counts, lane masks) are 64-bit (or,
// for grid sizes, 32-bit unsigned) in the types the repository gives them. A
// slip of width leaves every small input alone and breaks the large ones, so
// no sampled test sees it; but it is visible in the shape of the code:
//
//   narrow         a conversion to a narrower integer type of a value that is
//                  not a constant (uint32(addr), uint8(size), int16(word));
//   widen-wrapped  a conversion to a wider type of the result of arithmetic
//                  done in the narrower type that can wrap there (^x, x<<s,
//                  x-y, x*y): the wrap is frozen in before the widening;
//   sign-extend    unsigned -> signed of the same width -> wider: the top bit
//                  of an unsigned quantity is smeared over the upper half;
//   narrow-counter a field that is counted up and down by one and is narrower
//                  than 32 bits;
//   unsigned-diff  an unsigned difference tested for "> 0" (it is never
//                  negative: the test is "!= 0"), or an unsigned "x - 1" used
//                  as a bound of a comparison where x is not known non-zero.
//
// Each rule instance is one function of the property's packages. The sites
// that exist on the confirmed tree are frozen in a table, one reason each,
// keyed by function, kind and the two types; a site beyond the table is a
// violation. The rule decides the shape only: it does not bound the values.

type widthSite struct {
	field *types.Var // narrow-counter: the counted field
	fn    *ssa.Function
	pos   token.Pos
	kind  string
	from  string
	to    string
}

func (w widthSite) key() string {
	if w.field != nil {
		return core.ShortFieldID(w.field) + "|" + w.kind + "|" + w.from + "->" + w.to
	}
	return core.FuncName(w.fn) + "|" + w.kind + "|" + w.from + "->" + w.to
}

func intSize(c *core.Ctx, t types.Type) (int64, bool, bool) {
	b, ok := t.Underlying().(*types.Basic)
	if !ok || b.Info()&types.IsInteger == 0 {
		return 0, false, false
	}
	return c.Sizeof(t), b.Info()&types.IsUnsigned != 0, true
}

func typeShort(t types.Type) string {
	if b, ok := t.Underlying().(*types.Basic); ok {
		return b.Name()
	}
	return t.String()
}

func isConstVal(v ssa.Value) bool {
	_, ok := v.(*ssa.Const)
	return ok
}

// widthSitesOf lists the sites of one function.
func widthSitesOf(c *core.Ctx, fn *ssa.Function, kinds map[string]bool) []widthSite {
	var out []widthSite
	add := func(pos token.Pos, kind string, from, to types.Type) {
		if kinds[kind] {
			out = append(out, widthSite{nil, fn, pos, kind, typeShort(from), typeShort(to)})
		}
	}
	for _, b := range fn.Blocks {
		for _, in := range b.Instrs {
			switch x := in.(type) {
			case *ssa.Convert:
				fs, fu, ok1 := intSize(c, x.X.Type())
				ts, _, ok2 := intSize(c, x.Type())
				if !ok1 || !ok2 || isConstVal(x.X) {
					continue
				}
				if ts < fs {
					if !fitsIn(x.X, ts) {
						add(x.Pos(), "narrow", x.X.Type(), x.Type())
					}
					continue
				}
				if ts > fs {
					switch y := x.X.(type) {
					case *ssa.BinOp:
						wraps := false
						switch y.Op {
						case token.SHL, token.MUL:
							wraps = true
						case token.SUB:
							wraps = fu
						}
						// x<<k by a constant of a constant is folded; a constant operand on
						// both sides never reaches here
						if r := uRangeOf(y, 0, nil); fu && !r.top && r.hi.Cmp(maxOfBits(int(fs)*8)) <= 0 && y.Op != token.SUB {
							wraps = false // the interval evaluator bounds the result inside the narrower type
						}
						if wraps && !(isConstVal(y.X) && isConstVal(y.Y)) {
							add(x.Pos(), "widen-wrapped", x.X.Type(), x.Type())
						}
					case *ssa.UnOp:
						if y.Op == token.XOR {
							add(x.Pos(), "widen-wrapped", x.X.Type(), x.Type())
						}
					case *ssa.Convert:
						// unsigned -> signed (same width) -> wider
						is, iu, ok3 := intSize(c, y.X.Type())
						if ok3 && iu && !fu && is >= fs && !isConstVal(y.X) {
							add(x.Pos(), "sign-extend", y.X.Type(), x.Type())
						}
					}
				}
			case *ssa.BinOp:
				// unsigned difference tested against zero with an ordering
				if x.Op == token.GTR || x.Op == token.LSS || x.Op == token.LEQ || x.Op == token.GEQ {
					for i, side := range []ssa.Value{x.X, x.Y} {
						d, ok := side.(*ssa.BinOp)
						if !ok || d.Op != token.SUB {
							continue
						}
						_, du, ok := intSize(c, d.Type())
						if !ok || !du {
							continue
						}
						other := x.Y
						if i == 1 {
							other = x.X
						}
						if k, isK := core.ConstUint(other); isK && k == 0 && !isConstVal(d.Y) {
							add(x.Pos(), "unsigned-diff", d.Type(), d.Type())
						}
						if k, isK := core.ConstUint(d.Y); isK && k == 1 && !isConstVal(d.X) && !nonZeroGuarded(d.X, x) {
							add(x.Pos(), "unsigned-bound-minus-one", d.Type(), d.Type())
						}
					}
				}
			}
		}
	}
	return out
}

// nonZeroGuarded: v is compared with zero (== / != / > ) by a condition that
// dominates the use.
func nonZeroGuarded(v ssa.Value, use ssa.Instruction) bool {
	refs := v.Referrers()
	if refs == nil {
		return false
	}
	for _, r := range *refs {
		bo, ok := r.(*ssa.BinOp)
		if !ok {
			continue
		}
		switch bo.Op {
		case token.EQL, token.NEQ, token.GTR, token.LSS:
		default:
			continue
		}
		other := bo.Y
		if other == v {
			other = bo.X
		}
		if k, isK := core.ConstUint(other); !isK || k != 0 {
			continue
		}
		if bo.Block() != use.Block() && bo.Block().Dominates(use.Block()) {
			return true
		}
	}
	return false
}

// narrowCounterFields: fields of the package's structs that some function
// counts up or down by one, and whose type is an integer narrower than 32 bits.
func narrowCounterFields(c *core.Ctx, pi *PkgInfo) (int, []widthSite) {
	counted := 0
	seen := map[*types.Var]bool{}
	var out []widthSite
	pi.Instrs(func(fn *ssa.Function, in ssa.Instruction) {
		s, ok := in.(*ssa.Store)
		if !ok {
			return
		}
		f := core.FieldOfAddr(s.Addr)
		if f == nil || seen[f] {
			return
		}
		bo, ok := s.Val.(*ssa.BinOp)
		if !ok || (bo.Op != token.ADD && bo.Op != token.SUB) {
			return
		}
		if k, isK := core.ConstInt(bo.Y); !isK || k != 1 {
			return
		}
		if core.LoadedField(bo.X) != f {
			return
		}
		seen[f] = true
		counted++
		if sz, _, isInt := intSize(c, f.Type()); isInt && sz < 4 {
			out = append(out, widthSite{f, fn, f.Pos(), "narrow-counter:" + f.Name(), typeShort(f.Type()), typeShort(f.Type())})
		}
	})
	return counted, out
}

type widthScope struct {
	rel    string
	filter func(fn *ssa.Function) bool // nil: every source function of the package
}

// checkIntegerWidths: see the head of the file. allow maps a site key
// (function|kind|from->to) to "N reason": at most N such sites in that function.
func checkIntegerWidths(c *core.Ctx, rule, text string, floor int, scopes []widthScope, kinds []string, allow map[string]string) {
	st := c.Rule(rule, text, floor)
	km := map[string]bool{}
	for _, k := range kinds {
		km[k] = true
	}
	used := map[string]int{}
	for _, sc := range scopes {
		pi := NewPkgInfo(c, sc.rel)
		if pi.Pkg == nil {
			continue
		}
		var sites []widthSite
		for _, fn := range pi.Funcs {
			if sc.filter != nil && !sc.filter(fn) {
				continue
			}
			st.Instances++
			c.MarkAnalysed(fn)
			fs := widthSitesOf(c, fn, km)
			sites = append(sites, fs...)
			if len(fs) == 0 {
				st.Ob(true)
			}
		}
		if km["narrow-counter"] {
			n, fs := narrowCounterFields(c, pi)
			st.Instances += n
			for i := 0; i < n-len(fs); i++ {
				st.Ob(true)
			}
			sites = append(sites, fs...)
		}
		sort.SliceStable(sites, func(i, j int) bool { return sites[i].pos < sites[j].pos })
		for _, s := range sites {
			k := s.key()
			used[k]++
			if a, ok := allow[k]; ok {
				var n int
				fmt.Sscanf(a, "%d", &n)
				if used[k] <= n {
					st.Ob(true)
					st.Sample("%s %s: %s", c.Position(s.pos), k, strings.TrimLeft(a, "0123456789 "))
					continue
				}
			}
			st.Ob(false)
			pos := s.pos
			if !pos.IsValid() {
				pos = s.fn.Pos()
			}
			if s.field != nil {
				// keyed by the struct that owns the counter, not by whichever function counts first
				owner := strings.SplitN(core.ShortFieldID(s.field), ".", 2)[0]
				c.Report(core.Finding{Rule: rule, Pkg: core.RelPkg(s.field.Pkg().Path()), Func: owner, Detail: s.kind + ":" + s.from, Pos: c.Position(s.field.Pos()), Msg: widthMessage(s)})
				continue
			}
			c.ReportAt(rule, s.fn, pos, s.kind+":"+s.from+"->"+s.to, widthMessage(s))
		}
	}
	for k := range allow {
		if used[k] == 0 {
			c.Notes = append(c.Notes, rule+": table entry "+k+" no longer matches a site (informational)")
		}
	}
}

func widthMessage(s widthSite) string {
	fn := core.FuncName(s.fn)
	switch {
	case s.kind == "narrow":
		return fn + " converts a " + s.from + " to " + s.to + ": the upper bits are dropped, so two values that differ only there are treated as one (every value that fits behaves as before)"
	case s.kind == "widen-wrapped":
		return fn + " widens to " + s.to + " the result of arithmetic done in " + s.from + " (complement, shift, difference or product): what did not fit in " + s.from + " is already lost when the value is widened"
	case s.kind == "sign-extend":
		return fn + " takes a " + s.from + " through a signed type no wider than it and then widens it to " + s.to + ": a value with its top bit set gets the whole upper half set"
	case strings.HasPrefix(s.kind, "narrow-counter"):
		return "the field " + strings.TrimPrefix(s.kind, "narrow-counter:") + " is counted up and down by one and has type " + s.from + ": the count wraps to zero long before the quantities it counts run out, and a test for zero passes with work still outstanding"
	case s.kind == "unsigned-diff":
		return fn + " tests an unsigned difference against zero with an ordering: the difference is never negative, it wraps, so the test is true whenever the two differ"
	case s.kind == "unsigned-bound-minus-one":
		return fn + " uses an unsigned x-1 as a bound without x being known non-zero: for x = 0 the bound is the largest value of the type and the test accepts everything"
	}
	return fn + ": " + s.kind
}

func recvIs(name string) func(fn *ssa.Function) bool {
	return func(fn *ssa.Function) bool {
		r := fn.Signature.Recv()
		if r == nil {
			if fn.Parent() != nil {
				return recvIs(name)(fn.Parent())
			}
			return false
		}
		return strings.HasSuffix(strings.TrimPrefix(r.Type().String(), "*"), "."+name)
	}
}

func inFile(c *core.Ctx, base string) func(fn *ssa.Function) bool {
	return func(fn *ssa.Function) bool {
		return fn.Pos().IsValid() && strings.HasSuffix(c.Fset.Position(fn.Pos()).Filename, "/"+base)
	}
}

var (
	widthAllowC02 = map[string]string{}
	widthAllowC04 = map[string]string{}
	widthAllowC05 = map[string]string{}
	widthAllowC08 = map[string]string{
		"gridBuilderImpl.countWG|widen-wrapped|uint32->int": "3 (grid-1)/wg+1 per dimension: wraps only for a grid size of 0, which the dispatch packet does not allow (recorded under 'seen' with the twentieth batch in DESIGN 9.6)",
	}
	widthAllowC09    = map[string]string{}
	widthAllowDrvInt = map[string]string{}
	widthAllowC11    = map[string]string{}
	widthAllowDriver = map[string]string{
		"Driver.EnqueueMemCopyD2D|narrow|int->uint32":         "1 the copy kernel's grid size is a uint32 in the dispatch packet; the word count of a device-to-device copy is what it is given",
		"Driver.Init|narrow|uint64->uint32":                   "1 process ids count up from 1 by one per Init; vm.PID is 32 bits wide",
		"Driver.distributeWGToGPUs|widen-wrapped|uint32->int": "1 the product of the three work-group counts; wraps only at 2^32 work-groups (recorded under 'seen' with the twentieth batch in DESIGN 9.6)",
	}
	widthAllowC13 = map[string]string{
		"overrideRegisterCountsFromSymbols|narrow|uint64->uint16": "2 the value of the .sgpr_count/.vgpr_count symbols is a register count (at most 512)",
		"parseV5KernelDescriptor|narrow|uint32->uint16":           "2 (granulated count + 1) * 4 or * 8 of a 6-bit and a 4-bit field: at most 256",
	}
	widthAllowC14 = map[string]string{}
	widthAllowC15 = map[string]string{}
	widthAllowC16 = map[string]string{}
	widthAllowC17 = map[string]string{}
	widthAllowC19 = map[string]string{}
	widthAllowC20 = map[string]string{}
)

// checkLaneBitIsOneBit (R06.bit): a lane mask (VCC, EXEC, a carry-out in SDST)
// is put together in a lane loop by OR-ing "something << lane" into a 64-bit
// accumulator. That something must be one bit: a value above 1 sets the bits of
// the lanes above as well, lanes that may be switched off or may have produced
// the other answer. The constant 1 is one bit; anything else is put through the
// unsigned interval evaluator (a carry "(a+b)>>32" of two zero-extended 32-bit
// values is at most 1; a borrow "(a-b)>>32" is not: the difference wraps).
func checkLaneBitIsOneBit(c *core.Ctx) {
	st := c.Rule("R06.bit", "what a lane contributes to a 64-bit lane mask (x << lane OR-ed into the accumulator) is one bit: the constant 1, or a value the interval evaluator bounds by 1; a wider value spills into the bits of the lanes above, whatever their EXEC bit or their own result", 100)
	for _, rel := range []string{emuPkg, cdna3Pkg} {
		for _, fn := range c.SrcFuncs(rel) {
			for _, b := range fn.Blocks {
				for _, in := range b.Instrs {
					shl, ok := in.(*ssa.BinOp)
					if !ok || shl.Op != token.SHL || isConstVal(shl.Y) {
						continue
					}
					if bits, isU := uTypeBits(shl.Type()); !isU || bits != 64 {
						continue
					}
					intoOr := false
					var walk func(v ssa.Value, d int)
					walk = func(v ssa.Value, d int) {
						if d > 3 || v.Referrers() == nil {
							return
						}
						for _, r := range *v.Referrers() {
							switch y := r.(type) {
							case *ssa.BinOp:
								if y.Op == token.OR {
									intoOr = true
								}
							case *ssa.Convert:
								walk(y, d+1)
							}
						}
					}
					walk(shl, 0)
					if !intoOr {
						continue
					}
					st.Instances++
					c.MarkAnalysed(fn)
					if k, isK := core.ConstUint(shl.X); isK {
						st.Ob(k <= 1)
						if k > 1 {
							c.ReportAt("R06.bit", fn, shl.Pos(), "lane-bit-wider-than-one", core.FuncName(fn)+" ORs the constant "+fmt.Sprint(k)+" shifted by a variable amount into a 64-bit mask")
						}
						continue
					}
					if carryOfBitsArith(shl.X) {
						st.Ob(true)
						continue
					}
					r := uRangeOf(shl.X, 0, nil)
					if r.hi.Cmp(big.NewInt(1)) <= 0 {
						st.Ob(true)
						continue
					}
					st.Ob(false)
					c.ReportAt("R06.bit", fn, shl.Pos(), "lane-bit-wider-than-one", core.FuncName(fn)+" ORs a value shifted by a variable amount into a 64-bit mask, and the value is not bounded by 1 (the evaluator gives at most "+r.hi.String()+"): one lane's contribution spills into the bits of the lanes above it")
				}
			}
		}
	}
}

// fitsIn: the value is known to fit in an integer of size bytes: the interval
// evaluator bounds it (unsigned operands), or it is a remainder by, or a
// conjunction with, a constant that fits (either signedness).
func fitsIn(v ssa.Value, size int64) bool {
	max := maxOfBits(int(size)*8 - 1) // fits the signed and the unsigned type of that size
	if r := uRangeOf(v, 0, nil); !r.top && r.hi.Cmp(max) <= 0 {
		if _, isU := uTypeBits(v.Type()); isU {
			return true
		}
	}
	if bo, ok := v.(*ssa.BinOp); ok {
		switch bo.Op {
		case token.REM:
			if k, isK := core.ConstInt(bo.Y); isK && k > 0 && big.NewInt(k).Cmp(max) <= 0 {
				return true
			}
		case token.AND:
			for _, side := range []ssa.Value{bo.X, bo.Y} {
				if k, isK := core.ConstInt(side); isK && k >= 0 && big.NewInt(k).Cmp(max) <= 0 {
					return true
				}
			}
		}
	}
	return false
}

// stripWidening removes conversions that keep the value: to a wider integer
// type, or to a type of the same size and signedness.
func stripWidening(c *core.Ctx, v ssa.Value) ssa.Value {
	for {
		cv, ok := v.(*ssa.Convert)
		if !ok {
			return v
		}
		fs, fu, ok1 := intSize(c, cv.X.Type())
		ts, tu, ok2 := intSize(c, cv.Type())
		if !ok1 || !ok2 || ts < fs || (ts == fs && fu != tu) {
			return v
		}
		v = cv.X
	}
}

// carryOfBitsArith: the second result of math/bits.Add* / Sub* (a carry or borrow: 0 or 1),
// conversions aside.
func carryOfBitsArith(v ssa.Value) bool {
	ex, ok := core.StripConv(v).(*ssa.Extract)
	if !ok || ex.Index != 1 {
		return false
	}
	call, ok := ex.Tuple.(*ssa.Call)
	if !ok {
		return false
	}
	f := core.CalleeFunc(call)
	if f == nil || f.Pkg() == nil || f.Pkg().Path() != "math/bits" {
		return false
	}
	return strings.HasPrefix(f.Name(), "Add") || strings.HasPrefix(f.Name(), "Sub")
}
