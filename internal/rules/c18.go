package rules

import (
	"fmt"
	"regexp"
	"strings"

	"golang.org/x/tools/go/ssa"

	"verif/internal/core"
)

const rdmaPkg = "amd/timing/rdma"

func init() { register("C18", runC18) }

func q(s string) string { return regexp.QuoteMeta(s) }

func runC18(c *core.Ctx) core.Meta {
	c.Load(rdmaPkg, driverPkg, kernelsPkg, r9nanoPkg, mi300aPkg, tconfigPkg)
	c.BuildSSA()
	p := NewPkgInfo(c, rdmaPkg)
	prov := core.NewProv(c)

	checkBenchmarkSplits(c)
	checkPerGPUIterationsIndependent(c)

	// R18.1 SEND-DISCIPLINE
	RunProto(c, &ProtoCfg{
		AllEffectsAfterSend: true,
		RuleBase:            "R18.1", Pkg: rdmaPkg, FloorSends: 6,
		Effects: []Effect{
			RetrieveEffect,
			FieldWriteEffect("fromInside-table-write", "Comp.transactionsFromInside"),
			FieldWriteEffect("fromOutside-table-write", "Comp.transactionsFromOutside"),
			FieldWriteEffect("isDraining-write", "Comp.isDraining"),
			FieldWriteEffect("pause-write", "Comp.pauseIncomingReqsFromL1"),
			FieldWriteEffect("currentDrainReq-write", "Comp.currentDrainReq"),
		},
		// entering the drain state stores these before any Send of the same handler; not a commit tied to a Send
		Exempt: map[string]string{},
	})

	// R18.2 FIELDS of cloned requests / responses
	p.CheckFields("R18.2", []FieldSpec{
		{Builder: "mem.ReadReqBuilder", MinSites: 1, SameBase: []string{"WithAddress", "WithByteSize"},
			Require: map[string]string{"WithAddress": `\.Address$`, "WithByteSize": `\.AccessByteSize$`}},
		{Builder: "mem.WriteReqBuilder", MinSites: 1, SameBase: []string{"WithAddress", "WithData", "WithDirtyMask"},
			Require: map[string]string{"WithAddress": `\.Address$`, "WithData": `\.Data$`, "WithDirtyMask": `\.DirtyMask$`}},
		{Builder: "mem.DataReadyRspBuilder", MinSites: 1,
			Require: map[string]string{"WithData": `PeekIncoming\(\)\}?\.Data$`, "WithRspTo": `\.from(Inside|Outside)\.Meta\(\)\.ID`}},
		{Builder: "mem.WriteDoneRspBuilder", MinSites: 1,
			Require: map[string]string{"WithRspTo": `\.from(Inside|Outside)\.Meta\(\)\.ID`}},
	})

	// R18.3 table / port pairing and R18.5 routing
	st3 := c.Rule("R18.3", "each of the four data-path Sends forwards the message peeked at its paired input port; requests are recorded in the table of their direction together with the forwarded copy; responses are matched by the forwarded request's ID in the table of the opposite direction, carry the original request's ID, go back to the original requester, and remove exactly the matched entry", 4)
	st5 := c.Rule("R18.5", "requests from inside are addressed through RemoteRDMAAddressTable.Find(address), requests from outside through localModules.Find(address)", 2)
	type row struct {
		out, in  string
		isReq    bool
		table    string
		from, to string
		mapper   string
	}
	rows := []row{
		{out: "RDMARequestOutside", in: "RDMARequestInside", isReq: true, table: "transactionsFromInside", from: "fromInside", to: "toOutside", mapper: "RemoteRDMAAddressTable"},
		{out: "RDMADataInside", in: "RDMADataOutside", isReq: true, table: "transactionsFromOutside", from: "fromOutside", to: "toInside", mapper: "localModules"},
		{out: "RDMADataOutside", in: "RDMADataInside", isReq: false, table: "transactionsFromOutside", from: "fromOutside"},
		{out: "RDMARequestInside", in: "RDMARequestOutside", isReq: false, table: "transactionsFromInside", from: "fromInside"},
	}
	for _, r := range rows {
		var sends []ssa.Instruction
		var sendFn *ssa.Function
		p.Instrs(func(fn *ssa.Function, in ssa.Instruction) {
			if SendOn(in, r.out) {
				sends = append(sends, in)
				sendFn = fn
			}
		})
		st3.Instances++
		if len(sends) != 1 {
			st3.Ob(false)
			c.Report(core.Finding{Rule: "R18.3", Pkg: rdmaPkg, Func: "-", Detail: "Send:" + r.out + ":count",
				Msg: fmt.Sprintf("%d Send sites on %s, exactly one expected (one forwarding path per direction)", len(sends), r.out)})
			continue
		}
		in := sends[0]
		fn := sendFn
		c.MarkAnalysed(fn)
		sent := prov.Of(core.CallOf(in).Args[0])
		peek := "recv." + r.in + ".PeekIncoming()"
		report := func(detail, msg string) {
			st3.Ob(false)
			c.ReportAt("R18.3", fn, in.Pos(), "Send:"+r.out+":"+detail, msg)
		}
		// forwarded message derives from the paired input only
		others := regexp.MustCompile(`recv\.(\w+)\.PeekIncoming\(\)`).FindAllStringSubmatch(sent, -1)
		okSrc := len(others) > 0
		for _, m := range others {
			if m[1] != r.in {
				okSrc = false
			}
		}
		if !okSrc {
			report("source", "message sent on "+r.out+" is not built from the message peeked at "+r.in+": "+short(sent))
		} else {
			st3.Ob(true)
			st3.Sample("%s: %s.Send(%s)", core.FuncName(fn), r.out, short(sent))
		}
		// Meta().Dst / Src stores on the sent value
		metas := metaStoresOn(fn, core.CallOf(in).Args[0], prov)
		find := "recv.findTransactionByRspToID(" + peek + ".GetRspTo(),recv." + r.table + ")"
		entry := "recv." + r.table + "[" + find + "]"
		if r.isReq {
			wantDst := "recv." + r.mapper + ".Find(" + peek + ".GetAddress())"
			st5.Instances++
			ok := metas["Dst"] == wantDst
			st5.Ob(ok)
			st5.Sample("%s: Dst = %s", core.FuncName(fn), metas["Dst"])
			if !ok {
				c.ReportAt("R18.5", fn, in.Pos(), "Send:"+r.out+":Dst", fmt.Sprintf("forwarded request is addressed to %q; required %q", metas["Dst"], wantDst))
			}
			// record (in this function or in a helper it calls: parameters are resolved through the call sites)
			want := "append(recv." + r.table + ",[rdma.transaction{" + r.from + ":" + peek + "," + r.to + ":" + sent + "}])"
			var rec string
			p.Instrs(func(f2 *ssa.Function, i2 ssa.Instruction) {
				if s, ok := storeToField(i2, "Comp."+r.table); ok {
					if pv := prov.Of(s.Val); pv == want || (rec == "" && strings.HasPrefix(pv, "append(recv."+r.table+",[")) {
						rec = pv
					}
				}
			})
			if rec != want {
				report("record", fmt.Sprintf("the forwarded request is not recorded as %s (got %s)", short(want), short(rec)))
			} else {
				st3.Ob(true)
			}
		} else {
			wantDst := entry + "." + r.from + ".Meta().Src"
			if metas["Dst"] != wantDst {
				report("Dst", fmt.Sprintf("response destination is %q; required the original requester %q", short(metas["Dst"]), wantDst))
			} else {
				st3.Ob(true)
			}
			if !strings.Contains(sent, entry+"."+r.from+".Meta().ID") {
				report("RspTo", "response does not carry the ID of the original request found in "+r.table+" by the forwarded request's ID: "+short(sent))
			} else {
				st3.Ob(true)
			}
			want := "append(recv." + r.table + "[:" + find + "],recv." + r.table + "[(" + find + "+1):])"
			var rem string
			p.Instrs(func(f2 *ssa.Function, i2 ssa.Instruction) {
				if s, ok := storeToField(i2, "Comp."+r.table); ok {
					if pv := prov.Of(s.Val); pv == want || (rem == "" && strings.HasPrefix(pv, "append(recv."+r.table+"[:")) {
						rem = pv
					}
				}
			})
			if rem != want {
				report("remove", fmt.Sprintf("the answered transaction is not removed as %s (got %s)", short(want), short(rem)))
			} else {
				st3.Ob(true)
			}
		}
	}
	// the lookup function matches on the forwarded copies' IDs
	for _, fn := range p.Funcs {
		if core.FuncName(fn) != "Comp.findTransactionByRspToID" {
			continue
		}
		st3.Instances++
		g := core.BuildGraph(fn, 0, nil)
		cmp := 0
		for _, n := range g.Nodes {
			if b, ok := n.Instr.(*ssa.BinOp); ok && b.Op.String() == "==" {
				isParam := func(v ssa.Value) bool { _, ok := v.(*ssa.Parameter); return ok }
				re := regexp.MustCompile(`\.to(Outside|Inside)\.Meta\(\)\.ID$`)
				if (isParam(b.Y) && re.MatchString(prov.Of(b.X))) || (isParam(b.X) && re.MatchString(prov.Of(b.Y))) {
					cmp++
				}
			}
		}
		st3.Ob(cmp >= 2)
		st3.Sample("findTransactionByRspToID compares %d forwarded-copy IDs with rspTo", cmp)
		if cmp < 2 {
			c.ReportAt("R18.3", fn, fn.Pos(), "lookup:key", "the transaction lookup does not compare the reply's RspTo with the forwarded copies' IDs (toOutside / toInside)")
		}
	}

	// R18.4 drain
	st4 := c.Rule("R18.4", "DrainRsp is built only where fullyDrained() was tested true, fullyDrained tests both tables empty, and requests from inside are not accepted while paused", 3)
	drainPred := map[*ssa.Function]bool{}
	for _, fn := range p.Funcs {
		lens := map[string]bool{}
		rets := 0
		for _, b := range fn.Blocks {
			for _, in := range b.Instrs {
				if _, ok := in.(*ssa.Return); ok {
					rets++
				}
				if bo, ok := in.(*ssa.BinOp); ok && (bo.Op.String() == "==" || bo.Op.String() == "<=") {
					if z, ok := core.ConstInt(bo.Y); ok && z == 0 {
						pv := prov.Of(bo.X)
						if m := regexp.MustCompile(`^len\(recv\.(transactionsFrom\w+)\)$`).FindStringSubmatch(pv); m != nil {
							lens[m[1]] = true
						}
					}
				}
			}
		}
		if len(lens) > 0 && fn.Signature.Results().Len() == 1 && core.FuncName(fn) != "Comp.Tick" {
			st4.Instances++
			if isConjunctionOfEmptiness(fn, prov) {
				drainPred[fn] = true
			}
			ok := len(lens) == 2 && drainPred[fn]
			st4.Ob(ok)
			st4.Sample("%s tests emptiness of %v", core.FuncName(fn), sortedKeys(lens))
			if !ok {
				c.ReportAt("R18.4", fn, fn.Pos(), "drain-predicate", fmt.Sprintf("the drained predicate tests %v; it must be the conjunction of both transaction tables being empty", sortedKeys(lens)))
			}
		}
	}
	if len(drainPred) == 0 {
		c.Report(core.Finding{Rule: "R18.4", Kind: "anchor", Pkg: rdmaPkg, Func: "-", Detail: "drain-predicate", Msg: "no drained predicate (conjunction of both tables empty) found"})
	}
	isDrainRspBuild := func(in ssa.Instruction) bool {
		call, ok := in.(*ssa.Call)
		if !ok {
			return false
		}
		cal := call.Call.StaticCallee()
		return cal != nil && cal.Name() == "Build" && core.FuncName(cal) == "DrainRspBuilder.Build"
	}
	n4, ung4 := p.GuardedUp(isDrainRspBuild, CallFnCut(true, drainPred))
	st4.Instances += n4
	if n4 == 0 {
		c.Report(core.Finding{Rule: "R18.4", Kind: "anchor", Pkg: rdmaPkg, Func: "-", Detail: "DrainRsp", Msg: "no DrainRsp construction found"})
	}
	for i := 0; i < n4-len(ung4); i++ {
		st4.Ob(true)
	}
	for _, u := range ung4 {
		st4.Ob(false)
		c.ReportAt("R18.4", u.Target.Fn(), u.Target.Instr.Pos(), "DrainRsp:guard", "a drain acknowledgement is built on a path that did not find both transaction tables empty")
	}
	// also guarded by isDraining (a drain request is pending)
	n4b, ung4b := p.GuardedUp(isDrainRspBuild, BoolFieldCut("Comp.isDraining", true))
	st4.Instances += n4b
	for i := 0; i < n4b-len(ung4b); i++ {
		st4.Ob(true)
	}
	for _, u := range ung4b {
		st4.Ob(false)
		c.ReportAt("R18.4", u.Target.Fn(), u.Target.Instr.Pos(), "DrainRsp:isDraining", "a drain acknowledgement is built on a path that did not test that a drain was requested")
	}
	// pause gate
	n4c, ung4c := p.GuardedUp(func(in ssa.Instruction) bool { return SendOn(in, "RDMARequestOutside") }, BoolFieldCut("Comp.pauseIncomingReqsFromL1", false))
	st4.Instances += n4c
	for i := 0; i < n4c-len(ung4c); i++ {
		st4.Ob(true)
	}
	for _, u := range ung4c {
		st4.Ob(false)
		c.ReportAt("R18.4", u.Target.Fn(), u.Target.Instr.Pos(), "pause-gate", "a request from inside is forwarded on a path that did not test pauseIncomingReqsFromL1==false: new remote transactions start during a drain")
	}
	// the drain request sets draining and pause together
	p.Instrs(func(fn *ssa.Function, in ssa.Instruction) {
		s, ok := storeToField(in, "Comp.isDraining")
		if !ok {
			return
		}
		if b, isC := core.ConstBool(s.Val); isC && b {
			st4.Instances++
			paired := false
			for _, i2 := range in.Block().Instrs {
				if s2, ok := storeToField(i2, "Comp.pauseIncomingReqsFromL1"); ok {
					if b2, isC := core.ConstBool(s2.Val); isC && b2 {
						paired = true
					}
				}
			}
			st4.Ob(paired)
			if !paired {
				c.ReportAt("R18.4", fn, in.Pos(), "drain-without-pause", "draining starts without pausing requests from inside: the tables may never become empty or new traffic races the drain acknowledgement")
			}
		}
	})

	// work and data spreading over GPUs: the per-GPU work-group ranges (shared with C08)
	lp := core.NewLocalProv(c)
	lp.InlinePure = true
	checkWGDistribution(c, lp, "R18.6")
	checkFilteredCountWholeGrid(c, "R18.11")
	checkPerKernelFieldsStoredAlways(c, "R18.13")
	checkLocalRangeOfGPU(c, "R18.12", NewPkgInfo(c, tconfigPkg), NewPkgInfo(c, r9nanoPkg), NewPkgInfo(c, mi300aPkg))

	// R18.9: the driver counts the work-groups it distributes with the grid builder's formula (R08.1's check)
	checkWGCountFormula(c, prov, "R18.9", []string{driverPkg}, 2)

	// R18.8: the splitting loops of the driver's copy paths (shared with C11 R11.3)
	st8 := c.Rule("R18.8", "every splitting loop of the driver's copy paths (host-to-device and device-to-host, DMA-based and direct-storage middleware) takes min(remaining, bytes left in the current page) per piece and addresses each piece through the page of its first byte: the pages of a distributed buffer or of a buffer on a unified device are not physically consecutive, so a piece that runs over the end of its page reads or writes an unrelated physical page, while the same copy on one GPU is correct", 4)
	checkSplitLoops(c, st8, "R18.8", []*PkgInfo{NewPkgInfo(c, driverPkg)}, prov)

	checkIntegerWidths(c, "R18.14", "Page addresses in buffer distribution are not narrowed, nor widened after they could wrap.", 5, []widthScope{{rel: drvIntPkg}}, []string{"narrow", "widen-wrapped"}, widthAllowDrvInt)
	checkStrideNotClamped(c, "R18.15")
	checkUploadAfterDistribute(c)
	checkFieldStoredFresh(c, "R18.17", "the staging bytes of a device-to-host copy belong to its command (MemCopyD2HCommand.RawData is allocated by the call that stores it): the per-GPU read-backs of a distributed buffer are in flight together, and with shared staging every GPU's share is decoded from the bytes of whichever answered last", 1, driverPkg, "MemCopyD2HCommand.RawData")
	checkSharedCompletionDecodes(c, "R18.18")
	checkPointerAdvancedInBytes(c)
	return core.Meta{Level: "other",
		Explanation: "RDMA clauses of C18 decided on SSA of amd/timing/rdma: SEND-DISCIPLINE on all handlers incl. the control port, FIELDS of cloned requests/responses by provenance, the frozen 4-row wiring table (output port ↔ input port ↔ transaction table ↔ address mapper) checked on each Send's provenance, reply matching on forwarded IDs, drain acknowledgement guarded by both tables empty and by isDraining, pause gate on requests from inside.",
		NotDecided:  "equality of final data across GPU counts and buffer distributions (value level); work-group distribution arithmetic of the driver; address-mapper contents",
		Assumptions: commonAssumptions}
}

// metaStoresOn collects stores `v.Meta().F = x` in fn for the given message value.
func metaStoresOn(fn *ssa.Function, msg ssa.Value, prov *core.Prov) map[string]string {
	out := map[string]string{}
	want := prov.Of(msg)
	for _, b := range fn.Blocks {
		for _, in := range b.Instrs {
			s, ok := in.(*ssa.Store)
			if !ok {
				continue
			}
			fa, ok := s.Addr.(*ssa.FieldAddr)
			if !ok {
				continue
			}
			f := core.FieldOfAddr(fa)
			if core.ShortFieldID(f) != "MsgMeta."+f.Name() {
				continue
			}
			base := prov.Of(fa.X)
			if base == want+".Meta()" {
				out[f.Name()] = prov.Of(s.Val)
			}
		}
	}
	return out
}

// isConjunctionOfEmptiness: the function returns true only when every
// len(table)==0 test on the path held (an && chain): no Return of constant
// true / of a single test is reachable with one of the tests false.
func isConjunctionOfEmptiness(fn *ssa.Function, prov *core.Prov) bool {
	g := core.BuildGraph(fn, 0, nil)
	isLenTest := func(v ssa.Value) (string, bool) {
		bo, ok := v.(*ssa.BinOp)
		if !ok || (bo.Op.String() != "==" && bo.Op.String() != "<=") {
			return "", false
		}
		if z, ok := core.ConstInt(bo.Y); !ok || z != 0 {
			return "", false
		}
		m := regexp.MustCompile(`^len\(recv\.(transactionsFrom\w+)\)$`).FindStringSubmatch(prov.Of(bo.X))
		if m == nil {
			return "", false
		}
		return m[1], true
	}
	tables := map[string]bool{}
	for _, n := range g.Nodes {
		if bo, ok := n.Instr.(*ssa.BinOp); ok {
			if t, ok := isLenTest(bo); ok {
				tables[t] = true
			}
		}
	}
	// for each table: cut the "empty" edges of its tests; then no Return may yield true.
	for t := range tables {
		cut := func(n *core.Node, i int) bool {
			ifi, ok := n.Instr.(*ssa.If)
			if !ok {
				return false
			}
			if tt, ok := isLenTest(ifi.Cond); ok && tt == t {
				return i == 0
			}
			return false
		}
		reach, _ := g.Reach([]core.State{{N: g.Entry}}, core.WalkOpts{CutEdge: cut})
		for n := range reach {
			r, ok := n.Instr.(*ssa.Return)
			if !ok || len(r.Results) != 1 {
				continue
			}
			// result may be a phi of constants/tests; acceptable results on this path: false const or the failed test itself
			if !cannotBeTrueWithout(r.Results[0], t, isLenTest, reach, g) {
				return false
			}
		}
	}
	return len(tables) > 0
}

func cannotBeTrueWithout(v ssa.Value, t string, isLenTest func(ssa.Value) (string, bool), reach map[*core.Node]bool, g *core.Graph) bool {
	switch v := v.(type) {
	case *ssa.Const:
		b, ok := core.ConstBool(v)
		return ok && !b
	case *ssa.BinOp:
		// a direct len test: returning `len(X)==0` — false when X==t is non-empty; if another table, it may be true
		tt, ok := isLenTest(v)
		return ok && tt == t
	case *ssa.Phi:
		for i, e := range v.Edges {
			// only consider predecessors that are reachable in the cut graph
			pred := v.Block().Preds[i]
			predReach := false
			for n := range reach {
				if n.Block == pred && n.Idx == len(pred.Instrs)-1 {
					// and the edge pred->phi block must not be cut: approximate by reachability of pred
					predReach = true
				}
			}
			if !predReach {
				continue
			}
			// an edge from a block whose terminating If is the cut test's true edge is excluded
			if ifi, ok := pred.Instrs[len(pred.Instrs)-1].(*ssa.If); ok {
				if tt, ok := isLenTest(ifi.Cond); ok && tt == t && pred.Succs[0] == v.Block() {
					continue
				}
			}
			if !cannotBeTrueWithout(e, t, isLenTest, reach, g) {
				return false
			}
		}
		return true
	}
	return false
}

// checkPerGPUIterationsIndependent (R18.10): a launch on a unified device prepares, for every
// member GPU, its own copy of the kernel arguments and its own packet from the same inputs. The
// loops of the driver over the member GPUs (range over Device.UnifiedGPUIDs) therefore carry
// nothing from one member to the next except the loop index: a value that is redefined in the body
// and flows around the loop (a phi at the loop header) reaches the next member's preparation -
// arguments prepared from the previous member's prepared arguments (LDS sizes already replaced by
// offsets) give every later GPU a different LDS layout than a single GPU would have.
func checkPerGPUIterationsIndependent(c *core.Ctx) {
	st := c.Rule("R18.10", "every member GPU of a unified device is prepared from the same inputs: in the driver's loops over Device.UnifiedGPUIDs the only value carried from one iteration to the next (a phi at the loop header with an edge from inside the loop) is the loop index; results are stored by index into per-GPU arrays or appended to a field. A carried value that reaches a call inside the loop makes the second GPU's kernel arguments, packet or request depend on the first GPU's", 2)
	pd := NewPkgInfo(c, driverPkg)
	if pd.Pkg == nil {
		return
	}
	for _, fn := range pd.Funcs {
		for _, b := range fn.Blocks {
			// a range over UnifiedGPUIDs: the header block holds the index phi and tests idx+1 < len(slice)
			var idx *ssa.Phi
			for _, in := range b.Instrs {
				phi, ok := in.(*ssa.Phi)
				if !ok {
					break
				}
				if phi.Comment == "rangeindex" {
					idx = phi
				}
			}
			if idx == nil {
				continue
			}
			// the ranged slice: len(x) in the predecessor that enters the loop
			ranged := false
			for _, pred := range b.Preds {
				for _, in := range pred.Instrs {
					if call, ok := in.(*ssa.Call); ok {
						if bi, ok := call.Call.Value.(*ssa.Builtin); ok && bi.Name() == "len" && len(call.Call.Args) == 1 {
							if f := core.LoadedField(call.Call.Args[0]); f != nil && f.Name() == "UnifiedGPUIDs" {
								ranged = true
							}
						}
					}
				}
			}
			if !ranged {
				continue
			}
			st.Instances++
			c.MarkAnalysed(fn)
			var carried []*ssa.Phi
			for _, in := range b.Instrs {
				phi, ok := in.(*ssa.Phi)
				if !ok {
					break
				}
				if phi == idx {
					continue
				}
				// does it reach a call?
				seen := map[ssa.Value]bool{}
				reaches := false
				var walk func(v ssa.Value, d int)
				walk = func(v ssa.Value, d int) {
					if seen[v] || d > 6 || v.Referrers() == nil || reaches {
						return
					}
					seen[v] = true
					for _, r := range *v.Referrers() {
						switch x := r.(type) {
						case ssa.CallInstruction:
							if _, isBuiltin := x.Common().Value.(*ssa.Builtin); !isBuiltin {
								reaches = true
							}
						case *ssa.MakeInterface:
							walk(x, d+1)
						case *ssa.ChangeInterface:
							walk(x, d+1)
						case *ssa.ChangeType:
							walk(x, d+1)
						case *ssa.Convert:
							walk(x, d+1)
						case *ssa.Phi:
							walk(x, d+1)
						}
					}
				}
				walk(phi, 0)
				if reaches {
					carried = append(carried, phi)
				}
			}
			st.Ob(len(carried) == 0)
			st.Sample("%s: the loop over the member GPUs carries only its index: %v", core.FuncName(fn), len(carried) == 0)
			for _, phi := range carried {
				name := phi.Comment
				if name == "" {
					name = phi.Name()
				}
				c.ReportAt("R18.10", fn, phi.Pos(), "per-gpu-loop-carried:"+core.FuncName(fn)+":"+name, core.FuncName(fn)+" redefines "+name+" in the loop over the member GPUs and passes it to a call in the next iteration: the second and later GPUs are prepared from what the previous GPU's preparation returned (kernel arguments whose LocalPtr fields already hold LDS offsets), so work-groups that run there see a different LDS layout and segment size than on a single GPU")
			}
		}
	}
}
