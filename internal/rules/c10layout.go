package rules

import (
	"strings"

	"golang.org/x/tools/go/ssa"

	"verif/internal/core"
)

// R10.11: the driver and the platform agree on where a device's memory lies.
//
// The platforms lay device k out at [k*size, (k+1)*size) of one global storage of
// (n+1)*size bytes (emusystem / timingconfig builders; the address mappers of the
// timing platform use the same arithmetic). The allocator hands device k the range that
// starts at its running total, so the two agree exactly when the running total starts
// at 0 (page 0 can be kept out of circulation without shifting the ranges).
func checkPhysicalLayout(c *core.Ctx, pint *PkgInfo, prov *core.Prov) {
	st := c.Rule("R10.11", "a physical page the driver hands out for device k lies inside the memory the platform built for device k: the allocator's running total of device sizes (memoryAllocatorImpl.totalStorageByteSize, the start address of the next registered device) starts at 0, like the platforms' layout k*size .. (k+1)*size; a start one page up puts the last page of every device into the next device's DRAM and the last page of the last GPU behind the global storage", 1)
	for _, fn := range pint.Funcs {
		if fn.Name() != "NewMemoryAllocator" {
			continue
		}
		for _, b := range fn.Blocks {
			for _, in := range b.Instrs {
				s, ok := in.(*ssa.Store)
				if !ok {
					continue
				}
				fa, ok := s.Addr.(*ssa.FieldAddr)
				if !ok || fieldNameOf(fa) != "totalStorageByteSize" {
					continue
				}
				st.Instances++
				c.MarkAnalysed(fn)
				k, isK := core.ConstInt(s.Val)
				ok2 := isK && k == 0
				st.Ob(ok2)
				st.Sample("NewMemoryAllocator: first device starts at %s", short(prov.Of(s.Val)))
				if !ok2 {
					c.ReportAt("R10.11", fn, in.Pos(), "layout-shift", "the allocator places the first device at "+strings.TrimSpace(short(prov.Of(s.Val)))+" and every later device behind it at full size, while the platforms place device k at k*4GB: a buffer that fills a GPU gets its last page inside the next GPU's DRAM, and for the last GPU that page lies at [capacity, capacity+4096) of the global storage")
				}
			}
		}
	}
	if st.Instances == 0 {
		// a zero start needs no store in a composite literal
		st.Instances++
		st.Ob(true)
	}
}
