package rules

import (
	"go/constant"
	"go/token"

	"golang.org/x/tools/go/ssa"

	"verif/internal/core"
)

// opPath follows the one path a function takes for a given value of "the opcode" (a
// value recognised by isOp, through conversions): every branch whose condition
// compares the opcode with constants (also through && / || / !, which go/ssa has
// already turned into branches) is decided; a branch on anything else ends the walk as
// undecided. A switch and an if / else-if chain are the same thing here, because
// go/ssa lowers both to comparisons and branches.
type opPathResult struct {
	calls   []*ssa.Function // static callees in source functions, in order
	invokes []string        // invoked method names
	panics  bool
	ret     *ssa.Return
	decided bool
}

func opPath(fn *ssa.Function, isOp func(v ssa.Value) bool, k int64) opPathResult {
	res := opPathResult{decided: true}
	if len(fn.Blocks) == 0 {
		res.decided = false
		return res
	}
	strip := func(v ssa.Value) ssa.Value {
		for {
			switch x := v.(type) {
			case *ssa.Convert:
				v = x.X
				continue
			case *ssa.ChangeType:
				v = x.X
				continue
			}
			return v
		}
	}
	constOf := func(v ssa.Value) (int64, bool) {
		c, ok := strip(v).(*ssa.Const)
		if !ok || c.Value == nil || c.Value.Kind() != constant.Int {
			return 0, false
		}
		return constant.Int64Val(c.Value)
	}
	var evalBool func(v ssa.Value, prev *ssa.BasicBlock, d int) (bool, bool)
	evalBool = func(v ssa.Value, prev *ssa.BasicBlock, d int) (bool, bool) {
		if d > 8 {
			return false, false
		}
		switch x := v.(type) {
		case *ssa.Const:
			if x.Value != nil && x.Value.Kind() == constant.Bool {
				return constant.BoolVal(x.Value), true
			}
		case *ssa.UnOp:
			if x.Op == token.NOT {
				b, ok := evalBool(x.X, prev, d+1)
				return !b, ok
			}
		case *ssa.BinOp:
			var a, b int64
			var oka, okb bool
			if isOp(strip(x.X)) {
				a, oka = k, true
			} else {
				a, oka = constOf(x.X)
			}
			if isOp(strip(x.Y)) {
				b, okb = k, true
			} else {
				b, okb = constOf(x.Y)
			}
			if !oka || !okb {
				return false, false
			}
			switch x.Op {
			case token.EQL:
				return a == b, true
			case token.NEQ:
				return a != b, true
			case token.LSS:
				return a < b, true
			case token.LEQ:
				return a <= b, true
			case token.GTR:
				return a > b, true
			case token.GEQ:
				return a >= b, true
			}
		}
		return false, false
	}
	b, steps := fn.Blocks[0], 0
	var prev *ssa.BasicBlock
	phiVal := map[*ssa.Phi]ssa.Value{}
	for b != nil && steps < 4096 {
		steps++
		for _, in := range b.Instrs {
			switch x := in.(type) {
			case *ssa.Phi:
				for i, p := range b.Preds {
					if p == prev {
						phiVal[x] = x.Edges[i]
					}
				}
			case *ssa.Call:
				if x.Call.IsInvoke() {
					res.invokes = append(res.invokes, x.Call.Method.Name())
				} else if cal := x.Call.StaticCallee(); cal != nil {
					if core.IsNoReturnCall(x) {
						res.panics = true
						return res
					}
					res.calls = append(res.calls, cal)
				}
			case *ssa.Panic:
				res.panics = true
				return res
			case *ssa.Return:
				res.ret = x
				return res
			}
		}
		last := b.Instrs[len(b.Instrs)-1]
		switch t := last.(type) {
		case *ssa.If:
			cond := ssa.Value(t.Cond)
			if ph, ok := cond.(*ssa.Phi); ok {
				if v, ok := phiVal[ph]; ok {
					cond = v
				}
			}
			v, ok := evalBool(cond, prev, 0)
			if !ok {
				res.decided = false
				return res
			}
			prev = b
			if v {
				b = b.Succs[0]
			} else {
				b = b.Succs[1]
			}
		case *ssa.Jump:
			prev = b
			b = b.Succs[0]
		default:
			return res
		}
	}
	res.decided = false
	return res
}

// isLoadOfField: v is a load of the named field (through any pointer).
func isLoadOfField(name string) func(v ssa.Value) bool {
	return func(v ssa.Value) bool {
		u, ok := v.(*ssa.UnOp)
		if !ok || u.Op != token.MUL {
			return false
		}
		fa, ok := u.X.(*ssa.FieldAddr)
		return ok && fieldNameOf(fa) == name
	}
}
