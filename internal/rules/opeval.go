package rules

import (
	"go/constant"
	"go/token"
	"strings"

	"golang.org/x/tools/go/ssa"

	"verif/internal/core"
)

// opPath follows the one path a function takes for a given value of "the opcode" (a
// value recognised by isOp, through conversions): every branch whose condition
// compares the opcode with constants (also through && / || / !, which go/ssa has
// already turned into branches) is decided; a branch on anything else ends the walk as
// undecided. A switch and an if / else-if chain are the same thing here, because
// go/ssa lowers both to comparisons and branches.
type opPathResult struct {
	calls   []*ssa.Function // static callees in source functions, in order
	invokes []string        // invoked method names
	panics  bool
	ret     *ssa.Return
	decided bool
	blocks  []*ssa.BasicBlock // the blocks of the path, in order
}

func opPath(fn *ssa.Function, isOp func(v ssa.Value) bool, k int64) opPathResult {
	res := opPathResult{decided: true}
	if len(fn.Blocks) == 0 {
		res.decided = false
		return res
	}
	strip := func(v ssa.Value) ssa.Value {
		for {
			switch x := v.(type) {
			case *ssa.Convert:
				v = x.X
				continue
			case *ssa.ChangeType:
				v = x.X
				continue
			}
			return v
		}
	}
	constOf := func(v ssa.Value) (int64, bool) {
		c, ok := strip(v).(*ssa.Const)
		if !ok || c.Value == nil || c.Value.Kind() != constant.Int {
			return 0, false
		}
		return constant.Int64Val(c.Value)
	}
	var evalBool func(v ssa.Value, prev *ssa.BasicBlock, d int) (bool, bool)
	evalBool = func(v ssa.Value, prev *ssa.BasicBlock, d int) (bool, bool) {
		if d > 8 {
			return false, false
		}
		switch x := v.(type) {
		case *ssa.Const:
			if x.Value != nil && x.Value.Kind() == constant.Bool {
				return constant.BoolVal(x.Value), true
			}
		case *ssa.UnOp:
			if x.Op == token.NOT {
				b, ok := evalBool(x.X, prev, d+1)
				return !b, ok
			}
		case *ssa.BinOp:
			var a, b int64
			var oka, okb bool
			if isOp(strip(x.X)) {
				a, oka = k, true
			} else {
				a, oka = constOf(x.X)
			}
			if isOp(strip(x.Y)) {
				b, okb = k, true
			} else {
				b, okb = constOf(x.Y)
			}
			if !oka || !okb {
				return false, false
			}
			switch x.Op {
			case token.EQL:
				return a == b, true
			case token.NEQ:
				return a != b, true
			case token.LSS:
				return a < b, true
			case token.LEQ:
				return a <= b, true
			case token.GTR:
				return a > b, true
			case token.GEQ:
				return a >= b, true
			}
		}
		return false, false
	}
	b, steps := fn.Blocks[0], 0
	var prev *ssa.BasicBlock
	phiVal := map[*ssa.Phi]ssa.Value{}
	for b != nil && steps < 4096 {
		steps++
		res.blocks = append(res.blocks, b)
		for _, in := range b.Instrs {
			switch x := in.(type) {
			case *ssa.Phi:
				for i, p := range b.Preds {
					if p == prev {
						phiVal[x] = x.Edges[i]
					}
				}
			case *ssa.Call:
				if x.Call.IsInvoke() {
					res.invokes = append(res.invokes, x.Call.Method.Name())
				} else if cal := x.Call.StaticCallee(); cal != nil {
					if core.IsNoReturnCall(x) {
						res.panics = true
						return res
					}
					res.calls = append(res.calls, cal)
				}
			case *ssa.Panic:
				res.panics = true
				return res
			case *ssa.Return:
				res.ret = x
				return res
			}
		}
		last := b.Instrs[len(b.Instrs)-1]
		switch t := last.(type) {
		case *ssa.If:
			cond := ssa.Value(t.Cond)
			if ph, ok := cond.(*ssa.Phi); ok {
				if v, ok := phiVal[ph]; ok {
					cond = v
				}
			}
			v, ok := evalBool(cond, prev, 0)
			if !ok {
				res.decided = false
				return res
			}
			prev = b
			if v {
				b = b.Succs[0]
			} else {
				b = b.Succs[1]
			}
		case *ssa.Jump:
			prev = b
			b = b.Succs[0]
		default:
			return res
		}
	}
	res.decided = false
	return res
}

// isLoadOfField: v is a load of the named field (through any pointer).
func isLoadOfField(name string) func(v ssa.Value) bool {
	return func(v ssa.Value) bool {
		u, ok := v.(*ssa.UnOp)
		if !ok || u.Op != token.MUL {
			return false
		}
		fa, ok := u.X.(*ssa.FieldAddr)
		return ok && fieldNameOf(fa) == name
	}
}

// opReach: the blocks a function can execute when the opcode has the value k: branches
// on the opcode are decided, every other branch is explored both ways.
func opReach(fn *ssa.Function, isOp func(v ssa.Value) bool, k int64) []*ssa.BasicBlock {
	if len(fn.Blocks) == 0 {
		return nil
	}
	strip := func(v ssa.Value) ssa.Value {
		for {
			switch x := v.(type) {
			case *ssa.Convert:
				v = x.X
				continue
			case *ssa.ChangeType:
				v = x.X
				continue
			}
			return v
		}
	}
	decide := func(v ssa.Value) (bool, bool) {
		neg := false
		for {
			if u, ok := v.(*ssa.UnOp); ok && u.Op == token.NOT {
				v, neg = u.X, !neg
				continue
			}
			break
		}
		bo, ok := v.(*ssa.BinOp)
		if !ok {
			return false, false
		}
		var a, b int64
		var oka, okb bool
		if isOp(strip(bo.X)) {
			a, oka = k, true
		} else if c, ok := strip(bo.X).(*ssa.Const); ok && c.Value != nil && c.Value.Kind() == constant.Int {
			a, oka = constant.Int64Val(c.Value)
		}
		if isOp(strip(bo.Y)) {
			b, okb = k, true
		} else if c, ok := strip(bo.Y).(*ssa.Const); ok && c.Value != nil && c.Value.Kind() == constant.Int {
			b, okb = constant.Int64Val(c.Value)
		}
		if !oka || !okb || !(isOp(strip(bo.X)) || isOp(strip(bo.Y))) {
			return false, false
		}
		var r bool
		switch bo.Op {
		case token.EQL:
			r = a == b
		case token.NEQ:
			r = a != b
		case token.LSS:
			r = a < b
		case token.LEQ:
			r = a <= b
		case token.GTR:
			r = a > b
		case token.GEQ:
			r = a >= b
		default:
			return false, false
		}
		return r != neg, true
	}
	return condReach(fn, decide)
}

// condReach: the blocks a function can execute when the conditions that `decide` knows have the
// value it gives them; every other branch is explored both ways.
func condReach(fn *ssa.Function, decide func(v ssa.Value) (bool, bool)) []*ssa.BasicBlock {
	blocks, _ := condReachEdges(fn, decide)
	return blocks
}

// opReachEdges: like opReach, and the control-flow edges that were taken.
func opReachEdges(fn *ssa.Function, isOp func(v ssa.Value) bool, k int64) ([]*ssa.BasicBlock, map[[2]*ssa.BasicBlock]bool) {
	var edges map[[2]*ssa.BasicBlock]bool
	reachEdgeSink = func(e map[[2]*ssa.BasicBlock]bool) { edges = e }
	blocks := opReach(fn, isOp, k)
	reachEdgeSink = nil
	return blocks, edges
}

var reachEdgeSink func(map[[2]*ssa.BasicBlock]bool)

func condReachEdges(fn *ssa.Function, decide func(v ssa.Value) (bool, bool)) ([]*ssa.BasicBlock, map[[2]*ssa.BasicBlock]bool) {
	edges := map[[2]*ssa.BasicBlock]bool{}
	if reachEdgeSink != nil {
		reachEdgeSink(edges)
	}
	if len(fn.Blocks) == 0 {
		return nil, edges
	}
	// paths are enumerated (loops cut at the first revisit on a path) so that a boolean
	// computed by && / || into a variable, which go/ssa represents as a phi, is known
	// from the edge the path took
	seen := map[*ssa.BasicBlock]bool{}
	var out []*ssa.BasicBlock
	budget := 200000
	var walk func(b, prev *ssa.BasicBlock, onPath map[*ssa.BasicBlock]bool, phis map[*ssa.Phi]ssa.Value)
	walk = func(b, prev *ssa.BasicBlock, onPath map[*ssa.BasicBlock]bool, phis map[*ssa.Phi]ssa.Value) {
		if prev != nil {
			edges[[2]*ssa.BasicBlock{prev, b}] = true
		}
		if budget <= 0 || onPath[b] {
			return
		}
		budget--
		if !seen[b] {
			seen[b] = true
			out = append(out, b)
		}
		onPath[b] = true
		defer delete(onPath, b)
		var bound []*ssa.Phi
		for _, in := range b.Instrs {
			ph, ok := in.(*ssa.Phi)
			if !ok {
				break
			}
			for i, p := range b.Preds {
				if p == prev {
					phis[ph] = ph.Edges[i]
					bound = append(bound, ph)
				}
			}
		}
		defer func() {
			for _, ph := range bound {
				delete(phis, ph)
			}
		}()
		if iff, ok := b.Instrs[len(b.Instrs)-1].(*ssa.If); ok {
			cond := ssa.Value(iff.Cond)
			for d := 0; d < 4; d++ {
				if ph, ok := cond.(*ssa.Phi); ok {
					if v, ok := phis[ph]; ok {
						cond = v
						continue
					}
				}
				break
			}
			if c, ok := cond.(*ssa.Const); ok && c.Value != nil && c.Value.Kind() == constant.Bool {
				if constant.BoolVal(c.Value) {
					walk(b.Succs[0], b, onPath, phis)
				} else {
					walk(b.Succs[1], b, onPath, phis)
				}
				return
			}
			if v, ok := decide(cond); ok {
				if v {
					walk(b.Succs[0], b, onPath, phis)
				} else {
					walk(b.Succs[1], b, onPath, phis)
				}
				return
			}
		}
		for _, sc := range b.Succs {
			walk(sc, b, onPath, phis)
		}
	}
	walk(fn.Blocks[0], nil, map[*ssa.BasicBlock]bool{}, map[*ssa.Phi]ssa.Value{})
	return out, edges
}

// nameReach: the blocks a decoder function can execute for the mnemonic `name`: tests of
// Inst.InstName (==, !=, strings.Contains / HasPrefix / HasSuffix with a constant) are decided,
// every other branch is explored both ways.
func nameReach(fn *ssa.Function, name string) []*ssa.BasicBlock {
	isName := isLoadOfField("InstName")
	constStr := func(v ssa.Value) (string, bool) {
		c, ok := v.(*ssa.Const)
		if !ok || c.Value == nil || c.Value.Kind() != constant.String {
			return "", false
		}
		return constant.StringVal(c.Value), true
	}
	decide := func(v ssa.Value) (bool, bool) {
		neg := false
		for {
			if u, ok := v.(*ssa.UnOp); ok && u.Op == token.NOT {
				v, neg = u.X, !neg
				continue
			}
			break
		}
		switch x := v.(type) {
		case *ssa.BinOp:
			if x.Op != token.EQL && x.Op != token.NEQ {
				return false, false
			}
			var k string
			var ok bool
			switch {
			case isName(x.X):
				k, ok = constStr(x.Y)
			case isName(x.Y):
				k, ok = constStr(x.X)
			}
			if !ok {
				return false, false
			}
			return ((k == name) == (x.Op == token.EQL)) != neg, true
		case *ssa.Call:
			cal := x.Call.StaticCallee()
			if cal == nil || cal.Pkg == nil || cal.Pkg.Pkg.Path() != "strings" || len(x.Call.Args) != 2 || !isName(x.Call.Args[0]) {
				return false, false
			}
			k, ok := constStr(x.Call.Args[1])
			if !ok {
				return false, false
			}
			var r bool
			switch cal.Name() {
			case "Contains":
				r = strings.Contains(name, k)
			case "HasPrefix":
				r = strings.HasPrefix(name, k)
			case "HasSuffix":
				r = strings.HasSuffix(name, k)
			default:
				return false, false
			}
			return r != neg, true
		}
		return false, false
	}
	return condReach(fn, decide)
}

// rowReachEdges: the blocks and edges a decoder / printer function can take for one row of the
// decode tables: comparisons of integer expressions over the opcode (constants folded through
// &, |, ^, <<, >>, +, -) and tests of Inst.InstName are decided, every other branch is explored
// both ways.
func rowReachEdges(fn *ssa.Function, opcode int64, name string) ([]*ssa.BasicBlock, map[[2]*ssa.BasicBlock]bool) {
	return rowReachEdgesWith(fn, opcode, name, nil)
}

// rowReachEdgesWith: rowReachEdges with further conditions decided by the caller (`extra` sees the
// condition with its negations stripped).
func rowReachEdgesWith(fn *ssa.Function, opcode int64, name string, extra func(v ssa.Value) (bool, bool)) ([]*ssa.BasicBlock, map[[2]*ssa.BasicBlock]bool) {
	isOpc := isLoadOfField("Opcode")
	isName := isLoadOfField("InstName")
	var eval func(v ssa.Value, d int) (int64, bool)
	eval = func(v ssa.Value, d int) (int64, bool) {
		if d > 8 {
			return 0, false
		}
		switch x := v.(type) {
		case *ssa.Convert:
			return eval(x.X, d+1)
		case *ssa.ChangeType:
			return eval(x.X, d+1)
		case *ssa.Const:
			if x.Value != nil && x.Value.Kind() == constant.Int {
				return constant.Int64Val(x.Value)
			}
			return 0, false
		case *ssa.BinOp:
			a, ok1 := eval(x.X, d+1)
			b, ok2 := eval(x.Y, d+1)
			if !ok1 || !ok2 {
				return 0, false
			}
			switch x.Op {
			case token.AND:
				return a & b, true
			case token.OR:
				return a | b, true
			case token.XOR:
				return a ^ b, true
			case token.SHL:
				return a << uint(b&63), true
			case token.SHR:
				return a >> uint(b&63), true
			case token.ADD:
				return a + b, true
			case token.SUB:
				return a - b, true
			case token.REM:
				if b != 0 {
					return a % b, true
				}
			}
			return 0, false
		}
		if isOpc(v) {
			return opcode, true
		}
		return 0, false
	}
	constStr := func(v ssa.Value) (string, bool) {
		c, ok := v.(*ssa.Const)
		if !ok || c.Value == nil || c.Value.Kind() != constant.String {
			return "", false
		}
		return constant.StringVal(c.Value), true
	}
	usesOpcode := func(v ssa.Value) bool {
		found := false
		var walk func(v ssa.Value, d int)
		walk = func(v ssa.Value, d int) {
			if d > 8 || found {
				return
			}
			if isOpc(v) {
				found = true
				return
			}
			switch x := v.(type) {
			case *ssa.Convert:
				walk(x.X, d+1)
			case *ssa.BinOp:
				walk(x.X, d+1)
				walk(x.Y, d+1)
			}
		}
		walk(v, 0)
		return found
	}
	decide := func(v ssa.Value) (bool, bool) {
		neg := false
		for {
			if u, ok := v.(*ssa.UnOp); ok && u.Op == token.NOT {
				v, neg = u.X, !neg
				continue
			}
			break
		}
		if extra != nil {
			if r, ok := extra(v); ok {
				return r != neg, true
			}
		}
		switch x := v.(type) {
		case *ssa.BinOp:
			if isName(x.X) || isName(x.Y) {
				if x.Op != token.EQL && x.Op != token.NEQ {
					return false, false
				}
				other := x.Y
				if isName(x.Y) {
					other = x.X
				}
				k, ok := constStr(other)
				if !ok {
					return false, false
				}
				return ((k == name) == (x.Op == token.EQL)) != neg, true
			}
			if !usesOpcode(x.X) && !usesOpcode(x.Y) {
				return false, false
			}
			a, ok1 := eval(x.X, 0)
			b, ok2 := eval(x.Y, 0)
			if !ok1 || !ok2 {
				return false, false
			}
			var r bool
			switch x.Op {
			case token.EQL:
				r = a == b
			case token.NEQ:
				r = a != b
			case token.LSS:
				r = a < b
			case token.LEQ:
				r = a <= b
			case token.GTR:
				r = a > b
			case token.GEQ:
				r = a >= b
			default:
				return false, false
			}
			return r != neg, true
		case *ssa.Call:
			cal := x.Call.StaticCallee()
			if cal == nil || cal.Pkg == nil || cal.Pkg.Pkg.Path() != "strings" || len(x.Call.Args) != 2 || !isName(x.Call.Args[0]) {
				return false, false
			}
			k, ok := constStr(x.Call.Args[1])
			if !ok {
				return false, false
			}
			var r bool
			switch cal.Name() {
			case "Contains":
				r = strings.Contains(name, k)
			case "HasPrefix":
				r = strings.HasPrefix(name, k)
			case "HasSuffix":
				r = strings.HasSuffix(name, k)
			default:
				return false, false
			}
			return r != neg, true
		}
		return false, false
	}
	return condReachEdges(fn, decide)
}
