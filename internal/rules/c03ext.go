package rules

import (
	"fmt"
	"go/token"
	"go/types"
	"regexp"
	"strings"

	"golang.org/x/tools/go/ssa"

	"verif/internal/core"
)

// bpExpr evaluates a side-effect-free SSA expression with BITPROV: constants,
// conversions, binary operations, the bit-cast helpers of amd/emu (AsIntN,
// IntNToBits and their unexported aliases: the bits stay, the Go type changes),
// and calls of other pure helpers (evaluated with bpEval.Call). leaf supplies the
// symbolic value of the roots; anything else is unknown.
type bpExpr struct {
	ev   bpEval
	leaf func(v ssa.Value) (pval, bool)
	memo map[ssa.Value]pval
}

var bitCastHelper = regexp.MustCompile(`^(?i:as)Int(8|16|32|64)$|^(?i:i)nt(8|16|32|64)ToBits$`)

func (x *bpExpr) eval(v ssa.Value, depth int) pval {
	if r, ok := x.memo[v]; ok {
		return r
	}
	if depth > 24 {
		return pval{}
	}
	r := x.eval1(v, depth)
	if x.memo == nil {
		x.memo = map[ssa.Value]pval{}
	}
	x.memo[v] = r
	return r
}

func (x *bpExpr) eval1(v ssa.Value, depth int) pval {
	if x.leaf != nil {
		if r, ok := x.leaf(v); ok {
			return r
		}
	}
	switch t := v.(type) {
	case *ssa.Const:
		fr := &bpFrame{vals: map[ssa.Value]pval{}}
		return x.ev.get(t, fr)
	case *ssa.Convert:
		in := x.eval(t.X, depth+1)
		wTo, _, ok1 := typeWidth(t.Type())
		wFrom, sFrom, ok2 := typeWidth(t.X.Type())
		if !ok1 || !ok2 || in.kind != pVec {
			return pval{}
		}
		r := in
		r.w = wTo
		if wTo > wFrom && sFrom {
			for i := wFrom; i < wTo; i++ {
				r.bits[i] = in.bits[wFrom-1]
			}
		}
		return r.trunc(wTo)
	case *ssa.ChangeType:
		return x.eval(t.X, depth+1)
	case *ssa.BinOp:
		a, b := x.eval(t.X, depth+1), x.eval(t.Y, depth+1)
		return x.ev.binop(t.Op, a, b, t.Type())
	case *ssa.UnOp:
		if t.Op == token.XOR {
			in := x.eval(t.X, depth+1)
			w, _, ok := typeWidth(t.Type())
			if ok && in.kind == pVec {
				r := pval{kind: pVec, w: w}
				for i := 0; i < 64; i++ {
					if i < w {
						r.bits[i] = in.bits[i].not()
					} else {
						r.bits[i] = pbit{k: '0'}
					}
				}
				return r
			}
		}
	case *ssa.Call:
		cal := t.Call.StaticCallee()
		if cal == nil {
			return pval{}
		}
		if bitCastHelper.MatchString(cal.Name()) && len(t.Call.Args) == 1 {
			in := x.eval(t.Call.Args[0], depth+1)
			w, _, ok := typeWidth(t.Type())
			if !ok || in.kind != pVec {
				return pval{}
			}
			return in.trunc(w)
		}
		if len(cal.Blocks) == 0 {
			return pval{}
		}
		var args []pval
		for _, a := range t.Call.Args {
			args = append(args, x.eval(a, depth+1))
		}
		sub := &bpEval{}
		return sub.Call(cal, args)
	}
	return pval{}
}

// isOperandRead: an invoke of ReadOperand whose operand argument is Inst.<field>.
func isOperandRead(v ssa.Value, field string) bool {
	call, ok := v.(*ssa.Call)
	if !ok || !call.Call.IsInvoke() || call.Call.Method.Name() != "ReadOperand" || len(call.Call.Args) < 1 {
		return false
	}
	u, ok := call.Call.Args[0].(*ssa.UnOp)
	if !ok {
		return false
	}
	fa, ok := u.X.(*ssa.FieldAddr)
	return ok && fieldNameOf(fa) == field
}

// R03.33: the 16-bit immediate of a SOPK instruction is widened as its mnemonic says.
func checkImmediateExtension(c *core.Ctx, handlers []handlerRef) {
	st := c.Rule("R03.33", "the 16-bit immediate of a SOPK instruction enters the computation with the extension its type names: in the handlers dispatched for s_movk_i32, s_cmovk_i32, s_addk_i32, s_mulk_i32 and s_cmpk_*_i32 every maximal expression built from ReadOperand(Inst.SImm16) alone, at the point where it is written to the destination, compared, or combined with another operand, has bits 16..31 equal to bit 15 of the immediate (BITPROV over conversions, masks and the bit-cast helpers); for s_cmpk_*_u32 those bits are zero. A 16-bit intermediate is not judged before it is widened", 8)
	signedK := regexp.MustCompile(`^s_(movk|cmovk|addk|mulk|cmpk_[a-z]+)_i32$`)
	unsignedK := regexp.MustCompile(`^s_cmpk_[a-z]+_u32$`)
	seen := map[*ssa.Function]bool{}
	for _, h := range handlers {
		if h.format != "SOPK" {
			continue
		}
		wantSigned, decided := false, true
		for i, n := range h.insts {
			s := signedK.MatchString(baseMnemonic(n))
			u := unsignedK.MatchString(baseMnemonic(n))
			if !s && !u {
				decided = false
			}
			if i > 0 && s != wantSigned {
				decided = false
			}
			wantSigned = s
		}
		if !decided || len(h.insts) == 0 {
			continue
		}
		fn := c.SSAFunc(h.alu.pkg, h.alu.typ+"."+h.name)
		if fn == nil || seen[fn] {
			continue
		}
		seen[fn] = true
		// values that depend on the immediate only
		only := map[ssa.Value]bool{}
		var isOnly func(v ssa.Value, d int) bool
		isOnly = func(v ssa.Value, d int) bool {
			if r, ok := only[v]; ok {
				return r
			}
			if d > 24 {
				return false
			}
			r := false
			switch t := v.(type) {
			case *ssa.Const:
				return true // constants alone do not make an immediate expression; handled by callers
			case *ssa.Call:
				if isOperandRead(t, "SImm16") {
					r = true
				} else if cal := t.Call.StaticCallee(); cal != nil && len(t.Call.Args) > 0 {
					r = true
					for _, a := range t.Call.Args {
						if !isOnly(a, d+1) {
							r = false
						}
					}
				}
			case *ssa.Convert:
				r = isOnly(t.X, d+1)
			case *ssa.ChangeType:
				r = isOnly(t.X, d+1)
			case *ssa.BinOp:
				r = isOnly(t.X, d+1) && isOnly(t.Y, d+1)
			case *ssa.UnOp:
				if t.Op == token.XOR || t.Op == token.SUB {
					r = isOnly(t.X, d+1)
				}
			}
			only[v] = r
			return r
		}
		var touches func(v ssa.Value, d int) bool
		touches = func(v ssa.Value, d int) bool {
			if d > 24 {
				return false
			}
			switch t := v.(type) {
			case *ssa.Call:
				if isOperandRead(t, "SImm16") {
					return true
				}
				for _, a := range t.Call.Args {
					if touches(a, d+1) {
						return true
					}
				}
			case *ssa.Convert:
				return touches(t.X, d+1)
			case *ssa.ChangeType:
				return touches(t.X, d+1)
			case *ssa.BinOp:
				return touches(t.X, d+1) || touches(t.Y, d+1)
			case *ssa.UnOp:
				return touches(t.X, d+1)
			}
			return false
		}
		ex := &bpExpr{leaf: func(v ssa.Value) (pval, bool) {
			if isOperandRead(v, "SImm16") {
				return pSym("simm", 16).trunc(16), true // the decoder stores the 16-bit field zero-extended
			}
			return pval{}, false
		}}
		judge := func(v ssa.Value, at ssa.Instruction, what string) {
			if _, isC := v.(*ssa.Const); isC || !isOnly(v, 0) || !touches(v, 0) {
				return
			}
			w, _, ok := typeWidth(v.Type())
			if !ok || w < 32 {
				return
			}
			st.Instances++
			c.MarkAnalysed(fn)
			// the leaf is 16 bits wide inside a uint64 result of ReadOperand
			r := ex.eval(v, 0)
			if r.kind != pVec {
				st.Ob(false)
				c.Report(core.Finding{Rule: "R03.33", Kind: "undecided", Pkg: h.alu.pkg, Func: core.FuncName(fn), Detail: "immediate-expression-not-evaluated:" + what, Pos: c.Position(at.Pos()), Msg: "the expression that carries the immediate could not be evaluated bit by bit: " + ex.ev.why})
				return
			}
			good := true
			for i := 16; i < 32; i++ {
				b := r.bits[i]
				if wantSigned {
					if !(b.k == 's' && b.src == "simm" && b.i == 15 && !b.neg) {
						good = false
					}
				} else if b.k != '0' {
					good = false
				}
			}
			for i := 0; i < 16; i++ {
				b := r.bits[i]
				if !(b.k == 's' && b.src == "simm" && b.i == i && !b.neg) {
					// arithmetic on the immediate alone (e.g. imm*4) is not an extension question
					return
				}
			}
			st.Ob(good)
			if !good {
				ext := "sign-extended (bits 31..16 = simm[15])"
				if !wantSigned {
					ext = "zero-extended"
				}
				c.ReportAt("R03.33", fn, at.Pos(), "immediate-extension:"+what, fmt.Sprintf("%s (%s) uses the 16-bit immediate as %s where the instruction takes it %s: s_movk_i32 s0, 0xffff gives 0x0000ffff instead of 0xffffffff", core.FuncName(fn), strings.Join(h.insts, ", "), r.render(32), ext))
			}
		}
		for _, b := range fn.Blocks {
			for _, in := range b.Instrs {
				switch t := in.(type) {
				case *ssa.Call:
					if t.Call.IsInvoke() && t.Call.Method.Name() == "WriteOperand" && len(t.Call.Args) == 3 {
						judge(t.Call.Args[2], in, "write")
					}
				case *ssa.BinOp:
					xo, yo := isOnly(t.X, 0) && touches(t.X, 0), isOnly(t.Y, 0) && touches(t.Y, 0)
					if xo && !isOnly(t.Y, 0) {
						judge(t.X, in, "operand")
					}
					if yo && !isOnly(t.X, 0) {
						judge(t.Y, in, "operand")
					}
				}
			}
		}
	}
}

// R03.35: bits 63..32 of a 32-bit source do not influence the instruction.
//
// ReadOperand returns 64 bits. For a 32-bit source they are zero when the operand is a
// register or a literal, but an inline integer constant is delivered as uint64(int64):
// -1 arrives as 0xFFFF_FFFF_FFFF_FFFF. The upper half is harmless as long as the value
// only passes through operations whose low 32 result bits depend on the low 32 operand
// bits (+, -, *, &, |, ^, <<) and is then written to a 32-bit destination (WriteOperand
// truncates). It is not harmless in a comparison, a right shift, a division, a
// conversion to floating point or an index.
func checkHighHalfInert(c *core.Ctx, handlers []handlerRef) {
	st := c.Rule("R03.35", "in the handlers dispatched only for 32-bit integer / bit instructions (every type token of every mnemonic is 16, 24 or 32 bits wide), a value read with ReadOperand from Src0 / Src1 / Src2 is reduced to 32 bits (a conversion to a type of at most 32 bits, or a mask of at most 32 bits) before it reaches a comparison, a right shift, a division or remainder, a conversion to a wider or floating-point type, or a call other than WriteOperand; the low-bits-closed operations + - * & | ^ << may be applied to the raw value", 150)
	typ := regexp.MustCompile(`_([iubf])(8|16|24|32|64)\b`)
	seen := map[*ssa.Function]bool{}
	for _, h := range handlers {
		if len(h.insts) == 0 {
			continue
		}
		all32 := true
		for _, n := range h.insts {
			ms := typ.FindAllStringSubmatch(baseMnemonic(n), -1)
			if len(ms) == 0 {
				all32 = false
			}
			for _, m := range ms {
				if m[2] == "64" || m[1] == "f" {
					all32 = false
				}
			}
			if strings.Contains(n, "saveexec") || strings.Contains(n, "cndmask") || strings.Contains(n, "readlane") || strings.Contains(n, "writelane") || strings.Contains(n, "mad_u64") || strings.Contains(n, "mad_i64") {
				all32 = false
			}
		}
		if !all32 {
			continue
		}
		fn := c.SSAFunc(h.alu.pkg, h.alu.typ+"."+h.name)
		if fn == nil || seen[fn] {
			continue
		}
		seen[fn] = true
		carryIn := false
		for _, n := range h.insts {
			if core.ProvMatch(regexp.MustCompile(`^v_(addc|subb|subbrev)(_co)?_u32`), baseMnemonic(n)) {
				carryIn = true
			}
		}
		for _, b := range fn.Blocks {
			for _, in := range b.Instrs {
				call, ok := in.(*ssa.Call)
				if !ok || !(isOperandRead(call, "Src0") || isOperandRead(call, "Src1") || isOperandRead(call, "Src2")) {
					continue
				}
				if isOperandRead(call, "Src2") && carryIn {
					continue // the carry-in of v_addc / v_subb / v_subbrev is a 64-bit lane mask
				}
				st.Instances++
				c.MarkAnalysed(fn)
				// forward slice through low-bits-closed operations
				bad := ""
				var badPos ssa.Instruction
				visited := map[ssa.Value]bool{}
				var walk func(v ssa.Value, d int)
				walk = func(v ssa.Value, d int) {
					if visited[v] || d > 12 || v.Referrers() == nil || bad != "" {
						return
					}
					visited[v] = true
					for _, r := range *v.Referrers() {
						switch x := r.(type) {
						case *ssa.DebugRef:
						case *ssa.Convert:
							w, _, okW := typeWidth(x.Type())
							if okW && w <= 32 {
								continue // reduced
							}
							if bt, isB := x.Type().Underlying().(*types.Basic); isB && bt.Info()&types.IsFloat != 0 {
								bad, badPos = "a conversion to floating point", x
								return
							}
							walk(x, d+1) // same width reinterpretation (int64 <-> uint64)
						case *ssa.BinOp:
							switch x.Op {
							case token.AND:
								other := x.Y
								if other == v {
									other = x.X
								}
								if k, isK := core.ConstInt(other); isK && k >= 0 && k <= 0xffffffff {
									continue // reduced by the mask
								}
								walk(x, d+1)
							case token.ADD, token.SUB, token.MUL, token.OR, token.XOR:
								walk(x, d+1)
							case token.SHL:
								if x.X == v {
									walk(x, d+1)
								} else {
									bad, badPos = "a shift amount", x
								}
							case token.SHR:
								if x.X == v {
									bad, badPos = "a right shift", x
								} else {
									bad, badPos = "a shift amount", x
								}
							case token.QUO, token.REM:
								bad, badPos = "a division", x
							case token.EQL, token.NEQ, token.LSS, token.LEQ, token.GTR, token.GEQ:
								// x & y and x | y of sign- or zero-extended 32-bit values are zero as
								// 64-bit values exactly when their low halves are
								other := x.Y
								if other == v {
									other = x.X
								}
								if k, isK := core.ConstInt(other); isK && k == 0 && (x.Op == token.EQL || x.Op == token.NEQ) && onlyAndOr(v, 0) {
									continue
								}
								bad, badPos = "a comparison", x
							default:
								walk(x, d+1)
							}
							if bad != "" {
								return
							}
						case *ssa.Phi:
							walk(x, d+1)
						case *ssa.Call:
							if x.Call.IsInvoke() && x.Call.Method.Name() == "WriteOperand" {
								continue // the register store truncates to the destination width
							}
							if cal := x.Call.StaticCallee(); cal != nil && strings.HasPrefix(cal.Name(), "ExtractBitsFromU") && len(x.Call.Args) == 3 {
								if hi, isK := core.ConstInt(x.Call.Args[2]); isK && hi <= 31 {
									continue // a field inside the low dword
								}
							}
							bad, badPos = "a call of "+calleeName(x), x
							return
						case *ssa.Store, *ssa.MapUpdate, *ssa.Return, *ssa.IndexAddr, *ssa.Index:
							bad, badPos = "a store / index", r
							return
						}
					}
				}
				walk(call, 0)
				st.Ob(bad == "")
				if bad != "" {
					c.ReportAt("R03.35", fn, badPos.Pos(), "raw-64-bit-source:"+strings.ReplaceAll(bad, " ", "-"), fmt.Sprintf("%s (%s) lets the raw 64-bit value of a 32-bit source reach %s: an inline constant such as -1 is delivered as 0xFFFFFFFFFFFFFFFF, so the upper half takes part in the result (v_lshrrev_b32 v0, 4, -16 shifts ones in; v_cmp_eq_u32 -1, v0 is false for v0 = 0xFFFFFFFF)", core.FuncName(fn), strings.Join(h.insts, ", "), bad))
				}
			}
		}
	}
}

func calleeName(call *ssa.Call) string {
	if call.Call.IsInvoke() {
		return call.Call.Method.Name()
	}
	if cal := call.Call.StaticCallee(); cal != nil {
		return cal.Name()
	}
	return "a function value"
}

// onlyAndOr: v is built from ReadOperand results by & and | alone.
func onlyAndOr(v ssa.Value, d int) bool {
	if d > 6 {
		return false
	}
	switch x := v.(type) {
	case *ssa.Call:
		return x.Call.IsInvoke() && x.Call.Method.Name() == "ReadOperand"
	case *ssa.BinOp:
		if x.Op == token.AND || x.Op == token.OR {
			return onlyAndOr(x.X, d+1) && onlyAndOr(x.Y, d+1)
		}
	}
	return false
}
