package rules

import (
	"fmt"
	"go/types"
	"sort"
	"strings"

	"golang.org/x/tools/go/ssa"

	"verif/internal/core"
)

// Thread-shared fields of the driver (R12.10).
//
// Two kinds of threads run driver code: application threads, which enter
// through the exported methods of Driver, Context and CommandQueue, and the
// simulation goroutine, which enters through the Tick / Handle methods of the
// driver and its middlewares. A field of a driver type that is written from
// one kind and accessed from the other is shared between threads. Every
// access to a shared field holds a mutex of the same object, and all accesses
// agree on one mutex, unless the field is in the hand-off table: fields that
// are written before the object is published through a mutex-protected queue
// and only read afterwards.

type sharedAccess struct {
	fn    *ssa.Function
	in    ssa.Instruction
	write bool
	app   bool
	sim   bool
	locks map[string]bool // names of mutex fields of the same base held here
}

func driverThreadSets(c *core.Ctx, pd *PkgInfo) (app, sim map[*ssa.Function]bool) {
	app, sim = map[*ssa.Function]bool{}, map[*ssa.Function]bool{}
	var mark func(set map[*ssa.Function]bool, fn *ssa.Function)
	mark = func(set map[*ssa.Function]bool, fn *ssa.Function) {
		if fn == nil || set[fn] || fn.Pkg != pd.Pkg || len(fn.Blocks) == 0 {
			return
		}
		set[fn] = true
		for _, b := range fn.Blocks {
			for _, in := range b.Instrs {
				if cc := core.CallOf(in); cc != nil {
					if cal := cc.StaticCallee(); cal != nil {
						mark(set, cal)
					} else if cc.IsInvoke() {
						// interface methods implemented in the package
						for _, f2 := range pd.Funcs {
							if f2.Name() == cc.Method.Name() && f2.Signature.Recv() != nil {
								if it, ok := cc.Value.Type().Underlying().(*types.Interface); ok && types.Implements(f2.Signature.Recv().Type(), it) {
									mark(set, f2)
								}
							}
						}
					}
				}
				if mc, ok := in.(*ssa.MakeClosure); ok {
					if f2, ok := mc.Fn.(*ssa.Function); ok {
						mark(set, f2)
					}
				}
			}
		}
	}
	for _, fn := range pd.Funcs {
		if fn.Signature.Recv() == nil || fn.Parent() != nil {
			continue
		}
		name := fn.Name()
		switch {
		case name == "Tick" || name == "Handle" || name == "runEngine" || name == "runAsync":
			mark(sim, fn)
		case fn.Object() != nil && fn.Object().Exported() && name != "Tick" && name != "Handle":
			rt := fn.Signature.Recv().Type().String()
			if strings.HasSuffix(rt, "driver.Driver") || strings.HasSuffix(rt, "driver.Context") || strings.HasSuffix(rt, "driver.CommandQueue") {
				mark(app, fn)
			}
		}
	}
	return
}

func collectSharedFields(c *core.Ctx, pd *PkgInfo) map[string][]sharedAccess {
	app, sim := driverThreadSets(c, pd)
	entry := entryLockNames(pd)
	out := map[string][]sharedAccess{}
	for _, fn := range pd.Funcs {
		if !app[fn] && !sim[fn] {
			continue
		}
		var ls map[ssa.Instruction]map[lockKey]bool
		for _, b := range fn.Blocks {
			for _, in := range b.Instrs {
				fa, ok := in.(*ssa.FieldAddr)
				if !ok {
					continue
				}
				f := core.FieldOfAddr(fa)
				if f == nil || f.Pkg() == nil || f.Pkg() != pd.Pkg.Pkg {
					continue
				}
				if _, isMutex := f.Type().(*types.Named); isMutex && strings.HasPrefix(f.Type().String(), "sync.") {
					continue
				}
				if freshBase(fa.X) {
					continue
				}
				write := false
				read := false
				if fa.Referrers() != nil {
					for _, r := range *fa.Referrers() {
						if s, ok := r.(*ssa.Store); ok && s.Addr == ssa.Value(fa) {
							write = true
						} else {
							read = true
						}
						// a map held in the field is written through the loaded map value
						if ld, ok := r.(*ssa.UnOp); ok && ld.Referrers() != nil {
							for _, r2 := range *ld.Referrers() {
								switch t := r2.(type) {
								case *ssa.MapUpdate:
									if t.Map == ssa.Value(ld) {
										write = true
									}
								case *ssa.Call:
									if b, ok := t.Call.Value.(*ssa.Builtin); ok && b.Name() == "delete" && len(t.Call.Args) > 0 && t.Call.Args[0] == ssa.Value(ld) {
										write = true
									}
								}
							}
						}
					}
				}
				_ = read
				if ls == nil {
					ls = locksets(fn)
				}
				held := map[string]bool{}
				for k := range ls[in] {
					held[k.field] = true // by name: a container's mutex also protects the elements it holds
				}
				for k := range entry[fn] {
					held[k] = true // held by every caller
				}
				id := core.ShortFieldID(f)
				out[id] = append(out[id], sharedAccess{fn: fn, in: in, write: write, app: app[fn], sim: sim[fn], locks: held})
			}
		}
	}
	return out
}

// DebugShared prints the fields of the driver that are touched by both kinds of threads.
func DebugShared(c *core.Ctx) {
	c.Load(driverPkg)
	c.BuildSSA()
	pd := NewPkgInfo(c, driverPkg)
	acc := collectSharedFields(c, pd)
	var ids []string
	for id := range acc {
		ids = append(ids, id)
	}
	sort.Strings(ids)
	for _, id := range ids {
		as := acc[id]
		appW, simW, appA, simA := 0, 0, 0, 0
		unlocked := 0
		for _, a := range as {
			if a.app {
				appA++
				if a.write {
					appW++
				}
			}
			if a.sim {
				simA++
				if a.write {
					simW++
				}
			}
			if len(a.locks) == 0 {
				unlocked++
			}
		}
		shared := (appW > 0 && simA > 0) || (simW > 0 && appA > 0)
		if !shared {
			continue
		}
		fmt.Printf("%-40s app %d (w %d)  sim %d (w %d)  unlocked %d/%d\n", id, appA, appW, simA, simW, unlocked, len(as))
		for _, a := range as {
			if len(a.locks) == 0 {
				k := ""
				if a.app {
					k += "A"
				}
				if a.sim {
					k += "S"
				}
				w := "r"
				if a.write {
					w = "W"
				}
				fmt.Printf("      %s %s %s %s\n", k, w, core.FuncName(a.fn), c.Position(a.in.Pos()))
			}
		}
	}
}

func checkSharedFields(c *core.Ctx, pd *PkgInfo) {
	st := c.Rule("R12.10", "thread-shared fields are discovered, not listed: a field of a driver type that is written by one kind of thread and accessed by the other, or a field of Driver that application threads write (they also run concurrently with each other) (application threads enter through the exported methods of Driver / Context / CommandQueue, the simulation goroutine through Tick / Handle / runAsync / runEngine; call-graph reachability inside the package, interface calls resolved to the package's implementations) and accessed by the other kind is accessed only with a mutex held, and all its accesses have one mutex (by field name) in common; exempt are fields with a stated hand-off (written only before the simulation goroutine exists)", 8)
	handOff := map[string]string{
		"Driver.GPUs":         "written only by RegisterGPU, a configuration call of the platform builder made before Run starts the simulation goroutine (assumption: RegisterGPU is not called afterwards)",
		"Driver.simulationID": "written in Run before the `go` statement that starts the simulation goroutine",
	}
	acc := collectSharedFields(c, pd)
	var ids []string
	for id := range acc {
		ids = append(ids, id)
	}
	sort.Strings(ids)
	nShared := 0
	for _, id := range ids {
		as := acc[id]
		appW, simW, appA, simA := 0, 0, 0, 0
		for _, a := range as {
			if a.app {
				appA++
				if a.write {
					appW++
				}
			}
			if a.sim {
				simA++
				if a.write {
					simW++
				}
			}
		}
		// Application threads also run concurrently with each other (one goroutine
		// per benchmark in the runner, one per GPU in data-parallel training), and
		// the Driver is the one object they all share: a field of Driver that API
		// code writes is shared even if the simulation goroutine never touches it.
		appShared := strings.HasPrefix(id, "Driver.") && appW > 0
		if !((appW > 0 && simA > 0) || (simW > 0 && appA > 0) || appShared) {
			continue
		}
		nShared++
		st.Instances++
		if why, ok := handOff[id]; ok {
			st.Ob(true)
			st.Sample("%s: shared, hand-off: %s", id, why)
			continue
		}
		var common map[string]bool
		var first *sharedAccess
		sort.SliceStable(as, func(i, j int) bool {
			if as[i].write != as[j].write {
				return as[i].write // report an unlocked write before an unlocked read
			}
			return c.Position(as[i].in.Pos()) < c.Position(as[j].in.Pos()) // file:line, independent of the order in which files were parsed
		})
		for i := range as {
			a := &as[i]
			if len(a.locks) == 0 && first == nil {
				first = a
			}
			if common == nil {
				common = map[string]bool{}
				for k := range a.locks {
					common[k] = true
				}
			} else {
				for k := range common {
					if !a.locks[k] {
						delete(common, k)
					}
				}
			}
		}
		ok := first == nil && len(common) > 0
		st.Ob(ok)
		if ok {
			st.Sample("%s: shared (application %d accesses / %d writes, simulation %d / %d), all under %v", id, appA, appW, simA, simW, sortedKeys(common))
			continue
		}
		if first != nil {
			c.ReportAt("R12.10", first.fn, first.in.Pos(), "shared-field-unlocked:"+id, fmt.Sprintf("%s is written by one kind of thread and accessed by the other (application threads: %d accesses, %d writes; simulation goroutine: %d accesses, %d writes) and this access holds no mutex: a data race", id, appA, appW, simA, simW))
		} else {
			c.ReportAt("R12.10", as[0].fn, as[0].in.Pos(), "shared-field-no-common-lock:"+id, id+" is shared between application threads and the simulation goroutine but its accesses have no mutex in common")
		}
	}
	if nShared < 6 {
		c.Report(core.Finding{Rule: "R12.10", Kind: "floor", Pkg: driverPkg, Func: "-", Detail: "shared-fields", Msg: fmt.Sprintf("%d thread-shared fields discovered, 9 confirmed by hand: the thread entry points were not recognised", nShared)})
	}
}

// entryLockNames: the mutex field names held at every call site of a function
// inside the package (static calls and interface calls resolved to the
// package's implementations), propagated to a fixpoint. A helper that is only
// ever called with a lock held runs under that lock. Locks are identified by
// field name: the driver is a single object, and so is each context a queue
// belongs to.
func entryLockNames(pd *PkgInfo) map[*ssa.Function]map[string]bool {
	type site struct {
		caller *ssa.Function
		in     ssa.Instruction
	}
	sites := map[*ssa.Function][]site{}
	lss := map[*ssa.Function]map[ssa.Instruction]map[lockKey]bool{}
	for _, fn := range pd.Funcs {
		for _, b := range fn.Blocks {
			for _, in := range b.Instrs {
				cc := core.CallOf(in)
				if cc == nil {
					continue
				}
				if _, isGo := in.(*ssa.Go); isGo {
					continue // a new goroutine holds nothing
				}
				if _, isDefer := in.(*ssa.Defer); isDefer {
					continue
				}
				if cal := cc.StaticCallee(); cal != nil {
					if cal.Pkg == pd.Pkg {
						sites[cal] = append(sites[cal], site{fn, in})
					}
					continue
				}
				if cc.IsInvoke() {
					for _, f2 := range pd.Funcs {
						if f2.Name() == cc.Method.Name() && f2.Signature.Recv() != nil {
							if it, ok := cc.Value.Type().Underlying().(*types.Interface); ok && types.Implements(f2.Signature.Recv().Type(), it) {
								sites[f2] = append(sites[f2], site{fn, in})
							}
						}
					}
				}
			}
		}
	}
	// API entry points: exported functions, and exported methods of exported types
	isAPI := func(fn *ssa.Function) bool {
		if fn.Object() == nil || !fn.Object().Exported() {
			return false
		}
		if r := fn.Signature.Recv(); r != nil {
			t := r.Type()
			if p, ok := t.(*types.Pointer); ok {
				t = p.Elem()
			}
			if n, ok := t.(*types.Named); ok {
				return n.Obj().Exported()
			}
		}
		return true
	}
	entry := map[*ssa.Function]map[string]bool{}
	top := map[*ssa.Function]bool{}
	for _, fn := range pd.Funcs {
		if len(sites[fn]) > 0 && !isAPI(fn) {
			top[fn] = true // not yet constrained
		} else {
			entry[fn] = map[string]bool{} // roots and exported functions: nothing held
		}
	}
	for changed, round := true, 0; changed && round < 20; round++ {
		changed = false
		for _, fn := range pd.Funcs {
			if _, fixedRoot := entry[fn]; fixedRoot && !top[fn] && len(sites[fn]) == 0 {
				continue
			}
			if isAPI(fn) {
				continue
			}
			var meet map[string]bool
			for _, s := range sites[fn] {
				if top[s.caller] {
					continue // unconstrained caller does not restrict yet
				}
				held := map[string]bool{}
				for k := range entry[s.caller] {
					held[k] = true
				}
				if lss[s.caller] == nil {
					lss[s.caller] = locksets(s.caller)
				}
				for k := range lss[s.caller][s.in] {
					held[k.field] = true
				}
				if meet == nil {
					meet = held
				} else {
					for k := range meet {
						if !held[k] {
							delete(meet, k)
						}
					}
				}
			}
			if meet == nil {
				continue
			}
			old, had := entry[fn]
			same := had && len(old) == len(meet)
			if same {
				for k := range meet {
					if !old[k] {
						same = false
					}
				}
			}
			if !same || top[fn] {
				entry[fn] = meet
				top[fn] = false
				changed = true
			}
		}
	}
	for fn := range top {
		if top[fn] {
			entry[fn] = map[string]bool{}
		}
	}
	return entry
}

// DebugEntryLocks prints the lock names held at entry of every function of the driver.
func DebugEntryLocks(c *core.Ctx) {
	c.Load(driverPkg)
	c.BuildSSA()
	pd := NewPkgInfo(c, driverPkg)
	e := entryLockNames(pd)
	var names []string
	for fn, m := range e {
		if len(m) > 0 {
			names = append(names, core.FuncName(fn)+" "+strings.Join(sortedKeys(m), ","))
		}
	}
	sort.Strings(names)
	for _, n := range names {
		fmt.Println(n)
	}
}

// DebugAppWrites prints the fields of Driver written from API-reachable code without a lock.
func DebugAppWrites(c *core.Ctx) {
	c.Load(driverPkg)
	c.BuildSSA()
	pd := NewPkgInfo(c, driverPkg)
	acc := collectSharedFields(c, pd)
	var ids []string
	for id := range acc {
		ids = append(ids, id)
	}
	sort.Strings(ids)
	for _, id := range ids {
		if !strings.HasPrefix(id, "Driver.") {
			continue
		}
		appW := 0
		for _, a := range acc[id] {
			if a.app && a.write {
				appW++
			}
		}
		if appW == 0 {
			continue
		}
		fmt.Printf("%s: %d accesses, %d writes from API code\n", id, len(acc[id]), appW)
		for _, a := range acc[id] {
			if a.app && len(a.locks) == 0 {
				w := "r"
				if a.write {
					w = "W"
				}
				fmt.Printf("     unlocked %s %s %s\n", w, core.FuncName(a.fn), c.Position(a.in.Pos()))
			}
		}
	}
}
