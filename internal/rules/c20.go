package rules

import (
	"fmt"
	"go/token"
	"regexp"
	"strings"

	"golang.org/x/tools/go/ssa"

	"verif/internal/core"
)

func init() { register("C20", runC20) }

type nvLevel struct {
	pkg, typ     string
	unfinished   string // counter of outstanding child work
	finished     string // counter of finished units to report upward ("" for the top level)
	pending      string // list of undispatched child work
	free         string // list of free child units
	inputQty     string // regexp on provenance: the quantity loaded from the input message
	reportPort   string
	dispatchPort string
	counted      []string // statistics counters that must grow with the loaded work
}

func runC20(c *core.Ctx) core.Meta {
	levels := []nvLevel{
		{pkg: "nvidia/subcore", typ: "Subcore", unfinished: "unfinishedInstsCount", finished: "finishedWarpsCount", inputQty: `\.Warp\.InstructionsCount$`, reportPort: "toSM", counted: []string{"instsCount"}},
		{pkg: "nvidia/sm", typ: "SM", unfinished: "unfinishedWarpsCount", finished: "finishedThreadblocksCount", pending: "undispatchedWarps", free: "freeSubcores", inputQty: `\.Threadblock\.Warps`, reportPort: "toGPU", dispatchPort: "toSubcores", counted: []string{"warpsCount"}},
		{pkg: "nvidia/gpu", typ: "GPU", unfinished: "unfinishedThreadblocksCount", finished: "finishedKernelsCount", pending: "undispatchedThreadblocks", free: "freeSMs", inputQty: `\.Kernel\.Threadblocks`, reportPort: "toDriver", dispatchPort: "toSMs"},
		{pkg: "nvidia/driver", typ: "Driver", unfinished: "unfinishedKernelsCount", pending: "undispatchedKernels", free: "freeDevices", dispatchPort: "toDevices"},
	}
	var pkgs []string
	for _, l := range levels {
		pkgs = append(pkgs, l.pkg)
	}
	pkgs = append(pkgs, "nvidia/tracereader", "nvidia/nvidiaconfig", "nvidia/runner")
	c.Load(pkgs...)
	c.BuildSSA()
	checkEngineRunPrecededByWakeup(c)
	checkFreeListFilledOnce(c, "R20.16", "The engine then runs dry with kernels unfinished and fewer warps executed than the trace holds.", 2, NewPkgInfo(c, "nvidia/gpu"), NewPkgInfo(c, "nvidia/sm"), NewPkgInfo(c, "nvidia/driver"))
	// R20.13 messages are not reused between Sends (fresh.go)
	checkMessagesFresh(c, "R20.13", []string{"nvidia/subcore", "nvidia/sm", "nvidia/gpu", "nvidia/driver"}, 6)
	c.BuildSSA()
	prov := core.NewProv(c)

	st15 := c.Rule("R20.15", "the parser reads exactly as many instruction lines for a warp as the warp declares: every call that parses an instruction line (extractInst) is reached only over the edge of a comparison of the running count with Warp.InstsCount on which more instructions are due (j < InstsCount). A loop that reads a line first and compares afterwards consumes the next structural line (`warp = N`, `#END_TB`) as an instruction for a warp with insts = 0: a valid trace with an empty warp cannot be loaded", 1)
	{
		pt := NewPkgInfo(c, "nvidia/tracereader")
		fromCount := func(v ssa.Value) bool {
			f := core.LoadedField(core.StripConv(v))
			return f != nil && f.Name() == "InstsCount"
		}
		for _, fn := range pt.Funcs {
			var g *core.Graph
			for _, b := range fn.Blocks {
				for _, in := range b.Instrs {
					cc := core.CallOf(in)
					if cc == nil || cc.StaticCallee() == nil || cc.StaticCallee().Name() != "extractInst" {
						continue
					}
					if g == nil {
						g = core.BuildGraph(fn, 0, nil)
					}
					n := g.NodeOf(in)
					if n == nil {
						continue
					}
					st15.Instances++
					c.MarkAnalysed(fn)
					ok := g.Guarded(n, CmpCut(func(_ *core.Node, op token.Token, x, y ssa.Value) int {
						if !fromCount(y) {
							return 0
						}
						switch op {
						case token.LSS, token.NEQ:
							return 1
						case token.GEQ, token.EQL:
							return -1
						}
						return 0
					}))
					st15.Ob(ok)
					st15.Sample("%s: an instruction line is parsed only where the count is below InstsCount: %v", core.FuncName(fn), ok)
					if !ok {
						c.ReportAt("R20.15", fn, in.Pos(), "inst-line-read-before-count-test:"+core.FuncName(fn), core.FuncName(fn)+" parses an instruction line on a path that did not first find the running count below the warp's InstsCount: for a warp with insts = 0 the line that follows (`warp = N` or `#END_TB`) is handed to the instruction parser, which panics; the trace cannot be loaded")
					}
				}
			}
		}
	}

	st14 := c.Rule("R20.14", "a message that a component handled is taken off its port: in every handler of the four levels, from PeekIncoming (message present) no path reaches `return true` without RetrieveIncoming on the same port (callees of the package followed): a thread block or a completion that stays at the head of the port is accounted again on every tick, the counters run past zero and the run never ends", 4)
	for _, rel := range []string{"nvidia/subcore", "nvidia/sm", "nvidia/gpu", "nvidia/driver"} {
		checkPeekedHandledConsumed(c, st14, "R20.14", NewPkgInfo(c, rel), "the same message is handled again on the next tick (a thread block is counted finished once per cycle, the level above sees its outstanding count pass zero)")
	}

	st2 := c.Rule("R20.2", "completion propagation: every decrement of an outstanding-work counter is followed by the ==0 test that raises the finished counter of the level; a finished unit is reported upward exactly once (finished counter decremented only after a successful Send); the unit that reported is returned to the free list", 6)
	st3 := c.Rule("R20.3", "zero-work completion: a function that loads an outstanding-work counter from an input quantity that may be 0 (instruction count, number of warps / thread blocks) must itself raise the finished counter when that quantity is 0, because the decrement path is never entered for it", 3)
	st4 := c.Rule("R20.4", "conservation: the outstanding-work counter is loaded with exactly the input quantity (one increment per listed child, or the instruction count itself) and the statistics counters grow by the same amount; dispatch sends the head of the pending list to the head of the free list and pops exactly those two", 6)

	for _, l := range levels {
		p := NewPkgInfo(c, l.pkg)
		F := func(f string) string { return l.typ + "." + f }
		effects := []Effect{RetrieveEffect}
		for _, f := range []string{l.finished, l.pending, l.free, l.unfinished} {
			if f != "" {
				effects = append(effects, FieldWriteEffect(f+"-write", F(f)))
			}
		}
		RunProto(c, &ProtoCfg{RuleBase: "R20.1." + strings.ToLower(l.typ), Pkg: l.pkg, FloorSends: 1, Effects: effects, AllEffectsAfterSend: true})

		// ---- R20.2 -------------------------------------------------------
		p.Instrs(func(fn *ssa.Function, in ssa.Instruction) {
			s, ok := storeToField(in, F(l.unfinished))
			if !ok || prov.Of(s.Val) != "(recv."+l.unfinished+"-1)" {
				return
			}
			st2.Instances++
			c.MarkAnalysed(fn)
			if l.finished == "" {
				st2.Ob(true)
				return
			}
			g := core.BuildGraph(fn, 0, nil)
			var dn *core.Node
			for _, n := range g.Nodes {
				if n.Instr == in {
					dn = n
				}
			}
			// the finished increment must be reachable after the decrement and guarded by (new value)==0
			incs := g.NodesWhere(func(n *core.Node) bool {
				s2, ok := storeToField(n.Instr, F(l.finished))
				return ok && prov.Of(s2.Val) == "(recv."+l.finished+"+1)"
			})
			after, _ := g.Reach(core.After(dn, nil), core.WalkOpts{ForwardOnly: true})
			okAny := false
			for _, inc := range incs {
				if !after[inc] {
					continue
				}
				cut := CmpCut(func(n *core.Node, op token.Token, x, y ssa.Value) int {
					px := prov.Of(x)
					if px != "(recv."+l.unfinished+"-1)" && px != "recv."+l.unfinished {
						return 0
					}
					if z, ok := core.ConstInt(y); !ok || z != 0 {
						return 0
					}
					switch op {
					case token.EQL, token.LEQ:
						return 1
					case token.NEQ, token.GTR:
						return -1
					}
					return 0
				})
				if g.Guarded(inc, cut) {
					okAny = true
				} else {
					st2.Ob(false)
					c.ReportAt("R20.2", fn, inc.Instr.Pos(), l.finished+"++:guard", "the finished counter is raised on a path that did not find the outstanding-work counter equal to 0: a unit is reported finished while work is outstanding")
				}
			}
			st2.Ob(okAny)
			st2.Sample("%s: %s-- followed by ==0 test raising %s: %v", core.FuncName(fn), l.unfinished, l.finished, okAny)
			if !okAny {
				c.ReportAt("R20.2", fn, in.Pos(), l.unfinished+"--:no-completion", "after decrementing "+l.unfinished+" no path raises "+l.finished+" when it reaches 0: completion is never propagated")
			}
		})
		// finished counter: raised only under the ==0 guard or the zero-work guard; lowered only after successful Send (proto), by one
		if l.free != "" {
			// returning the unit to the free list pairs with the decrement
			p.Instrs(func(fn *ssa.Function, in ssa.Instruction) {
				s, ok := storeToField(in, F(l.free))
				if !ok {
					return
				}
				pv := prov.Of(s.Val)
				if !strings.HasPrefix(pv, "append(recv."+l.free+",") {
					return
				}
				if _, isParam := s.Val.(*ssa.Call); isParam && strings.Contains(pv, "param:") {
					return // registration of a unit
				}
				st2.Instances++
				paired := false
				for _, i2 := range in.Block().Instrs {
					if s2, ok := storeToField(i2, F(l.unfinished)); ok && prov.Of(s2.Val) == "(recv."+l.unfinished+"-1)" {
						paired = true
					}
				}
				idOK := core.ProvMatch(regexp.MustCompile(`^append\(recv\.`+l.free+`,\[recv\.\w+\[recv\.\w+\.PeekIncoming\(\)\.\w+ID\]\]\)$`), pv)
				st2.Ob(paired && idOK)
				st2.Sample("%s: %s := %s (paired with %s--: %v)", core.FuncName(fn), l.free, pv, l.unfinished, paired)
				if !paired {
					c.ReportAt("R20.2", fn, in.Pos(), l.free+":free-without-decrement", "a unit is returned to the free list without its finished work being counted")
				}
				if !idOK {
					c.ReportAt("R20.2", fn, in.Pos(), l.free+":free-wrong-unit", "the unit returned to the free list is not the one named by the finished message: "+pv)
				}
			})
		}

		// ---- R20.3 / R20.4 load sites ------------------------------------
		if l.inputQty != "" {
			re := regexp.MustCompile(l.inputQty)
			for _, fn := range p.Funcs {
				g := core.BuildGraph(fn, 0, nil)
				var loads []*core.Node
				direct := false
				for _, n := range g.Nodes {
					s, ok := storeToField(n.Instr, F(l.unfinished))
					if !ok {
						continue
					}
					pv := prov.Of(s.Val)
					if core.ProvMatch(re, pv) { // counter := quantity
						loads = append(loads, n)
						direct = true
					} else if pv == "(recv."+l.unfinished+"+1)" {
						loads = append(loads, n)
					}
				}
				if len(loads) == 0 {
					continue
				}
				c.MarkAnalysed(fn)
				// R20.4: increments happen once per listed child
				st4.Instances++
				okLoad := direct
				if !direct {
					// the increment must sit in the loop that appends each child to the pending list
					for _, n := range loads {
						for _, i2 := range n.Block.Instrs {
							if s2, ok := storeToField(i2, F(l.pending)); ok && core.ProvMatch(re, prov.Of(s2.Val)) {
								okLoad = true
							}
						}
					}
				}
				st4.Ob(okLoad)
				st4.Sample("%s: %s loaded from the input quantity (direct=%v)", core.FuncName(fn), l.unfinished, direct)
				if !okLoad {
					c.ReportAt("R20.4", fn, loads[0].Instr.Pos(), l.unfinished+":load", "the outstanding-work counter is not increased once per child appended to the pending list")
				}
				for _, cnt := range l.counted {
					st4.Instances++
					okC := false
					for _, n := range g.Nodes {
						if s2, ok := storeToField(n.Instr, F(cnt)); ok {
							pv := prov.Of(s2.Val)
							if direct && core.ProvMatch(regexp.MustCompile(`^\(recv\.`+cnt+`\+.*`+l.inputQty[:len(l.inputQty)-1]+`\)$`), pv) {
								okC = true
							}
							if !direct && pv == "(recv."+cnt+"+1)" && n.Block == loads[0].Block {
								okC = true
							}
						}
					}
					st4.Ob(okC)
					if !okC {
						c.ReportAt("R20.4", fn, loads[0].Instr.Pos(), cnt+":count", "the statistics counter "+cnt+" does not grow by the amount of work loaded")
					}
				}
				// R20.3
				st3.Instances++
				zeroHandled := false
				for _, n := range g.Nodes {
					s2, ok := storeToField(n.Instr, F(l.finished))
					if !ok || prov.Of(s2.Val) != "(recv."+l.finished+"+1)" {
						continue
					}
					cut := CmpCut(func(_ *core.Node, op token.Token, x, y ssa.Value) int {
						px := prov.Of(x)
						if !(re.MatchString(px) || regexp.MustCompile(`^len\(.*`+l.inputQty+`\)$`).MatchString(px) || px == "recv."+l.unfinished) {
							return 0
						}
						if z, ok := core.ConstInt(y); !ok || z != 0 {
							return 0
						}
						switch op {
						case token.EQL, token.LEQ:
							return 1
						case token.NEQ, token.GTR:
							return -1
						}
						return 0
					})
					if g.Guarded(n, cut) {
						zeroHandled = true
					}
				}
				st3.Ob(zeroHandled)
				st3.Sample("%s: zero-work input raises %s: %v", core.FuncName(fn), l.finished, zeroHandled)
				if !zeroHandled {
					c.ReportAt("R20.3", fn, loads[0].Instr.Pos(), l.unfinished+":zero-work", fmt.Sprintf("%s loads %s from an input quantity that may be 0 but never raises %s for it: an empty unit of work is never reported finished and the run ends with unfinished kernels", core.FuncName(fn), l.unfinished, l.finished))
				}
			}
		}

		// ---- R20.4 dispatch ------------------------------------------------
		if l.dispatchPort != "" {
			p.Instrs(func(fn *ssa.Function, in ssa.Instruction) {
				if !SendOn(in, l.dispatchPort) {
					return
				}
				st4.Instances++
				msg := prov.Of(core.CallOf(in).Args[0])
				okMsg := strings.Contains(msg, ":*recv."+l.pending+"[0]")
				st4.Ob(okMsg)
				if !okMsg {
					c.ReportAt("R20.4", fn, in.Pos(), "dispatch:payload", "the dispatched message does not carry the head of "+l.pending+": "+short(msg))
				}
				metas := metaStoresOn(fn, core.CallOf(in).Args[0], prov)
				dst := ""
				// MsgMeta is embedded: stores go to msg.Dst directly
				for _, b := range fn.Blocks {
					for _, i2 := range b.Instrs {
						if s, ok := i2.(*ssa.Store); ok {
							if fa, ok := s.Addr.(*ssa.FieldAddr); ok {
								if f := core.FieldOfAddr(fa); f != nil && core.ShortFieldID(f) == "MsgMeta.Dst" {
									dst = prov.Of(s.Val)
								}
							}
						}
					}
				}
				_ = metas
				okDst := strings.HasPrefix(dst, "*recv."+l.free+"[0].GetPortByName(") || strings.HasPrefix(dst, "recv."+l.free+"[0].GetPortByName(")
				st4.Ob(okDst)
				if !okDst {
					c.ReportAt("R20.4", fn, in.Pos(), "dispatch:dst", "the dispatched message is not addressed to the head of "+l.free+": "+short(dst))
				}
				pops := map[string]bool{}
				for _, b := range fn.Blocks {
					for _, i2 := range b.Instrs {
						for _, f := range []string{l.pending, l.free} {
							if s, ok := storeToField(i2, F(f)); ok && prov.Of(s.Val) == "recv."+f+"[1:]" {
								pops[f] = true
							}
						}
					}
				}
				okPop := len(pops) == 2
				st4.Ob(okPop)
				st4.Sample("%s: Send(%s) to %s; pops %v", core.FuncName(fn), short(msg), short(dst), sortedKeys(pops))
				if !okPop {
					c.ReportAt("R20.4", fn, in.Pos(), "dispatch:pop", fmt.Sprintf("after dispatch only %v are popped; both the pending work and the chosen free unit must be removed (else work is executed twice or a busy unit is reused)", sortedKeys(pops)))
				}
				// guarded by both lists non-empty
				for _, f := range []string{l.pending, l.free} {
					f := f
					g := core.BuildGraph(fn, 0, nil)
					var sn *core.Node
					for _, n := range g.Nodes {
						if n.Instr == in {
							sn = n
						}
					}
					cut := CmpCut(func(_ *core.Node, op token.Token, x, y ssa.Value) int {
						if prov.Of(x) != "len(recv."+f+")" {
							return 0
						}
						if z, ok := core.ConstInt(y); !ok || z != 0 {
							return 0
						}
						switch op {
						case token.EQL, token.LEQ:
							return -1
						case token.NEQ, token.GTR:
							return 1
						}
						return 0
					})
					okG := g.Guarded(sn, cut)
					st4.Ob(okG)
					if !okG {
						c.ReportAt("R20.4", fn, in.Pos(), "dispatch:nonempty:"+f, "dispatch runs on a path that did not find "+f+" non-empty")
					}
				}
			})
		}
	}

	// ---------------- R20.5 the trace-line parser partitions the token list ----------------
	checkTokenPartition(c)

	// ---------------- R20.6 .. R20.10 trace parsing against the tracer's format (c20parse.go) ----------------
	checkTraceParsing(c)

	checkIntegerWidths(c, "R20.18", "Completion counters of the trace-driven GPU are wide enough for the number of thread blocks and warps.", 3, []widthScope{{rel: "nvidia/gpu"}, {rel: "nvidia/driver"}, {rel: "nvidia/sm"}, {rel: "nvidia/subcore"}}, []string{"narrow-counter", "narrow"}, widthAllowC20)
	checkScanDestinationsDistinct(c, "R20.19", 1, "nvidia/tracereader")
	checkScannerLooksBeforeItMoves(c)
	checkValueReceiverNotWritten(c, "R20.21", "In the trace reader a Dim3 that scans itself leaves the header's grid and block dimensions at zero with no error.", 3, "nvidia/nvidiaconfig", "nvidia/tracereader")
	checkLineKeptAtEOF(c, "R20.22", "nvidia/tracereader")
	checkParsedFieldsComeFromText(c)
	checkScannerSkipsInALoop(c)
	return core.Meta{Level: "other",
		Explanation: "Structural clauses of the NVIDIA trace-driven pipeline decided on SSA of nvidia/{driver,gpu,sm,subcore} with one table row per hierarchy level: SEND-DISCIPLINE on dispatch and report sites, completion propagation (decrement → ==0 test → finished counter; unit returned to the free list with the decrement and by the ID in the message), zero-work completion at every load site, conservation at load and dispatch sites (head of pending list to head of free list, both popped, both tested non-empty); the trace-line parser consumes every token of a line for at most one field (symbolic cursor intervals, linear in the register counts, pairwise disjoint; the trailing token excluded from every slice).",
		NotDecided:  "parse round-trip of serialised traces beyond the cursor partition (number formats, field meanings); instruction counts as numbers; termination time",
		Assumptions: commonAssumptions}
}

// ---- R20.5 -------------------------------------------------------------------------------

// linForm is c0 + sum coef[sym]*sym over non-negative integer symbols.
type linForm struct {
	c    int64
	coef map[string]int64
	ok   bool
}

func (a linForm) add(b linForm, sign int64) linForm {
	out := linForm{c: a.c + sign*b.c, coef: map[string]int64{}, ok: a.ok && b.ok}
	for k, v := range a.coef {
		out.coef[k] += v
	}
	for k, v := range b.coef {
		out.coef[k] += sign * v
	}
	return out
}

// nonNeg: the form is >= 0 for all non-negative symbol values.
func (a linForm) nonNeg() bool {
	if !a.ok || a.c < 0 {
		return false
	}
	for _, v := range a.coef {
		if v < 0 {
			return false
		}
	}
	return true
}

func (a linForm) String() string {
	if !a.ok {
		return "?"
	}
	out := fmt.Sprint(a.c)
	for _, k := range sortedKeys(a.coef) {
		if a.coef[k] != 0 {
			out += fmt.Sprintf("%+d*%s", a.coef[k], k)
		}
	}
	return out
}

func checkTokenPartition(c *core.Ctx) {
	const trPkg = "nvidia/tracereader"
	st := c.Rule("R20.5", "the trace-line parser consumes each token of the line for at most one field: the index intervals read from the token list (single indices, loops over i < count, slices), written as linear forms in the register counts, are pairwise disjoint on every common path, and a function that reads the trailing token elems[len-1] excludes it from every slice it takes", 8)
	lp := core.NewLocalProv(c)
	for _, fname := range []string{"extractInst", "updateInstMemoryPart"} {
		fn := c.MustFunc("R20.5", trPkg, fname)
		if fn == nil {
			continue
		}
		c.MarkAnalysed(fn)
		// the token list: a []string parameter or the result of strings.Fields
		var isListD func(v ssa.Value, d int) bool
		isListD = func(v ssa.Value, d int) bool {
			if d > 4 {
				return false
			}
			if p, ok := v.(*ssa.Parameter); ok {
				return p.Type().String() == "[]string"
			}
			if call, ok := v.(*ssa.Call); ok {
				if f := core.CalleeFunc(call); f != nil && f.FullName() == "strings.Fields" {
					return true
				}
			}
			// the list with a leading column dropped (elems = elems[1:]) and the
			// join of both forms: every index shifts by the same amount, which
			// leaves the partition property unchanged
			if sl, ok := v.(*ssa.Slice); ok && sl.High == nil && sl.Max == nil && isListD(sl.X, d+1) {
				if _, isC := core.ConstInt(sl.Low); isC || sl.Low == nil {
					return true
				}
			}
			if phi, ok := v.(*ssa.Phi); ok && phi.Type().String() == "[]string" {
				for _, e := range phi.Edges {
					if !isListD(e, d+1) {
						return false
					}
				}
				return len(phi.Edges) > 0
			}
			return false
		}
		isList := func(v ssa.Value) bool { return isListD(v, 0) }
		var lin func(v ssa.Value, depth int) linForm
		loopBound := map[*ssa.Phi]linForm{}
		lin = func(v ssa.Value, depth int) linForm {
			bad := linForm{}
			if depth > 12 {
				return bad
			}
			if k, ok := core.ConstInt(v); ok {
				return linForm{c: k, coef: map[string]int64{}, ok: true}
			}
			switch t := v.(type) {
			case *ssa.Convert:
				return lin(t.X, depth+1)
			case *ssa.ChangeType:
				return lin(t.X, depth+1)
			case *ssa.BinOp:
				switch t.Op {
				case token.ADD:
					return lin(t.X, depth+1).add(lin(t.Y, depth+1), 1)
				case token.SUB:
					return lin(t.X, depth+1).add(lin(t.Y, depth+1), -1)
				}
			case *ssa.UnOp:
				if f := core.LoadedField(t); f != nil {
					return linForm{coef: map[string]int64{f.Name(): 1}, ok: true}
				}
			case *ssa.Call:
				if core.IsBuiltin(t, "len") && isList(t.Call.Args[0]) {
					return linForm{coef: map[string]int64{"len": 1}, ok: true}
				}
			case *ssa.Phi:
				// induction variable 0, +1 with header test i < B
				if l := analyseLoopAny(t); l != nil {
					b := lin(l, depth+1)
					if b.ok {
						loopBound[t] = b
						return linForm{coef: map[string]int64{fmt.Sprintf("i%p", t): 1}, ok: true}
					}
				}
			}
			return bad
		}
		type cons struct {
			lo, hi linForm // [lo, hi)
			in     ssa.Instruction
			what   string
		}
		var all []cons
		readsTrailing := false
		var slices []*ssa.Slice
		expand := func(f linForm) (linForm, linForm) { // replace loop symbols by 0 and bound-1
			lo, hi := linForm{c: f.c, coef: map[string]int64{}, ok: f.ok}, linForm{c: f.c, coef: map[string]int64{}, ok: f.ok}
			for k, v := range f.coef {
				isLoop := false
				for phi, b := range loopBound {
					if k == fmt.Sprintf("i%p", phi) {
						isLoop = true
						// lo: i = 0; hi: i = bound-1
						scaled := linForm{c: (b.c - 1) * v, coef: map[string]int64{}, ok: b.ok}
						for kk, vv := range b.coef {
							scaled.coef[kk] = vv * v
						}
						hi = hi.add(scaled, 1)
					}
				}
				if !isLoop {
					lo.coef[k] += v
					hi.coef[k] += v
				}
			}
			return lo, hi
		}
		for _, b := range fn.Blocks {
			for _, in := range b.Instrs {
				switch t := in.(type) {
				case *ssa.IndexAddr:
					if !isList(t.X) {
						continue
					}
					f := lin(t.Index, 0)
					if !f.ok {
						st.Sample("%s: index %s of the token list not linear in the counts; not modelled", fname, lp.Of(t.Index))
						continue
					}
					lo, hi := expand(f)
					one := linForm{c: 1, coef: map[string]int64{}, ok: true}
					all = append(all, cons{lo, hi.add(one, 1), in, "elems[" + f.String() + "]"})
					if f.coef["len"] == 1 && f.c == -1 && len(f.coef) == 1 {
						readsTrailing = true
					}
				case *ssa.Slice:
					if !isList(t.X) {
						continue
					}
					// `elems = elems[k:]` re-bases the list (its only users are the
					// joins that carry the list on); it consumes no token
					if refs := t.Referrers(); refs != nil && len(*refs) > 0 {
						alias := true
						for _, r := range *refs {
							switch r.(type) {
							case *ssa.Phi, *ssa.DebugRef:
							default:
								alias = false
							}
						}
						if alias {
							continue
						}
					}
					slices = append(slices, t)
					lo := linForm{coef: map[string]int64{}, ok: true}
					if t.Low != nil {
						lo = lin(t.Low, 0)
					}
					hi := linForm{coef: map[string]int64{"len": 1}, ok: true}
					if t.High != nil {
						hi = lin(t.High, 0)
					}
					if lo.ok && hi.ok {
						all = append(all, cons{lo, hi, in, "elems[" + lo.String() + ":" + hi.String() + "]"})
					}
				}
			}
		}
		// trailing-token exclusivity
		if readsTrailing {
			for _, sl := range slices {
				st.Instances++
				hi := linForm{coef: map[string]int64{"len": 1}, ok: true}
				if sl.High != nil {
					hi = lin(sl.High, 0)
				}
				// hi <= len-1  <=>  (len-1) - hi >= 0
				lim := linForm{c: -1, coef: map[string]int64{"len": 1}, ok: true}
				ok := lim.add(hi, -1).nonNeg()
				st.Ob(ok)
				st.Sample("%s: slice ends at %s, trailing token read separately: %v", fname, hi.String(), ok)
				if !ok {
					c.ReportAt("R20.5", fn, sl.Pos(), "slice-includes-trailing-token", fname+" reads the last token elems[len-1] as its own field and also takes a slice of the token list ending at "+hi.String()+": the trailing token is parsed twice (once as the trailing field, once as a list element)")
				}
			}
		}
		// pairwise disjointness on common paths
		reach := func(a, b *ssa.BasicBlock) bool { return a == b || reaches(a, b) }
		for i := 0; i < len(all); i++ {
			for j := i + 1; j < len(all); j++ {
				A, B := all[i], all[j]
				if !reach(A.in.Block(), B.in.Block()) && !reach(B.in.Block(), A.in.Block()) {
					continue // alternative interpretations on exclusive branches
				}
				if A.in == B.in {
					continue // one read site met twice (a loop)
				}
				d1 := B.lo.add(A.hi, -1) // B.lo - A.hi >= 0
				d2 := A.lo.add(B.hi, -1)
				if d1.nonNeg() || d2.nonNeg() {
					st.Instances++
					st.Ob(true)
					continue
				}
				// both ranges are addressed from the same end of the list (both from the start: linear in the
				// counts; or both relative to len): then they must be provably disjoint
				fromEnd := func(f linForm) bool { return f.coef["len"] != 0 }
				if fromEnd(A.lo) == fromEnd(B.lo) {
					st.Instances++
					st.Ob(false)
					c.ReportAt("R20.5", fn, B.in.Pos(), "token-read-twice:"+A.what+"&"+B.what, fmt.Sprintf("%s reads %s and %s on one path and these index ranges are not disjoint for every count of destination / source registers: one token of the line can feed two fields", fname, A.what, B.what))
				}
			}
		}
	}
}

// analyseLoopAny: phi is an induction variable starting at 0 and stepping by 1 whose
// header test is phi < B; returns B.
func analyseLoopAny(phi *ssa.Phi) ssa.Value {
	if len(phi.Edges) != 2 {
		return nil
	}
	okInit, okStep := false, false
	for _, e := range phi.Edges {
		if k, isC := core.ConstInt(e); isC && k == 0 {
			okInit = true
		}
		if bo, ok := e.(*ssa.BinOp); ok && bo.Op == token.ADD && bo.X == ssa.Value(phi) {
			if k, isC := core.ConstInt(bo.Y); isC && k == 1 {
				okStep = true
			}
		}
	}
	if !okInit || !okStep {
		return nil
	}
	iff, ok := phi.Block().Instrs[len(phi.Block().Instrs)-1].(*ssa.If)
	if !ok {
		return nil
	}
	bo, ok := iff.Cond.(*ssa.BinOp)
	if !ok || bo.Op != token.LSS || core.StripConv(bo.X) != ssa.Value(phi) {
		return nil
	}
	return bo.Y
}
