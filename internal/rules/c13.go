package rules

import (
	"fmt"
	"go/constant"
	"go/token"
	"go/types"
	"regexp"
	"strings"

	"golang.org/x/tools/go/ssa"

	"verif/internal/core"
)

func init() { register("C13", runC13) }

type layoutField struct {
	off, bits int64
}

// Published layouts (LLVM AMDGPU usage: amd_kernel_code_t for code object
// V2/V3; kernel_descriptor_t for V3+ descriptors), transcribed once.
var amdKernelCodeT = map[string]layoutField{
	"CodeVersionMajor":          {0, 32},
	"CodeVersionMinor":          {4, 32},
	"MachineKind":               {8, 16},
	"MachineVersionMajor":       {10, 16},
	"MachineVersionMinor":       {12, 16},
	"MachineVersionStepping":    {14, 16},
	"KernelCodeEntryByteOffset": {16, 64},
	"ComputePgmRsrc1":           {48, 32},
	"ComputePgmRsrc2":           {52, 32},
	"#code_properties":          {56, 32},
	"PrivateSegmentByteSize":    {60, 32},
	"GroupSegmentByteSize":      {64, 32},
	"KernargSegmentByteSize":    {72, 64},
	"WFSgprCount":               {84, 16},
	"WIVgprCount":               {86, 16},
}

var kernelDescriptorT = map[string]layoutField{
	"GroupSegmentByteSize":      {0, 32},
	"PrivateSegmentByteSize":    {4, 32},
	"KernargSegmentByteSize":    {8, 32},
	"KernelCodeEntryByteOffset": {16, 64},
	"ComputePgmRsrc3":           {44, 32},
	"ComputePgmRsrc1":           {48, 32},
	"ComputePgmRsrc2":           {52, 32},
}

// code_properties bit positions (both formats)
var codePropertyBits = map[string]int64{
	"EnableSgprPrivateSegmentBuffer": 0,
	"EnableSgprDispatchPtr":          1,
	"EnableSgprQueuePtr":             2,
	"EnableSgprKernargSegmentPtr":    3,
	"EnableSgprDispatchID":           4,
	"EnableSgprFlatScratchInit":      5,
	"EnableSgprPrivateSegmentSize":   6,
	"EnableSgprGridWorkgroupCountX":  7,
	"EnableSgprGridWorkgroupCountY":  8,
	"EnableSgprGridWorkgroupCountZ":  9,
}

// readOf: v (modulo conversions) is binary.LittleEndian.UintN(data[a:b]); returns a, b, N.
func readOf(v ssa.Value) (a, b, n int64, ok bool) {
	v = core.StripConv(v)
	call, isCall := v.(*ssa.Call)
	if !isCall {
		return
	}
	f := core.CalleeFunc(call)
	if f == nil || f.Pkg() == nil || f.Pkg().Path() != "encoding/binary" {
		return
	}
	switch f.Name() {
	case "Uint16":
		n = 16
	case "Uint32":
		n = 32
	case "Uint64":
		n = 64
	default:
		return
	}
	sl, isSl := call.Call.Args[len(call.Call.Args)-1].(*ssa.Slice)
	if !isSl || sl.Low == nil && sl.High == nil {
		return
	}
	if sl.Low != nil {
		a, _ = core.ConstInt(sl.Low)
	}
	if sl.High == nil {
		return a, -1, n, true
	}
	b, ok = core.ConstInt(sl.High)
	return
}

func runC13(c *core.Ctx) core.Meta {
	c.Load(instsPkg, driverPkg)
	c.BuildSSA()
	checkSymbolScansWhole(c)
	checkNoStateBetweenCalls(c, "R13.11", "loading a kernel is a function of the bytes and the name given: the functions reached from LoadKernelCodeObjectFromBytes / FromELF / FromFS keep nothing in package-level variables (maps, slices, structs). A process-wide memo keyed by the kernel name alone returns the first image's kernel for the same name in another image - the shipped GCN3 and gfx942 builds of one benchmark use identical names", 5, instsPkg, []string{"LoadKernelCodeObjectFromBytes", "LoadKernelCodeObjectFromELF", "LoadKernelCodeObjectFromFS"}, map[string]string{})
	lp := core.NewLocalProv(c)
	pi := NewPkgInfo(c, instsPkg)

	st1 := c.Rule("R13.1", "every metadata field is read at the offset and width the published layout (amd_kernel_code_t / kernel_descriptor_t) gives it, with a slice exactly as wide as the read; property flags use the published bit positions; the header sniffer reads the same offsets as the header parser", 30)
	checkParser := func(fnName string, layout map[string]layoutField, label string) {
		fn := c.MustFunc("R13.1", instsPkg, fnName)
		if fn == nil {
			return
		}
		c.MarkAnalysed(fn)
		seen := map[string]bool{}
		for _, b := range fn.Blocks {
			for _, in := range b.Instrs {
				s, ok := in.(*ssa.Store)
				if !ok {
					continue
				}
				f := core.FieldOfAddr(s.Addr)
				if f == nil || core.ShortFieldID(f) != "KernelCodeObjectMeta."+f.Name() {
					continue
				}
				if a, bb, n, ok := readOf(s.Val); ok {
					st1.Instances++
					seen[f.Name()] = true
					okW := bb-a == n/8
					st1.Ob(okW)
					if !okW {
						c.ReportAt("R13.1", fn, in.Pos(), label+":"+f.Name()+":width", fmt.Sprintf("%s is read as a %d-bit value from data[%d:%d] (%d bytes)", f.Name(), n, a, bb, bb-a))
					}
					want, has := layout[f.Name()]
					if !has {
						st1.Ob(false)
						c.ReportAt("R13.1", fn, in.Pos(), label+":"+f.Name()+":not-in-layout", fmt.Sprintf("%s is read from data[%d:%d] but the published %s layout has no such field", f.Name(), a, bb, label))
						continue
					}
					okL := want.off == a && want.bits == n
					st1.Ob(okL)
					st1.Sample("%s: %s = u%d(data[%d:%d]) (spec: offset %d, %d bits)", fnName, f.Name(), n, a, bb, want.off, want.bits)
					if !okL {
						c.ReportAt("R13.1", fn, in.Pos(), label+":"+f.Name()+":offset", fmt.Sprintf("%s is read as %d bits at byte %d; the published %s layout places it at byte %d with %d bits", f.Name(), n, a, label, want.off, want.bits))
					}
					continue
				}
				// flag bits: (flags & (1<<k)) != 0 with flags = read of code_properties
				if bit, want := codePropertyBits[f.Name()]; want || bit == 0 {
					if _, isFlag := codePropertyBits[f.Name()]; !isFlag {
						continue
					}
					pv := lp.Of(s.Val)
					m := regexp.MustCompile(`&(\d+)\)!=0\)$`).FindStringSubmatch(pv)
					if m == nil {
						continue // constant assignment (V5 policy), judged elsewhere
					}
					st1.Instances++
					var mask int64
					fmt.Sscan(m[1], &mask)
					okB := mask == int64(1)<<uint(codePropertyBits[f.Name()])
					st1.Ob(okB)
					if !okB {
						c.ReportAt("R13.1", fn, in.Pos(), label+":"+f.Name()+":bit", fmt.Sprintf("%s tests mask %#x of the code properties; the published bit is %d", f.Name(), mask, codePropertyBits[f.Name()]))
					}
					// the flags word itself
					if bo, ok := core.StripConv(s.Val).(*ssa.BinOp); ok {
						if and, ok := bo.X.(*ssa.BinOp); ok {
							if a, bb, n, ok := readOf(and.X); ok {
								want := layout["#code_properties"]
								okF := a == want.off && n == want.bits && bb-a == n/8
								st1.Ob(okF)
								if !okF {
									c.ReportAt("R13.1", fn, in.Pos(), label+":code_properties:offset", fmt.Sprintf("the code-properties word is read as %d bits at byte %d; published offset %d", n, a, want.off))
								}
							}
						}
					}
				}
			}
		}
		for name := range layout {
			if strings.HasPrefix(name, "#") {
				continue
			}
			if !seen[name] {
				st1.Instances++
				st1.Ob(false)
				c.ReportAt("R13.1", fn, fn.Pos(), label+":"+name+":not-read", "the parser no longer reads "+name+" from the file: the loaded metadata does not reflect the file")
			}
		}
	}
	checkParser("parseV2V3Header", amdKernelCodeT, "amd_kernel_code_t")
	checkParser("parseV5KernelDescriptor", kernelDescriptorT, "kernel_descriptor_t")
	// the sniffer reads header fields at the published offsets and compares them with the documented constants
	if fn := c.MustFunc("R13.1", instsPkg, "isV2V3Header"); fn != nil {
		c.MarkAnalysed(fn)
		type snif struct {
			field string
			want  string
		}
		reads := map[string]bool{}
		for _, b := range fn.Blocks {
			for _, in := range b.Instrs {
				bo, ok := in.(*ssa.BinOp)
				if !ok {
					continue
				}
				bop, bx, by := cmpConstRight(bo)
				a, bb, n, ok := readOf(bx)
				if !ok {
					continue
				}
				st1.Instances++
				k, _ := core.ConstInt(by)
				var field string
				for name, lf := range amdKernelCodeT {
					if lf.off == a && lf.bits == n {
						field = name
					}
				}
				okF := field != "" && bb-a == n/8
				st1.Ob(okF)
				if !okF {
					c.ReportAt("R13.1", fn, in.Pos(), fmt.Sprintf("sniff:data[%d:%d]", a, bb), fmt.Sprintf("the header sniffer reads %d bits at byte %d, which is no field of amd_kernel_code_t", n, a))
					continue
				}
				reads[field] = true
				// documented signature values
				var okV bool
				switch field {
				case "CodeVersionMajor":
					okV = k == 1 && (bop == token.NEQ || bop == token.EQL)
				case "CodeVersionMinor":
					okV = (bop == token.GTR && k == 2) || (bop == token.LEQ && k == 2) || (bop == token.LSS && k == 3) || (bop == token.GEQ && k == 3)
				case "MachineKind":
					okV = k == 1
				case "MachineVersionMajor":
					okV = (bop == token.LSS && k == 7) || (bop == token.GTR && k == 9) || (bop == token.GEQ && k == 7) || (bop == token.LEQ && k == 9)
				case "KernelCodeEntryByteOffset":
					okV = k == 256
				default:
					okV = true
				}
				st1.Ob(okV)
				st1.Sample("isV2V3Header: %s %s %d", field, bop, k)
				if !okV {
					c.ReportAt("R13.1", fn, in.Pos(), "sniff:"+field+":value", fmt.Sprintf("the sniffer compares %s with %s %d, not with the documented signature value", field, bop, k))
				}
			}
		}
		for _, f := range []string{"CodeVersionMajor", "CodeVersionMinor", "MachineKind", "KernelCodeEntryByteOffset"} {
			st1.Instances++
			st1.Ob(reads[f])
			if !reads[f] {
				c.ReportAt("R13.1", fn, fn.Pos(), "sniff:"+f+":missing", "the header sniffer no longer checks "+f+": instruction bytes can be mistaken for a header and 256 bytes of code stripped")
			}
		}
		// returning true requires all tests to have passed: no `return true` reachable when any test fails
		g := core.BuildGraph(fn, 0, nil)
		for _, n := range g.Nodes {
			ifi, ok := n.Instr.(*ssa.If)
			if !ok {
				continue
			}
			// each if is a rejection test: its true edge must only reach `return false`
			st1.Instances++
			okR := true
			g.Walk([]core.State{{N: n.Succs[0]}}, core.WalkOpts{ForwardOnly: true}, func(s core.State) {
				if r, ok := s.N.Instr.(*ssa.Return); ok && s.N.Block == n.Succs[0].Block {
					if b, isC := core.ConstBool(r.Results[0]); !isC || b {
						okR = false
					}
				}
			})
			_ = ifi
			st1.Ob(okR)
			if !okR {
				c.ReportAt("R13.1", fn, n.Instr.Pos(), "sniff:reject-path", "a failed signature test does not lead to `return false`")
			}
		}
	}
	// V5 register counts derived from compute_pgm_rsrc1 granulated fields
	if fn := c.SSAFunc(instsPkg, "parseV5KernelDescriptor"); fn != nil {
		for _, b := range fn.Blocks {
			for _, in := range b.Instrs {
				s, ok := in.(*ssa.Store)
				if !ok {
					continue
				}
				f := core.FieldOfAddr(s.Addr)
				if f == nil {
					continue
				}
				spec, isCnt := map[string][3]int64{"WIVgprCount": {0, 5, 4}, "WFSgprCount": {6, 9, 8}}[f.Name()]
				if !isCnt {
					continue
				}
				st1.Instances++
				ok2 := false
				if mul, ok := core.StripConv(s.Val).(*ssa.BinOp); ok && mul.Op == token.MUL {
					if k, isC := core.ConstInt(mul.Y); isC && k == spec[2] {
						if add, ok := mul.X.(*ssa.BinOp); ok && add.Op == token.ADD {
							if one, isC := core.ConstInt(add.Y); isC && one == 1 {
								if call, ok := add.X.(*ssa.Call); ok && call.Call.StaticCallee() != nil && call.Call.StaticCallee().Name() == "extractBits" {
									lo, _ := core.ConstInt(call.Call.Args[1])
									hi, _ := core.ConstInt(call.Call.Args[2])
									src := core.LoadedField(call.Call.Args[0])
									ok2 = lo == spec[0] && hi == spec[1] && src != nil && src.Name() == "ComputePgmRsrc1"
								}
							}
						}
					}
				}
				st1.Ob(ok2)
				st1.Sample("parseV5KernelDescriptor: %s = (rsrc1[%d:%d]+1)*%d: %v", f.Name(), spec[0], spec[1], spec[2], ok2)
				if !ok2 {
					c.ReportAt("R13.1", fn, in.Pos(), "kernel_descriptor_t:"+f.Name()+":granulated", fmt.Sprintf("%s is not (compute_pgm_rsrc1[%d:%d] + 1) * %d as the descriptor format defines", f.Name(), spec[0], spec[1], spec[2]))
				}
			}
		}
	}

	// ---------------- R13.2 bounds ----------------
	st2 := c.Rule("R13.2", "a parser is called only with at least as many bytes as the largest constant index it uses (256 for the header, 64 for the descriptor)", 3)
	maxIdx := func(fn *ssa.Function) int64 {
		var m int64
		for _, b := range fn.Blocks {
			for _, in := range b.Instrs {
				if sl, ok := in.(*ssa.Slice); ok {
					for _, v := range []ssa.Value{sl.Low, sl.High} {
						if v != nil {
							if k, ok := core.ConstInt(v); ok && k > m {
								m = k
							}
						}
					}
				}
			}
		}
		return m
	}
	for _, spec := range []struct {
		name  string
		bytes int64
	}{{"parseV2V3Header", 256}, {"parseV5KernelDescriptor", 64}, {"isV2V3Header", 256}} {
		fn := c.SSAFunc(instsPkg, spec.name)
		if fn == nil {
			continue
		}
		st2.Instances++
		m := maxIdx(fn)
		ok := m <= spec.bytes
		st2.Ob(ok)
		st2.Sample("%s uses bytes up to %d of %d", spec.name, m, spec.bytes)
		if !ok {
			c.ReportAt("R13.2", fn, fn.Pos(), spec.name+":max-index", fmt.Sprintf("%s reads up to byte %d but callers only establish %d bytes", spec.name, m, spec.bytes))
		}
	}
	// call-site guards
	n2, ung2 := pi.GuardedUp(func(in ssa.Instruction) bool { return callsFunc(in, pi.Pkg, "parseV2V3Header") },
		AnyCut(CmpCut(func(_ *core.Node, op token.Token, x, y ssa.Value) int {
			if !isLenOf(x, nil) {
				return 0
			}
			k, isC := core.ConstInt(y)
			if !isC || k < 256 {
				return 0
			}
			switch op {
			case token.GEQ:
				return 1
			case token.LSS:
				return -1
			}
			return 0
		}), boolCut(func(_ *core.Node, v ssa.Value) bool {
			call, ok := v.(*ssa.Call)
			return ok && call.Call.StaticCallee() != nil && call.Call.StaticCallee().Name() == "isV2V3Header"
		}, true)))
	st2.Instances += n2
	for i := 0; i < n2-len(ung2); i++ {
		st2.Ob(true)
	}
	for _, u := range ung2 {
		st2.Ob(false)
		c.ReportAt("R13.2", u.Target.Fn(), u.Target.Instr.Pos(), "parseV2V3Header:guard", "the header parser is called on a path that neither tested len(data) >= 256 nor found isV2V3Header true")
	}
	if fn := c.SSAFunc(instsPkg, "isV2V3Header"); fn != nil {
		// the sniffer itself rejects short data first
		g := core.BuildGraph(fn, 0, nil)
		st2.Instances++
		ok := true
		for _, n := range g.Nodes {
			if _, isSl := n.Instr.(*ssa.Slice); isSl {
				if !g.Guarded(n, CmpCut(func(_ *core.Node, op token.Token, x, y ssa.Value) int {
					if !isLenOf(x, nil) {
						return 0
					}
					k, isC := core.ConstInt(y)
					if !isC || k < 24 {
						return 0
					}
					switch op {
					case token.LSS:
						return -1
					case token.GEQ:
						return 1
					}
					return 0
				})) {
					ok = false
				}
			}
		}
		st2.Ob(ok)
		if !ok {
			c.ReportAt("R13.2", fn, fn.Pos(), "isV2V3Header:length-test", "the header sniffer slices the data before testing its length")
		}
	}
	if fn := c.SSAFunc(instsPkg, "findV5KernelDescriptor"); fn != nil {
		for _, b := range fn.Blocks {
			for _, in := range b.Instrs {
				if !callsFunc(in, pi.Pkg, "parseV5KernelDescriptor") {
					continue
				}
				st2.Instances++
				arg := lp.Of(core.CallOf(in).Args[0])
				m := regexp.MustCompile(`^param:rodataSectionData\[(.*):\((.*)\+64\)\]$`).FindStringSubmatch(arg)
				ok := m != nil && m[1] == m[2] && core.ProvMatch(regexp.MustCompile(`\.Value-param:rodataSection\.Addr\)$`), m[1])
				st2.Ob(ok)
				st2.Sample("findV5KernelDescriptor: parseV5KernelDescriptor(%s)", short(arg))
				if !ok {
					c.ReportAt("R13.2", fn, in.Pos(), "descriptor:slice", "the descriptor passed to the parser is not the 64 bytes of .rodata at (symbol value - section address): "+short(arg))
				}
				g := core.BuildGraph(fn, 0, nil)
				for _, n := range g.Nodes {
					if n.Instr != in {
						continue
					}
					okG := g.Guarded(n, CmpCut(func(_ *core.Node, op token.Token, x, y ssa.Value) int {
						if strings.HasSuffix(lp.Of(x), "+64)") && strings.HasPrefix(lp.Of(y), "len(param:rodataSectionData)") && op == token.LEQ {
							return 1
						}
						return 0
					}))
					st2.Ob(okG)
					if !okG {
						c.ReportAt("R13.2", fn, in.Pos(), "descriptor:bounds", "the descriptor is sliced without testing offset+64 <= len(.rodata)")
					}
					// matched by name + ".kd", size 64, in .rodata
					for what, cut := range map[string]EdgeCut{
						"symbol name == kernel name + \".kd\"": CmpCut(func(_ *core.Node, op token.Token, x, y ssa.Value) int {
							px, py := lp.Of(x), lp.Of(y)
							if strings.HasSuffix(px, ".Name") && py == `(param:kernelName+".kd")` && op == token.EQL {
								return 1
							}
							return 0
						}),
						"symbol size == 64": CmpCut(func(_ *core.Node, op token.Token, x, y ssa.Value) int {
							k, isC := core.ConstInt(y)
							if strings.HasSuffix(lp.Of(x), ".Size") && isC && k == 64 && op == token.EQL {
								return 1
							}
							return 0
						}),
					} {
						st2.Instances++
						okC := g.Guarded(n, cut)
						st2.Ob(okC)
						if !okC {
							c.ReportAt("R13.2", fn, in.Pos(), "descriptor:"+strings.Fields(what)[1], "the descriptor is parsed on a path that did not establish: "+what)
						}
					}
				}
			}
		}
	}

	// ---------------- R13.4 symbols are selected by their exact name ----------------
	st4 := c.Rule("R13.4", "in every function of the loader that is given the kernel's name, a symbol's name is used only in equality comparisons with that name or with that name plus a constant suffix; prefix / suffix / substring matching would also select the symbols of other kernels in the file, and the result would depend on them", 4)
	for _, fn := range pi.Funcs {
		var kname *ssa.Parameter
		for _, prm := range fn.Params {
			if core.PinnedName(fn, prm.Name()) == "kernelName" {
				kname = prm
			}
		}
		if kname == nil {
			continue
		}
		for _, b := range fn.Blocks {
			for _, in := range b.Instrs {
				// loads of elf.Symbol.Name
				v, ok := in.(ssa.Value)
				if !ok {
					continue
				}
				f := core.LoadedField(v)
				if fl, isF := in.(*ssa.Field); isF {
					f = fieldOfStruct(fl.X.Type(), fl.Field)
				}
				if f == nil || f.Name() != "Name" || !strings.HasSuffix(namedTypeName(f.Type()), "string") {
					continue
				}
				if owner := fieldOwner(v); owner != "elf.Symbol" {
					continue
				}
				refs := v.Referrers()
				if refs == nil {
					continue
				}
				for _, r := range *refs {
					st4.Instances++
					c.MarkAnalysed(fn)
					okUse := false
					why := core.InstrString(r)
					switch t := r.(type) {
					case *ssa.BinOp:
						if t.Op == token.EQL || t.Op == token.NEQ {
							other := t.X
							if other == v {
								other = t.Y
							}
							pv := lp.Of(other)
							okUse = strings.Contains(pv, "param:kernelName") || pv == `""`
							why = "compared with " + short(pv)
						}
					case *ssa.Store, *ssa.Phi, *ssa.MakeInterface, *ssa.DebugRef:
						okUse = true // kept / printed, not a selection
					case *ssa.Call:
						if cf := core.CalleeFunc(t); cf != nil && cf.Pkg() != nil && (cf.Pkg().Path() == "log" || cf.Pkg().Path() == "fmt") {
							okUse = true
						}
					}
					st4.Ob(okUse)
					st4.Sample("%s: symbol name %s", core.FuncName(fn), why)
					if !okUse {
						c.ReportAt("R13.4", fn, r.Pos(), "symbol-name:inexact-match", "a symbol's name is "+why+" instead of being compared for equality with the requested kernel's name (plus a constant suffix): symbols of other kernels whose names share a prefix or suffix are selected too, so the loaded metadata depends on the other kernels in the file")
					}
				}
			}
		}
	}

	// ---------------- R13.3 precedence & R13.4 selection ----------------
	st3 := c.Rule("R13.3", "in the symbol path the header sniffing fallback is reachable only where no V5 descriptor was found; 256 bytes are stripped only where isV2V3Header held; the kernel bytes are exactly the symbol's range of .text; the object returned for a name is built from the symbol with that name only", 6)
	if fn := c.MustFunc("R13.3", instsPkg, "loadKernelCodeObjectFromELF"); fn != nil {
		c.MarkAnalysed(fn)
		g := core.BuildGraph(fn, 0, nil)
		var v5call ssa.Value
		for _, n := range g.Nodes {
			if callsFunc(n.Instr, pi.Pkg, "findV5KernelDescriptor") {
				v5call = n.Instr.(ssa.Value)
			}
		}
		st3.Instances++
		st3.Ob(v5call != nil)
		if v5call == nil {
			c.ReportAt("R13.3", fn, fn.Pos(), "v5-lookup-missing", "the loader no longer looks for a V5 kernel descriptor")
		}
		nameEq := CmpCut(func(_ *core.Node, op token.Token, x, y ssa.Value) int {
			px, py := lp.Of(x), lp.Of(y)
			if strings.HasSuffix(px, ".Name") && (py == "param:kernelName" || strings.Contains(py, "param:kernelName")) && op == token.EQL {
				return 1
			}
			return 0
		})
		for _, n := range g.Nodes {
			if !callsFunc(n.Instr, pi.Pkg, "newKernelCodeObjectFromEntireTextSection") {
				continue
			}
			arg := lp.Of(core.CallOf(n.Instr).Args[0])
			if !strings.Contains(arg, ".Size") {
				continue // whole-section fallbacks (no symbols)
			}
			st3.Instances++
			ok := v5call != nil && g.Guarded(n, NilCut(func(v ssa.Value) bool { return v == v5call }, true))
			st3.Ob(ok)
			if !ok {
				c.ReportAt("R13.3", fn, n.Instr.Pos(), "fallback-before-v5", "header sniffing of the kernel's bytes is reachable without the V5 descriptor lookup having failed: instruction bytes that mimic a header lose their first 256 bytes")
			}
			okN := g.Guarded(n, nameEq)
			st3.Ob(okN)
			if !okN {
				c.ReportAt("R13.3", fn, n.Instr.Pos(), "fallback:name", "a kernel object is built from a symbol without comparing its name with the requested kernel name")
			}
		}
		// kernel bytes
		for _, n := range g.Nodes {
			sl, ok := n.Instr.(*ssa.Slice)
			if !ok {
				continue
			}
			pv := lp.Of(sl)
			if !strings.Contains(pv, `Section(".text").Data()[`) {
				continue
			}
			st3.Instances++
			m := core.ProvFind(regexp.MustCompile(`\.Data\(\)\[\((.*)\.Value-(.*)\.Addr\):\(\((.*)\.Value-(.*)\.Addr\)\+(.*)\.Size\)\]$`), pv)
			ok2 := m != nil && m[1] == m[3] && m[1] == m[5] && m[2] == m[4] && strings.HasSuffix(m[2], `Section(".text")`)
			st3.Ob(ok2)
			st3.Sample("loader: kernel bytes = %s", short(pv))
			if !ok2 {
				c.ReportAt("R13.3", fn, sl.Pos(), "kernel-bytes", "the kernel's bytes are not text[sym.Value - text.Addr : that + sym.Size] of one symbol: "+short(pv))
			}
			okN := g.Guarded(n, nameEq)
			st3.Ob(okN)
			if !okN {
				c.ReportAt("R13.3", fn, sl.Pos(), "kernel-bytes:name", "kernel bytes are extracted for a symbol whose name was not compared with the requested name")
			}
		}
		// V5 path stores
		for _, n := range g.Nodes {
			s, ok := storeToField(n.Instr, "KernelCodeObject.KernelCodeObjectMeta")
			if !ok || s.Val != v5call {
				continue
			}
			st3.Instances++
			okG := g.Guarded(n, NilCut(func(v ssa.Value) bool { return v == v5call }, false))
			st3.Ob(okG)
			if !okG {
				c.ReportAt("R13.3", fn, s.Pos(), "v5-meta:guard", "V5 metadata is installed without testing that a descriptor was found")
			}
		}
	}
	if fn := c.MustFunc("R13.3", instsPkg, "newKernelCodeObjectFromEntireTextSection"); fn != nil {
		g := core.BuildGraph(fn, 0, nil)
		isHdr := boolCut(func(_ *core.Node, v ssa.Value) bool {
			call, ok := v.(*ssa.Call)
			return ok && call.Call.StaticCallee() != nil && call.Call.StaticCallee().Name() == "isV2V3Header"
		}, true)
		for _, n := range g.Nodes {
			sl, ok := n.Instr.(*ssa.Slice)
			if !ok || sl.Low == nil {
				continue
			}
			k, _ := core.ConstInt(sl.Low)
			st3.Instances++
			okS := k == 256 && g.Guarded(n, isHdr)
			st3.Ob(okS)
			st3.Sample("newKernelCodeObjectFromEntireTextSection: data[%d:] guarded by isV2V3Header: %v", k, okS)
			if !okS {
				c.ReportAt("R13.3", fn, sl.Pos(), "strip:guard", fmt.Sprintf("data[%d:] is taken on a path that did not find a genuine V2/V3 header (or strips a different amount than the 256-byte header)", k))
			}
		}
		// the non-header branch keeps all bytes
		for _, n := range g.Nodes {
			if s, ok := storeToField(n.Instr, "KernelCodeObject.Data"); ok {
				st3.Instances++
				pv := lp.Of(s.Val)
				ok2 := pv == "param:data" || pv == "param:data[256:]"
				st3.Ob(ok2)
				if !ok2 {
					c.ReportAt("R13.3", fn, s.Pos(), "data:store", "the instruction bytes are "+short(pv)+", neither the whole data nor data[256:]")
				}
			}
		}
	}

	// ---------------- R13.5 the entry offset is relative to the bytes handed out ----------------
	// ---------------- R13.6 lookups use the resolved kernel name ----------------
	st6 := c.Rule("R13.6", "LoadKernelCodeObject accepts an empty kernel name and then takes the only kernel of the file: in the loader, once the name parameter is merged with the auto-detected name (a phi of the parameter and the detected symbol name), every call that receives a kernel name receives the merged value, never the raw parameter: a descriptor or register-count symbol looked up under the empty name is not found, and a V5 kernel loaded without a name comes back with all-zero metadata (or is taken for a V2/V3 object)", 1)
	for _, fn := range c.SrcFuncs(instsPkg) {
		for _, prm := range fn.Params {
			if bt, ok := prm.Type().Underlying().(*types.Basic); !ok || bt.Kind() != types.String {
				continue
			}
			refs := prm.Referrers()
			if refs == nil {
				continue
			}
			merged := false
			for _, r := range *refs {
				if phi, ok := r.(*ssa.Phi); ok {
					for _, e := range phi.Edges {
						if e != ssa.Value(prm) {
							if _, isConst := e.(*ssa.Const); !isConst {
								merged = true
							}
						}
					}
				}
			}
			if !merged {
				continue
			}
			st6.Instances++
			c.MarkAnalysed(fn)
			var bad ssa.Instruction
			for _, r := range *refs {
				call, ok := r.(*ssa.Call)
				if !ok {
					continue
				}
				cal := call.Call.StaticCallee()
				if cal == nil || cal.Pkg != fn.Pkg {
					continue // string helpers of the library (comparisons, formatting) do not look anything up
				}
				if bad == nil || r.Pos() < bad.Pos() {
					bad = r
				}
			}
			st6.Ob(bad == nil)
			st6.Sample("%s: parameter %s is merged with a detected name; raw uses in lookups: %v", core.FuncName(fn), core.PinnedName(fn, prm.Name()), bad != nil)
			if bad != nil {
				c.ReportAt("R13.6", fn, bad.Pos(), "lookup-with-unresolved-name:"+core.FuncName(fn), core.FuncName(fn)+" passes its name parameter to "+core.InstrString(bad)+" although the name is only resolved later (empty name = the file's only kernel): for an empty name the lookup fails and the kernel's metadata stays zero")
			}
		}
	}

	st5 := c.Rule("R13.5", "consumers start a wavefront at (device address of Data) + KernelCodeEntryByteOffset; both parsers take the offset from the file (V2/V3: relative to the 256-byte header, which is stripped from Data; V5: relative to the descriptor's own address in .rodata), so every function that builds a code object from parsed metadata and sets Data to the kernel's instructions also stores KernelCodeEntryByteOffset = 0 on that path (must-pass between the parser call and the return of the object)", 2)
	for _, fname := range []string{"newKernelCodeObjectFromEntireTextSection", "loadKernelCodeObjectFromELF"} {
		fn := c.MustFunc("R13.5", instsPkg, fname)
		if fn == nil {
			continue
		}
		c.MarkAnalysed(fn)
		g := core.BuildGraph(fn, 0, nil)
		isReset := func(n *core.Node) bool {
			s, ok := n.Instr.(*ssa.Store)
			if !ok {
				return false
			}
			fa, ok := s.Addr.(*ssa.FieldAddr)
			if !ok || fieldNameOf(fa) != "KernelCodeEntryByteOffset" {
				return false
			}
			k, isC := core.ConstInt(s.Val)
			return isC && k == 0
		}
		for _, n := range g.Nodes {
			cc := core.CallOf(n.Instr)
			if cc == nil || cc.StaticCallee() == nil {
				continue
			}
			name := cc.StaticCallee().Name()
			if name != "parseV2V3Header" && name != "findV5KernelDescriptor" && name != "parseV5KernelDescriptor" {
				continue
			}
			st5.Instances++
			// from the parser call, every path to a return of a non-nil object passes a reset
			leak := false
			start := core.After(n, nil)
			if v, isV := n.Instr.(ssa.Value); isV && name == "findV5KernelDescriptor" {
				start = core.After(n, core.FactFor(n, v, 1)) // a descriptor was found
			}
			g.Walk(start, core.WalkOpts{ForwardOnly: true, Stop: isReset}, func(x core.State) {
				if r, ok := x.N.Instr.(*ssa.Return); ok && len(r.Results) == 1 && !core.IsNilConst(r.Results[0]) {
					// the fallback object without parsed metadata is not concerned
					if name == "findV5KernelDescriptor" {
						if call, isCall := r.Results[0].(*ssa.Call); isCall && call.Call.StaticCallee() != nil && call.Call.StaticCallee().Name() == "newKernelCodeObjectFromEntireTextSection" {
							return
						}
						if core.EvalFact(x.N, n.Instr.(ssa.Value), x.F) <= 0 {
							return
						}
					}
					leak = true
				}
			})
			st5.Ob(!leak)
			st5.Sample("%s: entry offset reset to 0 after %s on every path that returns the object: %v", fname, name, !leak)
			if leak {
				c.ReportAt("R13.5", fn, n.Instr.Pos(), "entry-offset-not-rebased:"+name, fname+" returns a code object whose KernelCodeEntryByteOffset still holds the value "+name+" read from the file, although Data starts at the kernel's first instruction: for a linked code object the V5 value is the distance from the descriptor in .rodata to the code (e.g. 0x10c0), and the first wavefront starts that many bytes past the kernel")
			}
		}
	}

	checkRaiseOnlyUpdates(c)
	checkDynamicLDSPlacement(c)
	checkRsrcAccessors(c)

	checkIntegerWidths(c, "R13.12", "Fields of the code object are compared and used at their stored width.", 5, []widthScope{{rel: instsPkg, filter: inFile(c, "hsaco.go")}}, []string{"narrow", "widen-wrapped", "sign-extend"}, widthAllowC13)
	checkBoundTestedOnIndexedSlice(c, "R13.13", 1, NewPkgInfo(c, instsPkg), inFile(c, "hsaco.go"))
	checkRoundedCountsAreRegisters(c)
	checkScanNotLeftByBreak(c, "R13.15", "loadKernelCodeObjectFromELF looks at every symbol of the table when it collects the kernels: the walk is not left by a break. Stopped at the first undefined symbol, the kernels behind it are not found - what is loaded then depends on unrelated symbols and their order", instsPkg, "loadKernelCodeObjectFromELF", "Symbols()")
	return core.Meta{Level: "other",
		Explanation: "Loading decided against an external oracle, the published amd_kernel_code_t and kernel_descriptor_t layouts transcribed as offset/width tables: every metadata read of both parsers and of the header sniffer is compared with its table row (offset, width, slice width, flag bit), bounds of the parsers against what their callers establish, precedence of the V5 descriptor over header sniffing, stripping only under a positive sniff, kernel bytes = the named symbol's range of .text, descriptor selected by name+\".kd\", size 64, inside .rodata.",
		NotDecided:  "ELF parsing (debug/elf), the rounding arithmetic of the register-count override from metadata symbols (which field is raised from which symbol, and against which field it is compared, is decided by R13.7), the V5 policy overrides of rsrc2 and SGPR enables",
		Assumptions: append([]string{"the transcribed layouts follow the LLVM AMDGPU usage document (amd_kernel_code_t; kernel_descriptor_t with compute_pgm_rsrc3/1/2 at bytes 44/48/52 and kernel_code_properties at 56)"}, commonAssumptions...)}
}

// fieldOfStruct: the i-th field of a (pointer to) struct type.
func fieldOfStruct(t types.Type, i int) *types.Var {
	if p, ok := t.Underlying().(*types.Pointer); ok {
		t = p.Elem()
	}
	if st, ok := t.Underlying().(*types.Struct); ok && i < st.NumFields() {
		return st.Field(i)
	}
	return nil
}

// fieldOwner: "pkg.Type" of the struct a field value was taken from.
func fieldOwner(v ssa.Value) string {
	switch t := v.(type) {
	case *ssa.Field:
		return namedTypeName(t.X.Type())
	case *ssa.UnOp:
		if fa, ok := t.X.(*ssa.FieldAddr); ok {
			return namedTypeName(fa.X.Type())
		}
	}
	return ""
}

// checkRaiseOnlyUpdates (R13.7): the metadata symbols <kernel>.numbered_sgpr / <kernel>.num_vgpr
// raise the register counts of the descriptor; the loaded count is max(descriptor, symbol).
// A raise-only update `if v > m.F { m.F = v }` has to compare with the field it stores, and the
// field has to be the one the symbol names.
func checkRaiseOnlyUpdates(c *core.Ctx) {
	st := c.Rule("R13.7", "the metadata symbols raise the register counts the descriptor gives (loaded count = max(descriptor count, rounded symbol count), independent of the other count and of the symbol order): in the loader, every store of a value v to a metadata field that is guarded by an ordering comparison of v with a metadata field compares with the field that is stored; the store under the arm of <kernel>.numbered_sgpr goes to WFSgprCount and the one under <kernel>.num_vgpr to WIVgprCount", 2)
	pi := NewPkgInfo(c, instsPkg)
	if pi.Pkg == nil {
		return
	}
	wantField := map[string]string{".numbered_sgpr": "WFSgprCount", ".num_vgpr": "WIVgprCount"}
	armOf := func(g *core.Graph, fn *ssa.Function, sto *ssa.Store, sfa *ssa.FieldAddr) {
		n := g.NodeOf(sto)
		if n == nil {
			return
		}
		for suffix, want := range wantField {
			suffix := suffix
			cut := CmpCut(func(_ *core.Node, op token.Token, x, y ssa.Value) int {
				if op != token.EQL {
					return 0
				}
				for _, z := range []ssa.Value{x, y} {
					if add, ok := z.(*ssa.BinOp); ok && add.Op == token.ADD {
						if k, ok := add.Y.(*ssa.Const); ok && k.Value != nil && k.Value.Kind() == constant.String && constant.StringVal(k.Value) == suffix {
							return 1
						}
					}
				}
				return 0
			})
			if !g.Guarded(n, cut) {
				continue
			}
			okF := fieldNameOf(sfa) == want
			st.Ob(okF)
			st.Sample("%s: under the arm of <kernel>%s the store goes to %s", core.FuncName(fn), suffix, fieldNameOf(sfa))
			if !okF {
				c.ReportAt("R13.7", fn, sto.Pos(), "symbol-arm:"+suffix+":stores-"+fieldNameOf(sfa), core.FuncName(fn)+" raises "+fieldNameOf(sfa)+" from the symbol <kernel>"+suffix+", which names the other register file ("+want+")")
			}
		}
	}
	isMeta := func(fa *ssa.FieldAddr) bool {
		return strings.HasSuffix(namedTypeName(fa.X.Type()), "KernelCodeObjectMeta")
	}
	for _, fn := range pi.Funcs {
		var g *core.Graph
		// m.F = max(m.G, v)
		for _, b := range fn.Blocks {
			for _, in := range b.Instrs {
				sto, ok := in.(*ssa.Store)
				if !ok {
					continue
				}
				sfa, ok := sto.Addr.(*ssa.FieldAddr)
				if !ok || !isMeta(sfa) {
					continue
				}
				call, ok := sto.Val.(*ssa.Call)
				if !ok {
					continue
				}
				if bi, isB := call.Call.Value.(*ssa.Builtin); !isB || (bi.Name() != "max" && bi.Name() != "min") {
					continue
				}
				for _, a := range call.Call.Args {
					ld, ok := a.(*ssa.UnOp)
					if !ok || ld.Op != token.MUL {
						continue
					}
					cfa, ok := ld.X.(*ssa.FieldAddr)
					if !ok || !isMeta(cfa) || cfa.X != sfa.X {
						continue
					}
					st.Instances++
					c.MarkAnalysed(fn)
					same := sfa.Field == cfa.Field
					st.Ob(same)
					st.Sample("%s: %s = max(%s, ...)", core.FuncName(fn), fieldNameOf(sfa), fieldNameOf(cfa))
					if !same {
						c.ReportAt("R13.7", fn, sto.Pos(), "raise-only:"+fieldNameOf(sfa)+":compared-with-"+fieldNameOf(cfa), core.FuncName(fn)+" stores in "+fieldNameOf(sfa)+" the maximum of "+fieldNameOf(cfa)+" and the count from the metadata symbol: the loaded count depends on a different register count")
					}
					if g == nil {
						g = core.BuildGraph(fn, 0, nil)
					}
					armOf(g, fn, sto, sfa)
				}
			}
		}
		for _, b := range fn.Blocks {
			iff, ok := b.Instrs[len(b.Instrs)-1].(*ssa.If)
			if !ok {
				continue
			}
			cmp, ok := iff.Cond.(*ssa.BinOp)
			if !ok {
				continue
			}
			switch cmp.Op {
			case token.GTR, token.LSS, token.GEQ, token.LEQ:
			default:
				continue
			}
			for _, side := range [][2]ssa.Value{{cmp.X, cmp.Y}, {cmp.Y, cmp.X}} {
				v, other := side[0], side[1]
				ld, ok := other.(*ssa.UnOp)
				if !ok || ld.Op != token.MUL {
					continue
				}
				cfa, ok := ld.X.(*ssa.FieldAddr)
				if !ok || !isMeta(cfa) {
					continue
				}
				if _, isConst := v.(*ssa.Const); isConst {
					continue
				}
				for _, succ := range b.Succs {
					if len(succ.Preds) != 1 {
						continue
					}
					for _, in := range succ.Instrs {
						sto, ok := in.(*ssa.Store)
						if !ok || sto.Val != v {
							continue
						}
						sfa, ok := sto.Addr.(*ssa.FieldAddr)
						if !ok || sfa.X != cfa.X {
							continue
						}
						st.Instances++
						c.MarkAnalysed(fn)
						same := sfa.Field == cfa.Field
						st.Ob(same)
						st.Sample("%s: %s is raised under a comparison with %s", core.FuncName(fn), fieldNameOf(sfa), fieldNameOf(cfa))
						if !same {
							c.ReportAt("R13.7", fn, cmp.Pos(), "raise-only:"+fieldNameOf(sfa)+":compared-with-"+fieldNameOf(cfa), core.FuncName(fn)+" stores "+fieldNameOf(sfa)+" under a comparison with "+fieldNameOf(cfa)+": whether the count from the metadata symbol is taken depends on a different register count (and, since that one is raised in the same loop, on the order of the symbols); a descriptor count that is too small is not corrected, or a larger one is lowered")
						}
						if g == nil {
							g = core.BuildGraph(fn, 0, nil)
						}
						armOf(g, fn, sto, sfa)
					}
				}
			}
		}
	}
}

// checkDynamicLDSPlacement (R13.8): the static LDS size of the loaded code object reaches the
// dispatch. The driver places the dynamically sized local buffers (LocalPtr arguments) behind the
// kernel's static LDS: the offsets it writes into the kernel arguments are a running sum that
// starts at KernelCodeObject.GroupSegmentByteSize, and the packet's GroupSegmentSize is that sum.
func checkDynamicLDSPlacement(c *core.Ctx) {
	st := c.Rule("R13.8", "the static LDS size stored in the file (KernelCodeObject.GroupSegmentByteSize) reaches the dispatch: in the driver, every offset written into a kernel argument with reflect.Value.SetUint (the LDS offset of a LocalPtr argument) is a running sum whose start value derives from GroupSegmentByteSize, and every store to HsaKernelDispatchPacket.GroupSegmentSize derives from it too. Offsets that start at 0 put the dynamic buffers on top of the kernel's static LDS variables", 2)
	pd := NewPkgInfo(c, driverPkg)
	if pd.Pkg == nil {
		return
	}
	derives := func(v ssa.Value) bool {
		seen := map[ssa.Value]bool{}
		var walk func(v ssa.Value, d int) bool
		walk = func(v ssa.Value, d int) bool {
			if v == nil || seen[v] || d > 10 {
				return false
			}
			seen[v] = true
			if f := core.LoadedField(v); f != nil && f.Name() == "GroupSegmentByteSize" {
				return true
			}
			switch x := v.(type) {
			case *ssa.Convert:
				return walk(x.X, d+1)
			case *ssa.ChangeType:
				return walk(x.X, d+1)
			case *ssa.BinOp:
				return walk(x.X, d+1) || walk(x.Y, d+1)
			case *ssa.Phi:
				for _, e := range x.Edges {
					if walk(e, d+1) {
						return true
					}
				}
			case *ssa.UnOp:
				// a local spilled to memory (captured or address-taken)
				if al, ok := x.X.(*ssa.Alloc); ok && x.Op == token.MUL && al.Referrers() != nil {
					for _, r := range *al.Referrers() {
						if sto, ok := r.(*ssa.Store); ok && sto.Addr == ssa.Value(al) && walk(sto.Val, d+1) {
							return true
						}
					}
				}
			}
			return false
		}
		return walk(v, 0)
	}
	for _, fn := range pd.Funcs {
		for _, b := range fn.Blocks {
			for _, in := range b.Instrs {
				switch x := in.(type) {
				case *ssa.Call:
					cal := x.Call.StaticCallee()
					if cal == nil || cal.Name() != "SetUint" || cal.Pkg == nil || cal.Pkg.Pkg.Path() != "reflect" {
						continue
					}
					st.Instances++
					c.MarkAnalysed(fn)
					ok := derives(x.Call.Args[len(x.Call.Args)-1])
					st.Ob(ok)
					st.Sample("%s: the offset written into a LocalPtr argument starts behind the static LDS: %v", core.FuncName(fn), ok)
					if !ok {
						c.ReportAt("R13.8", fn, x.Pos(), "lds-offset-ignores-static-size:"+core.FuncName(fn), core.FuncName(fn)+" writes into a kernel argument an LDS offset that does not depend on the code object's GroupSegmentByteSize: the first dynamic buffer is placed at offset 0, inside the kernel's static LDS region, for every kernel that has both static LDS and LocalPtr arguments")
					}
				case *ssa.Store:
					f := core.FieldOfAddr(x.Addr)
					if f == nil || f.Name() != "GroupSegmentSize" {
						continue
					}
					st.Instances++
					c.MarkAnalysed(fn)
					ok := derives(x.Val)
					st.Ob(ok)
					st.Sample("%s: the packet's GroupSegmentSize includes the static LDS size: %v", core.FuncName(fn), ok)
					if !ok {
						c.ReportAt("R13.8", fn, x.Pos(), "segment-size-ignores-static-size:"+core.FuncName(fn), core.FuncName(fn)+" stores a GroupSegmentSize that does not depend on the code object's GroupSegmentByteSize: the work-group is given less LDS than the kernel's static variables need")
					}
				}
			}
		}
	}
}

// rsrcFields: the fields of compute_pgm_rsrc1 / compute_pgm_rsrc2 that the metadata accessors
// return, with the bit range the LLVM AMDGPU usage document gives them (both code-object layouts
// use the same two words).
var rsrcFields = map[string]struct {
	word   string
	lo, hi int64
}{
	"WorkItemVgprCount":                      {"ComputePgmRsrc1", 0, 5},
	"WavefrontSgprCount":                     {"ComputePgmRsrc1", 6, 9},
	"Priority":                               {"ComputePgmRsrc1", 10, 11},
	"EnableSgprPrivateSegmentWaveByteOffset": {"ComputePgmRsrc2", 0, 0},
	"UserSgprCount":                          {"ComputePgmRsrc2", 1, 5},
	"EnableSgprWorkGroupIDX":                 {"ComputePgmRsrc2", 7, 7},
	"EnableSgprWorkGroupIDY":                 {"ComputePgmRsrc2", 8, 8},
	"EnableSgprWorkGroupIDZ":                 {"ComputePgmRsrc2", 9, 9},
	"EnableSgprWorkGroupInfo":                {"ComputePgmRsrc2", 10, 10},
	"EnableVgprWorkItemID":                   {"ComputePgmRsrc2", 11, 12},
	"EnableExceptionAddressWatch":            {"ComputePgmRsrc2", 13, 13},
	"EnableExceptionMemoryViolation":         {"ComputePgmRsrc2", 14, 14},
}

// checkRsrcAccessors (R13.9): the accessors of KernelCodeObjectMeta that decode the two resource
// words return the published bit range of the published word. The words themselves are loaded
// verbatim (R13.1); what the dispatchers and the emulator learn about enabled registers and
// work-item ids comes through these accessors.
func checkRsrcAccessors(c *core.Ctx) {
	st := c.Rule("R13.9", "the accessors of KernelCodeObjectMeta that decode compute_pgm_rsrc1 / compute_pgm_rsrc2 (register granules, user SGPR count, enabled work-group id SGPRs, enabled work-item id VGPRs, exception enables) extract the bit range the published layout gives the field from the word it lies in: each is a single extractBits(word, lo, hi) whose three arguments are compared with a transcribed table. A one-bit read of the two-bit enable_vgpr_workitem_id reports a kernel that uses get_local_id(2) as using X only; v1 and v2 are then never initialised", 10)
	for name, want := range rsrcFields {
		fn := c.SSAFunc(instsPkg, "KernelCodeObjectMeta."+name)
		if fn == nil {
			continue
		}
		st.Instances++
		c.MarkAnalysed(fn)
		found := false
		for _, b := range fn.Blocks {
			for _, in := range b.Instrs {
				call, ok := in.(*ssa.Call)
				if !ok || call.Call.StaticCallee() == nil || call.Call.StaticCallee().Name() != "extractBits" || len(call.Call.Args) != 3 {
					continue
				}
				found = true
				word := ""
				if f := core.LoadedField(call.Call.Args[0]); f != nil {
					word = f.Name()
				}
				lo, ok1 := core.ConstInt(call.Call.Args[1])
				hi, ok2 := core.ConstInt(call.Call.Args[2])
				ok = ok1 && ok2 && word == want.word && lo == want.lo && hi == want.hi
				st.Ob(ok)
				if !ok {
					c.ReportAt("R13.9", fn, call.Pos(), "rsrc-field:"+name, fmt.Sprintf("%s returns bits [%d:%d] of %s; the published layout has the field at bits [%d:%d] of %s", name, hi, lo, word, want.hi, want.lo, want.word))
				}
			}
		}
		if !found {
			// the field is decoded some other way (a mask constant and a shift, a helper of the
			// package): the accessor is interpreted on the bits of the two resource words
			// (BITPROV) and its result must be the published range in the low bits and zero above;
			// a boolean result must be the one published bit
			ev := &bpEval{}
			ev.load = func(ld *ssa.UnOp, fr *bpFrame) (pval, bool) {
				if f := core.LoadedField(ld); f != nil && (f.Name() == "ComputePgmRsrc1" || f.Name() == "ComputePgmRsrc2") {
					return pSym(f.Name(), 32), true
				}
				return pval{}, false
			}
			got := ev.Call(fn, []pval{{}})
			ok := false
			switch got.kind {
			case pVec:
				ok = true
				for i := 0; i < 64; i++ {
					wantB := pbit{k: '0'}
					if int64(i) <= want.hi-want.lo {
						wantB = pbit{k: 's', src: want.word, i: int(want.lo) + i}
					}
					g := got.bits[i]
					if g.k == 0 {
						g = pbit{k: '0'}
					}
					if g != wantB {
						ok = false
					}
				}
			case pBool:
				ok = want.lo == want.hi && got.bits[0] == pbit{k: 's', src: want.word, i: int(want.lo)}
			}
			st.Ob(ok)
			if !ok {
				if got.kind == pUnknown {
					c.Undecided("R13.9", fn, fn.Pos(), "rsrc-field:"+name, name+" decodes its field neither with a single extractBits call nor by an expression that can be interpreted bit by bit ("+ev.why+"); it cannot be compared with the table")
				} else {
					c.ReportAt("R13.9", fn, fn.Pos(), "rsrc-field:"+name, fmt.Sprintf("%s returns %s; the published layout has the field at bits [%d:%d] of %s", name, got.render(32), want.hi, want.lo, want.word))
				}
			}
		}
	}
}
