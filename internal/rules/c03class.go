package rules

import (
	"fmt"
	"go/constant"
	"go/token"
	"go/types"
	"regexp"
	"sort"
	"strings"

	"golang.org/x/tools/go/ssa"

	"verif/internal/core"
)

// R03.43: v_cmp_class reports every class of the ISA's table.
//
// The class mask in SRC1 has one bit per IEEE class (0 signalling NaN, 1 quiet NaN, 2 -inf,
// 3 -normal, 4 -denormal, 5 -0, 6 +0, 7 +denormal, 8 +normal, 9 +inf). A handler decides the
// lane's bit from `mask & C`, where C is the class of the value: either one of a set of
// single-bit constants merged over the arms of the classification, or 1 << k inside a loop
// over the rows of a table. The rule collects, through the helpers the mask is passed to,
// every value that meets the mask in an AND and requires the ten bits to be covered: a class
// that no arm produces is never reported, whatever the program asks for.
var classNames = []string{"signalling NaN", "quiet NaN", "-infinity", "-normal", "-denormal", "-0", "+0", "+denormal", "+normal", "+infinity"}

func checkClassCoverage(c *core.Ctx, handlers []handlerRef) {
	st := c.Rule("R03.43", "v_cmp_class reports every class of the ISA's table: in each handler dispatched for a v_cmp(x)_class mnemonic (both encodings), the values that meet the class mask of SRC1 in an AND (single-bit constants merged over the arms of the classification, or 1 << k in a loop over a table of k rows; helpers that receive the mask are followed) cover the bits 0..9 - signalling and quiet NaN, infinities, normals, denormals and zeros of both signs. A class no arm produces is never reported: v_cmp_class_f32 with mask 1 (signalling NaN) is false for every input", 2)
	className := regexp.MustCompile(`^v_cmpx?_class_f(16|32|64)$`)
	seen := map[string]bool{}
	for _, h := range handlers {
		match := false
		for _, n := range h.insts {
			if className.MatchString(baseMnemonic(n)) {
				match = true
			}
		}
		key := h.alu.pkg + "." + h.name
		if !match || seen[key] {
			continue
		}
		seen[key] = true
		fn := c.SSAFunc(h.alu.pkg, h.alu.typ+"."+h.name)
		if fn == nil {
			continue
		}
		c.MarkAnalysed(fn)
		st.Instances++
		covered := map[int]bool{}
		sites := 0
		why := ""
		var scan func(f *ssa.Function, mask map[ssa.Value]bool, depth int)
		scan = func(f *ssa.Function, mask map[ssa.Value]bool, depth int) {
			// close the mask set over conversions and phis
			for changed := true; changed; {
				changed = false
				for _, b := range f.Blocks {
					for _, in := range b.Instrs {
						v, ok := in.(ssa.Value)
						if !ok || mask[v] {
							continue
						}
						switch x := in.(type) {
						case *ssa.Convert:
							if mask[x.X] {
								mask[v], changed = true, true
							}
						case *ssa.ChangeType:
							if mask[x.X] {
								mask[v], changed = true, true
							}
						case *ssa.Call:
							if isOperandRead(x, "Src1") {
								mask[v], changed = true, true
							}
						}
					}
				}
			}
			for _, b := range f.Blocks {
				for _, in := range b.Instrs {
					switch x := in.(type) {
					case *ssa.BinOp:
						if x.Op != token.AND {
							continue
						}
						var other ssa.Value
						if mask[x.X] {
							other = x.Y
						} else if mask[x.Y] {
							other = x.X
						} else {
							continue
						}
						sites++
						ks, w := classBitsOf(f, other)
						if w != "" {
							why = w
						}
						for _, k := range ks {
							covered[k] = true
						}
					case *ssa.Call:
						cal := x.Call.StaticCallee()
						if cal == nil || cal.Pkg != f.Pkg || depth >= 2 || len(cal.Blocks) == 0 {
							continue
						}
						sub := map[ssa.Value]bool{}
						for i, a := range x.Call.Args {
							if mask[a] && i < len(cal.Params) {
								sub[cal.Params[i]] = true
							}
						}
						if len(sub) > 0 {
							scan(cal, sub, depth+1)
						}
					}
				}
			}
		}
		scan(fn, map[ssa.Value]bool{}, 0)
		// the sign of a class is the sign bit: -0 and +0 are different classes, and an ordering
		// comparison of the value with 0 calls both non-negative
		{
			var ord *ssa.BinOp
			var visit func(f *ssa.Function, depth int, seenF map[*ssa.Function]bool)
			visit = func(f *ssa.Function, depth int, seenF map[*ssa.Function]bool) {
				if f == nil || seenF[f] || depth > 2 || len(f.Blocks) == 0 {
					return
				}
				seenF[f] = true
				for _, b := range f.Blocks {
					for _, in := range b.Instrs {
						switch x := in.(type) {
						case *ssa.BinOp:
							switch x.Op {
							case token.LSS, token.LEQ, token.GTR, token.GEQ:
								bt, isB := x.X.Type().Underlying().(*types.Basic)
								if !isB || bt.Info()&types.IsFloat == 0 {
									continue
								}
								for _, o := range []ssa.Value{x.X, x.Y} {
									if k, isC := o.(*ssa.Const); isC && k.Value != nil && constant.Sign(k.Value) == 0 && ord == nil {
										ord = x
									}
								}
							}
						case *ssa.Call:
							if cal := x.Call.StaticCallee(); cal != nil && cal.Pkg == f.Pkg {
								visit(cal, depth+1, seenF)
							}
						}
					}
				}
			}
			visit(fn, 0, map[*ssa.Function]bool{})
			st.Ob(ord == nil)
			if ord != nil {
				c.ReportAt("R03.43", ord.Parent(), ord.Pos(), "class-sign-by-comparison:"+h.name, core.FuncName(fn)+" ("+strings.Join(h.insts, ", ")+") decides the sign of a class with the float comparison "+ord.Op.String()+" 0: -0.0 is not below zero, so negative zero (0x80000000) is classified as +0 (class bit 6 instead of 5); the sign of a class is the sign bit (math.Signbit or bit 31)")
			}
		}
		var missing []string
		for k := 0; k < 10; k++ {
			if !covered[k] {
				missing = append(missing, fmt.Sprintf("%d (%s)", k, classNames[k]))
			}
		}
		switch {
		case sites == 0 || why != "":
			st.Ob(false)
			if why == "" {
				why = "no AND of the class mask (SRC1) with the value's class found"
			}
			c.Undecided("R03.43", fn, fn.Pos(), "class-coverage:"+h.name, core.FuncName(fn)+" ("+strings.Join(h.insts, ", ")+"): "+why)
		case len(missing) > 0:
			st.Ob(false)
			c.ReportAt("R03.43", fn, fn.Pos(), "class-not-reported:"+h.name, core.FuncName(fn)+" ("+strings.Join(h.insts, ", ")+") never reports class bit "+strings.Join(missing, ", ")+": no arm of its classification produces that bit, so a mask that asks for it is false for every input (the ISA's table has ten classes; the other encoding of the same instruction reports all of them)")
		default:
			st.Ob(true)
			st.Sample("%s (%s): the classification produces all ten class bits", core.FuncName(fn), strings.Join(h.insts, ", "))
		}
	}
}

// classBitsOf: the bit positions a value that meets the class mask can have.
func classBitsOf(fn *ssa.Function, v ssa.Value) ([]int, string) {
	set := map[int]bool{}
	why := ""
	seen := map[ssa.Value]bool{}
	var walk func(v ssa.Value)
	walk = func(v ssa.Value) {
		v = core.StripConv(v)
		if seen[v] {
			return
		}
		seen[v] = true
		switch x := v.(type) {
		case *ssa.Const:
			k, ok := core.ConstUint(x)
			if !ok {
				why = "a class value that is not an integer constant"
				return
			}
			for b := 0; b < 64; b++ {
				if k&(1<<uint(b)) != 0 {
					set[b] = true
				}
			}
		case *ssa.Phi:
			for _, e := range x.Edges {
				walk(e)
			}
		case *ssa.BinOp:
			switch x.Op {
			case token.OR:
				walk(x.X)
				walk(x.Y)
			case token.SHL:
				one, ok := core.ConstUint(core.StripConv(x.X))
				amount := core.StripConv(x.Y)
				// the loop counter itself (for k := 0; k < N; k++) or the range index (phi from -1, used as phi+1)
				start := int64(-1)
				if phi, isPhi := amount.(*ssa.Phi); isPhi {
					for _, e := range phi.Edges {
						if k, isC := core.ConstInt(e); isC {
							start = k
						}
					}
				} else if add, isAdd := amount.(*ssa.BinOp); isAdd && add.Op == token.ADD {
					if phi, isPhi := add.X.(*ssa.Phi); isPhi {
						if one, isC := core.ConstInt(add.Y); isC && one == 1 {
							for _, e := range phi.Edges {
								if k, isC := core.ConstInt(e); isC {
									start = k + 1
								}
							}
						}
					}
				}
				if !ok || one != 1 || start != 0 {
					why = "a shifted class value whose shift amount is not a loop counter that starts at 0"
					return
				}
				n := int64(-1)
				for _, b := range fn.Blocks {
					for _, in := range b.Instrs {
						cmp, ok := in.(*ssa.BinOp)
						if !ok || cmp.Op != token.LSS || core.StripConv(cmp.X) != amount {
							continue
						}
						if k, ok := core.ConstInt(cmp.Y); ok {
							n = k
						}
					}
				}
				if n < 0 || n > 64 {
					why = "the bound of the loop over the class table is not a constant"
					return
				}
				for b := 0; b < int(n); b++ {
					set[b] = true
				}
			default:
				why = "a class value computed by " + x.Op.String()
			}
		default:
			why = "a class value of unrecognised form (" + v.String() + ")"
		}
	}
	walk(v)
	var out []int
	for k := range set {
		out = append(out, k)
	}
	sort.Ints(out)
	return out, why
}

// checkImmediateArithmeticWide (R03.44 for the ALUs, R04.32 for the printer): SIMM16 is a 16-bit
// field; whatever is computed from it (a branch displacement simm16 * 4, s_addk / s_mulk) is
// computed after it was widened. An addition, subtraction, multiplication or left shift whose
// operands still have a 16-bit type wraps modulo 2^16: a branch further than 32 KiB lands 64 or
// 128 KiB off target.
func checkImmediateArithmeticWide(c *core.Ctx, rule string, pkgs []string, floor int, what string) {
	st := c.Rule(rule, "arithmetic on the 16-bit immediate is done after widening: every +, -, * and << that has a value derived from SIMM16 (ReadOperand(inst.SImm16) or SImm16.IntValue, through conversions, masks and one-argument helpers such as asInt16) as an operand has a result type wider than 16 bits. "+what, floor)
	var fromImm func(v ssa.Value, d int) bool
	fromImm = func(v ssa.Value, d int) bool {
		if v == nil || d > 8 {
			return false
		}
		switch x := v.(type) {
		case *ssa.Convert:
			return fromImm(x.X, d+1)
		case *ssa.ChangeType:
			return fromImm(x.X, d+1)
		case *ssa.BinOp:
			if x.Op == token.AND {
				return fromImm(x.X, d+1) || fromImm(x.Y, d+1)
			}
		case *ssa.Phi:
			for _, e := range x.Edges {
				if fromImm(e, d+1) {
					return true
				}
			}
		case *ssa.Call:
			if x.Call.IsInvoke() {
				return x.Call.Method.Name() == "ReadOperand" && len(x.Call.Args) > 0 && operandFieldName(x.Call.Args[0]) == "SImm16"
			}
			if len(x.Call.Args) == 1 {
				return fromImm(x.Call.Args[0], d+1)
			}
		case *ssa.UnOp:
			if x.Op == token.MUL {
				if fa, ok := x.X.(*ssa.FieldAddr); ok && fieldNameOf(fa) == "IntValue" {
					return operandFieldName(fa.X) == "SImm16"
				}
			}
		}
		return false
	}
	for _, rel := range pkgs {
		for _, fn := range c.SrcFuncs(rel) {
			for _, b := range fn.Blocks {
				for _, in := range b.Instrs {
					bo, ok := in.(*ssa.BinOp)
					if !ok {
						continue
					}
					switch bo.Op {
					case token.ADD, token.SUB, token.MUL, token.SHL:
					default:
						continue
					}
					if !fromImm(bo.X, 0) && !fromImm(bo.Y, 0) {
						continue
					}
					w, _, okW := typeWidth(bo.Type())
					if !okW {
						continue
					}
					st.Instances++
					c.MarkAnalysed(fn)
					ok = w > 16
					st.Ob(ok)
					st.Sample("%s: %s on a value derived from SIMM16 is computed in %d bits", core.FuncName(fn), bo.Op, w)
					if !ok {
						c.ReportAt(rule, fn, bo.Pos(), "imm16-arithmetic-in-16-bits:"+bo.Op.String(), fmt.Sprintf("%s computes %s on the 16-bit immediate in %d bits, before it is widened: the result wraps modulo 2^%d (simm16 * 4 of a branch further than 8191 dwords: 0x2000 jumps 32 KiB backwards, 0x4000 stays in place)", core.FuncName(fn), bo.Op, w, w))
					}
				}
			}
		}
	}
}

// checkLaneIndexBounded (R03.46): a lane index is one of 0..63. The lane argument of every operand
// access in the ALUs is a constant below 64, a loop counter of a loop bounded by 64, a value reduced
// by & 63 / % 64, a parameter (the caller's lane), or a merge of such values. A lane computed by a
// bit scan (bits.TrailingZeros64 of EXEC is 64 for EXEC = 0) is not a lane for every input: the ISA
// gives v_readfirstlane lane 0 when no lane is active, the register file has no lane 64.
func checkLaneIndexBounded(c *core.Ctx, pkgs []string) {
	st := c.Rule("R03.46", "every lane argument of an operand access in the two ALUs (ReadOperand / WriteOperand / ReadOperandBytes / WriteOperandBytes) is one of the 64 lanes for every input: a constant below 64, the counter of a loop that runs below 64, a value reduced by & 63 or % 64, a parameter, or a merge of such values. A lane taken from a bit scan (bits.TrailingZeros64(EXEC) is 64 when EXEC is 0) addresses a register that does not exist - v_readfirstlane with no active lane reads lane 0 by the ISA", 400)
	for _, rel := range pkgs {
		for _, fn := range c.SrcFuncs(rel) {
			for _, b := range fn.Blocks {
				for _, in := range b.Instrs {
					name, cc := stateMethod(in)
					switch name {
					case "ReadOperand", "WriteOperand", "ReadOperandBytes", "WriteOperandBytes":
					default:
						continue
					}
					st.Instances++
					c.MarkAnalysed(fn)
					why := ""
					seen := map[ssa.Value]bool{}
					var ok func(v ssa.Value, d int) bool
					ok = func(v ssa.Value, d int) bool {
						if seen[v] {
							return true
						}
						seen[v] = true
						if d > 10 {
							why = "the lane expression is too deep to classify"
							return false
						}
						switch x := v.(type) {
						case *ssa.Const:
							k, isC := core.ConstInt(x)
							if isC && k >= 0 && k < 64 {
								return true
							}
							why = "the lane is the constant " + x.String()
							return false
						case *ssa.Parameter:
							return true
						case *ssa.Convert:
							return ok(x.X, d+1)
						case *ssa.ChangeType:
							return ok(x.X, d+1)
						case *ssa.Phi:
							// a loop counter: one edge is phi + 1; the loop test bounds it
							for _, e := range x.Edges {
								if add, isAdd := e.(*ssa.BinOp); isAdd && add.Op == token.ADD && (add.X == ssa.Value(x) || add.Y == ssa.Value(x)) {
									continue
								}
								if !ok(e, d+1) {
									return false
								}
							}
							if l := analyseLoop(x); l != nil && l.why == "" {
								return true
							}
							// a merge of lanes (laneid := 0; if ... { laneid = i })
							isCounter := false
							for _, e := range x.Edges {
								if add, isAdd := e.(*ssa.BinOp); isAdd && add.Op == token.ADD && (add.X == ssa.Value(x) || add.Y == ssa.Value(x)) {
									isCounter = true
								}
							}
							if isCounter {
								why = "the lane is a counter of a loop whose bound is not recognised as 64"
								return false
							}
							return true
						case *ssa.BinOp:
							switch x.Op {
							case token.AND:
								if k, isC := core.ConstInt(x.Y); isC && k >= 0 && k <= 63 {
									return true
								}
								if k, isC := core.ConstInt(x.X); isC && k >= 0 && k <= 63 {
									return true
								}
							case token.REM:
								if k, isC := core.ConstInt(x.Y); isC && k > 0 && k <= 64 {
									return true
								}
							}
							why = "the lane is computed by " + x.Op.String() + " without a reduction below 64"
							return false
						case *ssa.Call:
							cal := x.Call.StaticCallee()
							n := "a call"
							if cal != nil {
								n = cal.Name()
								if cal.Pkg != nil {
									n = cal.Pkg.Pkg.Name() + "." + n
								}
							}
							why = "the lane is the result of " + n + ", which is not bounded below 64 (a bit scan of 0 gives 64)"
							return false
						}
						why = "the lane is " + v.String()
						return false
					}
					good := ok(cc.Args[1], 0)
					st.Ob(good)
					if !good {
						c.ReportAt("R03.46", fn, in.Pos(), "lane-not-bounded:"+core.FuncName(fn), core.FuncName(fn)+" accesses an operand at a lane that is not one of 0..63 for every input: "+why+". With EXEC = 0 v_readfirstlane_b32 reads lane 64 of the source register (the emulator's register file ends at lane 63; the ISA reads lane 0)")
					}
				}
			}
		}
	}
}

// checkInlineIntegerReadWhole (R03.48): an integer inline constant (-16..64) and the signed
// immediates the decoders carry as IntOperand (the CDNA3 SMEM offset) are read as the
// sign-extended 64-bit value, whatever the width of the operand slot: consumers of 32-bit
// operands truncate for themselves, consumers that add in 64 bits (scalar memory addresses,
// 64-bit ALU sources) rely on the extension. In the ReadOperand / ReadOperandBytes of both
// register stores every conversion on the way from Operand.IntValue to the result keeps 64 bits.
func checkInlineIntegerReadWhole(c *core.Ctx, pkgs []string) {
	st := c.Rule("R03.48", "in ReadOperand and ReadOperandBytes of both register stores (emulation and timing wavefront) the value of an integer operand reaches the result through conversions that keep all 64 bits (int -> uint64): no conversion of Operand.IntValue, or of a value converted from it, to a type narrower than 64 bits on any path. A dword-wide read (uint32) of a negative inline constant or immediate makes a 64-bit consumer - the address of an s_load with a negative offset, a 64-bit source -1 - see 0x00000000FFFFFFFF", 4)
	for _, rel := range pkgs {
		for _, fn := range c.SrcFuncs(rel) {
			if fn.Name() != "ReadOperand" && fn.Name() != "ReadOperandBytes" {
				continue
			}
			for _, b := range fn.Blocks {
				for _, in := range b.Instrs {
					ld, ok := in.(*ssa.UnOp)
					if !ok || ld.Op != token.MUL {
						continue
					}
					f := core.LoadedField(ld)
					if f == nil || f.Name() != "IntValue" {
						continue
					}
					st.Instances++
					c.MarkAnalysed(fn)
					var bad ssa.Instruction
					seen := map[ssa.Value]bool{}
					var walk func(v ssa.Value, d int)
					walk = func(v ssa.Value, d int) {
						if d > 6 || seen[v] || v.Referrers() == nil {
							return
						}
						seen[v] = true
						for _, r := range *v.Referrers() {
							switch x := r.(type) {
							case *ssa.Convert:
								if w, _, ok := typeWidth(x.Type()); ok && w < 64 {
									if bad == nil {
										bad = x
									}
									continue
								}
								walk(x, d+1)
							case *ssa.ChangeType:
								walk(x, d+1)
							case *ssa.Phi:
								walk(x, d+1)
							}
						}
					}
					walk(ld, 0)
					st.Ob(bad == nil)
					st.Sample("%s: Operand.IntValue reaches the result with all 64 bits: %v", core.FuncName(fn), bad == nil)
					if bad != nil {
						c.ReportAt("R03.48", fn, bad.Pos(), "inline-integer-truncated:"+core.FuncName(fn), core.FuncName(fn)+" narrows an integer operand's value to "+bad.(ssa.Value).Type().String()+" before returning it: a negative inline constant or signed immediate (a CDNA3 s_load with a negative byte offset, a 64-bit source -1) is read as 0x00000000FFFFFFFF by consumers that compute in 64 bits, and the scalar load goes 4 GiB astray")
					}
				}
			}
		}
	}
}
