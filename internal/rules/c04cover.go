package rules

import (
	"fmt"
	"go/token"
	"sort"

	"golang.org/x/tools/go/ssa"

	"verif/internal/core"
)

// R04.20: every field of a microcode format that changes what the instruction does is
// decoded. This is the converse of R04.14 (which checks the positions of the fields
// that are decoded): the complete field list of each format is transcribed from the
// GCN3 / Vega / CDNA3 manuals, and each field must be covered by an extraction of the
// decode function (any extraction whose bit range contains the field), unless it
// identifies the format / opcode (matched before the decode function runs) or is
// reserved.

type isaField struct {
	name   string
	word   string
	lo, hi int64
	kind   byte // 'f' field, 'i' identification (encoding / opcode), 'r' reserved or without effect on a compute-only simulator
	effect string
}

var isaFields = map[string][]isaField{
	"decodeSOP2": {{"SSRC0", "w0", 0, 7, 'f', ""}, {"SSRC1", "w0", 8, 15, 'f', ""}, {"SDST", "w0", 16, 22, 'f', ""}, {"OP", "w0", 23, 29, 'i', ""}, {"ENC", "w0", 30, 31, 'i', ""}},
	"decodeSOPK": {{"SIMM16", "w0", 0, 15, 'f', ""}, {"SDST", "w0", 16, 22, 'f', ""}, {"OP", "w0", 23, 27, 'i', ""}, {"ENC", "w0", 28, 31, 'i', ""}},
	"decodeSOP1": {{"SSRC0", "w0", 0, 7, 'f', ""}, {"OP", "w0", 8, 15, 'i', ""}, {"SDST", "w0", 16, 22, 'f', ""}, {"ENC", "w0", 23, 31, 'i', ""}},
	"decodeSOPC": {{"SSRC0", "w0", 0, 7, 'f', ""}, {"SSRC1", "w0", 8, 15, 'f', ""}, {"OP", "w0", 16, 22, 'i', ""}, {"ENC", "w0", 23, 31, 'i', ""}},
	"decodeSOPP": {{"SIMM16", "w0", 0, 15, 'f', ""}, {"OP", "w0", 16, 22, 'i', ""}, {"ENC", "w0", 23, 31, 'i', ""},
		{"VM_CNT", "simm16", 0, 3, 'f', "s_waitcnt: vector memory count, low bits"},
		{"EXP_CNT", "simm16", 4, 6, 'r', "export / GDS count: no exports in a compute-only simulator"},
		{"LGKM_CNT", "simm16", 8, 11, 'f', "s_waitcnt: LDS / scalar memory count"},
		{"VM_CNT_HI", "simm16", 14, 15, 'f', "s_waitcnt on Vega / CDNA3: vmcnt bits 5..4; vmcnt(16) decodes as vmcnt(0) and \"no wait\" (63) as 15 without them"}},
	"decodeVOP1": {{"SRC0", "w0", 0, 8, 'f', ""}, {"OP", "w0", 9, 16, 'i', ""}, {"VDST", "w0", 17, 24, 'f', ""}, {"ENC", "w0", 25, 31, 'i', ""}},
	"decodeVOP2": {{"SRC0", "w0", 0, 8, 'f', ""}, {"VSRC1", "w0", 9, 16, 'f', ""}, {"VDST", "w0", 17, 24, 'f', ""}, {"OP", "w0", 25, 30, 'i', ""}, {"ENC", "w0", 31, 31, 'i', ""},
		{"SDWA.SRC0", "w1", 0, 7, 'f', ""}, {"SDWA.DST_SEL", "w1", 8, 10, 'f', ""}, {"SDWA.DST_UNUSED", "w1", 11, 12, 'f', ""}, {"SDWA.CLAMP", "w1", 13, 13, 'f', ""},
		{"SDWA.OMOD", "w1", 14, 15, 'f', "output modifier of the SDWA form on Vega / CDNA3 (result * 2, * 4, / 2)"},
		{"SDWA.SRC0_SEL", "w1", 16, 18, 'f', ""}, {"SDWA.SRC0_SEXT", "w1", 19, 19, 'f', ""}, {"SDWA.SRC0_NEG", "w1", 20, 20, 'f', ""}, {"SDWA.SRC0_ABS", "w1", 21, 21, 'f', ""},
		{"SDWA.S0", "w1", 23, 23, 'f', ""}, {"SDWA.SRC1_SEL", "w1", 24, 26, 'f', ""}, {"SDWA.SRC1_SEXT", "w1", 27, 27, 'f', ""}, {"SDWA.SRC1_NEG", "w1", 28, 28, 'f', ""}, {"SDWA.SRC1_ABS", "w1", 29, 29, 'f', ""}, {"SDWA.S1", "w1", 31, 31, 'f', ""},
		{"SDWA.rsvd22", "w1", 22, 22, 'r', ""}, {"SDWA.rsvd30", "w1", 30, 30, 'r', ""}},
	"decodeVOPC": {{"SRC0", "w0", 0, 8, 'f', ""}, {"VSRC1", "w0", 9, 16, 'f', ""}, {"OP", "w0", 17, 24, 'i', ""}, {"ENC", "w0", 25, 31, 'i', ""}},
	"decodeVOP3a": {{"VDST", "w0", 0, 7, 'f', ""}, {"ABS", "w0", 8, 10, 'f', ""}, {"OP_SEL", "w0", 11, 14, 'f', "operand half select (Vega / CDNA3 16-bit and packed instructions)"}, {"CLAMP", "w0", 15, 15, 'f', ""}, {"OP", "w0", 16, 25, 'i', ""}, {"ENC", "w0", 26, 31, 'i', ""},
		{"SRC0", "w1", 0, 8, 'f', ""}, {"SRC1", "w1", 9, 17, 'f', ""}, {"SRC2", "w1", 18, 26, 'f', ""}, {"OMOD", "w1", 27, 28, 'f', ""}, {"NEG", "w1", 29, 31, 'f', ""}},
	"decodeVOP3b": {{"VDST", "w0", 0, 7, 'f', ""}, {"SDST", "w0", 8, 14, 'f', ""}, {"CLAMP", "w0", 15, 15, 'f', ""}, {"OP", "w0", 16, 25, 'i', ""}, {"ENC", "w0", 26, 31, 'i', ""},
		{"SRC0", "w1", 0, 8, 'f', ""}, {"SRC1", "w1", 9, 17, 'f', ""}, {"SRC2", "w1", 18, 26, 'f', ""}, {"OMOD", "w1", 27, 28, 'f', ""}, {"NEG", "w1", 29, 31, 'f', ""}},
	"decodeSMEM": {{"SBASE", "w0", 0, 5, 'f', ""}, {"SDATA", "w0", 6, 12, 'f', ""}, {"rsvd13", "w0", 13, 13, 'r', ""},
		{"SOE", "w0", 14, 14, 'f', "Vega / CDNA3: an SGPR offset is added besides the immediate"},
		{"NV", "w0", 15, 15, 'r', "non-volatile hint"},
		{"GLC", "w0", 16, 16, 'f', ""}, {"IMM", "w0", 17, 17, 'f', ""}, {"OP", "w0", 18, 25, 'i', ""}, {"ENC", "w0", 26, 31, 'i', ""},
		{"OFFSET", "w1", 0, 19, 'f', ""},
		{"OFFSET[20]", "w1", 20, 20, 'f', "Vega / CDNA3: the immediate offset has 21 bits and is signed; a negative offset is read as a large positive one"},
		{"rsvd", "w1", 21, 24, 'r', ""},
		{"SOFFSET", "w1", 25, 31, 'f', "Vega / CDNA3: SGPR holding the offset when SOE is set"}},
	"decodeFLAT": {{"OFFSET", "w0", 0, 12, 'f', ""},
		{"LDS", "w0", 13, 13, 'f', "Vega / CDNA3: the loaded data goes to LDS instead of VGPRs"},
		{"SEG", "w0", 14, 15, 'f', "Vega / CDNA3: 0 flat, 1 scratch, 2 global; scratch_* decodes exactly like global_* and flat_* like global_* with an SGPR base"},
		{"GLC", "w0", 16, 16, 'f', ""}, {"SLC", "w0", 17, 17, 'f', ""}, {"OP", "w0", 18, 24, 'i', ""}, {"rsvd25", "w0", 25, 25, 'r', ""}, {"ENC", "w0", 26, 31, 'i', ""},
		{"ADDR", "w1", 0, 7, 'f', ""}, {"DATA", "w1", 8, 15, 'f', ""}, {"SADDR", "w1", 16, 22, 'f', ""}, {"TFE/NV", "w1", 23, 23, 'f', ""}, {"VDST", "w1", 24, 31, 'f', ""}},
	"decodeDS": {{"OFFSET0", "w0", 0, 7, 'f', ""}, {"OFFSET1", "w0", 8, 15, 'f', ""}, {"GDS", "w0", 16, 16, 'f', ""}, {"OP", "w0", 17, 24, 'i', ""}, {"rsvd25", "w0", 25, 25, 'r', ""}, {"ENC", "w0", 26, 31, 'i', ""},
		{"ADDR", "w1", 0, 7, 'f', ""}, {"DATA0", "w1", 8, 15, 'f', ""}, {"DATA1", "w1", 16, 23, 'f', ""}, {"VDST", "w1", 24, 31, 'f', ""}},
}

func checkFieldCoverage(c *core.Ctx, prov *core.Prov) {
	st := c.Rule("R04.20", "every field of a microcode format is decoded: the complete field list of each format (SOP2, SOPK, SOP1, SOPC, SOPP incl. the s_waitcnt counters, VOP1, VOP2 incl. the SDWA dword, VOPC, VOP3a, VOP3b, SMEM, FLAT, DS), transcribed from the GCN3 / Vega / CDNA3 manuals, is compared with the extractBits / extractBit calls of the format's decode function: each field that is neither identification (encoding, opcode) nor reserved has every bit inside the range of some extraction; the transcribed lists cover all 32 / 64 bits of the format", 70)
	got := map[string][]fieldExtraction{}
	for _, fe := range collectFieldExtractions(c, prov) {
		got[fe.fn.Name()] = append(got[fe.fn.Name()], fe)
	}
	var fns []string
	for f := range isaFields {
		fns = append(fns, f)
	}
	sort.Strings(fns)
	for _, fname := range fns {
		fields := isaFields[fname]
		// the oracle itself covers every bit exactly once per word
		cover := map[string][]int{}
		for _, f := range fields {
			if cover[f.word] == nil {
				n := 32
				if f.word == "simm16" {
					n = 16
				}
				cover[f.word] = make([]int, n)
			}
			for b := f.lo; b <= f.hi; b++ {
				cover[f.word][b]++
			}
		}
		for w, bits := range cover {
			for b, n := range bits {
				if n > 1 || (n == 0 && !(w == "simm16" && (b == 7 || b == 12 || b == 13))) {
					c.Report(core.Finding{Rule: "R04.20", Kind: "undecided", Pkg: instsPkg, Func: "Disassembler." + fname, Detail: fmt.Sprintf("oracle-coverage:%s[%d]", w, b), Msg: fmt.Sprintf("the transcribed field list of %s covers %s[%d] %d times", fname, w, b, n)})
				}
			}
		}
		if len(got[fname]) == 0 {
			c.Report(core.Finding{Rule: "R04.20", Kind: "anchor", Pkg: instsPkg, Func: "Disassembler." + fname, Detail: "anchor", Msg: "decode function not found or without extractions"})
			continue
		}
		for _, f := range fields {
			if f.kind != 'f' {
				continue
			}
			st.Instances++
			ok := true
			for b := f.lo; b <= f.hi; b++ {
				hit := false
				for _, fe := range got[fname] {
					if fe.word == f.word && fe.lo <= b && b <= fe.hi {
						hit = true
					}
				}
				if !hit {
					ok = false
				}
			}
			st.Ob(ok)
			if !ok {
				eff := f.effect
				if eff == "" {
					eff = "the field changes what the instruction does"
				}
				c.Report(core.Finding{Rule: "R04.20", Pkg: instsPkg, Func: "Disassembler." + fname, Detail: "field-not-decoded:" + f.name, Pos: c.Position(got[fname][0].fn.Pos()),
					Msg: fmt.Sprintf("%s never reads %s[%d:%d] (%s): %s; an encoding that sets it decodes to the same Inst as one that does not", fname, f.word, f.hi, f.lo, f.name, eff)})
			}
		}
	}
}

// R04.21: NewSRegOperand(code, index, n) names Regs[S0+index]: only indices 0..101 are
// SGPRs; the scalar operand codes above (flat_scratch, xnack, vcc, ttmp, m0, exec,
// inline constants) are mapped by getOperand.
func checkSRegOperandRange(c *core.Ctx) {
	st := c.Rule("R04.21", "a scalar register operand built directly from a field (NewSRegOperand(code, index, count), which names Regs[S0+index]) has an index inside the SGPR file s0..s101: the index argument is bounded by 101 by interval analysis of the field it comes from (extractBits width, shifts, masks), or the call is reached only through a comparison that bounds it; wider fields are scalar operand codes (102 flat_scratch_lo ... 106 vcc_lo, 124 m0, 126 exec_lo, 128.. constants) and go through getOperand", 1)
	for _, fn := range c.SrcFuncs(instsPkg) {
		var g *core.Graph
		for _, b := range fn.Blocks {
			for _, in := range b.Instrs {
				call, ok := in.(*ssa.Call)
				if !ok {
					continue
				}
				cal := call.Call.StaticCallee()
				if cal == nil || cal.Name() != "NewSRegOperand" || len(call.Call.Args) != 3 {
					continue
				}
				st.Instances++
				c.MarkAnalysed(fn)
				idx := call.Call.Args[1]
				iv := intervalOf(idx, 0)
				ok2 := iv.hi <= 101
				if !ok2 {
					if g == nil {
						g = core.BuildGraph(fn, 0, nil)
					}
					root := idx
					for {
						if cv, isC := root.(*ssa.Convert); isC {
							root = cv.X
							continue
						}
						break
					}
					bound := CmpCut(func(n *core.Node, op token.Token, x, y ssa.Value) int {
						rx := x
						for {
							if cv, isC := rx.(*ssa.Convert); isC {
								rx = cv.X
								continue
							}
							break
						}
						k, isK := core.ConstInt(y)
						if rx != root || !isK {
							return 0
						}
						switch op {
						case token.LEQ:
							if k <= 101 {
								return 1
							}
						case token.LSS:
							if k <= 102 {
								return 1
							}
						case token.GTR:
							if k <= 101 {
								return -1
							}
						case token.GEQ:
							if k <= 102 {
								return -1
							}
						}
						return 0
					})
					if n := g.NodeOf(in); n != nil && g.Guarded(n, bound) {
						ok2 = true
					}
				}
				st.Ob(ok2)
				st.Sample("%s: NewSRegOperand index in [%d, %d], bounded by 101: %v", core.FuncName(fn), iv.lo, iv.hi, ok2)
				field := "?"
				if refs := call.Referrers(); refs != nil {
					for _, r := range *refs {
						if sto, isS := r.(*ssa.Store); isS {
							if f := instFieldOfStore(sto); f != "" {
								field = f
							}
						}
					}
				}
				if !ok2 {
					c.ReportAt("R04.21", fn, in.Pos(), "sreg-index-unbounded:"+field, fmt.Sprintf("%s builds a scalar register operand from a field whose value can reach %d: indices above 101 select whatever follows s101 in the register table (106, vcc_lo, becomes another register; an inline constant gets no register at all and printing it dereferences nil) instead of the operand the code names", core.FuncName(fn), iv.hi))
				}
			}
		}
	}
}
