package rules

import (
	"fmt"
	"go/token"
	"sort"
	"strings"

	"golang.org/x/tools/go/ssa"

	"verif/internal/core"
)

// R04.20: every field of a microcode format that changes what the instruction does is
// decoded. This is the converse of R04.14 (which checks the positions of the fields
// that are decoded): the complete field list of each format is transcribed from the
// GCN3 / Vega / CDNA3 manuals, and each field must be covered by an extraction of the
// decode function (any extraction whose bit range contains the field), unless it
// identifies the format / opcode (matched before the decode function runs) or is
// reserved.

type isaField struct {
	name   string
	word   string
	lo, hi int64
	kind   byte // 'f' field, 'i' identification (encoding / opcode), 'r' reserved or without effect on a compute-only simulator
	effect string
}

var isaFields = map[string][]isaField{
	"decodeSOP2": {{"SSRC0", "w0", 0, 7, 'f', ""}, {"SSRC1", "w0", 8, 15, 'f', ""}, {"SDST", "w0", 16, 22, 'f', ""}, {"OP", "w0", 23, 29, 'i', ""}, {"ENC", "w0", 30, 31, 'i', ""}},
	"decodeSOPK": {{"SIMM16", "w0", 0, 15, 'f', ""}, {"SDST", "w0", 16, 22, 'f', ""}, {"OP", "w0", 23, 27, 'i', ""}, {"ENC", "w0", 28, 31, 'i', ""}},
	"decodeSOP1": {{"SSRC0", "w0", 0, 7, 'f', ""}, {"OP", "w0", 8, 15, 'i', ""}, {"SDST", "w0", 16, 22, 'f', ""}, {"ENC", "w0", 23, 31, 'i', ""}},
	"decodeSOPC": {{"SSRC0", "w0", 0, 7, 'f', ""}, {"SSRC1", "w0", 8, 15, 'f', ""}, {"OP", "w0", 16, 22, 'i', ""}, {"ENC", "w0", 23, 31, 'i', ""}},
	"decodeSOPP": {{"SIMM16", "w0", 0, 15, 'f', ""}, {"OP", "w0", 16, 22, 'i', ""}, {"ENC", "w0", 23, 31, 'i', ""},
		{"VM_CNT", "simm16", 0, 3, 'f', "s_waitcnt: vector memory count, low bits"},
		{"EXP_CNT", "simm16", 4, 6, 'r', "export / GDS count: no exports in a compute-only simulator"},
		{"LGKM_CNT", "simm16", 8, 11, 'f', "s_waitcnt: LDS / scalar memory count"},
		{"VM_CNT_HI", "simm16", 14, 15, 'f', "s_waitcnt on Vega / CDNA3: vmcnt bits 5..4; vmcnt(16) decodes as vmcnt(0) and \"no wait\" (63) as 15 without them"}},
	"decodeVOP1": {{"SRC0", "w0", 0, 8, 'f', ""}, {"OP", "w0", 9, 16, 'i', ""}, {"VDST", "w0", 17, 24, 'f', ""}, {"ENC", "w0", 25, 31, 'i', ""}},
	"decodeVOP2": {{"SRC0", "w0", 0, 8, 'f', ""}, {"VSRC1", "w0", 9, 16, 'f', ""}, {"VDST", "w0", 17, 24, 'f', ""}, {"OP", "w0", 25, 30, 'i', ""}, {"ENC", "w0", 31, 31, 'i', ""},
		{"SDWA.SRC0", "w1", 0, 7, 'f', ""}, {"SDWA.DST_SEL", "w1", 8, 10, 'f', ""}, {"SDWA.DST_UNUSED", "w1", 11, 12, 'f', ""}, {"SDWA.CLAMP", "w1", 13, 13, 'f', ""},
		{"SDWA.OMOD", "w1", 14, 15, 'f', "output modifier of the SDWA form on Vega / CDNA3 (result * 2, * 4, / 2)"},
		{"SDWA.SRC0_SEL", "w1", 16, 18, 'f', ""}, {"SDWA.SRC0_SEXT", "w1", 19, 19, 'f', ""}, {"SDWA.SRC0_NEG", "w1", 20, 20, 'f', ""}, {"SDWA.SRC0_ABS", "w1", 21, 21, 'f', ""},
		{"SDWA.S0", "w1", 23, 23, 'f', ""}, {"SDWA.SRC1_SEL", "w1", 24, 26, 'f', ""}, {"SDWA.SRC1_SEXT", "w1", 27, 27, 'f', ""}, {"SDWA.SRC1_NEG", "w1", 28, 28, 'f', ""}, {"SDWA.SRC1_ABS", "w1", 29, 29, 'f', ""}, {"SDWA.S1", "w1", 31, 31, 'f', ""},
		{"SDWA.rsvd22", "w1", 22, 22, 'r', ""}, {"SDWA.rsvd30", "w1", 30, 30, 'r', ""}},
	"decodeVOPC": {{"SRC0", "w0", 0, 8, 'f', ""}, {"VSRC1", "w0", 9, 16, 'f', ""}, {"OP", "w0", 17, 24, 'i', ""}, {"ENC", "w0", 25, 31, 'i', ""}},
	"decodeVOP3a": {{"VDST", "w0", 0, 7, 'f', ""}, {"ABS", "w0", 8, 10, 'f', ""}, {"OP_SEL", "w0", 11, 14, 'f', "operand half select (Vega / CDNA3 16-bit and packed instructions)"}, {"CLAMP", "w0", 15, 15, 'f', ""}, {"OP", "w0", 16, 25, 'i', ""}, {"ENC", "w0", 26, 31, 'i', ""},
		{"SRC0", "w1", 0, 8, 'f', ""}, {"SRC1", "w1", 9, 17, 'f', ""}, {"SRC2", "w1", 18, 26, 'f', ""}, {"OMOD", "w1", 27, 28, 'f', ""}, {"NEG", "w1", 29, 31, 'f', ""}},
	"decodeVOP3b": {{"VDST", "w0", 0, 7, 'f', ""}, {"SDST", "w0", 8, 14, 'f', ""}, {"CLAMP", "w0", 15, 15, 'f', ""}, {"OP", "w0", 16, 25, 'i', ""}, {"ENC", "w0", 26, 31, 'i', ""},
		{"SRC0", "w1", 0, 8, 'f', ""}, {"SRC1", "w1", 9, 17, 'f', ""}, {"SRC2", "w1", 18, 26, 'f', ""}, {"OMOD", "w1", 27, 28, 'f', ""}, {"NEG", "w1", 29, 31, 'f', ""}},
	"decodeSMEM": {{"SBASE", "w0", 0, 5, 'f', ""}, {"SDATA", "w0", 6, 12, 'f', ""}, {"rsvd13", "w0", 13, 13, 'r', ""},
		{"SOE", "w0", 14, 14, 'f', "Vega / CDNA3: an SGPR offset is added besides the immediate"},
		{"NV", "w0", 15, 15, 'r', "non-volatile hint"},
		{"GLC", "w0", 16, 16, 'f', ""}, {"IMM", "w0", 17, 17, 'f', ""}, {"OP", "w0", 18, 25, 'i', ""}, {"ENC", "w0", 26, 31, 'i', ""},
		{"OFFSET", "w1", 0, 19, 'f', ""},
		{"OFFSET[20]", "w1", 20, 20, 'f', "Vega / CDNA3: the immediate offset has 21 bits and is signed; a negative offset is read as a large positive one"},
		{"rsvd", "w1", 21, 24, 'r', ""},
		{"SOFFSET", "w1", 25, 31, 'f', "Vega / CDNA3: SGPR holding the offset when SOE is set"}},
	"decodeFLAT": {{"OFFSET", "w0", 0, 12, 'f', ""},
		{"LDS", "w0", 13, 13, 'f', "Vega / CDNA3: the loaded data goes to LDS instead of VGPRs"},
		{"SEG", "w0", 14, 15, 'f', "Vega / CDNA3: 0 flat, 1 scratch, 2 global; scratch_* decodes exactly like global_* and flat_* like global_* with an SGPR base"},
		{"GLC", "w0", 16, 16, 'f', ""}, {"SLC", "w0", 17, 17, 'f', ""}, {"OP", "w0", 18, 24, 'i', ""}, {"rsvd25", "w0", 25, 25, 'r', ""}, {"ENC", "w0", 26, 31, 'i', ""},
		{"ADDR", "w1", 0, 7, 'f', ""}, {"DATA", "w1", 8, 15, 'f', ""}, {"SADDR", "w1", 16, 22, 'f', ""}, {"TFE/NV", "w1", 23, 23, 'f', ""}, {"VDST", "w1", 24, 31, 'f', ""}},
	"decodeDS": {{"OFFSET0", "w0", 0, 7, 'f', ""}, {"OFFSET1", "w0", 8, 15, 'f', ""}, {"GDS", "w0", 16, 16, 'f', ""}, {"OP", "w0", 17, 24, 'i', ""}, {"rsvd25", "w0", 25, 25, 'r', ""}, {"ENC", "w0", 26, 31, 'i', ""},
		{"ADDR", "w1", 0, 7, 'f', ""}, {"DATA0", "w1", 8, 15, 'f', ""}, {"DATA1", "w1", 16, 23, 'f', ""}, {"VDST", "w1", 24, 31, 'f', ""}},
}

func checkFieldCoverage(c *core.Ctx, prov *core.Prov) {
	st := c.Rule("R04.20", "every field of a microcode format is decoded: the complete field list of each format (SOP2, SOPK, SOP1, SOPC, SOPP incl. the s_waitcnt counters, VOP1, VOP2 incl. the SDWA dword, VOPC, VOP3a, VOP3b, SMEM, FLAT, DS), transcribed from the GCN3 / Vega / CDNA3 manuals, is compared with the extractBits / extractBit calls of the format's decode function: each field that is neither identification (encoding, opcode) nor reserved has every bit inside the range of some extraction; the transcribed lists cover all 32 / 64 bits of the format", 70)
	got := map[string][]fieldExtraction{}
	for _, fe := range collectFieldExtractions(c, prov) {
		got[fe.fn.Name()] = append(got[fe.fn.Name()], fe)
	}
	var fns []string
	for f := range isaFields {
		fns = append(fns, f)
	}
	sort.Strings(fns)
	for _, fname := range fns {
		fields := isaFields[fname]
		// the oracle itself covers every bit exactly once per word
		cover := map[string][]int{}
		for _, f := range fields {
			if cover[f.word] == nil {
				n := 32
				if f.word == "simm16" {
					n = 16
				}
				cover[f.word] = make([]int, n)
			}
			for b := f.lo; b <= f.hi; b++ {
				cover[f.word][b]++
			}
		}
		for w, bits := range cover {
			for b, n := range bits {
				if n > 1 || (n == 0 && !(w == "simm16" && (b == 7 || b == 12 || b == 13))) {
					c.Report(core.Finding{Rule: "R04.20", Kind: "undecided", Pkg: instsPkg, Func: "Disassembler." + fname, Detail: fmt.Sprintf("oracle-coverage:%s[%d]", w, b), Msg: fmt.Sprintf("the transcribed field list of %s covers %s[%d] %d times", fname, w, b, n)})
				}
			}
		}
		if len(got[fname]) == 0 {
			c.Report(core.Finding{Rule: "R04.20", Kind: "anchor", Pkg: instsPkg, Func: "Disassembler." + fname, Detail: "anchor", Msg: "decode function not found or without extractions"})
			continue
		}
		for _, f := range fields {
			if f.kind != 'f' {
				continue
			}
			st.Instances++
			ok := true
			for b := f.lo; b <= f.hi; b++ {
				hit := false
				for _, fe := range got[fname] {
					if fe.word == f.word && fe.lo <= b && b <= fe.hi {
						hit = true
					}
				}
				if !hit {
					ok = false
				}
			}
			st.Ob(ok)
			if !ok {
				eff := f.effect
				if eff == "" {
					eff = "the field changes what the instruction does"
				}
				c.Report(core.Finding{Rule: "R04.20", Pkg: instsPkg, Func: "Disassembler." + fname, Detail: "field-not-decoded:" + f.name, Pos: c.Position(got[fname][0].fn.Pos()),
					Msg: fmt.Sprintf("%s never reads %s[%d:%d] (%s): %s; an encoding that sets it decodes to the same Inst as one that does not", fname, f.word, f.hi, f.lo, f.name, eff)})
			}
		}
	}
}

// R04.21: NewSRegOperand(code, index, n) names Regs[S0+index]: only indices 0..101 are
// SGPRs; the scalar operand codes above (flat_scratch, xnack, vcc, ttmp, m0, exec,
// inline constants) are mapped by getOperand.
func checkSRegOperandRange(c *core.Ctx) {
	st := c.Rule("R04.21", "a scalar register operand built directly from a field (NewSRegOperand(code, index, count), which names Regs[S0+index]) has an index inside the SGPR file s0..s101: the index argument is bounded by 101 by interval analysis of the field it comes from (extractBits width, shifts, masks), or the call is reached only through a comparison that bounds it; wider fields are scalar operand codes (102 flat_scratch_lo ... 106 vcc_lo, 124 m0, 126 exec_lo, 128.. constants) and go through getOperand", 1)
	for _, fn := range c.SrcFuncs(instsPkg) {
		var g *core.Graph
		for _, b := range fn.Blocks {
			for _, in := range b.Instrs {
				call, ok := in.(*ssa.Call)
				if !ok {
					continue
				}
				cal := call.Call.StaticCallee()
				if cal == nil || cal.Name() != "NewSRegOperand" || len(call.Call.Args) != 3 {
					continue
				}
				st.Instances++
				c.MarkAnalysed(fn)
				idx := call.Call.Args[1]
				iv := intervalOf(idx, 0)
				ok2 := iv.hi <= 101
				if !ok2 {
					if g == nil {
						g = core.BuildGraph(fn, 0, nil)
					}
					root := idx
					for {
						if cv, isC := root.(*ssa.Convert); isC {
							root = cv.X
							continue
						}
						break
					}
					bound := CmpCut(func(n *core.Node, op token.Token, x, y ssa.Value) int {
						rx := x
						for {
							if cv, isC := rx.(*ssa.Convert); isC {
								rx = cv.X
								continue
							}
							break
						}
						k, isK := core.ConstInt(y)
						if rx != root || !isK {
							return 0
						}
						switch op {
						case token.LEQ:
							if k <= 101 {
								return 1
							}
						case token.LSS:
							if k <= 102 {
								return 1
							}
						case token.GTR:
							if k <= 101 {
								return -1
							}
						case token.GEQ:
							if k <= 102 {
								return -1
							}
						}
						return 0
					})
					if n := g.NodeOf(in); n != nil && g.Guarded(n, bound) {
						ok2 = true
					}
				}
				st.Ob(ok2)
				st.Sample("%s: NewSRegOperand index in [%d, %d], bounded by 101: %v", core.FuncName(fn), iv.lo, iv.hi, ok2)
				field := "?"
				if refs := call.Referrers(); refs != nil {
					for _, r := range *refs {
						if sto, isS := r.(*ssa.Store); isS {
							if f := instFieldOfStore(sto); f != "" {
								field = f
							}
						}
					}
				}
				if !ok2 {
					c.ReportAt("R04.21", fn, in.Pos(), "sreg-index-unbounded:"+field, fmt.Sprintf("%s builds a scalar register operand from a field whose value can reach %d: indices above 101 select whatever follows s101 in the register table (106, vcc_lo, becomes another register; an inline constant gets no register at all and printing it dereferences nil) instead of the operand the code names", core.FuncName(fn), iv.hi))
				}
			}
		}
	}
}

// R04.23: the opcode numbers of the FLAT format. Transcribed from the GCN3 manual
// (13.x FLAT) and the Vega / CDNA3 manuals, which number these instructions alike.
var flatOpcodes = map[string]int64{
	"flat_load_ubyte": 16, "flat_load_sbyte": 17, "flat_load_ushort": 18, "flat_load_sshort": 19,
	"flat_load_dword": 20, "flat_load_dwordx2": 21, "flat_load_dwordx3": 22, "flat_load_dwordx4": 23,
	"flat_store_byte": 24, "flat_store_short": 26, "flat_store_dword": 28, "flat_store_dwordx2": 29,
	"flat_store_dwordx3": 30, "flat_store_dwordx4": 31,
	"flat_atomic_swap": 64, "flat_atomic_cmpswap": 65, "flat_atomic_add": 66, "flat_atomic_sub": 67,
	"flat_atomic_smin": 68, "flat_atomic_umin": 69, "flat_atomic_smax": 70, "flat_atomic_umax": 71,
	"flat_atomic_and": 72, "flat_atomic_or": 73, "flat_atomic_xor": 74, "flat_atomic_inc": 75, "flat_atomic_dec": 76,
	"flat_atomic_swap_x2": 96, "flat_atomic_cmpswap_x2": 97, "flat_atomic_add_x2": 98, "flat_atomic_sub_x2": 99,
	"flat_atomic_smin_x2": 100, "flat_atomic_umin_x2": 101, "flat_atomic_smax_x2": 102, "flat_atomic_umax_x2": 103,
	"flat_atomic_and_x2": 104, "flat_atomic_or_x2": 105, "flat_atomic_xor_x2": 106, "flat_atomic_inc_x2": 107, "flat_atomic_dec_x2": 108,
}

// The same for the two other small formats whose numbering the manuals list in one table each.
var smemOpcodes = map[string]int64{
	"s_load_dword": 0, "s_load_dwordx2": 1, "s_load_dwordx4": 2, "s_load_dwordx8": 3, "s_load_dwordx16": 4,
	"s_buffer_load_dword": 8, "s_buffer_load_dwordx2": 9, "s_buffer_load_dwordx4": 10, "s_buffer_load_dwordx8": 11, "s_buffer_load_dwordx16": 12,
	"s_store_dword": 16, "s_store_dwordx2": 17, "s_store_dwordx4": 18,
	"s_buffer_store_dword": 24, "s_buffer_store_dwordx2": 25, "s_buffer_store_dwordx4": 26,
	"s_dcache_inv": 32, "s_dcache_wb": 33, "s_dcache_inv_vol": 34, "s_dcache_wb_vol": 35,
	"s_memtime": 36, "s_memrealtime": 37, "s_atc_probe": 38, "s_atc_probe_buffer": 39,
}

var soppOpcodes = map[string]int64{
	"s_nop": 0, "s_endpgm": 1, "s_branch": 2, "s_wakeup": 3, "s_cbranch_scc0": 4, "s_cbranch_scc1": 5,
	"s_cbranch_vccz": 6, "s_cbranch_vccnz": 7, "s_cbranch_execz": 8, "s_cbranch_execnz": 9, "s_barrier": 10,
	"s_setkill": 11, "s_waitcnt": 12, "s_sethalt": 13, "s_sleep": 14, "s_setprio": 15, "s_sendmsg": 16,
	"s_sendmsghalt": 17, "s_trap": 18, "s_icache_inv": 19, "s_incperflevel": 20, "s_decperflevel": 21,
	"s_ttracedata": 22, "s_cbranch_cdbgsys": 23, "s_cbranch_cdbguser": 24, "s_cbranch_cdbgsys_or_user": 25,
	"s_cbranch_cdbgsys_and_user": 26, "s_endpgm_saved": 27, "s_set_gpr_idx_off": 28, "s_set_gpr_idx_mode": 29,
}

func checkFlatOpcodes(c *core.Ctx, t *InstTables) {
	st := c.Rule("R04.23", "every FLAT, SMEM and SOPP row of the decode table carries the opcode number the ISA manuals give its mnemonic (FLAT: loads 16..23, stores 24..31, atomics 64..76, 64-bit atomics 96..108; SMEM 0..39; SOPP 0..29; transcribed tables of 40 + 24 + 30 mnemonics), so that a real flat_atomic_* encoding decodes and an unassigned opcode does not; a mnemonic outside the tables is undecided", 80)
	oracles := map[string]map[string]int64{"FLAT": flatOpcodes, "SMEM": smemOpcodes, "SOPP": soppOpcodes}
	for _, r := range t.Rows {
		oracle := oracles[r.Format]
		if oracle == nil {
			continue
		}
		name := strings.TrimSpace(r.Name)
		st.Instances++
		want, ok := oracle[name]
		if !ok {
			st.Ob(false)
			c.Report(core.Finding{Rule: "R04.23", Pkg: instsPkg, Func: "DecodeTable", Detail: "mnemonic-unknown:" + r.Format + ":" + name, Pos: c.Position(r.Pos),
				Msg: fmt.Sprintf("the %s row %q (opcode %d) is not a mnemonic of the transcribed %s opcode table: a misspelt name, or an instruction the table has to be extended with", r.Format, name, r.Opcode, r.Format)})
			continue
		}
		st.Ob(want == r.Opcode)
		if want != r.Opcode {
			c.Report(core.Finding{Rule: "R04.23", Pkg: instsPkg, Func: "DecodeTable", Detail: "opcode:" + r.Format + ":" + name, Pos: c.Position(r.Pos),
				Msg: fmt.Sprintf("%s is tabled with opcode %d; the ISA manuals give %d: the real encoding of the instruction is rejected as undecodable and opcode %d, which the ISA does not assign, decodes as %s", name, r.Opcode, want, r.Opcode, name)})
		}
	}
}
