package rules

import (
	"fmt"
	"go/ast"
	"strings"

	"golang.org/x/tools/go/ssa"

	"verif/internal/core"
)

// Thorough adds, for the thorough tier, the module-wide who-may rules: the
// whole module (every package incl. samples, benchmarks, tests' helpers and
// the NVIDIA model) is loaded, so that a writer / caller added in ANY package
// is seen, not only in the packages the property is anchored in.
func Thorough(c *core.Ctx, prop string) {
	c.BuildSSA()
	all := c.RepoPkgs()
	relOf := func(fn *ssa.Function) string { return core.FuncPkg(fn) }
	eachFunc := func(f func(rel string, fn *ssa.Function)) {
		for _, p := range all {
			rel := core.RelPkg(p.PkgPath)
			if c.SSAPkgs[p.PkgPath] == nil {
				continue
			}
			for _, fn := range c.SrcFuncs(rel) {
				f(rel, fn)
			}
		}
	}
	switch prop {
	case "C10", "C19":
		st := c.Rule("T.pagetable-writers", "module-wide: vm.PageTable.Insert/Update/Remove is called only by the allocator (amd/driver/internal) and by Driver.preparePageForMigration", 5)
		eachFunc(func(rel string, fn *ssa.Function) {
			for _, b := range fn.Blocks {
				for _, in := range b.Instrs {
					op, ok := isPageTableCall(in, "Insert", "Update", "Remove")
					if !ok {
						continue
					}
					st.Instances++
					okW := rel == drvIntPkg || (rel == driverPkg && core.FuncName(fn) == "Driver.preparePageForMigration")
					st.Ob(okW)
					st.Sample("%s %s: pageTable.%s", rel, core.FuncName(fn), op)
					if !okW {
						c.ReportAt("T.pagetable-writers", fn, in.Pos(), "pageTable."+op, "the page table is written from "+rel+"."+core.FuncName(fn)+": the allocator's mirror is bypassed")
					}
				}
			}
		})
	}
	switch prop {
	case "C12", "C05":
		st := c.Rule("T.engine-run", "module-wide: in code that drives the AMD simulator sim.Engine.Run is called only from Driver.runEngine; goroutines are started only by the driver, the runner's monitoring/reporting and the listed multi-threaded application benchmark", 3)
		goInv := map[string]string{
			"amd/driver|Driver.Run":      "driver thread",
			"amd/driver|Driver.runAsync": "engine thread",
		}
		eachFunc(func(rel string, fn *ssa.Function) {
			for _, b := range fn.Blocks {
				for _, in := range b.Instrs {
					if cc := core.CallOf(in); cc != nil && cc.IsInvoke() && cc.Method.Name() == "Run" && cc.Method.Pkg() != nil && cc.Method.Pkg().Path() == core.SimPkg {
						if strings.HasPrefix(rel, "nvidia/") {
							continue // separate single-threaded simulator
						}
						st.Instances++
						ok := rel == driverPkg && core.FuncName(fn) == "Driver.runEngine"
						st.Ob(ok)
						if !ok {
							c.ReportAt("T.engine-run", fn, in.Pos(), "Engine.Run", "the event engine is run from "+rel+"."+core.FuncName(fn)+": a second thread may execute events concurrently with the driver's engine thread")
						}
					}
					if _, isGo := in.(*ssa.Go); isGo {
						st.Instances++
						key := rel + "|" + core.FuncName(fn)
						_, ok := goInv[key]
						if strings.HasPrefix(rel, "amd/samples/runner") || strings.HasPrefix(rel, "amd/benchmarks/dnn/gputraining") || strings.HasPrefix(rel, "amd/samples/") || strings.HasPrefix(rel, "amd/tests/") {
							ok = true // application / reporting side: outside the simulator's event path
						}
						st.Ob(ok)
						st.Sample("go statement in %s", key)
						if !ok {
							c.ReportAt("T.engine-run", fn, in.Pos(), "go", "a goroutine is started in "+key+", inside simulator code: host scheduling can influence the order of simulation effects")
						}
					}
				}
			}
		})
	}
	switch prop {
	case "C02":
		st := c.Rule("T.wavefront-mutators", "module-wide: architectural state of timing wavefronts (SetPC/SetEXEC/SetVCC/SetSCC/WriteOperand*) is changed only inside amd/timing/cu (R02.1 allow-list) and by the wavefront type itself", 5)
		eachFunc(func(rel string, fn *ssa.Function) {
			if rel == cuPkg || rel == wfPkg || rel == emuPkg || rel == cdna3Pkg {
				return
			}
			for _, b := range fn.Blocks {
				for _, in := range b.Instrs {
					f := core.CalleeFunc(in)
					if f == nil {
						continue
					}
					switch f.Name() {
					case "WriteOperand", "WriteOperandBytes", "SetVCC", "SetSCC", "SetEXEC", "SetPC":
					default:
						continue
					}
					if !strings.Contains(core.FuncID(f), "/amd/timing/wavefront.Wavefront.") {
						continue
					}
					st.Instances++
					st.Ob(false)
					c.ReportAt("T.wavefront-mutators", fn, in.Pos(), f.Name(), rel+"."+core.FuncName(fn)+" changes architectural state of a timing wavefront outside the compute unit")
				}
			}
		})
		// positive example: the rule's matcher finds the known in-package sites
		n := 0
		for _, fn := range c.SrcFuncs(cuPkg) {
			for _, b := range fn.Blocks {
				for _, in := range b.Instrs {
					if f := core.CalleeFunc(in); f != nil && strings.Contains(core.FuncID(f), "/amd/timing/wavefront.Wavefront.Set") {
						n++
					}
				}
			}
		}
		st.Instances += n
		for i := 0; i < n; i++ {
			st.Ob(true)
		}
	}
	switch prop {
	case "C04":
		st := c.Rule("T.decode-callers", "module-wide: every caller of Disassembler.Decode (any package) tests the returned error", 3)
		eachFunc(func(rel string, fn *ssa.Function) {
			for _, b := range fn.Blocks {
				for _, in := range b.Instrs {
					if !core.IsCall(in, core.ModPath+"/amd/insts.Disassembler.Decode") && !invokesNamed(in, "Decode", "insts.Inst") {
						continue
					}
					st.Instances++
					used := false
					if v, ok := in.(ssa.Value); ok && v.Referrers() != nil {
						for _, r := range *v.Referrers() {
							if ex, ok := r.(*ssa.Extract); ok && ex.Index == 1 && ex.Referrers() != nil && len(*ex.Referrers()) > 0 {
								used = true
							}
						}
					}
					st.Ob(used)
					st.Sample("%s %s calls Decode, error used: %v", rel, core.FuncName(fn), used)
					if !used {
						c.ReportAt("T.decode-callers", fn, in.Pos(), "Decode:error-discarded", rel+"."+core.FuncName(fn)+" discards the error returned by Decode")
					}
				}
			}
		})
	}
	switch prop {
	case "C04":
		st := c.Rule("T.decode-table-writers", "module-wide: outside amd/insts no code writes a field of insts.InstType or insts.Format through an object it did not allocate (a decoded instruction shares its decode-table row with every other instruction of that opcode)", 0)
		eachFunc(func(rel string, fn *ssa.Function) {
			if rel == instsPkg {
				return
			}
			for _, b := range fn.Blocks {
				for _, in := range b.Instrs {
					s, ok := in.(*ssa.Store)
					if !ok {
						continue
					}
					fa, ok := s.Addr.(*ssa.FieldAddr)
					if !ok {
						continue
					}
					owner := namedTypeName(fa.X.Type())
					if owner != "insts.InstType" && owner != "insts.Format" {
						continue
					}
					st.Instances++
					fresh := false
					base := fa.X
					for i := 0; i < 4; i++ {
						switch t := base.(type) {
						case *ssa.Alloc:
							fresh = true
						case *ssa.FieldAddr:
							base = t.X
							continue
						case *ssa.UnOp:
							base = t.X
							continue
						}
						break
					}
					st.Ob(fresh)
					st.Sample("%s %s writes %s (fresh object: %v)", rel, core.FuncName(fn), owner, fresh)
					if !fresh {
						c.ReportAt("T.decode-table-writers", fn, in.Pos(), "table-row-write:"+owner, rel+"."+core.FuncName(fn)+" writes a field of "+owner+" of an object it did not allocate: decode-table rows are shared by all instructions of an opcode")
					}
				}
			}
		})
	}
	// all properties: count what the whole-module load covered
	nf := 0
	eachFunc(func(rel string, fn *ssa.Function) { nf++; _ = relOf })
	if c.Extra == nil {
		c.Extra = map[string]any{}
	}
	c.Extra["whole_module"] = map[string]any{"packages": len(all), "functions": nf}
	_ = ast.Inspect
	_ = fmt.Sprint
}
