package rules

import (
	"fmt"
	"go/token"
	"go/types"

	"golang.org/x/tools/go/ssa"

	"verif/internal/core"
)

// R06.scratch: a scratch buffer shared by the lanes carries nothing from lane to lane.
//
// The load handlers keep one byte array outside the 64-lane loop and hand a slice of it to
// WriteOperandBytes for every active lane. That is independent of the other lanes only if the
// iteration writes every byte it hands out: a byte that is written under a data-dependent
// condition (sign fill only for negative values) keeps what an earlier lane left there.
func checkScratchPerLane(c *core.Ctx, rule string, pkgs []string) {
	st := c.Rule(rule, "a byte array declared outside a lane loop and handed out inside it (as an argument of a call or as the source of a copy) is completely rewritten by the iteration that hands it out: every byte of the window passed on is covered by writes - element stores at constant indices, binary.*.PutUintNN, copy with a source of known length - in blocks that lie inside the loop and dominate the use, whatever the lane's data. A byte written only under a data-dependent condition keeps the value a lower-numbered lane left", 6)
	for _, rel := range pkgs {
		for _, fn := range c.SrcFuncs(rel) {
			// lane-loop headers of the function
			headers := map[*ssa.BasicBlock]bool{}
			for _, b := range fn.Blocks {
				for _, in := range b.Instrs {
					name, cc := stateMethod(in)
					switch name {
					case "ReadOperand", "WriteOperand", "ReadOperandBytes", "WriteOperandBytes":
						if phi := ivOf(cc.Args[1]); phi != nil {
							headers[phi.Block()] = true
						}
					}
				}
			}
			if len(headers) == 0 {
				continue
			}
			for _, b := range fn.Blocks {
				for _, in := range b.Instrs {
					al, ok := in.(*ssa.Alloc)
					if !ok {
						continue
					}
					arr, ok := al.Type().(*types.Pointer).Elem().Underlying().(*types.Array)
					if !ok {
						continue
					}
					if bt, ok := arr.Elem().Underlying().(*types.Basic); !ok || bt.Kind() != types.Uint8 {
						continue
					}
					checkScratchAlloc(c, st, rule, fn, al, int(arr.Len()), headers)
				}
			}
		}
	}
}

type byteWrite struct {
	lo, hi int // [lo, hi)
	in     ssa.Instruction
}

func constOr(v ssa.Value, def int) (int, bool) {
	if v == nil {
		return def, true
	}
	k, ok := core.ConstInt(v)
	return int(k), ok
}

// sliceLenConst: the constant length of a slice value s[lo:lo+k] / s[a:b], if it has one.
func sliceLenConst(v ssa.Value) (int, bool) {
	sl, ok := v.(*ssa.Slice)
	if !ok {
		return 0, false
	}
	if sl.High == nil {
		return 0, false
	}
	if h, ok := core.ConstInt(sl.High); ok {
		l, okL := constOr(sl.Low, 0)
		if okL {
			return int(h) - l, true
		}
		return 0, false
	}
	if add, ok := sl.High.(*ssa.BinOp); ok && add.Op == token.ADD && sl.Low != nil {
		if add.X == sl.Low {
			if k, ok := core.ConstInt(add.Y); ok {
				return int(k), true
			}
		}
		if add.Y == sl.Low {
			if k, ok := core.ConstInt(add.X); ok {
				return int(k), true
			}
		}
	}
	return 0, false
}

func checkScratchAlloc(c *core.Ctx, st *core.RuleStat, rule string, fn *ssa.Function, al *ssa.Alloc, n int, headers map[*ssa.BasicBlock]bool) {
	if al.Referrers() == nil {
		return
	}
	var writes []byteWrite
	type use struct {
		lo, hi int
		in     ssa.Instruction
		what   string
	}
	var uses []use
	undecided := ""
	for _, r := range *al.Referrers() {
		switch x := r.(type) {
		case *ssa.IndexAddr:
			k, isC := core.ConstInt(x.Index)
			if x.Referrers() == nil {
				continue
			}
			for _, rr := range *x.Referrers() {
				switch y := rr.(type) {
				case *ssa.Store:
					if y.Addr == ssa.Value(x) && isC {
						writes = append(writes, byteWrite{int(k), int(k) + 1, y})
					}
				case *ssa.UnOp:
					if isC {
						uses = append(uses, use{int(k), int(k) + 1, y, "element read"})
					} else {
						uses = append(uses, use{0, n, y, "element read"})
					}
				}
			}
		case *ssa.Slice:
			lo, ok1 := constOr(x.Low, 0)
			hi, ok2 := constOr(x.High, n)
			if !ok1 || !ok2 {
				lo, hi = 0, n
			}
			if x.Referrers() == nil {
				continue
			}
			for _, rr := range *x.Referrers() {
				call, ok := rr.(ssa.CallInstruction)
				if !ok {
					continue
				}
				cc := call.Common()
				if bi, ok := cc.Value.(*ssa.Builtin); ok && bi.Name() == "copy" && len(cc.Args) == 2 {
					if cc.Args[0] == ssa.Value(x) {
						if l, ok := sliceLenConst(cc.Args[1]); ok {
							if l < hi-lo {
								writes = append(writes, byteWrite{lo, lo + l, call})
							} else {
								writes = append(writes, byteWrite{lo, hi, call})
							}
						} else if ok1 && ok2 && !(x.Low == nil && x.High == nil) {
							// copy into an explicit window: the source's length is not known here
							undecided = "copy into the buffer from a source whose length is not a constant"
						} else {
							undecided = "copy into the buffer from a source whose length is not a constant"
						}
					} else {
						uses = append(uses, use{lo, hi, call, "source of a copy"})
					}
					continue
				}
				if f := cc.StaticCallee(); f != nil || cc.IsInvoke() {
					name := ""
					if cc.IsInvoke() {
						name = cc.Method.Name()
					} else {
						name = f.Name()
					}
					w := 0
					switch name {
					case "PutUint16":
						w = 2
					case "PutUint32":
						w = 4
					case "PutUint64":
						w = 8
					}
					if w > 0 {
						writes = append(writes, byteWrite{lo, lo + w, call})
						continue
					}
					uses = append(uses, use{lo, hi, call, "argument of " + name})
				}
			}
		}
	}
	for _, u := range uses {
		ub := u.in.Block()
		var hdr *ssa.BasicBlock
		for h := range headers {
			if h.Dominates(ub) && h != ub {
				hdr = h
			}
		}
		if hdr == nil || hdr.Dominates(al.Block()) {
			continue // not inside a lane loop, or the buffer belongs to the iteration
		}
		st.Instances++
		c.MarkAnalysed(fn)
		covered := make([]bool, n)
		for _, w := range writes {
			wb := w.in.Block()
			if !hdr.Dominates(wb) || hdr == wb {
				continue
			}
			if wb == ub {
				if instrIndex(w.in) > instrIndex(u.in) {
					continue
				}
			} else if !wb.Dominates(ub) {
				continue
			}
			for k := w.lo; k < w.hi && k < n; k++ {
				if k >= 0 {
					covered[k] = true
				}
			}
		}
		missing := -1
		for k := u.lo; k < u.hi && k < n; k++ {
			if !covered[k] {
				missing = k
				break
			}
		}
		ok := missing < 0
		st.Ob(ok && undecided == "")
		st.Sample("%s: bytes [%d,%d) of the shared buffer are rewritten in every iteration before they are handed out (%s): %v", core.FuncName(fn), u.lo, u.hi, u.what, ok)
		switch {
		case !ok:
			c.ReportAt(rule, fn, u.in.Pos(), fmt.Sprintf("scratch-byte-carried:%s", core.FuncName(fn)), fmt.Sprintf("%s hands out byte %d of a buffer that is shared by all lanes without having written it on every path of the iteration: the byte keeps what a lower-numbered active lane left there (sign fill written only for negative values: a non-negative byte loaded after a negative one reads back as 0xFFFFFFxx), so the lane's result depends on other lanes", core.FuncName(fn), missing))
		case undecided != "":
			c.Undecided(rule, fn, u.in.Pos(), "scratch:"+core.FuncName(fn), undecided)
		}
	}
}

func instrIndex(in ssa.Instruction) int {
	for i, x := range in.Block().Instrs {
		if x == in {
			return i
		}
	}
	return -1
}

// checkLaneLoopExits (R06.exit): a lane loop visits all 64 lanes. Its only exit is the loop test
// at the header; a `break` or `return` in the body that depends on one lane's data ends the
// instruction for every higher lane (a guard clause written with break instead of continue), so
// their results depend on a lower lane's input.
func checkLaneLoopExits(c *core.Ctx, pkgs []string) {
	st := c.Rule("R06.exit", "a lane loop (a loop whose counter is the lane argument of an operand access) is left only through its own loop test: no edge leads from a block of the loop body to a block outside the loop, and no return lies inside it. A data-dependent break ends the instruction for all higher lanes, which keep their old destination registers: lane j's result then depends on lane i < j", 300)
	for _, rel := range pkgs {
		for _, fn := range c.SrcFuncs(rel) {
			headers := map[*ssa.BasicBlock]bool{}
			for _, b := range fn.Blocks {
				for _, in := range b.Instrs {
					name, cc := stateMethod(in)
					switch name {
					case "ReadOperand", "WriteOperand", "ReadOperandBytes", "WriteOperandBytes":
						if phi := ivOf(cc.Args[1]); phi != nil {
							if l := analyseLoop(phi); l != nil && l.why == "" {
								headers[phi.Block()] = true
							}
						}
					}
				}
			}
			for h := range headers {
				// natural loop of the back edges into h
				loop := map[*ssa.BasicBlock]bool{h: true}
				var stack []*ssa.BasicBlock
				for _, p := range h.Preds {
					if h.Dominates(p) {
						stack = append(stack, p)
					}
				}
				if len(stack) == 0 {
					continue
				}
				for len(stack) > 0 {
					x := stack[len(stack)-1]
					stack = stack[:len(stack)-1]
					if loop[x] {
						continue
					}
					loop[x] = true
					stack = append(stack, x.Preds...)
				}
				st.Instances++
				c.MarkAnalysed(fn)
				var bad ssa.Instruction
				for b := range loop {
					last := b.Instrs[len(b.Instrs)-1]
					if _, isRet := last.(*ssa.Return); isRet {
						bad = last
					}
					if b == h {
						continue
					}
					for _, s := range b.Succs {
						if !loop[s] {
							bad = last
						}
					}
				}
				st.Ob(bad == nil)
				if bad != nil {
					c.ReportAt("R06.exit", fn, bad.Pos(), "lane-loop-left-early:"+core.FuncName(fn), core.FuncName(fn)+" leaves its lane loop from inside the body (a break or return that depends on the current lane's data): every higher active lane is skipped and keeps its old destination register, so its result depends on a lower lane's input and a permutation of the lanes does not permute the results")
				}
			}
			checkLaneClosureExit(c, st, fn)
		}
	}
}

// checkLaneClosureExit: the lane loop written as a walker with a callback. A function literal
// whose int parameter is the lane argument of an operand access and whose bool result is tested
// by the function it is handed to (the walk goes on or stops) is a lane-loop body; its result
// is the loop's exit. It must be the same constant on every path (always go on; or, for an
// instruction that only wants the first active lane, always stop): a result that differs
// between paths is a data-dependent break.
func checkLaneClosureExit(c *core.Ctx, st *core.RuleStat, fn *ssa.Function) {
	for _, lit := range fn.AnonFuncs {
		checkLaneClosureExit(c, st, lit)
		sig := lit.Signature
		if sig.Params().Len() != 1 || sig.Results().Len() != 1 || len(lit.Params) != 1 {
			continue
		}
		if bt, ok := sig.Results().At(0).Type().Underlying().(*types.Basic); !ok || bt.Kind() != types.Bool {
			continue
		}
		lane := lit.Params[0]
		usesLane := false
		for _, b := range lit.Blocks {
			for _, in := range b.Instrs {
				name, cc := stateMethod(in)
				switch name {
				case "ReadOperand", "WriteOperand", "ReadOperandBytes", "WriteOperandBytes":
					if core.StripConv(cc.Args[1]) == ssa.Value(lane) {
						usesLane = true
					}
				}
			}
		}
		if !usesLane {
			continue
		}
		// the function the literal is handed to tests what it returns
		tested := false
		for _, b := range fn.Blocks {
			for _, in := range b.Instrs {
				cc := core.CallOf(in)
				if cc == nil || cc.StaticCallee() == nil {
					continue
				}
				for i, a := range cc.Args {
					mc, ok := a.(*ssa.MakeClosure)
					if !ok || mc.Fn != ssa.Value(lit) || i >= len(cc.StaticCallee().Params) {
						continue
					}
					par := cc.StaticCallee().Params[i]
					for _, r := range *par.Referrers() {
						call, ok := r.(*ssa.Call)
						if !ok || call.Call.Value != ssa.Value(par) || call.Referrers() == nil {
							continue
						}
						for _, u := range *call.Referrers() {
							switch x := u.(type) {
							case *ssa.If:
								tested = true
							case *ssa.UnOp:
								if x.Op == token.NOT {
									tested = true
								}
							}
						}
					}
				}
			}
		}
		if !tested {
			continue
		}
		st.Instances++
		c.MarkAnalysed(lit)
		vals := map[string]ssa.Instruction{}
		for _, b := range lit.Blocks {
			if r, ok := b.Instrs[len(b.Instrs)-1].(*ssa.Return); ok && len(r.Results) == 1 {
				k := "varying"
				if cb, isC := core.ConstBool(r.Results[0]); isC {
					k = fmt.Sprint(cb)
				}
				vals[k] = r
			}
		}
		ok := len(vals) == 1 && vals["varying"] == nil
		st.Ob(ok)
		if !ok {
			var at ssa.Instruction
			for _, r := range vals {
				if at == nil || r.Pos() > at.Pos() {
					at = r
				}
			}
			c.ReportAt("R06.exit", fn, at.Pos(), "lane-loop-left-early:"+core.FuncName(fn), core.FuncName(fn)+" hands its per-lane body to a lane walker as a function whose result says whether the walk goes on, and that result is not the same on every path: on some input of the current lane the walk stops, every higher active lane is skipped and keeps its old destination register, so its result depends on a lower lane's input")
		}
	}
}
