package rules

import (
	"fmt"
	"go/constant"
	"go/token"
	"go/types"
	"math/bits"
	"sort"
	"strings"

	"golang.org/x/tools/go/ssa"

	"verif/internal/core"
)

// R03.20: SDWA sub-dword selection.
//
// (a) The SDWA select fields of an instruction (Src0Sel, Src1Sel, DstSel,
//     DstUnused) are consumed only by the select helpers (or compared): a
//     handler that uses a select constant as a raw mask places the field
//     without shifting it.
// (b) Every select helper is decided exactly with BITPROV for every select
//     constant (and every dst_unused mode): a source select returns the chosen
//     field in the low bits, zero above; a destination select places the low
//     bits of the new value in the chosen field and fills the rest with zeros
//     (PAD), with the field's sign bit above and zeros below (SEXT), or with
//     the old register value (PRESERVE).

func checkSDWASelect(c *core.Ctx, alus []aluDesc, prov *core.Prov) {
	st := c.Rule("R03.20", "SDWA sub-dword selection: (a) the select fields of an instruction (Src0Sel, Src1Sel, DstSel, DstUnused) are consumed only as arguments of the select helpers or in comparisons, never as raw masks; (b) every select helper of both ALUs, bound to each select constant and each dst_unused mode, is evaluated on symbolic bit vectors (BITPROV) and the origin of every result bit is compared with the ISA: source select = chosen field in the low bits, zero above; destination select = low bits of the result in the chosen field, other bits zero (UNUSED_PAD), sign of the field above and zero below (UNUSED_SEXT), or the old register bits (UNUSED_PRESERVE)", 30)

	instsP := c.Pkg(instsPkg)
	if instsP == nil {
		return
	}
	// select constants from the type-checked insts package
	type named struct {
		name string
		val  uint64
	}
	var sels, unuseds []named
	sc := instsP.Types.Scope()
	for _, n := range sc.Names() {
		k, ok := sc.Lookup(n).(*types.Const)
		if !ok {
			continue
		}
		tn, ok := k.Type().(*types.Named)
		if !ok {
			continue
		}
		v, exact := constant.Uint64Val(k.Val())
		if !exact {
			continue
		}
		switch tn.Obj().Name() {
		case "SDWASelect":
			sels = append(sels, named{n, v})
		case "SDWAUnused":
			unuseds = append(unuseds, named{n, v})
		}
	}
	sort.Slice(sels, func(i, j int) bool { return sels[i].val < sels[j].val })
	sort.Slice(unuseds, func(i, j int) bool { return unuseds[i].val < unuseds[j].val })
	if len(sels) != 7 || len(unuseds) != 3 {
		c.Report(core.Finding{Rule: "R03.20", Kind: "undecided", Pkg: instsPkg, Func: "SDWASelect", Detail: "constants", Msg: fmt.Sprintf("expected 7 SDWASelect and 3 SDWAUnused constants, found %d and %d", len(sels), len(unuseds))})
		return
	}
	unusedMode := func(n string) string {
		l := strings.ToLower(n)
		switch {
		case strings.Contains(l, "pad"):
			return "pad"
		case strings.Contains(l, "sext"):
			return "sext"
		case strings.Contains(l, "preserve"):
			return "preserve"
		}
		return ""
	}

	fieldSet := map[string]bool{"Src0Sel": true, "Src1Sel": true, "DstSel": true, "DstUnused": true}
	type role struct {
		fn    *ssa.Function
		roles []string // per parameter (incl. receiver): "", "sel", "unused", "old", "new", "src"
		isDst bool
	}
	helpers := map[*ssa.Function]*role{}

	// ---- (a) field discipline, and discovery of the helpers
	for _, a := range alus {
		for _, fn := range c.SrcFuncs(a.pkg) {
			for _, b := range fn.Blocks {
				for _, in := range b.Instrs {
					fa, ok := in.(*ssa.FieldAddr)
					if !ok {
						continue
					}
					stT, ok := fa.X.Type().Underlying().(*types.Pointer)
					if !ok {
						continue
					}
					sT, ok := stT.Elem().Underlying().(*types.Struct)
					if !ok {
						continue
					}
					fname := sT.Field(fa.Field).Name()
					if !fieldSet[fname] {
						continue
					}
					if nt, ok := stT.Elem().(*types.Named); !ok || nt.Obj().Name() != "Inst" {
						continue
					}
					for _, ld := range *fa.Referrers() {
						load, ok := ld.(*ssa.UnOp)
						if !ok || load.Op != token.MUL {
							continue
						}
						for _, use := range *load.Referrers() {
							st.Instances++
							okUse := false
							switch u := use.(type) {
							case *ssa.DebugRef:
								st.Instances--
								continue
							case *ssa.Call:
								if cal := u.Call.StaticCallee(); cal != nil && len(cal.Blocks) > 0 {
									okUse = true
									r := helpers[cal]
									if r == nil {
										r = &role{fn: cal, roles: make([]string, len(cal.Params))}
										helpers[cal] = r
									}
									// the select of source K is applied to source K
									if fname == "Src0Sel" || fname == "Src1Sel" {
										wantSrc := strings.TrimSuffix(fname, "Sel")
										got := map[string]bool{}
										for _, arg := range u.Call.Args {
											if arg == ssa.Value(load) {
												continue
											}
											dependsOn(arg, func(x ssa.Value) bool {
												if in2, ok := x.(ssa.Instruction); ok {
													if n, cc2 := stateMethod(in2); n == "ReadOperand" {
														if f := operandFieldName(cc2.Args[0]); f == "Src0" || f == "Src1" {
															got[f] = true
														}
													}
												}
												return false
											}, map[ssa.Value]bool{})
										}
										if len(got) > 0 {
											st.Instances++
											okPair := got[wantSrc] && len(got) == 1
											st.Ob(okPair)
											if !okPair {
												c.ReportAt("R03.20", fn, u.Pos(), "select-of-other-source:"+fname, fmt.Sprintf("%s selects the sub-dword of a value read from %v with inst.%s: the ISA selects SRC0 with src0_sel and SRC1 with src1_sel, so an SDWA instruction whose two selects differ takes the wrong field of one source", core.FuncName(fn), sortedKeys(got), fname))
											}
										}
									}
									off := len(cal.Params) - len(u.Call.Args)
									for i, arg := range u.Call.Args {
										if i+off < 0 || i+off >= len(r.roles) {
											continue
										}
										pv := prov.Of(arg)
										switch {
										case strings.HasSuffix(pv, ".DstSel"):
											r.roles[i+off] = "sel"
											r.isDst = true
										case strings.HasSuffix(pv, ".Src0Sel"), strings.HasSuffix(pv, ".Src1Sel"):
											r.roles[i+off] = "sel"
										case strings.HasSuffix(pv, ".DstUnused"):
											r.roles[i+off] = "unused"
										}
									}
								}
							case *ssa.BinOp:
								okUse = u.Op == token.EQL || u.Op == token.NEQ
							}
							st.Ob(okUse)
							if !okUse {
								c.ReportAt("R03.20", fn, use.Pos(), "select-field-as-mask:"+fname, fmt.Sprintf("%s uses inst.%s directly (%T) instead of passing it to a select helper: a select constant used as a mask keeps the field in place instead of moving it to / from the low bits", core.FuncName(fn), fname, use))
							}
						}
					}
				}
			}
		}
	}

	// remaining roles of the helpers from their parameter types / order
	var hs []*role
	for _, r := range helpers {
		hs = append(hs, r)
	}
	sort.Slice(hs, func(i, j int) bool { return hs[i].fn.Pos() < hs[j].fn.Pos() })
	for _, r := range hs {
		fn := r.fn
		c.MarkAnalysed(fn)
		var free []int
		for i, p := range fn.Params {
			if i == 0 && fn.Signature.Recv() != nil {
				r.roles[i] = "recv"
				continue
			}
			if r.roles[i] == "" {
				if w, _, ok := typeWidth(p.Type()); ok && w >= 32 {
					free = append(free, i)
				}
			}
		}
		if r.isDst {
			// by name first (dstOld / dstNew), else by order (old, new)
			for _, i := range free {
				n := strings.ToLower(fn.Params[i].Name())
				if strings.Contains(n, "old") {
					r.roles[i] = "old"
				} else if strings.Contains(n, "new") {
					r.roles[i] = "new"
				}
			}
			if len(free) == 2 && r.roles[free[0]] == "" && r.roles[free[1]] == "" {
				r.roles[free[0]], r.roles[free[1]] = "old", "new"
			}
			if len(free) == 1 && r.roles[free[0]] == "" {
				r.roles[free[0]] = "new"
			}
		} else if len(free) == 1 {
			r.roles[free[0]] = "src"
		}

		hasUnused := false
		for _, x := range r.roles {
			if x == "unused" {
				hasUnused = true
			}
		}
		modes := []named{{"", 0}}
		if r.isDst {
			modes = unuseds
		}
		for _, sel := range sels {
			for _, md := range modes {
				st.Instances++
				args := make([]pval, len(fn.Params))
				for i, x := range r.roles {
					switch x {
					case "sel":
						args[i] = pConst(sel.val, 32)
					case "unused":
						w, _, _ := typeWidth(fn.Params[i].Type())
						args[i] = pConst(md.val, w)
					case "old":
						args[i] = pSym("old", 32)
					case "new":
						args[i] = pSym("new", 32)
					case "src":
						args[i] = pSym("src", 32)
					default:
						if w, _, ok := typeWidth(fn.Params[i].Type()); ok && w == 1 {
							args[i] = pBoolOf(pbit{k: '0'}) // optional flags (sign extension of a source) off
						}
					}
				}
				ev := &bpEval{}
				got := ev.Call(fn, args)
				mask := uint32(sel.val)
				sh, w := bits.TrailingZeros32(mask), bits.OnesCount32(mask)
				var want pval
				mode := ""
				if r.isDst {
					mode = unusedMode(md.name)
					if !hasUnused {
						mode = "pad-only"
					}
					want = pval{kind: pVec, w: 32}
					for i := 0; i < 64; i++ {
						want.bits[i] = pbit{k: '0'}
					}
					for i := 0; i < 32; i++ {
						switch {
						case i >= sh && i < sh+w:
							want.bits[i] = pbit{k: 's', src: "new", i: i - sh}
						case mode == "preserve":
							want.bits[i] = pbit{k: 's', src: "old", i: i}
						case mode == "sext" && i >= sh+w:
							want.bits[i] = pbit{k: 's', src: "new", i: w - 1}
						}
					}
				} else {
					want = pval{kind: pVec, w: 32}
					for i := 0; i < 64; i++ {
						want.bits[i] = pbit{k: '0'}
						if i < w {
							want.bits[i] = pbit{k: 's', src: "src", i: sh + i}
						}
					}
				}
				label := sel.name
				if r.isDst {
					label += "/" + md.name
				}
				if got.kind != pVec {
					st.Ob(false)
					c.Report(core.Finding{Rule: "R03.20", Kind: "undecided", Pkg: core.FuncPkg(fn), Func: core.FuncName(fn), Detail: "select-helper-not-modelled:" + label, Pos: c.Position(fn.Pos()), Msg: fmt.Sprintf("%s could not be evaluated on bit vectors for %s: %s", core.FuncName(fn), label, ev.why)})
					continue
				}
				same := true
				for i := 0; i < 32; i++ {
					if got.bits[i] != want.bits[i] {
						same = false
					}
				}
				st.Ob(same)
				if !same {
					c.ReportAt("R03.20", fn, fn.Pos(), "select-bits:"+label, fmt.Sprintf("%s(%s) yields bits [31..0] = %s; the ISA prescribes %s", core.FuncName(fn), label, got.render(32), want.render(32)))
				}
			}
		}
		kind := "source"
		if r.isDst {
			kind = "destination"
		}
		st.Sample("%s.%s: %s select helper, roles %v, %d select constants x %d modes evaluated", core.FuncPkg(fn), core.FuncName(fn), kind, r.roles, len(sels), len(modes))
	}
}

// R03.21: an SDWA-encoded instruction is never executed as a plain one.
//
// The decoder marks VOP2 words whose SRC0 is the SDWA marker (IsSdwa) and
// replaces the operands by those of the SDWA dword. A handler that never
// looks at the flag executes the instruction with full-dword operands and a
// full-dword result: silently wrong for every select other than DWORD. Every
// handler of a format in which the decoder can set the flag therefore tests
// it (itself or in a callee it always delegates to), or the dispatcher
// rejects SDWA for its opcode before dispatching.
func checkSDWAHandled(c *core.Ctx, alus []aluDesc, handlers []handlerRef) {
	st := c.Rule("R03.21", "an SDWA-encoded instruction is never executed as a plain one: for every format in which the decoder sets Inst.IsSdwa (found from the stores to the field in amd/insts), every handler dispatched for that format reads the flag (itself or in a repository callee), or the format's dispatcher tests the flag and reaches the handler's opcode only on paths where it is clear", 40)

	// formats whose decode function stores IsSdwa = true
	sdwaFormats := map[string]bool{}
	for _, fn := range c.SrcFuncs(instsPkg) {
		for _, b := range fn.Blocks {
			for _, in := range b.Instrs {
				s, ok := in.(*ssa.Store)
				if !ok {
					continue
				}
				fa, ok := s.Addr.(*ssa.FieldAddr)
				if !ok || fieldNameOf(fa) != "IsSdwa" {
					continue
				}
				if k, ok := s.Val.(*ssa.Const); !ok || k.Value == nil || !constant.BoolVal(k.Value) {
					continue
				}
				if n := fn.Name(); strings.HasPrefix(n, "decode") {
					sdwaFormats[strings.TrimPrefix(n, "decode")] = true
				}
			}
		}
	}
	if len(sdwaFormats) == 0 {
		c.Report(core.Finding{Rule: "R03.21", Kind: "anchor", Pkg: instsPkg, Func: "-", Detail: "issdwa-store", Msg: "no decode function stores Inst.IsSdwa = true: the rule lost its subject"})
		return
	}
	st.Sample("formats in which the decoder sets IsSdwa: %v", sortedKeys(sdwaFormats))

	readsFlag := map[*ssa.Function]int{} // 0 unknown, 1 yes, 2 no
	var reads func(fn *ssa.Function, d int) bool
	reads = func(fn *ssa.Function, d int) bool {
		if fn == nil || len(fn.Blocks) == 0 || d > 2 {
			return false
		}
		if v := readsFlag[fn]; v != 0 {
			return v == 1
		}
		readsFlag[fn] = 2
		for _, b := range fn.Blocks {
			for _, in := range b.Instrs {
				if fa, ok := in.(*ssa.FieldAddr); ok && fieldNameOf(fa) == "IsSdwa" {
					readsFlag[fn] = 1
					return true
				}
			}
		}
		for _, b := range fn.Blocks {
			for _, in := range b.Instrs {
				if cc := core.CallOf(in); cc != nil {
					if cal := cc.StaticCallee(); cal != nil && cal.Pkg == fn.Pkg && reads(cal, d+1) {
						readsFlag[fn] = 1
						return true
					}
				}
			}
		}
		return false
	}

	for _, a := range alus {
		disp, _ := dispatchersOf(c, a)
		for format := range sdwaFormats {
			dname := disp[format]
			if dname == "" {
				continue
			}
			dfn := c.SSAFunc(a.pkg, a.typ+"."+dname)
			if dfn == nil {
				continue
			}
			c.MarkAnalysed(dfn)
			// opcodes that can reach the dispatch switch with the flag set
			passes := sdwaOpcodesPassing(dfn)
			for _, h := range handlers {
				if h.alu != a || h.format != format {
					continue
				}
				fn := c.SSAFunc(a.pkg, a.typ+"."+h.name)
				if fn == nil {
					continue
				}
				st.Instances++
				ok := reads(fn, 0)
				if !ok {
					ok = true
					for _, o := range h.opcodes {
						if passes(o) {
							ok = false
						}
					}
				}
				st.Ob(ok)
				if !ok {
					c.ReportAt("R03.21", fn, fn.Pos(), "sdwa-ignored:"+h.name, fmt.Sprintf("%s (%s opcodes %v, %s) never looks at inst.IsSdwa and %s dispatches to it with the flag set: an SDWA-encoded instruction is executed with full-dword operands and result", h.name, format, h.opcodes, strings.Join(h.insts, "/"), dname))
				}
			}
		}
	}
}

func fieldNameOf(fa *ssa.FieldAddr) string {
	pt, ok := fa.X.Type().Underlying().(*types.Pointer)
	if !ok {
		return ""
	}
	stT, ok := pt.Elem().Underlying().(*types.Struct)
	if !ok {
		return ""
	}
	return stT.Field(fa.Field).Name()
}

// sdwaOpcodesPassing looks for `if inst.IsSdwa { ... }` in a dispatcher and
// returns which opcodes rejoin, from the flag-set arm, the code that runs with
// the flag clear (i.e. are not rejected by a panic): passes(op).
// Without such a test every opcode passes.
func sdwaOpcodesPassing(fn *ssa.Function) func(op int64) bool {
	var test *ssa.If
	neg := false
	for _, b := range fn.Blocks {
		iff, ok := b.Instrs[len(b.Instrs)-1].(*ssa.If)
		if !ok {
			continue
		}
		cond := iff.Cond
		n := false
		if u, ok := cond.(*ssa.UnOp); ok && u.Op == token.NOT {
			cond, n = u.X, true
		}
		if ld, ok := cond.(*ssa.UnOp); ok && ld.Op == token.MUL {
			if fa, ok := ld.X.(*ssa.FieldAddr); ok && fieldNameOf(fa) == "IsSdwa" {
				test, neg = iff, n
				break
			}
		}
	}
	if test == nil {
		return func(int64) bool { return true }
	}
	tb := test.Block()
	setArm, clearArm := tb.Succs[0], tb.Succs[1]
	if neg {
		setArm, clearArm = clearArm, setArm
	}
	clearReach := map[*ssa.BasicBlock]bool{}
	var mark func(b *ssa.BasicBlock)
	mark = func(b *ssa.BasicBlock) {
		if clearReach[b] {
			return
		}
		clearReach[b] = true
		for _, s := range b.Succs {
			mark(s)
		}
	}
	mark(clearArm)
	// arrivals at the common code: a fixed opcode, or "any opcode except ..."
	fixed := map[int64]bool{}
	var others []map[int64]bool
	var walk func(b *ssa.BasicBlock, op int64, excl map[int64]bool, depth int)
	walk = func(b *ssa.BasicBlock, op int64, excl map[int64]bool, depth int) {
		if depth > 4000 {
			others = append(others, map[int64]bool{})
			return
		}
		if clearReach[b] {
			if op >= 0 {
				fixed[op] = true
			} else {
				cp := map[int64]bool{}
				for k := range excl {
					cp[k] = true
				}
				others = append(others, cp)
			}
			return
		}
		last := b.Instrs[len(b.Instrs)-1]
		if _, ok := last.(*ssa.Panic); ok {
			return
		}
		for _, in := range b.Instrs {
			if cc := core.CallOf(in); cc != nil {
				if cal := cc.StaticCallee(); cal != nil && cal.Pkg != nil && cal.Pkg.Pkg.Path() == "log" && (strings.HasPrefix(cal.Name(), "Panic") || strings.HasPrefix(cal.Name(), "Fatal")) {
					return
				}
			}
		}
		if iff, ok := last.(*ssa.If); ok {
			if bo, ok := iff.Cond.(*ssa.BinOp); ok && bo.Op == token.EQL && op < 0 {
				if k, ok := bo.Y.(*ssa.Const); ok && k.Value != nil && k.Value.Kind() == constant.Int {
					if v, exact := constant.Int64Val(k.Value); exact {
						if !excl[v] {
							walk(b.Succs[0], v, nil, depth+1)
						}
						e2 := map[int64]bool{v: true}
						for k2 := range excl {
							e2[k2] = true
						}
						walk(b.Succs[1], -1, e2, depth+1)
						return
					}
				}
			}
		}
		for _, sc := range b.Succs {
			walk(sc, op, excl, depth+1)
		}
	}
	walk(setArm, -1, map[int64]bool{}, 0)
	return func(op int64) bool {
		if fixed[op] {
			return true
		}
		for _, e := range others {
			if !e[op] {
				return true
			}
		}
		return false
	}
}
