package rules

import (
	"fmt"
	"go/token"
	"go/types"
	"regexp"
	"strings"

	"golang.org/x/tools/go/ssa"

	"verif/internal/core"
)

// Rules written after the eighteenth seeding batch (one member of a pair of siblings changed).

// checkI24SourcesSignExtended (R03.50).
var i24Mnemonic = regexp.MustCompile(`_i24(_e32|_e64)?$`)

func checkI24SourcesSignExtended(c *core.Ctx, handlers []handlerRef) {
	st := c.Rule("R03.50", "the 24-bit signed multiplies (v_mul_i32_i24, v_mul_hi_i32_i24, v_mad_i32_i24) take each of their two factors as a 24-bit value sign-extended from bit 23: on the way from each factor's operand read to the product there is a path through a 24-bit sign extension - bitops.SignExt(.., 23), an OR with 0xFF000000 (under the test of bit 23), or an arithmetic `>> 8` of a signed 32-bit value. A logical shift (the cast one parenthesis too late) zero-extends: a negative second factor is read as factor + 2^24", 4)
	seen := map[string]bool{}
	for _, h := range handlers {
		match := ""
		for _, n := range h.insts {
			if i24Mnemonic.MatchString(strings.TrimSpace(n)) {
				match = strings.TrimSpace(n)
			}
		}
		key := h.alu.pkg + "." + h.name
		if match == "" || seen[key] {
			continue
		}
		seen[key] = true
		fn := c.SSAFunc(h.alu.pkg, h.alu.typ+"."+h.name)
		if fn == nil {
			continue
		}
		for _, b := range fn.Blocks {
			for _, in := range b.Instrs {
				name, cc := stateMethod(in)
				if name != "ReadOperand" || cc == nil {
					continue
				}
				f := core.LoadedField(cc.Args[0])
				if f == nil || (f.Name() != "Src0" && f.Name() != "Src1") {
					continue
				}
				st.Instances++
				c.MarkAnalysed(fn)
				ok := false
				type key struct {
					v ssa.Value
					w bool
				}
				seenV := map[key]bool{}
				var walk func(v ssa.Value, witness bool, d int)
				walk = func(v ssa.Value, witness bool, d int) {
					if d > 14 || ok || seenV[key{v, witness}] || v.Referrers() == nil {
						return
					}
					seenV[key{v, witness}] = true
					for _, r := range *v.Referrers() {
						switch x := r.(type) {
						case *ssa.BinOp:
							w := witness
							switch x.Op {
							case token.MUL:
								if witness {
									ok = true
									return
								}
							case token.OR:
								for _, o := range []ssa.Value{x.X, x.Y} {
									if k, isC := core.ConstInt(o); isC && uint32(k) == 0xFF000000 {
										w = true
									}
								}
							case token.SHR:
								if k, isC := core.ConstInt(x.Y); isC && k == 8 && x.X == v {
									if bt, isB := x.X.Type().Underlying().(*types.Basic); isB && bt.Info()&types.IsUnsigned == 0 {
										w = true
									}
								}
							}
							walk(x, w, d+1)
						case *ssa.Convert:
							walk(x, witness, d+1)
						case *ssa.ChangeType:
							walk(x, witness, d+1)
						case *ssa.Phi:
							walk(x, witness, d+1)
						case *ssa.Call:
							w := witness
							if cal := x.Call.StaticCallee(); cal != nil && cal.Name() == "SignExt" {
								if k, isC := core.ConstInt(x.Call.Args[len(x.Call.Args)-1]); isC && k == 23 {
									w = true
								}
							}
							if x.Call.StaticCallee() != nil {
								walk(x, w, d+1)
							}
						}
					}
				}
				walk(in.(ssa.Value), false, 0)
				st.Ob(ok)
				st.Sample("%s.%s (%s): %s reaches the product through a 24-bit sign extension: %v", h.alu.typ, h.name, match, f.Name(), ok)
				if !ok {
					c.ReportAt("R03.50", fn, in.Pos(), "i24-factor-not-sign-extended:"+match+":"+f.Name(), fmt.Sprintf("%s (%s) multiplies with %s without sign-extending it from bit 23 on any path: a factor with bit 23 set is taken as factor + 2^24 (5 * -3 gives 0x04fffff1)", h.name, match, f.Name()))
				}
			}
		}
	}
}

// checkOperandDecodedFromOwnBytes (R07.12).
func checkOperandDecodedFromOwnBytes(c *core.Ctx, pkgs ...string) {
	st := c.Rule("R07.12", "ReadOperand decodes its 64-bit answer from bytes that belong to the call: the buffer handed to BytesToUint64 / binary.LittleEndian.Uint64 in ReadOperand of both register stores is the accessor's own result or a buffer created in the call (make, a local array), never a field of the wavefront. A per-wavefront scratch buffer that a one-byte register (SCC) overwrites only in part returns the upper bytes of whatever was read before", 1)
	for _, rel := range pkgs {
		for _, fn := range c.SrcFuncs(rel) {
			if fn.Name() != "ReadOperand" {
				continue
			}
			for _, b := range fn.Blocks {
				for _, in := range b.Instrs {
					cc := core.CallOf(in)
					if cc == nil {
						continue
					}
					name := ""
					if cal := cc.StaticCallee(); cal != nil {
						name = cal.Name()
					} else if cc.IsInvoke() {
						name = cc.Method.Name()
					}
					if name != "BytesToUint64" && name != "Uint64" && name != "BytesToUint32" && name != "Uint32" {
						continue
					}
					st.Instances++
					c.MarkAnalysed(fn)
					shared := ""
					seen := map[ssa.Value]bool{}
					var walk func(v ssa.Value, d int)
					walk = func(v ssa.Value, d int) {
						if d > 8 || seen[v] {
							return
						}
						seen[v] = true
						switch x := v.(type) {
						case *ssa.Slice:
							walk(x.X, d+1)
						case *ssa.Phi:
							for _, e := range x.Edges {
								walk(e, d+1)
							}
						case *ssa.FieldAddr:
							if _, isParam := x.X.(*ssa.Parameter); isParam {
								shared = fieldNameOf(x)
							}
						case *ssa.UnOp:
							if fa, ok := x.X.(*ssa.FieldAddr); ok {
								if _, isParam := fa.X.(*ssa.Parameter); isParam {
									if _, isArr := x.Type().Underlying().(*types.Array); isArr {
										shared = fieldNameOf(fa)
									}
								}
							}
						}
					}
					walk(cc.Args[len(cc.Args)-1], 0)
					st.Ob(shared == "")
					if shared != "" {
						c.ReportAt("R07.12", fn, in.Pos(), "operand-decoded-from-shared-buffer:"+shared, core.FuncName(fn)+" decodes its answer from the wavefront's field "+shared+": a register narrower than the buffer overwrites only its own bytes, and the answer carries the upper bytes of the previous read (an SCC operand read after s7 = 0x12345678 returns 0x12345601)")
					}
				}
			}
		}
	}
}

// checkLaunchPathsMarkDirty (R12.25 / R11.16).
func checkLaunchPathsMarkDirty(c *core.Ctx, rule string, pd *PkgInfo) {
	st := c.Rule(rule, "every launch path of the driver records that the kernel may have written any buffer of the process: each function of the driver that builds a LaunchKernelReq calls Driver.markBuffersDirty with the pid of the launching context (the single-GPU and the unified multi-GPU launch alike). needFlushing looks across all contexts of the process; a launch path that marks only the launching context's own buffers leaves a buffer allocated through a sibling context (InitWithExistingPID) clean, and a copy after the kernel is not flushed", 2)
	for _, fn := range pd.Funcs {
		builds := false
		var marks *ssa.Call
		for _, b := range fn.Blocks {
			for _, in := range b.Instrs {
				cc := core.CallOf(in)
				if cc == nil || cc.StaticCallee() == nil {
					continue
				}
				switch cc.StaticCallee().Name() {
				case "NewLaunchKernelReq":
					builds = true
				case "markBuffersDirty":
					if call, ok := in.(*ssa.Call); ok {
						marks = call
					}
				}
			}
		}
		if !builds {
			continue
		}
		st.Instances++
		c.MarkAnalysed(fn)
		ok := marks != nil
		if ok {
			pv := core.NewLocalProv(c).Of(marks.Call.Args[len(marks.Call.Args)-1])
			ok = strings.HasSuffix(pv, ".pid")
		}
		st.Ob(ok)
		st.Sample("%s builds a LaunchKernelReq and marks the process's buffers dirty: %v", core.FuncName(fn), ok)
		if !ok {
			c.ReportAt(rule, fn, fn.Pos(), "launch-without-process-dirty-mark:"+core.FuncName(fn), core.FuncName(fn)+" sends a kernel to the GPU without calling markBuffersDirty(pid): buffers of the process that were allocated through another context stay clean, no flush is sent before a later copy of them, and the copy reads DRAM underneath the kernel's dirty L2 lines")
		}
	}
}

// checkRefusalNotReleased (R14.15).
func checkRefusalNotReleased(c *core.Ctx, pcu *PkgInfo) {
	st := c.Rule("R14.15", "an execution unit of the CU lets go of an instruction only when it was issued: where a function calls a helper of the package that can refuse (a bool result with a `return false` path) and drops the result, no call of UpdatePCAndSetReady follows in that function. A scalar load refused because the read buffer is full would otherwise be released with its PC advanced, no request sent and no outstanding access counted: the s_waitcnt behind it completes at once", 1)
	canRefuse := map[*ssa.Function]bool{}
	var refuses func(f *ssa.Function, d int) bool
	refuses = func(f *ssa.Function, d int) bool {
		if v, ok := canRefuse[f]; ok {
			return v
		}
		canRefuse[f] = false
		res := f.Signature.Results()
		if res.Len() != 1 || len(f.Blocks) == 0 {
			return false
		}
		if bt, ok := res.At(0).Type().Underlying().(*types.Basic); !ok || bt.Kind() != types.Bool {
			return false
		}
		for _, b := range f.Blocks {
			r, ok := b.Instrs[len(b.Instrs)-1].(*ssa.Return)
			if !ok {
				continue
			}
			if k, isC := core.ConstBool(r.Results[0]); isC && !k {
				canRefuse[f] = true
			}
			if call, isCall := r.Results[0].(*ssa.Call); isCall && d < 3 {
				if cal := call.Call.StaticCallee(); cal != nil && cal.Pkg == f.Pkg && refuses(cal, d+1) {
					canRefuse[f] = true
				}
			}
		}
		return canRefuse[f]
	}
	for _, fn := range pcu.Funcs {
		for _, b := range fn.Blocks {
			for _, in := range b.Instrs {
				call, ok := in.(*ssa.Call)
				if !ok || call.Call.StaticCallee() == nil || call.Call.StaticCallee().Pkg != fn.Pkg {
					continue
				}
				if !refuses(call.Call.StaticCallee(), 0) {
					continue
				}
				if call.Referrers() != nil && len(*call.Referrers()) > 0 {
					continue // the result is looked at
				}
				st.Instances++
				c.MarkAnalysed(fn)
				var bad ssa.Instruction
				for _, b2 := range fn.Blocks {
					for _, in2 := range b2.Instrs {
						if cal := core.CalleeFunc(in2); cal != nil && cal.Name() == "UpdatePCAndSetReady" && instrReaches(in, in2) {
							bad = in2
						}
					}
				}
				st.Ob(bad == nil)
				if bad != nil {
					c.ReportAt("R14.15", fn, bad.Pos(), "refused-instruction-released:"+core.FuncName(fn), core.FuncName(fn)+" drops the result of "+core.FuncName(call.Call.StaticCallee())+", which returns false when it cannot issue, and then calls UpdatePCAndSetReady: a refused instruction is released as if it had been issued - for a scalar load, nothing is in flight, lgkmcnt is unchanged and the consumer behind s_waitcnt reads a register that was never loaded")
				}
			}
		}
	}
}
