package rules

import (
	"fmt"
	"go/constant"
	"go/token"
	"go/types"
	"math/big"
	"regexp"
	"strings"

	"golang.org/x/tools/go/ssa"

	"verif/internal/core"
)

// urange: an interval of an unsigned SSA value; top = nothing known beyond the type.
type urange struct {
	lo, hi *big.Int
	top    bool
}

func uTypeBits(t types.Type) (int, bool) {
	b, ok := t.Underlying().(*types.Basic)
	if !ok {
		return 0, false
	}
	switch b.Kind() {
	case types.Uint8:
		return 8, true
	case types.Uint16:
		return 16, true
	case types.Uint32:
		return 32, true
	case types.Uint64, types.Uint, types.Uintptr:
		return 64, true
	}
	return 0, false
}

func maxOfBits(n int) *big.Int {
	return new(big.Int).Sub(new(big.Int).Lsh(big.NewInt(1), uint(n)), big.NewInt(1))
}

func uTop(t types.Type) urange {
	n, ok := uTypeBits(t)
	if !ok {
		n = 64
	}
	return urange{lo: big.NewInt(0), hi: maxOfBits(n), top: true}
}

func sameValue(a, b ssa.Value) bool {
	for {
		if c, ok := a.(*ssa.Convert); ok {
			a = c.X
			continue
		}
		break
	}
	for {
		if c, ok := b.(*ssa.Convert); ok {
			b = c.X
			continue
		}
		break
	}
	return a == b
}

// uRangeOf evaluates an unsigned value; wraps collects the subtractions met on the way
// whose minuend can be smaller than the subtrahend although both are bounded.
func uRangeOf(v ssa.Value, depth int, wraps *[]*ssa.BinOp) urange {
	if depth > 10 {
		return uTop(v.Type())
	}
	if k, ok := v.(*ssa.Const); ok && k.Value != nil && k.Value.Kind() == constant.Int {
		if bi, ok := new(big.Int).SetString(k.Value.ExactString(), 10); ok && bi.Sign() >= 0 {
			return urange{lo: bi, hi: new(big.Int).Set(bi)}
		}
	}
	bits, isU := uTypeBits(v.Type())
	if !isU {
		return uTop(v.Type())
	}
	clamp := func(r urange) urange {
		m := maxOfBits(bits)
		if r.hi.Cmp(m) > 0 {
			return urange{lo: big.NewInt(0), hi: m, top: r.top}
		}
		return r
	}
	switch x := v.(type) {
	case *ssa.Convert:
		if _, ok := uTypeBits(x.X.Type()); !ok {
			return uTop(v.Type())
		}
		in := uRangeOf(x.X, depth+1, wraps)
		m := maxOfBits(bits)
		if in.hi.Cmp(m) > 0 { // narrowing: every value of the narrower type
			return urange{lo: big.NewInt(0), hi: m}
		}
		return urange{lo: in.lo, hi: in.hi} // widening keeps the bound (and is a bound even if the inner was top)
	case *ssa.BinOp:
		switch x.Op {
		case token.AND:
			a, b := uRangeOf(x.X, depth+1, wraps), uRangeOf(x.Y, depth+1, wraps)
			h := a.hi
			if b.hi.Cmp(h) < 0 {
				h = b.hi
			}
			return urange{lo: big.NewInt(0), hi: h}
		case token.SHR:
			// (w & (1 << s)) >> s  is one bit
			if and, ok := x.X.(*ssa.BinOp); ok && and.Op == token.AND {
				for _, side := range []ssa.Value{and.X, and.Y} {
					if shl, ok := side.(*ssa.BinOp); ok && shl.Op == token.SHL {
						if k, ok := core.ConstInt(shl.X); ok && k == 1 && sameValue(shl.Y, x.Y) {
							return urange{lo: big.NewInt(0), hi: big.NewInt(1)}
						}
					}
				}
			}
			a := uRangeOf(x.X, depth+1, wraps)
			if k, ok := core.ConstInt(x.Y); ok && k >= 0 && k < 64 {
				return urange{lo: new(big.Int).Rsh(a.lo, uint(k)), hi: new(big.Int).Rsh(a.hi, uint(k)), top: a.top}
			}
			return urange{lo: big.NewInt(0), hi: a.hi, top: a.top}
		case token.ADD:
			a, b := uRangeOf(x.X, depth+1, wraps), uRangeOf(x.Y, depth+1, wraps)
			r := urange{lo: new(big.Int).Add(a.lo, b.lo), hi: new(big.Int).Add(a.hi, b.hi), top: a.top || b.top}
			if r.hi.Cmp(maxOfBits(bits)) > 0 {
				return uTop(v.Type())
			}
			return r
		case token.SUB:
			a, b := uRangeOf(x.X, depth+1, wraps), uRangeOf(x.Y, depth+1, wraps)
			if a.lo.Cmp(b.hi) >= 0 {
				return urange{lo: new(big.Int).Sub(a.lo, b.hi), hi: new(big.Int).Sub(a.hi, b.lo), top: a.top || b.top}
			}
			if !a.top && !b.top && wraps != nil {
				*wraps = append(*wraps, x)
			}
			return uTop(v.Type())
		case token.REM:
			b := uRangeOf(x.Y, depth+1, wraps)
			if b.hi.Sign() > 0 {
				return urange{lo: big.NewInt(0), hi: new(big.Int).Sub(b.hi, big.NewInt(1))}
			}
		}
	case *ssa.Phi:
		out := urange{}
		for _, e := range x.Edges {
			r := uRangeOf(e, depth+3, wraps)
			if out.lo == nil {
				out = r
				continue
			}
			if r.lo.Cmp(out.lo) < 0 {
				out.lo = r.lo
			}
			if r.hi.Cmp(out.hi) > 0 {
				out.hi = r.hi
			}
			out.top = out.top || r.top
		}
		if out.lo != nil {
			return clamp(out)
		}
	}
	return uTop(v.Type())
}

// R03.27: a carry / borrow / overflow test does not compare against a wrapped difference.
func checkWrappedComparisons(c *core.Ctx) {
	st := c.Rule("R03.27", "a carry, borrow or range test in an ALU handler does not compare against an unsigned difference that can wrap: for every ordering comparison (<, <=, >, >=) of unsigned operands in the two ALUs, each subtraction inside an operand is evaluated over intervals (a conversion from uintN bounds a value by 2^N-1, (w & (1<<s)) >> s and w & 1 are one bit, constants are exact) and the smallest minuend must not be below the largest subtrahend when both are bounded - `src0 > MaxUint32 - carry - src1` in 64-bit arithmetic wraps for src1 = 0xFFFFFFFF, carry = 1 and is then never true", 3)
	for _, rel := range []string{emuPkg, cdna3Pkg} {
		for _, fn := range c.SrcFuncs(rel) {
			for _, b := range fn.Blocks {
				for _, in := range b.Instrs {
					cmp, ok := in.(*ssa.BinOp)
					if !ok {
						continue
					}
					switch cmp.Op {
					case token.LSS, token.LEQ, token.GTR, token.GEQ:
					default:
						continue
					}
					if _, ok := uTypeBits(cmp.X.Type()); !ok {
						continue
					}
					hasSub := false
					for _, side := range []ssa.Value{cmp.X, cmp.Y} {
						if s, ok := side.(*ssa.BinOp); ok && s.Op == token.SUB {
							hasSub = true
						}
					}
					if !hasSub {
						continue
					}
					st.Instances++
					c.MarkAnalysed(fn)
					var wraps []*ssa.BinOp
					uRangeOf(cmp.X, 0, &wraps)
					uRangeOf(cmp.Y, 0, &wraps)
					if len(wraps) > 0 && borrowIdiom(cmp) {
						// (a - b - c) > K with K at least the largest unwrapped value and below every
						// wrapped one: the comparison is exactly "the subtraction borrowed"
						wraps = nil
					}
					st.Ob(len(wraps) == 0)
					for _, w := range wraps {
						a, bb := uRangeOf(w.X, 0, nil), uRangeOf(w.Y, 0, nil)
						c.ReportAt("R03.27", fn, w.Pos(), "wrapped-difference-compared", fmt.Sprintf("%s compares against a difference that wraps below zero: the minuend can be as small as %#x while the subtrahend can be as large as %#x; the wrapped value is close to 2^64, so the test gives the wrong answer for those operands (a lost carry-out)", core.FuncName(fn), a.lo, bb.hi))
					}
				}
			}
		}
	}
}

// R03.28: a lane mask result is written whole.
func checkMaskWrittenWhole(c *core.Ctx) {
	st := c.Rule("R03.28", "a per-lane mask result (carry-out, borrow-out, compare result) is fully written: VCC and SDST are defined for all 64 lanes with zero for the lanes that are switched off in EXEC, so the value given to SetVCC (or written to Inst.SDst) by a handler that accumulates it in a lane loop starts from the constant 0, not from the previous VCC - a handler that starts from state.VCC() leaves stale bits of inactive lanes, which a later s_cbranch_vccnz / v_addc of a differently masked region consumes", 40)
	for _, rel := range []string{emuPkg, cdna3Pkg} {
		for _, fn := range c.SrcFuncs(rel) {
			for _, b := range fn.Blocks {
				for _, in := range b.Instrs {
					cc := core.CallOf(in)
					if cc == nil || !cc.IsInvoke() {
						continue
					}
					var acc ssa.Value
					target := ""
					switch {
					case cc.Method.Name() == "SetVCC" && len(cc.Args) == 1:
						acc, target = cc.Args[0], "VCC"
					case cc.Method.Name() == "WriteOperand" && len(cc.Args) == 3:
						if f := operandFieldName(cc.Args[0]); f == "Dst" || f == "SDst" {
							acc, target = cc.Args[2], f
						}
					}
					phi, ok := acc.(*ssa.Phi)
					if !ok {
						continue
					}
					// a lane-mask accumulator: a phi that is carried around a loop through OR / AND-NOT updates
					derived := map[ssa.Value]bool{}
					var dep func(v ssa.Value, d int) bool
					dep = func(v ssa.Value, d int) bool {
						if v == phi {
							return true
						}
						if d > 6 {
							return false
						}
						if r, ok := derived[v]; ok {
							return r
						}
						derived[v] = false
						r := false
						switch x := v.(type) {
						case *ssa.BinOp:
							if x.Op == token.OR || x.Op == token.AND_NOT || x.Op == token.AND || x.Op == token.XOR {
								r = dep(x.X, d+1) || dep(x.Y, d+1)
							}
						case *ssa.Phi:
							for _, e := range x.Edges {
								if dep(e, d+1) {
									r = true
								}
							}
						}
						derived[v] = r
						return r
					}
					carried := false
					for _, e := range phi.Edges {
						if e != phi && dep(e, 0) {
							carried = true
						}
					}
					if !carried {
						continue
					}
					if target != "VCC" {
						// only masks: the accumulator is updated with single-bit terms (1 << lane)
						if bt, ok := phi.Type().Underlying().(*types.Basic); !ok || bt.Kind() != types.Uint64 {
							continue
						}
					}
					st.Instances++
					c.MarkAnalysed(fn)
					bad := ""
					for _, e := range phi.Edges {
						if e == phi || dep(e, 0) {
							continue
						}
						if k, isC := core.ConstUint(e); isC && k == 0 {
							continue
						}
						if call, ok := e.(*ssa.Call); ok && call.Call.IsInvoke() && call.Call.Method.Name() == "VCC" {
							bad = "the old VCC"
						} else if bad == "" {
							bad = "a value other than 0 (" + e.String() + ")"
						}
					}
					st.Ob(bad == "")
					if bad == "the old VCC" && target == "VCC" {
						c.ReportAt("R03.28", fn, in.Pos(), "mask-accumulated-from-old-vcc", core.FuncName(fn)+" builds the new VCC starting from the old VCC and only updates the bits of active lanes: with EXEC = 0x1 and VCC = 0xFF00 before, v_addc_co_u32 leaves VCC = 0xFF00 | carry instead of just the carry; the GCN3 sibling and the ISA (\"VCC is always fully written\") give zero for inactive lanes")
					} else if bad != "" {
						c.ReportAt("R03.28", fn, in.Pos(), "mask-accumulated-from-nonzero:"+target, core.FuncName(fn)+" accumulates the lane mask it writes to "+target+" starting from "+bad+": the bits of lanes that are switched off in EXEC are not 0 in the result (the ISA writes the mask whole; the e32 form and the other ALU give 0), and a later s_or_b64 exec, exec, mask re-enables lanes that were never active")
					}
				}
			}
		}
	}
}

// R03.29: the carry of an unsigned add / subtract is an unsigned predicate.
func checkUnsignedCarry(c *core.Ctx, handlers []handlerRef) {
	st := c.Rule("R03.29", "the VCC / SDST result of v_add_u32, v_sub_u32, v_subrev_u32, v_addc_u32, v_subb_u32, v_subbrev_u32 (and their _co_ names) is the unsigned carry or borrow: the handlers dispatched for these mnemonics (decode table -> dispatch switch), including the SDWA and VOP3 variants they call, contain no ordering comparison of int32 / int64 operands - a signed-overflow test there reports 0x7FFFFFFF + 1 as a carry and 0xFFFFFFFF + 1 as none", 12)
	carryName := regexp.MustCompile(`^v_(add|sub|subrev|addc|subb|subbrev)(_co)?_u32$`)
	seen := map[*ssa.Function]bool{}
	for _, h := range handlers {
		all := len(h.insts) > 0
		for _, n := range h.insts {
			if !carryName.MatchString(baseMnemonic(n)) {
				all = false
			}
		}
		if !all {
			continue
		}
		root := c.SSAFunc(h.alu.pkg, h.alu.typ+"."+h.name)
		if root == nil {
			continue
		}
		var visit func(fn *ssa.Function, depth int)
		visit = func(fn *ssa.Function, depth int) {
			if seen[fn] || depth > 2 || len(fn.Blocks) == 0 {
				return
			}
			seen[fn] = true
			st.Instances++
			c.MarkAnalysed(fn)
			bad := 0
			for _, b := range fn.Blocks {
				for _, in := range b.Instrs {
					switch x := in.(type) {
					case *ssa.BinOp:
						switch x.Op {
						case token.LSS, token.LEQ, token.GTR, token.GEQ:
							if bt, ok := x.X.Type().Underlying().(*types.Basic); ok && (bt.Kind() == types.Int32 || bt.Kind() == types.Int64) {
								bad++
								if bad == 1 {
									c.ReportAt("R03.29", fn, x.Pos(), "signed-test-in-unsigned-carry", core.FuncName(fn)+" (reached from the handler of "+strings.Join(h.insts, ", ")+") decides the carry bit with a signed comparison: v_add_u32 of 0xFFFFFFFF and 1 gives carry 0, and 0x7FFFFFFF + 1 gives carry 1; the regular form of the same instruction uses the unsigned sum")
								}
							}
						}
					case *ssa.Call:
						if cal := x.Call.StaticCallee(); cal != nil && cal.Signature.Recv() != nil && cal.Pkg == fn.Pkg && strings.HasPrefix(cal.Name(), "run") {
							visit(cal, depth+1)
						}
					}
				}
			}
			st.Ob(bad == 0)
			// the 32-bit sources are reduced to 32 bits before they are used: an inline constant
			// such as -1 is delivered sign-extended to 64 bits
			for _, b := range fn.Blocks {
				for _, in := range b.Instrs {
					call, ok := in.(*ssa.Call)
					if !ok || !(isOperandRead(call, "Src0") || isOperandRead(call, "Src1")) || call.Referrers() == nil {
						continue
					}
					raw := false
					for _, r := range *call.Referrers() {
						switch x := r.(type) {
						case *ssa.DebugRef:
						case *ssa.Convert:
							if w, _, ok := typeWidth(x.Type()); !ok || w > 32 {
								raw = true
							}
						case *ssa.BinOp:
							// masking with a 32-bit constant is a reduction too
							if x.Op == token.AND {
								if k, ok := core.ConstInt(x.Y); ok && k >= 0 && k <= 0xffffffff {
									continue
								}
							}
							raw = true
						default:
							raw = true
						}
					}
					st.Instances++
					st.Ob(!raw)
					if raw {
						c.ReportAt("R03.29", fn, call.Pos(), "source-not-reduced-to-32-bits", core.FuncName(fn)+" uses a 32-bit source as the raw 64-bit value ReadOperand returns: the inline constant -1 arrives as 0xFFFFFFFFFFFFFFFF, so the 64-bit sum or difference wraps and the carry / borrow test gives the wrong answer (v_add_co_u32 v0, vcc, -1, 1 reports no carry; v_subb with -1 reports a wrong borrow)")
					}
				}
			}
		}
		visit(root, 0)
	}
}

// constU64: folds a value to a constant through conversions, the bit-cast helpers
// int32ToBits / Int32ToBits, and +,- of constants.
func constU64(v ssa.Value, depth int) (uint64, bool) {
	if depth > 6 {
		return 0, false
	}
	switch x := v.(type) {
	case *ssa.Const:
		if x.Value == nil {
			return 0, false
		}
		switch x.Value.Kind() {
		case constant.Int:
			if i, ok := constant.Int64Val(x.Value); ok {
				return uint64(i), true
			}
			if u, ok := constant.Uint64Val(x.Value); ok {
				return u, true
			}
		case constant.Float:
			f, _ := constant.Float64Val(x.Value)
			return uint64(int64(f)), true
		}
	case *ssa.Convert:
		k, ok := constU64(x.X, depth+1)
		if !ok {
			return 0, false
		}
		if n, isU := uTypeBits(x.Type()); isU && n < 64 {
			k &= (uint64(1) << uint(n)) - 1
		}
		return k, true
	case *ssa.Call:
		if cal := x.Call.StaticCallee(); cal != nil && (cal.Name() == "int32ToBits" || cal.Name() == "Int32ToBits") && len(x.Call.Args) == 1 {
			k, ok := constU64(x.Call.Args[0], depth+1)
			return k & 0xffffffff, ok
		}
	case *ssa.BinOp:
		a, ok1 := constU64(x.X, depth+1)
		b, ok2 := constU64(x.Y, depth+1)
		if ok1 && ok2 {
			switch x.Op {
			case token.ADD:
				return a + b, true
			case token.SUB:
				return a - b, true
			}
		}
	}
	return 0, false
}

// R03.31: a saturating conversion clamps to the bound it tested.
func checkClampValues(c *core.Ctx) {
	st := c.Rule("R03.31", "a saturating float-to-integer handler clamps to the bound of the integer type: where a handler that converts a floating-point operand to int32 / uint32 branches on `operand <= K`, `operand < K`, `operand >= K` or `operand > K` against a constant at or beyond the type's range, the constant it writes on that branch (directly to WriteOperand, or through the result variable) is the type's minimum for a lower bound and the type's maximum for an upper bound (int32ToBits and constant arithmetic are folded); branches whose value is not a constant are not decided", 6)
	isFloat := func(t types.Type) bool {
		b, ok := t.Underlying().(*types.Basic)
		return ok && b.Info()&types.IsFloat != 0
	}
	var rootF func(v ssa.Value) ssa.Value
	rootF = func(v ssa.Value) ssa.Value {
		if cv, ok := v.(*ssa.Convert); ok && isFloat(cv.X.Type()) && isFloat(cv.Type()) {
			return rootF(cv.X)
		}
		return v
	}
	for _, rel := range []string{emuPkg, cdna3Pkg} {
		for _, fn := range c.SrcFuncs(rel) {
			// the handler's conversion: float operand -> int32 / uint32
			var src ssa.Value
			var signed bool
			for _, b := range fn.Blocks {
				for _, in := range b.Instrs {
					cv, ok := in.(*ssa.Convert)
					if !ok || !isFloat(cv.X.Type()) {
						continue
					}
					if _, isC := cv.X.(*ssa.Const); isC {
						continue
					}
					bk, ok := cv.Type().Underlying().(*types.Basic)
					if !ok {
						continue
					}
					switch bk.Kind() {
					case types.Int32:
						src, signed = rootF(cv.X), true
					case types.Uint32:
						if src == nil {
							src, signed = rootF(cv.X), false
						}
					}
				}
			}
			if src == nil {
				continue
			}
			var tmin, tmax uint64 = 0, 0xffffffff
			var fmin, fmax float64 = 0, 4294967295
			if signed {
				tmin, tmax = 0x80000000, 0x7fffffff
				fmin, fmax = -2147483648, 2147483647
			}
			for _, b := range fn.Blocks {
				iff, ok := b.Instrs[len(b.Instrs)-1].(*ssa.If)
				if !ok {
					continue
				}
				bo, ok := iff.Cond.(*ssa.BinOp)
				if !ok {
					continue
				}
				var k *ssa.Const
				side := 0
				if rootF(bo.X) == src {
					k, _ = bo.Y.(*ssa.Const)
					side = 1
				} else if rootF(bo.Y) == src {
					k, _ = bo.X.(*ssa.Const)
					side = -1
				}
				if k == nil || k.Value == nil {
					continue
				}
				kv, _ := constant.Float64Val(constant.ToFloat(k.Value))
				lower := false
				switch bo.Op {
				case token.LSS, token.LEQ:
					lower = side > 0
				case token.GTR, token.GEQ:
					lower = side < 0
				default:
					continue
				}
				var want uint64
				switch {
				case lower && kv <= fmin:
					want = tmin
				case !lower && kv >= fmax:
					want = tmax
				default:
					continue
				}
				// the constant produced on the true branch
				tb := b.Succs[0]
				var got []uint64
				for _, in := range tb.Instrs {
					if cc := core.CallOf(in); cc != nil && cc.IsInvoke() && cc.Method.Name() == "WriteOperand" && len(cc.Args) == 3 {
						if v, ok := constU64(cc.Args[2], 0); ok {
							got = append(got, v)
						}
					}
				}
				for _, s := range tb.Succs {
					for _, in := range s.Instrs {
						phi, ok := in.(*ssa.Phi)
						if !ok {
							break
						}
						for i, p := range s.Preds {
							if p == tb {
								if v, ok := constU64(phi.Edges[i], 0); ok {
									got = append(got, v)
								}
							}
						}
					}
				}
				if len(got) == 0 {
					st.Sample("%s: branch on %s bound writes no constant (undecided)", core.FuncName(fn), map[bool]string{true: "lower", false: "upper"}[lower])
					continue
				}
				st.Instances++
				c.MarkAnalysed(fn)
				ok2 := true
				for _, g := range got {
					if g&0xffffffff != want {
						ok2 = false
					}
				}
				st.Ob(ok2)
				if !ok2 {
					c.ReportAt("R03.31", fn, bo.Pos(), fmt.Sprintf("clamp-value:%v", map[bool]string{true: "lower", false: "upper"}[lower]), fmt.Sprintf("%s tests its operand against the %s bound %v of the destination type but writes %#x on that branch instead of %#x: an input at or beyond the bound does not saturate to the type's limit", core.FuncName(fn), map[bool]string{true: "lower", false: "upper"}[lower], kv, got[0]&0xffffffff, want))
				}
			}
		}
	}
}

// R03.32: a handler that hands its source through unchanged serves a move.
func checkIdentityHandlers(c *core.Ctx, handlers []handlerRef) {
	st := c.Rule("R03.32", "an instruction handler whose every destination write is the unmodified value it read from a source operand (WriteOperand(Dst, lane, ReadOperand(SrcN, lane')) with at most width conversions in between) is dispatched (decode table -> dispatch switch) only for data-movement mnemonics (mov, cmov, movk, movrel*, readlane, readfirstlane, writelane, swap): any other instruction handled that way is a stub that returns its input", 4)
	move := regexp.MustCompile(`mov|readlane|readfirstlane|writelane|swap|permlane`)
	seen := map[string]bool{}
	for _, h := range handlers {
		key := h.alu.pkg + "." + h.alu.typ + "." + h.name
		if seen[key] {
			continue
		}
		seen[key] = true
		fn := c.SSAFunc(h.alu.pkg, h.alu.typ+"."+h.name)
		if fn == nil {
			continue
		}
		writes, identity := 0, 0
		for _, b := range fn.Blocks {
			for _, in := range b.Instrs {
				cc := core.CallOf(in)
				if cc == nil || !cc.IsInvoke() || cc.Method.Name() != "WriteOperand" || len(cc.Args) != 3 {
					continue
				}
				writes++
				v := cc.Args[2]
				for {
					if cv, ok := v.(*ssa.Convert); ok {
						v = cv.X
						continue
					}
					break
				}
				if call, ok := v.(*ssa.Call); ok && call.Call.IsInvoke() && call.Call.Method.Name() == "ReadOperand" {
					identity++
				}
			}
		}
		if writes == 0 || identity != writes {
			continue
		}
		// a selection (min, max, cndmask, cselect) also writes sources unchanged: only a
		// handler that reads one single source operand is a copy
		srcFields := map[string]bool{}
		for _, b := range fn.Blocks {
			for _, in := range b.Instrs {
				cc := core.CallOf(in)
				if cc == nil || !cc.IsInvoke() || len(cc.Args) == 0 {
					continue
				}
				switch cc.Method.Name() {
				case "ReadOperand", "ReadOperandBytes":
					f := "?"
					if u, ok := cc.Args[0].(*ssa.UnOp); ok {
						if fa, ok := u.X.(*ssa.FieldAddr); ok {
							f = fieldNameOf(fa)
						}
					}
					srcFields[f] = true
				case "VCC", "SCC":
					srcFields[cc.Method.Name()] = true
				}
			}
		}
		if len(srcFields) != 1 {
			continue
		}
		st.Instances++
		c.MarkAnalysed(fn)
		var bad []string
		for _, n := range h.insts {
			if !move.MatchString(baseMnemonic(n)) {
				bad = append(bad, n)
			}
		}
		// other dispatch entries of the same handler
		for _, h2 := range handlers {
			if h2.alu.pkg == h.alu.pkg && h2.alu.typ == h.alu.typ && h2.name == h.name {
				for _, n := range h2.insts {
					if !move.MatchString(baseMnemonic(n)) {
						bad = append(bad, n)
					}
				}
			}
		}
		bad = uniqueStrings(bad)
		st.Ob(len(bad) == 0)
		st.Sample("%s copies its source; dispatched for %v", key, h.insts)
		if len(bad) > 0 {
			c.ReportAt("R03.32", fn, fn.Pos(), "identity-handler:"+strings.Join(bad, "+"), fmt.Sprintf("%s writes its source operand to the destination unchanged but is dispatched for %s: the instruction returns its input instead of its result", core.FuncName(fn), strings.Join(bad, ", ")))
		}
	}
}

func uniqueStrings(in []string) []string {
	m := map[string]bool{}
	var out []string
	for _, s := range in {
		if !m[s] {
			m[s] = true
			out = append(out, s)
		}
	}
	return out
}

// R03.34: a carry read off a 64-bit sum needs 32-bit addends.
func checkCarryAddends(c *core.Ctx) {
	st := c.Rule("R03.34", "a carry-out computed as `sum > 0xFFFFFFFF` (or an equivalent test of bit 32) is computed from addends that are bounded by 2^32-1: in both ALUs, every addend of a sum that is compared with MaxUint32 has a bounded interval (a conversion through uint32, a mask, a one-bit carry); a raw 64-bit ReadOperand value is not bounded - the inline constant -1 is read as 0xFFFFFFFFFFFFFFFF, so `v_add_co_u32 v0, vcc, -1, v1` wraps the 64-bit sum and reports no carry", 6)
	max32 := new(big.Int).SetUint64(0xffffffff)
	isMax32 := func(v ssa.Value) bool {
		k, ok := v.(*ssa.Const)
		if !ok || k.Value == nil || k.Value.Kind() != constant.Int {
			return false
		}
		u, exact := constant.Uint64Val(k.Value)
		return exact && u == 0xffffffff
	}
	var leaves func(v ssa.Value, out *[]ssa.Value, d int)
	leaves = func(v ssa.Value, out *[]ssa.Value, d int) {
		if bo, ok := v.(*ssa.BinOp); ok && bo.Op == token.ADD && d < 6 {
			leaves(bo.X, out, d+1)
			leaves(bo.Y, out, d+1)
			return
		}
		*out = append(*out, v)
	}
	for _, rel := range []string{emuPkg, cdna3Pkg} {
		for _, fn := range c.SrcFuncs(rel) {
			for _, b := range fn.Blocks {
				for _, in := range b.Instrs {
					cmp, ok := in.(*ssa.BinOp)
					if !ok {
						continue
					}
					var sum ssa.Value
					switch {
					case cmp.Op == token.GTR && isMax32(cmp.Y):
						sum = cmp.X
					case cmp.Op == token.LSS && isMax32(cmp.X):
						sum = cmp.Y
					default:
						continue
					}
					add, ok := sum.(*ssa.BinOp)
					if !ok || add.Op != token.ADD {
						continue
					}
					if bits, isU := uTypeBits(add.Type()); !isU || bits != 64 {
						continue
					}
					st.Instances++
					c.MarkAnalysed(fn)
					var ls []ssa.Value
					leaves(add, &ls, 0)
					bad := ""
					for _, l := range ls {
						r := uRangeOf(l, 0, nil)
						if r.top || r.hi.Cmp(max32) > 0 {
							bad = l.Name()
							if call, ok := l.(*ssa.Call); ok && call.Call.IsInvoke() {
								bad = call.Call.Method.Name() + "(...)"
							}
						}
					}
					st.Ob(bad == "")
					if bad != "" {
						c.ReportAt("R03.34", fn, cmp.Pos(), "carry-from-unbounded-addend", core.FuncName(fn)+" reads the carry off a 64-bit sum whose addend "+bad+" is not reduced to 32 bits first: a negative inline constant is delivered sign-extended to 64 bits, the sum wraps, and 0xFFFFFFFF + 1 reports no carry")
					}
				}
			}
		}
	}
}

// borrowIdiom: cmp is `E > K` (or `K < E`) for a constant K and a subtraction chain E
// over bounded unsigned leaves whose mathematical value lies in [lo, hi] with hi <= K
// and 2^64 + lo > K: then the unsigned comparison is true exactly when E is negative.
func borrowIdiom(cmp *ssa.BinOp) bool {
	var e, k ssa.Value
	switch cmp.Op {
	case token.GTR:
		e, k = cmp.X, cmp.Y
	case token.LSS:
		e, k = cmp.Y, cmp.X
	default:
		return false
	}
	kr := uRangeOf(k, 0, nil)
	if kr.top || kr.lo.Cmp(kr.hi) != 0 {
		return false
	}
	if bits, ok := uTypeBits(e.Type()); !ok || bits != 64 {
		return false
	}
	var rng func(v ssa.Value, d int) (lo, hi *big.Int, ok bool)
	rng = func(v ssa.Value, d int) (*big.Int, *big.Int, bool) {
		if bo, isB := v.(*ssa.BinOp); isB && bo.Op == token.SUB && d < 6 {
			alo, ahi, ok1 := rng(bo.X, d+1)
			blo, bhi, ok2 := rng(bo.Y, d+1)
			if !ok1 || !ok2 {
				return nil, nil, false
			}
			return new(big.Int).Sub(alo, bhi), new(big.Int).Sub(ahi, blo), true
		}
		r := uRangeOf(v, 0, nil)
		if r.top {
			return nil, nil, false
		}
		return r.lo, r.hi, true
	}
	lo, hi, ok := rng(e, 0)
	if !ok {
		return false
	}
	two64 := new(big.Int).Lsh(big.NewInt(1), 64)
	return hi.Cmp(kr.lo) <= 0 && new(big.Int).Add(two64, lo).Cmp(kr.lo) > 0
}
