package rules

import (
	"fmt"
	"go/ast"
	"strings"

	"golang.org/x/tools/go/packages"

	"verif/internal/core"
)

// R09.7: the capacities a platform announces to the command processor are the
// capacities its compute units are built with.
//
// The timing platforms register, per CU, a hand-written record of wavefront
// slots / VGPRs per SIMD / SGPRs with the command processor, and configure the
// compute units through the shader-array builder (WithWfPoolSize,
// WithVGPRCount, WithSGPRCount; defaults of the CU builder otherwise). The two
// are separate literals in one file; if they drift apart the command
// processor places wavefronts into slots or registers the CU does not have.
func checkAnnouncedCapacities(c *core.Ctx) {
	st := c.Rule("R09.7", "in every timing platform package the wavefront-pool sizes, VGPR counts per SIMD and the SGPR count registered with the command processor (the cuInterfaceForCP literal) equal the values given to the shader-array / CU builder in the same package (WithWfPoolSize, WithVGPRCount, WithSGPRCount), or the CU builder's defaults where the option is not used", 4)
	// defaults of the CU builder: stores in cu.MakeBuilder
	def := map[string][]int64{}
	if p := c.Pkg(cuPkg); p != nil {
		if fd := findFuncDecl(p, "MakeBuilder"); fd != nil {
			ast.Inspect(fd.Body, func(n ast.Node) bool {
				as, ok := n.(*ast.AssignStmt)
				if !ok || len(as.Lhs) != 1 || len(as.Rhs) != 1 {
					return true
				}
				sel, ok := as.Lhs[0].(*ast.SelectorExpr)
				if !ok {
					return true
				}
				if vals, ok := intsOf(p, as.Rhs[0]); ok {
					def[sel.Sel.Name] = vals
				}
				return true
			})
		}
	}
	if len(def["wfPoolSize"]) != 1 || len(def["vgprCount"]) == 0 || len(def["sgprCount"]) != 1 {
		c.Report(core.Finding{Rule: "R09.7", Kind: "anchor", Pkg: cuPkg, Func: "MakeBuilder", Detail: "defaults", Msg: "defaults of the CU builder (wfPoolSize, vgprCount, sgprCount) not found"})
		return
	}
	for _, rel := range []string{"amd/samples/runner/timingconfig/mi300a", "amd/samples/runner/timingconfig/r9nano"} {
		p := c.Pkg(rel)
		if p == nil {
			continue
		}
		announced := map[string][]int64{}
		configured := map[string][]int64{}
		for _, f := range p.Syntax {
			ast.Inspect(f, func(n ast.Node) bool {
				switch t := n.(type) {
				case *ast.CompositeLit:
					if id, ok := t.Type.(*ast.Ident); ok && id.Name == "cuInterfaceForCP" {
						for _, el := range t.Elts {
							kv, ok := el.(*ast.KeyValueExpr)
							if !ok {
								continue
							}
							if k, ok := kv.Key.(*ast.Ident); ok {
								if vals, ok := intsOf(p, kv.Value); ok {
									announced[k.Name] = vals
								}
							}
						}
					}
				case *ast.CallExpr:
					if sel, ok := t.Fun.(*ast.SelectorExpr); ok && len(t.Args) == 1 {
						switch sel.Sel.Name {
						case "WithWfPoolSize", "WithVGPRCount", "WithSGPRCount":
							if vals, ok := intsOf(p, t.Args[0]); ok {
								configured[sel.Sel.Name] = vals
							}
						}
					}
				}
				return true
			})
		}
		if len(announced) == 0 {
			c.Report(core.Finding{Rule: "R09.7", Kind: "anchor", Pkg: rel, Func: "-", Detail: "announce", Msg: "no cuInterfaceForCP literal found"})
			continue
		}
		pick := func(opt, d string) []int64 {
			if v, ok := configured[opt]; ok {
				return v
			}
			return def[d]
		}
		cmp := func(what string, ann, cfg []int64, perSIMD bool) {
			st.Instances++
			ok := len(ann) > 0
			for _, a := range ann {
				if perSIMD && len(cfg) == 1 {
					ok = ok && a == cfg[0]
				}
			}
			if !(perSIMD && len(cfg) == 1) {
				ok = ok && fmt.Sprint(ann) == fmt.Sprint(cfg)
			}
			st.Ob(ok)
			st.Sample("%s: %s announced %v, compute units built with %v", rel[strings.LastIndex(rel, "/")+1:], what, ann, cfg)
			if !ok {
				c.Report(core.Finding{Rule: "R09.7", Pkg: rel, Func: "Builder", Detail: "announced-capacity:" + what, Msg: fmt.Sprintf("%s registers %s = %v with the command processor but builds its compute units with %v: work-groups are placed into wavefront slots or registers the compute unit does not have (or capacity is left unused)", rel, what, ann, cfg)})
			}
		}
		cmp("wavefront pool sizes", announced["wfPoolSizes"], pick("WithWfPoolSize", "wfPoolSize"), true)
		cmp("VGPR counts", announced["vRegCounts"], pick("WithVGPRCount", "vgprCount"), false)
		cmp("SGPR count", announced["sRegCount"], pick("WithSGPRCount", "sgprCount"), false)
	}
}

// intsOf evaluates an integer constant expression or a []int{...} literal of constants.
func intsOf(p *packages.Package, e ast.Expr) ([]int64, bool) {
	if v, ok := constInt64(p, e); ok {
		return []int64{v}, true
	}
	if cl, ok := e.(*ast.CompositeLit); ok {
		var out []int64
		for _, el := range cl.Elts {
			v, ok := constInt64(p, el)
			if !ok {
				return nil, false
			}
			out = append(out, v)
		}
		return out, len(out) > 0
	}
	return nil, false
}
