package rules

import (
	"go/constant"
	"go/token"
	"go/types"
	"strings"

	"golang.org/x/tools/go/ssa"

	"verif/internal/core"
)

// blockLoc names the place where a dispatch pass remembers that a bank is blocked:
// a map or slice value (keyed by the bank index) or a field of the bank.
type blockLoc struct {
	base  ssa.Value // map / slice value; nil for a field
	field string
}

func blockLocOfStore(in ssa.Instruction) (blockLoc, bool) {
	isTrue := func(v ssa.Value) bool {
		k, ok := v.(*ssa.Const)
		return ok && k.Value != nil && k.Value.Kind() == constant.Bool && constant.BoolVal(k.Value)
	}
	switch x := in.(type) {
	case *ssa.MapUpdate:
		if isTrue(x.Value) {
			return blockLoc{base: x.Map}, true
		}
	case *ssa.Store:
		if !isTrue(x.Val) {
			return blockLoc{}, false
		}
		switch a := x.Addr.(type) {
		case *ssa.IndexAddr:
			return blockLoc{base: a.X}, true
		case *ssa.FieldAddr:
			return blockLoc{field: fieldNameOf(a)}, true
		}
	}
	return blockLoc{}, false
}

func blockLocOfTest(v ssa.Value) (blockLoc, bool) {
	switch x := v.(type) {
	case *ssa.Lookup:
		return blockLoc{base: x.X}, true
	case *ssa.UnOp:
		if x.Op != token.MUL {
			return blockLoc{}, false
		}
		switch a := x.X.(type) {
		case *ssa.IndexAddr:
			return blockLoc{base: a.X}, true
		case *ssa.FieldAddr:
			return blockLoc{field: fieldNameOf(a)}, true
		}
	}
	return blockLoc{}, false
}

// checkBankOrder: R17.6 .. R17.9 (per-bank arrival order beyond the delay-queue test of R17.4).
func checkBankOrder(c *core.Ctx, p *PkgInfo, prov *core.Prov) {
	usedDQ := CmpCut(func(n *core.Node, op token.Token, x, y ssa.Value) int {
		px := prov.Of(x)
		z, isZ := core.ConstInt(y)
		if (px != "recv.rowMissDelay" && px != "recv.rowBufferSizeLog2") || !isZ || z != 0 {
			return 0
		}
		switch op {
		case token.GTR, token.NEQ:
			return 1
		case token.LEQ, token.EQL:
			return -1
		}
		return 0
	})
	isDQAppend := func(in ssa.Instruction) bool {
		s, ok := storeToField(in, "bank.delayQueue")
		if !ok {
			return false
		}
		call, ok := s.Val.(*ssa.Call)
		return ok && core.IsBuiltin(call, "append")
	}
	isPendingAppend := func(in ssa.Instruction) bool {
		call, ok := in.(*ssa.Call)
		return ok && core.IsBuiltin(call, "append") && strings.Contains(call.Type().String(), "AccessReq")
	}

	// ---- R17.6 ----
	st6 := c.Rule("R17.6", "requests of one bank leave the pending list in arrival order: in the dispatch loop, wherever a request can take one of two routes (pipeline directly, or the row-miss delay queue), every path that leaves the request pending first records its bank as blocked for the rest of the pass (a constant true stored in a per-pass map / slice keyed by the bank, or a bank field), and every dispatch (pipeline.Accept, delay-queue append) is reached only through a test that finds the bank not blocked; without it a younger request of the bank is dispatched while an older one still waits", 3)
	for _, fn := range p.Funcs {
		hasDQ, hasPending := false, false
		for _, b := range fn.Blocks {
			for _, in := range b.Instrs {
				if isDQAppend(in) {
					hasDQ = true
				}
				if isPendingAppend(in) {
					hasPending = true
				}
			}
		}
		if !hasDQ || !hasPending {
			continue
		}
		c.MarkAnalysed(fn)
		g := core.BuildGraph(fn, 0, nil)
		// the marker locations of this function
		var locs []blockLoc
		markers := map[*core.Node]blockLoc{}
		isDispatch := func(n *core.Node) bool { return isDQAppend(n.Instr) || isPipelineMethod(n.Instr, "Accept") }
		for _, n := range g.Nodes {
			l, ok := blockLocOfStore(n.Instr)
			if !ok {
				continue
			}
			// only a store made on the way to leaving the request pending counts
			// (b.rowValid = true after a dispatch is not a blocked-bank record)
			leadsToPending := false
			g.Walk(core.After(n, nil), core.WalkOpts{ForwardOnly: true, Stop: isDispatch}, func(st core.State) {
				if isPendingAppend(st.N.Instr) {
					leadsToPending = true
				}
			})
			if leadsToPending {
				locs = append(locs, l)
				markers[n] = l
			}
		}
		sameLoc := func(a, b blockLoc) bool {
			if a.base != nil || b.base != nil {
				return a.base == b.base
			}
			return a.field != "" && a.field == b.field
		}
		isLoc := func(l blockLoc) bool {
			for _, m := range locs {
				if sameLoc(l, m) {
					return true
				}
			}
			return false
		}
		notBlocked := boolCut(func(n *core.Node, v ssa.Value) bool {
			l, ok := blockLocOfTest(v)
			return ok && isLoc(l)
		}, false)
		isBlocked := boolCut(func(n *core.Node, v ssa.Value) bool {
			l, ok := blockLocOfTest(v)
			return ok && isLoc(l)
		}, true)
		unused := func(n *core.Node, i int) bool { // edges on which the delay queue is unused
			ifi, ok := n.Instr.(*ssa.If)
			if !ok {
				return false
			}
			_ = ifi
			return false
		}
		_ = unused
		// loop element loads (start of an iteration)
		var starts []*core.Node
		for _, n := range g.Nodes {
			if u, ok := n.Instr.(*ssa.UnOp); ok && u.Op == token.MUL {
				if ia, ok := u.X.(*ssa.IndexAddr); ok {
					if f := core.LoadedField(ia.X); f != nil && core.ShortFieldID(f) == "middleware.pendingReqs" {
						starts = append(starts, n)
					}
				}
			}
		}
		bad := 0
		for _, r := range g.NodesWhere(func(n *core.Node) bool { return isPendingAppend(n.Instr) }) {
			st6.Instances++
			// already known blocked, or a configuration with a single route
			if g.Guarded(r, isBlocked) {
				st6.Ob(true)
				continue
			}
			// does a path of this iteration reach r without passing a marker?
			unmarked := false
			for _, s := range starts {
				g.Walk(core.After(s, nil), core.WalkOpts{ForwardOnly: true, Stop: func(n *core.Node) bool {
					_, ok := markers[n]
					return ok
				}}, func(st core.State) {
					if st.N == r {
						unmarked = true
					}
				})
			}
			twoRoutes := !g.Guarded(r, func(n *core.Node, i int) bool { return usedDQ(n, i) }) // reachable with the delay queue unused only?
			_ = twoRoutes
			singleRoute := g.Guarded(r, negCut(usedDQ))
			ok := !unmarked || singleRoute
			st6.Ob(ok)
			st6.Sample("%s: request left pending at %s: bank recorded as blocked first: %v (single-route configuration: %v)", core.FuncName(fn), c.Position(r.Instr.Pos()), !unmarked, singleRoute)
			if !ok {
				bad++
				c.ReportAt("R17.6", fn, r.Instr.Pos(), "pending:bank-not-blocked", "a request stays in the pending list (its bank cannot take it now) without the bank being recorded as blocked for the rest of the pass: a later request of the same bank that takes the other route (a row miss going to the delay queue) is dispatched first and executes before it")
			}
		}
		for _, d := range g.NodesWhere(func(n *core.Node) bool { return isDQAppend(n.Instr) || isPipelineMethod(n.Instr, "Accept") }) {
			st6.Instances++
			singleRoute := g.Guarded(d, negCut(usedDQ))
			ok := singleRoute || g.Guarded(d, notBlocked)
			st6.Ob(ok || bad > 0)
			if !ok && bad == 0 {
				what := "pipeline.Accept"
				if isDQAppend(d.Instr) {
					what = "delayQueue-append"
				}
				c.ReportAt("R17.6", fn, d.Instr.Pos(), "dispatch:ignores-blocked-bank:"+what, "a request is dispatched ("+what+") on a path that did not test whether an older request of its bank is still pending in this pass: it overtakes that request")
			}
		}
	}

	// ---- R17.7 ----
	st7 := c.Rule("R17.7", "the row-miss delay queue releases its items in arrival order: either every item is queued with the same delay (one provenance for delayedItem.cyclesLeft, counted down uniformly), or an item enters the pipeline from the queue only on a path that found no earlier item kept back in this pass", 1)
	delays := map[string]bool{}
	p.Instrs(func(fn *ssa.Function, in ssa.Instruction) {
		s, ok := in.(*ssa.Store)
		if !ok {
			return
		}
		fa, ok := s.Addr.(*ssa.FieldAddr)
		if !ok || fieldNameOf(fa) != "cyclesLeft" {
			return
		}
		// the countdown itself (cyclesLeft = cyclesLeft - 1) is not a queueing site
		pv := prov.Of(s.Val)
		if strings.Contains(pv, "cyclesLeft") {
			return
		}
		delays[pv] = true
	})
	st7.Instances++
	uniform := len(delays) == 1
	headFirst := false
	if !uniform {
		headFirst = true
		for _, fn := range p.Direct(func(in ssa.Instruction) bool { return isPipelineMethod(in, "Accept") }) {
			g := core.BuildGraph(fn, 0, nil)
			for _, a := range g.NodesWhere(func(n *core.Node) bool { return isPipelineMethod(n.Instr, "Accept") }) {
				if !strings.Contains(prov.Of(core.CallOf(a.Instr).Args[0]), ".delayQueue[") {
					continue
				}
				keptEmpty := CmpCut(func(n *core.Node, op token.Token, x, y ssa.Value) int {
					z, isZ := core.ConstInt(y)
					px := prov.Of(x)
					if !isZ || z != 0 || !strings.HasPrefix(px, "len(iter(") || !strings.Contains(px, ".delayQueue[") {
						return 0
					}
					switch op {
					case token.EQL, token.LEQ:
						return 1
					case token.NEQ, token.GTR:
						return -1
					}
					return 0
				})
				if !g.Guarded(a, keptEmpty) {
					headFirst = false
					c.ReportAt("R17.7", fn, a.Instr.Pos(), "delayQueue:release-out-of-order", "items are queued with different delays ("+strings.Join(sortedKeys(delays), ", ")+") and an item whose delay has run out enters the pipeline although an earlier item of the bank is still kept back: it overtakes it")
				}
			}
		}
	}
	st7.Ob(uniform || headFirst)
	st7.Sample("delays queued: %v (uniform %v, head-first release %v)", sortedKeys(delays), uniform, headFirst)

	// ---- R17.8 ----
	st8 := c.Rule("R17.8", "a bank commits requests in the order they entered its pipeline: the akita pipeline moves lane 0 before lane 1 into the single post-pipeline buffer, so with more than one lane a younger request in lane 0 overtakes an older one in lane 1 whenever the buffer is full; the pipeline of a bank is therefore built with one lane (constant 1), or the builder rejects a width above 1", 1)
	for _, fn := range p.Funcs {
		for _, b := range fn.Blocks {
			for _, in := range b.Instrs {
				cc := core.CallOf(in)
				if cc == nil || cc.StaticCallee() == nil || cc.StaticCallee().Name() != "WithPipelineWidth" || len(cc.Args) < 2 {
					continue
				}
				st8.Instances++
				c.MarkAnalysed(fn)
				arg := cc.Args[len(cc.Args)-1]
				ok := false
				if k, isK := core.ConstInt(arg); isK && k == 1 {
					ok = true
				}
				if !ok {
					// a validation that panics for width > 1 / != 1
					fld := prov.Of(arg)
					for _, vf := range p.Funcs {
						g := core.BuildGraph(vf, 0, nil)
						for _, n := range g.Nodes {
							ifi, isIf := n.Instr.(*ssa.If)
							if !isIf {
								continue
							}
							bo, isB := ifi.Cond.(*ssa.BinOp)
							if !isB || prov.Of(bo.X) != fld {
								continue
							}
							k, isK := core.ConstInt(bo.Y)
							if !isK {
								continue
							}
							rejects := (bo.Op == token.GTR && k == 1) || (bo.Op == token.NEQ && k == 1) || (bo.Op == token.GEQ && k == 2)
							if rejects && len(n.Succs) > 0 && leadsToPanic(g, n.Succs[0]) {
								ok = true
							}
						}
					}
				}
				st8.Ob(ok)
				st8.Sample("%s: bank pipeline width %s: one lane enforced: %v", core.FuncName(fn), prov.Of(arg), ok)
				if !ok {
					c.ReportAt("R17.8", fn, in.Pos(), "pipeline:lanes-unordered", "the bank pipeline is built with a configurable number of lanes ("+short(prov.Of(arg))+", only required to be positive) feeding one post-pipeline buffer: with width 2 and requests A, B (write X), C (read X), D the commit order is A, C, B, D and C returns the old value")
				}
			}
		}
	}

	// ---- R17.9 ----
	st9 := c.Rule("R17.9", "the bank that orders a request covers every byte of it: the bank is selected from the first byte's address, so the function that selects it also reads the request's size (GetByteSize / AccessByteSize / len(Data)) before dispatching - to split the access, to check that it stays within one interleave block, or to give the selector the range; a dispatch that never looks at the size lets two overlapping accesses that start in different interleave blocks execute in either order", 1)
	for _, fn := range p.Funcs {
		for _, b := range fn.Blocks {
			for _, in := range b.Instrs {
				cc := core.CallOf(in)
				if cc == nil || !cc.IsInvoke() || cc.Method.Name() != "Select" || !strings.Contains(types.TypeString(cc.Value.Type(), nil), "bankSelector") {
					continue
				}
				st9.Instances++
				c.MarkAnalysed(fn)
				readsSize := false
				for _, b2 := range fn.Blocks {
					for _, in2 := range b2.Instrs {
						if c2 := core.CallOf(in2); c2 != nil && c2.IsInvoke() && (c2.Method.Name() == "GetByteSize") {
							readsSize = true
						}
						if fa, ok := in2.(*ssa.FieldAddr); ok && (fieldNameOf(fa) == "AccessByteSize" || fieldNameOf(fa) == "Data") {
							readsSize = true
						}
					}
				}
				st9.Ob(readsSize)
				st9.Sample("%s: bank selected by %s; request size consulted: %v", core.FuncName(fn), short(prov.Of(cc.Args[0])), readsSize)
				if !readsSize {
					c.ReportAt("R17.9", fn, in.Pos(), "bank-select:first-byte-only", "the bank is chosen from the address of the first byte and the request's size is never consulted: with interleave 64 on two banks a 64-byte write at 0x60 (bank 1) and a later read of 0x80 (bank 0) are not ordered, and the read can return the old bytes")
				}
			}
		}
	}
}

// negCut: the edges on which the given comparison cut's condition is false.
func negCut(cut EdgeCut) EdgeCut {
	return func(n *core.Node, i int) bool {
		if _, ok := n.Instr.(*ssa.If); !ok {
			return false
		}
		other := 1 - i
		if other < 0 || other > 1 {
			return false
		}
		return cut(n, other) && !cut(n, i)
	}
}

func leadsToPanic(g *core.Graph, n *core.Node) bool {
	seen := map[*core.Node]bool{}
	for cur := n; cur != nil && !seen[cur]; {
		seen[cur] = true
		if _, ok := cur.Instr.(*ssa.Panic); ok {
			return true
		}
		if core.IsNoReturnCall(cur.Instr) {
			return true
		}
		if len(cur.Succs) != 1 {
			return false
		}
		cur = cur.Succs[0]
	}
	return false
}
