package rules

import (
	"fmt"
	"go/ast"
	"go/constant"
	"go/token"
	"go/types"
	"sort"
	"strings"

	"golang.org/x/tools/go/packages"
	"golang.org/x/tools/go/ssa"

	"verif/internal/core"
)

const wfPkg = "amd/timing/wavefront"

func init() { register("C14", runC14) }

// wfStateNames: constants of wavefront.WfState by value.
func wfStateNames(c *core.Ctx) map[string]int64 {
	out := map[string]int64{}
	p := c.Pkg(wfPkg)
	scope := p.Types.Scope()
	for _, n := range scope.Names() {
		if k, ok := scope.Lookup(n).(*types.Const); ok && strings.HasSuffix(k.Type().String(), "wavefront.WfState") {
			if v, ok := constant.Int64Val(k.Val()); ok {
				out[n] = v
			}
		}
	}
	return out
}

// acceptedStates evaluates a barrier predicate (a loop over the group's
// wavefronts that returns false for a wavefront whose state is not accepted)
// as a decision table: for each state constant, does the loop body reject?
func acceptedStates(p *packages.Package, fd *ast.FuncDecl, states map[string]int64) (map[string]bool, bool) {
	var loop *ast.RangeStmt
	ast.Inspect(fd.Body, func(n ast.Node) bool {
		if rs, ok := n.(*ast.RangeStmt); ok && loop == nil {
			loop = rs
		}
		return true
	})
	if loop == nil {
		return nil, false
	}
	var evalC func(e ast.Expr, st string) int
	evalC = func(e ast.Expr, st string) int {
		switch e := e.(type) {
		case *ast.ParenExpr:
			return evalC(e.X, st)
		case *ast.UnaryExpr:
			if e.Op == token.NOT {
				if r := evalC(e.X, st); r >= 0 {
					return 1 - r
				}
			}
			return -1
		case *ast.BinaryExpr:
			switch e.Op {
			case token.LAND:
				a, b := evalC(e.X, st), evalC(e.Y, st)
				if a == 0 || b == 0 {
					return 0
				}
				if a == 1 && b == 1 {
					return 1
				}
				return -1
			case token.LOR:
				a, b := evalC(e.X, st), evalC(e.Y, st)
				if a == 1 || b == 1 {
					return 1
				}
				if a == 0 && b == 0 {
					return 0
				}
				return -1
			case token.EQL, token.NEQ:
				if strings.HasSuffix(exprString(e.X), ".State") {
					name := ""
					if sel, ok := e.Y.(*ast.SelectorExpr); ok {
						name = sel.Sel.Name
					} else if id, ok := e.Y.(*ast.Ident); ok {
						name = id.Name
					}
					if _, known := states[name]; !known {
						return -1
					}
					r := b2i(name == st)
					if e.Op == token.NEQ {
						r = 1 - r
					}
					return r
				}
				// wf == currWf : the current wavefront is handled separately (not this wavefront)
				return 0
			}
		}
		return -1
	}
	acc := map[string]bool{}
	decided := true
	for st := range states {
		// walk the body: if a `return false` is reached for this state -> rejected
		rejected := false
		var walk func(stmts []ast.Stmt) bool // returns true if control leaves the iteration
		walk = func(stmts []ast.Stmt) bool {
			for _, s := range stmts {
				switch s := s.(type) {
				case *ast.IfStmt:
					c := evalC(s.Cond, st)
					if c < 0 {
						decided = false
						return true
					}
					if c == 1 {
						if walk(s.Body.List) {
							return true
						}
					} else if s.Else != nil {
						if b, ok := s.Else.(*ast.BlockStmt); ok && walk(b.List) {
							return true
						}
					}
				case *ast.ReturnStmt:
					if len(s.Results) == 1 {
						if id, ok := s.Results[0].(*ast.Ident); ok && id.Name == "false" {
							rejected = true
						}
					}
					return true
				case *ast.BranchStmt:
					return true
				}
			}
			return false
		}
		walk(loop.Body.List)
		acc[st] = !rejected
	}
	return acc, decided
}

func runC14(c *core.Ctx) core.Meta {
	c.Load(cuPkg, wfPkg, emuPkg, r9nanoPkg, mi300aPkg, saPkg)
	c.BuildSSA()
	pcu := NewPkgInfo(c, cuPkg)
	pemu := NewPkgInfo(c, emuPkg)
	prov := core.NewLocalProv(c)
	states := wfStateNames(c)
	completedV, okC := states["WfCompleted"]
	if !okC {
		c.Report(core.Finding{Rule: "R14.1", Kind: "anchor", Pkg: wfPkg, Func: "-", Detail: "WfCompleted", Msg: "wavefront state constants not found"})
	}
	isStateStore := func(in ssa.Instruction, v int64) bool {
		s, ok := storeToField(in, "Wavefront.State")
		if !ok {
			return false
		}
		k, isC := core.ConstInt(s.Val)
		return isC && k == v
	}

	// ---------------- R14.1 end of program waits for memory ----------------
	checkEndPgmWaits(c, "R14.1")

	// ---------------- R14.2 wait count compares the right pairs ----------------
	st2 := c.Rule("R14.2", "s_waitcnt lets the wavefront continue only on paths where outstanding scalar accesses were found not greater than the instruction's LGKM count and outstanding vector accesses not greater than its VM count", 2)
	if fn := c.MustFunc("R14.2", cuPkg, "SchedulerImpl.evalSWaitCnt"); fn != nil {
		c.MarkAnalysed(fn)
		g := core.BuildGraph(fn, 0, nil)
		pair := func(counter, limit string) EdgeCut {
			return CmpCut(func(_ *core.Node, op token.Token, x, y ssa.Value) int {
				fx, fy := core.LoadedField(stripWidening(c, x)), core.LoadedField(stripWidening(c, y))
				if fx == nil || fy == nil {
					return 0
				}
				if fx.Name() == counter && fy.Name() == limit {
					switch op {
					case token.GTR:
						return -1
					case token.LEQ:
						return 1
					}
				}
				if fy.Name() == counter && fx.Name() == limit {
					switch op {
					case token.LSS:
						return -1
					case token.GEQ:
						return 1
					}
				}
				return 0
			})
		}
		targets := g.NodesWhere(func(n *core.Node) bool {
			f := core.CalleeFunc(n.Instr)
			return f != nil && f.Name() == "UpdatePCAndSetReady"
		})
		if len(targets) == 0 {
			c.ReportAt("R14.2", fn, fn.Pos(), "no-continue", "evalSWaitCnt never lets the wavefront continue")
		}
		for _, t := range targets {
			for _, pr := range [][2]string{{"OutstandingScalarMemAccess", "LKGMCNT"}, {"OutstandingVectorMemAccess", "VMCNT"}} {
				st2.Instances++
				ok := g.Guarded(t, pair(pr[0], pr[1]))
				st2.Ob(ok)
				st2.Sample("evalSWaitCnt: continue guarded by %s <= %s: %v", pr[0], pr[1], ok)
				if !ok {
					c.ReportAt("R14.2", fn, t.Instr.Pos(), "waitcnt:"+pr[0]+"<="+pr[1], fmt.Sprintf("the wait-count instruction completes on a path that did not find %s <= %s (counter and limit must be paired scalar↔LGKM, vector↔VM)", pr[0], pr[1]))
				}
			}
		}
	}

	// ---------------- R14.3 counters pair ----------------
	checkOutstandingCounters(c, pcu, prov, "R14.3")

	// ---------------- R14.4 barrier release predicates agree ----------------
	st4 := c.Rule("R14.4", "the predicates that release a barrier (all wavefronts of the group at the barrier, evaluated when a wavefront arrives and when one ends) accept the same set of wavefront states, which per the property is {at barrier, completed}; the emulator's barrier resolution skips completed wavefronts", 3)
	pk := c.Pkg(cuPkg)
	want := map[string]bool{"WfAtBarrier": true, "WfCompleted": true}
	for _, name := range []string{"SchedulerImpl.areAllWfInWGAtBarrier", "SchedulerImpl.areAllOtherWfsInWGAtBarrier"} {
		fd := findFuncDecl(pk, name)
		st4.Instances++
		if fd == nil {
			st4.Ob(false)
			c.Report(core.Finding{Rule: "R14.4", Kind: "anchor", Pkg: cuPkg, Func: name, Detail: "anchor", Msg: "barrier predicate not found"})
			continue
		}
		acc, decided := acceptedStates(pk, fd, states)
		if !decided {
			// not a loop over the group with the tests written out: the predicate is explored
			// on its SSA form, helpers and function-valued conditions included
			if sf := c.SSAFunc(cuPkg, name); sf != nil {
				acc, decided = acceptedStatesSSA(sf, states)
			}
		}
		if !decided {
			st4.Ob(false)
			c.Report(core.Finding{Rule: "R14.4", Kind: "undecided", Pkg: cuPkg, Func: name, Detail: "predicate-shape", Pos: c.Position(fd.Pos()), Msg: "the barrier predicate is no longer a per-wavefront test of wf.State against constants"})
			continue
		}
		var got []string
		for s, a := range acc {
			if a {
				got = append(got, s)
			}
		}
		sort.Strings(got)
		ok := len(got) == len(want)
		for _, s := range got {
			if !want[s] {
				ok = false
			}
		}
		st4.Ob(ok)
		st4.Sample("%s accepts %v", name, got)
		if !ok {
			c.Report(core.Finding{Rule: "R14.4", Pkg: cuPkg, Func: name, Detail: "accepted-states", Pos: c.Position(fd.Pos()),
				Msg: fmt.Sprintf("the barrier is released when every wavefront is in %v; the property requires {WfAtBarrier, WfCompleted}: a wavefront that ended early must count as arrived, otherwise the others wait forever (or, if more states are accepted, the barrier opens before everyone arrived)", got)})
		}
	}
	// passBarrier only under one of the predicates
	preds := map[*ssa.Function]bool{}
	for _, n := range []string{"SchedulerImpl.areAllWfInWGAtBarrier", "SchedulerImpl.areAllOtherWfsInWGAtBarrier"} {
		if f := c.SSAFunc(cuPkg, n); f != nil {
			preds[f] = true
		}
	}
	n4, ung4 := pcu.GuardedUp(func(in ssa.Instruction) bool { return callsFunc(in, pcu.Pkg, "SchedulerImpl.passBarrier") }, CallFnCut(true, preds))
	st4.Instances += n4
	for i := 0; i < n4-len(ung4); i++ {
		st4.Ob(true)
	}
	for _, u := range ung4 {
		st4.Ob(false)
		c.ReportAt("R14.4", u.Target.Fn(), u.Target.Instr.Pos(), "passBarrier:guard", "the barrier is released on a path that did not find every wavefront of the group at the barrier")
	}
	// R14.10 the emulator stops every wavefront at s_barrier
	st10 := c.Rule("R14.10", "in the emulator a wavefront that executes s_barrier stops there: in runWfUntilBarrier, from the edge on which the instruction was recognised as s_barrier (Opcode == 10 of the SOPP format), every path stores Wavefront.AtBarrier = true before it returns or decodes the next instruction. The work-group loop alternates the wavefronts of a group at these stops; a wavefront that runs on (a fast path for small groups - a partial 2-D group of at most 64 work-items is still spread over several wavefronts) executes what follows the barrier before the other wavefronts have reached it", 1)
	if fn := c.MustFunc("R14.10", emuPkg, "ComputeUnit.runWfUntilBarrier"); fn != nil {
		c.MarkAnalysed(fn)
		g := core.BuildGraph(fn, 0, nil)
		isOpc := isLoadOfField("Opcode")
		for _, n := range g.Nodes {
			iff, ok := n.Instr.(*ssa.If)
			if !ok {
				continue
			}
			cmp, ok := iff.Cond.(*ssa.BinOp)
			if !ok || cmp.Op != token.EQL || !isOpc(core.StripConv(cmp.X)) {
				continue
			}
			if k, isC := core.ConstInt(cmp.Y); !isC || k != 10 {
				continue
			}
			st10.Instances++
			var leak *core.Node
			start := []core.State{{N: n.Succs[0]}}
			okW := g.Walk(start, core.WalkOpts{Stop: func(m *core.Node) bool {
				sto, ok := storeToField(m.Instr, "Wavefront.AtBarrier")
				if !ok {
					return false
				}
				k, isC := sto.Val.(*ssa.Const)
				return isC && k.Value != nil && constant.BoolVal(k.Value)
			}}, func(x core.State) {
				if leak != nil {
					return
				}
				if _, isRet := x.N.Instr.(*ssa.Return); isRet {
					leak = x.N
				}
				if x.N == n {
					leak = x.N
				}
			})
			st10.Ob(okW && leak == nil)
			st10.Sample("runWfUntilBarrier: after s_barrier is recognised the wavefront is marked AtBarrier on every path: %v", leak == nil)
			if leak != nil {
				c.ReportAt("R14.10", fn, iff.Pos(), "emu-barrier-not-stopped", "after recognising s_barrier runWfUntilBarrier can go on to the next instruction (or return) without marking the wavefront AtBarrier: the wavefront runs through the barrier while the other wavefronts of its group have not reached it, and reads what they have not written yet")
			}
		}
	}

	// R14.9 arrival at a barrier does not need room in the barrier buffer
	st9 := c.Rule("R14.9", "a wavefront that executes s_barrier is recorded as arrived and, if it is the last of its group, releases the group whether or not the barrier buffer has room: in evalSBarrier the store of WfAtBarrier and the call that releases the group (passBarrier) are reachable on the paths on which the capacity test len(barrierBuffer) < barrierBufferSize fails; only parking the wavefront in the buffer may depend on that test. Slots are freed only by releases, so a full buffer of incomplete groups that turns arrivals away never drains", 2)
	if fn := c.MustFunc("R14.9", cuPkg, "SchedulerImpl.evalSBarrier"); fn != nil {
		c.MarkAnalysed(fn)
		g := core.BuildGraph(fn, 2, func(cal *ssa.Function) bool { return cal.Pkg == fn.Pkg && cal.Name() != "passBarrier" })
		isLenBuf := func(v ssa.Value) bool {
			call, ok := v.(*ssa.Call)
			if !ok {
				return false
			}
			bi, ok := call.Call.Value.(*ssa.Builtin)
			if !ok || bi.Name() != "len" {
				return false
			}
			f := core.LoadedField(call.Call.Args[0])
			return f != nil && f.Name() == "barrierBuffer"
		}
		isSize := func(v ssa.Value) bool {
			f := core.LoadedField(v)
			return f != nil && f.Name() == "barrierBufferSize"
		}
		hasRoom := CmpCut(func(_ *core.Node, op token.Token, x, y ssa.Value) int {
			if !isLenBuf(x) || !isSize(y) {
				return 0
			}
			switch op {
			case token.LSS, token.NEQ:
				return 1
			case token.GEQ, token.EQL:
				return -1
			}
			return 0
		})
		reach, okW := g.Reach([]core.State{{N: g.Entry}}, core.WalkOpts{CutEdge: hasRoom})
		atBarrierV, okAB := states["WfAtBarrier"]
		var release, arrive bool
		nRel, nArr := 0, 0
		for _, n := range g.Nodes {
			if cc := core.CallOf(n.Instr); cc != nil && cc.StaticCallee() != nil && cc.StaticCallee().Name() == "passBarrier" {
				nRel++
				if reach[n] {
					release = true
				}
			}
			if okAB && isStateStore(n.Instr, atBarrierV) {
				nArr++
				if reach[n] {
					arrive = true
				}
			}
		}
		st9.Instances += 2
		st9.Ob(okW && (release || nRel == 0) && nRel > 0)
		st9.Ob(okW && (arrive || nArr == 0) && nArr > 0)
		st9.Sample("evalSBarrier: with the barrier buffer full the arrival is still recorded (%v) and the last arrival still releases its group (%v)", arrive, release)
		switch {
		case !okW:
			c.Undecided("R14.9", fn, fn.Pos(), "barrier:full-buffer", "state cap reached")
		case nRel == 0 || nArr == 0:
			c.Report(core.Finding{Rule: "R14.9", Kind: "anchor", Pkg: cuPkg, Func: "SchedulerImpl.evalSBarrier", Detail: "barrier:anchors", Msg: "no passBarrier call or no WfAtBarrier store found in evalSBarrier"})
		default:
			if !release {
				c.ReportAt("R14.9", fn, fn.Pos(), "barrier:release-needs-room", "with the barrier buffer full evalSBarrier cannot reach passBarrier: the last wavefront of a group is turned away although its arrival would release the group and free slots. With 16 wavefronts of incomplete groups parked, no group of the compute unit passes its barrier again")
			}
			if !arrive {
				c.ReportAt("R14.9", fn, fn.Pos(), "barrier:arrival-needs-room", "with the barrier buffer full evalSBarrier does not record the wavefront as arrived (WfAtBarrier): the all-arrived tests of its group never succeed")
			}
		}
	}

	// R14.8 a wavefront that ends leaves the pool alone
	st8 := c.Rule("R14.8", "removing a finished wavefront from a wavefront pool (or any list of the compute unit) takes out exactly that wavefront: every append / in-place copy of the compute-unit package that joins two windows of one slice is append(s[:i], s[i+1:]...) or copy(s[i:], s[i+1:]) followed by a cut by one. A shifted window removes a live wavefront with the finished one: it is never scheduled again, its work-group never completes and the wavefronts of its group wait at the next barrier for ever", 1)
	checkSliceRemovalIdiom(c, st8, "R14.8", pcu, "a live wavefront leaves the pool with the finished one and is never scheduled again")
	checkNoCompactionWhileRanging(c, "R14.12", 6, pcu, pemu)
	checkVecMemPipelineSingleLane(c, "R14.14", pcu, NewPkgInfo(c, mi300aPkg), NewPkgInfo(c, r9nanoPkg), NewPkgInfo(c, saPkg))
	checkRefusalNotReleased(c, pcu)
	// ---------------- R14.13 the last-piece marker is only ever raised ----------------
	st13 := c.Rule("R14.13", "the compute unit retires a memory instruction (decrements the wavefront's outstanding counters) when the response to a request with CanWaitForCoalesce == false arrives: the flag marks every piece of an instruction but the last. In the CU package the flag is only ever raised: every store to a CanWaitForCoalesce field stores the constant true (the pieces ahead of the last one, where the instruction's transactions are formed). A store of false - or of a computed value - anywhere else turns a middle piece into a last one: the instruction retires on that piece's response, s_waitcnt and s_endpgm pass with loads in flight, and the real last response drives the counter below zero", 3)
	for _, fn := range pcu.Funcs {
		for _, b := range fn.Blocks {
			for _, in := range b.Instrs {
				s, ok := in.(*ssa.Store)
				if !ok {
					continue
				}
				f := core.FieldOfAddr(s.Addr)
				if f == nil || f.Name() != "CanWaitForCoalesce" {
					continue
				}
				st13.Instances++
				c.MarkAnalysed(fn)
				k, isC := core.ConstBool(s.Val)
				ok = isC && k
				st13.Ob(ok)
				st13.Sample("%s: CanWaitForCoalesce = %s", core.FuncName(fn), short(prov.Of(s.Val)))
				if !ok {
					c.ReportAt("R14.13", fn, s.Pos(), "last-piece-marker-lowered:"+core.FuncName(fn), core.FuncName(fn)+" stores "+short(prov.Of(s.Val))+" into CanWaitForCoalesce: the compute unit takes a response to a request with the flag clear as the completion of the whole instruction, so a piece that is not the last retires it - the wait counters drop while other pieces are in flight (s_waitcnt passes early, registers are read before they are written) and drop again on the real last piece")
				}
			}
		}
	}

	// R14.7 the release reaches every wavefront of the group, not only those that found room in the barrier buffer
	st7 := c.Rule("R14.7", "passBarrier makes every unfinished wavefront of the work-group ready: each call that sets a wavefront ready (UpdatePCAndSetReady), helpers of passBarrier expanded, takes a wavefront drawn from the work-group's own wavefront list (wg.Wfs). A wavefront that reaches s_barrier while the barrier buffer is full waits in state WfAtBarrier without an entry in the buffer; a release that walks the buffer leaves it at the barrier for ever, and later barriers of the group look complete without it", 1)
	if fn := c.MustFunc("R14.7", cuPkg, "SchedulerImpl.passBarrier"); fn != nil {
		c.MarkAnalysed(fn)
		g := core.BuildGraph(fn, 3, func(cal *ssa.Function) bool { return cal.Pkg == fn.Pkg })
		found := 0
		for _, n := range g.Nodes {
			cc := core.CallOf(n.Instr)
			if cc == nil || cc.StaticCallee() == nil || cc.StaticCallee().Name() != "UpdatePCAndSetReady" {
				continue
			}
			found++
			st7.Instances++
			arg := cc.Args[len(cc.Args)-1]
			pv := provThroughFrames(prov, n, arg)
			ok := strings.Contains(pv, ".Wfs") && !strings.Contains(pv, "barrierBuffer")
			st7.Ob(ok)
			st7.Sample("passBarrier: the wavefront set ready is %s", short(pv))
			if !ok {
				c.ReportAt("R14.7", n.Fn(), n.Instr.Pos(), "release:not-from-wg-list", "the wavefront that is set ready is "+short(pv)+", not an element of the work-group's wavefront list: wavefronts of the group that wait at the barrier without an entry in the barrier buffer (it was full when they arrived) are never released")
			}
		}
		if found == 0 {
			c.ReportAt("R14.7", fn, fn.Pos(), "release:none", "passBarrier sets no wavefront ready")
		}
	}
	// emulator
	if fn := c.MustFunc("R14.4", emuPkg, "ComputeUnit.resolveBarrier"); fn != nil {
		st4.Instances++
		g := core.BuildGraph(fn, 0, nil)
		ok := true
		for _, n := range g.Nodes {
			if !core.IsNoReturnCall(n.Instr) {
				continue
			}
			// the panic "not all wavefronts at barrier" must not be reachable for a completed wavefront
			if !g.Guarded(n, BoolFieldCut("Wavefront.Completed", false)) {
				ok = false
			}
		}
		st4.Ob(ok)
		st4.Sample("emu resolveBarrier: completed wavefronts are skipped: %v", ok)
		if !ok {
			c.ReportAt("R14.4", fn, fn.Pos(), "emu:completed-not-skipped", "the emulator's barrier resolution requires every wavefront, including completed ones, to be at the barrier: a wavefront that ended before its siblings reached the barrier makes it panic")
		}
	}

	// ---------------- R14.11 the two release sites of the pass do the same bookkeeping ----------------
	st11 := c.Rule("R14.11", "a barrier is released from two places in the pass over internally executing wavefronts: by the last wavefront that arrives (s_barrier) and by a wavefront that ends while the others wait (s_endpgm). Both mark the work-group as released for the rest of the pass and purge its wavefronts from both lists: the operations in the block that follows `if passBarrier` (map updates, calls) are the same at the two sites. A site that omits the mark lets wavefronts of the released group that stand later in the list (they stayed there because the barrier buffer was full) be evaluated again as arriving at the barrier", 1)
	if fn := c.MustFunc("R14.11", cuPkg, "SchedulerImpl.EvaluateInternalInst"); fn != nil {
		c.MarkAnalysed(fn)
		effects := map[string][]string{}
		for _, b := range fn.Blocks {
			iff, ok := b.Instrs[len(b.Instrs)-1].(*ssa.If)
			if !ok {
				continue
			}
			ex, ok := iff.Cond.(*ssa.Extract)
			if !ok || ex.Index != 2 {
				continue
			}
			call, ok := ex.Tuple.(*ssa.Call)
			if !ok || call.Call.StaticCallee() == nil {
				continue
			}
			site := call.Call.StaticCallee().Name()
			if site != "evalSBarrier" && site != "evalSEndPgm" {
				continue
			}
			var eff []string
			for _, in := range b.Succs[0].Instrs {
				switch x := in.(type) {
				case *ssa.MapUpdate:
					eff = append(eff, "map-update")
				case *ssa.Call:
					if cal := x.Call.StaticCallee(); cal != nil {
						eff = append(eff, "call:"+cal.Name())
					}
				case *ssa.Store:
					if f := core.FieldOfAddr(x.Addr); f != nil {
						eff = append(eff, "store:"+f.Name())
					}
				}
			}
			sort.Strings(eff)
			effects[site] = eff
		}
		st11.Instances++
		a, b := strings.Join(effects["evalSBarrier"], ","), strings.Join(effects["evalSEndPgm"], ",")
		ok := len(effects) == 2 && a == b
		st11.Ob(ok)
		st11.Sample("after s_barrier: {%s}; after s_endpgm: {%s}", a, b)
		if len(effects) != 2 {
			c.Undecided("R14.11", fn, fn.Pos(), "release-sites", "the two `if passBarrier` blocks of the pass were not found")
		} else if !ok {
			c.ReportAt("R14.11", fn, fn.Pos(), "release-sites-differ", "the release by s_barrier does {"+a+"}, the release by s_endpgm does {"+b+"}: the site that omits the mark of the released group lets its wavefronts that stand later in the internal-execution list be evaluated again in the same pass - set ready by the release, they are parked at the barrier a second time and pass it twice, skipping the instruction behind it")
		}
	}

	// ---------------- R14.6 released wavefronts leave the internal-execution list ----------------
	st6 := c.Rule("R14.6", "in the pass over internally executing wavefronts, the list that replaces s.internalExecuting is purged of the work-group's wavefronts on every path on which a barrier was passed (wavefronts that waited in that list were set ready by the release and must not be evaluated again); a wavefront whose instruction completed is not kept in the list", 2)
	if fn := c.MustFunc("R14.6", cuPkg, "SchedulerImpl.EvaluateInternalInst"); fn != nil {
		c.MarkAnalysed(fn)
		g := core.BuildGraph(fn, 0, nil)
		// the local list that is stored back into s.internalExecuting
		var repl ssa.Value
		listVals := map[ssa.Value]bool{}
		var collect func(v ssa.Value, d int)
		collect = func(v ssa.Value, d int) {
			if v == nil || listVals[v] || d > 12 {
				return
			}
			listVals[v] = true
			switch x := v.(type) {
			case *ssa.UnOp:
				if a, ok := x.X.(*ssa.Alloc); ok {
					listVals[a] = true
					if a.Referrers() != nil {
						for _, r := range *a.Referrers() {
							if st, ok := r.(*ssa.Store); ok && st.Addr == ssa.Value(a) {
								collect(st.Val, d+1)
							}
						}
					}
				}
			case *ssa.Phi:
				for _, e := range x.Edges {
					collect(e, d+1)
				}
			case *ssa.Call:
				if core.IsBuiltin(x, "append") && len(x.Call.Args) > 0 {
					collect(x.Call.Args[0], d+1)
				}
			}
		}
		for _, n := range g.Nodes {
			if s, ok := storeToField(n.Instr, "SchedulerImpl.internalExecuting"); ok {
				if _, isMake := s.Val.(*ssa.MakeSlice); isMake || core.IsNilConst(s.Val) {
					continue
				}
				repl = s.Val
				collect(s.Val, 0)
			}
		}
		st6.Instances++
		st6.Ob(repl != nil)
		if repl == nil {
			c.ReportAt("R14.6", fn, fn.Pos(), "replacement-list", "the pass no longer rebuilds s.internalExecuting from a local list")
		} else {
			for _, n := range g.Nodes {
				call, ok := n.Instr.(*ssa.Call)
				if !ok || call.Call.StaticCallee() == nil || call.Call.StaticCallee().Name() != "evalSBarrier" {
					continue
				}
				var pass ssa.Value
				if call.Referrers() != nil {
					for _, r := range *call.Referrers() {
						if ex, ok := r.(*ssa.Extract); ok && ex.Index == 2 {
							pass = ex
						}
					}
				}
				st6.Instances++
				if pass == nil {
					st6.Ob(false)
					c.ReportAt("R14.6", fn, n.Instr.Pos(), "passBarrier:ignored", "the pass ignores whether evalSBarrier released the barrier")
					continue
				}
				purges := func(x *core.Node) bool {
					c2, ok := x.Instr.(*ssa.Call)
					if !ok {
						return false
					}
					if core.IsBuiltin(c2, "append") || core.IsBuiltin(c2, "len") {
						return false
					}
					for _, a := range c2.Call.Args {
						if listVals[a] {
							return true
						}
					}
					return false
				}
				leak := false
				g.Walk(core.After(n, core.Facts{}), core.WalkOpts{ForwardOnly: true, Stop: purges}, func(x core.State) {
					// only the path on which the barrier was passed matters: prune with the fact at the If on `pass`
				})
				// walk from the true edge of `if passBarrier`
				for _, m := range g.Nodes {
					ifi, ok := m.Instr.(*ssa.If)
					if !ok || ifi.Cond != pass {
						continue
					}
					g.Walk([]core.State{{N: m.Succs[0]}}, core.WalkOpts{ForwardOnly: true, Stop: purges}, func(x core.State) {
						if purges(x.N) {
							return
						}
						if _, isR := x.N.Instr.(*ssa.Return); isR {
							leak = true
						}
						for _, sc := range x.N.Succs {
							if g.IsBack(x.N, sc) {
								leak = true
							}
						}
					})
				}
				st6.Ob(!leak)
				st6.Sample("EvaluateInternalInst: barrier release purges the rebuilt list: %v", !leak)
				if leak {
					c.ReportAt("R14.6", fn, n.Instr.Pos(), "release:list-not-purged", "when a barrier is released, wavefronts of the group that were already kept in the rebuilt internal-execution list are not removed: they stay in internal execution although they were set ready, are evaluated again and advance their PC twice (skipping an instruction, e.g. the next barrier)")
				}
			}
		}
		// a release is visible to the rest of the pass: the range loop walks the list
		// as it was when the pass began, so a wavefront that a release earlier in the
		// pass set ready can still come up; before it is evaluated as waiting, the
		// loop body must consult something the release wrote (a set of released
		// work-groups, or the wavefront's own state)
		{
			released := map[ssa.Value]bool{}
			for _, n := range g.Nodes {
				if mu, ok := n.Instr.(*ssa.MapUpdate); ok {
					released[mu.Map] = true
				}
			}
			visible := boolCutAny(func(_ *core.Node, v ssa.Value) bool {
				switch t := v.(type) {
				case *ssa.Lookup:
					return released[t.X]
				case *ssa.Extract:
					if lk, ok := t.Tuple.(*ssa.Lookup); ok {
						return released[lk.X]
					}
				case *ssa.BinOp:
					for _, o := range []ssa.Value{t.X, t.Y} {
						if f := core.LoadedField(o); f != nil && f.Name() == "State" {
							return true
						}
					}
				}
				return false
			})
			for _, n := range g.Nodes {
				call, ok := n.Instr.(*ssa.Call)
				if !ok || call.Call.StaticCallee() == nil {
					continue
				}
				if nm := call.Call.StaticCallee().Name(); nm != "evalSBarrier" && nm != "evalSEndPgm" {
					continue
				}
				st6.Instances++
				okV := g.Guarded(n, visible)
				st6.Ob(okV)
				if !okV {
					c.ReportAt("R14.6", fn, n.Instr.Pos(), "release:not-visible-in-pass:"+call.Call.StaticCallee().Name(), "the pass evaluates a wavefront without consulting anything a barrier release earlier in the same pass wrote (the loop ranges over the list as it was at the start): a wavefront that was just released and set ready is evaluated as waiting at its barrier again, parked with its PC already past the barrier, and the next release skips an instruction")
				}
			}
		}

		// a completed instruction is not kept
		st6.Instances++
		okKeep := true
		for _, n := range g.Nodes {
			call, ok := n.Instr.(*ssa.Call)
			if !ok || !core.IsBuiltin(call, "append") || len(call.Call.Args) == 0 {
				continue
			}
			if !listVals[call.Call.Args[0]] {
				continue
			}
			// guarded by instCompleted == false: the If on a phi named instCompleted
			guarded := g.Guarded(n, boolCut(func(_ *core.Node, v ssa.Value) bool {
				ph, ok := v.(*ssa.Phi)
				return ok && core.PinnedName(fn, ph.Comment) == "instCompleted"
			}, false))
			if !guarded {
				okKeep = false
			}
		}
		st6.Ob(okKeep)
		if !okKeep {
			c.ReportAt("R14.6", fn, fn.Pos(), "keep:completed", "a wavefront is kept in internal execution although its instruction completed")
		}
	}

	// R14.6 (continued): every barrier release inside the pass is followed by the purge, whichever instruction caused it.
	// A callee that releases the barrier reports it through a constant-true result; the pass tests that result and purges.
	if fn := c.SSAFunc(cuPkg, "SchedulerImpl.EvaluateInternalInst"); fn != nil {
		g := core.BuildGraph(fn, 0, nil)
		isPurge := func(n *core.Node) bool {
			f := core.CalleeFunc(n.Instr)
			return f != nil && f.Name() == "removeAllWfFromInternalExecuting"
		}
		for _, callee := range pcu.Funcs {
			if !strings.HasPrefix(callee.Name(), "eval") {
				continue
			}
			// does it release a barrier?
			gc := core.BuildGraph(callee, 0, nil)
			for _, pn := range gc.Nodes {
				f := core.CalleeFunc(pn.Instr)
				if f == nil || f.Name() != "passBarrier" {
					continue
				}
				st6.Instances++
				where := core.FuncName(callee)
				// the result index that is constant true on every return after the release
				flag := -1
				okFlag := true
				after, _ := gc.Reach(core.After(pn, nil), core.WalkOpts{ForwardOnly: true})
				for m := range after {
					r, isR := m.Instr.(*ssa.Return)
					if !isR {
						continue
					}
					found := -1
					for i := len(r.Results) - 1; i >= 0; i-- {
						if bv, isC := core.ConstBool(r.Results[i]); isC && bv && i >= 2 {
							found = i
							break
						}
					}
					if found < 0 || (flag >= 0 && flag != found) {
						okFlag = false
					}
					flag = found
				}
				leak := !okFlag || flag < 0
				if !leak {
					// in the pass: the call's Extract #flag decides an If whose true edge reaches a purge before the iteration ends
					leak = true
					for _, n := range g.Nodes {
						call, ok := n.Instr.(*ssa.Call)
						if !ok || call.Call.StaticCallee() != callee || call.Referrers() == nil {
							continue
						}
						for _, r := range *call.Referrers() {
							ex, ok := r.(*ssa.Extract)
							if !ok || ex.Index != flag || ex.Referrers() == nil {
								continue
							}
							for _, r2 := range *ex.Referrers() {
								iff, ok := r2.(*ssa.If)
								if !ok {
									continue
								}
								for _, in2 := range g.Nodes {
									if in2.Instr != ssa.Instruction(iff) {
										continue
									}
									esc := false
									g.Walk([]core.State{{N: in2.Succs[0]}}, core.WalkOpts{ForwardOnly: true, Stop: isPurge}, func(stt core.State) {
										for _, sc := range stt.N.Succs {
											if g.IsBack(stt.N, sc) {
												esc = true
											}
										}
										if _, isR := stt.N.Instr.(*ssa.Return); isR {
											esc = true
										}
									})
									if !esc {
										leak = false
									}
								}
							}
						}
					}
				}
				st6.Ob(!leak)
				st6.Sample("barrier release in %s is reported to the pass, which purges the group from the internal-execution lists: %v", where, !leak)
				if leak {
					c.ReportAt("R14.6", callee, pn.Instr.Pos(), "release-without-purge:"+where, "the barrier release in "+where+" is not followed, within the same pass over the internally executing wavefronts, by the removal of the group's wavefronts from that list: wavefronts parked there (the barrier buffer was full) keep their s_barrier instruction, arrive at the barrier a second time and advance their PC twice")
				}
			}
		}
	}

	// ---------------- R14.5 work-group completion once (R09.6) ----------------
	st5 := c.Rule("R14.5", "the work-group completion message is built only where all other wavefronts of the group were found completed; the group's resources are released and the last wavefront marked completed only after the message was sent; a failed send is retried", 3)
	isWGMsg := func(in ssa.Instruction) bool {
		call, ok := in.(*ssa.Call)
		if !ok || call.Call.StaticCallee() == nil {
			return false
		}
		return core.FuncName(call.Call.StaticCallee()) == "WGCompletionMsgBuilder.Build"
	}
	allDone := map[*ssa.Function]bool{}
	if f := c.SSAFunc(cuPkg, "SchedulerImpl.areAllOtherWfsInWGCompleted"); f != nil {
		allDone[f] = true
	}
	n5, ung5 := pcu.GuardedUp(isWGMsg, CallFnCut(true, allDone))
	st5.Instances += n5
	if n5 == 0 {
		c.Report(core.Finding{Rule: "R14.5", Kind: "anchor", Pkg: cuPkg, Func: "-", Detail: "WGCompletionMsg", Msg: "no construction of the work-group completion message found in the CU"})
	}
	for i := 0; i < n5-len(ung5); i++ {
		st5.Ob(true)
	}
	for _, u := range ung5 {
		st5.Ob(false)
		c.ReportAt("R14.5", u.Target.Fn(), u.Target.Instr.Pos(), "WGCompletionMsg:guard", "a work-group completion message is built on a path that did not find all other wavefronts of the group completed")
	}
	if fd := findFuncDecl(pk, "SchedulerImpl.areAllOtherWfsInWGCompleted"); fd != nil {
		acc, decided := acceptedStates(pk, fd, states)
		if !decided {
			if sf := c.SSAFunc(cuPkg, "SchedulerImpl.areAllOtherWfsInWGCompleted"); sf != nil {
				acc, decided = acceptedStatesSSA(sf, states)
			}
		}
		st5.Instances++
		ok := decided
		for s, a := range acc {
			if a != (s == "WfCompleted") {
				ok = false
			}
		}
		st5.Ob(ok)
		if !ok {
			c.Report(core.Finding{Rule: "R14.5", Pkg: cuPkg, Func: "SchedulerImpl.areAllOtherWfsInWGCompleted", Detail: "accepted-states", Pos: c.Position(fd.Pos()), Msg: "the all-others-completed predicate accepts states other than WfCompleted: the group is reported complete while a wavefront still runs"})
		}
	}
	// release only after a successful send (SEND-DISCIPLINE with the boolean wrapper inlined)
	RunProto(c, &ProtoCfg{
		RuleBase: "R14.5.send", Pkg: cuPkg, FloorSends: 1, AllEffectsAfterSend: true,
		Effects: []Effect{
			CallEffect("clearWGResource", false, core.ModPath+"/amd/timing/cu.ComputeUnit.clearWGResource"),
			CallEffect("resetRegisterValue", false, core.ModPath+"/amd/timing/cu.SchedulerImpl.resetRegisterValue"),
			{Label: "State=WfCompleted", Match: func(n *core.Node) bool { return isStateStore(n.Instr, completedV) }},
		},
		OnlyFuncs: func(name string) bool {
			return name == "SchedulerImpl.evalSEndPgm" || name == "SchedulerImpl.sendWGCompletionMessage" || name == "ComputeUnit.handleWfCompletionEvent"
		},
		Exempt: map[string]string{
			"ComputeUnit.handleWfCompletionEvent:State=WfCompleted:pre": "the sampled-wavefront completion event marks its own wavefront completed before trying to send; on a failed send the same event is rescheduled and only this (last) wavefront retries, so the early mark is idempotent and no second message can be produced",
		},
	})
	// emulator side: message built only when no work-group is left; list cleared on success, event rescheduled on failure
	if fn := c.MustFunc("R14.5", emuPkg, "ComputeUnit.handleWGCompleteEvent"); fn != nil {
		g := core.BuildGraph(fn, 0, nil)
		for _, s := range g.NodesWhere(isSend) {
			st5.Instances++
			sv := s.Instr.(ssa.Value)
			resched := false
			g.Walk(core.After(s, core.FactFor(s, sv, 1)), core.WalkOpts{ForwardOnly: true}, func(x core.State) {
				if cc := core.CallOf(x.N.Instr); cc != nil && cc.IsInvoke() && cc.Method.Name() == "Schedule" {
					resched = true
				}
			})
			cleared := false
			g.Walk(core.After(s, core.FactFor(s, sv, -1)), core.WalkOpts{ForwardOnly: true}, func(x core.State) {
				if st, ok := storeToField(x.N.Instr, "ComputeUnit.finishedMapWGReqs"); ok && core.IsNilConst(st.Val) {
					cleared = true
				}
			})
			clearedOnFail := false
			g.Walk(core.After(s, core.FactFor(s, sv, 1)), core.WalkOpts{ForwardOnly: true}, func(x core.State) {
				if st, ok := storeToField(x.N.Instr, "ComputeUnit.finishedMapWGReqs"); ok && core.IsNilConst(st.Val) {
					clearedOnFail = true
				}
			})
			ok := resched && cleared && !clearedOnFail
			st5.Ob(ok)
			st5.Sample("emu handleWGCompleteEvent: failed send rescheduled=%v, list cleared on success=%v, on failure=%v", resched, cleared, clearedOnFail)
			if !ok {
				c.ReportAt("R14.5", fn, s.Instr.Pos(), "emu:completion-send", "the emulator's completion message is not retried on a failed send / the finished list is not cleared exactly on success: completions are lost or reported twice")
			}
		}
	}
	_ = pemu

	checkIntegerWidths(c, "R14.16", "Outstanding-access counters are wide enough for what can be in flight.", 2, []widthScope{{rel: wfPkg}, {rel: cuPkg}}, []string{"narrow-counter"}, widthAllowC14)
	checkRegisterFileOffsetPairing(c, "R14.17")
	RunProto(c, &ProtoCfg{RuleBase: "R14.18", Pkg: cuPkg, FloorSends: 1, NoProgressRule: true, Effects: []Effect{{Label: "transaction-pop", Consume: true, Match: func(n *core.Node) bool {
		m, ok := MethodOnField(n.Instr, "VectorMemoryUnit.postTransactionPipelineBuffer", "Pop")
		return ok && m != ""
	}}}, OnlyFuncs: func(name string) bool { return name == "VectorMemoryUnit.sendRequest" }})
	checkRetiredOnlyIfAccepted(c, "R14.19")
	checkUniversalScan(c, "R14.20", "The emulator's ComputeUnit.isAllWfCompleted walks all wavefronts of the work-group and leaves with false from the arm where one is not completed. A tally that is reset inside the walk remembers only the last wavefront: the work-group is reported complete while earlier wavefronts are still at a barrier, and their remaining instructions are never run", emuPkg, "ComputeUnit.isAllWfCompleted", "wfs", "Completed")
	return core.Meta{Level: "other",
		Explanation: "Structural clauses of execution ordering in the timing compute unit (and the emulator's barrier resolution): completion only with both outstanding-access counters at zero, wait-count comparison pairs, ownership and last-piece guarding of the counters, the accepted-state sets of the barrier predicates evaluated as decision tables and compared with {at barrier, completed}, barrier release only under those predicates, work-group completion message only when all other wavefronts completed, with release of resources only after a successful send.",
		NotDecided:  "the issue-trace ordering under all memory latencies and occupancies (a schedule property); scoreboard hazards; the SIMM16 bit ranges of the wait-count fields",
		Assumptions: commonAssumptions}
}

// returnsNotOfField: every return of fn is `!x.<field>`.
func returnsNotOfField(fn *ssa.Function, field string) bool {
	if len(fn.Blocks) == 0 {
		return false
	}
	n := 0
	for _, b := range fn.Blocks {
		for _, in := range b.Instrs {
			r, ok := in.(*ssa.Return)
			if !ok {
				continue
			}
			n++
			if len(r.Results) != 1 {
				return false
			}
			u, ok := r.Results[0].(*ssa.UnOp)
			if !ok || u.Op != token.NOT {
				return false
			}
			f := core.LoadedField(u.X)
			if f == nil || f.Name() != field {
				return false
			}
		}
	}
	return n > 0
}

// checkOutstandingCounters (R14.3, shared with C02 as R02.5): the per-wavefront
// counters of outstanding memory instructions are incremented once per
// instruction where its requests are queued and decremented only for the last
// returning piece of an instruction.
func checkOutstandingCounters(c *core.Ctx, pcu *PkgInfo, prov *core.Prov, rule string) {
	st3 := c.Rule(rule, "outstanding-access counters are incremented only where requests are queued (once per instruction, with exactly the last generated request marked as not coalescable) and every decrement is reached only through the last-piece test of a memory return (in the function itself or in each of its callers): a decrement without a matching increment lets s_waitcnt and s_endpgm pass while accesses are in flight", 8)
	incOwners := map[string]bool{"VectorMemoryUnit.executeFlatLoad": true, "VectorMemoryUnit.executeFlatStore": true, "ScalarUnit.executeSMEMLoad": true}
	lastPiece := AnyCut(boolCut(func(_ *core.Node, v ssa.Value) bool {
		f := core.LoadedField(v)
		return f != nil && f.Name() == "CanWaitForCoalesce"
	}, false), boolCut(func(_ *core.Node, v ssa.Value) bool {
		// a helper that returns !req.CanWaitForCoalesce
		call, ok := v.(*ssa.Call)
		if !ok || call.Call.StaticCallee() == nil {
			return false
		}
		return returnsNotOfField(call.Call.StaticCallee(), "CanWaitForCoalesce")
	}, true))
	isDec := func(in ssa.Instruction) bool {
		for _, f := range []string{"OutstandingVectorMemAccess", "OutstandingScalarMemAccess"} {
			if s, ok := storeToField(in, "Wavefront."+f); ok && strings.HasSuffix(prov.Of(s.Val), "."+f+"-1)") {
				return true
			}
		}
		return false
	}
	nDec, unguarded := pcu.GuardedUp(isDec, lastPiece)
	st3.Instances += nDec
	bad := map[ssa.Instruction]bool{}
	for _, u := range unguarded {
		bad[u.Target.Instr] = true
		c.ReportAt(rule, u.Top, u.Target.Instr.Pos(), "decrement:last-piece:"+core.FuncName(u.Top), "an outstanding-access counter is decremented (in "+core.FuncName(u.Target.Instr.Parent())+") on a path from "+core.FuncName(u.Top)+" that did not pass the last-piece test of a memory return: the count drops without a matching increment, or for a piece that is not the last one, and s_waitcnt / s_endpgm pass while accesses are in flight")
	}
	pcu.Instrs(func(fn *ssa.Function, in ssa.Instruction) {
		if isDec(in) {
			st3.Ob(!bad[in])
			st3.Sample("%s: decrement only under the last-piece test (own body or every caller): %v", core.FuncName(fn), !bad[in])
		}
	})
	pcu.Instrs(func(fn *ssa.Function, in ssa.Instruction) {
		for _, f := range []string{"OutstandingVectorMemAccess", "OutstandingScalarMemAccess"} {
			s, ok := storeToField(in, "Wavefront."+f)
			if !ok {
				continue
			}
			c.MarkAnalysed(fn)
			name := core.FuncName(fn)
			pv := prov.Of(s.Val)
			switch {
			case strings.HasSuffix(pv, "."+f+"+1)"):
				st3.Instances++
				ok := incOwners[name]
				st3.Ob(ok)
				if !ok {
					c.ReportAt(rule, fn, in.Pos(), f+"++:site", f+" is incremented in "+name+", not where memory requests of an instruction are queued")
				}
			case strings.HasSuffix(pv, "."+f+"-1)"):
			default:
				st3.Instances++
				st3.Ob(false)
				c.ReportAt(rule, fn, in.Pos(), f+":write", f+" is written as "+short(pv)+" (neither +1 nor -1)")
			}
		}
	})
	// an increment belongs to the cycle in which the instruction is issued: a function that can
	// refuse the instruction (return false: the unit retries it in the next cycle) must not have
	// incremented a counter on that path
	pcu.Instrs(func(fn *ssa.Function, in ssa.Instruction) {
		for _, f := range []string{"OutstandingVectorMemAccess", "OutstandingScalarMemAccess"} {
			s, ok := storeToField(in, "Wavefront."+f)
			if !ok || !strings.HasSuffix(prov.Of(s.Val), "."+f+"+1)") {
				continue
			}
			if fn.Signature.Results().Len() != 1 {
				continue
			}
			if bt, isB := fn.Signature.Results().At(0).Type().Underlying().(*types.Basic); !isB || bt.Kind() != types.Bool {
				continue
			}
			g := core.BuildGraph(fn, 0, nil)
			n := g.NodeOf(in)
			if n == nil {
				continue
			}
			st3.Instances++
			var bad *core.Node
			g.Walk(core.After(n, nil), core.WalkOpts{ForwardOnly: true}, func(x core.State) {
				r, isR := x.N.Instr.(*ssa.Return)
				if !isR || len(r.Results) != 1 || bad != nil {
					return
				}
				if core.EvalFact(x.N, r.Results[0], x.F) < 0 {
					bad = x.N
				}
			})
			st3.Ob(bad == nil)
			st3.Sample("%s: no refusal (return false) is reachable after %s++: %v", core.FuncName(fn), f, bad == nil)
			if bad != nil {
				c.ReportAt(rule, fn, in.Pos(), f+"++:before-refusal", core.FuncName(fn)+" increments "+f+" and can then refuse the instruction ("+c.Position(bad.Instr.Pos())+": return false): the unit offers the same instruction again in the next cycle and the counter grows once per stalled cycle, while only one return decrements it - the wavefront's next s_waitcnt and its s_endpgm never pass")
			}
		}
	})
	// issue and return sites that share an in-flight list move the same set of counters
	{
		counters := []string{"OutstandingVectorMemAccess", "OutstandingScalarMemAccess"}
		type moves struct{ inc, dec map[string]bool }
		var collect func(fn *ssa.Function, depth int, m *moves, lists map[string]bool, seen map[*ssa.Function]bool)
		collect = func(fn *ssa.Function, depth int, m *moves, lists map[string]bool, seen map[*ssa.Function]bool) {
			if fn == nil || seen[fn] || depth > 2 {
				return
			}
			seen[fn] = true
			for _, b := range fn.Blocks {
				for _, in := range b.Instrs {
					for _, f := range counters {
						if s, ok := storeToField(in, "Wavefront."+f); ok {
							pv := prov.Of(s.Val)
							if strings.HasSuffix(pv, "."+f+"+1)") {
								m.inc[f] = true
							}
							if strings.HasSuffix(pv, "."+f+"-1)") {
								m.dec[f] = true
							}
						}
					}
					if f := writtenField(in); f != nil && strings.HasPrefix(f.Name(), "InFlight") && depth == 0 {
						lists[f.Name()] = true
					}
					if cal := core.CallOf(in); cal != nil && cal.StaticCallee() != nil && cal.StaticCallee().Pkg == fn.Pkg {
						collect(cal.StaticCallee(), depth+1, m, map[string]bool{}, seen)
					}
				}
			}
		}
		type site struct {
			fn    *ssa.Function
			m     moves
			lists map[string]bool
		}
		var sites []site
		for _, fn := range pcu.Funcs {
			m := moves{map[string]bool{}, map[string]bool{}}
			lists := map[string]bool{}
			collect(fn, 0, &m, lists, map[*ssa.Function]bool{})
			if len(lists) > 0 && (len(m.inc) > 0 || len(m.dec) > 0) {
				sites = append(sites, site{fn, m, lists})
			}
		}
		setStr := func(m map[string]bool) string { return strings.Join(sortedKeys(m), "+") }
		for _, a := range sites {
			if len(a.m.inc) == 0 {
				continue
			}
			for _, b := range sites {
				if len(b.m.dec) == 0 {
					continue
				}
				shared := false
				for l := range a.lists {
					if b.lists[l] {
						shared = true
					}
				}
				if !shared {
					continue
				}
				st3.Instances++
				ok := setStr(a.m.inc) == setStr(b.m.dec)
				st3.Ob(ok)
				st3.Sample("%s issues (+%s) what %s retires (-%s): %v", core.FuncName(a.fn), setStr(a.m.inc), core.FuncName(b.fn), setStr(b.m.dec), ok)
				if !ok {
					c.ReportAt(rule, a.fn, a.fn.Pos(), "counter-pair:"+core.FuncName(a.fn)+"/"+core.FuncName(b.fn), fmt.Sprintf("%s queues memory accesses and increments {%s}; %s retires entries of the same in-flight list and decrements {%s}: a counter that is decremented without having been incremented goes negative and s_waitcnt / s_endpgm stop waiting for accesses that are still in flight (one that is only incremented blocks the wavefront forever)", core.FuncName(a.fn), setStr(a.m.inc), core.FuncName(b.fn), setStr(b.m.dec)))
				}
			}
		}
	}
	// exactly the last generated request is not coalescable
	for name := range incOwners {
		fn := c.SSAFunc(cuPkg, name)
		if fn == nil {
			c.Report(core.Finding{Rule: rule, Kind: "anchor", Pkg: cuPkg, Func: name, Detail: "anchor", Msg: "request-queuing function not found"})
			continue
		}
		if !strings.Contains(name, "Flat") {
			continue
		}
		st3.Instances++
		g := core.BuildGraph(fn, 0, nil)
		ok := false
		for _, n := range g.Nodes {
			s, isS := n.Instr.(*ssa.Store)
			if !isS {
				continue
			}
			f := core.FieldOfAddr(s.Addr)
			if f == nil || f.Name() != "CanWaitForCoalesce" {
				continue
			}
			if b, isC := core.ConstBool(s.Val); !isC || !b {
				continue
			}
			// guarded by i != len(transactions)-1
			if g.Guarded(n, CmpCut(func(_ *core.Node, op token.Token, x, y ssa.Value) int {
				py := prov.Of(y)
				if strings.Contains(prov.Of(x), "iter(") && strings.HasPrefix(py, "(len(") && strings.HasSuffix(py, ")-1)") {
					switch op {
					case token.NEQ, token.LSS:
						return 1
					case token.EQL:
						return -1
					}
				}
				return 0
			})) {
				ok = true
			}
		}
		st3.Ob(ok)
		st3.Sample("%s: every request but the last is marked CanWaitForCoalesce: %v", name, ok)
		if !ok {
			c.ReportAt(rule, fn, fn.Pos(), "last-piece-marking", "the requests of one instruction are not marked so that exactly the last one triggers the decrement")
		}
	}

}

// checkEndPgmWaits (R14.1, shared with C02 as R02.14): s_endpgm retires a wavefront only when
// both of its outstanding-access counters are zero. For C02 the scalar counter matters as much as
// the vector one: the return of a scalar load writes its data at the wavefront's SGPR offset
// unconditionally, and the dispatcher reuses that slot for the next work-group.
func checkEndPgmWaits(c *core.Ctx, rule string) {
	pcu := NewPkgInfo(c, cuPkg)
	states := wfStateNames(c)
	completedV, okC := states["WfCompleted"]
	if !okC {
		c.Report(core.Finding{Rule: rule, Kind: "anchor", Pkg: wfPkg, Func: "-", Detail: "WfCompleted", Msg: "wavefront state constants not found"})
		return
	}
	isStateStore := func(in ssa.Instruction, v int64) bool {
		s, ok := storeToField(in, "Wavefront.State")
		if !ok {
			return false
		}
		k, isC := core.ConstInt(s.Val)
		return isC && k == v
	}
	st1 := c.Rule(rule, "a wavefront is marked completed by s_endpgm only on paths that found both outstanding memory counters not greater than zero; the completed state is written only by the end-of-program evaluation and the sampled-wavefront completion event", 3)
	outstanding := func(field string) EdgeCut {
		return CmpCut(func(_ *core.Node, op token.Token, x, y ssa.Value) int {
			f := core.LoadedField(x)
			if f == nil || f.Name() != field {
				return 0
			}
			if z, ok := core.ConstInt(y); !ok || z != 0 {
				return 0
			}
			switch op {
			case token.GTR, token.NEQ:
				return -1
			case token.LEQ, token.EQL:
				return 1
			}
			return 0
		})
	}
	pcu.Instrs(func(fn *ssa.Function, in ssa.Instruction) {
		if !isStateStore(in, completedV) {
			return
		}
		st1.Instances++
		c.MarkAnalysed(fn)
		name := core.FuncName(fn)
		switch name {
		case "SchedulerImpl.evalSEndPgm":
			g := core.BuildGraph(fn, 0, nil)
			for _, n := range g.Nodes {
				if n.Instr != in {
					continue
				}
				for _, f := range []string{"OutstandingVectorMemAccess", "OutstandingScalarMemAccess"} {
					ok := g.Guarded(n, outstanding(f))
					st1.Ob(ok)
					st1.Sample("evalSEndPgm: State=WfCompleted guarded by %s <= 0: %v", f, ok)
					if !ok {
						c.ReportAt(rule, fn, in.Pos(), "completed-with-outstanding:"+f, "the wavefront is marked completed on a path that did not find "+f+" equal to zero: it ends (and its registers are released) while memory operations are in flight")
					}
				}
			}
		case "ComputeUnit.handleWfCompletionEvent":
			st1.Ob(true) // sampled wavefronts never issued a memory operation
		default:
			st1.Ob(false)
			c.ReportAt(rule, fn, in.Pos(), "completed:writer", "the completed state is set outside the end-of-program evaluation ("+name+")")
		}
	})

}
