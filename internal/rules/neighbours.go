package rules

import (
	"fmt"
	"go/ast"
	"go/token"
	"go/types"
	"path/filepath"
	"sort"
	"strings"

	"golang.org/x/tools/go/ssa"

	"verif/internal/core"
)

// neighbours.go: rules against the slip of the copied line - a name replaced
// by its neighbour of the same type. The compiler cannot tell and the common
// case (both neighbours hold the same value) behaves as before; but two uses
// that must name the same thing can be compared in the shape of the code.

// checkDestinationNeverRead (R03.52): the scalar destination of a VOP3b / VOPC
// instruction (carry-out, compare mask) is written, never read: a carry-in
// comes from SSRC2 or VCC.
func checkDestinationNeverRead(c *core.Ctx) {
	st := c.Rule("R03.52", "a handler never reads the instruction's scalar destination: no ReadOperand(inst.SDst, ...) in the two ALUs - the carry-in of v_addc / v_subb is SSRC2 (or VCC in the short encoding), SDST is where the carry-out goes; a handler that takes its carry-in from SDST computes from whatever the destination pair held before", 12)
	for _, rel := range []string{emuPkg, cdna3Pkg} {
		for _, fn := range c.SrcFuncs(rel) {
			writes := false
			for _, b := range fn.Blocks {
				for _, in := range b.Instrs {
					cc := core.CallOf(in)
					if cc == nil || !cc.IsInvoke() || len(cc.Args) == 0 {
						continue
					}
					if operandFieldName(cc.Args[0]) != "SDst" {
						continue
					}
					switch cc.Method.Name() {
					case "WriteOperand":
						writes = true
					case "ReadOperand":
						st.Instances++
						st.Ob(false)
						c.ReportAt("R03.52", fn, in.Pos(), "reads-scalar-destination", core.FuncName(fn)+" reads inst.SDst: the scalar destination is an output; the carry / borrow input of the instruction is its third source")
					}
				}
			}
			if writes {
				st.Instances++
				st.Ob(true)
				c.MarkAnalysed(fn)
			}
		}
	}
}

// checkModifierIndexMatchesOperand (R06.mod): applyF32Modifier(v, k, inst)
// applies the NEG / ABS bit k of the instruction to v; v is source k.
func checkModifierIndexMatchesOperand(c *core.Ctx) {
	st := c.Rule("R06.mod", "the source index handed to applyF32Modifier / applyF64Modifier / applyB32Modifier is the constant number of the source that is read (ReadOperand(inst.SrcK, lane) goes with index K): an index that is the lane counter gives lane 0 the first source's modifiers, lane 1 the second's and the lanes from 3 on none, and a neighbour's constant applies the wrong source's NEG / ABS", 80)
	for _, rel := range []string{emuPkg, cdna3Pkg} {
		for _, fn := range c.SrcFuncs(rel) {
			for _, b := range fn.Blocks {
				for _, in := range b.Instrs {
					call, ok := in.(*ssa.Call)
					if !ok {
						continue
					}
					cal := call.Call.StaticCallee()
					if cal == nil || !strings.HasPrefix(cal.Name(), "apply") || !strings.HasSuffix(cal.Name(), "Modifier") || len(call.Call.Args) != 3 {
						continue
					}
					src := ""
					var back func(v ssa.Value, d int)
					back = func(v ssa.Value, d int) {
						if d > 6 || src != "" {
							return
						}
						switch x := v.(type) {
						case *ssa.Convert:
							back(x.X, d+1)
						case *ssa.Call:
							if x.Call.IsInvoke() && x.Call.Method.Name() == "ReadOperand" && len(x.Call.Args) > 0 {
								src = operandFieldName(x.Call.Args[0])
								return
							}
							for _, a := range x.Call.Args {
								back(a, d+1)
							}
						}
					}
					back(call.Call.Args[0], 0)
					if !strings.HasPrefix(src, "Src") {
						continue
					}
					st.Instances++
					c.MarkAnalysed(fn)
					k, isK := core.ConstInt(call.Call.Args[1])
					good := isK && fmt.Sprintf("Src%d", k) == src
					st.Ob(good)
					if !good {
						what := "a value that is not a constant"
						if isK {
							what = fmt.Sprintf("the constant %d", k)
						}
						c.ReportAt("R06.mod", fn, call.Pos(), "modifier-index:"+src, fmt.Sprintf("%s applies the source modifiers selected by %s to the value read from inst.%s", core.FuncName(fn), what, src))
					}
				}
			}
		}
	}
}

func sameFieldLoad(a, b ssa.Value) bool {
	la, ok1 := a.(*ssa.UnOp)
	lb, ok2 := b.(*ssa.UnOp)
	if !ok1 || !ok2 || la.Op != token.MUL || lb.Op != token.MUL {
		return false
	}
	fa, ok1 := la.X.(*ssa.FieldAddr)
	fb, ok2 := lb.X.(*ssa.FieldAddr)
	return ok1 && ok2 && fa.X == fb.X && fa.Field == fb.Field
}

// checkNoDegenerateChoice: `x := o.A; if cond { x = o.A }` - a choice between a
// field and itself. The second arm was meant to name the neighbour.
func checkNoDegenerateChoice(c *core.Ctx, rule, why string, floor int, pis ...*PkgInfo) {
	st := c.Rule(rule, "a value chosen by a condition between two loads of fields of one object is a choice between two different fields: `off := wf.SRegOffset; if reg.IsVReg() { off = wf.SRegOffset }` selects nothing. "+why, floor)
	for _, pi := range pis {
		for _, fn := range pi.Funcs {
			for _, b := range fn.Blocks {
				for _, in := range b.Instrs {
					phi, ok := in.(*ssa.Phi)
					if !ok || len(phi.Edges) < 2 {
						continue
					}
					allLoads := true
					for _, e := range phi.Edges {
						if ld, ok := e.(*ssa.UnOp); !ok || ld.Op != token.MUL {
							allLoads = false
						} else if _, isFA := ld.X.(*ssa.FieldAddr); !isFA {
							allLoads = false
						}
					}
					if !allLoads {
						continue
					}
					st.Instances++
					c.MarkAnalysed(fn)
					same := true
					for _, e := range phi.Edges[1:] {
						if !sameFieldLoad(phi.Edges[0], e) {
							same = false
						}
					}
					st.Ob(!same)
					if same {
						f := fieldNameOf(phi.Edges[0].(*ssa.UnOp).X.(*ssa.FieldAddr))
						c.ReportAt(rule, fn, phi.Edges[1].Pos(), "choice-between-a-field-and-itself:"+f, core.FuncName(fn)+" chooses between "+f+" and "+f+": both arms of the condition load the same field. "+why)
					}
				}
			}
		}
	}
}

// checkRegisterFileOffsetPairing (R14.17 / R07.15): the scalar register file is
// addressed with the wavefront's SRegOffset, a vector file with VRegOffset.
func checkRegisterFileOffsetPairing(c *core.Ctx, rule string) {
	st := c.Rule(rule, "storage of the scalar register file is sliced or indexed at the wavefront's SRegOffset and storage of a vector register file at its VRegOffset: the scalar file is shared by the compute unit and the vector files are per SIMD, so the two offsets of one wavefront differ for every wavefront but the first, and the other one's offset lands in another wavefront's registers", 2)
	prov := core.NewLocalProv(c)
	for _, fn := range c.SrcFuncs(cuPkg) {
		for _, b := range fn.Blocks {
			for _, in := range b.Instrs {
				var base, idx ssa.Value
				switch x := in.(type) {
				case *ssa.Slice:
					base, idx = x.X, x.Low
				case *ssa.IndexAddr:
					base, idx = x.X, x.Index
				}
				if base == nil || idx == nil {
					continue
				}
				ps, pi := prov.Of(base), prov.Of(idx)
				file := ""
				switch {
				case strings.Contains(ps, "SRegFile"):
					file = "S"
				case strings.Contains(ps, "VRegFile"):
					file = "V"
				default:
					continue
				}
				hasS, hasV := strings.Contains(pi, "SRegOffset"), strings.Contains(pi, "VRegOffset")
				if !hasS && !hasV {
					continue
				}
				st.Instances++
				c.MarkAnalysed(fn)
				good := (file == "S" && hasS && !hasV) || (file == "V" && hasV && !hasS)
				st.Ob(good)
				if !good {
					c.ReportAt(rule, fn, in.Pos(), "register-file-offset-mismatch:"+file+"RegFile", core.FuncName(fn)+" addresses the storage of the "+map[string]string{"S": "scalar", "V": "vector"}[file]+" register file at "+short(pi)+": the offset of the other register file")
				}
			}
		}
	}
}

// checkParallelIndexAgreement (R09.17): two per-SIMD tables combined in one
// expression are read at the same SIMD.
func checkParallelIndexAgreement(c *core.Ctx, rule string, floor int, pi *PkgInfo) {
	st := c.Rule(rule, "an arithmetic or ordering expression over elements of two different per-unit tables reads both at the same position (`free[s] - used[s]`): the same value, or two loads of the same field in the same block. `free[r.nextSIMD] - used[firstSIMDTested]` subtracts what another SIMD has already been given, and a work-group is placed on a SIMD without a free wavefront slot", floor)
	for _, fn := range pi.Funcs {
		for _, b := range fn.Blocks {
			for _, in := range b.Instrs {
				bo, ok := in.(*ssa.BinOp)
				if !ok {
					continue
				}
				switch bo.Op {
				case token.SUB, token.ADD, token.LSS, token.GTR, token.LEQ, token.GEQ:
				default:
					continue
				}
				elem := func(v ssa.Value) *ssa.IndexAddr {
					ld, ok := v.(*ssa.UnOp)
					if !ok || ld.Op != token.MUL {
						return nil
					}
					ia, _ := ld.X.(*ssa.IndexAddr)
					return ia
				}
				a, bb := elem(bo.X), elem(bo.Y)
				if a == nil || bb == nil || a.X == bb.X {
					continue
				}
				if isConstVal(a.Index) || isConstVal(bb.Index) {
					continue
				}
				st.Instances++
				c.MarkAnalysed(fn)
				ia, ib := core.StripConv(a.Index), core.StripConv(bb.Index)
				good := ia == ib
				if !good && sameFieldLoad(ia, ib) && ia.(*ssa.UnOp).Block() == ib.(*ssa.UnOp).Block() {
					good = true
				}
				st.Ob(good)
				if !good {
					c.ReportAt(rule, fn, bo.Pos(), "tables-read-at-different-positions", core.FuncName(fn)+" combines elements of two tables taken at two different positions in one expression")
				}
			}
		}
	}
}

// checkMigrationTargetDevice (R10.23 / R19.14): the device the new frame is
// taken from is the device that is recorded for the page.
func checkMigrationTargetDevice(c *core.Ctx, rule string) {
	st := c.Rule(rule, "a page that is re-homed for a migration gets its frame from the device that is then recorded for it: in Driver.preparePageForMigration the device argument of AllocatePageWithGivenVAddr and the value stored into the new page's DeviceID are the same expression (conversions aside). A frame from the context's selected GPU under the requesting GPU's device id lies outside the recorded device's memory, and the migration writes to an address the target does not own", 1)
	fn := c.MustFunc(rule, driverPkg, "Driver.preparePageForMigration")
	if fn == nil {
		return
	}
	prov := core.NewLocalProv(c)
	var devArg, devStored ssa.Value
	var pos token.Pos
	for _, b := range fn.Blocks {
		for _, in := range b.Instrs {
			if cc := core.CallOf(in); cc != nil && cc.IsInvoke() && cc.Method.Name() == "AllocatePageWithGivenVAddr" && len(cc.Args) >= 2 {
				devArg, pos = cc.Args[1], in.Pos()
			}
			if s, ok := in.(*ssa.Store); ok {
				if f := core.FieldOfAddr(s.Addr); f != nil && f.Name() == "DeviceID" {
					devStored = s.Val
				}
			}
		}
	}
	st.Instances++
	c.MarkAnalysed(fn)
	if devArg == nil || devStored == nil {
		st.Ob(false)
		c.Undecided(rule, fn, fn.Pos(), "migration-target:shape", "preparePageForMigration no longer allocates with AllocatePageWithGivenVAddr and stores DeviceID: the rule has lost its subject")
		return
	}
	strip := func(v ssa.Value) string { return prov.Of(core.StripConv(v)) }
	good := strip(devArg) == strip(devStored)
	st.Ob(good)
	st.Sample("preparePageForMigration: frame from %s, recorded %s", short(strip(devArg)), short(strip(devStored)))
	if !good {
		c.ReportAt(rule, fn, pos, "migration-frame-from-other-device", "preparePageForMigration takes the new frame from device "+short(strip(devArg))+" and records the page on device "+short(strip(devStored)))
	}
}

// checkDstFoundFromRequestAddress (R11.19 / R16.19): a memory request is sent to
// the module that owns the address it carries.
func checkDstFoundFromRequestAddress(c *core.Ctx, rule, why string, floor int, pis ...*PkgInfo) {
	st := c.Rule(rule, "a memory request built with WithDst(<mapper>.Find(a)) and WithAddress(b) has a and b the same value: the module is looked up with the address the request carries. "+why, floor)
	for _, pi := range pis {
		for _, fn := range pi.Funcs {
			for _, ch := range core.BuilderChains(fn) {
				dst, okD := ch.Setters["WithDst"]
				adr, okA := ch.Setters["WithAddress"]
				if !okD || !okA || len(dst) == 0 || len(adr) == 0 {
					continue
				}
				call, ok := dst[0].(*ssa.Call)
				if !ok {
					continue
				}
				name := ""
				if call.Call.IsInvoke() {
					name = call.Call.Method.Name()
				} else if cal := call.Call.StaticCallee(); cal != nil {
					name = cal.Name()
				}
				if name != "Find" || len(call.Call.Args) == 0 {
					continue
				}
				a := core.StripConv(call.Call.Args[len(call.Call.Args)-1])
				b := core.StripConv(adr[0])
				st.Instances++
				c.MarkAnalysed(fn)
				good := a == b
				st.Ob(good)
				if !good {
					c.ReportAt(rule, fn, ch.Build.Pos(), "destination-found-from-other-address", core.FuncName(fn)+" looks the destination module up with one address and puts another into the request. "+why)
				}
			}
		}
	}
}

// checkClosedChannelHasNoSender (R12.28): a channel that is closed is not sent on.
func checkClosedChannelHasNoSender(c *core.Ctx, rule string, pi *PkgInfo) {
	st := c.Rule(rule, "a channel field that some function closes is a channel no function sends on (a send on a closed channel panics: the sender here is the simulation thread notifying a queue's waiters, or another application thread enqueuing): for every close(x.F), no send statement and no send case of a select names field F", 1)
	sent := map[*types.Var][]ssa.Instruction{}
	chanField := func(v ssa.Value) *types.Var { return core.LoadedField(v) }
	pi.Instrs(func(fn *ssa.Function, in ssa.Instruction) {
		switch x := in.(type) {
		case *ssa.Send:
			if f := chanField(x.Chan); f != nil {
				sent[f] = append(sent[f], in)
			}
		case *ssa.Select:
			for _, s := range x.States {
				if s.Dir == types.SendOnly {
					if f := chanField(s.Chan); f != nil {
						sent[f] = append(sent[f], in)
					}
				}
			}
		}
	})
	pi.Instrs(func(fn *ssa.Function, in ssa.Instruction) {
		if !core.IsBuiltin(in, "close") {
			return
		}
		cc := core.CallOf(in)
		f := chanField(cc.Args[0])
		if f == nil {
			return
		}
		st.Instances++
		c.MarkAnalysed(fn)
		good := len(sent[f]) == 0
		st.Ob(good)
		if !good {
			c.ReportAt(rule, fn, in.Pos(), "closes-channel-with-sender:"+f.Name(), core.FuncName(fn)+" closes "+core.ShortFieldID(f)+", and "+c.Position(sent[f][0].Pos())+" sends on it: a notification that arrives after the close panics")
		}
	})
}

// checkBoundTestedOnIndexedSlice (R13.13): `i < len(T)` guards T[i].
func checkBoundTestedOnIndexedSlice(c *core.Ctx, rule string, floor int, pi *PkgInfo, filter func(*ssa.Function) bool) {
	st := c.Rule(rule, "an index that is tested against the length of a slice before it is used indexes that slice: for every `v < len(T)` whose true edge dominates an element access S[v], S is T (or another dominating test compares v with len(S)). A section index tested against the number of symbols and used on the section table lets a valid file with few symbols lose its kernel descriptor, and an invalid one index past the table", floor)
	prov := core.NewLocalProv(c)
	type guard struct {
		v, t string
		blk  *ssa.BasicBlock
	}
	for _, fn := range pi.Funcs {
		if filter != nil && !filter(fn) {
			continue
		}
		var guards []guard
		for _, b := range fn.Blocks {
			iff, ok := b.Instrs[len(b.Instrs)-1].(*ssa.If)
			if !ok {
				continue
			}
			bo, ok := iff.Cond.(*ssa.BinOp)
			if !ok {
				continue
			}
			var v, l ssa.Value
			var trueBlk *ssa.BasicBlock
			switch bo.Op {
			case token.LSS:
				v, l, trueBlk = bo.X, bo.Y, b.Succs[0]
			case token.GTR:
				v, l, trueBlk = bo.Y, bo.X, b.Succs[0]
			case token.GEQ:
				v, l, trueBlk = bo.X, bo.Y, b.Succs[1]
			case token.LEQ:
				v, l, trueBlk = bo.Y, bo.X, b.Succs[1]
			default:
				continue
			}
			lc, ok := core.StripConv(l).(*ssa.Call)
			if !ok || !core.IsBuiltin(lc, "len") {
				continue
			}
			if len(trueBlk.Preds) != 1 {
				continue
			}
			guards = append(guards, guard{prov.Of(core.StripConv(v)), prov.Of(lc.Call.Args[0]), trueBlk})
		}
		if len(guards) == 0 {
			continue
		}
		for _, b := range fn.Blocks {
			for _, in := range b.Instrs {
				var base, idx ssa.Value
				switch x := in.(type) {
				case *ssa.IndexAddr:
					base, idx = x.X, x.Index
				case *ssa.Index:
					base, idx = x.X, x.Index
				}
				if base == nil {
					continue
				}
				pv, ps := prov.Of(core.StripConv(idx)), prov.Of(base)
				// a slice made with the length of T is as long as T
				madeLike := ""
				if mk, ok := base.(*ssa.MakeSlice); ok {
					if lc, ok := core.StripConv(mk.Len).(*ssa.Call); ok && core.IsBuiltin(lc, "len") {
						madeLike = prov.Of(lc.Call.Args[0])
					}
				}
				guardedHere, own := false, false
				other := ""
				for _, g := range guards {
					if g.v != pv || !(g.blk == b || g.blk.Dominates(b)) {
						continue
					}
					guardedHere = true
					if g.t == ps || (madeLike != "" && g.t == madeLike) {
						own = true
					} else {
						other = g.t
					}
				}
				if !guardedHere {
					continue
				}
				st.Instances++
				c.MarkAnalysed(fn)
				st.Ob(own)
				if !own {
					c.ReportAt(rule, fn, in.Pos(), "bound-tested-on-other-slice", core.FuncName(fn)+" indexes "+short(ps)+" with "+short(pv)+", which was tested against len("+short(other)+") only")
				}
			}
		}
	}
}

// checkScanDestinationsDistinct (R20.19): every verb of a Sscanf has a
// destination of its own.
func checkScanDestinationsDistinct(c *core.Ctx, rule string, floor int, rels ...string) {
	st := c.Rule(rule, "the destinations of one fmt.Sscanf / Sscan / Fscanf call are pairwise different addresses: `Sscanf(s, \"%d,%d,%d\", &id[0], &id[1], &id[1])` reports three items scanned and no error, puts the third number over the second and leaves the third destination untouched", floor)
	prov := core.NewLocalProv(c)
	for _, rel := range rels {
		for _, fn := range c.SrcFuncs(rel) {
			for _, b := range fn.Blocks {
				for _, in := range b.Instrs {
					cal := core.CalleeFunc(in)
					if cal == nil || cal.Pkg() == nil || cal.Pkg().Path() != "fmt" || !strings.Contains(cal.Name(), "scan") {
						continue
					}
					cc := core.CallOf(in)
					sl, ok := cc.Args[len(cc.Args)-1].(*ssa.Slice)
					if !ok {
						continue
					}
					al, ok := sl.X.(*ssa.Alloc)
					if !ok || al.Referrers() == nil {
						continue
					}
					var dests []string
					for _, r := range *al.Referrers() {
						ia, ok := r.(*ssa.IndexAddr)
						if !ok || ia.Referrers() == nil {
							continue
						}
						for _, r2 := range *ia.Referrers() {
							if s, ok := r2.(*ssa.Store); ok {
								v := s.Val
								if mi, ok := v.(*ssa.MakeInterface); ok {
									v = mi.X
								}
								dests = append(dests, prov.Of(v))
							}
						}
					}
					if len(dests) < 2 {
						continue
					}
					st.Instances++
					c.MarkAnalysed(fn)
					seen := map[string]bool{}
					dup := ""
					for _, d := range dests {
						if seen[d] {
							dup = d
						}
						seen[d] = true
					}
					st.Ob(dup == "")
					if dup != "" {
						c.ReportAt(rule, fn, in.Pos(), "scan-destination-twice", core.FuncName(fn)+" scans two items into the same destination "+short(dup))
					}
				}
			}
		}
	}
}

// checkStrideNotClamped (R18.15): in amd/benchmarks/mccl, the offset of pass j
// is j times the pass size, not j times the clamped length of this pass.
func checkStrideNotClamped(c *core.Ctx, rule string) {
	st := c.Rule(rule, "in the collectives of amd/benchmarks/mccl a product with a loop counter does not use a length that was clamped with min(...): the offset of pass j is j * (size of a full pass); `j * currBufSize` with currBufSize = min(sizePerBuf, what is left) is the same on every full pass and wrong on the short last one, whose elements are then never reduced - every GPU keeps its own values there, and a run on several GPUs ends with other data than a run on one", 1)
	c.Load("./amd/benchmarks/mccl")
	for _, p := range c.RepoPkgs() {
		if core.RelPkg(p.PkgPath) != "amd/benchmarks/mccl" {
			continue
		}
		for i, f := range p.Syntax {
			if i < len(p.CompiledGoFiles) && strings.HasSuffix(p.CompiledGoFiles[i], "_test.go") {
				continue
			}
			rel, _ := filepath.Rel(core.RepoDir, c.Fset.Position(f.Pos()).Filename)
			for _, d := range f.Decls {
				fd, ok := d.(*ast.FuncDecl)
				if !ok || fd.Body == nil {
					continue
				}
				clamped := map[types.Object]bool{}
				counters := map[types.Object]bool{}
				ast.Inspect(fd.Body, func(n ast.Node) bool {
					switch x := n.(type) {
					case *ast.AssignStmt:
						for k, rhs := range x.Rhs {
							call, ok := rhs.(*ast.CallExpr)
							if !ok || k >= len(x.Lhs) {
								continue
							}
							if id, ok := call.Fun.(*ast.Ident); ok && strings.HasPrefix(strings.ToLower(id.Name), "min") {
								if l, ok := x.Lhs[k].(*ast.Ident); ok {
									if o := p.TypesInfo.ObjectOf(l); o != nil {
										clamped[o] = true
									}
								}
							}
						}
					case *ast.ForStmt:
						if as, ok := x.Init.(*ast.AssignStmt); ok {
							for _, l := range as.Lhs {
								if id, ok := l.(*ast.Ident); ok {
									if o := p.TypesInfo.ObjectOf(id); o != nil {
										counters[o] = true
									}
								}
							}
						}
					}
					return true
				})
				if len(counters) == 0 {
					continue
				}
				var bad []*ast.BinaryExpr
				n := 0
				ast.Inspect(fd.Body, func(nd ast.Node) bool {
					be, ok := nd.(*ast.BinaryExpr)
					if !ok || be.Op != token.MUL {
						return true
					}
					obj := func(e ast.Expr) types.Object {
						for {
							switch x := e.(type) {
							case *ast.ParenExpr:
								e = x.X
								continue
							case *ast.CallExpr: // conversion
								if len(x.Args) == 1 {
									if tv, ok := p.TypesInfo.Types[x.Fun]; ok && tv.IsType() {
										e = x.Args[0]
										continue
									}
								}
							case *ast.Ident:
								return p.TypesInfo.ObjectOf(x)
							}
							return nil
						}
					}
					ox, oy := obj(be.X), obj(be.Y)
					if (ox != nil && counters[ox]) || (oy != nil && counters[oy]) {
						n++
						if (ox != nil && clamped[ox]) || (oy != nil && clamped[oy]) {
							bad = append(bad, be)
						}
					}
					return true
				})
				if n == 0 {
					continue
				}
				st.Instances++
				st.Ob(len(bad) == 0)
				for _, be := range bad {
					c.Report(core.Finding{Rule: rule, Pkg: "amd/benchmarks/mccl", Func: core.DeclName(fd), Detail: "stride-from-clamped-length", Pos: fmt.Sprintf("%s:%d", rel, c.Fset.Position(be.Pos()).Line),
						Msg: core.DeclName(fd) + " multiplies a loop counter by a length that was clamped with min(...) (" + types.ExprString(be) + "): the offset of a pass is the counter times the full pass size"})
				}
			}
		}
	}
	_ = sort.Strings
}
