package rules

import (
	"go/token"
	"go/types"
	"strings"

	"golang.org/x/tools/go/ssa"

	"verif/internal/core"
)

// results.go: how a result or a failure is handled (twenty-fifth seeding batch).

// checkRetiredOnlyIfAccepted (R14.19 / R02.24): the vector memory unit retires an
// instruction only where executeFlatInsts accepted it.
func checkRetiredOnlyIfAccepted(c *core.Ctx, rule string) {
	st := c.Rule(rule, "VectorMemoryUnit.execute advances a wavefront (UpdatePCAndSetReady, the pop of the instruction buffer) only on a path on which executeFlatInsts returned true: it returns false when the compute unit's table of in-flight vector accesses has no room, and the instruction must stay for a retry. Retired on the refused path, the load or store creates no transaction and raises no counter: s_waitcnt passes at once, the destination registers keep stale values or the store never reaches memory", 1)
	fn := c.MustFunc(rule, cuPkg, "VectorMemoryUnit.execute")
	if fn == nil {
		return
	}
	c.MarkAnalysed(fn)
	g := core.BuildGraph(fn, 0, nil)
	id := core.ModPath + "/amd/timing/cu.VectorMemoryUnit.executeFlatInsts"
	for _, n := range g.NodesWhere(callsNamed("UpdatePCAndSetReady")) {
		st.Instances++
		good := g.Guarded(n, CallResultCut(true, id))
		st.Ob(good)
		if !good {
			c.ReportAt(rule, fn, n.Instr.Pos(), "retired-although-refused", "VectorMemoryUnit.execute advances the wavefront on a path on which executeFlatInsts did not return true: a refused memory instruction is dropped instead of retried")
		}
	}
}

// regConstOfWrite: the k of a `VRegFile[..].Write(RegisterAccess{.., insts.VReg(k), ..})`.
func regConstOfWrite(in ssa.Instruction) (int64, bool) {
	cc := core.CallOf(in)
	if cc == nil || !cc.IsInvoke() || cc.Method.Name() != "Write" || len(cc.Args) != 1 {
		return 0, false
	}
	ld, ok := cc.Args[0].(*ssa.UnOp)
	if !ok || ld.Op != token.MUL {
		return 0, false
	}
	al, ok := ld.X.(*ssa.Alloc)
	if !ok || al.Referrers() == nil {
		return 0, false
	}
	for _, r := range *al.Referrers() {
		fa, ok := r.(*ssa.FieldAddr)
		if !ok || fieldNameOf(fa) != "Reg" || fa.Referrers() == nil {
			continue
		}
		for _, r2 := range *fa.Referrers() {
			if s, ok := r2.(*ssa.Store); ok {
				if call, ok := s.Val.(*ssa.Call); ok && len(call.Call.Args) == 1 {
					if f := core.CalleeFunc(call); f != nil && f.Name() == "VReg" {
						return core.ConstInt(call.Call.Args[0])
					}
				}
			}
		}
	}
	return 0, false
}

// R07.18: one write per register per lane when a wavefront's registers are initialised.
func checkInitWritesEachRegisterOnce(c *core.Ctx) {
	st := c.Rule("R07.18", "when the timing dispatcher initialises a wavefront's vector registers, no register is written twice for one lane: from a Write of VReg(k) no other Write of VReg(k) is reachable without going round the lane loop. The V5 branch writes the packed work-item id into v0 and goes on to the next lane; fallen through into the V2/V3 path, v0 is overwritten with the bare x and v1 / v2 are written although a V5 kernel does not have them - the timing register store then disagrees with the emulator's", 2)
	fn := c.MustFunc("R07.18", cuPkg, "WfDispatcherImpl.initRegisters")
	if fn == nil {
		return
	}
	c.MarkAnalysed(fn)
	g := core.BuildGraph(fn, 0, nil)
	type w struct {
		n *core.Node
		k int64
	}
	var ws []w
	for _, n := range g.Nodes {
		if k, ok := regConstOfWrite(n.Instr); ok {
			ws = append(ws, w{n, k})
		}
	}
	for _, a := range ws {
		st.Instances++
		reach, _ := g.Reach(core.After(a.n, nil), core.WalkOpts{ForwardOnly: true})
		bad := false
		for _, b := range ws {
			if b.n != a.n && b.k == a.k && reach[b.n] {
				bad = true
			}
		}
		st.Ob(!bad)
		if bad {
			c.ReportAt("R07.18", fn, a.n.Instr.Pos(), "register-written-twice-per-lane", "initRegisters can write the same vector register twice for one lane: the first value (the packed id of a V5 kernel) is overwritten")
		}
	}
}

// R10.27: the member GPU a unified page comes from was found to have room.
func checkUnifiedPageFromGPUWithRoom(c *core.Ctx) {
	st := c.Rule("R10.27", "Device.allocateUnifiedGPUPage takes the page from a member GPU that it found not exhausted: every non-nil value that reaches the receiver of the allocatePage call was assigned in a block dominated by the false edge of noAvailablePAddrs() on that same device. Assigned before the test, the choice is simply the last GPU of the rotation: with that one full the driver panics out of memory while other members have room", 1)
	fn := c.MustFunc("R10.27", drvIntPkg, "Device.allocateUnifiedGPUPage")
	if fn == nil {
		return
	}
	c.MarkAnalysed(fn)
	var recv ssa.Value
	for _, b := range fn.Blocks {
		for _, in := range b.Instrs {
			if cc := core.CallOf(in); cc != nil && !cc.IsInvoke() && cc.StaticCallee() != nil && cc.StaticCallee().Name() == "allocatePage" && len(cc.Args) > 0 {
				recv = cc.Args[0]
			}
		}
	}
	st.Instances++
	if recv == nil {
		st.Ob(false)
		c.Undecided("R10.27", fn, fn.Pos(), "unified-page:shape", "allocateUnifiedGPUPage no longer calls allocatePage on a chosen device")
		return
	}
	// the values that can reach the receiver, with the block they are carried in from
	type src struct {
		v ssa.Value
		b *ssa.BasicBlock
	}
	var srcs []src
	seen := map[ssa.Value]bool{}
	var walk func(v ssa.Value, from *ssa.BasicBlock)
	walk = func(v ssa.Value, from *ssa.BasicBlock) {
		if phi, ok := v.(*ssa.Phi); ok {
			if seen[phi] {
				return
			}
			seen[phi] = true
			for i, e := range phi.Edges {
				walk(e, phi.Block().Preds[i])
			}
			return
		}
		if !core.IsNilConst(v) {
			srcs = append(srcs, src{v, from})
		}
	}
	walk(recv, nil)
	good := len(srcs) > 0
	for _, s := range srcs {
		ok := false
		for _, b := range fn.Blocks {
			iff, isIf := b.Instrs[len(b.Instrs)-1].(*ssa.If)
			if !isIf {
				continue
			}
			cond, neg := stripNot(iff.Cond)
			call, isCall := cond.(*ssa.Call)
			if !isCall || !call.Call.IsInvoke() || call.Call.Method.Name() != "noAvailablePAddrs" {
				continue
			}
			// the device the MemState belongs to
			ld, isLd := call.Call.Value.(*ssa.UnOp)
			if !isLd {
				continue
			}
			fa, isFA := ld.X.(*ssa.FieldAddr)
			if !isFA || fa.X != s.v {
				continue
			}
			free := b.Succs[1]
			if neg {
				free = b.Succs[0]
			}
			if s.b != nil && (free == s.b || free.Dominates(s.b)) && len(free.Preds) == 1 {
				ok = true
			}
		}
		if !ok {
			good = false
		}
	}
	st.Ob(good)
	if !good {
		c.ReportAt("R10.27", fn, fn.Pos(), "unified-page-from-untested-gpu", "allocateUnifiedGPUPage can call allocatePage on a member GPU that it did not find to have free pages")
	}
}

// R16.20: a finder returns an element only where the comparison succeeded.
func checkFindersReturnNilOnMiss(c *core.Ctx, rule string, floor int, pi *PkgInfo) {
	st := c.Rule(rule, "a lookup function of the translator (find*: it ranges over a list and compares an id) returns an element only on a path on which the equality test succeeded, and nil otherwise: every return of a value that is not the nil constant is dominated by the true edge of an == comparison. A finder whose result is the range variable itself returns the last element on a miss: a translation reply that matches nothing is attached to an unrelated pending lookup, whose accesses leave with another page's frame", floor)
	for _, fn := range pi.Funcs {
		if !strings.HasPrefix(fn.Name(), "find") || fn.Signature.Results().Len() != 1 {
			continue
		}
		if _, isPtr := fn.Signature.Results().At(0).Type().(*types.Pointer); !isPtr {
			continue
		}
		g := core.BuildGraph(fn, 0, nil)
		eq := CmpCut(func(_ *core.Node, op token.Token, x, y ssa.Value) int {
			switch op {
			case token.EQL:
				return 1
			case token.NEQ:
				return -1
			}
			return 0
		})
		for _, n := range g.Nodes {
			r, ok := n.Instr.(*ssa.Return)
			if !ok || len(r.Results) != 1 || core.IsNilConst(r.Results[0]) {
				continue
			}
			st.Instances++
			c.MarkAnalysed(fn)
			good := g.Guarded(n, eq)
			st.Ob(good)
			if !good {
				c.ReportAt(rule, fn, r.Pos(), "finder-returns-element-on-miss", core.FuncName(fn)+" can return an element on a path on which no equality test succeeded: a miss is reported as a hit")
			}
		}
	}
}

// R18.18: the shared completion path decodes a device-to-host copy.
func checkSharedCompletionDecodes(c *core.Ctx, rule string) {
	st := c.Rule(rule, "every function of the copy middleware that retires a command given to it as a Command (the completion path shared by copy pieces and flushes) decodes a device-to-host command's bytes into its host destination (a binary.Read in that function): the response that empties the outstanding list can be another GPU's flush, so a decode that only the piece handler performs is skipped whenever a flush returns last - one GPU: never; two GPUs: MemCopyD2H returns with the buffer untouched", 1)
	for _, fn := range c.SrcFuncs(driverPkg) {
		if !strings.HasPrefix(core.FuncName(fn), "defaultMemoryCopyMiddleware.") {
			continue
		}
		takesIface := false
		for _, p := range fn.Params[1:] {
			if n, ok := p.Type().(*types.Named); ok && n.Obj().Name() == "Command" {
				takesIface = true
			}
		}
		if !takesIface {
			continue
		}
		dequeues, decodes := false, false
		for _, b := range fn.Blocks {
			for _, in := range b.Instrs {
				if core.IsCall(in, core.ModPath+"/amd/driver.CommandQueue.Dequeue") {
					dequeues = true
				}
				if f := core.CalleeFunc(in); f != nil && f.Pkg() != nil && f.Pkg().Path() == "encoding/binary" && f.Name() == "Read" {
					decodes = true
				}
			}
		}
		if !dequeues {
			continue
		}
		st.Instances++
		c.MarkAnalysed(fn)
		st.Ob(decodes)
		if !decodes {
			c.ReportAt(rule, fn, fn.Pos(), "shared-completion-without-decode", core.FuncName(fn)+" retires a command of any kind and never decodes the bytes of a device-to-host copy")
		}
	}
}

// R20.22: the last line of a list is a line.
func checkLineKeptAtEOF(c *core.Ctx, rule string, rels ...string) {
	st := c.Rule(rule, "where the trace reader reads lines with bufio.Reader.ReadString, the branch taken when it reports an error still uses the text it returned: at the end of a file without a trailing newline ReadString returns the last line together with io.EOF, and a loop that leaves on the error without looking at the line drops the last kernel of the list - it never reaches the driver and the run ends normally", 0)
	for _, rel := range rels {
		for _, fn := range c.SrcFuncs(rel) {
			for _, b := range fn.Blocks {
				for _, in := range b.Instrs {
					call, ok := in.(*ssa.Call)
					if !ok {
						continue
					}
					f := core.CalleeFunc(call)
					if f == nil || f.Pkg() == nil || f.Pkg().Path() != "bufio" || f.Name() != "ReadString" || call.Referrers() == nil {
						continue
					}
					var line, errv ssa.Value
					for _, r := range *call.Referrers() {
						if ex, ok := r.(*ssa.Extract); ok {
							if ex.Index == 0 {
								line = ex
							} else {
								errv = ex
							}
						}
					}
					st.Instances++
					c.MarkAnalysed(fn)
					if line == nil || errv == nil || errv.Referrers() == nil {
						st.Ob(line != nil)
						if line == nil {
							c.ReportAt(rule, fn, call.Pos(), "line-dropped-at-eof", core.FuncName(fn)+" never looks at the text ReadString returned")
						}
						continue
					}
					good := true
					for _, r := range *errv.Referrers() {
						cmp, ok := r.(*ssa.BinOp)
						if !ok || cmp.Referrers() == nil {
							continue
						}
						for _, r2 := range *cmp.Referrers() {
							iff, ok := r2.(*ssa.If)
							if !ok {
								continue
							}
							errArm := iff.Block().Succs[0]
							if cmp.Op == token.EQL {
								errArm = iff.Block().Succs[1]
							}
							// blocks of the error arm, not going back through the read
							armBlocks := map[*ssa.BasicBlock]bool{}
							var fill func(x *ssa.BasicBlock)
							fill = func(x *ssa.BasicBlock) {
								if armBlocks[x] || x == call.Block() {
									return
								}
								armBlocks[x] = true
								for _, s := range x.Succs {
									fill(s)
								}
							}
							fill(errArm)
							used := false
							if line.Referrers() != nil {
								for _, u := range *line.Referrers() {
									if armBlocks[u.Block()] {
										used = true
									}
								}
							}
							if !used {
								good = false
							}
						}
					}
					st.Ob(good)
					if !good {
						c.ReportAt(rule, fn, call.Pos(), "line-dropped-at-eof", core.FuncName(fn)+" leaves on ReadString's error without using the text it returned: the last line of a file that does not end in a newline is lost")
					}
				}
			}
		}
	}
}

// R05.18: a stage of the page migration controller reports progress only if it did something.
func checkProgressOnlyAfterWork(c *core.Ctx, rule string, floor int, pi *PkgInfo) {
	st := c.Rule(rule, "a bool-returning stage of the page migration controller returns true only on a path on which it did something (a store of something other than nil into the controller, a call on one of its ports, or having got past an `if list == nil { return false }`): a stage that reports progress with nothing to do makes the controller reschedule itself on every cycle for the rest of the run, the event queue never drains, Engine.Run never returns and the simulated clock runs on with the wall clock - the start time of every later command then depends on when the application thread got to enqueue it", floor)
	for _, fn := range pi.Funcs {
		if !strings.HasPrefix(core.FuncName(fn), "PageMigrationController.") || fn.Signature.Results().Len() != 1 {
			continue
		}
		if bt, ok := fn.Signature.Results().At(0).Type().Underlying().(*types.Basic); !ok || bt.Kind() != types.Bool {
			continue
		}
		isWork := func(n *core.Node) bool {
			if s, ok := n.Instr.(*ssa.Store); ok {
				// emptying a list that may already be empty is not work
				if core.FieldOfAddr(s.Addr) != nil && !core.IsNilConst(s.Val) {
					return true
				}
			}
			// `if e.list == nil { return false }`: whoever gets past it has a list to work on
			if iff, ok := n.Instr.(*ssa.If); ok {
				if cmp, ok := iff.Cond.(*ssa.BinOp); ok && cmp.Op == token.EQL && core.IsNilConst(cmp.Y) && core.LoadedField(cmp.X) != nil {
					tb := iff.Block().Succs[0]
					if r, ok := tb.Instrs[len(tb.Instrs)-1].(*ssa.Return); ok {
						if v, known := returnedConstBool(r); known && !v {
							return true
						}
					}
				}
			}
			if cc := core.CallOf(n.Instr); cc != nil {
				if cc.IsInvoke() {
					switch cc.Method.Name() {
					case "Send", "RetrieveIncoming":
						return true
					}
				} else if cal := cc.StaticCallee(); cal != nil && cal.Pkg == fn.Pkg && len(cal.Blocks) > 0 {
					return true // a helper of the controller: judged in its own right if it returns a bool
				}
			}
			return false
		}
		isTrueRet := func(n *core.Node) bool {
			r, ok := n.Instr.(*ssa.Return)
			if !ok {
				return false
			}
			v, known := returnedConstBool(r)
			return known && v
		}
		mustPrecede(c, st, rule, fn, isWork, isTrueRet, "progress-reported-without-work", "returns true on a path on which it neither stored into the controller nor used a port")
	}
}

// R11.22: a queue that was marked not running is dequeued.
func checkNotRunningThenDequeued(c *core.Ctx, rule string) {
	st := c.Rule(rule, "in the copy middleware every store `IsRunning = false` is followed by CommandQueue.Dequeue on every path to the function's return, whatever the kind of the command: a completion helper that returns early for commands that are not device-to-host copies clears the flag and leaves a host-to-device copy at the head of its queue - the driver starts it again on the next tick, sends every flush and every piece a second time, and the copy completes twice or never", 2)
	for _, fn := range c.SrcFuncs(driverPkg) {
		if !strings.HasPrefix(core.FuncName(fn), "defaultMemoryCopyMiddleware.") && !strings.HasPrefix(core.FuncName(fn), "globalStorageMemoryCopyMiddleware.") {
			continue
		}
		g := core.BuildGraph(fn, 0, nil)
		isDeq := func(n *core.Node) bool {
			return core.IsCall(n.Instr, core.ModPath+"/amd/driver.CommandQueue.Dequeue") || core.IsNoReturnCall(n.Instr)
		}
		for _, n := range g.Nodes {
			s, ok := storeToField(n.Instr, "CommandQueue.IsRunning")
			if !ok {
				continue
			}
			if b, isC := core.ConstBool(s.Val); !isC || b {
				continue
			}
			st.Instances++
			c.MarkAnalysed(fn)
			bad := false
			g.Walk(core.After(n, nil), core.WalkOpts{ForwardOnly: true, Stop: isDeq}, func(x core.State) {
				if _, isRet := x.N.Instr.(*ssa.Return); isRet {
					bad = true
				}
			})
			st.Ob(!bad)
			if bad {
				c.ReportAt(rule, fn, n.Instr.Pos(), "not-running-but-not-dequeued", core.FuncName(fn)+" clears IsRunning and can return without dequeuing the command: the same command is started again on the next tick")
			}
		}
	}
}
