package rules

import (
	"fmt"
	"go/token"
	"sort"
	"strings"

	"golang.org/x/tools/go/ssa"

	"verif/internal/core"
)

// R19.7: an acknowledgement counter belongs to one handshake at a time.
//
// The command processor counts outstanding acknowledgements in a few fields
// (numCacheACK, numTLBAck, ...). When a counter reaches zero the handler
// decides what has just finished. If several handshakes (the driver's cache
// flush before a copy, the cache flush of a TLB shootdown, the cache restart
// after a migration) raise the same counter, each of them may only start while
// the counter is zero; otherwise the acknowledgements of one are taken for the
// other's and a request is never answered (or answered early).
func checkAckCounterOwnership(c *core.Ctx, pcp *PkgInfo) {
	st := c.Rule("R19.7", "an acknowledgement counter of the command processor that is raised from message handlers of more than one middleware (independent state machines sharing the command processor's fields: the copy / flush path can receive a request at any time during a migration) is raised only on paths that found it zero: every such handler tests `counter > 0` / `counter == 0` before its first increment, so that two handshakes never count on one counter at the same time", 3)
	// increments per counter per function
	incIn := map[string]map[*ssa.Function]bool{}
	for _, fn := range pcp.Funcs {
		for _, b := range fn.Blocks {
			for _, in := range b.Instrs {
				s, ok := in.(*ssa.Store)
				if !ok {
					continue
				}
				fa, ok := s.Addr.(*ssa.FieldAddr)
				if !ok {
					continue
				}
				name := fieldNameOf(fa)
				ln := strings.ToLower(name)
				if !strings.HasPrefix(ln, "num") || !strings.HasSuffix(ln, "ack") {
					continue
				}
				bo, ok := s.Val.(*ssa.BinOp)
				if !ok || bo.Op != token.ADD {
					continue
				}
				if incIn[name] == nil {
					incIn[name] = map[*ssa.Function]bool{}
				}
				incIn[name][fn] = true
			}
		}
	}
	// handlers: functions called from a method named Handle / HandleInternal / Tick helpers that switch on a message type
	handlers := map[*ssa.Function]bool{}
	for _, fn := range pcp.Funcs {
		hasTypeSwitch := false
		for _, b := range fn.Blocks {
			for _, in := range b.Instrs {
				if _, ok := in.(*ssa.TypeAssert); ok {
					hasTypeSwitch = true
				}
			}
		}
		if !hasTypeSwitch {
			continue
		}
		for _, b := range fn.Blocks {
			for _, in := range b.Instrs {
				if cc := core.CallOf(in); cc != nil {
					if cal := cc.StaticCallee(); cal != nil && cal.Pkg == fn.Pkg && strings.HasPrefix(cal.Name(), "process") {
						handlers[cal] = true
					}
				}
			}
		}
	}
	reach := func(root *ssa.Function, targets map[*ssa.Function]bool) bool {
		seen := map[*ssa.Function]bool{}
		var walk func(f *ssa.Function, d int) bool
		walk = func(f *ssa.Function, d int) bool {
			if f == nil || seen[f] || d > 4 {
				return false
			}
			seen[f] = true
			if targets[f] {
				return true
			}
			for _, b := range f.Blocks {
				for _, in := range b.Instrs {
					if cc := core.CallOf(in); cc != nil {
						if cal := cc.StaticCallee(); cal != nil && cal.Pkg == f.Pkg && !handlers[cal] && walk(cal, d+1) {
							return true
						}
					}
				}
			}
			return false
		}
		return walk(root, 0)
	}
	var counters []string
	for k := range incIn {
		counters = append(counters, k)
	}
	sort.Strings(counters)
	for _, ctr := range counters {
		var starters []*ssa.Function
		for h := range handlers {
			if reach(h, incIn[ctr]) {
				starters = append(starters, h)
			}
		}
		sort.Slice(starters, func(i, j int) bool { return core.FuncName(starters[i]) < core.FuncName(starters[j]) })
		var names []string
		for _, s := range starters {
			names = append(names, core.FuncName(s))
		}
		st.Sample("%s is raised from %d handlers: %s", ctr, len(starters), strings.Join(names, ", "))
		// The handlers of one middleware are the stages of one state machine, which
		// the driver sequences (R19.4). Two middlewares are independent state
		// machines that share the command processor's fields: the copy / flush path
		// (cpMiddleware) can receive a request at any time during a migration
		// (ctrlMiddleware).
		machines := map[string]bool{}
		for _, s := range starters {
			if r := s.Signature.Recv(); r != nil {
				machines[r.Type().String()] = true
			}
		}
		if len(machines) < 2 {
			continue
		}
		for _, h := range starters {
			st.Instances++
			c.MarkAnalysed(h)
			g := core.BuildGraph(h, 4, func(cal *ssa.Function) bool { return cal.Pkg == h.Pkg && !handlers[cal] })
			zeroCut := CmpCut(func(_ *core.Node, op token.Token, x, y ssa.Value) int {
				f := core.LoadedField(x)
				if f == nil || f.Name() != ctr {
					return 0
				}
				if k, isC := core.ConstInt(y); !isC || k != 0 {
					return 0
				}
				switch op {
				case token.EQL, token.LEQ:
					return 1 // zero on the true edge
				case token.GTR, token.NEQ:
					return -1 // zero on the false edge
				}
				return 0
			})
			gated := true
			for _, n := range g.Nodes {
				s, ok := n.Instr.(*ssa.Store)
				if !ok {
					continue
				}
				fa, ok := s.Addr.(*ssa.FieldAddr)
				if !ok || fieldNameOf(fa) != ctr {
					continue
				}
				if bo, ok := s.Val.(*ssa.BinOp); !ok || bo.Op != token.ADD {
					continue
				}
				if !g.Guarded(n, zeroCut) {
					gated = false
				}
			}
			st.Ob(gated)
			if !gated {
				c.ReportAt("R19.7", h, h.Pos(), "shared-ack-counter:"+ctr+":"+core.FuncName(h), fmt.Sprintf("%s raises %s, which %d handlers of different middlewares share (%s), on a path that did not find it zero: when two of these handshakes overlap, the acknowledgements of one are counted for the other and the zero test finishes the wrong one (a flush request is never answered, or a shootdown is reported complete while flushes are outstanding)", core.FuncName(h), ctr, len(starters), strings.Join(names, ", ")))
			}
		}
	}
}
