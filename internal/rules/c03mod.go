package rules

import (
	"fmt"
	"go/types"
	"regexp"
	"strings"

	"golang.org/x/tools/go/ssa"

	"verif/internal/core"
)

// R03.22: VOP3 input modifiers are applied.
//
// The VOP3 encodings carry per-source ABS and NEG bits. The emulators apply
// them inside the handlers (apply*Modifier(value, sourceIndex, inst)); a VOP3
// handler of an instruction that accepts input modifiers (every
// floating-point instruction and v_cndmask_b32) which reads a source operand
// without passing it through the modifier helper for *that* source index
// executes `-v1` / `|v1|` as `v1`.
func checkVOP3Modifiers(c *core.Ctx, handlers []handlerRef, prov *core.Prov) {
	st := c.Rule("R03.22", "in every handler dispatched for the VOP3a / VOP3b formats whose instruction accepts input modifiers (floating-point instructions and v_cndmask_b32), every value read from a data source operand (ReadOperand(inst.SrcK, lane)) is passed to an apply*Modifier helper with source index K before it is used; exempt are the operands that are masks or integers by definition (SRC2 of v_cndmask_b32, SRC1 of v_cmp_class, the shift / exponent operand of ldexp, sources of conversions from integers)", 20)
	accepts := regexp.MustCompile(`_f(16|32|64)(_e32|_e64)?$|^v_cndmask_b32|^v_pk_.*_f(16|32)$|^v_(fma|mad|mac|fmac)_(f16|f32|f64|legacy_f32|mix)`)
	intSrc := map[string]map[int]string{
		"v_cndmask_b32": {2: "SRC2 is the lane mask"},
		"v_cmp_class":   {1: "SRC1 is a class mask"},
		"v_cmpx_class":  {1: "SRC1 is a class mask"},
		"v_ldexp":       {1: "SRC1 is an integer exponent"},
		"v_cvt_f32_i32": {0: "integer source"}, "v_cvt_f32_u32": {0: "integer source"},
		"v_cvt_f64_i32": {0: "integer source"}, "v_cvt_f64_u32": {0: "integer source"},
		"v_cvt_f32_ubyte": {0: "integer source"}, "v_cvt_f16_u16": {0: "integer source"}, "v_cvt_f16_i16": {0: "integer source"},
		"v_div_fmas": {},
	}
	seen := map[string]bool{}
	for _, h := range handlers {
		if h.format != "VOP3a" && h.format != "VOP3b" {
			continue
		}
		var iname string
		for _, n := range h.insts {
			if accepts.MatchString(n) {
				iname = n
			}
		}
		if iname == "" || seen[h.alu.pkg+"."+h.name] {
			continue
		}
		seen[h.alu.pkg+"."+h.name] = true
		fn := c.SSAFunc(h.alu.pkg, h.alu.typ+"."+h.name)
		if fn == nil {
			continue
		}
		exempt := map[int]string{}
		for pre, m := range intSrc {
			if strings.HasPrefix(iname, pre) {
				for k, v := range m {
					exempt[k] = v
				}
			}
		}
		c.MarkAnalysed(fn)
		for _, b := range fn.Blocks {
			for _, in := range b.Instrs {
				name, cc := stateMethod(in)
				if name != "ReadOperand" {
					continue
				}
				pv := prov.Of(cc.Args[0])
				k := -1
				for i, s := range []string{".Src0", ".Src1", ".Src2"} {
					if strings.HasSuffix(pv, s) {
						k = i
					}
				}
				if k < 0 {
					continue
				}
				if why, ok := exempt[k]; ok {
					st.Sample("%s.%s (%s): SRC%d exempt: %s", h.alu.typ, h.name, iname, k, why)
					continue
				}
				st.Instances++
				val := in.(ssa.Value)
				okM := false
				var walk func(v ssa.Value, d int)
				walk = func(v ssa.Value, d int) {
					if v.Referrers() == nil || d > 3 {
						return
					}
					for _, r := range *v.Referrers() {
						switch t := r.(type) {
						case *ssa.Convert:
							walk(t, d+1)
						case *ssa.ChangeType:
							walk(t, d+1)
						case *ssa.Call:
							cal := t.Call.StaticCallee()
							if cal == nil || !strings.HasPrefix(cal.Name(), "apply") || !strings.HasSuffix(cal.Name(), "Modifier") {
								continue
							}
							if len(t.Call.Args) >= 2 {
								if kk, isC := core.ConstInt(t.Call.Args[1]); isC && int(kk) == k && core.StripConv(t.Call.Args[0]) == core.StripConv(val) {
									okM = true
								}
							}
						}
					}
				}
				walk(val, 0)
				if !okM {
					// packed (VOP3P) handlers select halves first and negate
					// afterwards under the decoded per-source flag inst.Src<K>Neg;
					// VOP3P has no ABS
					for _, b2 := range fn.Blocks {
						for _, in2 := range b2.Instrs {
							if fa, ok := in2.(*ssa.FieldAddr); ok && fieldNameOf(fa) == fmt.Sprintf("Src%dNeg", k) && strings.HasPrefix(iname, "v_pk_") {
								okM = true
							}
						}
					}
				}
				st.Ob(okM)
				if !okM {
					c.ReportAt("R03.22", fn, in.Pos(), fmt.Sprintf("modifier-not-applied:%s:src%d", h.name, k), fmt.Sprintf("%s (%s) uses SRC%d without applying the VOP3 abs / neg modifiers of source %d: `-v` and `|v|` operands are executed as `v`", h.name, iname, k, k))
				}
			}
		}
	}
}

// R03.23: what the decoder extracts is consulted by execution.
//
// Every field of insts.Inst that receives instruction bits in a decode
// function (the sinks found for R04.14) has a reader in the packages that
// execute instructions, or a stated reason why ignoring it cannot change
// architectural state. A modifier that is decoded and then consulted by
// nobody is silently dropped: the instruction runs as if the bit were clear.
func checkDecodedFieldsConsumed(c *core.Ctx, prov *core.Prov) {
	st := c.Rule("R03.23", "every field of insts.Inst that a decode function fills from instruction bits is read in the packages that execute instructions (both ALUs, the timing compute unit, the timing wavefront), or is listed with the reason why dropping it cannot change architectural state (cache-policy hints)", 25)
	noEffect := map[string]string{
		"GlobalLevelCoherent": "GLC selects a cache policy (and the returned pre-op value of atomics, which are not implemented); no architectural effect in a functional model without caches",
		"SystemLevelCoherent": "SLC is a cache-policy hint",
		"TextureFailEnable":   "TFE concerns texture fetch failure reporting of graphics; FLAT accesses of compute kernels never set it",
		"Imm":                 "the SMEM IMM bit is applied at decode time: it selects whether OFFSET becomes an integer or a register operand",
		"SAddr":               "recorded for the printer; its effect on the address operand is applied at decode time (width of ADDR)",
	}
	sinks := map[string]bool{}
	for _, fe := range collectFieldExtractions(c, prov) {
		for f := range fe.sinks {
			sinks[f] = true
		}
	}
	readers := map[string][]string{}
	for _, rel := range []string{emuPkg, cdna3Pkg, cuPkg, wfPkg} {
		if !c.HasPkg(rel) {
			continue
		}
		for _, fn := range c.SrcFuncs(rel) {
			for _, b := range fn.Blocks {
				for _, in := range b.Instrs {
					var name string
					switch t := in.(type) {
					case *ssa.FieldAddr:
						if instFieldName(t.X.Type(), t.Field) != "" {
							// a FieldAddr that is only stored to is not a read
							onlyStores := true
							if t.Referrers() != nil {
								for _, r := range *t.Referrers() {
									if s, ok := r.(*ssa.Store); !ok || s.Addr != ssa.Value(t) {
										onlyStores = false
									}
								}
							}
							if !onlyStores {
								name = instFieldName(t.X.Type(), t.Field)
							}
						}
					case *ssa.Field:
						name = instFieldName(t.X.Type(), t.Field)
					}
					if name != "" && sinks[name] {
						readers[name] = append(readers[name], rel+"."+core.FuncName(fn))
					}
				}
			}
		}
	}
	for _, f := range sortedKeys(sinks) {
		st.Instances++
		if why, ok := noEffect[f]; ok && len(readers[f]) == 0 {
			st.Ob(true)
			st.Sample("Inst.%s: no reader; %s", f, why)
			continue
		}
		ok := len(readers[f]) > 0
		st.Ob(ok)
		if ok {
			st.Sample("Inst.%s: %d readers, e.g. %s", f, len(readers[f]), readers[f][0])
		} else {
			c.Report(core.Finding{Rule: "R03.23", Pkg: instsPkg, Func: "Inst", Detail: "decoded-field-never-consulted:" + f, Msg: fmt.Sprintf("Inst.%s is filled from instruction bits by the decoder and read by no function of the emulators or the timing compute unit: an instruction with this modifier executes as if it were absent", f)})
		}
	}
}

func instFieldName(t types.Type, idx int) string {
	if p, ok := t.Underlying().(*types.Pointer); ok {
		t = p.Elem()
	}
	nt, ok := t.(*types.Named)
	if !ok || nt.Obj().Name() != "Inst" || nt.Obj().Pkg() == nil || !strings.HasSuffix(nt.Obj().Pkg().Path(), "amd/insts") {
		return ""
	}
	stT, ok := nt.Underlying().(*types.Struct)
	if !ok || idx >= stT.NumFields() {
		return ""
	}
	return stT.Field(idx).Name()
}

// R03.24: no ALU helper ignores a parameter.
//
// Selection and mode parameters of the ALU helpers (sub-dword selects,
// modifier flags, source indices, old register values) each carry a clause of
// the ISA; a helper that does not look at one of its parameters has dropped
// that clause (this is how the ignored dst_unused of the SDWA destination
// select was found).
func checkALUParamsUsed(c *core.Ctx, alus []aluDesc) {
	st := c.Rule("R03.24", "every parameter of every function of the two ALU packages is used in its body (receivers and parameters named _ excepted): an ignored selection, mode, index or old-value parameter is a dropped clause of the instruction's definition; the exceptions are listed by name with a reason", 300)
	allow := map[string]string{
		"amd/emu.ComputeUnit.runEmulation:evt":     "event handler signature; the event carries no data",
		"amd/emu.ComputeUnit.initLDS:wg":           "the LDS size is taken from the dispatch packet of the request",
		"amd/emu.BuildComputeUnitWithALU:isCDNA3":  "the architecture is carried by the decoder and the ALU factory passed alongside",
		"amd/emu/cdna3.ALU.vop3aPostprocess:state": "",
	}
	for _, a := range alus {
		for _, fn := range c.SrcFuncs(a.pkg) {
			if fn.Parent() != nil {
				continue
			}
			for i, p := range fn.Params {
				if i == 0 && fn.Signature.Recv() != nil {
					continue
				}
				if p.Name() == "_" || p.Name() == "" {
					continue
				}
				st.Instances++
				used := p.Referrers() != nil && len(*p.Referrers()) > 0
				key := a.pkg + "." + core.FuncName(fn) + ":" + core.PinnedName(fn, p.Name())
				if !used {
					if why, ok := allow[key]; ok && why != "" {
						st.Ob(true)
						st.Sample("%s: ignored by design: %s", key, why)
						continue
					}
				}
				st.Ob(used)
				if !used {
					c.ReportAt("R03.24", fn, fn.Pos(), "ignored-parameter:"+core.FuncName(fn)+":"+core.PinnedName(fn, p.Name()), fmt.Sprintf("%s never uses its parameter %s (%s): whatever the caller selects with it has no effect", core.FuncName(fn), p.Name(), p.Type()))
				}
			}
		}
	}
}

// DebugSharedHandlers lists handlers that are dispatched for more than one base mnemonic.
func DebugSharedHandlers(c *core.Ctx) {
	c.Load(emuPkg, cdna3Pkg, instsPkg)
	c.BuildSSA()
	t := LoadInstTables(c)
	for _, a := range []aluDesc{{emuPkg, "ALUImpl"}, {cdna3Pkg, "ALU"}} {
		p := c.Pkg(a.pkg)
		disp, _ := dispatchersOf(c, a)
		byHandler := map[string]map[string]bool{}
		for _, format := range sortedKeys(disp) {
			fd := findFuncDecl(p, a.typ+"."+disp[format])
			if fd == nil {
				continue
			}
			cases, _ := opcodeCases(p, fd)
			for _, oc := range cases {
				for _, cl := range oc.callees {
					for _, op := range oc.values {
						if r, ok := t.Lookup(format, op); ok {
							if byHandler[cl] == nil {
								byHandler[cl] = map[string]bool{}
							}
							byHandler[cl][baseMnemonic(r.Name)] = true
						}
					}
				}
			}
		}
		for _, h := range sortedKeys(byHandler) {
			if len(byHandler[h]) > 1 {
				fmt.Printf("%s.%s: %v\n", a.typ, h, sortedKeys(byHandler[h]))
			}
		}
	}
}

// R03.25: one handler, one operand format.
//
// A handler that the dispatch switches reach for several mnemonics computes
// one function; the mnemonics may differ only in what the function does not
// depend on (signedness of an equality test, flags). Mnemonics whose operand
// types have different widths (b32 / b64, u24 / u64) cannot share a handler:
// the narrower one then computes on, or sets condition codes from, bits that
// are not part of its operands.
func checkSharedHandlers(c *core.Ctx, handlers []handlerRef) {
	st := c.Rule("R03.25", "a handler that is dispatched for several mnemonics (decode table -> dispatch switch) serves only mnemonics whose operand types have the same widths: the type tokens [iubf](16|24|32|64) of all mnemonics of one handler agree position by position in width", 4)
	typ := regexp.MustCompile(`_[iubf](16|24|32|64)`)
	widths := func(name string) string {
		var w []string
		for _, m := range typ.FindAllStringSubmatch(baseMnemonic(name), -1) {
			w = append(w, m[1])
		}
		return strings.Join(w, ",")
	}
	byHandler := map[string]map[string]string{}
	order := []string{}
	for _, h := range handlers {
		k := h.alu.typ + "." + h.name
		if byHandler[k] == nil {
			byHandler[k] = map[string]string{}
			order = append(order, k)
		}
		for _, n := range h.insts {
			byHandler[k][baseMnemonic(n)] = widths(n)
		}
	}
	for _, k := range order {
		ms := byHandler[k]
		if len(ms) < 2 {
			continue
		}
		st.Instances++
		ws := map[string]bool{}
		for _, w := range ms {
			ws[w] = true
		}
		ok := len(ws) == 1
		st.Ob(ok)
		st.Sample("%s serves %v", k, sortedKeys(ms))
		// the legacy forms follow DX9 arithmetic (0.0 * x = 0.0 also for infinite and NaN x, log(0) ...): not the IEEE handler
		legacy, plain := "", ""
		for n := range ms {
			if strings.Contains(n, "_legacy") {
				legacy = n
			} else {
				plain = n
			}
		}
		st.Instances++
		st.Ob(legacy == "" || plain == "")
		if legacy != "" && plain != "" {
			c.Report(core.Finding{Rule: "R03.25", Pkg: emuPkg, Func: k, Detail: "shared-handler-legacy:" + strings.Join(sortedKeys(ms), "+"), Msg: fmt.Sprintf("%s is dispatched for both %s and %s: the legacy instruction follows DX9 rules (0.0 * x = 0.0 even for an infinite or NaN x), so it cannot share the IEEE handler: v_mul_legacy_f32(0, Inf) gives NaN instead of 0", k, plain, legacy)})
		}
		if !ok {
			c.Report(core.Finding{Rule: "R03.25", Pkg: emuPkg, Func: k, Detail: "shared-handler-widths:" + strings.Join(sortedKeys(ms), "+"), Msg: fmt.Sprintf("%s is dispatched for %v, whose operand widths differ (%v): the narrower instruction is computed with the wider one's operand reads and condition codes", k, sortedKeys(ms), ms)})
		}
	}
}

// R03.26: inline float constants have the width of the operand they stand for.
func checkInlineFloatWidth(c *core.Ctx, prov *core.Prov) {
	st := c.Rule("R03.26", "an inline floating-point constant (0.5, 1.0, 2.0, 4.0, 1/2pi and their negatives) stands for a single-precision value in a 32-bit source and for a double-precision value in a 64-bit source: every operand accessor of both register stores (ReadOperand, ReadOperandBytes) that converts Operand.FloatValue with math.Float32bits also has a path that converts it with math.Float64bits, selected by the operand's register count", 4)
	for _, site := range []struct{ pkg, fn string }{{emuPkg, "Wavefront.ReadOperand"}, {emuPkg, "Wavefront.ReadOperandBytes"}, {wfPkg, "Wavefront.ReadOperand"}, {wfPkg, "Wavefront.ReadOperandBytes"}} {
		fn := c.SSAFunc(site.pkg, site.fn)
		if fn == nil {
			continue
		}
		has32, has64 := false, false
		for _, b := range fn.Blocks {
			for _, in := range b.Instrs {
				call, ok := in.(*ssa.Call)
				if !ok {
					continue
				}
				cal := call.Call.StaticCallee()
				if cal == nil || cal.Pkg == nil || cal.Pkg.Pkg.Path() != "math" || len(call.Call.Args) != 1 {
					continue
				}
				if !strings.Contains(prov.Of(call.Call.Args[0]), ".FloatValue") {
					continue
				}
				switch cal.Name() {
				case "Float32bits":
					has32 = true
				case "Float64bits":
					has64 = true
				}
			}
		}
		if !has32 && !has64 {
			continue
		}
		st.Instances++
		c.MarkAnalysed(fn)
		st.Ob(has32 && has64)
		if !(has32 && has64) {
			c.ReportAt("R03.26", fn, fn.Pos(), "inline-float-one-width:"+site.pkg+"."+site.fn, site.fn+" converts an inline floating-point constant to single-precision bits only: in a 64-bit floating-point instruction `v_fma_f64 d, 2.0, 3.0, 1.0` the sources are read as 0x40000000 ... (denormal doubles) instead of the doubles 2.0, 3.0, 1.0")
		}
	}
}
