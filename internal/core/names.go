package core

import (
	"encoding/json"
	"go/ast"
	"go/types"
	"os"
	"path/filepath"
	"sort"
	"strings"

	"golang.org/x/tools/go/packages"
	"golang.org/x/tools/go/ssa"
)

// Name pinning.
//
// Some rules read names: provenance strings print parameters as param:<name>, and the
// syntactic rules compare expression text that contains local variables. A rename of
// a parameter or a local variable changes neither behaviour nor the property, so it
// must not change a verdict. testdata/names.json records, for every function of the
// repository as it was when the rules were written, the names of its parameters,
// results and local variables in order of definition. When a package is loaded, a
// function that still defines the same number of such variables has them renamed, by
// position, to the recorded names (in the syntax tree, by object identity, so
// shadowing and scoping are unaffected); PinnedName gives the same answer for SSA
// parameters and free variables. A function whose number of definitions changed is
// left as written.

type nameTable map[string][]string // "<pkgpath>.<recv>.<func>" -> names in definition order

var (
	pinTable   nameTable
	pinLoaded  bool
	pinRenames = map[string]map[string]string{} // function key -> current name -> pinned name
	pinnedPkgs = map[*packages.Package]bool{}
)

// NamesFile is the location of the table (set by the command to <verif>/testdata/names.json).
var NamesFile string

func funcKey(pkgPath string, fd *ast.FuncDecl) string {
	recv := ""
	if fd.Recv != nil && len(fd.Recv.List) == 1 {
		t := fd.Recv.List[0].Type
		if s, ok := t.(*ast.StarExpr); ok {
			t = s.X
		}
		if ix, ok := t.(*ast.IndexExpr); ok {
			t = ix.X
		}
		if id, ok := t.(*ast.Ident); ok {
			recv = id.Name
		}
	}
	return pkgPath + "." + recv + "." + fd.Name.Name
}

// localDefs lists, in source order, the identifiers that define a parameter, result or
// local variable of the function (blank identifiers and the implicit variables of
// type switches excluded).
func localDefs(info *types.Info, fd *ast.FuncDecl) []*ast.Ident {
	var out []*ast.Ident
	ast.Inspect(fd, func(n ast.Node) bool {
		id, ok := n.(*ast.Ident)
		if !ok || id.Name == "_" {
			return true
		}
		obj, ok := info.Defs[id].(*types.Var)
		if !ok || obj == nil || obj.IsField() {
			return true
		}
		out = append(out, id)
		return true
	})
	return out
}

// GenNames writes the table for the loaded repository packages.
func (c *Ctx) GenNames(file string) int {
	t := nameTable{}
	for _, p := range c.RepoPkgs() {
		for _, f := range p.Syntax {
			for _, d := range f.Decls {
				fd, ok := d.(*ast.FuncDecl)
				if !ok || fd.Body == nil {
					continue
				}
				var names []string
				for _, id := range localDefs(p.TypesInfo, fd) {
					names = append(names, id.Name)
				}
				t[funcKey(p.PkgPath, fd)] = names
			}
		}
	}
	keys := make([]string, 0, len(t))
	for k := range t {
		keys = append(keys, k)
	}
	sort.Strings(keys)
	var b strings.Builder
	b.WriteString("{\n")
	for i, k := range keys {
		kb, _ := json.Marshal(k)
		vb, _ := json.Marshal(t[k])
		b.Write(kb)
		b.WriteString(": ")
		b.Write(vb)
		if i+1 < len(keys) {
			b.WriteString(",")
		}
		b.WriteString("\n")
	}
	b.WriteString("}\n")
	os.MkdirAll(filepath.Dir(file), 0o755)
	if err := os.WriteFile(file, []byte(b.String()), 0o644); err != nil {
		Fatal("names: %v", err)
	}
	return len(t)
}

func loadPinTable() {
	if pinLoaded {
		return
	}
	pinLoaded = true
	if NamesFile == "" {
		return
	}
	b, err := os.ReadFile(NamesFile)
	if err != nil {
		return
	}
	t := nameTable{}
	if json.Unmarshal(b, &t) == nil {
		pinTable = t
	}
}

// pinNames renames, in a repository package, the variables of every function whose
// number of definitions equals the recorded one.
func pinNames(p *packages.Package) {
	loadPinTable()
	if pinTable == nil || p.TypesInfo == nil || pinnedPkgs[p] {
		return
	}
	pinnedPkgs[p] = true
	for _, f := range p.Syntax {
		for _, d := range f.Decls {
			fd, ok := d.(*ast.FuncDecl)
			if !ok || fd.Body == nil {
				continue
			}
			key := funcKey(p.PkgPath, fd)
			want, ok := pinTable[key]
			if !ok {
				continue
			}
			defs := localDefs(p.TypesInfo, fd)
			if len(defs) != len(want) {
				continue
			}
			ren := map[types.Object]string{}
			byName := map[string]string{}
			for i, id := range defs {
				if id.Name != want[i] {
					ren[p.TypesInfo.Defs[id]] = want[i]
					byName[id.Name] = want[i]
				}
			}
			if len(ren) == 0 {
				continue
			}
			pinRenames[key] = byName
			ast.Inspect(fd, func(n ast.Node) bool {
				id, ok := n.(*ast.Ident)
				if !ok {
					return true
				}
				if obj := p.TypesInfo.Defs[id]; obj != nil {
					if nn, ok := ren[obj]; ok {
						id.Name = nn
					}
				} else if obj := p.TypesInfo.Uses[id]; obj != nil {
					if nn, ok := ren[obj]; ok {
						id.Name = nn
					}
				}
				return true
			})
		}
	}
}

// PinnedName: the recorded name of a parameter or free variable of fn (its own name if
// the function was not renamed).
func PinnedName(fn *ssa.Function, name string) string {
	if fn == nil || len(pinRenames) == 0 {
		return name
	}
	top := fn
	for top.Parent() != nil {
		top = top.Parent()
	}
	if top.Pkg == nil {
		return name
	}
	recv := ""
	if r := top.Signature.Recv(); r != nil {
		t := r.Type()
		if pt, ok := t.(*types.Pointer); ok {
			t = pt.Elem()
		}
		if nt, ok := t.(*types.Named); ok {
			recv = nt.Obj().Name()
		}
	}
	if m, ok := pinRenames[top.Pkg.Pkg.Path()+"."+recv+"."+top.Name()]; ok {
		if nn, ok := m[name]; ok {
			return nn
		}
	}
	return name
}
