package core

import (
	"encoding/json"
	"go/ast"
	"go/token"
	"go/types"
	"os"

	"golang.org/x/tools/go/ast/astutil"
	"golang.org/x/tools/go/packages"
)

// inlinePredicates replaces calls of one-expression helpers of the same package
// (`func (d *T) busy() bool { return d.n > 0 }`, `func full(n, limit int) bool
// { return n >= limit }`) by the expression they return, in the syntax tree and
// with the type information the SSA builder needs for the copied nodes.
// Extracting such a helper and inlining it again are everyday refactorings; the
// rules are written against the inlined form. Only pure helpers (the body loads
// and computes, nothing else) and call sites whose arguments are plain operands
// are touched, so that dropping or duplicating an argument changes nothing.
type inlHelper struct {
	decl   *ast.FuncDecl
	params []*types.Var // receiver first (nil when unnamed), then the parameters
	expr   ast.Expr
	// parameters used other than as the base of a field selection
	bare map[*types.Var]bool
}

// HelpersFile lists the one-expression helpers that exist in the repository version the
// rules were written against (testdata/helpers.json, written by `mgpucheck gen-names`).
// Several rules are anchored on calls of those (memRangeOverlap, isFinished, ...), so
// their calls stay; only helpers that are not on the list - introduced by a later
// change - are expanded. An empty HelpersFile disables the expansion (gen-names itself).
var HelpersFile string

// RecordedHelpers collects, while HelpersFile is empty, the helpers that would be expanded.
var RecordedHelpers []string

var keepHelpers map[string]bool

func loadKeepHelpers() map[string]bool {
	if keepHelpers != nil {
		return keepHelpers
	}
	keepHelpers = map[string]bool{}
	if HelpersFile == "" {
		return keepHelpers
	}
	b, err := os.ReadFile(HelpersFile)
	if err != nil {
		Fatal("helpers file: %v", err)
	}
	var names []string
	if err := json.Unmarshal(b, &names); err != nil {
		Fatal("helpers file: %v", err)
	}
	for _, n := range names {
		keepHelpers[n] = true
	}
	return keepHelpers
}

func inlinePredicates(p *packages.Package) {
	info := p.TypesInfo
	if info == nil {
		return
	}
	keep := loadKeepHelpers()
	helpers := map[*types.Func]*inlHelper{}
	for _, f := range p.Syntax {
		for _, d := range f.Decls {
			fd, ok := d.(*ast.FuncDecl)
			if !ok || fd.Body == nil || len(fd.Body.List) != 1 || fd.Type.TypeParams != nil {
				continue
			}
			ret, ok := fd.Body.List[0].(*ast.ReturnStmt)
			if !ok || len(ret.Results) != 1 {
				continue
			}
			fobj, _ := info.Defs[fd.Name].(*types.Func)
			if fobj == nil {
				continue
			}
			sig := fobj.Type().(*types.Signature)
			if sig.Variadic() || sig.Results().Len() != 1 || sig.TypeParams() != nil || sig.RecvTypeParams() != nil {
				continue
			}
			h := &inlHelper{decl: fd, expr: ret.Results[0], bare: map[*types.Var]bool{}}
			if fd.Recv != nil {
				if len(fd.Recv.List) != 1 {
					continue
				}
				if len(fd.Recv.List[0].Names) == 1 {
					v, _ := info.Defs[fd.Recv.List[0].Names[0]].(*types.Var)
					h.params = append(h.params, v)
				} else {
					h.params = append(h.params, nil)
				}
			}
			okParams := true
			for _, fld := range fd.Type.Params.List {
				if len(fld.Names) == 0 {
					h.params = append(h.params, nil)
					continue
				}
				for _, nm := range fld.Names {
					v, _ := info.Defs[nm].(*types.Var)
					h.params = append(h.params, v)
				}
			}
			isParam := func(o types.Object) bool {
				for _, v := range h.params {
					if v != nil && types.Object(v) == o {
						return true
					}
				}
				return false
			}
			// the returned expression: loads and arithmetic over parameters, fields, constants
			tv, okT := info.Types[h.expr]
			if !okT || tv.Type == nil || !types.Identical(tv.Type, sig.Results().At(0).Type()) {
				if !(okT && tv.Type != nil && isUntyped(tv.Type)) {
					continue
				}
			}
			selBase := map[*ast.Ident]bool{}
			ast.Inspect(h.expr, func(n ast.Node) bool {
				if !okParams {
					return false
				}
				switch x := n.(type) {
				case *ast.SelectorExpr:
					if sel := info.Selections[x]; sel != nil {
						if sel.Kind() != types.FieldVal {
							okParams = false
						}
						if id, ok := x.X.(*ast.Ident); ok {
							selBase[id] = true
						}
					}
				case *ast.CallExpr:
					ftv, ok := info.Types[x.Fun]
					if ok && ftv.IsType() {
						break // conversion
					}
					id, isID := x.Fun.(*ast.Ident)
					if !isID {
						okParams = false
						break
					}
					if b, isB := info.Uses[id].(*types.Builtin); !isB || (b.Name() != "len" && b.Name() != "cap") {
						okParams = false
					}
				case *ast.FuncLit, *ast.TypeAssertExpr, *ast.CompositeLit, *ast.SliceExpr, *ast.KeyValueExpr:
					okParams = false
				case *ast.UnaryExpr:
					if x.Op == token.ARROW || x.Op == token.AND {
						okParams = false
					}
				case *ast.Ident:
					switch o := info.Uses[x].(type) {
					case *types.Var:
						if o.IsField() {
							break
						}
						if isParam(o) {
							if !selBase[x] {
								h.bare[o] = true
							}
							break
						}
						if o.Parent() != nil && o.Pkg() != nil && o.Parent() == o.Pkg().Scope() {
							break // package-level variable
						}
						okParams = false
					case *types.Func:
						okParams = false
					}
				}
				return okParams
			})
			if !okParams {
				continue
			}
			if HelpersFile == "" {
				RecordedHelpers = append(RecordedHelpers, fobj.FullName())
				continue
			}
			if keep[fobj.FullName()] {
				continue
			}
			helpers[fobj] = h
		}
	}
	if len(helpers) == 0 {
		return
	}
	// an operand that can be dropped, duplicated and evaluated later without changing anything
	var plain func(e ast.Expr) bool
	plain = func(e ast.Expr) bool {
		switch x := e.(type) {
		case *ast.Ident:
			switch info.Uses[x].(type) {
			case *types.Var, *types.Const, *types.Nil:
				return true
			}
			return false
		case *ast.BasicLit:
			return true
		case *ast.ParenExpr:
			return plain(x.X)
		case *ast.SelectorExpr:
			if sel := info.Selections[x]; sel != nil {
				return sel.Kind() == types.FieldVal && plain(x.X)
			}
			_, isPkg := info.Uses[identOf(x.X)].(*types.PkgName)
			return isPkg
		case *ast.UnaryExpr:
			return (x.Op == token.SUB || x.Op == token.NOT || x.Op == token.XOR || x.Op == token.ADD) && plain(x.X)
		case *ast.StarExpr:
			return plain(x.X)
		case *ast.CallExpr:
			if ftv, ok := info.Types[x.Fun]; ok && ftv.IsType() && len(x.Args) == 1 {
				return plain(x.Args[0])
			}
			if id, ok := x.Fun.(*ast.Ident); ok && len(x.Args) == 1 {
				if b, isB := info.Uses[id].(*types.Builtin); isB && (b.Name() == "len" || b.Name() == "cap") {
					return plain(x.Args[0])
				}
			}
			return false
		case *ast.BinaryExpr:
			if x.Op == token.QUO || x.Op == token.REM || x.Op == token.LAND || x.Op == token.LOR {
				return false
			}
			return plain(x.X) && plain(x.Y)
		}
		return false
	}
	// deep copy of an expression with its type information; identifiers bound in subst are replaced
	var clone func(e ast.Expr, subst map[types.Object]ast.Expr) ast.Expr
	clone = func(e ast.Expr, subst map[types.Object]ast.Expr) ast.Expr {
		if e == nil {
			return nil
		}
		var out ast.Expr
		switch x := e.(type) {
		case *ast.Ident:
			if obj := info.Uses[x]; obj != nil {
				if rep, ok := subst[obj]; ok {
					inner := clone(rep, nil)
					par := &ast.ParenExpr{Lparen: x.Pos(), X: inner, Rparen: x.End()}
					if tv, ok := info.Types[rep]; ok {
						info.Types[par] = tv
					}
					return par
				}
			}
			c := *x
			if obj := info.Uses[x]; obj != nil {
				info.Uses[&c] = obj
			}
			out = &c
		case *ast.BasicLit:
			c := *x
			out = &c
		case *ast.ParenExpr:
			out = &ast.ParenExpr{Lparen: x.Lparen, X: clone(x.X, subst), Rparen: x.Rparen}
		case *ast.SelectorExpr:
			selc := *x.Sel
			c := &ast.SelectorExpr{X: clone(x.X, subst), Sel: &selc}
			if s := info.Selections[x]; s != nil {
				info.Selections[c] = s
			}
			if obj := info.Uses[x.Sel]; obj != nil {
				info.Uses[&selc] = obj
			}
			if tv, ok := info.Types[x.Sel]; ok {
				info.Types[&selc] = tv
			}
			out = c
		case *ast.UnaryExpr:
			out = &ast.UnaryExpr{OpPos: x.OpPos, Op: x.Op, X: clone(x.X, subst)}
		case *ast.StarExpr:
			out = &ast.StarExpr{Star: x.Star, X: clone(x.X, subst)}
		case *ast.BinaryExpr:
			out = &ast.BinaryExpr{X: clone(x.X, subst), OpPos: x.OpPos, Op: x.Op, Y: clone(x.Y, subst)}
		case *ast.IndexExpr:
			out = &ast.IndexExpr{X: clone(x.X, subst), Lbrack: x.Lbrack, Index: clone(x.Index, subst), Rbrack: x.Rbrack}
		case *ast.CallExpr:
			c := &ast.CallExpr{Fun: clone(x.Fun, nil), Lparen: x.Lparen, Ellipsis: x.Ellipsis, Rparen: x.Rparen}
			for _, a := range x.Args {
				c.Args = append(c.Args, clone(a, subst))
			}
			out = c
		case *ast.ArrayType, *ast.MapType, *ast.ChanType, *ast.FuncType, *ast.InterfaceType, *ast.StructType:
			return e // type expressions are shared, they carry no values
		default:
			return nil
		}
		if tv, ok := info.Types[e]; ok {
			info.Types[out] = tv
		}
		return out
	}
	complete := func(e ast.Expr) bool {
		ok := true
		ast.Inspect(e, func(n ast.Node) bool {
			if n == nil {
				return true
			}
			if ex, isE := n.(ast.Expr); isE && ex == nil {
				ok = false
			}
			return ok
		})
		return ok
	}
	_ = complete
	for pass := 0; pass < 3; pass++ {
		changed := false
		for _, f := range p.Syntax {
			for _, d := range f.Decls {
				fd, ok := d.(*ast.FuncDecl)
				if !ok || fd.Body == nil {
					continue
				}
				astutil.Apply(fd.Body, nil, func(cur *astutil.Cursor) bool {
					call, ok := cur.Node().(*ast.CallExpr)
					if !ok {
						return true
					}
					var fobj *types.Func
					var recv ast.Expr
					switch fun := call.Fun.(type) {
					case *ast.Ident:
						fobj, _ = info.Uses[fun].(*types.Func)
					case *ast.SelectorExpr:
						if sel := info.Selections[fun]; sel != nil && sel.Kind() == types.MethodVal && len(sel.Index()) == 1 {
							fobj, _ = sel.Obj().(*types.Func)
							recv = fun.X
						}
					}
					h := helpers[fobj]
					if h == nil || h.decl == fd {
						return true
					}
					var args []ast.Expr
					if h.decl.Recv != nil {
						if recv == nil {
							return true
						}
						args = append(args, recv)
					} else if recv != nil {
						return true
					}
					args = append(args, call.Args...)
					if len(args) != len(h.params) || call.Ellipsis.IsValid() {
						return true
					}
					subst := map[types.Object]ast.Expr{}
					for i, a := range args {
						if !plain(a) {
							return true
						}
						v := h.params[i]
						if v == nil {
							continue
						}
						tv, ok := info.Types[a]
						if !ok || tv.Type == nil {
							return true
						}
						if !types.Identical(tv.Type, v.Type()) {
							return true // also a receiver reached through an implicit & or *
						}
						subst[v] = a
					}
					body := clone(h.expr, subst)
					if body == nil || hasNilExpr(body) {
						return true
					}
					par := &ast.ParenExpr{Lparen: call.Pos(), X: body, Rparen: call.End()}
					if tv, ok := info.Types[call]; ok {
						// the call's recorded type is the declared result type; a constant result keeps its value
						if btv, ok2 := info.Types[h.expr]; ok2 && btv.Value != nil {
							tv.Value = btv.Value
						}
						info.Types[par] = tv
					}
					cur.Replace(par)
					changed = true
					return true
				})
			}
		}
		if !changed {
			break
		}
	}
	// a helper whose every use was expanded is gone for the rules: keeping its body would show
	// them the condition out of its context (no lock held, no lane loop around it)
	used := map[types.Object]bool{}
	for _, f := range p.Syntax {
		ast.Inspect(f, func(n ast.Node) bool {
			if id, ok := n.(*ast.Ident); ok {
				if obj := info.Uses[id]; obj != nil {
					used[obj] = true
				}
			}
			return true
		})
	}
	for _, f := range p.Syntax {
		kept := f.Decls[:0]
		for _, d := range f.Decls {
			if fd, ok := d.(*ast.FuncDecl); ok {
				if fobj, _ := info.Defs[fd.Name].(*types.Func); fobj != nil && helpers[fobj] != nil && !used[fobj] && !fobj.Exported() {
					continue
				}
			}
			kept = append(kept, d)
		}
		f.Decls = kept
	}
	delete(simplified, p)
	simplifySyntax(p)
}

func identOf(e ast.Expr) *ast.Ident {
	id, _ := e.(*ast.Ident)
	return id
}

func isUntyped(t types.Type) bool {
	b, ok := t.(*types.Basic)
	return ok && b.Info()&types.IsUntyped != 0
}

// hasNilExpr: the clone met a node kind it does not copy
func hasNilExpr(e ast.Expr) bool {
	bad := false
	var walk func(x ast.Expr)
	walk = func(x ast.Expr) {
		if bad {
			return
		}
		switch v := x.(type) {
		case nil:
			bad = true
		case *ast.ParenExpr:
			walk(v.X)
		case *ast.SelectorExpr:
			walk(v.X)
		case *ast.UnaryExpr:
			walk(v.X)
		case *ast.StarExpr:
			walk(v.X)
		case *ast.BinaryExpr:
			walk(v.X)
			walk(v.Y)
		case *ast.IndexExpr:
			walk(v.X)
			walk(v.Index)
		case *ast.CallExpr:
			walk(v.Fun)
			for _, a := range v.Args {
				walk(a)
			}
		}
	}
	walk(e)
	return bad
}
