package core

import (
	"go/token"
	"sort"
	"strconv"
	"strings"

	"golang.org/x/tools/go/ssa"
)

// The flow engine builds, for one root function, an instruction-level graph in
// which static callees chosen by the rule are inlined (bounded depth, no
// recursion), and answers path questions on it with a small amount of path
// sensitivity: facts about tracked values (results of Send calls, results of
// inlined calls, their nil-comparisons and negations) are carried along a path
// and prune branches they contradict. Nothing is executed; the facts domain is
// {nil,non-nil,true,false} per tracked SSA value.

type Frame struct {
	Fn       *ssa.Function
	Parent   *Frame
	CallSite *Node
	Depth    int
}

type Node struct {
	ID    int
	Frame *Frame
	Instr ssa.Instruction
	Block *ssa.BasicBlock
	Idx   int
	Succs []*Node // for *ssa.If: [true, false]
}

func (n *Node) Fn() *ssa.Function { return n.Frame.Fn }

type Graph struct {
	Root   *ssa.Function
	Nodes  []*Node
	Entry  *Node
	first  map[frameBlock]*Node
	back   map[[2]int]bool
	frames []*Frame
}

type frameBlock struct {
	fr *Frame
	b  *ssa.BasicBlock
}

// BuildGraph builds the inlined graph. inline decides whether a static callee
// is expanded.
func BuildGraph(root *ssa.Function, maxDepth int, inline func(callee *ssa.Function) bool) *Graph {
	g := &Graph{Root: root, first: map[frameBlock]*Node{}, back: map[[2]int]bool{}}
	fr := &Frame{Fn: root}
	g.Entry, _ = g.buildFrame(fr, maxDepth, inline)
	g.computeBackEdges()
	return g
}

func (g *Graph) buildFrame(fr *Frame, maxDepth int, inline func(*ssa.Function) bool) (*Node, []*Node) {
	g.frames = append(g.frames, fr)
	fn := fr.Fn
	nodes := map[ssa.Instruction]*Node{}
	for _, b := range fn.Blocks {
		for i, in := range b.Instrs {
			n := &Node{ID: len(g.Nodes), Frame: fr, Instr: in, Block: b, Idx: i}
			g.Nodes = append(g.Nodes, n)
			nodes[in] = n
			if i == 0 {
				g.first[frameBlock{fr, b}] = n
			}
		}
	}
	var rets []*Node
	for _, b := range fn.Blocks {
		for i, in := range b.Instrs {
			n := nodes[in]
			if IsNoReturnCall(in) {
				continue // log.Panicf & co never return: no successors
			}
			if i+1 < len(b.Instrs) {
				next := nodes[b.Instrs[i+1]]
				if call, ok := in.(*ssa.Call); ok {
					callee := call.Call.StaticCallee()
					if callee != nil && len(callee.Blocks) > 0 && fr.Depth < maxDepth && !fr.inChain(callee) && inline != nil && inline(callee) {
						cfr := &Frame{Fn: callee, Parent: fr, CallSite: n, Depth: fr.Depth + 1}
						entry, crets := g.buildFrame(cfr, maxDepth, inline)
						n.Succs = []*Node{entry}
						for _, r := range crets {
							r.Succs = []*Node{next}
						}
						continue
					}
				}
				n.Succs = []*Node{next}
				continue
			}
			switch in.(type) {
			case *ssa.If, *ssa.Jump:
				for _, s := range b.Succs {
					n.Succs = append(n.Succs, g.first[frameBlock{fr, s}])
				}
			case *ssa.Return:
				rets = append(rets, n)
			case *ssa.Panic:
			}
		}
	}
	return g.first[frameBlock{fr, fn.Blocks[0]}], rets
}

func (fr *Frame) inChain(fn *ssa.Function) bool {
	for f := fr; f != nil; f = f.Parent {
		if f.Fn == fn {
			return true
		}
	}
	return false
}

func (g *Graph) computeBackEdges() {
	state := make([]int8, len(g.Nodes))
	type item struct {
		n *Node
		i int
	}
	stack := []item{{g.Entry, 0}}
	state[g.Entry.ID] = 1
	for len(stack) > 0 {
		top := &stack[len(stack)-1]
		if top.i < len(top.n.Succs) {
			s := top.n.Succs[top.i]
			top.i++
			switch state[s.ID] {
			case 0:
				state[s.ID] = 1
				stack = append(stack, item{s, 0})
			case 1:
				g.back[[2]int{top.n.ID, s.ID}] = true
			}
		} else {
			state[top.n.ID] = 2
			stack = stack[:len(stack)-1]
		}
	}
}

func (g *Graph) IsBack(a, b *Node) bool { return g.back[[2]int{a.ID, b.ID}] }

// ---- facts --------------------------------------------------------------------

type fkey struct {
	fr *Frame
	v  ssa.Value
}

// Facts maps tracked values to +1 (true / non-nil) or -1 (false / nil).
type Facts map[fkey]int8

func (f Facts) clone() Facts {
	c := make(Facts, len(f)+1)
	for k, v := range f {
		c[k] = v
	}
	return c
}

func (f Facts) sig(g *Graph) string {
	if len(f) == 0 {
		return ""
	}
	parts := make([]string, 0, len(f))
	for k, v := range f {
		fi := 0
		for i, fr := range g.frames {
			if fr == k.fr {
				fi = i
			}
		}
		parts = append(parts, strconv.Itoa(fi)+":"+k.v.Name()+"="+strconv.Itoa(int(v)))
	}
	sort.Strings(parts)
	return strings.Join(parts, ",")
}

// eval evaluates a boolean or nil-ness under the facts. Returns +1/-1/0.
func eval(fr *Frame, v ssa.Value, f Facts) int8 {
	if b, ok := ConstBool(v); ok {
		if b {
			return 1
		}
		return -1
	}
	if IsNilConst(v) {
		return -1
	}
	if x, ok := f[fkey{fr, v}]; ok {
		return x
	}
	switch v := v.(type) {
	case *ssa.UnOp:
		if v.Op == token.NOT {
			return -eval(fr, v.X, f)
		}
		// a result spilled to a local because of a defer: `*t0 = false; rundefers; t8 = *t0; return t8`
		if al, ok := v.X.(*ssa.Alloc); ok && v.Op == token.MUL && !al.Heap && v.Block() != nil {
			var last *ssa.Store
			for _, in := range v.Block().Instrs {
				if in == ssa.Instruction(v) {
					break
				}
				if st, ok := in.(*ssa.Store); ok && st.Addr == ssa.Value(al) {
					last = st
				}
			}
			if last != nil {
				return eval(fr, last.Val, f)
			}
		}
	case *ssa.BinOp:
		if v.Op == token.EQL || v.Op == token.NEQ {
			var r int8
			switch {
			case IsNilConst(v.Y):
				r = -eval(fr, v.X, f) // X nil(-1) -> equal(+1)
				if _, tracked := f[fkey{fr, v.X}]; !tracked {
					r = 0
				}
			case IsNilConst(v.X):
				r = -eval(fr, v.Y, f)
				if _, tracked := f[fkey{fr, v.Y}]; !tracked {
					r = 0
				}
			default:
				if b, ok := ConstBool(v.Y); ok {
					r = eval(fr, v.X, f)
					if !b {
						r = -r
					}
				} else if b, ok := ConstBool(v.X); ok {
					r = eval(fr, v.Y, f)
					if !b {
						r = -r
					}
				}
			}
			if v.Op == token.NEQ {
				r = -r
			}
			return r
		}
	case *ssa.MakeInterface:
		return 1
	case *ssa.Alloc:
		return 1
	}
	return 0
}

// State is a node together with the facts that hold on the path so far.
type State struct {
	N *Node
	F Facts
}

type WalkOpts struct {
	ForwardOnly bool                      // do not follow back edges (stay within one loop iteration)
	Stop        func(n *Node) bool        // do not continue past this node
	CutEdge     func(n *Node, i int) bool // treat successor i of n as absent
	MaxStates   int
}

// Walk explores states reachable from start, calling visit once per (node,
// facts) state. It returns false if the state cap was hit (undecided).
func (g *Graph) Walk(start []State, o WalkOpts, visit func(s State)) bool {
	if o.MaxStates == 0 {
		o.MaxStates = 400000
	}
	seen := map[string]bool{}
	var work []State
	push := func(s State) {
		k := strconv.Itoa(s.N.ID) + "|" + s.F.sig(g)
		if seen[k] {
			return
		}
		seen[k] = true
		work = append(work, s)
	}
	for _, s := range start {
		if s.F == nil {
			s.F = Facts{}
		}
		push(s)
	}
	for len(work) > 0 {
		if len(seen) > o.MaxStates {
			return false
		}
		s := work[len(work)-1]
		work = work[:len(work)-1]
		visit(s)
		n := s.N
		if o.Stop != nil && o.Stop(n) {
			continue
		}
		for i, m := range n.Succs {
			if o.ForwardOnly && g.IsBack(n, m) {
				continue
			}
			if o.CutEdge != nil && o.CutEdge(n, i) {
				continue
			}
			f := s.F
			// branch pruning
			if ifi, ok := n.Instr.(*ssa.If); ok && len(n.Succs) == 2 {
				e := eval(n.Frame, ifi.Cond, f)
				if (e > 0 && i == 1) || (e < 0 && i == 0) {
					continue
				}
			}
			// return crossing: transfer the result fact to the call value
			if r, ok := n.Instr.(*ssa.Return); ok && m.Frame != n.Frame {
				call := n.Frame.CallSite
				if cv, ok := call.Instr.(ssa.Value); ok && len(r.Results) == 1 {
					e := eval(n.Frame, r.Results[0], f)
					f = f.clone()
					// drop facts of the callee frame (it is left)
					for k := range f {
						if k.fr == n.Frame {
							delete(f, k)
						}
					}
					if e != 0 {
						f[fkey{call.Frame, cv}] = e
					} else {
						delete(f, fkey{call.Frame, cv})
					}
				}
			}
			// block crossing inside a frame: phi transfer
			if m.Frame == n.Frame && m.Idx == 0 && n.Idx == len(n.Block.Instrs)-1 {
				predIdx := -1
				cnt := 0
				for pi, p := range m.Block.Preds {
					if p == n.Block {
						if cnt == succOccurrence(n.Block, m.Block, i) {
							predIdx = pi
						}
						cnt++
					}
				}
				if predIdx >= 0 {
					var nf Facts
					for _, in := range m.Block.Instrs {
						phi, ok := in.(*ssa.Phi)
						if !ok {
							break
						}
						e := eval(n.Frame, phi.Edges[predIdx], f)
						old, had := f[fkey{n.Frame, phi}]
						if (e != 0 && (!had || old != e)) || (e == 0 && had) {
							if nf == nil {
								nf = f.clone()
							}
							if e != 0 {
								nf[fkey{n.Frame, phi}] = e
							} else {
								delete(nf, fkey{n.Frame, phi})
							}
						}
					}
					if nf != nil {
						f = nf
					}
				}
			}
			push(State{m, f})
		}
	}
	return true
}

// succOccurrence: when a block lists the same successor twice (both If arms
// to one block), the i-th successor corresponds to the k-th occurrence.
func succOccurrence(from, to *ssa.BasicBlock, i int) int {
	k := 0
	for j := 0; j < i && j < len(from.Succs); j++ {
		if from.Succs[j] == to {
			k++
		}
	}
	return k
}

// With returns a one-fact set for a value in the node's frame.
func FactFor(n *Node, v ssa.Value, val int8) Facts { return Facts{fkey{n.Frame, v}: val} }

// Reach collects the nodes visited by Walk.
func (g *Graph) Reach(start []State, o WalkOpts) (map[*Node]bool, bool) {
	out := map[*Node]bool{}
	ok := g.Walk(start, o, func(s State) { out[s.N] = true })
	return out, ok
}

// NodesWhere lists nodes satisfying pred.
func (g *Graph) NodesWhere(pred func(n *Node) bool) []*Node {
	var out []*Node
	for _, n := range g.Nodes {
		if pred(n) {
			out = append(out, n)
		}
	}
	return out
}

// After returns the states just after node n with the given facts.
func After(n *Node, f Facts) []State {
	var out []State
	for _, s := range n.Succs {
		out = append(out, State{s, f})
	}
	return out
}

// Guarded reports whether every path from the entry to target passes through
// one of the given (if-node, successor index) edges: the edges are removed and
// target must become unreachable.
func (g *Graph) Guarded(target *Node, edge func(n *Node, i int) bool) bool {
	reach, _ := g.Reach([]State{{g.Entry, nil}}, WalkOpts{CutEdge: edge})
	return !reach[target]
}

// FrameChain renders the inlining chain of a node for messages.
func (n *Node) FrameChain() string {
	var parts []string
	for f := n.Frame; f != nil; f = f.Parent {
		parts = append([]string{FuncName(f.Fn)}, parts...)
	}
	return strings.Join(parts, ">")
}

// IsNoReturnCall: calls that never return (panicking / exiting loggers).
func IsNoReturnCall(in ssa.Instruction) bool {
	f := CalleeFunc(in)
	if f == nil || f.Pkg() == nil {
		return false
	}
	switch f.Pkg().Path() {
	case "log":
		switch f.Name() {
		case "Panic", "Panicf", "Panicln", "Fatal", "Fatalf", "Fatalln":
			return true
		}
	case "os":
		return f.Name() == "Exit"
	case "github.com/sirupsen/logrus":
		switch f.Name() {
		case "Panic", "Panicf", "Panicln", "Fatal", "Fatalf", "Fatalln":
			return true
		}
	}
	return false
}

// EvalFact evaluates a boolean / nil-ness value at a node under path facts (+1 true, -1 false, 0 unknown).
func EvalFact(n *Node, v ssa.Value, f Facts) int8 { return eval(n.Frame, v, f) }

// NodeOf returns the node of an instruction in the root frame (nil if absent).
func (g *Graph) NodeOf(in ssa.Instruction) *Node {
	for _, n := range g.Nodes {
		if n.Instr == in && n.Frame.Parent == nil {
			return n
		}
	}
	return nil
}
