package core

import (
	"go/constant"
	"go/token"
	"go/types"
	"strings"

	"golang.org/x/tools/go/ssa"
)

// CallOf returns the CallCommon of a call-like instruction (Call, Go, Defer).
func CallOf(in ssa.Instruction) *ssa.CallCommon {
	if c, ok := in.(ssa.CallInstruction); ok {
		return c.Common()
	}
	return nil
}

// CalleeFunc returns the *types.Func called by the instruction: the static
// callee's object or, for interface calls, the interface method.
func CalleeFunc(in ssa.Instruction) *types.Func {
	cc := CallOf(in)
	if cc == nil {
		return nil
	}
	if cc.IsInvoke() {
		return cc.Method
	}
	if fn := cc.StaticCallee(); fn != nil {
		if o, ok := fn.Object().(*types.Func); ok {
			return o
		}
		// instantiated generic or wrapper
		if fn.Origin() != nil {
			if o, ok := fn.Origin().Object().(*types.Func); ok {
				return o
			}
		}
	}
	return nil
}

// FuncID renders a *types.Func as "pkgpath.Recv.Name" or "pkgpath.Name".
func FuncID(f *types.Func) string {
	if f == nil {
		return ""
	}
	pkg := ""
	if f.Pkg() != nil {
		pkg = f.Pkg().Path()
	}
	sig, _ := f.Type().(*types.Signature)
	if sig != nil && sig.Recv() != nil {
		t := sig.Recv().Type()
		if p, ok := t.(*types.Pointer); ok {
			t = p.Elem()
		}
		switch n := t.(type) {
		case *types.Named:
			return pkg + "." + n.Obj().Name() + "." + f.Name()
		case *types.Interface:
			return pkg + ".(interface)." + f.Name()
		}
	}
	return pkg + "." + f.Name()
}

const (
	SimPkg = "github.com/sarchlab/akita/v4/sim"
	MemPkg = "github.com/sarchlab/akita/v4/mem/mem"
	VMPkg  = "github.com/sarchlab/akita/v4/mem/vm"
)

// IsCall reports whether the instruction calls the function with the given id
// (as rendered by FuncID). Interface methods of a named interface render as
// "pkg.Iface.Method".
func IsCall(in ssa.Instruction, ids ...string) bool {
	f := CalleeFunc(in)
	if f == nil {
		return false
	}
	id := FuncID(f)
	for _, x := range ids {
		if x == id {
			return true
		}
	}
	return false
}

// IsPortMethod: call of sim.Port.<name> (interface invoke) — also matches
// when invoked through an embedding interface since the method object is the same.
func IsPortMethod(in ssa.Instruction, name string) bool {
	cc := CallOf(in)
	if cc == nil || !cc.IsInvoke() {
		return false
	}
	m := cc.Method
	return m.Name() == name && m.Pkg() != nil && m.Pkg().Path() == SimPkg && recvNamed(m) == "Port"
}

func recvNamed(m *types.Func) string {
	sig := m.Type().(*types.Signature)
	if sig.Recv() == nil {
		return ""
	}
	t := sig.Recv().Type()
	if p, ok := t.(*types.Pointer); ok {
		t = p.Elem()
	}
	if n, ok := t.(*types.Named); ok {
		return n.Obj().Name()
	}
	return ""
}

// IsBuiltin reports a call to the named builtin.
func IsBuiltin(in ssa.Instruction, name string) bool {
	cc := CallOf(in)
	if cc == nil {
		return false
	}
	b, ok := cc.Value.(*ssa.Builtin)
	return ok && b.Name() == name
}

// FieldOfAddr: if v is the address of a struct field, the field.
func FieldOfAddr(v ssa.Value) *types.Var {
	if fa, ok := v.(*ssa.FieldAddr); ok {
		t := fa.X.Type().Underlying().(*types.Pointer).Elem().Underlying().(*types.Struct)
		return t.Field(fa.Field)
	}
	return nil
}

// LoadedField: if v is a load of a struct field (through pointer or value), the field.
func LoadedField(v ssa.Value) *types.Var {
	switch v := v.(type) {
	case *ssa.UnOp:
		if v.Op == token.MUL {
			return FieldOfAddr(v.X)
		}
	case *ssa.Field:
		t := v.X.Type().Underlying().(*types.Struct)
		return t.Field(v.Field)
	case *ssa.ChangeType:
		return LoadedField(v.X)
	}
	return nil
}

// FieldID renders "pkg.Struct.field" when the owning struct can be found by
// searching named types of the field's package.
func FieldID(f *types.Var) string {
	if f == nil || f.Pkg() == nil {
		return ""
	}
	owner := fieldOwner(f)
	return f.Pkg().Path() + "." + owner + "." + f.Name()
}

var ownerCache = map[*types.Var]string{}

func fieldOwner(f *types.Var) string {
	if s, ok := ownerCache[f]; ok {
		return s
	}
	scope := f.Pkg().Scope()
	for _, n := range scope.Names() {
		tn, ok := scope.Lookup(n).(*types.TypeName)
		if !ok {
			continue
		}
		st, ok := tn.Type().Underlying().(*types.Struct)
		if !ok {
			continue
		}
		for i := 0; i < st.NumFields(); i++ {
			if st.Field(i) == f {
				ownerCache[f] = tn.Name()
				return tn.Name()
			}
		}
	}
	ownerCache[f] = "?"
	return "?"
}

// ShortFieldID renders "Struct.field".
func ShortFieldID(f *types.Var) string {
	if f == nil {
		return ""
	}
	return fieldOwner(f) + "." + f.Name()
}

// IsNilConst reports a nil constant.
func IsNilConst(v ssa.Value) bool {
	c, ok := v.(*ssa.Const)
	return ok && c.Value == nil
}

// ConstBool returns the value of a boolean constant.
func ConstBool(v ssa.Value) (bool, bool) {
	c, ok := v.(*ssa.Const)
	if !ok || c.Value == nil || c.Value.Kind() != constant.Bool {
		return false, false
	}
	return constant.BoolVal(c.Value), true
}

// ConstInt returns the value of an integer constant.
func ConstInt(v ssa.Value) (int64, bool) {
	c, ok := v.(*ssa.Const)
	if !ok || c.Value == nil {
		return 0, false
	}
	if c.Value.Kind() != constant.Int {
		return 0, false
	}
	if i, ok := constant.Int64Val(c.Value); ok {
		return i, true
	}
	if u, ok := constant.Uint64Val(c.Value); ok {
		return int64(u), true
	}
	return 0, false
}

// ConstUint returns the value of an unsigned/integer constant as uint64.
func ConstUint(v ssa.Value) (uint64, bool) {
	c, ok := v.(*ssa.Const)
	if !ok || c.Value == nil || c.Value.Kind() != constant.Int {
		return 0, false
	}
	if u, ok := constant.Uint64Val(c.Value); ok {
		return u, true
	}
	if i, ok := constant.Int64Val(c.Value); ok {
		return uint64(i), true
	}
	return 0, false
}

// StripConv removes integer conversions / ChangeType wrappers.
func StripConv(v ssa.Value) ssa.Value {
	for {
		switch x := v.(type) {
		case *ssa.Convert:
			v = x.X
		case *ssa.ChangeType:
			v = x.X
		default:
			return v
		}
	}
}

// InstrString is a short, line-free rendering of an instruction for messages.
func InstrString(in ssa.Instruction) string {
	if f := CalleeFunc(in); f != nil {
		id := FuncID(f)
		if i := strings.LastIndex(id, "/"); i >= 0 {
			id = id[i+1:]
		}
		return "call " + id
	}
	if cc := CallOf(in); cc != nil {
		if b, ok := cc.Value.(*ssa.Builtin); ok {
			return "builtin " + b.Name()
		}
		return "call <dynamic>"
	}
	s := in.String()
	if len(s) > 80 {
		s = s[:80]
	}
	return s
}

// EdgeDominates reports whether the CFG edge from->to dominates block b, i.e.
// every path from the entry to b takes that edge.
func EdgeDominates(from, to, b *ssa.BasicBlock) bool {
	if !to.Dominates(b) {
		return false
	}
	for _, p := range to.Preds {
		if p == from {
			continue
		}
		if !to.Dominates(p) {
			return false
		}
	}
	// from may appear twice in Preds (both branches to same block)
	n := 0
	for _, p := range to.Preds {
		if p == from {
			n++
		}
	}
	return n == 1
}

// Sizeof: the size in bytes of a type on the analysed platform (amd64 sizes).
func (c *Ctx) Sizeof(t types.Type) int64 {
	return types.SizesFor("gc", "amd64").Sizeof(t)
}
