// Package core holds what every rule shares: loading /repo's current working
// tree, SSA construction, findings, floors, known-findings subtraction and the
// evidence writer.
package core

import (
	"encoding/json"
	"fmt"
	"go/ast"
	"go/constant"
	"go/token"
	"go/types"
	"os"
	"path/filepath"
	"sort"
	"strings"
	"time"

	"golang.org/x/tools/go/packages"
	"golang.org/x/tools/go/ssa"
	"golang.org/x/tools/go/ssa/ssautil"
)

// RepoDir is /repo; the self-validation of the thorough tier points it at a
// scratch copy through VERIF_REPO (never set by a manifest command).
var RepoDir = func() string {
	if d := os.Getenv("VERIF_REPO"); d != "" {
		return d
	}
	return "/repo"
}()

const ModPath = "github.com/sarchlab/mgpusim/v4"

// Finding is one reported construct. Key() never contains a line number.
type Finding struct {
	Rule   string `json:"rule"`
	Kind   string `json:"kind"` // violation | undecided | anchor
	Pkg    string `json:"pkg"`
	Func   string `json:"func"`
	Detail string `json:"detail"` // construct inside the function (callee, field, opcode ...)
	Pos    string `json:"pos"`    // file:line for diagnosis only
	Msg    string `json:"msg"`
}

func (f Finding) Key() string {
	return f.Rule + "|" + f.Pkg + "|" + f.Func + "|" + f.Detail
}

// RuleStat counts what a rule looked at.
type RuleStat struct {
	Rule        string   `json:"rule"`
	Text        string   `json:"text"`
	Instances   int      `json:"instances"`
	Obligations int      `json:"obligations"`
	Discharged  int      `json:"discharged"`
	Floor       int      `json:"floor"`
	Samples     []string `json:"samples,omitempty"`
}

type Ctx struct {
	Prop  string
	Tier  string
	Start time.Time

	Fset   *token.FileSet
	Pkgs   []*packages.Package
	byPath map[string]*packages.Package

	Prog    *ssa.Program
	SSAPkgs map[string]*ssa.Package

	Findings      []Finding
	Stats         map[string]*RuleStat
	order         []string
	Notes         []string
	Assumptions   []string
	funcsAnalysed map[string]bool
	loadedAll     bool
	Extra         map[string]any // extra evidence (e.g. self-validation results of the thorough tier)
}

func NewCtx(prop, tier string) *Ctx {
	return &Ctx{Prop: prop, Tier: tier, Start: time.Now(), Stats: map[string]*RuleStat{},
		byPath: map[string]*packages.Package{}, SSAPkgs: map[string]*ssa.Package{}, funcsAnalysed: map[string]bool{}}
}

// Fatal aborts with exit 2: the check is broken, nothing it says is a verdict.
func Fatal(format string, a ...any) {
	fmt.Fprintf(os.Stderr, "CHECK-BROKEN: "+format+"\n", a...)
	os.Exit(2)
}

// Load loads the given package patterns (relative to the module path) from
// /repo's working tree with full syntax and types.
func (c *Ctx) Load(patterns ...string) {
	if c.loadedAll {
		return // the thorough tier loaded the whole module up front
	}
	for _, p := range patterns {
		if p == "./..." {
			c.loadedAll = true
		}
	}
	cfg := &packages.Config{
		Mode: packages.NeedName | packages.NeedFiles | packages.NeedCompiledGoFiles | packages.NeedImports |
			packages.NeedDeps | packages.NeedTypes | packages.NeedSyntax | packages.NeedTypesInfo | packages.NeedTypesSizes | packages.NeedModule,
		Dir:   RepoDir,
		Tests: false,
		Env:   os.Environ(),
	}
	var pats []string
	for _, p := range patterns {
		if strings.HasPrefix(p, "./") {
			pats = append(pats, p)
		} else {
			pats = append(pats, ModPath+"/"+p)
		}
	}
	pkgs, err := packages.Load(cfg, pats...)
	if err != nil {
		Fatal("packages.Load: %v", err)
	}
	if len(pkgs) == 0 {
		Fatal("no packages loaded for %v", pats)
	}
	c.Fset = cfg.Fset
	if len(pkgs) > 0 {
		c.Fset = pkgs[0].Fset
	}
	inRepo := 0
	packages.Visit(pkgs, nil, func(p *packages.Package) {
		c.byPath[p.PkgPath] = p
		if strings.HasPrefix(p.PkgPath, ModPath) {
			inRepo++
			for _, e := range p.Errors {
				Fatal("type/parse error in %s: %v", p.PkgPath, e)
			}
			simplifySyntax(p)
			lowerRangeInt(p)
			pinNames(p)
			inlinePredicates(p)
			normalizeComparisons(p)
		}
	})
	if inRepo == 0 {
		Fatal("zero repository packages loaded")
	}
	c.Pkgs = pkgs
	sort.Slice(c.Pkgs, func(i, j int) bool { return c.Pkgs[i].PkgPath < c.Pkgs[j].PkgPath })
}

// Pkg returns a loaded package by module-relative path; missing = broken check.
func (c *Ctx) Pkg(rel string) *packages.Package {
	p := c.byPath[ModPath+"/"+rel]
	if p == nil {
		p = c.byPath[rel]
	}
	if p == nil || p.Types == nil {
		Fatal("package %s not loaded", rel)
	}
	return p
}

func (c *Ctx) HasPkg(rel string) bool {
	p := c.byPath[ModPath+"/"+rel]
	return p != nil && p.Types != nil && len(p.Syntax) > 0
}

// RepoPkgs returns every loaded package of the module that has syntax.
func (c *Ctx) RepoPkgs() []*packages.Package {
	var out []*packages.Package
	for path, p := range c.byPath {
		if strings.HasPrefix(path, ModPath) && len(p.Syntax) > 0 {
			out = append(out, p)
		}
	}
	sort.Slice(out, func(i, j int) bool { return out[i].PkgPath < out[j].PkgPath })
	return out
}

// BuildSSA builds SSA for all loaded packages (dependencies included so that
// interface method sets are complete).
func (c *Ctx) BuildSSA() {
	if c.Prog != nil {
		return
	}
	prog, _ := ssautil.AllPackages(c.Pkgs, ssa.InstantiateGenerics)
	prog.Build()
	c.Prog = prog
	for _, p := range prog.AllPackages() {
		c.SSAPkgs[p.Pkg.Path()] = p
	}
}

func (c *Ctx) SSAPkg(rel string) *ssa.Package {
	c.BuildSSA()
	p := c.SSAPkgs[ModPath+"/"+rel]
	if p == nil {
		Fatal("ssa package %s missing", rel)
	}
	return p
}

// SSAFunc finds a function or method ("Type.method" or "func") in a package.
func (c *Ctx) SSAFunc(rel, name string) *ssa.Function {
	p := c.SSAPkg(rel)
	if i := strings.Index(name, "."); i >= 0 {
		tn, mn := name[:i], name[i+1:]
		t := p.Type(tn)
		if t == nil {
			return nil
		}
		for _, typ := range []types.Type{t.Type(), types.NewPointer(t.Type())} {
			ms := c.Prog.MethodSets.MethodSet(typ)
			for i := 0; i < ms.Len(); i++ {
				if ms.At(i).Obj().Name() == mn && ms.At(i).Obj().Pkg() == p.Pkg {
					if fn := c.Prog.MethodValue(ms.At(i)); fn != nil && fn.Synthetic == "" {
						return fn
					}
				}
			}
		}
		return nil
	}
	return p.Func(name)
}

// MustFunc is SSAFunc that reports an anchor finding when missing.
func (c *Ctx) MustFunc(rule, rel, name string) *ssa.Function {
	fn := c.SSAFunc(rel, name)
	if fn == nil || len(fn.Blocks) == 0 {
		c.Report(Finding{Rule: rule, Kind: "anchor", Pkg: rel, Func: name, Detail: "anchor",
			Msg: "anchored function not found: the rule lost its subject"})
		return nil
	}
	return fn
}

// SrcFuncs returns all source functions (incl. methods and anonymous
// functions) of a package, in position order.
func (c *Ctx) SrcFuncs(rel string) []*ssa.Function {
	p := c.SSAPkg(rel)
	var out []*ssa.Function
	seen := map[*ssa.Function]bool{}
	var add func(fn *ssa.Function)
	add = func(fn *ssa.Function) {
		if fn == nil || seen[fn] || fn.Synthetic != "" || len(fn.Blocks) == 0 {
			return
		}
		seen[fn] = true
		out = append(out, fn)
		for _, a := range fn.AnonFuncs {
			add(a)
		}
	}
	for _, m := range p.Members {
		switch m := m.(type) {
		case *ssa.Function:
			add(m)
		case *ssa.Type:
			for _, typ := range []types.Type{m.Type(), types.NewPointer(m.Type())} {
				ms := c.Prog.MethodSets.MethodSet(typ)
				for i := 0; i < ms.Len(); i++ {
					if ms.At(i).Obj().Pkg() == p.Pkg {
						add(c.Prog.MethodValue(ms.At(i)))
					}
				}
			}
		}
	}
	sort.Slice(out, func(i, j int) bool { return out[i].Pos() < out[j].Pos() })
	return out
}

func (c *Ctx) Position(pos token.Pos) string {
	if !pos.IsValid() {
		return "-"
	}
	p := c.Fset.Position(pos)
	f := p.Filename
	if rel, err := filepath.Rel(RepoDir, f); err == nil {
		f = rel
	}
	return fmt.Sprintf("%s:%d", f, p.Line)
}

func RelPkg(path string) string {
	return strings.TrimPrefix(strings.TrimPrefix(path, ModPath), "/")
}

// FuncName gives a stable, line-free function name: "Type.method" / "func" /
// "func$1" for closures.
func FuncName(fn *ssa.Function) string {
	if fn == nil {
		return "?"
	}
	if fn.Parent() != nil {
		return FuncName(fn.Parent()) + "$" + strings.TrimPrefix(fn.Name(), fn.Parent().Name()+"$")
	}
	if recv := fn.Signature.Recv(); recv != nil {
		t := recv.Type()
		if p, ok := t.(*types.Pointer); ok {
			t = p.Elem()
		}
		if n, ok := t.(*types.Named); ok {
			return n.Obj().Name() + "." + fn.Name()
		}
	}
	return fn.Name()
}

func FuncPkg(fn *ssa.Function) string {
	for fn.Parent() != nil {
		fn = fn.Parent()
	}
	if fn.Pkg != nil {
		return RelPkg(fn.Pkg.Pkg.Path())
	}
	if fn.Object() != nil && fn.Object().Pkg() != nil {
		return RelPkg(fn.Object().Pkg().Path())
	}
	return "?"
}

// Rule registers a rule text and floor; returns the stat to count into.
func (c *Ctx) Rule(id, text string, floor int) *RuleStat {
	if s, ok := c.Stats[id]; ok {
		return s
	}
	s := &RuleStat{Rule: id, Text: text, Floor: floor}
	c.Stats[id] = s
	c.order = append(c.order, id)
	return s
}

func (s *RuleStat) Sample(format string, a ...any) {
	if len(s.Samples) < 6 {
		s.Samples = append(s.Samples, fmt.Sprintf(format, a...))
	}
}

// Ob records one obligation and whether it was discharged.
func (s *RuleStat) Ob(ok bool) {
	s.Obligations++
	if ok {
		s.Discharged++
	}
}

func (c *Ctx) Report(f Finding) {
	if f.Kind == "" {
		f.Kind = "violation"
	}
	c.Findings = append(c.Findings, f)
}

// posIn: a position for a report inside fn; positions that the syntax normalisations left pointing
// outside the repository (synthesised nodes) fall back to the function's own position.
func (c *Ctx) posIn(fn *ssa.Function, pos token.Pos) token.Pos {
	if fn == nil {
		return pos
	}
	if !pos.IsValid() {
		return fn.Pos()
	}
	if rel, err := filepath.Rel(RepoDir, c.Fset.Position(pos).Filename); err != nil || strings.HasPrefix(rel, "..") {
		return fn.Pos()
	}
	return pos
}

func (c *Ctx) ReportAt(rule string, fn *ssa.Function, pos token.Pos, detail, msg string) {
	pos = c.posIn(fn, pos)
	c.Report(Finding{Rule: rule, Pkg: FuncPkg(fn), Func: FuncName(fn), Detail: detail, Pos: c.Position(pos), Msg: msg})
}

func (c *Ctx) Undecided(rule string, fn *ssa.Function, pos token.Pos, detail, msg string) {
	pos = c.posIn(fn, pos)
	c.Report(Finding{Rule: rule, Kind: "undecided", Pkg: FuncPkg(fn), Func: FuncName(fn), Detail: detail, Pos: c.Position(pos), Msg: msg})
}

func (c *Ctx) MarkAnalysed(fn *ssa.Function) { c.funcsAnalysed[FuncPkg(fn)+"."+FuncName(fn)] = true }

// ---- known findings ---------------------------------------------------------

type Known struct {
	Property string `json:"property"`
	Rule     string `json:"rule"`
	Pkg      string `json:"pkg"`
	Func     string `json:"func"`
	Detail   string `json:"detail"`
	Status   string `json:"status"` // known | fixed
	Commit   string `json:"commit,omitempty"`
	What     string `json:"what"`
}

func (k Known) Key() string { return k.Rule + "|" + k.Pkg + "|" + k.Func + "|" + k.Detail }

func LoadKnown(path string) []Known {
	b, err := os.ReadFile(path)
	if err != nil {
		Fatal("known findings file: %v", err)
	}
	var f struct {
		Findings []Known `json:"findings"`
	}
	if err := json.Unmarshal(b, &f); err != nil {
		Fatal("known findings file: %v", err)
	}
	return f.Findings
}

// ---- finish -----------------------------------------------------------------

type Meta struct {
	Level       string
	Explanation string
	Assumptions []string
	NotDecided  string
}

// Finish checks floors, subtracts known findings, writes evidence and replay
// files, prints the verdict lines and returns the exit code.
func (c *Ctx) Finish(verifDir string, meta Meta) int {
	// floors: a rule matching fewer instances than confirmed by hand is broken
	for _, id := range c.order {
		s := c.Stats[id]
		if s.Instances < s.Floor {
			c.Report(Finding{Rule: id, Kind: "floor", Pkg: "-", Func: "-", Detail: "floor",
				Msg: fmt.Sprintf("rule matched %d instances, below the hand-confirmed floor %d: anchors moved or the rule lost its subject", s.Instances, s.Floor)})
		}
	}
	known := LoadKnown(filepath.Join(verifDir, "known_findings.json"))
	knownBy := map[string]Known{}
	for _, k := range known {
		if k.Property == c.Prop && k.Status == "known" {
			knownBy[k.Key()] = k
		}
	}
	// dedupe
	seen := map[string]bool{}
	var uniq []Finding
	for _, f := range c.Findings {
		k := f.Key() + "|" + f.Kind
		if seen[k] {
			continue
		}
		seen[k] = true
		uniq = append(uniq, f)
	}
	sort.SliceStable(uniq, func(i, j int) bool { return uniq[i].Key() < uniq[j].Key() })
	var viol, kn []Finding
	for _, f := range uniq {
		if _, ok := knownBy[f.Key()]; ok && f.Kind == "violation" {
			kn = append(kn, f)
		} else {
			viol = append(viol, f)
		}
	}
	for _, f := range kn {
		fmt.Printf("KNOWN-FINDING: property=%s rule=%s %s.%s [%s] %s (%s)\n", c.Prop, f.Rule, f.Pkg, f.Func, f.Detail, knownBy[f.Key()].What, f.Pos)
	}
	replayDir := filepath.Join(verifDir, "replay")
	os.MkdirAll(replayDir, 0o755)
	replay := filepath.Join(replayDir, fmt.Sprintf("%s-%s.json", c.Prop, c.Tier))
	os.Remove(replay)
	if len(viol) > 0 {
		b, _ := json.MarshalIndent(map[string]any{"property": c.Prop, "tier": c.Tier, "violations": viol}, "", " ")
		os.WriteFile(replay, b, 0o644)
		for _, f := range viol {
			fmt.Printf("  %s %s %s %s.%s [%s]: %s\n", f.Kind, f.Rule, f.Pos, f.Pkg, f.Func, f.Detail, f.Msg)
		}
		fmt.Printf("VIOLATION property=%s replay=%s\n", c.Prop, replay)
	}
	// evidence
	obl, dis, inst := 0, 0, 0
	var rules []*RuleStat
	var samples []any
	for _, id := range c.order {
		s := c.Stats[id]
		obl += s.Obligations
		dis += s.Discharged
		inst += s.Instances
		rules = append(rules, s)
		for _, sm := range s.Samples {
			if len(samples) < 40 {
				samples = append(samples, map[string]string{"rule": id, "obligation": sm})
			}
		}
	}
	if len(samples) == 0 {
		samples = append(samples, "no obligations enumerated")
	}
	pk := []string{}
	for _, p := range c.RepoPkgs() {
		pk = append(pk, RelPkg(p.PkgPath))
	}
	fa := []string{}
	for f := range c.funcsAnalysed {
		fa = append(fa, f)
	}
	sort.Strings(fa)
	fnSample := fa
	if len(fnSample) > 25 {
		fnSample = fnSample[:25]
	}
	seed := 0
	fmt.Sscan(os.Getenv("VERIF_SEED"), &seed)
	ev := map[string]any{
		"property_id": c.Prop,
		"tier":        c.Tier,
		"seed":        seed,
		"level":       meta.Level,
		"coverage": map[string]any{
			"explanation":        meta.Explanation,
			"not_decided":        meta.NotDecided,
			"obligations":        obl,
			"discharged":         dis,
			"rule_instances":     inst,
			"rule":               "one obligation per (rule, construct) instance found in /repo's current source (call site, loop, table row, function, path query); obligations are decided, never sampled",
			"rules":              rules,
			"samples":            samples,
			"packages_loaded":    pk,
			"functions_analysed": len(fa),
			"functions_sample":   fnSample,
			"known_findings":     len(kn),
			"exhaustive":         true,
			"checker_cmd":        fmt.Sprintf("./check %s %s", c.Prop, c.Tier),
			"notes":              c.Notes,
			"thorough":           c.Extra,
		},
		"assumptions": append(append([]string{}, meta.Assumptions...), c.Assumptions...),
		"wall_s":      time.Since(c.Start).Seconds(),
		"violations":  len(viol),
	}
	b, _ := json.MarshalIndent(ev, "", " ")
	os.MkdirAll(filepath.Join(verifDir, "evidence"), 0o755)
	if err := os.WriteFile(filepath.Join(verifDir, "evidence", c.Prop+".json"), b, 0o644); err != nil {
		Fatal("write evidence: %v", err)
	}
	fmt.Printf("%s %s: %d rules, %d instances, %d/%d obligations discharged, %d known findings, %d violations, %.1fs\n",
		c.Prop, c.Tier, len(c.order), inst, dis, obl, len(kn), len(viol), time.Since(c.Start).Seconds())
	if len(viol) > 0 {
		return 1
	}
	return 0
}

// ---- small AST helpers --------------------------------------------------------

// FileOf returns the syntax file containing pos.
func (c *Ctx) FileOf(p *packages.Package, pos token.Pos) *ast.File {
	for _, f := range p.Syntax {
		if f.Pos() <= pos && pos <= f.End() {
			return f
		}
	}
	return nil
}

// FuncDecls iterates over all function declarations with bodies of a package.
func FuncDecls(p *packages.Package, f func(fd *ast.FuncDecl)) {
	for _, file := range p.Syntax {
		for _, d := range file.Decls {
			if fd, ok := d.(*ast.FuncDecl); ok && fd.Body != nil {
				f(fd)
			}
		}
	}
}

// DeclName gives "Type.method" / "func" for a FuncDecl.
func DeclName(fd *ast.FuncDecl) string {
	if fd.Recv != nil && len(fd.Recv.List) > 0 {
		t := fd.Recv.List[0].Type
		if s, ok := t.(*ast.StarExpr); ok {
			t = s.X
		}
		if ix, ok := t.(*ast.IndexExpr); ok {
			t = ix.X
		}
		if id, ok := t.(*ast.Ident); ok {
			return id.Name + "." + fd.Name.Name
		}
	}
	return fd.Name.Name
}

// normalizeComparisons rewrites, in the syntax trees of a repository package (before
// SSA is built from them), every comparison whose left operand is a constant and whose
// right operand is not, so that the constant is on the right: `0 < n` becomes `n > 0`,
// `64 > i` becomes `i < 64`, `nil == p` becomes `p == nil`; an ordering of two
// non-constant operands is spelled with < or <= (`n > i` becomes `i < n`); a constant
// factor or term of a numeric product or sum is written last (`4*i` becomes `i*4`). The program is unchanged
// (a constant operand has no effects to reorder) and every rule, syntactic or on SSA,
// sees one spelling of a test against a constant whatever the author preferred.
func normalizeComparisons(p *packages.Package) {
	if p.TypesInfo == nil || normalized[p] {
		return
	}
	normalized[p] = true
	isConst := func(e ast.Expr) bool {
		tv, ok := p.TypesInfo.Types[e]
		if !ok {
			return false
		}
		return tv.Value != nil || tv.IsNil()
	}
	for _, f := range p.Syntax {
		ast.Inspect(f, func(n ast.Node) bool {
			be, ok := n.(*ast.BinaryExpr)
			if !ok {
				return true
			}
			var mirror token.Token
			switch be.Op {
			case token.MUL, token.ADD:
				// a constant factor or term is written last: 4*i becomes i*4, 1+n becomes n+1
				if tv, ok := p.TypesInfo.Types[be]; ok {
					if bt, isB := tv.Type.Underlying().(*types.Basic); isB && bt.Info()&types.IsNumeric != 0 && isConst(be.X) && !isConst(be.Y) {
						be.X, be.Y = be.Y, be.X
					}
				}
				return true
			case token.EQL, token.NEQ:
				mirror = be.Op
			case token.LSS:
				mirror = token.GTR
			case token.GTR:
				mirror = token.LSS
			case token.LEQ:
				mirror = token.GEQ
			case token.GEQ:
				mirror = token.LEQ
			default:
				return true
			}
			switch {
			case isConst(be.X) && !isConst(be.Y):
				be.X, be.Y, be.Op = be.Y, be.X, mirror
				fallthrough
			case !isConst(be.X) && isConst(be.Y) && (be.Op == token.LSS || be.Op == token.GEQ):
				// an integer compared with the constant 1: n < 1 is n <= 0, n >= 1 is n > 0
				if tv, ok := p.TypesInfo.Types[be.Y]; ok && tv.Value != nil && tv.Value.Kind() == constant.Int && (be.Op == token.LSS || be.Op == token.GEQ) {
					if v, exact := constant.Int64Val(tv.Value); exact && v == 1 {
						if xt, ok := p.TypesInfo.Types[be.X]; ok && xt.Type != nil {
							if bt, isB := xt.Type.Underlying().(*types.Basic); isB && bt.Info()&types.IsInteger != 0 {
								zero := &ast.BasicLit{ValuePos: be.Y.Pos(), Kind: token.INT, Value: "0"}
								p.TypesInfo.Types[zero] = types.TypeAndValue{Type: tv.Type, Value: constant.MakeInt64(0)}
								be.Y = zero
								if be.Op == token.LSS {
									be.Op = token.LEQ
								} else {
									be.Op = token.GTR
								}
							}
						}
					}
				}
			case !isConst(be.X) && !isConst(be.Y) && (be.Op == token.GTR || be.Op == token.GEQ):
				// two variable operands: one spelling, with < or <=
				be.X, be.Y, be.Op = be.Y, be.X, mirror
			}
			return true
		})
	}
}

var normalized = map[*packages.Package]bool{}

// lowerRangeInt rewrites `for i := range N` over an integer N (Go 1.22) into the
// classic `for i := 0; i < N; i++` in the syntax tree, with the type information the
// SSA builder needs for the new nodes. `go fix` offers the opposite rewrite, so both
// spellings occur; the rules know the classic one.
func lowerRangeInt(p *packages.Package) {
	info := p.TypesInfo
	if info == nil {
		return
	}
	counter := 0
	lower := func(rs *ast.RangeStmt) ast.Stmt {
		if rs.Value != nil || rs.Tok == token.ASSIGN {
			return nil
		}
		tv, ok := info.Types[rs.X]
		if !ok || tv.Type == nil {
			return nil
		}
		bt, isB := tv.Type.Underlying().(*types.Basic)
		if !isB || bt.Info()&types.IsInteger == 0 {
			return nil
		}
		var iv *ast.Ident
		var obj types.Object
		if id, ok := rs.Key.(*ast.Ident); ok && id.Name != "_" {
			iv = id
			obj = info.Defs[id]
		}
		if obj == nil {
			counter++
			iv = &ast.Ident{NamePos: rs.For, Name: fmt.Sprintf("ri%d·", counter)}
			t := tv.Type
			if bt.Info()&types.IsUntyped != 0 {
				t = types.Typ[types.Int]
			}
			obj = types.NewVar(rs.For, p.Types, iv.Name, t)
			info.Defs[iv] = obj
		}
		zero := &ast.BasicLit{ValuePos: rs.For, Kind: token.INT, Value: "0"}
		info.Types[zero] = types.TypeAndValue{Type: obj.Type(), Value: constant.MakeInt64(0)}
		use1 := &ast.Ident{NamePos: rs.For, Name: iv.Name}
		use2 := &ast.Ident{NamePos: rs.For, Name: iv.Name}
		info.Uses[use1], info.Uses[use2] = obj, obj
		info.Types[use1] = types.TypeAndValue{Type: obj.Type()}
		info.Types[use2] = types.TypeAndValue{Type: obj.Type()}
		cond := &ast.BinaryExpr{X: use1, OpPos: rs.For, Op: token.LSS, Y: rs.X}
		info.Types[cond] = types.TypeAndValue{Type: types.Typ[types.UntypedBool]}
		return &ast.ForStmt{
			For:  rs.For,
			Init: &ast.AssignStmt{Lhs: []ast.Expr{iv}, TokPos: rs.For, Tok: token.DEFINE, Rhs: []ast.Expr{zero}},
			Cond: cond,
			Post: &ast.IncDecStmt{X: use2, TokPos: rs.For, Tok: token.INC},
			Body: rs.Body,
		}
	}
	fix := func(list []ast.Stmt) {
		for i, st := range list {
			if ls, ok := st.(*ast.LabeledStmt); ok {
				if rs, ok := ls.Stmt.(*ast.RangeStmt); ok {
					if f := lower(rs); f != nil {
						ls.Stmt = f
					}
				}
				continue
			}
			if rs, ok := st.(*ast.RangeStmt); ok {
				if f := lower(rs); f != nil {
					list[i] = f
				}
			}
		}
	}
	for _, f := range p.Syntax {
		ast.Inspect(f, func(n ast.Node) bool {
			switch t := n.(type) {
			case *ast.BlockStmt:
				fix(t.List)
			case *ast.CaseClause:
				fix(t.Body)
			case *ast.CommClause:
				fix(t.Body)
			}
			return true
		})
	}
}

// simplifySyntax removes two purely notational choices from the syntax trees of a
// repository package: parentheses that the operator precedences make redundant, and
// `var x = v` statements (one name, one value, no type), which become `x := v`.
func simplifySyntax(p *packages.Package) {
	if p.TypesInfo == nil || simplified[p] {
		return
	}
	simplified[p] = true
	var un func(e ast.Expr, parent token.Token, right bool) ast.Expr
	un = func(e ast.Expr, parent token.Token, right bool) ast.Expr {
		pe, ok := e.(*ast.ParenExpr)
		if !ok {
			return e
		}
		switch in := pe.X.(type) {
		case *ast.Ident, *ast.SelectorExpr, *ast.CallExpr, *ast.BasicLit, *ast.IndexExpr, *ast.ParenExpr:
			return un(pe.X, parent, right)
		case *ast.BinaryExpr:
			if parent == token.ILLEGAL {
				return pe.X // the whole operand of a statement, argument or condition
			}
			cp, pp := in.Op.Precedence(), parent.Precedence()
			if cp > pp || (cp == pp && !right) {
				return pe.X
			}
		}
		return e
	}
	for _, f := range p.Syntax {
		ast.Inspect(f, func(n ast.Node) bool {
			switch t := n.(type) {
			case *ast.BinaryExpr:
				t.X = un(t.X, t.Op, false)
				t.Y = un(t.Y, t.Op, true)
			case *ast.CallExpr:
				for i := range t.Args {
					t.Args[i] = un(t.Args[i], token.ILLEGAL, false)
				}
			case *ast.AssignStmt:
				for i := range t.Rhs {
					t.Rhs[i] = un(t.Rhs[i], token.ILLEGAL, false)
				}
			case *ast.ReturnStmt:
				for i := range t.Results {
					t.Results[i] = un(t.Results[i], token.ILLEGAL, false)
				}
			case *ast.IfStmt:
				t.Cond = un(t.Cond, token.ILLEGAL, false)
			case *ast.ForStmt:
				if t.Cond != nil {
					t.Cond = un(t.Cond, token.ILLEGAL, false)
				}
			case *ast.IndexExpr:
				t.Index = un(t.Index, token.ILLEGAL, false)
			case *ast.ValueSpec:
				for i := range t.Values {
					t.Values[i] = un(t.Values[i], token.ILLEGAL, false)
				}
			case *ast.BlockStmt:
				for i, st := range t.List {
					ds, ok := st.(*ast.DeclStmt)
					if !ok {
						continue
					}
					gd, ok := ds.Decl.(*ast.GenDecl)
					if !ok || gd.Tok != token.VAR || len(gd.Specs) != 1 {
						continue
					}
					vs, ok := gd.Specs[0].(*ast.ValueSpec)
					if !ok || vs.Type != nil || len(vs.Names) != 1 || len(vs.Values) != 1 || vs.Names[0].Name == "_" {
						continue
					}
					t.List[i] = &ast.AssignStmt{Lhs: []ast.Expr{vs.Names[0]}, TokPos: vs.Names[0].Pos(), Tok: token.DEFINE, Rhs: []ast.Expr{vs.Values[0]}}
				}
			}
			return true
		})
	}
}

var simplified = map[*packages.Package]bool{}
