package core

import (
	"fmt"
	"go/token"
	"go/types"
	"regexp"
	"sort"
	"strings"

	"golang.org/x/tools/go/ssa"
)

// Provenance renders an SSA value as a canonical access-path expression that
// is independent of local variable names, statement splitting and helper
// extraction: parameters are resolved through the static call sites of the
// function inside the loaded program (bounded depth), loads of fields become
// ".field", interface/static calls become ".m()" / "f(args)". A value with
// several possible origins (phi, several callers) renders as "{a|b}".
//
// It is used by FIELDS-style rules: "the argument of WithDirtyMask has
// provenance ….DirtyMask of the same request".

type Prov struct {
	c        *Ctx
	maxDepth int
	local    bool // do not resolve parameters through call sites
	callers  map[*ssa.Function][]*ssa.Call

	// InlinePure renders the results of straight-line expression helpers
	// (one basic block, no stores, no calls other than to such helpers) as the
	// helper's return expressions with its parameters replaced by the
	// arguments, so that extracting a formula into a helper does not change
	// its provenance.
	InlinePure bool
	bind       []map[*ssa.Parameter]string
}

// pureReturn returns the Return of a straight-line expression helper, or nil.
func (p *Prov) pureReturn(fn *ssa.Function) *ssa.Return {
	if fn == nil || len(fn.Blocks) != 1 || len(p.bind) > 3 {
		return nil
	}
	var ret *ssa.Return
	for _, in := range fn.Blocks[0].Instrs {
		switch t := in.(type) {
		case *ssa.BinOp, *ssa.Convert, *ssa.ChangeType, *ssa.FieldAddr, *ssa.Field, *ssa.IndexAddr, *ssa.Index, *ssa.Extract, *ssa.DebugRef, *ssa.Slice:
		case *ssa.UnOp:
			if t.Op == token.ARROW {
				return nil
			}
		case *ssa.Call:
			if cal := t.Call.StaticCallee(); cal == nil || cal == fn || p.pureReturn(cal) == nil {
				return nil
			}
		case *ssa.Return:
			ret = t
		default:
			return nil
		}
	}
	return ret
}

// inlined renders result idx of a call to a pure helper, or "".
func (p *Prov) inlined(call *ssa.Call, idx, depth int, seen map[ssa.Value]bool) string {
	if !p.InlinePure {
		return ""
	}
	fn := call.Call.StaticCallee()
	ret := p.pureReturn(fn)
	if ret == nil || idx >= len(ret.Results) || len(fn.Params) != len(call.Call.Args) {
		return ""
	}
	b := map[*ssa.Parameter]string{}
	for i, prm := range fn.Params {
		b[prm] = p.of(call.Call.Args[i], depth, seen)
	}
	p.bind = append(p.bind, b)
	s := p.of(ret.Results[idx], depth+1, map[ssa.Value]bool{})
	p.bind = p.bind[:len(p.bind)-1]
	return s
}

func NewProv(c *Ctx) *Prov {
	c.BuildSSA()
	return &Prov{c: c, maxDepth: 5}
}

// NewLocalProv renders parameters as "param:name" (function-local provenance).
func NewLocalProv(c *Ctx) *Prov {
	c.BuildSSA()
	return &Prov{c: c, maxDepth: 5, local: true}
}

// callSites finds static call sites of fn within its own package.
func (p *Prov) callSites(fn *ssa.Function) []*ssa.Call {
	if p.callers == nil {
		p.callers = map[*ssa.Function][]*ssa.Call{}
	}
	if cs, ok := p.callers[fn]; ok {
		return cs
	}
	var out []*ssa.Call
	if fn.Pkg != nil {
		for _, m := range p.c.SrcFuncs(RelPkg(fn.Pkg.Pkg.Path())) {
			for _, b := range m.Blocks {
				for _, in := range b.Instrs {
					if call, ok := in.(*ssa.Call); ok && call.Call.StaticCallee() == fn {
						out = append(out, call)
					}
				}
			}
		}
	}
	p.callers[fn] = out
	return out
}

func (p *Prov) Of(v ssa.Value) string { return p.of(v, 0, map[ssa.Value]bool{}) }

func alt(parts []string) string {
	set := map[string]bool{}
	var u []string
	for _, s := range parts {
		if !set[s] {
			set[s] = true
			u = append(u, s)
		}
	}
	sort.Strings(u)
	if len(u) == 1 {
		return u[0]
	}
	return "{" + strings.Join(u, "|") + "}"
}

func (p *Prov) of(v ssa.Value, depth int, seen map[ssa.Value]bool) string {
	if v == nil {
		return "nil"
	}
	if seen[v] {
		return "<loop>"
	}
	seen[v] = true
	defer delete(seen, v)
	switch v := v.(type) {
	case *ssa.Const:
		if v.Value == nil {
			if _, ok := v.Type().Underlying().(*types.Struct); ok {
				return types.TypeString(v.Type(), shortQual) + "{}"
			}
			return "nil"
		}
		return v.Value.ExactString()
	case *ssa.Parameter:
		if n := len(p.bind); n > 0 {
			if r, ok := p.bind[n-1][v]; ok {
				return r
			}
		}
		fn := v.Parent()
		idx := -1
		for i, q := range fn.Params {
			if q == v {
				idx = i
			}
		}
		if fn.Signature.Recv() != nil && idx == 0 {
			return "recv" // the receiver is never resolved through callers: "recv" always means the method's own object
		}
		if !p.local && depth < p.maxDepth && idx >= 0 {
			cs := p.callSites(fn)
			if len(cs) > 0 && len(cs) <= 6 {
				var parts []string
				for _, call := range cs {
					if idx < len(call.Call.Args) {
						parts = append(parts, p.of(call.Call.Args[idx], depth+1, seen))
					}
				}
				if len(parts) > 0 {
					return alt(parts)
				}
			}
		}
		if fn.Signature.Recv() != nil && idx == 0 {
			return "recv"
		}
		return "param:" + PinnedName(v.Parent(), v.Name())
	case *ssa.FreeVar:
		return "free:" + PinnedName(v.Parent(), v.Name())
	case *ssa.UnOp:
		switch v.Op {
		case token.MUL:
			if fa, ok := v.X.(*ssa.FieldAddr); ok {
				f := FieldOfAddr(fa)
				if a, ok := fa.X.(*ssa.Alloc); ok {
					// field of a local struct cell: whole-struct stores and field stores
					var parts []string
					if refs := a.Referrers(); refs != nil {
						for _, r := range *refs {
							switch r := r.(type) {
							case *ssa.Store:
								if r.Addr == a {
									if c, isConst := r.Val.(*ssa.Const); isConst && c.Value == nil {
										continue // zero initialisation
									}
									parts = append(parts, p.of(r.Val, depth, seen)+"."+f.Name())
								}
							case *ssa.FieldAddr:
								if r.Field == fa.Field && r.Referrers() != nil {
									for _, rr := range *r.Referrers() {
										if st, ok := rr.(*ssa.Store); ok && st.Addr == r {
											parts = append(parts, p.of(st.Val, depth, seen))
										}
									}
								}
							}
						}
					}
					if len(parts) > 0 {
						return alt(parts)
					}
				}
				base := p.of(fa.X, depth, seen)
				if f.Embedded() {
					return base // embedded hops are transparent
				}
				return base + "." + f.Name()
			}
			if ia, ok := v.X.(*ssa.IndexAddr); ok {
				return p.of(ia.X, depth, seen) + "[" + p.of(ia.Index, depth, seen) + "]"
			}
			if a, ok := v.X.(*ssa.Alloc); ok {
				// a local cell: union of stored values
				var parts []string
				if refs := a.Referrers(); refs != nil {
					for _, r := range *refs {
						if st, ok := r.(*ssa.Store); ok && st.Addr == a {
							parts = append(parts, p.of(st.Val, depth, seen))
						}
					}
				}
				if len(parts) > 0 {
					return alt(parts)
				}
				// a composite value assembled field by field
				if st, ok := a.Type().Underlying().(*types.Pointer).Elem().Underlying().(*types.Struct); ok && a.Referrers() != nil {
					var fs []string
					for _, r := range *a.Referrers() {
						fa, ok := r.(*ssa.FieldAddr)
						if !ok || fa.Referrers() == nil {
							continue
						}
						for _, rr := range *fa.Referrers() {
							if s, ok := rr.(*ssa.Store); ok && s.Addr == fa {
								fs = append(fs, st.Field(fa.Field).Name()+":"+p.of(s.Val, depth, seen))
							}
						}
					}
					if len(fs) > 0 {
						sort.Strings(fs)
						return types.TypeString(a.Type().Underlying().(*types.Pointer).Elem(), shortQual) + "{" + strings.Join(fs, ",") + "}"
					}
				}
				return "local"
			}
			if g, ok := v.X.(*ssa.Global); ok {
				return "global:" + g.Name()
			}
			return "*" + p.of(v.X, depth, seen)
		case token.NOT:
			return "!" + p.of(v.X, depth, seen)
		case token.SUB:
			return "-" + p.of(v.X, depth, seen)
		case token.XOR:
			return "^" + p.of(v.X, depth, seen)
		case token.ARROW:
			return "<-" + p.of(v.X, depth, seen)
		}
	case *ssa.FieldAddr:
		f := FieldOfAddr(v)
		base := p.of(v.X, depth, seen)
		if f.Embedded() {
			return base
		}
		return "&" + base + "." + f.Name()
	case *ssa.Field:
		f := v.X.Type().Underlying().(*types.Struct).Field(v.Field)
		base := p.of(v.X, depth, seen)
		if f.Embedded() {
			return base
		}
		return base + "." + f.Name()
	case *ssa.Call:
		cc := v.Common()
		if !cc.IsInvoke() && cc.StaticCallee() != nil && cc.StaticCallee().Signature.Results().Len() == 1 {
			if r := p.inlined(v, 0, depth, seen); r != "" {
				return r
			}
		}
		if cc.IsInvoke() {
			args := p.args(cc.Args, depth, seen)
			return p.of(cc.Value, depth, seen) + "." + cc.Method.Name() + "(" + args + ")"
		}
		if b, ok := cc.Value.(*ssa.Builtin); ok {
			return b.Name() + "(" + p.args(cc.Args, depth, seen) + ")"
		}
		if fn := cc.StaticCallee(); fn != nil {
			if fn.Signature.Recv() != nil && len(cc.Args) > 0 {
				return p.of(cc.Args[0], depth, seen) + "." + fn.Name() + "(" + p.args(cc.Args[1:], depth, seen) + ")"
			}
			name := fn.Name()
			if fn.Pkg != nil && fn.Pkg.Pkg.Path() != "" {
				name = fn.Pkg.Pkg.Name() + "." + name
			}
			return name + "(" + p.args(cc.Args, depth, seen) + ")"
		}
		return "dyncall(" + p.of(cc.Value, depth, seen) + ")"
	case *ssa.TypeAssert:
		return p.of(v.X, depth, seen)
	case *ssa.Extract:
		if call, ok := v.Tuple.(*ssa.Call); ok && !call.Call.IsInvoke() && call.Call.StaticCallee() != nil {
			if r := p.inlined(call, v.Index, depth, seen); r != "" {
				return r
			}
		}
		// (value, ok) forms: keep the tuple provenance, mark the index
		s := p.of(v.Tuple, depth, seen)
		if v.Index == 0 {
			return s
		}
		return fmt.Sprintf("%s#%d", s, v.Index)
	case *ssa.MakeInterface:
		return p.of(v.X, depth, seen)
	case *ssa.ChangeInterface:
		return p.of(v.X, depth, seen)
	case *ssa.ChangeType:
		return p.of(v.X, depth, seen)
	case *ssa.Convert:
		return p.of(v.X, depth, seen)
	case *ssa.Phi:
		var parts []string
		loop := false
		for _, e := range v.Edges {
			s := p.of(e, depth, seen)
			if strings.Contains(s, "<loop>") {
				loop = true
				s = strings.ReplaceAll(s, "<loop>", "@")
			}
			parts = append(parts, s)
		}
		if loop {
			// a loop-carried value (induction variable, accumulator)
			return "iter(" + alt(parts) + ")"
		}
		return alt(parts)
	case *ssa.BinOp:
		return "(" + p.of(v.X, depth, seen) + v.Op.String() + p.of(v.Y, depth, seen) + ")"
	case *ssa.Lookup:
		return p.of(v.X, depth, seen) + "[" + p.of(v.Index, depth, seen) + "]"
	case *ssa.Index:
		return p.of(v.X, depth, seen) + "[" + p.of(v.Index, depth, seen) + "]"
	case *ssa.IndexAddr:
		return "&" + p.of(v.X, depth, seen) + "[" + p.of(v.Index, depth, seen) + "]"
	case *ssa.Slice:
		if a, ok := v.X.(*ssa.Alloc); ok {
			if arr, ok := a.Type().Underlying().(*types.Pointer).Elem().Underlying().(*types.Array); ok && arr.Len() == 0 {
				return "make(slice)" // make([]T, 0) with constant length
			}
		}
		if a, ok := v.X.(*ssa.Alloc); ok && v.Low == nil && v.High == nil {
			// slice literal / variadic argument array: list the stored elements
			elems := map[int64]string{}
			var idx []int64
			if refs := a.Referrers(); refs != nil {
				for _, r := range *refs {
					ia, ok := r.(*ssa.IndexAddr)
					if !ok || ia.Referrers() == nil {
						continue
					}
					k, ok := ConstInt(ia.Index)
					if !ok {
						continue
					}
					for _, rr := range *ia.Referrers() {
						if st, ok := rr.(*ssa.Store); ok && st.Addr == ia {
							if _, dup := elems[k]; !dup {
								idx = append(idx, k)
							}
							elems[k] = p.of(st.Val, depth, seen)
						}
					}
				}
			}
			if len(idx) > 0 {
				sort.Slice(idx, func(i, j int) bool { return idx[i] < idx[j] })
				var parts []string
				for _, k := range idx {
					parts = append(parts, elems[k])
				}
				return "[" + strings.Join(parts, ",") + "]"
			}
		}
		lo, hi := "", ""
		if v.Low != nil {
			lo = p.of(v.Low, depth, seen)
		}
		if v.High != nil {
			hi = p.of(v.High, depth, seen)
		}
		return p.of(v.X, depth, seen) + "[" + lo + ":" + hi + "]"
	case *ssa.Alloc:
		// address of a composite literal / local: describe by the stores into its fields
		tn := types.TypeString(v.Type().Underlying().(*types.Pointer).Elem(), shortQual)
		if st, ok := v.Type().Underlying().(*types.Pointer).Elem().Underlying().(*types.Struct); ok && v.Referrers() != nil && depth < p.maxDepth {
			var fs []string
			for _, r := range *v.Referrers() {
				fa, ok := r.(*ssa.FieldAddr)
				if !ok || fa.Referrers() == nil || st.Field(fa.Field).Embedded() {
					continue
				}
				for _, rr := range *fa.Referrers() {
					if s, ok := rr.(*ssa.Store); ok && s.Addr == fa {
						fs = append(fs, st.Field(fa.Field).Name()+":"+p.of(s.Val, depth+1, seen))
					}
				}
			}
			if len(fs) > 0 {
				sort.Strings(fs)
				return "&" + tn + "{" + strings.Join(fs, ",") + "}"
			}
		}
		return "new(" + tn + ")"
	case *ssa.Global:
		return "global:" + v.Name()
	case *ssa.Function:
		return "func:" + v.Name()
	case *ssa.MakeClosure:
		return "closure:" + v.Fn.Name()
	case *ssa.MakeMap:
		return "make(map)"
	case *ssa.MakeSlice:
		// a fresh slice whose only writer is one whole-slice copy(dst, src) is a
		// defensive copy of src: it carries src's provenance
		if refs := v.Referrers(); refs != nil {
			var src ssa.Value
			writers := 0
			for _, r := range *refs {
				switch t := r.(type) {
				case *ssa.Call:
					if b, ok := t.Call.Value.(*ssa.Builtin); ok && b.Name() == "copy" && len(t.Call.Args) == 2 && t.Call.Args[0] == ssa.Value(v) {
						src = t.Call.Args[1]
						writers++
					}
				case *ssa.IndexAddr, *ssa.Slice:
					writers += 2 // element writes or partial views: not a plain copy
				}
			}
			if src != nil && writers == 1 {
				if ln, ok := v.Len.(*ssa.Call); ok {
					if b, ok := ln.Call.Value.(*ssa.Builtin); ok && b.Name() == "len" && p.of(ln.Call.Args[0], depth, seen) == p.of(src, depth, seen) {
						return p.of(src, depth, seen)
					}
				}
			}
		}
		return "make(slice)"
	case *ssa.MakeChan:
		return "make(chan)"
	case *ssa.Next:
		return "next(" + p.of(v.Iter, depth, seen) + ")"
	case *ssa.Range:
		return "range(" + p.of(v.X, depth, seen) + ")"
	}
	return "?" + v.Name()
}

func (p *Prov) args(args []ssa.Value, depth int, seen map[ssa.Value]bool) string {
	var parts []string
	for _, a := range args {
		parts = append(parts, p.of(a, depth, seen))
	}
	return strings.Join(parts, ",")
}

func shortQual(p *types.Package) string { return p.Name() }

// BuilderChain describes one akita builder chain ending in Build().
type BuilderChain struct {
	Fn      *ssa.Function
	Build   *ssa.Call
	Builder string                 // e.g. "mem.ReadReqBuilder"
	Setters map[string][]ssa.Value // method name -> args (last call wins)
	Order   []string
}

// BuilderChains finds all value-receiver builder chains in fn: a call to a
// method named Build whose receiver is produced by a chain of With*/To* method
// calls on the same named builder type.
func BuilderChains(fn *ssa.Function) []*BuilderChain {
	var out []*BuilderChain
	for _, b := range fn.Blocks {
		for _, in := range b.Instrs {
			call, ok := in.(*ssa.Call)
			if !ok {
				continue
			}
			callee := call.Call.StaticCallee()
			if callee == nil || callee.Name() != "Build" || callee.Signature.Recv() == nil || len(call.Call.Args) == 0 {
				continue
			}
			rt := callee.Signature.Recv().Type()
			if ptr, ok := rt.(*types.Pointer); ok {
				rt = ptr.Elem()
			}
			named, ok := rt.(*types.Named)
			if !ok || !strings.HasSuffix(named.Obj().Name(), "Builder") {
				continue
			}
			bc := &BuilderChain{Fn: fn, Build: call, Setters: map[string][]ssa.Value{},
				Builder: named.Obj().Pkg().Name() + "." + named.Obj().Name()}
			cur := call.Call.Args[0]
			for {
				cur = stripLoadOfAlloc(cur)
				cc, ok := cur.(*ssa.Call)
				if !ok {
					break
				}
				cal := cc.Call.StaticCallee()
				if cal == nil || cal.Signature.Recv() == nil || len(cc.Call.Args) == 0 {
					break
				}
				if _, dup := bc.Setters[cal.Name()]; !dup {
					bc.Setters[cal.Name()] = cc.Call.Args[1:]
					bc.Order = append(bc.Order, cal.Name())
				}
				cur = cc.Call.Args[0]
			}
			out = append(out, bc)
		}
	}
	return out
}

func stripLoadOfAlloc(v ssa.Value) ssa.Value {
	// builder kept in a local that was spilled: t = *alloc where alloc has a single store
	if u, ok := v.(*ssa.UnOp); ok && u.Op == token.MUL {
		if a, ok := u.X.(*ssa.Alloc); ok {
			var stored ssa.Value
			n := 0
			if refs := a.Referrers(); refs != nil {
				for _, r := range *refs {
					if st, ok := r.(*ssa.Store); ok && st.Addr == a {
						stored = st.Val
						n++
					}
				}
			}
			if n == 1 {
				return stored
			}
		}
	}
	return v
}

// ProvVariants returns the provenance string together with every string obtained from it
// by exchanging the operands of commutative operations ((A+B), (A*B), (A&B), (A|B),
// (A^B)). Rules that compare a provenance string with an expected shape use it so
// that `4*i` and `i*4` are the same expression to them. At most 512 variants.
func ProvVariants(s string) []string {
	type group struct{ open, op, close int }
	var groups []group
	var stack []int
	for i := 0; i < len(s); i++ {
		switch s[i] {
		case '(':
			stack = append(stack, i)
		case ')':
			if len(stack) == 0 {
				continue
			}
			o := stack[len(stack)-1]
			stack = stack[:len(stack)-1]
			// a binary group: exactly one top-level commutative operator inside, and the '(' is
			// not a call's (preceded by an identifier character)
			if o > 0 {
				c := s[o-1]
				if c == '_' || c == '.' || (c >= 'a' && c <= 'z') || (c >= 'A' && c <= 'Z') || (c >= '0' && c <= '9') || c == ']' || c == '}' {
					continue
				}
			}
			depth, opAt, ops := 0, -1, 0
			for j := o + 1; j < i; j++ {
				switch s[j] {
				case '(', '[', '{':
					depth++
				case ')', ']', '}':
					depth--
				case '+', '*', '&', '|', '^':
					// binary only when it follows the end of an operand (`&x` and `*p` are unary)
					prev := s[j-1]
					endsOperand := prev == ')' || prev == ']' || prev == '}' || prev == '_' || (prev >= '0' && prev <= '9') || (prev >= 'a' && prev <= 'z') || (prev >= 'A' && prev <= 'Z') || prev == '@'
					if depth == 0 && j > o+1 && endsOperand && !(s[j] == '&' && j+1 < i && s[j+1] == '^') {
						// `|` also separates the alternatives of iter({a|b}) but those are inside { }
						opAt = j
						ops++
					}
				case '-', '/', '%', '<', '>', '=', '!', ',':
					if depth == 0 {
						ops += 2 // not a single commutative operation
					}
				}
			}
			if ops == 1 && opAt > o+1 && opAt < i-1 {
				groups = append(groups, group{o, opAt, i})
			}
		}
	}
	out := []string{s}
	if len(groups) == 0 {
		return out
	}
	// swapping one group does not move the others' relative nesting: rebuild recursively
	var build func(lo, hi int, mask int) string
	build = func(lo, hi int, mask int) string {
		var b strings.Builder
		i := lo
		for i < hi {
			swapped := false
			for gi, g := range groups {
				if g.open == i && g.close < hi {
					l := build(g.open+1, g.op, mask)
					r := build(g.op+1, g.close, mask)
					if mask&(1<<uint(gi)) != 0 {
						l, r = r, l
					}
					b.WriteByte('(')
					b.WriteString(l)
					b.WriteByte(s[g.op])
					b.WriteString(r)
					b.WriteByte(')')
					i = g.close + 1
					swapped = true
					break
				}
			}
			if !swapped {
				b.WriteByte(s[i])
				i++
			}
		}
		return b.String()
	}
	seen := map[string]bool{s: true}
	add := func(mask int) {
		v := build(0, len(s), mask)
		if !seen[v] {
			seen[v] = true
			out = append(out, v)
		}
	}
	// systematic exchanges first (every product, every sum, everything): they undo a
	// uniform change of style at once
	all, byOp := 0, map[byte]int{}
	for gi, g := range groups {
		all |= 1 << uint(gi)
		byOp[s[g.op]] |= 1 << uint(gi)
	}
	add(all)
	for _, m := range byOp {
		add(m)
		add(all &^ m)
	}
	if len(groups) <= 12 {
		for mask := 1; mask < 1<<uint(len(groups)); mask++ {
			add(mask)
		}
	} else {
		// too many to enumerate: single and pairwise exchanges on top of the systematic ones
		for a := 0; a < len(groups); a++ {
			add(1 << uint(a))
			add(all &^ (1 << uint(a)))
			for b := a + 1; b < len(groups); b++ {
				add(1<<uint(a) | 1<<uint(b))
			}
		}
	}
	return out
}

// ProvMatch: the regular expression matches the provenance string or one of its
// commutative variants.
func ProvMatch(re *regexp.Regexp, s string) bool {
	if re.MatchString(s) {
		return true
	}
	for _, v := range ProvVariants(s) {
		if re.MatchString(v) {
			return true
		}
	}
	return false
}

// ProvHas: the provenance string, or one of its commutative variants, contains sub.
func ProvHas(s, sub string) bool {
	if strings.Contains(s, sub) {
		return true
	}
	for _, v := range ProvVariants(s) {
		if strings.Contains(v, sub) {
			return true
		}
	}
	return false
}

// ProvEq: the provenance string or one of its commutative variants equals want.
func ProvEq(s, want string) bool {
	if s == want {
		return true
	}
	for _, v := range ProvVariants(s) {
		if v == want {
			return true
		}
	}
	return false
}

// ProvFind: the submatches of the first commutative variant the expression matches.
func ProvFind(re *regexp.Regexp, s string) []string {
	if m := re.FindStringSubmatch(s); m != nil {
		return m
	}
	for _, v := range ProvVariants(s) {
		if m := re.FindStringSubmatch(v); m != nil {
			return m
		}
	}
	return nil
}
