// Copy this directory to <tree>/c19demo/<name>/ and run from the tree root:
//
//	export PATH=/opt/veriftools/go1.26.8/bin:$PATH GOTOOLCHAIN=local GOFLAGS=-mod=mod GOPROXY=off GOSUMDB=off
//	go test ./c19demo/mi300a_vgpr_alias/ -run TestMI300AResidentWavefrontsKeepTheirVGPRs -v
//
// (TestControlSmallKernel in the same file is the passing control.)
//
// Property C09: "the resources of simultaneously resident work-groups never
// overlap or exceed the unit's capacity".
//
// A one-CU MI300A GPU is built with the real builder
// (amd/samples/runner/timingconfig/mi300a). That builder tells the command
// processor that every SIMD has 32768 vector registers (512 per lane,
// connectCPWithCUs: vRegCounts) and builds the compute units WithVGPRCount
// 32768. cu.Builder.equipRegisterFiles however keeps the lane stride of the
// vector register file at 1024 bytes (256 registers per lane), and
// SimpleRegisterFile.getRegOffset addresses a register at
//
//	reg*4 + lane*1024 + VGPROffset.
//
// CUResourceImpl.matchWfWithSIMDs hands out VGPROffset values up to 2032
// bytes, so the registers of lane L of a wavefront placed at VGPROffset 1024+x
// are the registers of lane L+1 of the wavefront placed at VGPROffset x on the
// same SIMD: two resident wavefronts share storage.
//
// The test launches one kernel of 32 single-wavefront work-groups that need 64
// VGPRs each (8 wavefronts * 64 = 512 VGPRs per SIMD, exactly what the CP was
// told the SIMD has). Address translation never answers, so no instruction
// ever executes and all 32 work-groups stay resident. Right after dispatch v0
// of every lane must hold the work-item id that the wavefront dispatcher wrote
// there.
package mi300a_vgpr_alias

import (
	"testing"

	"github.com/sarchlab/akita/v4/mem/mem"
	"github.com/sarchlab/akita/v4/mem/vm"
	"github.com/sarchlab/akita/v4/mem/vm/mmu"
	"github.com/sarchlab/akita/v4/sim"
	"github.com/sarchlab/akita/v4/sim/directconnection"
	"github.com/sarchlab/akita/v4/simulation"
	"github.com/sarchlab/mgpusim/v4/amd/insts"
	"github.com/sarchlab/mgpusim/v4/amd/kernels"
	"github.com/sarchlab/mgpusim/v4/amd/protocol"
	"github.com/sarchlab/mgpusim/v4/amd/samples/runner/timingconfig/mi300a"
	"github.com/sarchlab/mgpusim/v4/amd/timing/cu"
)

type fakeDriver struct {
	*sim.TickingComponent
	port sim.Port
	out  []sim.Msg
}

func (d *fakeDriver) Tick() bool {
	progress := false

	for d.port.RetrieveIncoming() != nil {
		progress = true
	}

	for len(d.out) > 0 {
		if err := d.port.Send(d.out[0]); err != nil {
			break
		}

		d.out = d.out[1:]
		progress = true
	}

	return progress
}

// blackHole stands where the MMU would be and never answers, so that the
// wavefronts never get an instruction and stay resident.
type blackHole struct {
	*sim.TickingComponent
	port sim.Port
}

func (b *blackHole) Tick() bool {
	progress := false
	for b.port.RetrieveIncoming() != nil {
		progress = true
	}

	return progress
}

// mapRecorder records the MapWGReqs that the compute unit takes from its
// dispatching port.
type mapRecorder struct {
	reqs []*protocol.MapWGReq
}

func (r *mapRecorder) Func(ctx sim.HookCtx) {
	if ctx.Pos != sim.HookPosPortMsgRetrieveIncoming {
		return
	}

	if req, ok := ctx.Item.(*protocol.MapWGReq); ok {
		r.reqs = append(r.reqs, req)
	}
}

func TestMI300AResidentWavefrontsKeepTheirVGPRs(t *testing.T) {
	run(t, 64)
}

// Control: with 32 VGPRs per wavefront the 8 wavefronts of a SIMD need 256
// VGPRs per lane, every VGPROffset stays below the 1024-byte lane stride and
// the same check passes.
func TestControlSmallKernel(t *testing.T) {
	run(t, 32)
}

func run(t *testing.T, vgprsPerWavefront uint16) {
	s := simulation.MakeBuilder().WithoutMonitoring().
		WithOutputFileName(t.TempDir() + "/rec").Build()
	engine := s.GetEngine()

	pageTable := vm.NewPageTable(12)
	mmuComp := mmu.MakeBuilder().
		WithEngine(engine).WithFreq(1 * sim.GHz).
		WithLog2PageSize(12).WithPageTable(pageTable).Build("MMU")

	rdmaMapper := new(mem.BankedAddressPortMapper)
	rdmaMapper.BankSize = 4 * mem.GB
	rdmaMapper.LowModules = append(rdmaMapper.LowModules,
		sim.RemotePort("CPU"))

	gpu := mi300a.MakeBuilder().
		WithSimulation(s).
		WithMMU(mmuComp).
		WithLog2PageSize(12).
		WithGlobalStorage(mem.NewStorage(8 * mem.GB)).
		WithNumShaderArray(1).
		WithNumCUPerShaderArray(1).
		WithGPUID(1).
		WithMemAddrOffset(4 * mem.GB).
		WithRDMAAddressMapper(rdmaMapper).
		Build("GPU[1]")

	var theCU *cu.ComputeUnit
	for _, c := range s.Components() {
		if u, ok := c.(*cu.ComputeUnit); ok {
			theCU = u
		}
	}

	if theCU == nil {
		t.Fatal("no compute unit in the MI300A GPU")
	}

	rec := &mapRecorder{}
	theCU.ToACE.AcceptHook(rec)

	d := &fakeDriver{}
	d.TickingComponent = sim.NewTickingComponent(
		"TestDriver", engine, 1*sim.GHz, d)
	d.port = sim.NewPort(d, 16, 16, "TestDriver.GPU")

	hole := &blackHole{}
	hole.TickingComponent = sim.NewTickingComponent(
		"BlackHole", engine, 1*sim.GHz, hole)
	// The L2 TLB sends its misses to the MMU's Top port by name.
	hole.port = sim.NewPort(hole, 1024, 1024,
		string(mmuComp.GetPortByName("Top").AsRemote()))

	conn := directconnection.MakeBuilder().
		WithEngine(engine).WithFreq(1 * sim.GHz).Build("OutsideConn")
	conn.PlugIn(d.port)
	conn.PlugIn(gpu.GetPortByName("CommandProcessor"))
	conn.PlugIn(gpu.GetPortByName("Translation_00"))
	conn.PlugIn(hole.port)

	co := &insts.KernelCodeObject{
		KernelCodeObjectMeta: &insts.KernelCodeObjectMeta{},
	}
	co.WFSgprCount = 16
	co.WIVgprCount = vgprsPerWavefront

	const numWG = 32
	pkt := &kernels.HsaKernelDispatchPacket{
		WorkgroupSizeX: 64, WorkgroupSizeY: 1, WorkgroupSizeZ: 1,
		GridSizeX: 64 * numWG, GridSizeY: 1, GridSizeZ: 1,
		KernelObject: 0x10000,
	}
	req := protocol.NewLaunchKernelReq(
		d.port, gpu.GetPortByName("CommandProcessor"))
	req.PID = 1
	req.CodeObject = co
	req.Packet = pkt
	d.out = append(d.out, req)
	d.TickLater()

	_ = engine.Run()

	if len(rec.reqs) != numWG {
		t.Fatalf("expected all %d work-groups to be resident on the CU "+
			"(8 wavefront slots and 512 VGPRs per SIMD were announced), "+
			"got %d", numWG, len(rec.reqs))
	}

	for i, vrf := range theCU.VRegFile {
		stride := vrf.(*cu.SimpleRegisterFile).ByteSizePerLane
		t.Logf("SIMD %d: lane stride of the register file: %d bytes "+
			"(%d VGPRs per lane)", i, stride, stride/4)
	}

	bad := 0
	for n, m := range rec.reqs {
		loc := m.Wavefronts[0]
		for lane := 0; lane < 64; lane++ {
			buf := make([]byte, 4)
			theCU.VRegFile[loc.SIMDID].Read(cu.RegisterAccess{
				Reg:        insts.VReg(0),
				RegCount:   1,
				LaneID:     lane,
				WaveOffset: loc.VGPROffset,
				Data:       buf,
			})

			got := insts.BytesToUint32(buf)
			if got != uint32(lane) {
				bad++
				if bad <= 5 {
					t.Errorf("work-group %d (SIMD %d, VGPROffset %d, "+
						"needs %d bytes per lane) is resident and has not "+
						"executed anything, so v0 of lane %d must still be "+
						"the work-item id %d; the register file returns %d: "+
						"another resident wavefront's VGPR allocation "+
						"overlaps it",
						n, loc.SIMDID, loc.VGPROffset, co.WIVgprCount*4,
						lane, lane, got)
				}
			}
		}
	}

	if bad > 0 {
		t.Errorf("%d of %d v0 lane values of resident wavefronts were "+
			"overwritten by other resident wavefronts", bad, numWG*64)
	}
}
