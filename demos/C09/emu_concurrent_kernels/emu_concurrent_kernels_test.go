// Copy this directory to <tree>/c19demo/<name>/ and run from the tree root:
//
//	export PATH=/opt/veriftools/go1.26.8/bin:$PATH GOTOOLCHAIN=local GOFLAGS=-mod=mod GOPROXY=off GOSUMDB=off
//	go test ./c19demo/emu_concurrent_kernels/ -run TestTwoKernelsOnTheEmulationGPU -v
//
// (TestControlOneKernel in the same file is the passing control.)
//
// Property C09: "The kernel-completion response is sent exactly once, after
// every work-group has completed, for any number of units, concurrent kernels
// and completion order."
//
// The emulation GPU (amd/samples/runner/emusystem/emugpu) is built with the
// real builder: the timing command processor with its 8 dispatchers in front
// of 64 emulation compute units. Two kernels (one work-group each, the program
// is a single s_endpgm) are launched back to back, as two command queues of
// one process would do. Each kernel is taken by its own dispatcher; both
// dispatchers start their round robin at CU 0.
//
// emu.ComputeUnit.handleWGCompleteEvent collects the ids of ALL finished
// MapWGReqs of the unit in one WGCompletionMsg (it waits until the unit is
// empty). The message therefore names work-groups of two dispatchers, and
// DispatcherImpl.processMessagesFromCU panics ("In emulation all finished WGs
// from more than one dispatcher") instead of accounting each work-group to the
// kernel it belongs to. No kernel-completion response is ever sent.
package emu_concurrent_kernels

import (
	"testing"

	"github.com/sarchlab/akita/v4/mem/mem"
	"github.com/sarchlab/akita/v4/mem/vm"
	"github.com/sarchlab/akita/v4/sim"
	"github.com/sarchlab/akita/v4/sim/directconnection"
	"github.com/sarchlab/akita/v4/simulation"
	"github.com/sarchlab/mgpusim/v4/amd/driver"
	"github.com/sarchlab/mgpusim/v4/amd/insts"
	"github.com/sarchlab/mgpusim/v4/amd/kernels"
	"github.com/sarchlab/mgpusim/v4/amd/protocol"
	"github.com/sarchlab/mgpusim/v4/amd/samples/runner/emusystem/emugpu"
)

// fakeDriver sends the launch requests and collects the responses.
type fakeDriver struct {
	*sim.TickingComponent
	port sim.Port
	out  []sim.Msg
	rsps []*protocol.LaunchKernelRsp
}

func (d *fakeDriver) Tick() bool {
	progress := false

	for {
		msg := d.port.RetrieveIncoming()
		if msg == nil {
			break
		}

		if rsp, ok := msg.(*protocol.LaunchKernelRsp); ok {
			d.rsps = append(d.rsps, rsp)
		}

		progress = true
	}

	for len(d.out) > 0 {
		if err := d.port.Send(d.out[0]); err != nil {
			break
		}

		d.out = d.out[1:]
		progress = true
	}

	return progress
}

const (
	pid      = vm.PID(1)
	codeAddr = uint64(0x10000)
)

func TestTwoKernelsOnTheEmulationGPU(t *testing.T) {
	run(t, 2)
}

// Control: one kernel alone gets its response.
func TestControlOneKernel(t *testing.T) {
	run(t, 1)
}

func run(t *testing.T, numKernels int) {
	s := simulation.MakeBuilder().WithoutMonitoring().
		WithOutputFileName(t.TempDir() + "/rec").Build()
	engine := s.GetEngine()

	pageTable := vm.NewPageTable(12)
	storage := mem.NewStorage(1 * mem.MB)

	// The whole program: s_endpgm.
	if err := storage.Write(codeAddr,
		[]byte{0x00, 0x00, 0x81, 0xBF, 0x00, 0x00, 0x81, 0xBF}); err != nil {
		t.Fatal(err)
	}

	pageTable.Insert(vm.Page{
		PID: pid, VAddr: codeAddr, PAddr: codeAddr, PageSize: 4096,
		Valid: true,
	})

	// The emulation GPU builder wants the real driver for its port name only.
	realDriver := driver.MakeBuilder().
		WithEngine(engine).
		WithPageTable(pageTable).
		WithLog2PageSize(12).
		WithGlobalStorage(storage).
		Build("Driver")

	gpu := emugpu.MakeBuilder().
		WithSimulation(s).
		WithDriver(realDriver).
		WithPageTable(pageTable).
		WithLog2PageSize(12).
		WithStorage(storage).
		Build("GPU[1]")

	d := &fakeDriver{}
	d.TickingComponent = sim.NewTickingComponent(
		"TestDriver", engine, 1*sim.GHz, d)
	d.port = sim.NewPort(d, 16, 16, "TestDriver.GPU")

	conn := directconnection.MakeBuilder().
		WithEngine(engine).WithFreq(1 * sim.GHz).Build("DriverGPUConn")
	conn.PlugIn(d.port)
	conn.PlugIn(gpu.GetPortByName("CommandProcessor"))

	co := &insts.KernelCodeObject{
		KernelCodeObjectMeta: &insts.KernelCodeObjectMeta{},
	}
	co.WFSgprCount = 16
	co.WIVgprCount = 4

	var reqs []*protocol.LaunchKernelReq
	for i := 0; i < numKernels; i++ {
		pkt := &kernels.HsaKernelDispatchPacket{
			WorkgroupSizeX: 64, WorkgroupSizeY: 1, WorkgroupSizeZ: 1,
			GridSizeX: 64, GridSizeY: 1, GridSizeZ: 1,
			KernelObject: codeAddr,
		}
		req := protocol.NewLaunchKernelReq(
			d.port, gpu.GetPortByName("CommandProcessor"))
		req.PID = pid
		req.CodeObject = co
		req.Packet = pkt
		reqs = append(reqs, req)
		d.out = append(d.out, req)
	}

	d.TickLater()

	var panicked interface{}
	func() {
		defer func() { panicked = recover() }()
		_ = engine.Run()
	}()

	if panicked != nil {
		t.Fatalf("two kernels that run concurrently on the emulation GPU "+
			"must each get exactly one LaunchKernelRsp after their "+
			"work-group completed; instead the simulation panicked while "+
			"the dispatcher processed the WGCompletionMsg of CU 0: %v "+
			"(responses delivered before the panic: %d)",
			panicked, len(d.rsps))
	}

	count := map[string]int{}
	for _, rsp := range d.rsps {
		count[rsp.RspTo]++
	}

	for i, req := range reqs {
		if count[req.ID] != 1 {
			t.Errorf("kernel %d: want exactly 1 LaunchKernelRsp, got %d",
				i, count[req.ID])
		}
	}

	t.Logf("responses: %d", len(d.rsps))
}
