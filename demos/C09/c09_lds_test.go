package resource

// Demonstration for C09: LDS accounting with dynamic local memory.
//   cp c09_lds_test.go <tree>/amd/timing/cp/internal/resource/ && go test -run TestC09 ./amd/timing/cp/internal/resource/

import (
	"testing"

	"github.com/sarchlab/mgpusim/v4/amd/insts"
	"github.com/sarchlab/mgpusim/v4/amd/kernels"
)

func TestC09DynamicLDSIsAccounted(t *testing.T) {
	r := &CUResourceImpl{
		wfPoolFreeCount: []int{10, 10, 10, 10},
		sregCount:       3200, sregGranularity: 16, sregMask: newResourceMask(3200 / 16),
		vregCounts: []int{256, 256, 256, 256}, vregGranularity: 4,
		vregMasks:   []resourceMask{newResourceMask(64), newResourceMask(64), newResourceMask(64), newResourceMask(64)},
		ldsByteSize: 64 * 1024, ldsGranularity: 256, ldsMask: newResourceMask(64 * 1024 / 256),
		reservedWGs: make(map[*kernels.WorkGroup][]WfLocation),
	}
	co := &insts.KernelCodeObject{KernelCodeObjectMeta: &insts.KernelCodeObjectMeta{}}
	co.WFSgprCount, co.WIVgprCount = 16, 4
	// the kernel declares no static LDS; each work-group gets 40 KB through a LocalPtr argument
	packet := &kernels.HsaKernelDispatchPacket{GroupSegmentSize: 40 * 1024}
	resident := 0
	for i := 0; i < 4; i++ {
		wg := kernels.NewWorkGroup()
		wg.Wavefronts = append(wg.Wavefronts, kernels.NewWavefront())
		wg.CodeObject, wg.Packet = co, packet
		if _, ok := r.ReserveResourceForWG(wg); ok {
			resident++
		}
	}
	if resident*40*1024 > 64*1024 {
		t.Errorf("%d work-groups of 40 KB LDS each are resident on a compute unit with 64 KB of LDS", resident)
	}
}
