// Copy this directory to <tree>/c19demo/<name>/ and run from the tree root:
//
//	export PATH=/opt/veriftools/go1.26.8/bin:$PATH GOTOOLCHAIN=local GOFLAGS=-mod=mod GOPROXY=off GOSUMDB=off
//	go test ./c19demo/cu_reports_fixed_capacity/ -run TestCUWithSmallerWavefrontPools -v
//
// Property C09: "every work-group is mapped to a compute unit ... only when
// that unit has free wavefront slots ...; the resources of simultaneously
// resident work-groups never ... exceed the unit's capacity".
//
// cu.ComputeUnit implements cp.CUInterfaceForCP, and cp.Builder.WithCU /
// CommandProcessor.RegisterCU read the capacity of the unit through it. But
// ComputeUnit.WfPoolSizes, VRegCounts, SRegCount and LDSBytes return the
// constants {10,10,10,10}, {16384 x4}, 3200 and 64 KB whatever the unit was
// built with (cu.Builder.WithWfPoolSize / WithVGPRCount / WithSGPRCount). A
// compute unit built with 8 wavefront slots per SIMD (the MI300A value)
// therefore announces 10, and the command processor keeps 10 wavefronts
// resident in a pool of 8.
//
// The instruction memory never answers, so the wavefronts never finish.
package cu_reports_fixed_capacity

import (
	"testing"

	"github.com/sarchlab/akita/v4/mem/mem"
	"github.com/sarchlab/akita/v4/sim"
	"github.com/sarchlab/akita/v4/sim/directconnection"
	"github.com/sarchlab/mgpusim/v4/amd/insts"
	"github.com/sarchlab/mgpusim/v4/amd/kernels"
	"github.com/sarchlab/mgpusim/v4/amd/protocol"
	"github.com/sarchlab/mgpusim/v4/amd/timing/cp"
	"github.com/sarchlab/mgpusim/v4/amd/timing/cu"
)

// endpoint swallows everything it receives and sends what the test queues.
type endpoint struct {
	*sim.TickingComponent
	port sim.Port
	out  []sim.Msg
}

func newEndpoint(name string, engine sim.Engine) *endpoint {
	e := &endpoint{}
	e.TickingComponent = sim.NewTickingComponent(name, engine, 1*sim.GHz, e)
	e.port = sim.NewPort(e, 1024, 1024, name+".Port")

	return e
}

func (e *endpoint) Tick() bool {
	progress := false
	for e.port.RetrieveIncoming() != nil {
		progress = true
	}

	for len(e.out) > 0 {
		if err := e.port.Send(e.out[0]); err != nil {
			break
		}

		e.out = e.out[1:]
		progress = true
	}

	return progress
}

func TestCUWithSmallerWavefrontPools(t *testing.T) {
	engine := sim.NewSerialEngine()
	driver := newEndpoint("Driver", engine)
	blackHoleMem := newEndpoint("Mem", engine)

	const slotsPerSIMD = 8

	theCU := cu.MakeBuilder().
		WithEngine(engine).
		WithFreq(1 * sim.GHz).
		WithWfPoolSize(slotsPerSIMD).
		Build("CU")
	theCU.InstMem = blackHoleMem.port
	theCU.ScalarMem = blackHoleMem.port
	theCU.VectorMemModules = &mem.SinglePortMapper{
		Port: blackHoleMem.port.AsRemote(),
	}

	for i, n := range theCU.WfPoolSizes() {
		if n != theCU.WfPools[i].Capacity {
			t.Errorf("SIMD %d: the compute unit has %d wavefront slots but "+
				"announces %d to the command processor",
				i, theCU.WfPools[i].Capacity, n)
		}
	}

	theCP := cp.MakeBuilder().
		WithEngine(engine).
		WithFreq(1 * sim.GHz).
		WithCU(theCU).
		Build("CP")
	theCP.Driver = driver.port

	conn := directconnection.MakeBuilder().
		WithEngine(engine).WithFreq(1 * sim.GHz).Build("Conn")
	conn.PlugIn(driver.port)
	conn.PlugIn(blackHoleMem.port)
	conn.PlugIn(theCP.ToDriver)
	conn.PlugIn(theCP.ToCUs)
	conn.PlugIn(theCU.ToACE)
	conn.PlugIn(theCU.ToCP)
	conn.PlugIn(theCU.ToInstMem)
	conn.PlugIn(theCU.ToScalarMem)
	conn.PlugIn(theCU.ToVectorMem)

	co := &insts.KernelCodeObject{
		KernelCodeObjectMeta: &insts.KernelCodeObjectMeta{},
	}
	co.WFSgprCount = 16
	co.WIVgprCount = 4

	const numWG = 64 // one wavefront each, far more than the 32 slots
	req := protocol.NewLaunchKernelReq(driver.port, theCP.ToDriver)
	req.PID = 1
	req.CodeObject = co
	req.Packet = &kernels.HsaKernelDispatchPacket{
		WorkgroupSizeX: 64, WorkgroupSizeY: 1, WorkgroupSizeZ: 1,
		GridSizeX: 64 * numWG, GridSizeY: 1, GridSizeZ: 1,
		KernelObject: 0x10000,
	}
	driver.out = append(driver.out, req)
	driver.TickLater()

	_ = engine.Run()

	for i, pool := range theCU.WfPools {
		resident := pool.Capacity - pool.Availability()
		t.Logf("SIMD %d: %d wavefronts resident, %d slots",
			i, resident, pool.Capacity)

		if resident > pool.Capacity {
			t.Errorf("SIMD %d of the compute unit has %d wavefront slots; "+
				"no work-group may be mapped to it unless a slot is free, "+
				"but %d wavefronts are resident at the same time",
				i, pool.Capacity, resident)
		}
	}
}
