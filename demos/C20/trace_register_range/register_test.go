// Copy this directory to <tree>/c20demo/<name>/ and run from the tree root:
//   export PATH=/opt/veriftools/go1.26.8/bin:$PATH GOTOOLCHAIN=local GOFLAGS=-mod=mod GOPROXY=off GOSUMDB=off
//   go test ./c20demo/trace_register_range/ -run . -v
//
// Defect: nvidiaconfig.registerTable (register.go, init) only contains R0..R31
// and R255; nvidiaconfig.NewRegister panics ("Unknown register") for anything
// else. tracereader.extractInst calls NewRegister for every destination and
// source register, so a kernel that uses R32..R254 (any kernel with
// "-nregs" above 32; the architectural range is R0..R254 plus RZ=R255) cannot be
// loaded at all: ReadTrace / BenchmarkBuilder.Build panic and none of the
// trace's kernels, blocks, warps or instructions is ever executed.
package trace_register_range

import (
	"fmt"
	"testing"

	log "github.com/sirupsen/logrus"

	"github.com/sarchlab/mgpusim/v4/nvidia/tracereader"
)

func TestRegistersAbove31(t *testing.T) {
	dir := writeTrace(t, header(64, "5", "0")+oneWarp(
		"0000 ffffffff 1 R1 MOV 0 0 0 ",
		"0010 ffffffff 1 R40 IMAD 2 R33 R254 0 0 ",
		"0020 ffffffff 0 EXIT 0 0 0 ",
	))

	var tr tracereader.KernelTrace
	var panicked interface{}
	func() {
		defer func() { panicked = recover() }()
		tr = readDir(t, dir)
	}()

	if e, ok := panicked.(*log.Entry); ok {
		panicked = fmt.Sprintf("%s %v", e.Message, e.Data)
	}
	if panicked != nil {
		t.Fatalf("a well-formed trace of a kernel with nregs=64 must be parsed (1 block, 1 warp, 3 instructions); "+
			"ReadTrace panicked instead: %v", fmt.Sprint(panicked))
	}

	if tr.ThreadblocksCount() != 1 || tr.Threadblock(0).WarpsCount() != 1 ||
		tr.Threadblock(0).Warp(0).InstructionsCount() != 3 {
		t.Fatalf("expected 1 block / 1 warp / 3 instructions")
	}
	in := tr.Threadblock(0).Warp(0).Instructions[1]
	if in.DestRegs[0].ID() != 40 || in.SrcRegs[0].ID() != 33 || in.SrcRegs[1].ID() != 254 {
		t.Errorf("registers R40 <- R33, R254 expected, got %v <- %v, %v", in.DestRegs[0], in.SrcRegs[0], in.SrcRegs[1])
	}
}
