package trace_delta_width

import (
	"io"
	"os"
	"path/filepath"
	"testing"

	log "github.com/sirupsen/logrus"

	"github.com/sarchlab/mgpusim/v4/nvidia/nvidiaconfig"
	"github.com/sarchlab/mgpusim/v4/nvidia/tracereader"
)

// header returns a kernel trace header as written by the Accel-Sim tracer.
func header(nregs int, version string, lineinfo string) string {
	h := "-kernel name = k\n" +
		"-kernel id = 1\n" +
		"-grid dim = (1,1,1)\n" +
		"-block dim = (32,1,1)\n" +
		"-shmem = 0\n" +
		"-nregs = " + itoa(nregs) + "\n" +
		"-binary version = 80\n" +
		"-cuda stream id = 0\n" +
		"-shmem base_addr = 0x00007fb139000000\n" +
		"-local mem base_addr = 0x00007fb137000000\n" +
		"-nvbit version = 1.7\n" +
		"-accelsim tracer version = " + version + "\n"
	if lineinfo != "" {
		h += "-enable lineinfo = " + lineinfo + "\n"
	}
	return h + "\n#traces format = [line_num] PC mask dest_num [reg_dests] opcode src_num [reg_srcs] " +
		"mem_width [adrrescompress?] [mem_addresses] immediate\n\n"
}

func itoa(n int) string {
	if n == 0 {
		return "0"
	}
	s := ""
	for n > 0 {
		s = string(rune('0'+n%10)) + s
		n /= 10
	}
	return s
}

// oneWarp wraps instruction lines into a single block / single warp body.
func oneWarp(lines ...string) string {
	body := "#BEGIN_TB\n\nthread block = 0,0,0\n\nwarp = 0\ninsts = " + itoa(len(lines)) + "\n"
	for _, l := range lines {
		body += l + "\n"
	}
	return body + "\n#END_TB\n"
}

func writeTrace(t *testing.T, content string) string {
	t.Helper()
	dir := t.TempDir()
	if err := os.WriteFile(filepath.Join(dir, "kernelslist.g"), []byte("kernel-1.traceg\n"), 0o644); err != nil {
		t.Fatal(err)
	}
	if err := os.WriteFile(filepath.Join(dir, "kernel-1.traceg"), []byte(content), 0o644); err != nil {
		t.Fatal(err)
	}
	return dir
}

func readDir(t *testing.T, dir string) tracereader.KernelTrace {
	t.Helper()
	log.SetOutput(io.Discard)
	r := new(tracereader.TraceReaderBuilder).WithTraceDirectory(dir).Build()
	for _, m := range r.GetExecMetas() {
		if m.ExecType() == nvidiaconfig.ExecKernel {
			return tracereader.ReadTrace(m)
		}
	}
	t.Fatal("no kernel in trace directory")
	return tracereader.KernelTrace{}
}
