// Copy this directory to <tree>/c20demo/<name>/ and run from the tree root:
//   export PATH=/opt/veriftools/go1.26.8/bin:$PATH GOTOOLCHAIN=local GOFLAGS=-mod=mod GOPROXY=off GOSUMDB=off
//   go test ./c20demo/trace_delta_width/ -run . -v
//
// Defect: in address form 2 (base + per-lane deltas) tracereader.updateInstMemoryPart
// converts each delta with strconv.Atoi (error ignored) and stores int32(delta)
// into MemAddressSuffix2 []int32. The tracer writes the deltas as 64-bit
// differences between the addresses of consecutive active lanes; a difference of
// 2 GiB or more (two lanes touching distant allocations on a 40/80 GB device) is
// silently truncated, so the lane addresses reconstructed from the parsed
// instruction are wrong. (Form 1 has the same limit: the stride is scanned with
// %d into an int32 and an out-of-range value is silently left at 0.)
package trace_delta_width

import (
	"fmt"
	"testing"
)

func TestWideDeltas(t *testing.T) {
	// three active lanes: base, base+4 GiB, base+4 GiB-8 GiB
	deltas := []int64{4294967296, -8589934592}
	line := fmt.Sprintf("00a0 00000007 1 R4 LDG.E 1 R4 4 2 0x7f0000001000 %d %d 0 ", deltas[0], deltas[1])
	tr := readDir(t, writeTrace(t, header(12, "5", "0")+oneWarp(line)))
	inst := tr.Threadblock(0).Warp(0).Instructions[0]

	if inst.AddressCompress != 2 || len(inst.MemAddressSuffix2) != 2 {
		t.Fatalf("unexpected parse: %+v", *inst)
	}
	for i, d := range deltas {
		if int64(inst.MemAddressSuffix2[i]) != d {
			t.Errorf("delta %d: the trace line says %d, the parsed instruction says %d "+
				"(parsing must return what was serialised)", i, d, int64(inst.MemAddressSuffix2[i]))
		}
	}
}
