// Copy this directory to <tree>/c20demo/<name>/ and run from the tree root:
//   export PATH=/opt/veriftools/go1.26.8/bin:$PATH GOTOOLCHAIN=local GOFLAGS=-mod=mod GOPROXY=off GOSUMDB=off
//   go test ./c20demo/newdriver_nil_map/ -run . -v
//
// Defect: the package exports two constructors for the driver.
// DriverBuilder.Build initialises Driver.devices (make(map[string]*gpu.GPU));
// its sibling driver.NewDriver does not. Driver.RegisterGPU writes
// d.devices[gpu.ID] = gpu, so a driver obtained from NewDriver panics
// ("assignment to entry in nil map") on the first device that is registered -
// no platform shape can be built on it, and no kernel can run.
package newdriver_nil_map

import (
	"io"
	"testing"

	log "github.com/sirupsen/logrus"

	"github.com/sarchlab/akita/v4/sim"
	"github.com/sarchlab/mgpusim/v4/nvidia/driver"
	"github.com/sarchlab/mgpusim/v4/nvidia/gpu"
)

func TestNewDriverCanRegisterADevice(t *testing.T) {
	log.SetOutput(io.Discard)
	engine := sim.NewSerialEngine()
	d := driver.NewDriver("Driver", engine, 1*sim.GHz)
	g := new(gpu.GPUBuilder).WithEngine(engine).WithFreq(1 * sim.GHz).
		WithSMsCount(1).WithSubcoresCountPerSM(1).Build("GPU(0)")

	defer func() {
		if r := recover(); r != nil {
			t.Fatalf("a driver built by the exported constructor NewDriver must accept devices like the one built "+
				"by DriverBuilder does; RegisterGPU panicked: %v", r)
		}
	}()
	d.RegisterGPU(g)
}
