// Copy this directory to <tree>/c20demo/<name>/ and run from the tree root:
//   export PATH=/opt/veriftools/go1.26.8/bin:$PATH GOTOOLCHAIN=local GOFLAGS=-mod=mod GOPROXY=off GOSUMDB=off
//   go test ./c20demo/sm_insts_count/ -run . -v
//
// Defect: sm.SM has an instsCount field and a public accessor
// SM.GetTotalInstsCount() next to GetTotalWarpsCount(). processSMMsg maintains
// warpsCount (s.warpsCount++ per warp) but nothing ever adds to instsCount - the
// state is updated at only one of the two cooperating counters. The SM-level
// instruction total therefore reads 0 after any run, whatever the trace
// contained (the shipped test has the corresponding line commented out:
// "// totalInstsCount += sm.GetTotalInstsCount()").
package sm_insts_count

import (
	"fmt"
	"io"
	"testing"

	log "github.com/sirupsen/logrus"

	"github.com/sarchlab/akita/v4/sim"
	"github.com/sarchlab/mgpusim/v4/nvidia/benchmark"
	"github.com/sarchlab/mgpusim/v4/nvidia/driver"
	"github.com/sarchlab/mgpusim/v4/nvidia/gpu"
	"github.com/sarchlab/mgpusim/v4/nvidia/nvidiaconfig"
	"github.com/sarchlab/mgpusim/v4/nvidia/platform"
	"github.com/sarchlab/mgpusim/v4/nvidia/runner"
)

func buildPlatform(devs, sms, subs int) *platform.Platform {
	p := new(platform.Platform)
	p.Engine = sim.NewSerialEngine()
	p.Driver = new(driver.DriverBuilder).WithEngine(p.Engine).WithFreq(1 * sim.GHz).Build("Driver")
	gb := new(gpu.GPUBuilder).WithEngine(p.Engine).WithFreq(1 * sim.GHz).
		WithSMsCount(int64(sms)).WithSubcoresCountPerSM(int64(subs))
	for i := 0; i < devs; i++ {
		g := gb.Build(fmt.Sprintf("GPU(%d)", i))
		p.Driver.RegisterGPU(g)
		p.Devices = append(p.Devices, g)
	}
	return p
}

func TestSMInstructionTotal(t *testing.T) {
	log.SetOutput(io.Discard)
	// 2 kernels x 3 blocks x 5 warps x 7 instructions on 2 devices x 2 SMs x 2 sub-cores
	warp := nvidiaconfig.Warp{InstructionsCount: 7, Instructions: make([]nvidiaconfig.Instruction, 7)}
	tb := nvidiaconfig.Threadblock{}
	for i := 0; i < 5; i++ {
		tb.Warps = append(tb.Warps, warp)
		tb.WarpsCount++
	}
	k := nvidiaconfig.Kernel{}
	for i := 0; i < 3; i++ {
		k.Threadblocks = append(k.Threadblocks, tb)
		k.ThreadblocksCount++
	}
	bm := new(benchmark.Benchmark)
	for i := 0; i < 2; i++ {
		e := new(benchmark.ExecKernel)
		e.SetKernel(k)
		bm.TraceExecs = append(bm.TraceExecs, e)
	}
	const wantWarps, wantInsts = 2 * 3 * 5, 2 * 3 * 5 * 7

	p := buildPlatform(2, 2, 2)
	r := new(runner.RunnerBuilder).WithPlatform(p).Build()
	r.AddBenchmark(bm)
	r.Run()

	var smWarps, smInsts, subcoreInsts int64
	for _, g := range p.Devices {
		for _, s := range g.SMs {
			smWarps += s.GetTotalWarpsCount()
			smInsts += s.GetTotalInstsCount()
			for _, sc := range s.Subcores {
				subcoreInsts += sc.GetTotalInstsCount()
			}
		}
	}

	if smWarps != wantWarps || subcoreInsts != wantInsts {
		t.Fatalf("warp / sub-core totals off: warps %d (want %d), sub-core insts %d (want %d)",
			smWarps, wantWarps, subcoreInsts, wantInsts)
	}
	if smInsts != wantInsts {
		t.Errorf("the trace holds %d instructions and the sub-cores executed %d, but the SMs report "+
			"GetTotalInstsCount() = %d in total: the number of instructions executed must equal the number in the trace "+
			"at every level that reports it", wantInsts, subcoreInsts, smInsts)
	}
}
