// Copy this directory to <tree>/c20demo/<name>/ and run from the tree root:
//   export PATH=/opt/veriftools/go1.26.8/bin:$PATH GOTOOLCHAIN=local GOFLAGS=-mod=mod GOPROXY=off GOSUMDB=off
//   go test ./c20demo/trace_listall_addresses/ -run . -v
//
// Defect: tracereader.updateInstMemoryPart handles address-compression forms 1
// (base+stride) and 2 (base+deltas) but has no branch for form 0 ("list all":
// one explicit address per active lane, the form the tracer falls back to when
// neither compression applies). For form 0 only elems[2] - the first address -
// is looked at; every other per-lane address of the instruction is dropped and
// cannot be recovered from the parsed Instruction.
package trace_listall_addresses

import (
	"fmt"
	"strings"
	"testing"
)

func TestListAllFormKeepsEveryLaneAddress(t *testing.T) {
	// mask 0x80000001: lanes 0 and 31 active -> two addresses, form 0.
	const a0 = int64(0x7f0000001000)
	const a1 = int64(0x7f0000209040)
	line := fmt.Sprintf("00a0 80000001 1 R4 LDG.E 1 R4 4 0 0x%x 0x%x 0 ", a0, a1)
	dir := writeTrace(t, header(12, "5", "0")+oneWarp(line))

	tr := readDir(t, dir)
	inst := tr.Threadblock(0).Warp(0).Instructions[0]
	if inst.MemWidth != 4 || inst.AddressCompress != 0 {
		t.Fatalf("unexpected parse: %+v", *inst)
	}

	// Accept any representation of the second address: absolute or relative to
	// the first one, decimal or hex.
	dump := fmt.Sprintf("%+v | %x", *inst, *inst)
	candidates := []string{
		fmt.Sprintf("%d", a1), fmt.Sprintf("%x", a1),
		fmt.Sprintf("%d", a1-a0), fmt.Sprintf("%x", a1-a0),
	}
	found := false
	for _, c := range candidates {
		if strings.Contains(dump, c) {
			found = true
		}
	}
	if !found {
		t.Errorf("the line lists two lane addresses (0x%x, 0x%x) in address form 0; the parsed instruction must "+
			"carry both, but the second one is nowhere in it: %+v", a0, a1, *inst)
	}
}
