// Copy this directory to <tree>/c20demo/<name>/ and run from the tree root:
//   export PATH=/opt/veriftools/go1.26.8/bin:$PATH GOTOOLCHAIN=local GOFLAGS=-mod=mod GOPROXY=off GOSUMDB=off
//   go test ./c20demo/trace_memaddress_hex/ -run . -v
//
// Defect: tracereader.updateInstMemoryPart scans the base address with
// fmt.Sscanf(elems[2], "%x", &inst.MemAddress). The tracer writes addresses
// with a "0x" prefix ("0x7fb0fc430e00"); Go's %x scan verb does not accept a
// base prefix, so it reads the leading "0", stops at 'x' and reports success.
// Every memory instruction of every trace is parsed with MemAddress == 0.
package trace_memaddress_hex

import (
	"io"
	"os"
	"path/filepath"
	"testing"

	log "github.com/sirupsen/logrus"

	"github.com/sarchlab/mgpusim/v4/nvidia/nvidiaconfig"
	"github.com/sarchlab/mgpusim/v4/nvidia/tracereader"
)

const header = `-kernel name = k
-kernel id = 1
-grid dim = (1,1,1)
-block dim = (32,1,1)
-shmem = 0
-nregs = 12
-binary version = 80
-cuda stream id = 0
-shmem base_addr = 0x00007fb139000000
-local mem base_addr = 0x00007fb137000000
-nvbit version = 1.7
-accelsim tracer version = 5
-enable lineinfo = 0

#traces format = [line_num] PC mask dest_num [reg_dests] opcode src_num [reg_srcs] mem_width [adrrescompress?] [mem_addresses] immediate

`

func readDir(t *testing.T, dir string) tracereader.KernelTrace {
	t.Helper()
	log.SetOutput(io.Discard)
	r := new(tracereader.TraceReaderBuilder).WithTraceDirectory(dir).Build()
	for _, m := range r.GetExecMetas() {
		if m.ExecType() == nvidiaconfig.ExecKernel {
			return tracereader.ReadTrace(m)
		}
	}
	t.Fatal("no kernel in trace directory")
	return tracereader.KernelTrace{}
}

func writeTrace(t *testing.T, body string) string {
	t.Helper()
	dir := t.TempDir()
	must(t, os.WriteFile(filepath.Join(dir, "kernelslist.g"), []byte("kernel-1.traceg\n"), 0o644))
	must(t, os.WriteFile(filepath.Join(dir, "kernel-1.traceg"), []byte(header+body), 0o644))
	return dir
}

func must(t *testing.T, err error) {
	t.Helper()
	if err != nil {
		t.Fatal(err)
	}
}

// Synthetic one-instruction trace, base+stride form (the form used by the
// recorded example).
func TestBaseAddressOfSyntheticTrace(t *testing.T) {
	dir := writeTrace(t, `#BEGIN_TB

thread block = 0,0,0

warp = 0
insts = 1
00a0 ffffffff 1 R4 LDG.E 1 R4 4 1 0x7fb0fc430e00 4 0 

#END_TB
`)
	tr := readDir(t, dir)
	inst := tr.Threadblock(0).Warp(0).Instructions[0]

	if inst.MemWidth != 4 || inst.AddressCompress != 1 || inst.MemAddressSuffix1 != 4 {
		t.Fatalf("unexpected parse of the other memory fields: %+v", *inst)
	}
	const want = int64(0x7fb0fc430e00)
	if inst.MemAddress != want {
		t.Errorf("parsing must return the serialised structure: the line carries base address 0x%x, "+
			"but the parsed instruction has MemAddress = 0x%x", want, inst.MemAddress)
	}
}

// The trace that ships with the repository: the first LDG.E of block 0 / warp 0
// is "00a0 ffffffff 1 R4 LDG.E 1 R4 4 1 0x7fb0fc430e00 4 0".
func TestBaseAddressOfRecordedTrace(t *testing.T) {
	tr := readDir(t, "../../nvidia/data/simple-trace-example")

	inst := tr.Threadblock(0).Warp(0).Instructions[10]
	if inst.PC != 0xa0 || inst.MemWidth != 4 {
		t.Fatalf("not the instruction expected at index 10: %+v", *inst)
	}
	const want = int64(0x7fb0fc430e00)
	if inst.MemAddress != want {
		t.Errorf("recorded trace: instruction at PC 0xa0 loads from 0x%x, parsed MemAddress = 0x%x",
			want, inst.MemAddress)
	}

	nonZero, mem := 0, 0
	for b := int64(0); b < tr.ThreadblocksCount(); b++ {
		tb := tr.Threadblock(b)
		for w := int64(0); w < tb.WarpsCount(); w++ {
			for _, in := range tb.Warp(w).Instructions {
				if in.MemWidth != 0 {
					mem++
					if in.MemAddress != 0 {
						nonZero++
					}
				}
			}
		}
	}
	if mem == 0 {
		t.Fatal("no memory instruction found")
	}
	if nonZero != mem {
		t.Errorf("recorded trace has %d memory instructions, all with a non-zero address in the file; "+
			"only %d of them were parsed with a non-zero MemAddress", mem, nonZero)
	}
}
