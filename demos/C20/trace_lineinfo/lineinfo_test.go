// Copy this directory to <tree>/c20demo/<name>/ and run from the tree root:
//   export PATH=/opt/veriftools/go1.26.8/bin:$PATH GOTOOLCHAIN=local GOFLAGS=-mod=mod GOPROXY=off GOSUMDB=off
//   go test ./c20demo/trace_lineinfo/ -run . -v
//
// Defect: the trace format is "[line_num] PC mask dest_num ..." - when the
// header says "-enable lineinfo = 1" every instruction line starts with an extra
// source-line number. KernelFileHeader.EnableLineinfo is parsed from the header
// but tracereader.extractInst never looks at it and always takes elems[0] as
// the PC. With lineinfo enabled all fields are shifted by one: PC receives the
// line number, Mask receives the PC, the register counts fail to scan (errors
// ignored) and the instruction comes back with no registers and no memory part.
package trace_lineinfo

import (
	"testing"
)

func TestLineinfoPrefixIsSkipped(t *testing.T) {
	plain := readDir(t, writeTrace(t, header(12, "5", "0")+oneWarp(
		"0030 ffffffff 1 R6 IMAD 2 R6 R3 0 0 ",
		"00a0 ffffffff 1 R4 LDG.E 1 R4 4 1 0x7fb0fc430e00 4 0 ",
	)))
	withLines := readDir(t, writeTrace(t, header(12, "5", "1")+oneWarp(
		"17 0030 ffffffff 1 R6 IMAD 2 R6 R3 0 0 ",
		"18 00a0 ffffffff 1 R4 LDG.E 1 R4 4 1 0x7fb0fc430e00 4 0 ",
	)))

	if !withLines.FileHeader.EnableLineinfo {
		t.Fatal("header flag not parsed")
	}

	for i := 0; i < 2; i++ {
		a := plain.Threadblock(0).Warp(0).Instructions[i]
		b := withLines.Threadblock(0).Warp(0).Instructions[i]
		if a.PC != b.PC || a.Mask != b.Mask || a.DestNum != b.DestNum || a.SrcNum != b.SrcNum ||
			len(a.DestRegs) != len(b.DestRegs) || len(a.SrcRegs) != len(b.SrcRegs) ||
			a.MemWidth != b.MemWidth || a.AddressCompress != b.AddressCompress ||
			a.MemAddressSuffix1 != b.MemAddressSuffix1 {
			t.Errorf("instruction %d: the same instruction recorded with '-enable lineinfo = 1' (leading line number) "+
				"must parse to the same PC/mask/registers/memory part.\n without lineinfo: PC=%#x mask=%#x dests=%d srcs=%d width=%d form=%d stride=%d\n"+
				" with lineinfo:    PC=%#x mask=%#x dests=%d srcs=%d width=%d form=%d stride=%d",
				i,
				a.PC, a.Mask, len(a.DestRegs), len(a.SrcRegs), a.MemWidth, a.AddressCompress, a.MemAddressSuffix1,
				b.PC, b.Mask, len(b.DestRegs), len(b.SrcRegs), b.MemWidth, b.AddressCompress, b.MemAddressSuffix1)
		}
	}
}
