package cu

// Demonstration for C14: a wavefront that ends while the rest of its work-group waits at a
// barrier releases the barrier. Waiting wavefronts that are parked in the internally-executing
// list (the 16-entry barrier buffer is full) must pass the barrier exactly once.
//
//   cp c14_endpgm_barrier_test.go <tree>/amd/timing/cu/ ; cd <tree>/amd/timing/cu
//   go test -count=1 -v -run TestC14 $(ls *.go | grep -v _test.go) c14_endpgm_barrier_test.go

import (
	"testing"

	"github.com/sarchlab/akita/v4/sim"
	"github.com/sarchlab/mgpusim/v4/amd/insts"
	"github.com/sarchlab/mgpusim/v4/amd/kernels"
	"github.com/sarchlab/mgpusim/v4/amd/timing/wavefront"
)

func TestC14BarrierReleasedByEndingWavefrontIsPassedOnce(t *testing.T) {
	engine := sim.NewSerialEngine()
	cu := new(ComputeUnit)
	cu.TickingComponent = sim.NewTickingComponent("CU", engine, 1*sim.GHz, cu)
	cu.SRegFile = NewSimpleRegisterFile(uint64(3200*4), 0)
	for i := 0; i < 4; i++ {
		cu.VRegFile = append(cu.VRegFile, NewSimpleRegisterFile(uint64(16384*4), 1024))
	}
	cu.wftime = make(map[string]sim.VTimeInSec)
	s := NewScheduler(cu, nil, nil)
	cu.Scheduler = s

	co := &insts.KernelCodeObject{KernelCodeObjectMeta: &insts.KernelCodeObjectMeta{WIVgprCount: 4, WFSgprCount: 16}}
	newWG := func(n int) *wavefront.WorkGroup {
		raw := kernels.NewWorkGroup()
		raw.CodeObject = co
		wg := wavefront.NewWorkGroup(raw, nil)
		for i := 0; i < n; i++ {
			rw := kernels.NewWavefront()
			rw.CodeObject = co
			rw.WG = raw
			wf := wavefront.NewWavefront(rw)
			wf.WG = wg
			wf.RegAccessor = &CURegFileAccessor{CU: cu, WF: wf}
			wg.Wfs = append(wg.Wfs, wf)
		}
		return wg
	}
	barrier := func() *wavefront.Inst {
		return wavefront.NewInst(&insts.Inst{Format: &insts.Format{}, InstType: &insts.InstType{InstName: "s_barrier", Opcode: 10}, ByteSize: 4})
	}

	// another work-group keeps the barrier buffer full: 17 wavefronts, 16 of them waiting
	other := newWG(17)
	for _, wf := range other.Wfs[:16] {
		wf.State = wavefront.WfAtBarrier
		wf.SetDynamicInst(barrier())
		s.barrierBuffer = append(s.barrierBuffer, wf)
	}
	other.Wfs[16].State = wavefront.WfRunning

	// our work-group: A waits at the barrier (parked in internalExecuting), B ends
	wg := newWG(2)
	a, b := wg.Wfs[0], wg.Wfs[1]
	a.SetDynamicInst(barrier())
	a.State = wavefront.WfRunning
	a.SetPC(0x100)
	s.internalExecuting = []*wavefront.Wavefront{a}
	s.EvaluateInternalInst() // A arrives: buffer full, stays in the list, state AtBarrier
	if a.State != wavefront.WfAtBarrier || len(s.internalExecuting) != 1 {
		t.Fatalf("setup: A should wait in internalExecuting (state %d, list %d)", a.State, len(s.internalExecuting))
	}

	b.SetDynamicInst(wavefront.NewInst(&insts.Inst{Format: &insts.Format{}, InstType: &insts.InstType{InstName: "s_endpgm", Opcode: 1}, ByteSize: 4}))
	b.State = wavefront.WfRunning
	s.internalExecuting = append(s.internalExecuting, b)
	s.EvaluateInternalInst() // B ends: the barrier is released, A continues at 0x104
	pcAfterRelease := a.PC()

	// A now fetches and runs its next instructions; the scheduler keeps evaluating the list
	s.EvaluateInternalInst()
	s.EvaluateInternalInst()

	if pcAfterRelease != 0x104 {
		t.Errorf("after the release A's PC is %#x, want 0x104", pcAfterRelease)
	}
	if a.PC() != pcAfterRelease {
		t.Errorf("A passed the same barrier again: PC moved from %#x to %#x without A executing anything (an instruction is skipped)", pcAfterRelease, a.PC())
	}
	for _, wf := range s.internalExecuting {
		if wf == a {
			t.Errorf("A is still in the internally-executing list with its s_barrier after the barrier was released")
		}
	}
}
