// Run from the worktree root (/tmp/audit/C14):
//
//	export PATH=/opt/veriftools/go1.26.8/bin:$PATH GOTOOLCHAIN=local GOFLAGS=-mod=mod GOPROXY=off GOSUMDB=off
//	go test ./c19demo/barrier_reparked/ -run TestBarrierReleasedByEndingWavefront -count=1
//
// Defect: SchedulerImpl.EvaluateInternalInst (amd/timing/cu/scheduler.go)
// ranges over s.internalExecuting. When the wavefront it is evaluating releases
// a barrier (an S_ENDPGM whose siblings all wait at the barrier, or the last
// S_BARRIER), it removes the released siblings from newExecuting and from
// s.internalExecuting - but the range statement keeps iterating the ORIGINAL
// slice. A released sibling that sits LATER in that slice (it is in the slice
// because the 16 entry barrier buffer was full when it arrived) is therefore
// evaluated once more in the same cycle: its instruction is still the
// s_barrier, so evalSBarrier parks it at the barrier AGAIN although its PC was
// already advanced past the barrier and its siblings are running.
//
// Consequences seen here: the wavefront does not proceed when its barrier is
// released; it stays parked until the rest of its group has ENDED; that end
// "releases" it a second time, which advances its PC by another 4 bytes, so
// the instruction that follows the barrier is never executed and the values it
// stores are wrong.
//
// Schedule: 4 work-groups of 8 wavefronts on one compute unit. In every group
// wavefront 0 exits early (flat_store, s_endpgm - its store is acknowledged
// late, so it waits inside S_ENDPGM), wavefronts 2..7 go straight to the
// barrier (24 wavefronts > 16 barrier buffer entries), wavefront 1 reaches the
// barrier late (slow scalar load) and finds the barrier buffer full.
package c14demo

import (
	"testing"

	"github.com/sarchlab/akita/v4/mem/mem"
	"github.com/sarchlab/akita/v4/sim"
)

const outBase = uint32(0x40000)

func earlyExitKernel() *program {
	p := newProgram()
	// v[1:2] = outBase + (wgid*512 + tid) * 4
	p.emit(vLshlrevB32(1, imm(2), 0))                              // v1 = tid*4
	p.emit([]uint32{0x80000000 | 28<<23 | 5<<16 | imm(11)<<8 | 2}) // s_lshl_b32 s5, s2, 11
	p.emit(vAddU32(1, sgpr(5), 1))                                 // v1 += s5
	p.emit(append(vAddU32(1, 255, 1), outBase))                    // v1 += outBase
	p.emit(vMovB32(2, imm(0)))                                     // v2 = 0
	p.emit(vReadfirstlane(4, 0))                                   // s4 = first tid of the wave
	p.emit(sLshrB32(4, sgpr(4), imm(6)))                           // s4 = wave index
	p.emit(sCmpEqU32(sgpr(4), imm(0)))
	p.branch(5, "early_exit") // s_cbranch_scc1
	p.emit(sCmpEqU32(sgpr(4), imm(1)))
	p.branch(4, "barrier") // s_cbranch_scc0
	// wavefront 1: late at the barrier
	p.emit(sLoadDword(6, 0, 0))
	p.emit(sWaitcnt(15, 0))
	p.label("barrier")
	p.emit(sBarrier())
	p.label("after_barrier")
	p.emit(vMovB32(3, imm(7))) // the instruction that follows the barrier
	p.emit(flatStoreDword(1, 3))
	p.emit(sWaitcnt(0, 15))
	p.emit(sEndpgm())
	p.label("early_exit")
	p.emit(flatStoreDword(1, 0)) // out[tid] = tid, not waited for
	p.emit(sEndpgm())
	return p
}

// Control: the same kernel with a single work-group (7 wavefronts at the
// barrier, the barrier buffer never fills) runs correctly - this passes on the
// unmodified source and shows that kernel, harness and expectations are sound.
func TestControlBarrierBufferNotFull(t *testing.T) {
	runEarlyExitKernel(t, 1)
}

func TestBarrierReleasedByEndingWavefront(t *testing.T) {
	runEarlyExitKernel(t, 4)
}

func runEarlyExitKernel(t *testing.T, nWG int) {
	const nWaves = 8

	b := newBench(t)
	prog := earlyExitKernel()
	code := prog.bytes()
	b.agent.write(codeBase, code)

	co := codeObject()
	co.ComputePgmRsrc2 = 1 << 7 // work-group id x in s2
	for g := 0; g < nWG; g++ {
		b.addWG(co, nWaves, g, 0)
	}

	b.agent.latency = func(port string, req sim.Msg) int {
		switch port {
		case "scalar":
			return 1000
		case "vector":
			if _, ok := req.(*mem.WriteReq); ok {
				return 3000
			}
			return 50
		}
		return 5
	}

	b.run()

	if testing.Verbose() {
		dis := disassemble(code[:len(prog.words)*4])
		for _, pc := range sortedKeys(dis) {
			t.Logf("%04x  %s", pc, dis[pc])
		}
	}

	afterBarrier := prog.pcOf("after_barrier")
	barrier := prog.pcOf("barrier")

	// Every wavefront that executed the barrier must execute the instruction
	// that follows it.
	bad := 0
	for g := 0; g < nWG; g++ {
		for w := 1; w < nWaves; w++ {
			pcs := b.pcsOf(g, w)
			sawBarrier, sawNext := false, false
			for _, pc := range pcs {
				if pc == barrier {
					sawBarrier = true
				}
				if pc == afterBarrier {
					sawNext = true
				}
			}
			if sawBarrier && !sawNext {
				bad++
				released, resumed, lastSiblingEnd := b.timesAround(g, w, afterBarrier)
				t.Errorf("work-group %d wavefront %d: after a barrier every wavefront "+
					"of the group proceeds with the instruction that follows it (pc %#x), "+
					"but this wavefront issued pcs %#x - the instruction at %#x was never issued. "+
					"Its siblings left the barrier at cycle %d; it issued its next instruction "+
					"at cycle %d, only after its last sibling issued s_endpgm (cycle %d)",
					g, w, afterBarrier, pcs, afterBarrier, released, resumed, lastSiblingEnd)
			}
		}
	}

	// Values: wavefront 0 of each group stores its work-item id, the others
	// store 7 after the barrier.
	wrong := 0
	for g := 0; g < nWG; g++ {
		for tid := 0; tid < nWaves*64; tid++ {
			want := uint32(7)
			if tid < 64 {
				want = uint32(tid)
			}
			got := b.agent.readU32(uint64(outBase) + uint64(g*nWaves*64+tid)*4)
			if got != want {
				if wrong < 5 {
					t.Errorf("out[wg %d][work-item %d] = %d, the reference (program order "+
						"execution) stores %d", g, tid, got, want)
				}
				wrong++
			}
		}
	}
	if wrong > 0 {
		t.Errorf("%d output values differ from the reference", wrong)
	}

	if len(b.agent.completions) != nWG {
		t.Errorf("each work-group's completion must be reported exactly once: "+
			"%d work-groups, %d completion messages", nWG, len(b.agent.completions))
	}
}

// timesAround reports, for a wavefront that was left behind at a barrier: the
// cycle at which the first sibling issued the instruction after the barrier,
// the cycle at which the wavefront itself issued its first instruction after
// its s_barrier, and the cycle at which the last sibling issued s_endpgm.
func (b *bench) timesAround(g, w int, afterBarrier uint64) (released, resumed, lastSiblingEnd int) {
	released, resumed = -1, -1
	sawBarrier := false
	for _, e := range b.trace {
		eg, ew := b.waveName(e.wf)
		if eg != g {
			continue
		}
		cycle := int(float64(e.at)*1e9 + 0.5)
		switch {
		case ew == w:
			if sawBarrier && resumed < 0 {
				resumed = cycle
			}
			if e.text == "s_barrier" {
				sawBarrier = true
			}
		case e.pc-codeBase == afterBarrier:
			if released < 0 {
				released = cycle
			}
		case e.text == "s_endpgm" && ew != 0:
			lastSiblingEnd = cycle
		}
	}
	return
}
