// Run from the worktree root (/tmp/audit/C14):
//
//	export PATH=/opt/veriftools/go1.26.8/bin:$PATH GOTOOLCHAIN=local GOFLAGS=-mod=mod GOPROXY=off GOSUMDB=off
//	go test ./c19demo/barrier_reparked/ -run TestSecondBarrierReleasedEarly -count=1
//
// Same defect as barrier_reparked_test.go (a wavefront released from a barrier
// by an ending sibling is parked again in the same cycle), seen through the
// FIRST clause of the property: the wavefront that was wrongly parked again
// still has state "at barrier" when its siblings reach the NEXT barrier of the
// kernel, so it is counted as having arrived there. The second barrier opens
// although that wavefront has not executed the code between the two barriers
// (here: its LDS write), and the siblings read LDS values that have not been
// written yet.
package c14demo

import (
	"testing"

	"github.com/sarchlab/akita/v4/mem/mem"
	"github.com/sarchlab/akita/v4/sim"
)

func twoBarrierKernel(nWaves uint32) *program {
	p := newProgram()
	// v[1:2] = outBase + (wgid*512 + tid) * 4 ; v4 = tid*4 ; v6 = neighbour's LDS address
	p.emit(vLshlrevB32(1, imm(2), 0))
	p.emit([]uint32{0x80000000 | 28<<23 | 5<<16 | imm(11)<<8 | 2}) // s_lshl_b32 s5, s2, 11
	p.emit(vAddU32(1, sgpr(5), 1))
	p.emit(append(vAddU32(1, 255, 1), outBase))
	p.emit(vMovB32(2, imm(0)))
	p.emit(vLshlrevB32(4, imm(2), 0))
	p.emit(vReadfirstlane(4, 0))
	p.emit(sLshrB32(4, sgpr(4), imm(6))) // s4 = wave index
	// neighbour = next wavefront, the last one reads from wavefront 1
	p.emit(vAddU32(6, imm(64), 0))
	p.emit(sCmpLgU32(sgpr(4), imm(nWaves-1)))
	p.branch(5, "nb")
	p.emit(vop2(19, 6, imm(63), 0)) // v_and_b32 v6, 63, v0
	p.emit(vAddU32(6, imm(64), 6))
	p.label("nb")
	p.emit(vLshlrevB32(6, imm(2), 6))
	p.emit(sCmpEqU32(sgpr(4), imm(0)))
	p.branch(5, "early_exit")
	p.emit(sCmpEqU32(sgpr(4), imm(1)))
	p.branch(4, "barrier1")
	p.emit(sLoadDword(6, 0, 0)) // wavefront 1 is late at the first barrier
	p.emit(sWaitcnt(15, 0))
	p.label("barrier1")
	p.emit(sBarrier())
	p.emit(vAddU32(3, imm(7), 0)) // v3 = tid + 7
	p.emit(dsWriteB32(4, 3))      // lds[tid] = tid + 7
	p.emit(sWaitcnt(15, 0))
	p.label("barrier2")
	p.emit(sBarrier())
	p.label("after_barrier2")
	p.emit(dsReadB32(5, 6)) // v5 = lds[neighbour]
	p.emit(sWaitcnt(15, 0))
	p.emit(flatStoreDword(1, 5))
	p.emit(sWaitcnt(0, 15))
	p.emit(sEndpgm())
	p.label("early_exit")
	p.emit(flatStoreDword(1, 0))
	p.emit(sEndpgm())
	return p
}

func TestSecondBarrierReleasedEarly(t *testing.T) {
	const nWG, nWaves = 4, 8

	b := newBench(t)
	prog := twoBarrierKernel(nWaves)
	b.agent.write(codeBase, prog.bytes())

	co := codeObject()
	co.ComputePgmRsrc2 = 1 << 7
	for g := 0; g < nWG; g++ {
		b.addWG(co, nWaves, g, nWaves*64*4)
	}
	b.agent.latency = func(port string, req sim.Msg) int {
		switch port {
		case "scalar":
			return 1000
		case "vector":
			if _, ok := req.(*mem.WriteReq); ok {
				return 3000
			}
			return 50
		}
		return 5
	}
	b.run()

	barrier2 := prog.pcOf("barrier2")
	after2 := prog.pcOf("after_barrier2")

	for g := 0; g < nWG; g++ {
		lastArrival, lastWave := -1, -1
		firstLeave, firstWave := -1, -1
		for _, e := range b.trace {
			eg, ew := b.waveName(e.wf)
			if eg != g {
				continue
			}
			cycle := int(float64(e.at)*1e9 + 0.5)
			if e.pc-codeBase == barrier2 && cycle > lastArrival {
				lastArrival, lastWave = cycle, ew
			}
			if e.pc-codeBase == after2 && (firstLeave < 0 || cycle < firstLeave) {
				firstLeave, firstWave = cycle, ew
			}
		}
		if firstLeave >= 0 && firstLeave <= lastArrival {
			t.Errorf("work-group %d: no wavefront may execute an instruction that follows "+
				"a barrier before every other unfinished wavefront of the group has reached "+
				"that barrier; wavefront %d issued the instruction after the second barrier "+
				"at cycle %d, but wavefront %d reached that barrier only at cycle %d",
				g, firstWave, firstLeave, lastWave, lastArrival)
		}
	}

	wrong := 0
	for g := 0; g < nWG; g++ {
		for tid := 64; tid < nWaves*64; tid++ {
			nb := tid + 64
			if tid/64 == nWaves-1 {
				nb = tid%64 + 64
			}
			want := uint32(nb + 7)
			got := b.agent.readU32(uint64(outBase) + uint64(g*nWaves*64+tid)*4)
			if got != want {
				if wrong < 3 {
					t.Errorf("out[wg %d][work-item %d] = %d, the reference stores lds[%d] = %d",
						g, tid, got, nb, want)
				}
				wrong++
			}
		}
	}
	if wrong > 0 {
		t.Errorf("%d output values differ from the reference", wrong)
	}
}

// Control: one work-group only, the barrier buffer never fills; passes.
func TestControlTwoBarriers(t *testing.T) {
	const nWaves = 8
	b := newBench(t)
	prog := twoBarrierKernel(nWaves)
	b.agent.write(codeBase, prog.bytes())
	co := codeObject()
	co.ComputePgmRsrc2 = 1 << 7
	b.addWG(co, nWaves, 0, nWaves*64*4)
	b.agent.latency = func(port string, req sim.Msg) int {
		if port == "scalar" {
			return 1000
		}
		if _, ok := req.(*mem.WriteReq); ok {
			return 3000
		}
		return 5
	}
	b.run()
	for tid := 64; tid < nWaves*64; tid++ {
		nb := tid + 64
		if tid/64 == nWaves-1 {
			nb = tid%64 + 64
		}
		if got := b.agent.readU32(uint64(outBase) + uint64(tid)*4); got != uint32(nb+7) {
			t.Fatalf("control: out[%d] = %d want %d", tid, got, nb+7)
		}
	}
}
