// Shared harness for the C14 demonstrations: one real timing compute unit
// (cu.MakeBuilder().Build) connected through akita direct connections to a
// hand written agent that plays dispatcher, instruction memory, scalar memory
// and vector memory. Each memory port answers IN ORDER (as the reorder buffers
// of the real platform do) after a configurable latency.
package c14demo

import (
	"encoding/binary"
	"fmt"
	"sort"
	"testing"

	"github.com/sarchlab/akita/v4/mem/mem"
	"github.com/sarchlab/akita/v4/sim"
	"github.com/sarchlab/akita/v4/sim/directconnection"
	"github.com/sarchlab/akita/v4/tracing"
	"github.com/sarchlab/mgpusim/v4/amd/insts"
	"github.com/sarchlab/mgpusim/v4/amd/kernels"
	"github.com/sarchlab/mgpusim/v4/amd/protocol"
	"github.com/sarchlab/mgpusim/v4/amd/timing/cu"
	"github.com/sarchlab/mgpusim/v4/amd/timing/wavefront"
)

// ---------------------------------------------------------------- assembler

func sopp(op, simm16 uint32) []uint32 { return []uint32{0xBF800000 | op<<16 | simm16&0xffff} }
func sNop() []uint32                  { return sopp(0, 0) }
func sEndpgm() []uint32               { return sopp(1, 0) }
func sBarrier() []uint32              { return sopp(10, 0) }

// sWaitcnt builds s_waitcnt vmcnt(vm) lgkmcnt(lgkm) (expcnt left at 7).
func sWaitcnt(vm, lgkm uint32) []uint32 { return sopp(12, vm&0xf|7<<4|(lgkm&0xf)<<8) }
func sCbranchSCC1(off int16) []uint32   { return sopp(5, uint32(uint16(off))) }
func sCbranchSCC0(off int16) []uint32   { return sopp(4, uint32(uint16(off))) }

// operand encodings
func sgpr(n uint32) uint32 { return n }
func vgpr(n uint32) uint32 { return 256 + n }
func imm(n uint32) uint32  { return 128 + n } // 0..64

func sCmpEqU32(s0, s1 uint32) []uint32 { return []uint32{0xBF000000 | 6<<16 | s1<<8 | s0} }
func sCmpLgU32(s0, s1 uint32) []uint32 { return []uint32{0xBF000000 | 7<<16 | s1<<8 | s0} }
func sMovB32(sdst, s0 uint32) []uint32 { return []uint32{0xBE800000 | sdst<<16 | 0<<8 | s0} }
func sLshrB32(sdst, s0, s1 uint32) []uint32 {
	return []uint32{0x80000000 | 30<<23 | sdst<<16 | s1<<8 | s0}
}
func sLoadDword(sdata, sbase, off uint32) []uint32 {
	return []uint32{0xC0000000 | 0<<18 | 1<<17 | sdata<<6 | sbase>>1, off}
}
func sLoadDwordx2(sdata, sbase, off uint32) []uint32 {
	return []uint32{0xC0000000 | 1<<18 | 1<<17 | sdata<<6 | sbase>>1, off}
}
func vop1(op, vdst, src0 uint32) []uint32 { return []uint32{0x7E000000 | vdst<<17 | op<<9 | src0} }
func vMovB32(vdst, src0 uint32) []uint32  { return vop1(1, vdst, src0) }
func vReadfirstlane(sdst, vsrc uint32) []uint32 {
	return vop1(2, sdst, vgpr(vsrc))
}
func vop2(op, vdst, src0, vsrc1 uint32) []uint32 {
	return []uint32{op<<25 | vdst<<17 | vsrc1<<9 | src0}
}
func vLshlrevB32(vdst, src0, vsrc1 uint32) []uint32 { return vop2(18, vdst, src0, vsrc1) }
func vAddU32(vdst, src0, vsrc1 uint32) []uint32     { return vop2(25, vdst, src0, vsrc1) } // writes vcc
func vAddcU32(vdst, src0, vsrc1 uint32) []uint32    { return vop2(28, vdst, src0, vsrc1) }
func flatLoadDword(vdst, vaddr uint32) []uint32 {
	return []uint32{0xDC000000 | 20<<18, vdst<<24 | vaddr}
}
func flatStoreDword(vaddr, vdata uint32) []uint32 {
	return []uint32{0xDC000000 | 28<<18, vdata<<8 | vaddr}
}
func dsWriteB32(vaddr, vdata uint32) []uint32 {
	return []uint32{0xD8000000 | 13<<17, vdata<<8 | vaddr}
}
func dsReadB32(vdst, vaddr uint32) []uint32 {
	return []uint32{0xD8000000 | 54<<17, vdst<<24 | vaddr}
}

type program struct {
	words  []uint32
	labels map[string]int
	fixups map[int]string
}

func newProgram() *program {
	return &program{labels: map[string]int{}, fixups: map[int]string{}}
}
func (p *program) emit(w []uint32) *program { p.words = append(p.words, w...); return p }
func (p *program) label(l string) *program  { p.labels[l] = len(p.words); return p }

// branch emits a SOPP branch whose offset is resolved at assemble time.
func (p *program) branch(op uint32, l string) *program {
	p.fixups[len(p.words)] = l
	p.words = append(p.words, 0xBF800000|op<<16)
	return p
}
func (p *program) pcOf(l string) uint64 { return uint64(p.labels[l] * 4) }
func (p *program) bytes() []byte {
	for at, l := range p.fixups {
		target, ok := p.labels[l]
		if !ok {
			panic("unknown label " + l)
		}
		off := int16(target - (at + 1))
		p.words[at] = p.words[at]&0xffff0000 | uint32(uint16(off))
	}
	out := make([]byte, 0, len(p.words)*4+256)
	for _, w := range p.words {
		out = binary.LittleEndian.AppendUint32(out, w)
	}
	// pad with s_endpgm so that a run-away wavefront ends instead of decoding
	// zeroes
	for i := 0; i < 64; i++ {
		out = binary.LittleEndian.AppendUint32(out, 0xBF810000)
	}
	return out
}

func disassemble(code []byte) map[uint64]string {
	d := insts.NewDisassembler()
	pr := insts.NewInstPrinter(nil)
	out := map[uint64]string{}
	for pc := 0; pc+4 <= len(code); {
		buf := code[pc:]
		inst, err := d.Decode(buf)
		if err != nil {
			out[uint64(pc)] = "??"
			pc += 4
			continue
		}
		out[uint64(pc)] = pr.Print(inst)
		pc += inst.ByteSize
	}
	return out
}

// ---------------------------------------------------------------- agent

type pending struct {
	readyAt sim.VTimeInSec
	req     sim.Msg
	data    []byte
}

type completion struct {
	at    sim.VTimeInSec
	rspTo []string
}

type agent struct {
	*sim.TickingComponent
	ace, inst, scalar, vector sim.Port

	memory map[uint64]byte

	// latency in cycles of a request arriving at the named port
	latency func(port string, req sim.Msg) int

	queues map[string][]pending

	toMap         []*protocol.MapWGReq
	aceStall      sim.VTimeInSec
	readAtArrival bool

	// onTick, when set, is called at the start of every agent cycle
	onTick      func(now sim.VTimeInSec)
	completions []completion
}

func newAgent(engine sim.Engine) *agent {
	a := &agent{memory: map[uint64]byte{}, queues: map[string][]pending{}}
	a.TickingComponent = sim.NewTickingComponent("Agent", engine, 1*sim.GHz, a)
	a.ace = sim.NewPort(a, 1, 64, "Agent.ACE")
	a.inst = sim.NewPort(a, 64, 64, "Agent.Inst")
	a.scalar = sim.NewPort(a, 64, 64, "Agent.Scalar")
	a.vector = sim.NewPort(a, 256, 256, "Agent.Vector")
	a.latency = func(string, sim.Msg) int { return 10 }
	return a
}

func (a *agent) write(addr uint64, data []byte) {
	for i, b := range data {
		a.memory[addr+uint64(i)] = b
	}
}
func (a *agent) read(addr uint64, n uint64) []byte {
	out := make([]byte, n)
	for i := range out {
		out[i] = a.memory[addr+uint64(i)]
	}
	return out
}
func (a *agent) readU32(addr uint64) uint32 {
	return binary.LittleEndian.Uint32(a.read(addr, 4))
}
func (a *agent) writeU32(addr uint64, v uint32) {
	a.write(addr, binary.LittleEndian.AppendUint32(nil, v))
}

func (a *agent) Tick() bool {
	progress := false
	now := a.CurrentTime()
	if a.onTick != nil {
		a.onTick(now)
	}

	for len(a.toMap) > 0 {
		if a.ace.Send(a.toMap[0]) != nil {
			break
		}
		a.toMap = a.toMap[1:]
		progress = true
	}

	for now >= a.aceStall {
		m := a.ace.RetrieveIncoming()
		if m == nil {
			break
		}
		c := m.(*protocol.WGCompletionMsg)
		a.completions = append(a.completions, completion{now, c.RspTo})
		progress = true
	}

	ports := map[string]sim.Port{"inst": a.inst, "scalar": a.scalar, "vector": a.vector}
	for _, name := range []string{"inst", "scalar", "vector"} {
		port := ports[name]
		for {
			m := port.RetrieveIncoming()
			if m == nil {
				break
			}
			lat := a.latency(name, m)
			pd := pending{readyAt: now + sim.VTimeInSec(lat)*1e-9, req: m}
			if rr, ok := m.(*mem.ReadReq); ok && a.readAtArrival {
				pd.data = a.read(rr.Address, rr.AccessByteSize)
			}
			a.queues[name] = append(a.queues[name], pd)
			progress = true
		}

		for len(a.queues[name]) > 0 {
			head := a.queues[name][0]
			if head.readyAt > now+1e-12 {
				break
			}
			var rsp sim.Msg
			switch req := head.req.(type) {
			case *mem.ReadReq:
				data := head.data
				if data == nil {
					data = a.read(req.Address, req.AccessByteSize)
				}
				rsp = mem.DataReadyRspBuilder{}.
					WithSrc(port.AsRemote()).WithDst(req.Src).
					WithRspTo(req.ID).
					WithData(data).Build()
			case *mem.WriteReq:
				rsp = mem.WriteDoneRspBuilder{}.
					WithSrc(port.AsRemote()).WithDst(req.Src).
					WithRspTo(req.ID).Build()
			default:
				panic(fmt.Sprintf("unexpected request %T", head.req))
			}
			if port.Send(rsp) != nil {
				break
			}
			if w, ok := head.req.(*mem.WriteReq); ok {
				for i, b := range w.Data {
					if w.DirtyMask == nil || w.DirtyMask[i] {
						a.memory[w.Address+uint64(i)] = b
					}
				}
			}
			a.queues[name] = a.queues[name][1:]
			progress = true
		}
		if len(a.queues[name]) > 0 {
			progress = true
		}
	}

	if now < a.aceStall {
		progress = true
	}
	return progress
}

// ---------------------------------------------------------------- bench

type issued struct {
	at   sim.VTimeInSec
	wf   *wavefront.Wavefront
	pc   uint64
	text string
}

type bench struct {
	t      *testing.T
	engine *sim.SerialEngine
	cu     *cu.ComputeUnit
	agent  *agent

	trace  []issued
	ended  map[string]sim.VTimeInSec // inst task id -> end time
	nextWf int

	// wavefronts in dispatch order: wfs[wg][wave]
	wfs [][]*kernels.Wavefront
	req []*protocol.MapWGReq
}

type traceHook struct{ b *bench }

func (h traceHook) Func(ctx sim.HookCtx) {
	task, ok := ctx.Item.(tracing.Task)
	if !ok || ctx.Pos != tracing.HookPosTaskStart || task.Kind != "inst" {
		return
	}
	d := task.Detail.(map[string]interface{})
	wf := d["wf"].(*wavefront.Wavefront)
	in := d["inst"].(*wavefront.Inst)
	h.b.trace = append(h.b.trace, issued{
		at: h.b.engine.CurrentTime(), wf: wf, pc: wf.PC(),
		text: insts.NewInstPrinter(nil).Print(in.Inst),
	})
}

func newBench(t *testing.T) *bench { return newBenchSB(t, false) }

func newBenchSB(t *testing.T, sb bool) *bench {
	b := &bench{t: t}
	b.engine = sim.NewSerialEngine()
	b.agent = newAgent(b.engine)

	b.cu = cu.MakeBuilder().
		WithEngine(b.engine).
		WithRegisterScoreboard(sb).
		WithInstMem(b.agent.inst).
		WithScalarMem(b.agent.scalar).
		WithVectorMemModules(&mem.SinglePortMapper{Port: b.agent.vector.AsRemote()}).
		Build("CU")
	b.cu.AcceptHook(traceHook{b})

	connect := func(name string, p1, p2 sim.Port) {
		c := directconnection.MakeBuilder().WithEngine(b.engine).WithFreq(1 * sim.GHz).Build(name)
		c.PlugIn(p1)
		c.PlugIn(p2)
	}
	connect("ConnACE", b.agent.ace, b.cu.ToACE)
	connect("ConnInst", b.agent.inst, b.cu.ToInstMem)
	connect("ConnScalar", b.agent.scalar, b.cu.ToScalarMem)
	connect("ConnVector", b.agent.vector, b.cu.ToVectorMem)
	return b
}

const (
	codeBase    = uint64(0x10000)
	kernargBase = uint64(0x8000)
)

// addWG queues a work-group of nWaves wavefronts running the given code.
// The kernel gets s[0:1] = kernarg pointer and v0 = work-item id.
func (b *bench) addWG(co *insts.KernelCodeObject, nWaves int, wgID int, ldsBytes uint32) {
	pkt := &kernels.HsaKernelDispatchPacket{
		WorkgroupSizeX: uint16(nWaves * 64), WorkgroupSizeY: 1, WorkgroupSizeZ: 1,
		GridSizeX: uint32(nWaves * 64 * 64), GridSizeY: 1, GridSizeZ: 1,
		GroupSegmentSize: ldsBytes,
		KernelObject:     codeBase,
		KernargAddress:   kernargBase,
	}
	wg := kernels.NewWorkGroup()
	wg.CodeObject = co
	wg.Packet = pkt
	wg.SizeX, wg.SizeY, wg.SizeZ = nWaves*64, 1, 1
	wg.CurrSizeX, wg.CurrSizeY, wg.CurrSizeZ = nWaves*64, 1, 1
	wg.IDX = wgID

	builder := protocol.MapWGReqBuilder{}.
		WithSrc(b.agent.ace.AsRemote()).
		WithDst(b.cu.ToACE.AsRemote()).
		WithPID(1).WithWG(wg)

	var list []*kernels.Wavefront
	for i := 0; i < nWaves; i++ {
		wf := kernels.NewWavefront()
		wf.CodeObject = co
		wf.Packet = pkt
		wf.FirstWiFlatID = i * 64
		wf.WG = wg
		wf.InitExecMask = ^uint64(0)
		wg.Wavefronts = append(wg.Wavefronts, wf)
		list = append(list, wf)

		slot := b.nextWf
		b.nextWf++
		builder = builder.AddWf(protocol.WfDispatchLocation{
			Wavefront:  wf,
			SIMDID:     slot % 4,
			VGPROffset: (slot / 4) * 24 * 4, // 24 VGPRs per wavefront
			SGPROffset: slot * 32 * 4,       // 32 SGPRs per wavefront
		})
	}
	req := builder.Build()
	b.wfs = append(b.wfs, list)
	b.req = append(b.req, req)
	b.agent.toMap = append(b.agent.toMap, req)
}

func codeObject() *insts.KernelCodeObject {
	co := &insts.KernelCodeObject{KernelCodeObjectMeta: &insts.KernelCodeObjectMeta{}}
	co.EnableSgprKernargSegmentPtr = true
	co.WFSgprCount = 32
	co.WIVgprCount = 24
	co.Version = insts.CodeObjectV3
	return co
}

func (b *bench) run() {
	b.agent.TickLater()
	if err := b.engine.Run(); err != nil {
		b.t.Fatal(err)
	}
}

// waveName finds "wg/wave" of a timing wavefront.
func (b *bench) waveName(wf *wavefront.Wavefront) (int, int) {
	for g, list := range b.wfs {
		for w, k := range list {
			if k == wf.Wavefront {
				return g, w
			}
		}
	}
	return -1, -1
}

// pcsOf returns the program counters (relative to the code base) of the
// instructions issued by one wavefront, in issue order.
func (b *bench) pcsOf(g, w int) []uint64 {
	var out []uint64
	for _, e := range b.trace {
		eg, ew := b.waveName(e.wf)
		if eg == g && ew == w {
			out = append(out, e.pc-codeBase)
		}
	}
	return out
}

func sortedKeys(m map[uint64]string) []uint64 {
	var ks []uint64
	for k := range m {
		ks = append(ks, k)
	}
	sort.Slice(ks, func(i, j int) bool { return ks[i] < ks[j] })
	return ks
}
