// Run from the worktree root:
//
//	export PATH=/opt/veriftools/go1.26.8/bin:$PATH GOTOOLCHAIN=local GOFLAGS=-mod=mod GOPROXY=off GOSUMDB=off
//	go test ./AUDIT/demo/blocked_hit_passed_by_miss/ -count=1 -v
//
// Defect (second, independent way the row-buffer model reorders one address):
// in middleware.dispatchPending a row HIT needs pipeline.CanAccept() and
// otherwise stays in pendingReqs, but a row MISS is appended to
// bank.delayQueue unconditionally - the loop goes on past the blocked hit
// ("skipping blocked banks"), so younger requests OF THE SAME BANK that miss
// are taken out of the arrival-ordered pending list while the older hit stays
// behind. middleware.Tick then runs tickDelayQueues BEFORE dispatchPending, so
// every time the pipeline frees a slot an expired delay-queue entry gets it
// and the older pending hit is blocked again.
//
// This is not the "hit overtakes delayed miss" bug: here the OLDER request is
// the hit and the YOUNGER requests are the misses.
//
// One bank, 1-wide 1-stage pipeline of 10 cycles, 128-byte rows, row-miss
// delay 2. Row 0 is opened by a warm-up read long before. Then, together:
//
//	Q  read  0x08 (row 0)  hit  -> pipeline (now full for 10 cycles)
//	A  write 0x10 (row 0)  hit  -> pipeline full -> stays pending
//	B  read  0x80 (row 1)  miss -> delay queue          (open row := 1)
//	C  read  0x10 (row 0)  miss -> delay queue          (open row := 0)
//
// Pipeline order becomes Q, B, C, A: C reads 0x10 before A has written it.
package demo_test

import (
	"testing"

	"github.com/sarchlab/mgpusim/v4/amd/timing/mem/simplebankedmemory"
)

func cfg() simplebankedmemory.Builder {
	return simplebankedmemory.MakeBuilder().
		WithNumBanks(1).
		WithBankPipelineWidth(1).
		WithBankPipelineDepth(1).
		WithStageLatency(10).
		WithRowBufferSizeLog2(7).
		WithRowMissDelay(2)
}

func TestOlderBlockedHitIsPassedByYoungerMisses_Read(t *testing.T) {
	ops := []*op{
		{cycle: 1, addr: 0x00, size: 4},                           // warm-up: opens row 0, long finished by cycle 60
		{cycle: 60, addr: 0x08, size: 4},                          // Q
		{cycle: 60, write: true, addr: 0x10, data: fill(0xEE, 8)}, // A
		{cycle: 60, addr: 0x80, size: 4},                          // B
		{cycle: 60, addr: 0x10, size: 8},                          // C must see A
	}
	a, c := run(t, cfg(), ops, nil)
	check(t, a, c, ops)
}

func TestOlderBlockedHitIsPassedByYoungerMisses_Write(t *testing.T) {
	ops := []*op{
		{cycle: 1, addr: 0x00, size: 4},
		{cycle: 60, addr: 0x08, size: 4},                          // Q
		{cycle: 60, write: true, addr: 0x10, data: fill(0x01, 8)}, // A  older write
		{cycle: 60, addr: 0x80, size: 4},                          // B
		{cycle: 60, write: true, addr: 0x10, data: fill(0x02, 8)}, // C  newer write, must win
	}
	a, c := run(t, cfg(), ops, nil)
	check(t, a, c, ops)
}

// Control: same history with the row model off.
func TestControl_RowModelOff(t *testing.T) {
	ops := []*op{
		{cycle: 1, addr: 0x00, size: 4},
		{cycle: 60, addr: 0x08, size: 4},
		{cycle: 60, write: true, addr: 0x10, data: fill(0xEE, 8)},
		{cycle: 60, addr: 0x80, size: 4},
		{cycle: 60, addr: 0x10, size: 8},
	}
	a, c := run(t, cfg().WithRowMissDelay(0), ops, nil)
	check(t, a, c, ops)
}

// The same thing with the shipped MI300A DRAM parameters (16 banks, 5 x 1-cycle
// stages, 2 KiB rows, 52-cycle miss delay). A burst of 120 reads that
// alternates between two rows of bank 0 makes every one of them a miss; they
// all sit in the (unbounded) delay queue, expire together and then drain into
// the pipeline one per cycle for 120 cycles. During that time a hit (A) can
// never get a slot, while younger misses (B, C) simply join the queue.
func TestMI300AParameters_RowThrashing(t *testing.T) {
	b := simplebankedmemory.MakeBuilder().
		WithNumBanks(16).
		WithBankPipelineWidth(1).
		WithBankPipelineDepth(5).
		WithStageLatency(1).
		WithRowBufferSizeLog2(11).
		WithRowMissDelay(52).
		WithLog2InterleaveSize(6).
		WithTopPortBufferSize(1024).
		WithPostPipelineBufferSize(128)

	// bank 0 holds addresses k*1024; k in [0,32) is row 0, k in [32,64) row 1
	var ops []*op
	for i := 0; i < 120; i++ {
		k := uint64(i/2) % 32
		if i%2 == 1 {
			k += 32
		}
		ops = append(ops, &op{cycle: 1, addr: k * 1024, size: 4})
	}
	// open row is now row 1
	ops = append(ops,
		&op{cycle: 60, write: true, addr: 33 * 1024, data: fill(0xEE, 64)}, // A: row 1, hit, blocked
		&op{cycle: 60, addr: 1 * 1024, size: 4},                            // B: row 0, miss
		&op{cycle: 60, addr: 33 * 1024, size: 64},                          // C: row 1, miss; must see A
	)
	a, c := run(t, b, ops, nil)
	check(t, a, c, ops)
}
