// Run from the worktree root:
//
//	export PATH=/opt/veriftools/go1.26.8/bin:$PATH GOTOOLCHAIN=local GOFLAGS=-mod=mod GOPROXY=off GOSUMDB=off
//	go test ./AUDIT/demo/rowmiss_overtake/ -count=1 -v
//
// Defect: middleware.dispatchPending (amd/timing/mem/simplebankedmemory/comp.go)
// puts a row-MISS request into bank.delayQueue for rowMissDelay cycles and
// immediately records its row as the open row. The next request to that row
// (even to the very same address) is then a row HIT and enters the bank
// pipeline directly, overtaking the earlier request that is still waiting in
// the delay queue. With the shipped MI300A parameters (16 banks, 5 stages of 1
// cycle, 2 KiB rows, 52-cycle row-miss delay) a write followed by a read of the
// same address returns the value from BEFORE the write, and two writes to one
// address leave the OLDER value in storage.
package demo_test

import (
	"testing"

	"github.com/sarchlab/mgpusim/v4/amd/timing/mem/simplebankedmemory"
)

// the DRAM parameters of amd/samples/runner/timingconfig/mi300a/builder.go
func mi300aDRAM() simplebankedmemory.Builder {
	return simplebankedmemory.MakeBuilder().
		WithNumBanks(16).
		WithBankPipelineWidth(1).
		WithBankPipelineDepth(5).
		WithStageLatency(1).
		WithRowBufferSizeLog2(11).
		WithRowMissDelay(52).
		WithLog2InterleaveSize(6).
		WithTopPortBufferSize(1024).
		WithPostPipelineBufferSize(128)
}

func TestWriteThenReadSameAddress_MI300AParameters(t *testing.T) {
	ops := []*op{
		{cycle: 1, write: true, addr: 0x1000, data: fill(0xAB, 64)}, // row miss -> delay queue
		{cycle: 1, addr: 0x1000, size: 64},                          // row hit -> pipeline, overtakes
	}
	a, c := run(t, mi300aDRAM(), ops, nil)
	check(t, a, c, ops)
}

func TestReadArrivingLaterStillOvertakes(t *testing.T) {
	// the read arrives 30 cycles after the write: still inside the 52-cycle
	// row-miss delay, so arrival timing must not matter but does
	ops := []*op{
		{cycle: 1, write: true, addr: 0x1000, data: fill(0xAB, 64)},
		{cycle: 31, addr: 0x1000, size: 64},
	}
	a, c := run(t, mi300aDRAM(), ops, nil)
	check(t, a, c, ops)
}

func TestTwoWritesSameAddressFinalValue(t *testing.T) {
	ops := []*op{
		{cycle: 1, write: true, addr: 0x2000, data: fill(0x11, 64)}, // miss, commits late
		{cycle: 1, write: true, addr: 0x2000, data: fill(0x22, 64)}, // hit, commits first
	}
	a, c := run(t, mi300aDRAM(), ops, nil)
	check(t, a, c, ops)
}

func TestMaskedWriteAfterFullWrite(t *testing.T) {
	mask := make([]bool, 64)
	mask[3] = true
	ops := []*op{
		{cycle: 1, write: true, addr: 0x3000, data: fill(0x11, 64)},             // miss
		{cycle: 1, write: true, addr: 0x3000, data: fill(0x99, 64), mask: mask}, // hit, lands first, then overwritten
		{cycle: 200, addr: 0x3000, size: 8},
	}
	a, c := run(t, mi300aDRAM(), ops, nil)
	check(t, a, c, ops)
}

// Control: with the row-buffer model switched off (rowMissDelay 0) the very
// same histories match the flat model, so the harness is sound and the
// timing parameter is what changes the functional result.
func TestControl_NoRowMissDelay(t *testing.T) {
	ops := []*op{
		{cycle: 1, write: true, addr: 0x1000, data: fill(0xAB, 64)},
		{cycle: 1, addr: 0x1000, size: 64},
		{cycle: 1, write: true, addr: 0x2000, data: fill(0x11, 64)},
		{cycle: 1, write: true, addr: 0x2000, data: fill(0x22, 64)},
	}
	a, c := run(t, mi300aDRAM().WithRowMissDelay(0), ops, nil)
	check(t, a, c, ops)
}
