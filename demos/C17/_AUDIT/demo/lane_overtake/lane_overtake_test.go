// Run from the worktree root:
//
//	export PATH=/opt/veriftools/go1.26.8/bin:$PATH GOTOOLCHAIN=local GOFLAGS=-mod=mod GOPROXY=off GOSUMDB=off
//	go test ./AUDIT/demo/lane_overtake/ -count=1 -v
//
// Defect: with bankPipelineWidth > 1 a bank is an akita pipelining.Pipeline
// with several independent lanes that all drain into ONE postPipelineBuf;
// pipelineImpl.Tick always serves lane 0 first. The commit point
// (middleware.finalizeRead/finalizeWrite) is the pop from that buffer, and
// nothing in simplebankedmemory (Builder.configurationMustBeValid, dispatch,
// finalize) keeps same-address requests in one lane or restores arrival order.
// Whenever the post-pipeline buffer cannot take every lane's head in one cycle
// (buffer smaller than the width - the builder DEFAULT size is 1 - or the Top
// port back-pressured), the request in lane 1 is held while a YOUNGER request
// in lane 0 passes it. No row-buffer model is involved (rowMissDelay = 0).
//
// Schedule for width 2, depth 2, 1 cycle per stage, post buffer 1, one bank,
// four requests arriving together: A->lane0, B->lane1, next cycle C->lane0,
// D->lane1. At the exit: A is pushed, B blocked (buffer full); next cycle A is
// popped and lane 0 pushes C, B blocked again. Commit order A, C, B, D.
package demo_test

import (
	"testing"

	"github.com/sarchlab/mgpusim/v4/amd/timing/mem/simplebankedmemory"
)

func TestSecondLaneIsOvertaken_DefaultPostBuffer(t *testing.T) {
	b := simplebankedmemory.MakeBuilder().
		WithNumBanks(1).
		WithBankPipelineWidth(2).
		WithBankPipelineDepth(2).
		WithStageLatency(1)
	// postPipelineBufSize left at its default (1); row model off.

	ops := []*op{
		{cycle: 1, addr: 0x400, size: 4},                           // A  lane 0
		{cycle: 1, write: true, addr: 0x100, data: fill(0x5A, 16)}, // B  lane 1
		{cycle: 1, addr: 0x100, size: 16},                          // C  lane 0, must see B
		{cycle: 1, addr: 0x800, size: 4},                           // D  lane 1
	}
	a, c := run(t, b, ops, nil)
	check(t, a, c, ops)
}

func TestSecondLaneIsOvertaken_WriteWrite(t *testing.T) {
	b := simplebankedmemory.MakeBuilder().
		WithNumBanks(1).
		WithBankPipelineWidth(2).
		WithBankPipelineDepth(2).
		WithStageLatency(1)

	ops := []*op{
		{cycle: 1, addr: 0x400, size: 4},
		{cycle: 1, write: true, addr: 0x100, data: fill(0x01, 16)}, // older write, lane 1
		{cycle: 1, write: true, addr: 0x100, data: fill(0x02, 16)}, // newer write, lane 0
		{cycle: 1, addr: 0x800, size: 4},
	}
	a, c := run(t, b, ops, nil)
	check(t, a, c, ops)
}

// A post buffer as large as the width does not help under back-pressure: the
// requester has a 1-entry response buffer and does not drain it for the first
// 40 cycles. Responses then leave one per cycle, one post-buffer slot frees per
// cycle, and lane 0 always takes it, so lane 1's head is passed by younger
// requests - among them a read of the address lane 1's write is about to set.
func TestSecondLaneIsOvertaken_BackPressure(t *testing.T) {
	b := simplebankedmemory.MakeBuilder().
		WithNumBanks(1).
		WithBankPipelineWidth(2).
		WithBankPipelineDepth(1).
		WithStageLatency(1).
		WithPostPipelineBufferSize(2).
		WithTopPortBufferSize(4)

	agentInBuf = 1
	defer func() { agentInBuf = 4096 }()

	var ops []*op
	for i := 0; i < 12; i++ {
		// alternate: independent read / write X=i / read X ... every read of X
		// must observe the latest earlier write of X
		switch i % 3 {
		case 0:
			ops = append(ops, &op{cycle: 1, addr: 0x1000 + uint64(i)*64, size: 4})
		case 1:
			ops = append(ops, &op{cycle: 1, write: true, addr: 0x200, data: fill(byte(0x10+i), 8)})
		case 2:
			ops = append(ops, &op{cycle: 1, addr: 0x200, size: 8})
		}
	}
	a, c := run(t, b, ops, func(cycle int) bool { return cycle < 40 })
	check(t, a, c, ops)
}

// Control: same histories, width 1 -> matches the flat model.
func TestControl_Width1(t *testing.T) {
	b := simplebankedmemory.MakeBuilder().
		WithNumBanks(1).
		WithBankPipelineWidth(1).
		WithBankPipelineDepth(2).
		WithStageLatency(1)
	ops := []*op{
		{cycle: 1, addr: 0x400, size: 4},
		{cycle: 1, write: true, addr: 0x100, data: fill(0x5A, 16)},
		{cycle: 1, addr: 0x100, size: 16},
		{cycle: 1, addr: 0x800, size: 4},
	}
	a, c := run(t, b, ops, nil)
	check(t, a, c, ops)
}
