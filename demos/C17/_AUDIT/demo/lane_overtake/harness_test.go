package demo_test

// Shared harness for the C17 demos: one requester ("agent") connected through
// an akita direct connection to a simplebankedmemory.Comp, run on the serial
// engine, and a flat byte-array reference model.

import (
	"fmt"
	"sort"
	"testing"

	"github.com/sarchlab/akita/v4/mem/mem"
	"github.com/sarchlab/akita/v4/sim"
	"github.com/sarchlab/akita/v4/sim/directconnection"
	"github.com/sarchlab/mgpusim/v4/amd/timing/mem/simplebankedmemory"
)

// agentInBuf is the capacity of the requester's response buffer.
var agentInBuf = 4096

// op is one request of a history.
type op struct {
	cycle   int // earliest agent cycle at which the request is sent
	write   bool
	addr    uint64
	size    uint64 // reads
	data    []byte // writes
	mask    []bool // writes, optional
	id      string // filled in when sent
	expect  []byte // reads: value according to the flat model
	got     []byte // reads: value in the response
	numRsps int
}

type agent struct {
	*sim.TickingComponent
	port   sim.Port
	dst    sim.RemotePort
	ops    []*op
	next   int
	cycle  int
	byID   map[string]*op
	stray  int
	stall  func(cycle int) bool // when true the agent does not drain responses
	rspLog []string
}

func (a *agent) Tick() bool {
	progress := false
	a.cycle++

	if a.stall == nil || !a.stall(a.cycle) {
		for {
			msg := a.port.RetrieveIncoming()
			if msg == nil {
				break
			}
			progress = true
			switch rsp := msg.(type) {
			case *mem.DataReadyRsp:
				o := a.byID[rsp.RespondTo]
				if o == nil {
					a.stray++
					continue
				}
				o.numRsps++
				o.got = rsp.Data
				a.rspLog = append(a.rspLog, o.id)
			case *mem.WriteDoneRsp:
				o := a.byID[rsp.RespondTo]
				if o == nil {
					a.stray++
					continue
				}
				o.numRsps++
				a.rspLog = append(a.rspLog, o.id)
			default:
				a.stray++
			}
		}
	}

	for a.next < len(a.ops) && a.ops[a.next].cycle <= a.cycle {
		o := a.ops[a.next]
		var msg sim.Msg
		if o.write {
			w := mem.WriteReqBuilder{}.WithSrc(a.port.AsRemote()).WithDst(a.dst).
				WithAddress(o.addr).WithData(o.data).WithDirtyMask(o.mask).Build()
			o.id = w.ID
			msg = w
		} else {
			r := mem.ReadReqBuilder{}.WithSrc(a.port.AsRemote()).WithDst(a.dst).
				WithAddress(o.addr).WithByteSize(o.size).Build()
			o.id = r.ID
			msg = r
		}
		if err := a.port.Send(msg); err != nil {
			break
		}
		a.byID[o.id] = o
		a.next++
		progress = true
	}

	// keep ticking until everything has been sent (ops carry send cycles) or
	// while a stall window is still to come / in effect
	if a.next < len(a.ops) {
		progress = true
	}
	if a.stall != nil && a.cycle < 2000 {
		progress = true
	}
	return progress
}

// flatModel fills in op.expect for every read and returns the final memory.
func flatModel(ops []*op) map[uint64]byte {
	m := map[uint64]byte{}
	for _, o := range ops {
		if o.write {
			for i := range o.data {
				if o.mask == nil || o.mask[i] {
					m[o.addr+uint64(i)] = o.data[i]
				}
			}
		} else {
			o.expect = make([]byte, o.size)
			for i := uint64(0); i < o.size; i++ {
				o.expect[i] = m[o.addr+i]
			}
		}
	}
	return m
}

// run sends the history to a memory built from b and returns the agent and
// the component after the simulation has drained.
func run(t *testing.T, b simplebankedmemory.Builder, ops []*op,
	stall func(int) bool) (*agent, *simplebankedmemory.Comp) {
	t.Helper()
	engine := sim.NewSerialEngine()
	memComp := b.WithEngine(engine).WithFreq(1 * sim.GHz).
		WithNewStorage(1 << 20).Build("DRAM")

	a := &agent{byID: map[string]*op{}, ops: ops, stall: stall}
	a.TickingComponent = sim.NewTickingComponent("Agent", engine, 1*sim.GHz, a)
	a.port = sim.NewPort(a, agentInBuf, 4096, "Agent.Port")
	a.dst = memComp.GetPortByName("Top").AsRemote()

	conn := directconnection.MakeBuilder().WithEngine(engine).
		WithFreq(1 * sim.GHz).Build("Conn")
	conn.PlugIn(a.port)
	conn.PlugIn(memComp.GetPortByName("Top"))

	a.TickLater()
	if err := engine.Run(); err != nil {
		t.Fatal(err)
	}
	if a.next != len(ops) {
		t.Fatalf("harness: only %d of %d requests were sent", a.next, len(ops))
	}
	return a, memComp
}

func describe(o *op) string {
	if o.write {
		return fmt.Sprintf("write addr=0x%x len=%d data[0]=0x%02x mask=%v",
			o.addr, len(o.data), o.data[0], o.mask != nil)
	}
	return fmt.Sprintf("read addr=0x%x len=%d", o.addr, o.size)
}

// check compares every response and the final storage with the flat model.
func check(t *testing.T, a *agent, c *simplebankedmemory.Comp, ops []*op) {
	t.Helper()
	final := flatModel(ops)
	for i, o := range ops {
		if o.numRsps != 1 {
			t.Errorf("request #%d (%s): the property requires exactly one response, got %d",
				i, describe(o), o.numRsps)
		}
		if !o.write && o.numRsps > 0 && string(o.got) != string(o.expect) {
			t.Errorf("request #%d (%s): the property requires a read to return the most "+
				"recent earlier-arrived write (flat model: % x), the memory returned % x",
				i, describe(o), o.expect, o.got)
		}
	}
	if a.stray != 0 {
		t.Errorf("%d responses matched no request", a.stray)
	}
	addrs := make([]uint64, 0, len(final))
	for addr := range final {
		addrs = append(addrs, addr)
	}
	sort.Slice(addrs, func(i, j int) bool { return addrs[i] < addrs[j] })
	reported := 0
	for _, addr := range addrs {
		want := final[addr]
		if reported >= 4 {
			break
		}
		got, err := c.Storage.Read(addr, 1)
		if err != nil {
			t.Fatal(err)
		}
		if got[0] != want {
			reported++
			t.Errorf("final Storage[0x%x]: the property requires same-address writes to take "+
				"effect in arrival order (flat model: 0x%02x), storage holds 0x%02x",
				addr, want, got[0])
		}
	}
}

func fill(v byte, n int) []byte {
	d := make([]byte, n)
	for i := range d {
		d[i] = v
	}
	return d
}
