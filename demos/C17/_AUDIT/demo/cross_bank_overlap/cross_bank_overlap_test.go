// Run from the worktree root:
//
//	export PATH=/opt/veriftools/go1.26.8/bin:$PATH GOTOOLCHAIN=local GOFLAGS=-mod=mod GOPROXY=off GOSUMDB=off
//	go test ./AUDIT/demo/cross_bank_overlap/ -count=1 -v
//
// Defect: middleware.dispatchPending chooses the bank - the ONLY ordering
// domain of the component - from the request's FIRST byte alone
// (bankSelector.Select(req.GetAddress(), ...)); the length of the access is
// never looked at. A request whose bytes extend over an interleave boundary
// (interleave smaller than the access, or an access that is not aligned to the
// interleave) is ordered only against the bank of its first byte, while
// finalizeRead/finalizeWrite apply it to ALL its bytes in Storage. A later
// request to one of the other bytes is routed to a different bank and is not
// ordered after it: it commits first if that bank is less loaded, and even
// without any load when its bank has the lower index (finalizeBanks walks the
// banks in index order within one cycle). No row-buffer model is involved.
package demo_test

import (
	"testing"

	"github.com/sarchlab/mgpusim/v4/amd/timing/mem/simplebankedmemory"
)

// 16-byte interleave, 64-byte ALIGNED accesses (the property quantifies over
// interleave and over sizes 1..64). Bank 0 is busy, so the 64-byte write that
// starts in bank 0 waits; the later 4-byte read of its bytes 16..19 is routed
// to bank 1, which is idle.
func TestInterleaveSmallerThanAccess_BusyBank(t *testing.T) {
	b := simplebankedmemory.MakeBuilder().
		WithNumBanks(4).
		WithLog2InterleaveSize(4).
		WithBankPipelineWidth(1).
		WithBankPipelineDepth(1).
		WithStageLatency(10)

	ops := []*op{
		{cycle: 1, addr: 0x400, size: 4},                          // bank 0, occupies the pipeline
		{cycle: 1, write: true, addr: 0x40, data: fill(0xC3, 64)}, // bank 0, waits behind it
		{cycle: 1, addr: 0x50, size: 4},                           // bytes 16..19 of the write; bank 1
	}
	a, c := run(t, b, ops, nil)
	check(t, a, c, ops)
}

// Default 64-byte interleave, 2 idle banks, nothing else in flight. The write
// starts at 0x60 (bank 1) and covers 0x60..0x9f; the read of 0x80 goes to
// bank 0. Both leave their pipelines in the same cycle and finalizeBanks
// serves bank 0 first.
func TestUnalignedAccess_IdleBanks(t *testing.T) {
	b := simplebankedmemory.MakeBuilder().
		WithNumBanks(2).
		WithLog2InterleaveSize(6)

	ops := []*op{
		{cycle: 1, write: true, addr: 0x60, data: fill(0xC3, 64)},
		{cycle: 1, addr: 0x80, size: 4},
	}
	a, c := run(t, b, ops, nil)
	check(t, a, c, ops)
}

// Two overlapping writes: final contents must be those of the later one.
func TestOverlappingWrites_FinalValue(t *testing.T) {
	b := simplebankedmemory.MakeBuilder().
		WithNumBanks(2).
		WithLog2InterleaveSize(6)

	ops := []*op{
		{cycle: 1, write: true, addr: 0x80, data: fill(0x01, 4)},  // bank 0, older
		{cycle: 1, write: true, addr: 0x60, data: fill(0x02, 64)}, // bank 1, newer, covers 0x80..0x83
	}
	// here the older write is in the lower bank, so this ordering is fine ...
	a, c := run(t, b, ops, nil)
	check(t, a, c, ops)

	ops = []*op{
		{cycle: 1, write: true, addr: 0x60, data: fill(0x02, 64)}, // bank 1, older, covers 0x80..0x83
		{cycle: 1, write: true, addr: 0x80, data: fill(0x01, 4)},  // bank 0, newer
	}
	// ... and here it is not
	a, c = run(t, b, ops, nil)
	check(t, a, c, ops)
}

// Control: one bank -> everything is ordered, all histories above match.
func TestControl_OneBank(t *testing.T) {
	b := simplebankedmemory.MakeBuilder().
		WithNumBanks(1).
		WithLog2InterleaveSize(4).
		WithStageLatency(10)
	ops := []*op{
		{cycle: 1, addr: 0x400, size: 4},
		{cycle: 1, write: true, addr: 0x40, data: fill(0xC3, 64)},
		{cycle: 1, addr: 0x50, size: 4},
		{cycle: 1, write: true, addr: 0x60, data: fill(0x02, 64)},
		{cycle: 1, write: true, addr: 0x80, data: fill(0x01, 4)},
		{cycle: 1, addr: 0x80, size: 4},
	}
	a, c := run(t, b, ops, nil)
	check(t, a, c, ops)
}
