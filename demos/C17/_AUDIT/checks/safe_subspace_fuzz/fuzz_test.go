// NOT a defect demo - this PASSES. It is the evidence for the "checked and
// found correct" list in findings.md.
// Run from the worktree root:
//
//	export PATH=/opt/veriftools/go1.26.8/bin:$PATH GOTOOLCHAIN=local GOFLAGS=-mod=mod GOPROXY=off GOSUMDB=off
//	go test ./AUDIT/checks/safe_subspace_fuzz/ -count=1
//
// 400 random histories x random configurations compared with the flat model,
// restricted to the sub-space where none of the four reported defects can
// fire: pipeline width 1, row model disabled (row size 0 or miss delay 0),
// no access crossing a 64-byte boundary (interleave >= 64). Varied: banks
// 1..32, depth 1..5, stage latency 1..6, interleave 64..256, Top port buffer
// 1..8, post-pipeline buffer 1..4, requester response buffer 1..4 with a random
// window in which the requester does not drain responses (back-pressure),
// random arrival cycles, reads / full writes / masked writes of 1..64 bytes on
// a few hot blocks.
package demo_test

import (
	"math/rand"
	"testing"

	"github.com/sarchlab/mgpusim/v4/amd/timing/mem/simplebankedmemory"
)

func TestFuzzSafeSubspace(t *testing.T) {
	for seed := int64(0); seed < 400; seed++ {
		r := rand.New(rand.NewSource(seed))
		il := uint64(6 + r.Intn(3))
		b := simplebankedmemory.MakeBuilder().
			WithNumBanks(1 + r.Intn(32)).
			WithBankPipelineWidth(1).
			WithBankPipelineDepth(1 + r.Intn(5)).
			WithStageLatency(1 + r.Intn(6)).
			WithLog2InterleaveSize(il).
			WithTopPortBufferSize(1 + r.Intn(8)).
			WithPostPipelineBufferSize(1 + r.Intn(4))
		if r.Intn(2) == 0 {
			b = b.WithRowBufferSizeLog2(uint64(7 + r.Intn(5))) // miss delay 0 => disabled
		} else {
			b = b.WithRowMissDelay(r.Intn(20)) // row size 0 => disabled
		}
		agentInBuf = 1 + r.Intn(4)
		var ops []*op
		n := 20 + r.Intn(100)
		cyc := 1
		for i := 0; i < n; i++ {
			cyc += r.Intn(3) * r.Intn(3)
			blk := uint64(r.Intn(6)) * 64
			if r.Intn(4) == 0 {
				blk = uint64(r.Intn(64)) * 64
			}
			off := uint64(r.Intn(64))
			sz := uint64(1 + r.Intn(int(64-off)))
			o := &op{cycle: cyc, addr: blk + off}
			if r.Intn(2) == 0 {
				o.write = true
				o.data = make([]byte, sz)
				r.Read(o.data)
				if r.Intn(2) == 0 {
					o.mask = make([]bool, sz)
					for j := range o.mask {
						o.mask[j] = r.Intn(2) == 0
					}
				}
			} else {
				o.size = sz
			}
			ops = append(ops, o)
		}
		s0 := 5 + r.Intn(50)
		s1 := s0 + r.Intn(100)
		a, c := run(t, b, ops, func(cy int) bool { return cy >= s0 && cy < s1 })
		check(t, a, c, ops)
		if t.Failed() {
			t.Fatalf("seed %d", seed)
		}
	}
}
