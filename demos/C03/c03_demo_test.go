package emu

// Demonstrations for C03 (run in file-list mode, see README.md in this directory).

import (
	"math"
	"testing"

	"github.com/sarchlab/akita/v4/mem/vm"
	"github.com/sarchlab/mgpusim/v4/amd/insts"
)

// demoState keeps operands in a map keyed by (operand pointer, lane).
type demoState struct {
	inst *insts.Inst
	regs map[*insts.Operand]map[int]uint64
	exec uint64
	vcc  uint64
	scc  byte
	pc   uint64
}

func (s *demoState) PID() vm.PID        { return 1 }
func (s *demoState) Inst() *insts.Inst { return s.inst }
func (s *demoState) ReadOperand(o *insts.Operand, lane int) uint64 {
	return s.regs[o][lane]
}
func (s *demoState) WriteOperand(o *insts.Operand, lane int, v uint64) {
	if s.regs[o] == nil {
		s.regs[o] = map[int]uint64{}
	}
	s.regs[o][lane] = v
}
func (s *demoState) ReadOperandBytes(o *insts.Operand, lane int, n int) []byte { return make([]byte, n) }
func (s *demoState) WriteOperandBytes(o *insts.Operand, lane int, d []byte) {
	var v uint64
	for i := 0; i < len(d) && i < 8; i++ {
		v |= uint64(d[i]) << (8 * uint(i))
	}
	s.WriteOperand(o, lane, v)
}
func (s *demoState) EXEC() uint64                                               { return s.exec }
func (s *demoState) SetEXEC(v uint64)                                           { s.exec = v }
func (s *demoState) VCC() uint64                                                { return s.vcc }
func (s *demoState) SetVCC(v uint64)                                            { s.vcc = v }
func (s *demoState) SCC() byte                                                  { return s.scc }
func (s *demoState) SetSCC(v byte)                                              { s.scc = v }
func (s *demoState) PC() uint64                                                 { return s.pc }
func (s *demoState) SetPC(v uint64)                                             { s.pc = v }

func newDemo(format insts.FormatType, opcode insts.Opcode) *demoState {
	i := insts.NewInst()
	i.FormatType = format
	i.Opcode = opcode
	i.Src0 = insts.NewVRegOperand(0, 0, 1)
	i.Src1 = insts.NewVRegOperand(1, 1, 1)
	i.Src2 = insts.NewVRegOperand(2, 2, 1)
	i.Dst = insts.NewVRegOperand(3, 3, 1)
	i.SDst = insts.NewSRegOperand(0, 0, 2)
	return &demoState{inst: i, regs: map[*insts.Operand]map[int]uint64{}, exec: 1}
}

func TestC03CvtI32F32SaturatesPositive(t *testing.T) {
	s := newDemo(insts.VOP1, 8)
	s.WriteOperand(s.inst.Src0, 0, uint64(math.Float32bits(4e9)))
	NewALU(nil).Run(s)
	if got := uint32(s.ReadOperand(s.inst.Dst, 0)); got != 0x7fffffff {
		t.Errorf("v_cvt_i32_f32(4e9) = %#x, the ISA saturates to 0x7fffffff", got)
	}
}

func TestC03CvtF16F32KeepsMantissa(t *testing.T) {
	s := newDemo(insts.VOP1, 10)
	s.WriteOperand(s.inst.Src0, 0, uint64(math.Float32bits(1.5)))
	NewALU(nil).Run(s)
	if got := uint16(s.ReadOperand(s.inst.Dst, 0)); got != 0x3e00 {
		t.Errorf("v_cvt_f16_f32(1.5) = %#x, half precision 1.5 is 0x3e00", got)
	}
}

func TestC03DivScaleF64PassesS0Through(t *testing.T) {
	s := newDemo(insts.VOP3b, 481)
	// 6.0 / 0.75: denominator scale, S0 == S1
	s.WriteOperand(s.inst.Src0, 0, math.Float64bits(0.75))
	s.WriteOperand(s.inst.Src1, 0, math.Float64bits(0.75))
	s.WriteOperand(s.inst.Src2, 0, math.Float64bits(6.0))
	NewALU(nil).Run(s)
	if got := math.Float64frombits(s.ReadOperand(s.inst.Dst, 0)); got != 0.75 {
		t.Errorf("v_div_scale_f64(0.75, 0.75, 6.0) = %g, no scaling is needed and the result is S0 = 0.75", got)
	}
	if s.ReadOperand(s.inst.SDst, 0) != 0 {
		t.Errorf("v_div_scale_f64 set the scale flag for ordinary operands")
	}
}

// C06: v_div_fmas_f64 must honour the VCC bit of every lane, not only lane 0.
func TestC06DivFmasF64UsesTheLanesOwnVCCBit(t *testing.T) {
	s := newDemo(insts.VOP3a, 483)
	s.inst.Src0 = insts.NewVRegOperand(0, 0, 2)
	s.inst.Src1 = insts.NewVRegOperand(2, 2, 2)
	s.inst.Src2 = insts.NewVRegOperand(4, 4, 2)
	s.inst.Dst = insts.NewVRegOperand(6, 6, 2)
	s.exec = 0b11
	s.vcc = 0b11
	for lane := 0; lane < 2; lane++ {
		s.WriteOperand(s.inst.Src0, lane, math.Float64bits(1.5))
		s.WriteOperand(s.inst.Src1, lane, math.Float64bits(2.0))
		s.WriteOperand(s.inst.Src2, lane, math.Float64bits(0.25))
	}
	NewALU(nil).Run(s)
	l0 := math.Float64frombits(s.ReadOperand(s.inst.Dst, 0))
	l1 := math.Float64frombits(s.ReadOperand(s.inst.Dst, 1))
	if l0 != l1 {
		t.Errorf("identical inputs and VCC bits in lanes 0 and 1 give %g and %g", l0, l1)
	}
}

func TestC03DsReadB64AddsItsOffset(t *testing.T) {
	s := newDemo(insts.DS, 118)
	s.inst.Addr = insts.NewVRegOperand(0, 0, 1)
	s.inst.Dst = insts.NewVRegOperand(2, 2, 2)
	s.inst.Offset0 = 8
	s.WriteOperand(s.inst.Addr, 0, 16)
	alu := NewALU(nil)
	lds := make([]byte, 64)
	for i := range lds {
		lds[i] = byte(i)
	}
	alu.SetLDS(lds)
	alu.Run(s)
	if got := s.ReadOperand(s.inst.Dst, 0); got != 0x1f1e1d1c1b1a1918 {
		t.Errorf("ds_read_b64 v[2:3], v0 offset:8 with v0 = 16 read %#x, LDS bytes 24..31 are 0x1f1e1d1c1b1a1918", got)
	}
}

// KNOWN FINDING R03.18: v_div_fixup_f64 confuses IEEE bit patterns with numbers.
func TestC03DivFixupF64DivisionByZero(t *testing.T) {
	s := newDemo(insts.VOP3a, 479)
	s.inst.Src0 = insts.NewVRegOperand(0, 0, 2)
	s.inst.Src1 = insts.NewVRegOperand(2, 2, 2)
	s.inst.Src2 = insts.NewVRegOperand(4, 4, 2)
	s.inst.Dst = insts.NewVRegOperand(6, 6, 2)
	s.WriteOperand(s.inst.Src0, 0, math.Float64bits(math.Inf(1))) // quotient estimate
	s.WriteOperand(s.inst.Src1, 0, math.Float64bits(0.0))         // denominator
	s.WriteOperand(s.inst.Src2, 0, math.Float64bits(1.0))         // numerator
	NewALU(nil).Run(s)
	if got := math.Float64frombits(s.ReadOperand(s.inst.Dst, 0)); !math.IsInf(got, 1) {
		t.Errorf("v_div_fixup_f64 for 1.0 / 0.0 returns %g, the ISA prescribes +Inf", got)
	}
}
