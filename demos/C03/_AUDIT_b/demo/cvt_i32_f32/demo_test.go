// Run from the worktree root:
//   export PATH=/opt/veriftools/go1.26.8/bin:$PATH GOTOOLCHAIN=local GOFLAGS=-mod=mod GOPROXY=off GOSUMDB=off
//   go test ./AUDIT/demo/cvt_i32_f32/ -count=1 -v
//
// v_cvt_i32_f32 (VOP1 opcode 8): the two ALUs disagree with the manual and
// with each other on the special inputs.
//
// (a) amd/emu/cdna3/vop1.go runVCVTI32F32 has no NaN case. A NaN fails both
//     range tests and reaches `int32(src)`, which on amd64 (CVTTSS2SL) yields
//     0x80000000. The manual: "NaN & Nan & 0 & -0 -> 0". The GCN3 sibling
//     returns 0.
//
// (b) amd/emu/aluvop1.go runVCVTI32F32 returns 0 - MaxInt32 = 0x80000001 for
//     every input <= -2^31, including -2147483648.0 which IS exactly
//     representable ((int)S0.f = 0x80000000); the CDNA3 sibling returns
//     0x80000000 for the same inputs. Whatever one reads into the manual's
//     sloppy "-max_int", the two ALUs cannot both be right on an instruction
//     GCN3 and CDNA3 define identically.
package cvt_i32_f32_test

import (
	"math"
	"testing"
)

func run(t *testing.T, which string, in uint32) uint32 {
	s := newState(decode(t, vop1(8, 0, vgpr(1)))) // v_cvt_i32_f32 v0, v1
	s.SetEXEC(1)
	s.setV(0, 1, in)
	s.setV(0, 0, 0xDEADBEEF)
	bothALUs()[which].Run(s)
	return s.v(0, 0)
}

func TestCvtI32F32NaNIsZero(t *testing.T) {
	for _, nan := range []uint32{0x7FC00000, 0xFFC00000, 0x7F800001} {
		for _, a := range []string{"GCN3", "CDNA3"} {
			if got := run(t, a, nan); got != 0 {
				t.Errorf("%s v_cvt_i32_f32(NaN %#08x): the ISA manual lists \"NaN -> 0\"; got %#x", a, nan, got)
			}
		}
	}
}

func TestCvtI32F32NegativeSaturationAgrees(t *testing.T) {
	for _, in := range []float32{-2147483648, -3e9, float32(math.Inf(-1))} {
		g, c := run(t, "GCN3", math.Float32bits(in)), run(t, "CDNA3", math.Float32bits(in))
		if g != c {
			t.Errorf("v_cvt_i32_f32(%g): GCN3 ALU gives %#x, CDNA3 ALU gives %#x; both ISAs define the "+
				"instruction identically, so one of them is wrong", in, g, c)
		}
	}
	// -2^31 is exactly representable: (int)S0.f is 0x80000000, no saturation involved.
	if got := run(t, "GCN3", math.Float32bits(-2147483648)); got != 0x80000000 {
		t.Errorf("GCN3 v_cvt_i32_f32(-2147483648.0): D.i = (int)S0.f must be 0x80000000 (the value is exactly representable); got %#x", got)
	}
}
