// Run from the worktree root:
//   export PATH=/opt/veriftools/go1.26.8/bin:$PATH GOTOOLCHAIN=local GOFLAGS=-mod=mod GOPROXY=off GOSUMDB=off
//   go test ./AUDIT/demo/cdna3_cmp_class_snan/ -count=1 -v
//
// Defect: amd/emu/cdna3/vopc.go runVCmpClassF32 (VOPC opcode 0x10,
// v_cmp_class_f32). The class mask S1 has one bit per IEEE class:
//   bit 0 signalling NaN, bit 1 quiet NaN, bit 2 -inf, ... bit 9 +inf.
// The handler says "Treat all NaN as quiet NaN (bit 1)": a signalling NaN is
// reported as class 1 and never as class 0, so a test for sNaN (mask 0x001)
// is always false and a test for qNaN only (mask 0x002) is true for sNaN.
package cdna3_cmp_class_snan_test

import "testing"

func TestCDNA3CmpClassDistinguishesSignallingNaN(t *testing.T) {
	const (
		sNaN = 0x7F800001 // exponent all ones, quiet bit (22) clear, mantissa != 0
		qNaN = 0x7FC00000
	)
	cases := []struct {
		val, mask uint32
		want      uint64
		what      string
	}{
		{sNaN, 0x001, 1, "sNaN tested against the sNaN class bit"},
		{sNaN, 0x002, 0, "sNaN tested against the qNaN class bit only"},
		{qNaN, 0x001, 0, "qNaN tested against the sNaN class bit only"},
		{qNaN, 0x002, 1, "qNaN tested against the qNaN class bit"},
		{sNaN, 0x003, 1, "sNaN tested against both NaN bits"},
		{0xFF800001, 0x001, 1, "negative sNaN tested against the sNaN class bit"},
	}
	alu := cdna3ALU()
	inst := decode(t, vopc(0x10, 2, vgpr(1))) // v_cmp_class_f32 vcc, v1, v2
	for _, c := range cases {
		s := newState(inst)
		s.SetEXEC(1)
		s.setV(0, 1, c.val)
		s.setV(0, 2, c.mask)
		alu.Run(s)
		if s.VCC() != c.want {
			t.Errorf("CDNA3 v_cmp_class_f32 S0=%#08x mask=%#05x (%s): VCC[0] must be %d "+
				"(mask bit 0 = signalling NaN, bit 1 = quiet NaN); got VCC=%#x",
				c.val, c.mask, c.what, c.want, s.VCC())
		}
	}
}
