// Run from the worktree root:
//   export PATH=/opt/veriftools/go1.26.8/bin:$PATH GOTOOLCHAIN=local GOFLAGS=-mod=mod GOPROXY=off GOSUMDB=off
//   go test ./AUDIT/demo/minmax_signed_zero/ -count=1 -v
//
// Low-severity corner: amd/emu/util.go MinF32 (used by v_min_f32, VOP2 opcode
// 10, and v_min3_f32 of both ALUs) returns its FIRST argument when the two
// compare equal (`case b < a: return b; ... return a`). The GCN3 manual's
// V_MIN_F32 pseudo-code ends, in both the IEEE and the non-IEEE branch, with
//     else if (S0.f < S1.f) result = S0.f; else result = S1.f;
// i.e. the SECOND operand on equality; the only equal-but-distinguishable
// pair is +0/-0, and hardware (IEEE minNum ordering -0 < +0) also returns -0.
// So v_min_f32(+0.0, -0.0) must be -0.0; the simulator returns +0.0, and the
// sign is observable (1/x, v_rcp_f32, v_cmp_class_f32, bit pattern stores).
package minmax_signed_zero_test

import "testing"

func TestVMinF32OfPlusZeroMinusZero(t *testing.T) {
	for name, alu := range bothALUs() {
		s := newState(decode(t, vop2(10, 0, 2, vgpr(1)))) // v_min_f32 v0, v1, v2
		s.SetEXEC(1)
		s.setV(0, 1, 0x00000000) // S0 = +0.0
		s.setV(0, 2, 0x80000000) // S1 = -0.0
		alu.Run(s)
		if got := s.v(0, 0); got != 0x80000000 {
			t.Errorf("%s v_min_f32(S0=+0.0, S1=-0.0): the manual's pseudo-code (S0<S1 ? S0 : S1) and IEEE minNum "+
				"both give -0.0 = 0x80000000; got %#08x", name, got)
		}
	}
}
