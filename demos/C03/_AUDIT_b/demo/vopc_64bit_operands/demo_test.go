// Run from the worktree root:
//   export PATH=/opt/veriftools/go1.26.8/bin:$PATH GOTOOLCHAIN=local GOFLAGS=-mod=mod GOPROXY=off GOSUMDB=off
//   go test ./AUDIT/demo/vopc_64bit_operands/ -count=1 -v
//
// Defect: the 64-bit unsigned compares in the VOPC (e32) encoding,
// v_cmp_{lt,eq,le,gt,ne,ge}_u64 = VOPC opcodes 0xE9..0xEE, compare only the
// LOW dwords of their operands, in both ALUs:
//   amd/emu/aluvopc.go       runVCmpLtU64 ... runVCmpGeU64
//   amd/emu/cdna3/vopc.go    runVCmpLtU64 ... runVCmpGeU64
// The handlers do `state.ReadOperand(inst.Src0, i)` and rely on the operand's
// RegCount to get 64 bits, but amd/insts/disassembler.go decodeVOPC never
// looks at SRC0Width/SRC1Width (64 in the decode table for these opcodes) and
// leaves RegCount = 0, so ReadOperand returns one register. decodeVOP3a does
// set RegCount = 2, which is why only the e32 form is broken.
package vopc_64bit_operands_test

import "testing"

func TestVCmpU64ReadsBothDwords(t *testing.T) {
	type op struct {
		code uint32
		name string
		f    func(a, b uint64) bool
	}
	ops := []op{
		{0xE9, "v_cmp_lt_u64", func(a, b uint64) bool { return a < b }},
		{0xEA, "v_cmp_eq_u64", func(a, b uint64) bool { return a == b }},
		{0xEB, "v_cmp_le_u64", func(a, b uint64) bool { return a <= b }},
		{0xEC, "v_cmp_gt_u64", func(a, b uint64) bool { return a > b }},
		{0xED, "v_cmp_ne_u64", func(a, b uint64) bool { return a != b }},
		{0xEE, "v_cmp_ge_u64", func(a, b uint64) bool { return a >= b }},
	}
	pairs := [][2]uint64{
		{0x0000000100000000, 0x0000000000000005}, // high dword decides
		{0x0000000200000007, 0x0000000300000007}, // equal low dwords
		{0xFFFFFFFF00000000, 0x00000000FFFFFFFF},
	}
	for name, alu := range bothALUs() {
		for _, o := range ops {
			// v_cmp_*_u64 vcc, v[0:1], v[2:3]
			inst := decode(t, vopc(o.code, 2, vgpr(0)))
			for _, p := range pairs {
				s := newState(inst)
				s.SetEXEC(1)
				s.setV(0, 0, uint32(p[0]))
				s.setV(0, 1, uint32(p[0]>>32))
				s.setV(0, 2, uint32(p[1]))
				s.setV(0, 3, uint32(p[1]>>32))
				alu.Run(s)
				want := uint64(0)
				if o.f(p[0], p[1]) {
					want = 1
				}
				if s.VCC() != want {
					t.Errorf("%s %s_e32 vcc, v[0:1], v[2:3] with v[0:1]=%#x v[2:3]=%#x: "+
						"the ISA compares the 64-bit values, VCC[0] must be %d; got VCC=%#x "+
						"(decoder gave Src0.RegCount=%d Src1.RegCount=%d, so only the low dwords were read)",
						name, o.name, p[0], p[1], want, s.VCC(), inst.Src0.RegCount, inst.Src1.RegCount)
				}
			}
		}
	}
}
