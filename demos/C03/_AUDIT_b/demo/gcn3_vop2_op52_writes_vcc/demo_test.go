// Run from the worktree root:
//   export PATH=/opt/veriftools/go1.26.8/bin:$PATH GOTOOLCHAIN=local GOFLAGS=-mod=mod GOPROXY=off GOSUMDB=off
//   go test ./AUDIT/demo/gcn3_vop2_op52_writes_vcc/ -count=1 -v
//
// Low-severity sibling divergence: amd/emu/aluvop2.go runVOP2 accepts VOP2
// opcodes 52, 53, 54 ("v_add_u32_e32 (GCN3 encoding)" says the comment) and
// runs them through the carry-writing handlers runVADDI32 / runVSUBI32 /
// runVSUBREVI32, which overwrite VCC. The GCN3 manual defines no VOP2 opcode
// above 51; 52..54 exist only from GFX9 on (docs/cdna3_insts.pdf Table 77:
// V_ADD_U32, V_SUB_U32, V_SUBREV_U32), where they are the NO-carry forms that
// leave VCC untouched - which is how the CDNA3 ALU (runVADDU32 etc.) and the
// decode table ("CDNA3 VOP2 instructions") treat them. A kernel that keeps a
// live compare result in VCC across a v_add_u32 loses it on the GCN3 ALU.
package gcn3_vop2_op52_writes_vcc_test

import "testing"

func TestNoCarryAddLeavesVCCAlone(t *testing.T) {
	for _, op := range []uint32{52, 53, 54} {
		inst := decode(t, vop2(op, 0, 2, vgpr(1)))
		got := map[string]uint64{}
		for name, alu := range bothALUs() {
			s := newState(inst)
			s.SetEXEC(1)
			s.SetVCC(0xAA)
			s.setV(0, 1, 7)
			s.setV(0, 2, 9)
			alu.Run(s)
			got[name] = s.VCC()
			if s.VCC() != 0xAA {
				t.Errorf("%s VOP2 opcode %d (%s): the only ISA that defines this opcode says it has no carry-out, "+
					"VCC must stay 0xaa; got %#x", name, op, inst.InstName, s.VCC())
			}
		}
	}
}
