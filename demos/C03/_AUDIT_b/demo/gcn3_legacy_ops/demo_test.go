// Run from the worktree root:
//   export PATH=/opt/veriftools/go1.26.8/bin:$PATH GOTOOLCHAIN=local GOFLAGS=-mod=mod GOPROXY=off GOSUMDB=off
//   go test ./AUDIT/demo/gcn3_legacy_ops/ -count=1 -v
//
// Two "legacy" opcodes of the GCN3 ALU execute the wrong operation.
//
// (a) amd/emu/aluvop1.go runLogLegacyF32 (VOP1 opcode 76, v_log_legacy_f32)
//     copies S0 to D. GCN3 manual: "V_LOG_LEGACY_F32: D.f = log2(S0.f)". The
//     CDNA3 sibling of the same name computes math.Log2.
//
// (b) amd/emu/aluvop2.go runVOP2 sends opcode 4 (v_mul_legacy_f32) to
//     runVMULF32, the IEEE multiply. GCN3 manual: "V_MUL_LEGACY_F32:
//     D.f = S0.f * S1.f (DX9 rules, 0.0*x = 0.0)". The IEEE product of 0 and
//     infinity / NaN is NaN.
package gcn3_legacy_ops_test

import (
	"math"
	"testing"
)

func TestGCN3LogLegacyF32(t *testing.T) {
	alu := gcn3ALU()
	for _, in := range []float32{8, 1, 0.5, 1024} {
		s := newState(decode(t, vop1(76, 0, vgpr(1)))) // v_log_legacy_f32 v0, v1
		if s.inst.InstName != "v_log_legacy_f32" {
			t.Fatalf("decoded %s", s.inst.InstName)
		}
		s.SetEXEC(1)
		s.setV(0, 1, math.Float32bits(in))
		alu.Run(s)
		got := math.Float32frombits(s.v(0, 0))
		want := float32(math.Log2(float64(in)))
		if got != want {
			t.Errorf("GCN3 v_log_legacy_f32(%g): D.f = log2(S0.f) must be %g; got %g (the source was copied)", in, want, got)
		}
	}
}

func TestGCN3MulLegacyF32ZeroTimesAnythingIsZero(t *testing.T) {
	alu := gcn3ALU()
	inf := math.Float32bits(float32(math.Inf(1)))
	nan := uint32(0x7FC00000)
	for _, c := range [][2]uint32{{0, inf}, {inf, 0}, {0x80000000, inf}, {0, nan}, {nan, 0}} {
		s := newState(decode(t, vop2(4, 0, 2, vgpr(1)))) // v_mul_legacy_f32 v0, v1, v2
		if s.inst.InstName != "v_mul_legacy_f32" {
			t.Fatalf("decoded %s", s.inst.InstName)
		}
		s.SetEXEC(1)
		s.setV(0, 1, c[0])
		s.setV(0, 2, c[1])
		alu.Run(s)
		got := s.v(0, 0)
		if got&0x7FFFFFFF != 0 {
			t.Errorf("GCN3 v_mul_legacy_f32(%#08x, %#08x): DX9 rules, 0.0*x = 0.0, so D must be a zero; got %#08x (%g)",
				c[0], c[1], got, math.Float32frombits(got))
		}
	}
	// and ordinary products must still be IEEE products
	s := newState(decode(t, vop2(4, 0, 2, vgpr(1))))
	s.SetEXEC(1)
	s.setV(0, 1, math.Float32bits(3))
	s.setV(0, 2, math.Float32bits(0.5))
	alu.Run(s)
	if got := math.Float32frombits(s.v(0, 0)); got != 1.5 {
		t.Errorf("v_mul_legacy_f32(3, 0.5) = %g", got)
	}
}
