// Run from the worktree root:
//   export PATH=/opt/veriftools/go1.26.8/bin:$PATH GOTOOLCHAIN=local GOFLAGS=-mod=mod GOPROXY=off GOSUMDB=off
//   go test ./AUDIT/demo/gcn3_sdwa_add_carry/ -count=1 -v
//
// Defect: amd/emu/aluvop2.go, (*ALUImpl).runVADDI32SDWA (GCN3 ALU, VOP2 opcode
// 25 v_add_u32 in its SDWA encoding). VCC is computed as the SIGNED overflow
// of the two selected operands
//     (src1 > 0 && src0 > MaxInt32-src1) || (src1 < 0 && src0 < MinInt32+src1)
// whereas the ISA defines VCC as the UNSIGNED carry-out, exactly as the
// non-SDWA sibling runVADDI32Regular computes it.
package gcn3_sdwa_add_carry_test

import "testing"

func TestVAddU32SdwaCarryIsUnsigned(t *testing.T) {
	// SDWA dword: SRC0=v1, DST_SEL=DWORD(6), DST_UNUSED=PAD(0),
	// SRC0_SEL=DWORD(6), SRC1_SEL=DWORD(6): the selects are the identity, so
	// the instruction must behave exactly like plain v_add_u32 v0, vcc, v1, v2.
	sdwa := uint32(1) | 6<<8 | 0<<11 | 6<<16 | 6<<24
	sdwaInst := decode(t, vop2(25, 0, 2, 249), sdwa)
	if !sdwaInst.IsSdwa {
		t.Fatal("expected an SDWA instruction")
	}
	plainInst := decode(t, vop2(25, 0, 2, vgpr(1)))

	cases := [][2]uint32{
		{0xFFFFFFFF, 1},          // carry, no signed overflow
		{0x80000000, 0x80000000}, // carry and signed overflow
		{0x7FFFFFFF, 1},          // NO carry, but signed overflow
		{0xFFFFFFFF, 0xFFFFFFFF}, // carry, no signed overflow
		{3, 4},
	}
	alu := gcn3ALU()
	for _, c := range cases {
		sum := uint64(c[0]) + uint64(c[1])
		wantD, wantVCC := uint32(sum), sum>>32

		p := newState(plainInst)
		p.SetEXEC(1)
		p.setV(0, 1, c[0])
		p.setV(0, 2, c[1])
		alu.Run(p)
		if p.v(0, 0) != wantD || p.VCC() != wantVCC {
			t.Errorf("plain v_add_u32 %#x+%#x: want D=%#x VCC=%d, got D=%#x VCC=%#x",
				c[0], c[1], wantD, wantVCC, p.v(0, 0), p.VCC())
		}

		s := newState(sdwaInst)
		s.SetEXEC(1)
		s.setV(0, 1, c[0])
		s.setV(0, 2, c[1])
		alu.Run(s)
		if s.v(0, 0) != wantD || s.VCC() != wantVCC {
			t.Errorf("v_add_u32_sdwa (all selects DWORD) %#x+%#x: the ISA requires D=%#x and "+
				"VCC[0]=%d (unsigned carry-out: S0.u+S1.u >= 2^32); got D=%#x VCC=%#x "+
				"(the handler reports the signed overflow instead)",
				c[0], c[1], wantD, wantVCC, s.v(0, 0), s.VCC())
		}
	}
}
