// Run from the worktree root:
//   export PATH=/opt/veriftools/go1.26.8/bin:$PATH GOTOOLCHAIN=local GOFLAGS=-mod=mod GOPROXY=off GOSUMDB=off
//   go test ./AUDIT/demo/cvt_f16_f32/ -count=1 -v
//
// Defect: v_cvt_f16_f32 (VOP1 opcode 10) in BOTH ALUs:
//   amd/emu/aluvop1.go        (*ALUImpl).runVCVTF16F32
//   amd/emu/cdna3/vop1.go     (*ALU).runVCVTF16F32 / float32ToFloat16
// Both drop the 13 low mantissa bits (round toward zero) instead of rounding
// (the hardware rounds according to MODE.round, round-to-nearest-even by
// default), both flush every result below 2^-14 to zero although the manual
// says the instruction "creates FP16 denormals when appropriate", the GCN3
// handler turns a NaN whose 10 upper mantissa bits are zero into INFINITY, and
// the CDNA3 helper turns every quiet NaN into the signalling NaN 0x7C01.
package cvt_f16_f32_test

import (
	"math"
	"testing"
)

// refF32ToF16 is IEEE-754 binary32 -> binary16 with round-to-nearest-even,
// gradual underflow, overflow to infinity; NaN stays NaN (quiet bit kept).
func refF32ToF16(b uint32) uint16 {
	sign := uint16(b>>16) & 0x8000
	exp := int(b>>23) & 0xFF
	man := b & 0x7FFFFF
	if exp == 0xFF {
		if man == 0 {
			return sign | 0x7C00
		}
		m := uint16(man >> 13)
		if m == 0 {
			m = 1 // keep it a NaN
		}
		return sign | 0x7C00 | m
	}
	if exp == 0 { // f32 zero/denormal: far below the f16 range
		return sign
	}
	e := exp - 127 + 15
	m := man | 0x800000 // 24-bit significand
	var shift uint
	if e >= 1 {
		shift = 13
	} else {
		shift = uint(13 + 1 - e)
		e = 0
		if shift > 25 {
			return sign
		}
	}
	q := m >> shift
	rem := m & (1<<shift - 1)
	half := uint32(1) << (shift - 1)
	if rem > half || (rem == half && q&1 == 1) {
		q++
	}
	var r uint32
	if e >= 1 {
		r = uint32(e-1)<<10 + q // q carries the hidden bit: adds 1 to the exponent
	} else {
		r = q
	}
	if r >= 0x7C00 {
		r = 0x7C00
	}
	return sign | uint16(r)
}

func TestCvtF16F32(t *testing.T) {
	// sanity of the reference itself
	for _, c := range []struct {
		in   float32
		want uint16
	}{{1, 0x3C00}, {-2, 0xC000}, {65504, 0x7BFF}, {0.5, 0x3800}, {6.103515625e-05, 0x0400}} {
		if got := refF32ToF16(math.Float32bits(c.in)); got != c.want {
			t.Fatalf("reference broken: %v -> %#x want %#x", c.in, got, c.want)
		}
	}

	cases := []struct {
		bits uint32
		what string
	}{
		{0x3F801800, "1+1.5*2^-11: above the midpoint, must round UP to 0x3C01"},
		{0x3F803000, "1+3*2^-11: a tie, must round to the even neighbour 0x3C02"},
		{0x3F7FF000, "0.99976: above the midpoint, must round up to 1.0 = 0x3C00"},
		{0x477FF000, "65520: the tie above the largest half, rounds to +Inf 0x7C00"},
		{0xC77FF000, "-65520: rounds to -Inf 0xFC00"},
		{0x38000000, "2^-15: representable as the f16 denormal 0x0200"},
		{0x33800000, "2^-24: the smallest f16 denormal 0x0001"},
		{0xB8400000, "-1.5*2^-15: the f16 denormal 0x8300"},
		{0x387FC000, "0.999*2^-14: the largest f16 denormals, 0x03FF"},
	}
	for name, alu := range bothALUs() {
		inst := decode(t, vop1(10, 0, vgpr(1))) // v_cvt_f16_f32 v0, v1
		for _, c := range cases {
			s := newState(inst)
			s.SetEXEC(1)
			s.setV(0, 1, c.bits)
			s.setV(0, 0, 0xDEADBEEF)
			alu.Run(s)
			want := refF32ToF16(c.bits)
			if got := s.v(0, 0); got != uint32(want) {
				t.Errorf("%s v_cvt_f16_f32(%#08x = %g): D.f16 = flt32_to_flt16(S0.f) must be %#04x (%s); got %#x",
					name, c.bits, math.Float32frombits(c.bits), want, c.what, got)
			}
		}

		// NaN handling: a NaN must stay a NaN, a quiet NaN must stay quiet.
		for _, nan := range []uint32{0x7F800001, 0x7F801FFF, 0xFF800100, 0x7FC00000, 0x7FC00001} {
			s := newState(inst)
			s.SetEXEC(1)
			s.setV(0, 1, nan)
			alu.Run(s)
			got := s.v(0, 0)
			isNaN := got&0x7C00 == 0x7C00 && got&0x3FF != 0
			if !isNaN {
				t.Errorf("%s v_cvt_f16_f32(NaN %#08x) must be an f16 NaN (exp=0x1F, mantissa!=0); got %#x (%s)",
					name, nan, got, f16name(got))
			} else if nan&0x400000 != 0 && got&0x200 == 0 {
				t.Errorf("%s v_cvt_f16_f32(quiet NaN %#08x) must be a quiet f16 NaN (bit 9 set, e.g. 0x7E00); got the signalling NaN %#x",
					name, nan, got)
			}
		}
	}
}

func f16name(v uint32) string {
	if v&0x7FFF == 0x7C00 {
		return "an INFINITY"
	}
	return "a finite number"
}
