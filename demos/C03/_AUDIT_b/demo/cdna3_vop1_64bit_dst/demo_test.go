// Run from the worktree root:
//   export PATH=/opt/veriftools/go1.26.8/bin:$PATH GOTOOLCHAIN=local GOFLAGS=-mod=mod GOPROXY=off GOSUMDB=off
//   go test ./AUDIT/demo/cdna3_vop1_64bit_dst/ -count=1 -v
//
// Two CDNA3 VOP1 instructions with a 64-bit destination only write its low
// dword.
//
// (a) v_cvt_f64_u32 (VOP1 opcode 22), amd/emu/cdna3/vop1.go runVCVTF64U32:
//     the handler hands the 64 bits of the double to WriteOperand, but the
//     decode table (amd/insts/decodetable.go) lists v_cvt_f64_u32 with
//     DSTWidth 32 and decodeVOP1 special-cases only opcodes 4, 15 and 16, so
//     Dst.RegCount stays 0 and WriteOperand keeps 4 bytes. Its sibling
//     v_cvt_f64_i32 (opcode 4) is handled correctly.
//
// (b) VOP1 opcode 56. docs/cdna3_insts.pdf, Table 79 "VOP1 Opcodes", lists
//     opcode 56 as V_MOV_B64 (V_MOVRELSD_B32 is the GCN3 meaning of 56 and
//     does not exist in CDNA3). cdna3.ALU.runVOP1 dispatches 56 to
//     runVMOVRELSDB32, "equivalent to a lane-wise move" of ONE dword, so the
//     high half of the destination pair keeps its old value.
package cdna3_vop1_64bit_dst_test

import (
	"math"
	"testing"
)

func TestCDNA3CvtF64U32WritesWholeDouble(t *testing.T) {
	alu := cdna3ALU()
	for _, in := range []uint32{3, 0xFFFFFFFF, 1} {
		s := newState(decode(t, vop1(22, 4, vgpr(1)))) // v_cvt_f64_u32 v[4:5], v1
		s.SetEXEC(1)
		s.setV(0, 1, in)
		s.setV(0, 4, 0xDEADBEEF)
		s.setV(0, 5, 0xDEADBEEF)
		alu.Run(s)
		want := math.Float64bits(float64(in))
		if got := s.v64(0, 4); got != want {
			t.Errorf("CDNA3 v_cvt_f64_u32 v[4:5], v1 with v1=%d: D.d = (double)S0.u must be %#016x (%g); "+
				"v[4:5] = %#016x - v5 still holds its old value 0xDEADBEEF",
				in, want, float64(in), got)
		}

		// the signed sibling, for comparison
		s = newState(decode(t, vop1(4, 4, vgpr(1)))) // v_cvt_f64_i32 v[4:5], v1
		s.SetEXEC(1)
		s.setV(0, 1, in)
		s.setV(0, 5, 0xDEADBEEF)
		alu.Run(s)
		if got, want := s.v64(0, 4), math.Float64bits(float64(int32(in))); got != want {
			t.Errorf("CDNA3 v_cvt_f64_i32: want %#x got %#x", want, got)
		}
	}
}

func TestCDNA3Opcode56IsMovB64(t *testing.T) {
	alu := cdna3ALU()
	s := newState(decode(t, vop1(56, 4, vgpr(2)))) // CDNA3: v_mov_b64 v[4:5], v[2:3]
	s.SetEXEC(1)
	s.setV(0, 2, 0x11111111)
	s.setV(0, 3, 0x22222222)
	s.setV(0, 4, 0xDEADBEEF)
	s.setV(0, 5, 0xDEADBEEF)
	alu.Run(s)
	if got, want := s.v64(0, 4), uint64(0x2222222211111111); got != want {
		t.Errorf("CDNA3 VOP1 opcode 56 is V_MOV_B64 (docs/cdna3_insts.pdf Table 79): "+
			"v_mov_b64 v[4:5], v[2:3] must copy 64 bits, v[4:5] = %#016x; got %#016x "+
			"(only one dword moved; the ALU treats the opcode as GCN3's v_movrelsd_b32)", want, got)
	}
}
