// Run from the worktree root:
//   export PATH=/opt/veriftools/go1.26.8/bin:$PATH GOTOOLCHAIN=local GOFLAGS=-mod=mod GOPROXY=off GOSUMDB=off
//   go test ./AUDIT/demo/f64_constant_operands/ -count=1 -v
//
// Defect: constant source operands of the 64-bit VOP1 instructions
// (v_rcp_f64 opcode 37, v_cvt_f32_f64 opcode 15) have the wrong value in both
// ALUs. The handlers (amd/emu/aluvop1.go runVRCPF64 / runVCVTF32F64 and their
// cdna3 copies) do math.Float64frombits(state.ReadOperand(inst.Src0, i)), and
// ReadOperand (amd/emu/wavefront.go and amd/timing/wavefront/wavefront.go)
// returns
//   - for an inline float constant: uint64(Float32bits(float32(value))), the
//     SINGLE precision pattern in the low dword,
//   - for a literal: uint64(literal), the literal in the LOW dword.
// GCN3 manual section 6.2.1: inline constants 240..248 are the floating point
// values 0.5 .. 1/(2*PI) in the precision of the instruction, and "when a
// literal constant is used with a 64-bit instruction, the literal is expanded
// to 64 bits by padding the LSBs with zeros for floats" (i.e. the literal is
// the HIGH dword of the double).
package f64_constant_operands_test

import (
	"math"
	"testing"
)

func TestF64InlineAndLiteralConstants(t *testing.T) {
	for name, alu := range bothALUs() {
		// v_rcp_f64 v[4:5], 2.0     (inline constant 244)
		s := newState(decode(t, vop1(37, 4, 244)))
		s.SetEXEC(1)
		alu.Run(s)
		if got := math.Float64frombits(s.v64(0, 4)); got != 0.5 {
			t.Errorf("%s v_rcp_f64 v[4:5], 2.0 (inline constant): 1/2.0 must be 0.5; got %g", name, got)
		}

		// v_cvt_f32_f64 v0, -4.0    (inline constant 247)
		s = newState(decode(t, vop1(15, 0, 247)))
		s.SetEXEC(1)
		alu.Run(s)
		if got := math.Float32frombits(s.v(0, 0)); got != -4 {
			t.Errorf("%s v_cvt_f32_f64 v0, -4.0 (inline constant): must be -4; got %g", name, got)
		}

		// v_rcp_f64 v[4:5], 0x40100000   (literal = high dword of 4.0)
		s = newState(decode(t, vop1(37, 4, 255), 0x40100000))
		s.SetEXEC(1)
		alu.Run(s)
		if got := math.Float64frombits(s.v64(0, 4)); got != 0.25 {
			t.Errorf("%s v_rcp_f64 v[4:5], lit(0x40100000): the literal is the high dword of the double (4.0), "+
				"1/4.0 must be 0.25; got %g", name, got)
		}
	}
}
