// Run from the worktree root:
//   export PATH=/opt/veriftools/go1.26.8/bin:$PATH GOTOOLCHAIN=local GOFLAGS=-mod=mod GOPROXY=off GOSUMDB=off
//   go test ./AUDIT/demo/gcn3_vaddc_carry/ -count=1 -v
//
// Defect: amd/emu/aluvop2.go, (*ALUImpl).runVADDCU32 (GCN3 ALU, VOP2 opcode
// 28, v_addc_u32). The carry-out test
//     if src0 > math.MaxUint32-carry-src1 { newVCC |= ... }
// is evaluated in uint64; with S1 = 0xFFFFFFFF and carry-in = 1 the right-hand
// side is MaxUint32-1-MaxUint32 = -1, which wraps to 0xFFFFFFFFFFFFFFFF, so
// the comparison is never true and the carry-out is dropped for EVERY S0.
package gcn3_vaddc_carry_test

import "testing"

// spec: GCN3 ISA manual, V_ADDC_U32:
//   D.u = S0.u + S1.u + VCC[threadId];
//   VCC[threadId] = (S0.u + S1.u + VCC[threadId] >= 0x100000000 ? 1 : 0)
func specAddc(s0, s1 uint32, cin uint64) (uint32, uint64) {
	sum := uint64(s0) + uint64(s1) + cin
	return uint32(sum), sum >> 32
}

func TestVAddcCarryOutWithAllOnesAddend(t *testing.T) {
	corner := []uint32{0, 1, 5, 0x7FFFFFFF, 0x80000000, 0xFFFFFFFE, 0xFFFFFFFF}
	inst := decode(t, vop2(28, 0, 2, vgpr(1))) // v_addc_u32 v0, vcc, v1, v2, vcc
	for name, alu := range bothALUs() {
		for _, s0 := range corner {
			for _, s1 := range corner {
				for cin := uint64(0); cin < 2; cin++ {
					s := newState(inst)
					s.SetEXEC(1)
					s.SetVCC(cin)
					s.setV(0, 1, s0)
					s.setV(0, 2, s1)
					alu.Run(s)
					wantD, wantC := specAddc(s0, s1, cin)
					if s.v(0, 0) != wantD || s.VCC() != wantC {
						t.Errorf("%s v_addc_u32: %#x + %#x + carry-in %d must give D=%#x and carry-out VCC[0]=%d "+
							"(ISA: VCC = S0+S1+VCC >= 2^32); got D=%#x VCC=%#x",
							name, s0, s1, cin, wantD, wantC, s.v(0, 0), s.VCC())
					}
				}
			}
		}
	}
}

// The same defect seen by a program: a 96-bit addition done with the usual
// v_add_u32 / v_addc_u32 / v_addc_u32 chain. a = 0x00000007_00000005_00000001,
// b = 0x00000000_FFFFFFFF_FFFFFFFF; a+b = 0x00000008_00000005_00000000.
func TestVAddcChain96Bit(t *testing.T) {
	alu := gcn3ALU()
	a := [3]uint32{1, 5, 7}
	b := [3]uint32{0xFFFFFFFF, 0xFFFFFFFF, 0}
	prog := []uint32{
		vop2(25, 6, 3, vgpr(0)), // v_add_u32  v6, vcc, v0, v3
		vop2(28, 7, 4, vgpr(1)), // v_addc_u32 v7, vcc, v1, v4, vcc
		vop2(28, 8, 5, vgpr(2)), // v_addc_u32 v8, vcc, v2, v5, vcc
	}
	s := newState(nil)
	s.SetEXEC(1)
	for i := 0; i < 3; i++ {
		s.setV(0, i, a[i])
		s.setV(0, 3+i, b[i])
	}
	for _, w := range prog {
		s.inst = decode(t, w)
		alu.Run(s)
	}
	got := [3]uint32{s.v(0, 6), s.v(0, 7), s.v(0, 8)}
	want := [3]uint32{0, 5, 8}
	if got != want {
		t.Errorf("GCN3 96-bit add chain: %#x + %#x must be %#x (little-endian dwords); got %#x - "+
			"the carry out of the middle v_addc_u32 (5 + 0xFFFFFFFF + 1) was lost", a, b, want, got)
	}
}
