package gcn3_vaddc_carry_test

// Shared harness of the C03b audit demos (copied into every demo directory so
// that each directory is self-contained).
//
// The state an instruction runs on is a real emu.Wavefront (register files,
// EXEC, VCC, SCC, M0); only Inst() is overridden because emu.Wavefront has no
// exported way of installing the instruction to execute. Instructions are
// produced by the production decoder (insts.Disassembler.Decode) from their
// machine encoding, so the demos exercise exactly what a kernel binary would.

import (
	"encoding/binary"
	"testing"

	"github.com/sarchlab/mgpusim/v4/amd/emu"
	"github.com/sarchlab/mgpusim/v4/amd/emu/cdna3"
	"github.com/sarchlab/mgpusim/v4/amd/insts"
)

type state struct {
	*emu.Wavefront
	inst *insts.Inst
}

func (s *state) Inst() *insts.Inst { return s.inst }

func newState(inst *insts.Inst) *state {
	return &state{Wavefront: emu.NewWavefront(nil), inst: inst}
}

func (s *state) setV(lane, reg int, v uint32) {
	binary.LittleEndian.PutUint32(s.VRegFile[lane*1024+reg*4:], v)
}

func (s *state) v(lane, reg int) uint32 { return s.VRegValue(lane, reg) }

func (s *state) v64(lane, reg int) uint64 {
	return uint64(s.v(lane, reg+1))<<32 | uint64(s.v(lane, reg))
}

// decode runs the production decoder on the given instruction dwords.
func decode(t *testing.T, words ...uint32) *insts.Inst {
	t.Helper()
	buf := make([]byte, 4*len(words)+8)
	for i, w := range words {
		binary.LittleEndian.PutUint32(buf[4*i:], w)
	}
	inst, err := insts.NewDisassembler().Decode(buf)
	if err != nil {
		t.Fatalf("decode %08x: %v", words, err)
	}
	return inst
}

// Encoders of the three 32-bit vector ALU formats (GCN3 ISA manual ch. 13).
func vop1(op, vdst, src0 uint32) uint32 { return 0x7E000000 | vdst<<17 | op<<9 | src0 }
func vop2(op, vdst, vsrc1, src0 uint32) uint32 {
	return op<<25 | vdst<<17 | vsrc1<<9 | src0
}
func vopc(op, vsrc1, src0 uint32) uint32 { return 0x7C000000 | op<<17 | vsrc1<<9 | src0 }

// vgpr returns the 9-bit SRC0 code of VGPR n.
func vgpr(n uint32) uint32 { return 256 + n }

func gcn3ALU() emu.ALU  { return emu.NewALU(nil) }
func cdna3ALU() emu.ALU { return cdna3.NewALU(nil) }

func bothALUs() map[string]emu.ALU {
	return map[string]emu.ALU{"GCN3": gcn3ALU(), "CDNA3": cdna3ALU()}
}
