// Run from the worktree root:
//   export PATH=/opt/veriftools/go1.26.8/bin:$PATH GOTOOLCHAIN=local GOFLAGS=-mod=mod GOPROXY=off GOSUMDB=off
//   go test ./AUDIT/demo/cdna3_vcc_partial_update/ -count=1 -v
//
// Defect: amd/emu/cdna3/vop2.go runVADDCU32, runVSUBBU32, runVSUBBREVU32
// (VOP2 opcodes 28, 29, 30: v_addc_co_u32, v_subb_co_u32, v_subbrev_co_u32).
// They start from the OLD VCC (`vcc := state.VCC()`) and only set/clear the
// bits of active lanes, so the VCC bits of inactive lanes keep their stale
// carry-in value. The ISA manual (GCN3 manual section 3.9 "Vector Compares: VCC and VCCZ", same text in
// the CDNA3 manual): "VCC is always fully written; there are no partial mask
// updates", and VCC[n] = EXEC[n] & result[n] for the compares. Every sibling
// agrees with the manual: the GCN3 handlers of the same three opcodes
// (amd/emu/aluvop2.go, `var newVCC uint64`), and CDNA3's own v_add_co_u32 /
// v_sub_co_u32 / v_subrev_co_u32 and all VOPC compares (`var vcc uint64`).
package cdna3_vcc_partial_update_test

import "testing"

func TestCarryOutWritesAllOfVCC(t *testing.T) {
	const exec = uint64(0x0F)               // lanes 0-3 active
	const oldVCC = uint64(0xFFFF_0000_0000_00F5) // carry-in for lanes 0,2; stale bits elsewhere
	ops := []struct {
		code uint32
		name string
		f    func(s0, s1 uint32, c uint64) uint64 // carry/borrow out
	}{
		{28, "v_addc_co_u32", func(a, b uint32, c uint64) uint64 { return (uint64(a) + uint64(b) + c) >> 32 }},
		{29, "v_subb_co_u32", func(a, b uint32, c uint64) uint64 {
			if uint64(b)+c > uint64(a) {
				return 1
			}
			return 0
		}},
		{30, "v_subbrev_co_u32", func(a, b uint32, c uint64) uint64 {
			if uint64(a)+c > uint64(b) {
				return 1
			}
			return 0
		}},
	}
	s0 := [4]uint32{0xFFFFFFFF, 1, 7, 0}
	s1 := [4]uint32{0, 1, 7, 1}
	for _, o := range ops {
		inst := decode(t, vop2(o.code, 0, 2, vgpr(1)))
		var want uint64
		for l := 0; l < 4; l++ {
			want |= o.f(s0[l], s1[l], oldVCC>>uint(l)&1) << uint(l)
		}
		got := map[string]uint64{}
		for name, alu := range bothALUs() {
			s := newState(inst)
			s.SetEXEC(exec)
			s.SetVCC(oldVCC)
			for l := 0; l < 4; l++ {
				s.setV(l, 1, s0[l])
				s.setV(l, 2, s1[l])
			}
			alu.Run(s)
			got[name] = s.VCC()
			if s.VCC() != want {
				t.Errorf("%s %s with EXEC=%#x, old VCC=%#x: VCC is always fully written "+
					"(bits of inactive lanes become 0), so VCC must be %#x; got %#x",
					name, o.name, exec, oldVCC, want, s.VCC())
			}
		}
		if got["GCN3"] != got["CDNA3"] {
			t.Errorf("%s: the two ALUs disagree on an instruction both ISAs define identically: GCN3 VCC=%#x, CDNA3 VCC=%#x",
				o.name, got["GCN3"], got["CDNA3"])
		}
	}
}
