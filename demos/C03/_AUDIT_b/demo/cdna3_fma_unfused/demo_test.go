// Run from the worktree root:
//   export PATH=/opt/veriftools/go1.26.8/bin:$PATH GOTOOLCHAIN=local GOFLAGS=-mod=mod GOPROXY=off GOSUMDB=off
//   go test ./AUDIT/demo/cdna3_fma_unfused/ -count=1 -v
//
// Defect: amd/emu/cdna3/vop2.go runVFMACF32 (VOP2 opcode 59, v_fmac_f32),
// runVFMAAKF32 (opcode 24, v_fmaak_f32) and runVFMAMKF32 (opcode 23,
// v_fmamk_f32). docs/cdna3_insts.pdf Table 77 names these opcodes V_FMAC_F32,
// V_FMAAK_F32 and V_FMAMK_F32: FUSED multiply-adds, one rounding of the exact
// a*b+c. The handlers compute `src0*src1 + dst` in float32, which the Go
// compiler (amd64, GOAMD64=v1) executes as a rounded multiply followed by a
// rounded add, so the product's low bits are lost before the addition.
// (The VOP3 handlers runVFMAF32 / runVFMAF64 in cdna3/vop3a.go are written the
// same way; they are outside the VOP1/VOP2/VOPC focus of this audit.)
package cdna3_fma_unfused_test

import (
	"math"
	"testing"
)

// exact single-rounded a*b+c: the product of two float32 is exact in float64,
// and math.FMA rounds the exact sum once to float64; the operands below are
// chosen so that this float64 result is exactly representable in float32.
func fma32(a, b, c float32) float32 {
	return float32(math.FMA(float64(a), float64(b), float64(c)))
}

func TestCDNA3FusedMultiplyAdd(t *testing.T) {
	a := float32(1 + 1.0/4096)    // 1 + 2^-12
	c := float32(-(1 + 1.0/2048)) // -(1 + 2^-11)
	// a*a = 1 + 2^-11 + 2^-24 exactly; a*a + c = 2^-24 exactly.
	want := fma32(a, a, c)
	if want != float32(math.Ldexp(1, -24)) {
		t.Fatalf("reference broken: %g", want)
	}
	ab, cb := math.Float32bits(a), math.Float32bits(c)
	alu := cdna3ALU()

	// v_fmac_f32 v0, v1, v2  : D = S0*S1 + D
	s := newState(decode(t, vop2(59, 0, 2, vgpr(1))))
	s.SetEXEC(1)
	s.setV(0, 1, ab)
	s.setV(0, 2, ab)
	s.setV(0, 0, cb)
	alu.Run(s)
	if got := math.Float32frombits(s.v(0, 0)); got != want {
		t.Errorf("CDNA3 v_fmac_f32: fma(%g, %g, %g) must be %g (single rounding of the exact result); got %g",
			a, a, c, want, got)
	}

	// v_fmaak_f32 v0, v1, v2, K : D = S0*S1 + K
	s = newState(decode(t, vop2(24, 0, 2, vgpr(1)), cb))
	s.SetEXEC(1)
	s.setV(0, 1, ab)
	s.setV(0, 2, ab)
	alu.Run(s)
	if got := math.Float32frombits(s.v(0, 0)); got != want {
		t.Errorf("CDNA3 v_fmaak_f32: fma(%g, %g, K=%g) must be %g; got %g", a, a, c, want, got)
	}

	// v_fmamk_f32 v0, v1, K, v2 : D = S0*K + S1
	s = newState(decode(t, vop2(23, 0, 2, vgpr(1)), ab))
	s.SetEXEC(1)
	s.setV(0, 1, ab)
	s.setV(0, 2, cb)
	alu.Run(s)
	if got := math.Float32frombits(s.v(0, 0)); got != want {
		t.Errorf("CDNA3 v_fmamk_f32: fma(%g, K=%g, %g) must be %g; got %g", a, a, c, want, got)
	}
}
