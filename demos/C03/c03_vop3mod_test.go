// Package c03vop3moddemo: VOP3 input modifiers, the clamp bit, the GDS bit and the CDNA3 dispatch of
// v_div_scale_f64, decoded with the repository's disassembler and executed on a real emu.Wavefront.
//
//	mkdir <tree>/amd/emu/c03vop3moddemo && cp c03_vop3mod_test.go <tree>/amd/emu/c03vop3moddemo/
//	go test -count=1 -v ./amd/emu/c03vop3moddemo/
package c03vop3moddemo

import (
	"encoding/binary"
	"math"
	"testing"

	"github.com/sarchlab/mgpusim/v4/amd/emu"
	"github.com/sarchlab/mgpusim/v4/amd/emu/cdna3"
	"github.com/sarchlab/mgpusim/v4/amd/insts"
)

type wfState struct {
	*emu.Wavefront
	inst *insts.Inst
}

func (s *wfState) Inst() *insts.Inst { return s.inst }

func decode(t *testing.T, words ...uint32) *insts.Inst {
	t.Helper()
	buf := make([]byte, 4*len(words))
	for i, w := range words {
		binary.LittleEndian.PutUint32(buf[4*i:], w)
	}
	inst, err := insts.NewDisassembler().Decode(buf)
	if err != nil {
		t.Fatalf("decode %x: %v", words, err)
	}
	return inst
}

func setV(wf *emu.Wavefront, lane, reg int, v uint32) {
	binary.LittleEndian.PutUint32(wf.VRegFile[lane*256*4+reg*4:], v)
}

func getV(wf *emu.Wavefront, lane, reg int) uint32 {
	return binary.LittleEndian.Uint32(wf.VRegFile[lane*256*4+reg*4:])
}

func alus() map[string]func(s emu.InstEmuState) {
	return map[string]func(s emu.InstEmuState){
		"GCN3":  func(s emu.InstEmuState) { emu.NewALU(nil).Run(s) },
		"CDNA3": func(s emu.InstEmuState) { cdna3.NewALU(nil).Run(s) },
	}
}

func panics(f func()) (p bool) {
	defer func() { p = recover() != nil }()
	f()
	return
}

// v_cndmask_b32_e64 v3, -v0, v1, s[4:5]   (shoc/fft uses this form 56 times)
func TestC03CndmaskE64AppliesNeg(t *testing.T) {
	inst := decode(t, 0xD0000000|256<<16|3, 256|257<<9|4<<18|1<<29)
	for name, run := range alus() {
		wf := emu.NewWavefront(nil)
		for lane := 0; lane < 2; lane++ {
			setV(wf, lane, 0, math.Float32bits(1.5))
			setV(wf, lane, 1, math.Float32bits(7))
		}
		wf.SetEXEC(3)
		binary.LittleEndian.PutUint32(wf.SRegFile[4*4:], 2) // lane 1 takes SRC1, lane 0 takes SRC0
		run(&wfState{wf, inst})
		if got := math.Float32frombits(getV(wf, 0, 3)); got != -1.5 {
			t.Errorf("%s: lane 0 selects -v0: got %v, want -1.5", name, got)
		}
		if got := math.Float32frombits(getV(wf, 1, 3)); got != 7 {
			t.Errorf("%s: lane 1 selects v1: got %v, want 7", name, got)
		}
	}
}

// v_div_scale_f64 v[4:5], vcc, v[0:1], v[0:1], v[2:3] is VOP3b opcode 481
func TestC03CDNA3DivScaleF64IsDispatched(t *testing.T) {
	inst := decode(t, 0xD0000000|481<<16|106<<8|4, 256|256<<9|258<<18)
	if inst.InstName != "v_div_scale_f64" {
		t.Fatalf("decoded %s", inst.InstName)
	}
	wf := emu.NewWavefront(nil)
	wf.SetEXEC(1)
	if panics(func() { cdna3.NewALU(nil).Run(&wfState{wf, inst}) }) {
		t.Errorf("the CDNA3 ALU has no handler for v_div_scale_f64 at the opcode the decoder gives it (481)")
	}
}

// v_sub_f32_e64 v3, v0, v1 clamp: executing it without clamping is a silently wrong result
func TestC03ClampIsNotDroppedSilently(t *testing.T) {
	inst := decode(t, 0xD0000000|258<<16|1<<15|3, 256|257<<9)
	if !inst.Clamp {
		t.Fatal("clamp bit not decoded")
	}
	for name, run := range alus() {
		wf := emu.NewWavefront(nil)
		setV(wf, 0, 0, math.Float32bits(3))
		setV(wf, 0, 1, math.Float32bits(0.5))
		wf.SetEXEC(1)
		rejected := panics(func() { run(&wfState{wf, inst}) })
		if got := math.Float32frombits(getV(wf, 0, 3)); !rejected && got != 1 {
			t.Errorf("%s: v_sub_f32_e64 3, 0.5 clamp wrote %v; the ISA clamps to 1.0 (rejecting the instruction would also be fine)", name, got)
		}
	}
}

// ds_write_b32 v0, v1 gds: must not be executed on the LDS
func TestC03GDSIsNotExecutedOnLDS(t *testing.T) {
	inst := decode(t, 0xD8000000|13<<17|1<<16, 0|1<<8)
	if !inst.GDS {
		t.Fatal("GDS bit not decoded")
	}
	for name, alu := range map[string]emu.ALU{"GCN3": emu.NewALU(nil), "CDNA3": cdna3.NewALU(nil)} {
		wf := emu.NewWavefront(nil)
		lds := make([]byte, 64)
		alu.SetLDS(lds)
		setV(wf, 0, 0, 8)
		setV(wf, 0, 1, 0xabcdef01)
		wf.SetEXEC(1)
		rejected := panics(func() { alu.Run(&wfState{wf, inst}) })
		if !rejected && binary.LittleEndian.Uint32(lds[8:]) == 0xabcdef01 {
			t.Errorf("%s: a GDS write landed in the LDS", name)
		}
	}
}
