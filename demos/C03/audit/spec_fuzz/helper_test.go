// Scaffolding only: the command to run is at the top of the other _test.go
// file(s) of this directory.

package specfuzz_test

// Shared scaffolding of the C03c audit demonstrations (copied into every demo
// directory so that each one is self-contained).
//
// The architectural state is a real emu.Wavefront (the emulator's own
// InstEmuState); only Inst() is overridden because emu.Wavefront has no
// exported setter for the instruction.  Instructions are produced by the
// repository's own decoder from hand-assembled machine words, unless a test
// says otherwise.

import (
	"encoding/binary"
	"math"
	"testing"

	"github.com/sarchlab/akita/v4/mem/vm"
	"github.com/sarchlab/mgpusim/v4/amd/emu"
	"github.com/sarchlab/mgpusim/v4/amd/emu/cdna3"
	"github.com/sarchlab/mgpusim/v4/amd/insts"
)

type state struct {
	*emu.Wavefront
	inst *insts.Inst
}

func (s *state) Inst() *insts.Inst { return s.inst }

func newState() *state {
	return &state{Wavefront: emu.NewWavefront(nil)}
}

func (s *state) setV(lane, reg int, v uint32) {
	binary.LittleEndian.PutUint32(s.VRegFile[lane*1024+reg*4:], v)
}

func (s *state) setV64(lane, reg int, v uint64) {
	s.setV(lane, reg, uint32(v))
	s.setV(lane, reg+1, uint32(v>>32))
}

func (s *state) v(lane, reg int) uint32 {
	return binary.LittleEndian.Uint32(s.VRegFile[lane*1024+reg*4:])
}

func (s *state) v64(lane, reg int) uint64 {
	return uint64(s.v(lane, reg)) | uint64(s.v(lane, reg+1))<<32
}

func (s *state) setS(reg int, v uint32) {
	binary.LittleEndian.PutUint32(s.SRegFile[reg*4:], v)
}

func (s *state) sreg(reg int) uint32 {
	return binary.LittleEndian.Uint32(s.SRegFile[reg*4:])
}

// fakeMem is a flat byte-addressed memory implementing emu.StorageAccessor.
type fakeMem struct {
	bytes map[uint64]byte
	reads []uint64 // addresses of the Read calls, in order
}

func newFakeMem() *fakeMem { return &fakeMem{bytes: map[uint64]byte{}} }

func (m *fakeMem) Read(_ vm.PID, addr, n uint64) []byte {
	m.reads = append(m.reads, addr)
	out := make([]byte, n)
	for i := uint64(0); i < n; i++ {
		out[i] = m.bytes[addr+i]
	}
	return out
}

func (m *fakeMem) Write(_ vm.PID, addr uint64, data []byte) {
	for i, b := range data {
		m.bytes[addr+uint64(i)] = b
	}
}

func (m *fakeMem) put32(addr uint64, v uint32) {
	var b [4]byte
	binary.LittleEndian.PutUint32(b[:], v)
	m.Write(0, addr, b[:])
}

type namedALU struct {
	name string
	alu  emu.ALU
}

func bothALUs(mem emu.StorageAccessor) []namedALU {
	return []namedALU{
		{"GCN3 emu.ALUImpl", emu.NewALU(mem)},
		{"CDNA3 cdna3.ALU", cdna3.NewALU(mem)},
	}
}

func words(lo, hi uint32) []byte {
	b := make([]byte, 8)
	binary.LittleEndian.PutUint32(b, lo)
	binary.LittleEndian.PutUint32(b[4:], hi)
	return b
}

// Operand codes of the 9-bit SRC fields.
const (
	srcVCCLO = 106
	srcF1p0  = 242 // inline constant 1.0
	srcF2p0  = 244 // inline constant 2.0
	srcFm1p0 = 243 // inline constant -1.0
)

func srcV(n int) uint32 { return uint32(256 + n) }
func srcS(n int) uint32 { return uint32(n) }

// encVOP3a assembles a VOP3a instruction.
func encVOP3a(op, vdst int, abs uint32, src0, src1, src2 uint32, neg uint32) []byte {
	lo := 0xD0000000 | uint32(op)<<16 | abs<<8 | uint32(vdst)
	hi := src0 | src1<<9 | src2<<18 | neg<<29
	return words(lo, hi)
}

// encVOP3b assembles a VOP3b instruction (scalar destination in bits 14:8).
func encVOP3b(op, vdst int, sdst uint32, src0, src1, src2 uint32, neg uint32) []byte {
	lo := 0xD0000000 | uint32(op)<<16 | sdst<<8 | uint32(vdst)
	hi := src0 | src1<<9 | src2<<18 | neg<<29
	return words(lo, hi)
}

// encVOP3P assembles a VOP3P instruction (op7 is the 7-bit VOP3P opcode).
func encVOP3P(op7, vdst int, negHi, opSel, opSelHi uint32, src0, src1, src2 uint32, negLo uint32) []byte {
	lo := 0xD3800000 | uint32(op7)<<16 | negHi<<8 | opSel<<11 | ((opSelHi>>2)&1)<<14 | uint32(vdst)
	hi := src0 | src1<<9 | src2<<18 | (opSelHi&3)<<27 | negLo<<29
	return words(lo, hi)
}

// encFLAT assembles a GFX9 FLAT/GLOBAL instruction. seg: 0 flat, 2 global.
func encFLAT(op int, seg uint32, offset13 uint32, saddr uint32, addr, data, vdst int) []byte {
	lo := 0xDC000000 | uint32(op)<<18 | seg<<14 | (offset13 & 0x1FFF)
	hi := uint32(addr) | uint32(data)<<8 | saddr<<16 | uint32(vdst)<<24
	return words(lo, hi)
}

func decode(t *testing.T, isCDNA3 bool, buf []byte) *insts.Inst {
	t.Helper()
	d := insts.NewDisassembler()
	d.IsCDNA3 = isCDNA3
	inst, err := d.Decode(buf)
	if err != nil {
		t.Fatalf("decoder rejected % x: %v", buf, err)
	}
	return inst
}

// run executes inst on s, turning a panic of the handler into a test failure
// message.
func run(alu emu.ALU, s *state, inst *insts.Inst) (panicked interface{}) {
	defer func() { panicked = recover() }()
	s.inst = inst
	alu.Run(s)
	return nil
}

func f64(b uint64) float64 { return math.Float64frombits(b) }
func b64(f float64) uint64 { return math.Float64bits(f) }
func f32(b uint32) float32 { return math.Float32frombits(b) }
func b32(f float32) uint32 { return math.Float32bits(f) }
