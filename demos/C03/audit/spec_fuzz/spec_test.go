// Copy this directory to <tree>/c03demo/<name>/ and run from the tree root:
//
//	go test ./c03demo/spec_fuzz/ -v
//
// Supporting material of the C03c audit: an independent transcription of the
// GCN3 manual's semantics for the VOP3a opcodes both ALUs implement, fuzzed
// (random and corner values, random EXEC, abs/neg modifiers) against both
// ALUs through the repository's decoder.  TestSpec fails only for V_MED3_U32
// (finding F7); everything else it covers agrees with the manual.
// spec2_test.go does the same for VOP3b (register operands), DS, the CDNA3
// GLOBAL path and VOP3P op_sel; those tests pass.  NaN results are compared
// as "both NaN".
package specfuzz_test

import (
	"math"
	"math/rand"
	"testing"
)

var special = []uint32{0, 1, 2, 3, 4, 5, 16, 24, 31, 32, 33, 63, 64, 0x7FFFFFFF, 0x80000000, 0xFFFFFFFF, 0xFFFFFFFE, 0x00FFFFFF, 0x01000000, 0x00800000, 0x7F800000, 0xFF800000, 0x7FC00000, 0x3F800000, 0xBF800000, 0x00000001, 0x80000001, 0x7FF00000, 0xFFF00000, 0x3FF00000, 0x00100000, 0x000fffff, 0xFF800001, 0x7FA00000}

func rnd(r *rand.Rand) uint32 {
	if r.Intn(3) == 0 {
		return special[r.Intn(len(special))]
	}
	return r.Uint32()
}

func modF32(v uint32, idx uint, abs, neg uint32) float32 {
	if abs&(1<<idx) != 0 {
		v &= 0x7FFFFFFF
	}
	if neg&(1<<idx) != 0 {
		v ^= 0x80000000
	}
	return math.Float32frombits(v)
}
func modF64(v uint64, idx uint, abs, neg uint32) float64 {
	if abs&(1<<idx) != 0 {
		v &= 0x7FFFFFFFFFFFFFFF
	}
	if neg&(1<<idx) != 0 {
		v ^= 0x8000000000000000
	}
	return math.Float64frombits(v)
}
func sext24(v uint32) int32 { return int32(v<<8) >> 8 }
func minf(a, b float32) float32 {
	if a != a {
		return b
	}
	if b != b {
		return a
	}
	if b < a {
		return b
	}
	return a
}
func maxf(a, b float32) float32 {
	if a != a {
		return b
	}
	if b != b {
		return a
	}
	if b > a {
		return b
	}
	return a
}

// returns (isCompare, value64) for one lane
func spec(op int, s0, s1, s2 uint64, abs, neg uint32, lane int, sgpr uint64) (kind int, val uint64) {
	a, b, c := uint32(s0), uint32(s1), uint32(s2)
	switch op {
	case 65:
		return 1, b2u(modF32(a, 0, abs, neg) < modF32(b, 1, abs, neg))
	case 68:
		return 1, b2u(modF32(a, 0, abs, neg) > modF32(b, 1, abs, neg))
	case 78:
		return 1, b2u(!(modF32(a, 0, abs, neg) < modF32(b, 1, abs, neg)))
	case 193:
		return 1, b2u(int32(a) < int32(b))
	case 195:
		return 1, b2u(int32(a) <= int32(b))
	case 196:
		return 1, b2u(int32(a) > int32(b))
	case 198:
		return 1, b2u(int32(a) >= int32(b))
	case 201:
		return 1, b2u(a < b)
	case 202:
		return 1, b2u(a == b)
	case 203:
		return 1, b2u(a <= b)
	case 204:
		return 1, b2u(a > b)
	case 205:
		return 1, b2u(a != b)
	case 206:
		return 1, b2u(a >= b)
	case 233:
		return 1, b2u(s0 < s1)
	case 256:
		x, y := math.Float32bits(modF32(a, 0, abs, neg)), math.Float32bits(modF32(b, 1, abs, neg))
		if sgpr>>uint(lane)&1 != 0 {
			return 0, uint64(y)
		}
		return 0, uint64(x)
	case 258:
		return 0, uint64(math.Float32bits(modF32(a, 0, abs, neg) - modF32(b, 1, abs, neg)))
	case 449:
		p := modF32(a, 0, abs, neg) * modF32(b, 1, abs, neg)
		return 0, uint64(math.Float32bits(p + modF32(c, 2, abs, neg)))
	case 450:
		return 0, uint64(uint32(sext24(a)*sext24(b) + int32(c)))
	case 456:
		off, w := b&31, c&31
		if w == 0 {
			return 0, 0
		}
		return 0, uint64((a >> off) & (1<<w - 1))
	case 464:
		return 0, uint64(math.Float32bits(minf(minf(modF32(a, 0, abs, neg), modF32(b, 1, abs, neg)), modF32(c, 2, abs, neg))))
	case 467:
		return 0, uint64(math.Float32bits(maxf(maxf(modF32(a, 0, abs, neg), modF32(b, 1, abs, neg)), modF32(c, 2, abs, neg))))
	case 465:
		m := int32(a)
		if int32(b) < m {
			m = int32(b)
		}
		if int32(c) < m {
			m = int32(c)
		}
		return 0, uint64(uint32(m))
	case 468:
		m := int32(a)
		if int32(b) > m {
			m = int32(b)
		}
		if int32(c) > m {
			m = int32(c)
		}
		return 0, uint64(uint32(m))
	case 466:
		m := a
		if b < m {
			m = b
		}
		if c < m {
			m = c
		}
		return 0, uint64(m)
	case 469:
		m := a
		if b > m {
			m = b
		}
		if c > m {
			m = c
		}
		return 0, uint64(m)
	case 471:
		x, y, z := int32(a), int32(b), int32(c)
		mx := x
		if y > mx {
			mx = y
		}
		if z > mx {
			mx = z
		}
		var r int32
		if mx == x {
			r = y
			if z > r {
				r = z
			}
		} else if mx == y {
			r = x
			if z > r {
				r = z
			}
		} else {
			r = x
			if y > r {
				r = y
			}
		}
		return 0, uint64(uint32(r))
	case 472:
		x, y, z := a, b, c
		mx := x
		if y > mx {
			mx = y
		}
		if z > mx {
			mx = z
		}
		var r uint32
		if mx == x {
			r = y
			if z > r {
				r = z
			}
		} else if mx == y {
			r = x
			if z > r {
				r = z
			}
		} else {
			r = x
			if y > r {
				r = y
			}
		}
		return 0, uint64(r)
	case 640:
		return 2, math.Float64bits(modF64(s0, 0, abs, neg) + modF64(s1, 1, abs, neg))
	case 641:
		return 2, math.Float64bits(modF64(s0, 0, abs, neg) * modF64(s1, 1, abs, neg))
	case 645:
		return 0, uint64(a * b)
	case 646:
		return 0, uint64(a) * uint64(b) >> 32
	case 655:
		return 2, s1 << (s0 & 63)
	case 657:
		return 2, uint64(int64(s1) >> (s0 & 63))
	case 511:
		return 0, uint64(a + b + c)
	case 520:
		return 2, s0<<(s1&63) + s2
	}
	return -1, 0
}

func b2u(b bool) uint64 {
	if b {
		return 1
	}
	return 0
}

func TestSpec(t *testing.T) {
	r := rand.New(rand.NewSource(7))
	ops := []int{65, 68, 78, 193, 195, 196, 198, 201, 202, 203, 204, 205, 206, 233, 256, 258, 449, 450, 456, 464, 465, 466, 467, 468, 469, 471, 472, 640, 641, 645, 646, 655, 657, 511, 520}
	fops := map[int]bool{65: true, 68: true, 78: true, 256: true, 258: true, 449: true, 464: true, 467: true, 640: true, 641: true}
	w64 := map[int][3]bool{233: {true, true, false}, 640: {true, true, false}, 641: {true, true, false}, 655: {false, true, false}, 657: {false, true, false}, 520: {true, false, true}}
	errs := map[int]int{}
	for iter := 0; iter < 4000; iter++ {
		op := ops[r.Intn(len(ops))]
		var abs, neg uint32
		if fops[op] {
			abs, neg = uint32(r.Intn(8)), uint32(r.Intn(8))
		}
		vdst := 0
		if op <= 255 {
			vdst = 20
		}
		src2 := srcV(6)
		if op == 256 {
			src2 = srcS(30)
		}
		inst := decode(t, true, encVOP3a(op, vdst, abs, srcV(2), srcV(4), src2, neg))
		exec := r.Uint64()
		var regs [64][8]uint32
		for l := 0; l < 64; l++ {
			for k := 0; k < 8; k++ {
				regs[l][k] = rnd(r)
			}
		}
		sg := r.Uint64()
		for _, u := range bothALUs(nil) {
			s := newState()
			s.SetEXEC(exec)
			s.setS(30, uint32(sg))
			s.setS(31, uint32(sg>>32))
			s.setS(20, 0xdeadbeef)
			s.setS(21, 0xdeadbeef)
			for l := 0; l < 64; l++ {
				for k := 0; k < 8; k++ {
					s.setV(l, k, regs[l][k])
				}
			}
			if p := run(u.alu, s, inst); p != nil {
				t.Fatalf("%s op %d panic %v", u.name, op, p)
			}
			var cmp uint64
			kind := 0
			for l := 0; l < 64; l++ {
				get := func(k int, wide bool) uint64 {
					if wide {
						return uint64(regs[l][k]) | uint64(regs[l][k+1])<<32
					}
					return uint64(regs[l][k])
				}
				w := w64[op]
				s0, s1, s2 := get(2, w[0]), get(4, w[1]), get(6, w[2])
				var val uint64
				kind, val = spec(op, s0, s1, s2, abs, neg, l, sg)
				active := exec>>uint(l)&1 != 0
				switch kind {
				case 1:
					if active {
						cmp |= val << uint(l)
					}
				case 0:
					want := regs[l][0]
					if active {
						want = uint32(val)
					}
					nanEq := fops[op] && active && math.Float32frombits(want) != math.Float32frombits(want) && math.Float32frombits(s.v(l, 0)) != math.Float32frombits(s.v(l, 0))
					if s.v(l, 0) != want && !nanEq {
						if errs[op] < 3 {
							t.Errorf("%s op %d %s abs=%d neg=%d lane %d active=%v: want %08x got %08x src=%x %x %x", u.name, op, inst.InstName, abs, neg, l, active, want, s.v(l, 0), s0, s1, s2)
						}
						errs[op]++
					}
					if s.v(l, 1) != regs[l][1] {
						t.Errorf("%s op %d clobbered v1", u.name, op)
					}
				case 2:
					want := uint64(regs[l][0]) | uint64(regs[l][1])<<32
					if active {
						want = val
					}
					nanEq := fops[op] && active && math.Float64frombits(want) != math.Float64frombits(want) && math.Float64frombits(s.v64(l, 0)) != math.Float64frombits(s.v64(l, 0))
					if s.v64(l, 0) != want && !nanEq {
						if errs[op] < 3 {
							t.Errorf("%s op %d %s abs=%d neg=%d lane %d active=%v: want %016x got %016x src=%x %x %x", u.name, op, inst.InstName, abs, neg, l, active, want, s.v64(l, 0), s0, s1, s2)
						}
						errs[op]++
					}
				}
			}
			if kind == 1 {
				got := uint64(s.sreg(20)) | uint64(s.sreg(21))<<32
				if got != cmp {
					t.Errorf("%s op %d %s: cmp want %016x got %016x", u.name, op, inst.InstName, cmp, got)
				}
			}
		}
	}
}
