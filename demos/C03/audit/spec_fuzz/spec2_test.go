package specfuzz_test

import (
	"bytes"
	"encoding/binary"
	"math"
	"math/rand"
	"testing"
)

func TestSpecVOP3b(t *testing.T) {
	r := rand.New(rand.NewSource(3))
	ops := []int{281, 282, 283, 284, 286}
	for iter := 0; iter < 2000; iter++ {
		op := ops[r.Intn(len(ops))]
		inst := decode(t, true, encVOP3b(op, 0, 20, srcV(2), srcV(4), srcS(30), 0))
		exec := r.Uint64()
		sg := r.Uint64()
		var regs [64][8]uint32
		for l := 0; l < 64; l++ {
			for k := 0; k < 8; k++ {
				regs[l][k] = rnd(r)
			}
		}
		for _, u := range bothALUs(nil) {
			s := newState()
			s.SetEXEC(exec)
			s.setS(30, uint32(sg))
			s.setS(31, uint32(sg>>32))
			for l := 0; l < 64; l++ {
				for k := 0; k < 8; k++ {
					s.setV(l, k, regs[l][k])
				}
			}
			if p := run(u.alu, s, inst); p != nil {
				t.Fatalf("%s op %d panic %v", u.name, op, p)
			}
			var wantS uint64
			for l := 0; l < 64; l++ {
				a, b := uint64(regs[l][2]), uint64(regs[l][4])
				cin := sg >> uint(l) & 1
				var d uint32
				var co uint64
				switch op {
				case 281:
					d = uint32(a + b)
					co = (a + b) >> 32
				case 282:
					d = uint32(a - b)
					co = b2u(b > a)
				case 283:
					d = uint32(b - a)
					co = b2u(a > b)
				case 284:
					d = uint32(a + b + cin)
					co = (a + b + cin) >> 32
				case 286:
					d = uint32(b - a - cin)
					co = b2u(a+cin > b)
				}
				want := regs[l][0]
				if exec>>uint(l)&1 != 0 {
					want = d
					wantS |= co << uint(l)
				}
				if s.v(l, 0) != want {
					t.Errorf("%s op %d lane %d want %08x got %08x (a=%x b=%x cin=%d)", u.name, op, l, want, s.v(l, 0), a, b, cin)
				}
			}
			got := uint64(s.sreg(20)) | uint64(s.sreg(21))<<32
			if got != wantS {
				t.Errorf("%s op %d sdst want %016x got %016x", u.name, op, wantS, got)
			}
		}
	}
}

func TestSpecDS(t *testing.T) {
	r := rand.New(rand.NewSource(5))
	type dsop struct {
		op             int
		s0w, s1w, dstw int
		cdna3only      bool
	}
	ops := []dsop{{13, 32, 0, 0, false}, {14, 32, 32, 0, false}, {30, 8, 0, 0, false}, {54, 0, 0, 32, false}, {55, 0, 0, 64, false}, {78, 64, 64, 0, false}, {118, 0, 0, 64, false}, {119, 0, 0, 128, false}, {223, 128, 0, 0, true}, {255, 0, 0, 128, true}}
	for iter := 0; iter < 1500; iter++ {
		o := ops[r.Intn(len(ops))]
		off0, off1 := uint32(r.Intn(8)), uint32(r.Intn(8))
		two := o.op == 14 || o.op == 55 || o.op == 78 || o.op == 119
		var lo uint32
		if two {
			lo = 0xD8000000 | uint32(o.op)<<17 | off0 | off1<<8
		} else {
			off := uint32(r.Intn(600))
			off0, off1 = off&0xff, off>>8
			lo = 0xD8000000 | uint32(o.op)<<17 | off0 | off1<<8
		}
		hi := uint32(2) | 4<<8 | 8<<16 | 12<<24 // addr v2, data0 v[4:7], data1 v[8:11], vdst v[12:15]
		inst := decode(t, true, words(lo, hi))
		exec := r.Uint64()
		ldsInit := make([]byte, 64*1024)
		r.Read(ldsInit)
		var regs [64][16]uint32
		for l := 0; l < 64; l++ {
			for k := 0; k < 16; k++ {
				regs[l][k] = r.Uint32()
			}
			regs[l][2] = uint32(l*512 + r.Intn(64))
		}
		for ui, u := range bothALUs(nil) {
			if o.cdna3only && ui == 0 {
				continue
			}
			s := newState()
			s.SetEXEC(exec)
			lds := append([]byte(nil), ldsInit...)
			u.alu.SetLDS(lds)
			for l := 0; l < 64; l++ {
				for k := 0; k < 16; k++ {
					s.setV(l, k, regs[l][k])
				}
			}
			if p := run(u.alu, s, inst); p != nil {
				t.Fatalf("%s op %d panic %v", u.name, o.op, p)
			}
			want := append([]byte(nil), ldsInit...)
			for l := 0; l < 64; l++ {
				wantRegs := regs[l]
				if exec>>uint(l)&1 != 0 {
					base := regs[l][2]
					rd := func(a uint32, n int) []uint32 {
						out := make([]uint32, n)
						for i := range out {
							out[i] = binary.LittleEndian.Uint32(ldsInit[a+uint32(i)*4:])
						}
						return out
					}
					wr := func(a uint32, vals []uint32) {
						for i, v := range vals {
							binary.LittleEndian.PutUint32(want[a+uint32(i)*4:], v)
						}
					}
					single := base + (off0 | off1<<8)
					switch o.op {
					case 13:
						wr(single, regs[l][4:5])
					case 14:
						wr(base+off0*4, regs[l][4:5])
						wr(base+off1*4, regs[l][8:9])
					case 30:
						want[single] = byte(regs[l][4])
					case 54:
						copy(wantRegs[12:], rd(single, 1))
					case 55:
						copy(wantRegs[12:], rd(base+off0*4, 1))
						copy(wantRegs[13:], rd(base+off1*4, 1))
					case 78:
						wr(base+off0*8, regs[l][4:6])
						wr(base+off1*8, regs[l][8:10])
					case 118:
						copy(wantRegs[12:], rd(single, 2))
					case 119:
						copy(wantRegs[12:], rd(base+off0*8, 2))
						copy(wantRegs[14:], rd(base+off1*8, 2))
					case 223:
						wr(single, regs[l][4:8])
					case 255:
						copy(wantRegs[12:], rd(single, 4))
					}
				}
				for k := 0; k < 16; k++ {
					if s.v(l, k) != wantRegs[k] {
						t.Errorf("%s ds op %d lane %d v%d want %08x got %08x", u.name, o.op, l, k, wantRegs[k], s.v(l, k))
					}
				}
			}
			if !bytes.Equal(want, lds) {
				t.Errorf("%s ds op %d: lds content differs (two-addr overlap? off0=%d off1=%d)", u.name, o.op, off0, off1)
			}
		}
	}
}

func TestSpecFlat(t *testing.T) {
	r := rand.New(rand.NewSource(9))
	ops := []int{16, 17, 18, 20, 21, 23, 28, 29, 30, 31}
	for iter := 0; iter < 1500; iter++ {
		op := ops[r.Intn(len(ops))]
		useS := r.Intn(2) == 0
		saddr := uint32(0x7F)
		if useS {
			saddr = 40
		}
		off := uint32(r.Intn(8192)) // 13-bit signed
		inst := decode(t, true, encFLAT(op, 2, off, saddr, 2, 4, 12))
		soff := int64(int32(off<<19) >> 19)
		exec := r.Uint64()
		sbase := uint64(0x0000_1000_0000_0000) + uint64(r.Intn(1<<20))
		var regs [64][16]uint32
		for l := 0; l < 64; l++ {
			for k := 0; k < 16; k++ {
				regs[l][k] = r.Uint32()
			}
			if useS {
				regs[l][2] = uint32(0x100000 + l*256 + r.Intn(16))
			} else {
				a := uint64(0x0000_2000_0010_0000) + uint64(l*256+r.Intn(16))
				regs[l][2], regs[l][3] = uint32(a), uint32(a>>32)
			}
		}
		for ui := 1; ui < 2; ui++ {
			mem := newFakeMem()
			// pre-fill memory around each lane address
			addrOf := func(l int) uint64 {
				if useS {
					return sbase + uint64(regs[l][2]) + uint64(soff)
				}
				return (uint64(regs[l][2]) | uint64(regs[l][3])<<32) + uint64(soff)
			}
			init := map[uint64]byte{}
			for l := 0; l < 64; l++ {
				for i := uint64(0); i < 16; i++ {
					b := byte(r.Intn(256))
					mem.bytes[addrOf(l)+i] = b
					init[addrOf(l)+i] = b
				}
			}
			u := bothALUs(mem)[ui]
			s := newState()
			s.SetEXEC(exec)
			s.setS(40, uint32(sbase))
			s.setS(41, uint32(sbase>>32))
			for l := 0; l < 64; l++ {
				for k := 0; k < 16; k++ {
					s.setV(l, k, regs[l][k])
				}
			}
			if p := run(u.alu, s, inst); p != nil {
				t.Fatalf("%s flat op %d panic %v", u.name, op, p)
			}
			wantMem := map[uint64]byte{}
			for k, v := range init {
				wantMem[k] = v
			}
			for l := 0; l < 64; l++ {
				wantRegs := regs[l]
				if exec>>uint(l)&1 != 0 {
					a := addrOf(l)
					ld := func(n int) []uint32 {
						out := make([]uint32, n)
						for i := range out {
							var b [4]byte
							for j := range b {
								b[j] = init[a+uint64(i*4+j)]
							}
							out[i] = binary.LittleEndian.Uint32(b[:])
						}
						return out
					}
					st := func(vals []uint32) {
						for i, v := range vals {
							var b [4]byte
							binary.LittleEndian.PutUint32(b[:], v)
							for j := range b {
								wantMem[a+uint64(i*4+j)] = b[j]
							}
						}
					}
					switch op {
					case 16:
						wantRegs[12] = uint32(init[a])
					case 17:
						wantRegs[12] = uint32(int32(int8(init[a])))
					case 18:
						wantRegs[12] = uint32(init[a]) | uint32(init[a+1])<<8
					case 20:
						copy(wantRegs[12:], ld(1))
					case 21:
						copy(wantRegs[12:], ld(2))
					case 23:
						copy(wantRegs[12:], ld(4))
					case 28:
						st(regs[l][4:5])
					case 29:
						st(regs[l][4:6])
					case 30:
						st(regs[l][4:7])
					case 31:
						st(regs[l][4:8])
					}
				}
				for k := 0; k < 16; k++ {
					if s.v(l, k) != wantRegs[k] {
						t.Errorf("%s flat op %d saddr=%v off=%d lane %d v%d want %08x got %08x", u.name, op, useS, soff, l, k, wantRegs[k], s.v(l, k))
					}
				}
			}
			for k, v := range wantMem {
				if mem.bytes[k] != v {
					t.Errorf("%s flat op %d mem[%x] want %02x got %02x", u.name, op, k, v, mem.bytes[k])
					break
				}
			}
			if len(mem.bytes) != len(wantMem) {
				t.Errorf("%s flat op %d wrote outside: %d vs %d", u.name, op, len(mem.bytes), len(wantMem))
			}
		}
	}
}

func TestSpecVOP3P(t *testing.T) {
	r := rand.New(rand.NewSource(11))
	u := bothALUs(nil)[1]
	for iter := 0; iter < 3000; iter++ {
		op7 := 0x30 + r.Intn(3)
		opsel := uint32(r.Intn(8))
		opselhi := uint32(r.Intn(8))
		if op7 != 0x30 {
			opsel &= 3
			opselhi &= 3
		}
		src2 := uint32(0)
		if op7 == 0x30 {
			src2 = srcV(6)
		}
		inst := decode(t, true, encVOP3P(op7, 0, 0, opsel, opselhi, srcV(2), srcV(4), src2, 0))
		s := newState()
		s.SetEXEC(1)
		var f [8]float32
		for k := 2; k < 8; k++ {
			f[k] = float32(r.Intn(100)) - 50
			s.setV(0, k, math.Float32bits(f[k]))
		}
		if p := run(u.alu, s, inst); p != nil {
			t.Fatalf("panic %v", p)
		}
		sel := func(base int, bit uint32) float32 {
			if bit != 0 {
				return f[base+1]
			}
			return f[base]
		}
		alo, blo, clo := sel(2, opsel&1), sel(4, opsel&2), sel(6, opsel&4)
		ahi, bhi, chi := sel(2, opselhi&1), sel(4, opselhi&2), sel(6, opselhi&4)
		var wl, wh float32
		switch op7 {
		case 0x30:
			wl, wh = alo*blo+clo, ahi*bhi+chi
		case 0x31:
			wl, wh = alo*blo, ahi*bhi
		case 0x32:
			wl, wh = alo+blo, ahi+bhi
		}
		if f32(s.v(0, 0)) != wl || f32(s.v(0, 1)) != wh {
			t.Errorf("vop3p op %x opsel=%d opselhi=%d want (%v,%v) got (%v,%v)", op7, opsel, opselhi, wl, wh, f32(s.v(0, 0)), f32(s.v(0, 1)))
		}
	}
}
