// Copy this directory to <tree>/c03demo/<name>/ and run from the tree root:
//
//	go test ./c03demo/f64_inline_const/ -run TestF64InlineFloatConstant -v
//
// C03 (ISA conformance): an inline floating-point constant (operand codes
// 240..248: 0.5, -0.5, 1.0, -1.0, 2.0, -2.0, 4.0, -4.0, 1/(2*PI)) used as a
// source of a 64-bit floating-point instruction supplies the DOUBLE precision
// encoding of that value (GCN3 ISA "Scalar ALU/VALU operands" table: the
// constant is converted to the operand type of the instruction).
//
// emu.Wavefront.ReadOperand (and its timing sibling) always return the
// SINGLE precision bit pattern zero-extended to 64 bits, so every f64 VOP3
// handler (v_add_f64, v_mul_f64, v_fma_f64, v_div_*_f64) sees 1.0 as the
// double 0x000000003F800000 = 5.26e-315.  "v_fma_f64 d, -a, b, 1.0" is the
// backbone of the compiler's f64 division / rcp refinement sequence.
package f64const_test

import "testing"

func TestF64InlineFloatConstant(t *testing.T) {
	for _, a := range bothALUs(nil) {
		// v_fma_f64 v[0:1], v[2:3], v[4:5], 1.0
		s := newState()
		s.SetEXEC(1)
		s.setV64(0, 2, b64(2.0))
		s.setV64(0, 4, b64(3.0))
		inst := decode(t, true, encVOP3a(460, 0, 0, srcV(2), srcV(4), srcF1p0, 0))
		if p := run(a.alu, s, inst); p != nil {
			t.Fatalf("%s: %s panicked: %v", a.name, inst.InstName, p)
		}
		if got := f64(s.v64(0, 0)); got != 7.0 {
			t.Errorf("%s: v_fma_f64 v[0:1], v[2:3]=2.0, v[4:5]=3.0, 1.0 must "+
				"give 2*3+1 = 7.0 (the inline constant 1.0 is a double in an "+
				"f64 instruction); got %v (0x%016x)", a.name, got, s.v64(0, 0))
		}

		// v_mul_f64 v[0:1], v[2:3], 2.0
		s = newState()
		s.SetEXEC(1)
		s.setV64(0, 2, b64(2.5))
		inst = decode(t, true, encVOP3a(641, 0, 0, srcV(2), srcF2p0, 0, 0))
		if p := run(a.alu, s, inst); p != nil {
			t.Fatalf("%s: %s panicked: %v", a.name, inst.InstName, p)
		}
		if got := f64(s.v64(0, 0)); got != 5.0 {
			t.Errorf("%s: v_mul_f64 v[0:1], v[2:3]=2.5, 2.0 must give 5.0; "+
				"got %v (0x%016x)", a.name, got, s.v64(0, 0))
		}

		// v_add_f64 v[0:1], v[2:3], -1.0
		s = newState()
		s.SetEXEC(1)
		s.setV64(0, 2, b64(10.0))
		inst = decode(t, true, encVOP3a(640, 0, 0, srcV(2), srcFm1p0, 0, 0))
		if p := run(a.alu, s, inst); p != nil {
			t.Fatalf("%s: %s panicked: %v", a.name, inst.InstName, p)
		}
		if got := f64(s.v64(0, 0)); got != 9.0 {
			t.Errorf("%s: v_add_f64 v[0:1], v[2:3]=10.0, -1.0 must give 9.0; "+
				"got %v (0x%016x)", a.name, got, s.v64(0, 0))
		}
	}
}
