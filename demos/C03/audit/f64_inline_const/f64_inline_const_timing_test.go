// Copy this directory to <tree>/c03demo/<name>/ and run from the tree root:
//
//	go test ./c03demo/f64_inline_const/ -run TestF64InlineFloatConstantTimingWavefront -v
//
// Same defect observed on the timing-side InstEmuState
// (amd/timing/wavefront.Wavefront.ReadOperand has the same FloatOperand case).
package f64const_test

import (
	"encoding/binary"
	"testing"

	"github.com/sarchlab/mgpusim/v4/amd/emu"
	"github.com/sarchlab/mgpusim/v4/amd/insts"
	"github.com/sarchlab/mgpusim/v4/amd/timing/wavefront"
)

type fakeRegs struct{ v [64][256]uint32 }

func (f *fakeRegs) ReadReg(reg *insts.Reg, regCount, lane, _ int) []byte {
	if regCount < 1 {
		regCount = 1
	}
	out := make([]byte, 4*regCount)
	for i := 0; i < regCount; i++ {
		binary.LittleEndian.PutUint32(out[i*4:], f.v[lane][reg.RegIndex()+i])
	}
	return out
}

func (f *fakeRegs) WriteReg(reg *insts.Reg, _, lane, _ int, data []byte) {
	for i := 0; i*4 < len(data); i++ {
		f.v[lane][reg.RegIndex()+i] = binary.LittleEndian.Uint32(data[i*4:])
	}
}

func TestF64InlineFloatConstantTimingWavefront(t *testing.T) {
	regs := &fakeRegs{}
	two, three := b64(2.0), b64(3.0)
	regs.v[0][2], regs.v[0][3] = uint32(two), uint32(two>>32)
	regs.v[0][4], regs.v[0][5] = uint32(three), uint32(three>>32)

	wf := wavefront.NewWavefront(nil)
	wf.RegAccessor = regs
	wf.SetEXEC(1)
	// v_fma_f64 v[0:1], v[2:3], v[4:5], 1.0
	inst := decode(t, false, encVOP3a(460, 0, 0, srcV(2), srcV(4), srcF1p0, 0))
	wf.SetDynamicInst(wavefront.NewInst(inst))

	var state emu.InstEmuState = wf
	emu.NewALU(nil).Run(state)

	got := f64(uint64(regs.v[0][0]) | uint64(regs.v[0][1])<<32)
	if got != 7.0 {
		t.Errorf("timing wavefront + GCN3 ALU: v_fma_f64 v[0:1], 2.0, 3.0, 1.0 "+
			"must give 7.0; got %v", got)
	}
}
