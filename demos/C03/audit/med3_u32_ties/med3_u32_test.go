// Copy this directory to <tree>/c03demo/<name>/ and run from the tree root:
//
//	go test ./c03demo/med3_u32_ties/ -v
//
// C03 (ISA conformance): V_MED3_U32 (VOP3a 472), GCN3 ISA 12.10:
//
//	If (MAX3(S0.u,S1.u,S2.u) == S0.u)      D.u = MAX(S1.u, S2.u)
//	Else if (MAX3(S0.u,S1.u,S2.u) == S1.u) D.u = MAX(S0.u, S2.u)
//	Else                                   D.u = MAX(S0.u, S1.u)
//
// i.e. the median of the three values, also when two of them are equal.
//
// median3Uint32 (duplicated in amd/emu/aluvop3a.go and
// amd/emu/cdna3/vop3a.go) starts from "out := a" and replaces it only if b or
// c lies STRICTLY between the other two.  When S1 == S2 != S0 neither test
// fires and the result is S0 - the value that is farthest from the median.
// (V_MED3_I32 sorts and is correct.)  Clamping idioms such as
// v_med3_u32 v0, v1, 0, 0 or med3(x, lo, hi) with lo == hi hit exactly this.
package med3ties_test

import "testing"

func TestVMed3U32WithTwoEqualOperands(t *testing.T) {
	cases := []struct{ a, b, c, want uint32 }{
		{0xFFFFFFFF, 5, 5, 5},
		{1, 9, 9, 9},
		{7, 7, 3, 7},
		{7, 3, 7, 7},
	}
	for _, u := range bothALUs(nil) {
		for _, c := range cases {
			s := newState()
			s.SetEXEC(1)
			s.setV(0, 2, c.a)
			s.setV(0, 3, c.b)
			s.setV(0, 4, c.c)
			// v_med3_u32 v0, v2, v3, v4
			inst := decode(t, false, encVOP3a(472, 0, 0, srcV(2), srcV(3), srcV(4), 0))
			if p := run(u.alu, s, inst); p != nil {
				t.Fatalf("%s: panicked: %v", u.name, p)
			}
			if got := s.v(0, 0); got != c.want {
				t.Errorf("%s: v_med3_u32(0x%x, 0x%x, 0x%x) must be the median "+
					"0x%x; got 0x%x", u.name, c.a, c.b, c.c, c.want, got)
			}
		}
	}
}
