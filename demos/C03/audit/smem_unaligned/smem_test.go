// Copy this directory to <tree>/c03demo/<name>/ and run from the tree root:
//
//	export PATH=/opt/veriftools/go1.26.8/bin:$PATH GOTOOLCHAIN=local GOFLAGS=-mod=mod GOPROXY=off GOSUMDB=off
//	go test ./c03demo/smem_unaligned/ -v
//
// C03 (SMEM): S_LOAD_DWORD*: ADDR = SGPR[base] + offset; all components are in
// bytes "but the two LSBs are ignored and treated as if they were zero" - a
// scalar load is always dword aligned.
// emu.ALUImpl.runSLOADDWORD* (amd/emu/alu.go), cdna3.ALU.runSLOADDWORD*
// (amd/emu/cdna3/sop.go) and the timing ScalarUnit.executeSMEMLoad
// (amd/timing/cu/scalarunit.go) use base+offset as it is and read bytes that
// straddle two dwords.
package demo_test

import "testing"

func smem(op, sdata, sbase, imm, offset uint32) []uint32 {
	return []uint32{0b110000<<26 | op<<18 | imm<<17 | sdata<<6 | sbase>>1, offset}
}

func TestSMEMLoadIgnoresTheTwoAddressLSBs(t *testing.T) {
	data := map[uint64][]byte{
		0x2000_0000: {0x00, 0x11, 0x22, 0x33, 0x44, 0x55, 0x66, 0x77, 0x88, 0x99, 0xaa, 0xbb},
	}
	for _, k := range []aluKind{gcn3ALU, cdna3ALU} {
		snaps := runEmuMem(t, k, prog(
			movLit(4, 0x2000_0000),
			movLit(5, 0),
			smem(0, 20, 4, 1, 6), // s_load_dword s20, s[4:5], 0x6
			endpgm,
		), data)
		got := find(t, snaps, "s_load_dword")
		if got.s32(20) != 0x77665544 {
			t.Errorf("%v: s_load_dword s20, s[4:5], 0x6 with s[4:5]=0x20000000: the address 0x20000006 is forced to the dword 0x20000004, the ISA result is 0x77665544; got %#x (bytes 6..9)",
				k, got.s32(20))
		}
	}
}
