// Run from the worktree root (after the environment line of the task):
//
//	go test ./c03demo/smem_unaligned/ -v
package demo_test

// Shared harness of the C03a audit demonstrations.
//
// It runs a program, given as machine-code dwords, on a REAL emu.ComputeUnit
// (real insts.Disassembler, real emu.Wavefront, real ALU: emu.NewALU = GCN3 or
// cdna3.NewALU = CDNA3). A work-group with one wavefront is sent to the CU
// through a direct connection; the CU's own instruction hook (logInst) hands
// out the *emu.Wavefront after every instruction, where the architectural
// state is snapshotted. Nothing of the simulator is replaced except the
// memory behind the emu.StorageAccessor interface (a byte map).

import (
	"encoding/binary"
	"testing"

	"github.com/sarchlab/akita/v4/mem/vm"
	"github.com/sarchlab/akita/v4/sim"
	"github.com/sarchlab/akita/v4/sim/directconnection"
	"github.com/sarchlab/mgpusim/v4/amd/emu"
	"github.com/sarchlab/mgpusim/v4/amd/emu/cdna3"
	"github.com/sarchlab/mgpusim/v4/amd/insts"
	"github.com/sarchlab/mgpusim/v4/amd/kernels"
	"github.com/sarchlab/mgpusim/v4/amd/protocol"
)

// ---- instruction encoders (GCN3 / CDNA3 share these formats) ----

const (
	sgpr    = 0   // s0 is operand code 0, sN is N
	vccLo   = 106 // operand codes
	execLo  = 126
	literal = 255
)

// inlineInt returns the operand code of the inline integer constant v
// (-16..64).
func inlineInt(v int) uint32 {
	if v >= 0 {
		return uint32(128 + v)
	}
	return uint32(192 - v)
}

func sop2(op, sdst, ssrc0, ssrc1 uint32) uint32 {
	return 0b10<<30 | op<<23 | sdst<<16 | ssrc1<<8 | ssrc0
}

func sop1(op, sdst, ssrc0 uint32) uint32 {
	return 0b101111101<<23 | sdst<<16 | op<<8 | ssrc0
}

func sopk(op, sdst, simm16 uint32) uint32 {
	return 0b1011<<28 | op<<23 | sdst<<16 | simm16&0xffff
}

func sopc(op, ssrc0, ssrc1 uint32) uint32 {
	return 0b101111110<<23 | op<<16 | ssrc1<<8 | ssrc0
}

func sopp(op, simm16 uint32) uint32 {
	return 0b101111111<<23 | op<<16 | simm16&0xffff
}

// movLit is "s_mov_b32 sN, literal" (2 dwords).
func movLit(sdst uint32, v uint32) []uint32 {
	return []uint32{sop1(0, sdst, literal), v}
}

var endpgm = sopp(1, 0)

func prog(parts ...interface{}) []uint32 {
	var out []uint32
	for _, p := range parts {
		switch p := p.(type) {
		case uint32:
			out = append(out, p)
		case []uint32:
			out = append(out, p...)
		default:
			panic("bad program part")
		}
	}
	return out
}

// ---- memory ----

type byteMem map[uint64]byte

func (m byteMem) Read(_ vm.PID, addr, n uint64) []byte {
	out := make([]byte, n)
	for i := uint64(0); i < n; i++ {
		out[i] = m[addr+i]
	}
	return out
}

func (m byteMem) Write(_ vm.PID, addr uint64, data []byte) {
	for i, b := range data {
		m[addr+uint64(i)] = b
	}
}

// ---- snapshots ----

type snap struct {
	name   string // instruction mnemonic
	instPC uint64 // address of the instruction that just ran
	pc     uint64 // PC after the instruction
	scc    byte
	exec   uint64
	vcc    uint64
	sregs  []byte
}

func (s snap) s32(i int) uint32 { return binary.LittleEndian.Uint32(s.sregs[i*4:]) }
func (s snap) s64(i int) uint64 { return binary.LittleEndian.Uint64(s.sregs[i*4:]) }

type hook struct {
	snaps []snap
}

func (h *hook) Func(ctx sim.HookCtx) {
	wf, ok := ctx.Item.(*emu.Wavefront)
	if !ok {
		return
	}
	inst := ctx.Detail.(*insts.Inst)
	s := snap{
		name: inst.InstName,
		pc:   wf.PC(),
		scc:  wf.SCC(),
		exec: wf.EXEC(),
		vcc:  wf.VCC(),
	}
	s.sregs = append([]byte(nil), wf.SRegFile...)
	h.snaps = append(h.snaps, s)
}

type nopTicker struct{}

func (nopTicker) Tick() bool { return false }

const codeBase = uint64(0x1_0000_1000)

type aluKind int

const (
	gcn3ALU aluKind = iota
	cdna3ALU
)

func (k aluKind) String() string {
	if k == gcn3ALU {
		return "GCN3 ALU (emu.NewALU)"
	}
	return "CDNA3 ALU (cdna3.NewALU)"
}

// runEmu runs the program (which must end in s_endpgm) on a real
// emu.ComputeUnit and returns one snapshot per executed instruction.
func runEmu(t *testing.T, kind aluKind, words []uint32) []snap {
	t.Helper()
	return runEmuMem(t, kind, words, nil)
}

// runEmuMem is runEmu with initial data memory (address -> bytes).
func runEmuMem(
	t *testing.T, kind aluKind, words []uint32, data map[uint64][]byte,
) []snap {
	t.Helper()

	m := byteMem{}
	for a, d := range data {
		m.Write(0, a, d)
	}
	for i, w := range words {
		var b [4]byte
		binary.LittleEndian.PutUint32(b[:], w)
		m.Write(0, codeBase+uint64(i*4), b[:])
	}

	engine := sim.NewSerialEngine()
	var alu emu.ALU
	if kind == gcn3ALU {
		alu = emu.NewALU(m)
	} else {
		alu = cdna3.NewALU(m)
	}
	cu := emu.NewComputeUnit("CU", engine, insts.NewDisassembler(), alu, m)
	h := &hook{}
	cu.AcceptHook(h)

	disp := sim.NewTickingComponent("Disp", engine, 1*sim.GHz, nopTicker{})
	dispPort := sim.NewPort(disp, 4, 4, "Disp.Port")
	conn := directconnection.MakeBuilder().
		WithEngine(engine).WithFreq(1 * sim.GHz).Build("Conn")
	conn.PlugIn(cu.ToDispatcher)
	conn.PlugIn(dispPort)

	co := &insts.KernelCodeObject{
		KernelCodeObjectMeta: &insts.KernelCodeObjectMeta{},
		Version:              insts.CodeObjectV3,
	}
	pkt := &kernels.HsaKernelDispatchPacket{
		WorkgroupSizeX: 64, WorkgroupSizeY: 1, WorkgroupSizeZ: 1,
		GridSizeX: 64, GridSizeY: 1, GridSizeZ: 1,
		KernelObject: codeBase,
	}
	wg := kernels.NewWorkGroup()
	wg.CodeObject, wg.Packet = co, pkt
	wg.SizeX, wg.SizeY, wg.SizeZ = 64, 1, 1
	wg.CurrSizeX, wg.CurrSizeY, wg.CurrSizeZ = 64, 1, 1
	wf := kernels.NewWavefront()
	wf.CodeObject, wf.Packet, wf.WG = co, pkt, wg
	wf.InitExecMask = 0xffff_ffff_ffff_ffff
	wg.Wavefronts = append(wg.Wavefronts, wf)

	req := protocol.MapWGReqBuilder{}.
		WithSrc(dispPort.AsRemote()).
		WithDst(cu.ToDispatcher.AsRemote()).
		WithPID(1).
		WithWG(wg).
		Build()
	if err := dispPort.Send(req); err != nil {
		t.Fatalf("cannot send the work-group to the CU")
	}
	if err := engine.Run(); err != nil {
		t.Fatal(err)
	}

	// attach instruction addresses: instructions are logged in program order
	// of execution; the address of an instruction is the PC after the
	// previous one for straight-line code, which is all the demos need up to
	// the instruction under test.
	pc := codeBase
	for i := range h.snaps {
		h.snaps[i].instPC = pc
		pc = h.snaps[i].pc
	}

	if len(h.snaps) == 0 || h.snaps[len(h.snaps)-1].name != "s_endpgm" {
		t.Fatalf("program did not run to s_endpgm: %d instructions logged",
			len(h.snaps))
	}
	return h.snaps
}

// find returns the snapshot taken after the first instruction called name.
func find(t *testing.T, snaps []snap, name string) snap {
	t.Helper()
	for _, s := range snaps {
		if s.name == name {
			return s
		}
	}
	t.Fatalf("instruction %s was not executed", name)
	return snap{}
}
