// Copy this directory to <tree>/c03demo/<name>/ and run from the tree root:
//
//	export PATH=/opt/veriftools/go1.26.8/bin:$PATH GOTOOLCHAIN=local GOFLAGS=-mod=mod GOPROXY=off GOSUMDB=off
//	go test ./c03demo/cdna3_s_movk_i32_signext/ -v
//
// C03: S_MOVK_I32 is D.i = signext(SIMM16); S_CMOVK_I32 is
// "if (SCC) D.i = signext(SIMM16)".
// cdna3.ALU.runSMOVKI32 / runSCMOVKI32 (amd/emu/cdna3/sopk.go) write
// uint64(emu.Int16ToBits(imm)), i.e. the ZERO-extended 16 bits, so every
// negative immediate becomes a positive number 0x0000xxxx. The GCN3 sibling
// (amd/emu/alusopk.go) writes uint64(int16) and is right. The CDNA3 ALU itself
// knows the immediate is signed: its S_CMPK_EQ_I32 and S_MULK_I32 sign-extend.
package demo_test

import "testing"

func TestCDNA3_S_MOVK_I32_SignExtendsTheImmediate(t *testing.T) {
	for _, k := range []aluKind{gcn3ALU, cdna3ALU} {
		snaps := runEmu(t, k, prog(
			movLit(20, 0x11111111),
			movLit(21, 0x11111111),
			sopk(0, 20, 0xffff),                 // s_movk_i32 s20, -1
			sopc(6, inlineInt(0), inlineInt(0)), // s_cmp_eq_u32 0, 0 -> SCC=1
			sopk(1, 21, 0x8000),                 // s_cmovk_i32 s21, -32768
			// a compiler-style use: "s_movk_i32 s22, -1" then compare with the
			// same immediate must hold
			sopk(0, 22, 0xfff0), // s_movk_i32 s22, -16
			sopk(2, 22, 0xfff0), // s_cmpk_eq_i32 s22, -16
			endpgm,
		))
		mov := find(t, snaps, "s_movk_i32")
		if mov.s32(20) != 0xffffffff {
			t.Errorf("%v: s_movk_i32 s20, 0xffff: the ISA requires D = signext(simm16) = 0xffffffff (-1); got s20=%#x",
				k, mov.s32(20))
		}
		cmov := find(t, snaps, "s_cmovk_i32")
		if cmov.s32(21) != 0xffff8000 {
			t.Errorf("%v: s_cmovk_i32 s21, 0x8000 with SCC=1: the ISA requires D = signext(simm16) = 0xffff8000 (-32768); got s21=%#x",
				k, cmov.s32(21))
		}
		cmp := find(t, snaps, "s_cmpk_eq_i32")
		if cmp.scc != 1 {
			t.Errorf("%v: s_movk_i32 s22, -16 ; s_cmpk_eq_i32 s22, -16 must set SCC=1 (a register loaded with an immediate equals that immediate); got SCC=%d with s22=%#x",
				k, cmp.scc, cmp.s32(22))
		}
	}
}
