// Copy this directory to <tree>/c03demo/<name>/ and run from the tree root:
//
//	go test ./c03demo/div_scale_cdna3/ -v
//
// C03 (ISA conformance; both ALUs obey the same specification):
// V_DIV_SCALE_F64 (VOP3b 481) is "{vcc,D.d} = divide pre-op and flags;
// S0 = quotient (must equal S1 or S2), S1 = denominator, S2 = numerator ...
// scales inputs for division to avoid subnormal terms ... produces a VCC
// flag for post-scale of the quotient" (GCN3 ISA 12.11; CDNA3 defines it
// identically):
//
//	VCC = 0
//	if S2 == 0 || S1 == 0            D = NaN
//	else if exp(S2) - exp(S1) >= 768 VCC = 1; if S0 == S1, D = ldexp(S0, 128)
//	else if S1 is denormal           D = ldexp(S0, 128)
//	...
//	else                             D = S0
//
// The GCN3 ALU (amd/emu/aluvop3b.go) implements this.  The CDNA3 ALU
// (amd/emu/cdna3/vop3b.go runVDIVSCALEF64, "Simplified implementation")
// copies S0 to D and NEVER WRITES THE SCALAR DESTINATION: the per-lane flag
// that the following V_DIV_FMAS_F64 uses to decide whether to multiply the
// quotient by 2^64 is whatever VCC happened to hold before.
package divscale_test

import (
	"math"
	"testing"
)

func TestVDivScaleF64WritesFlagAndScales(t *testing.T) {
	type result struct {
		d   uint64
		vcc uint64
	}
	cases := []struct {
		name         string
		s0, s1, s2   float64
		wantD        float64
		wantNaN      bool
		wantVCCLane0 uint64
	}{
		// 1.0/3.0, scaling the denominator: nothing to do, flag must be 0.
		{"ordinary operands", 3.0, 3.0, 1.0, 3.0, false, 0},
		// denominator 0: D = NaN
		{"denominator zero", 0.0, 0.0, 1.0, 0, true, 0},
		// exponent(S2)-exponent(S1) = 900 >= 768: flag set, S0==S1 scaled.
		{"quotient near overflow", math.Ldexp(1, -800), math.Ldexp(1, -800),
			math.Ldexp(1, 100), math.Ldexp(1, -800+128), false, 1},
		// denormal denominator
		{"denormal denominator", math.Ldexp(1, -1060), math.Ldexp(1, -1060),
			math.Ldexp(1, -500), math.Ldexp(1, -1060+128), false, 0},
	}

	alus := bothALUs(nil)
	for _, c := range cases {
		res := map[string]result{}
		for _, u := range alus {
			s := newState()
			s.SetEXEC(1)
			s.SetVCC(0xFFFFFFFFFFFFFFFF) // stale flags of an earlier compare
			s.setV64(0, 2, b64(c.s0))
			s.setV64(0, 4, b64(c.s1))
			s.setV64(0, 6, b64(c.s2))
			// v_div_scale_f64 v[0:1], vcc, v[2:3], v[4:5], v[6:7]
			inst := decode(t, true,
				encVOP3b(481, 0, srcVCCLO, srcV(2), srcV(4), srcV(6), 0))
			if p := run(u.alu, s, inst); p != nil {
				t.Fatalf("%s: panicked: %v", u.name, p)
			}
			res[u.name] = result{s.v64(0, 0), s.VCC()}

			if got := s.VCC(); got != c.wantVCCLane0 {
				t.Errorf("%s: v_div_scale_f64 (%s): the scalar destination "+
					"must hold the flag of the active lanes and 0 elsewhere "+
					"(0x%x); vcc = 0x%x", u.name, c.name, c.wantVCCLane0, got)
			}
			got := f64(s.v64(0, 0))
			if c.wantNaN {
				if !math.IsNaN(got) {
					t.Errorf("%s: v_div_scale_f64 (%s): D must be NaN; got %v",
						u.name, c.name, got)
				}
			} else if got != c.wantD {
				t.Errorf("%s: v_div_scale_f64 (%s): D must be %v; got %v",
					u.name, c.name, c.wantD, got)
			}
		}
		a, b := res[alus[0].name], res[alus[1].name]
		if a.vcc != b.vcc || (a.d != b.d && !(math.IsNaN(f64(a.d)) && math.IsNaN(f64(b.d)))) {
			t.Errorf("v_div_scale_f64 (%s): the ALUs disagree: %s D=0x%016x "+
				"vcc=0x%x, %s D=0x%016x vcc=0x%x", c.name,
				alus[0].name, a.d, a.vcc, alus[1].name, b.d, b.vcc)
		}
	}
}

// The f32 variant exists only in the CDNA3 ALU.  It returns S0 unscaled in
// every case and derives the flag from S0/S2 (quotient-operand divided by the
// numerator) instead of from numerator/denominator.
func TestVDivScaleF32CDNA3(t *testing.T) {
	u := bothALUs(nil)[1]

	// numerator 1e-30, denominator 1e10: the quotient 1e-40 is subnormal, so
	// the numerator (S0 == S2) must be scaled by 2^64 and the flag set.
	num := float32(1e-30)
	den := float32(1e10)
	s := newState()
	s.SetEXEC(1)
	s.SetVCC(0)
	s.setV(0, 2, b32(num))
	s.setV(0, 3, b32(den))
	s.setV(0, 4, b32(num))
	// v_div_scale_f32 v0, vcc, v2, v3, v4
	inst := decode(t, true, encVOP3b(480, 0, srcVCCLO, srcV(2), srcV(3), srcV(4), 0))
	if p := run(u.alu, s, inst); p != nil {
		t.Fatalf("%s: panicked: %v", u.name, p)
	}
	want := float32(math.Ldexp(float64(num), 64))
	if got := f32(s.v(0, 0)); got != want || s.VCC() != 1 {
		t.Errorf("%s: v_div_scale_f32 S0=S2=1e-30 (numerator), S1=1e10: "+
			"N/D is subnormal, so D must be ldexp(S0,64)=%v with the flag "+
			"set; got D=%v vcc=0x%x", u.name, want, got, s.VCC())
	}

	// denominator zero: D = NaN
	s = newState()
	s.SetEXEC(1)
	s.setV(0, 2, b32(0))
	s.setV(0, 3, b32(0))
	s.setV(0, 4, b32(1))
	if p := run(u.alu, s, inst); p != nil {
		t.Fatalf("%s: panicked: %v", u.name, p)
	}
	if got := f32(s.v(0, 0)); got == got {
		t.Errorf("%s: v_div_scale_f32 with a zero denominator must give NaN; "+
			"got %v", u.name, got)
	}
}
