// Copy this directory to <tree>/c03demo/<name>/ and run from the tree root:
//
//	export PATH=/opt/veriftools/go1.26.8/bin:$PATH GOTOOLCHAIN=local GOFLAGS=-mod=mod GOPROXY=off GOSUMDB=off
//	go test ./c03demo/gcn3_s_add_i32_scc/ -v
//
// C03: S_ADD_I32 is D.i = S0.i + S1.i; SCC = signed overflow, i.e.
//
//	SCC = (S0.u[31] == S1.u[31] && S0.u[31] != D.u[31]).
//
// (S_ADD_U32 is the one whose SCC is the unsigned carry-out.)
// emu.ALUImpl.runSADDI32 (amd/emu/alusop2.go) is a copy of runSADDU32: it
// sets SCC to the UNSIGNED carry. -1 + 3 reports "overflow"; 0x7fffffff + 1
// reports none. The same ALU's S_SUB_I32 and the CDNA3 sibling
// (amd/emu/cdna3/sop2.go runSADDI32) compute the signed overflow.
package demo_test

import "testing"

func TestGCN3_S_ADD_I32_SCCIsSignedOverflow(t *testing.T) {
	type c struct {
		a, b    uint32
		wantSCC byte
		why     string
	}
	cases := []c{
		{0xffffffff, 3, 0, "-1 + 3 = 2 does not overflow"},
		{0x7fffffff, 1, 1, "INT_MAX + 1 overflows"},
		{0x80000000, 0xffffffff, 1, "INT_MIN + -1 overflows"},
		{0x80000000, 0x7fffffff, 0, "INT_MIN + INT_MAX = -1 does not overflow"},
		{5, 6, 0, "5 + 6"},
	}
	for _, k := range []aluKind{gcn3ALU, cdna3ALU} {
		for _, tc := range cases {
			snaps := runEmu(t, k, prog(
				movLit(4, tc.a),
				movLit(6, tc.b),
				sop2(2, 20, 4, 6), // s_add_i32 s20, s4, s6
				endpgm,
			))
			got := find(t, snaps, "s_add_i32")
			if got.s32(20) != tc.a+tc.b {
				t.Errorf("%v: wrong sum %#x", k, got.s32(20))
			}
			if got.scc != tc.wantSCC {
				t.Errorf("%v: s_add_i32 s20, s4, s6 with s4=%#x s6=%#x: the ISA requires SCC = signed overflow = %d (%s); got SCC=%d (the unsigned carry-out)",
					k, tc.a, tc.b, tc.wantSCC, tc.why, got.scc)
			}
		}
	}
}
