// Copy this directory to <tree>/c03demo/<name>/ and run from the tree root:
//
//	go test ./c03demo/div_fixup_f32_cdna3/ -v
//
// C03 (ISA conformance): V_DIV_FIXUP_F32 (VOP3a 478), GCN3 ISA section 12.10
// (CDNA3 defines it identically): S0 = quotient, S1 = DENOMINATOR,
// S2 = NUMERATOR;
//
//	S1 NaN / S2 NaN      -> quiet NaN
//	0/0, inf/inf         -> 0xFFC00000
//	S1 == 0       (x/0)  -> +-inf
//	|S1| == inf   (x/inf)-> +-0
//	S0 NaN               -> +-inf
//	else                 -> S0
//
// cdna3.ALU.runVDIVFIXUPF32 tests "src2 == 0 && src1 != 0" for "division by
// zero", i.e. it takes S2 (the numerator) for the denominator: 0/x yields
// +-inf instead of the quotient 0, x/0 yields whatever the quotient register
// held, and x/inf is not handled.
package divfixup32_test

import (
	"math"
	"testing"
)

func TestVDivFixupF32CDNA3(t *testing.T) {
	u := bothALUs(nil)[1] // GCN3 ALU does not implement opcode 478
	inf := float32(math.Inf(1))
	garbage := float32(123)

	cases := []struct {
		name           string
		quot, den, num float32
		want           uint32
	}{
		{"0/5: quotient 0 passes through", 0, 5, 0, 0x00000000},
		{"1/0 -> +inf", garbage, 0, 1, b32(inf)},
		{"-1/0 -> -inf", garbage, 0, -1, b32(-inf)},
		{"1/inf -> +0", garbage, inf, 1, 0x00000000},
	}
	for _, c := range cases {
		s := newState()
		s.SetEXEC(1)
		s.setV(0, 2, b32(c.quot))
		s.setV(0, 3, b32(c.den))
		s.setV(0, 4, b32(c.num))
		// v_div_fixup_f32 v0, v2, v3, v4
		inst := decode(t, true, encVOP3a(478, 0, 0, srcV(2), srcV(3), srcV(4), 0))
		if p := run(u.alu, s, inst); p != nil {
			t.Fatalf("%s: panicked: %v", u.name, p)
		}
		if got := s.v(0, 0); got != c.want {
			t.Errorf("%s: v_div_fixup_f32 quotient=%v denominator(S1)=%v "+
				"numerator(S2)=%v [%s]: must be 0x%08x (%v); got 0x%08x (%v)",
				u.name, c.quot, c.den, c.num, c.name, c.want, f32(c.want),
				got, f32(got))
		}
	}
}
