// Copy this directory to <tree>/c03demo/<name>/ and run from the tree root:
//
//	export PATH=/opt/veriftools/go1.26.8/bin:$PATH GOTOOLCHAIN=local GOFLAGS=-mod=mod GOPROXY=off GOSUMDB=off
//	go test ./c03demo/gcn3_s_bfe_i32_signext/ -v
//
// C03: S_BFE_I32 (SOP2 opcode 38) is
//
//	D.i = (S0.i >> S1.u[4:0]) & ((1 << S1.u[22:16]) - 1); sign-extend the
//	result from the field's top bit; SCC = (D.i != 0).
//
// emu.ALUImpl.runSBFEI32 (amd/emu/alusop2.go) stops after the AND: the
// extracted field is never sign-extended, so it is S_BFE_U32. The CDNA3
// sibling (amd/emu/cdna3/sop2.go runSBFEI32) does sign-extend, so the two
// ALUs disagree on an instruction both ISAs define identically.
package demo_test

import "testing"

func TestGCN3_S_BFE_I32_SignExtendsTheField(t *testing.T) {
	type c struct {
		s0, s1 uint32
		want   uint32
		why    string
	}
	cases := []c{
		{0x000000f0, 4<<16 | 4, 0xffffffff, "4-bit field 0b1111 at offset 4 is -1"},
		{0x00000080, 8<<16 | 0, 0xffffff80, "8-bit field 0x80 at offset 0 is -128 (this is how a signed char is unpacked)"},
		{0x00000004, 1<<16 | 2, 0xffffffff, "1-bit field 1 is -1 (the operands of the repo's own S_BFE_I32 Ginkgo test, which expects 1)"},
		{0x00007000, 4<<16 | 12, 0x00000007, "positive field stays positive"},
	}
	for _, k := range []aluKind{gcn3ALU, cdna3ALU} {
		for _, tc := range cases {
			snaps := runEmu(t, k, prog(
				movLit(4, tc.s0),
				movLit(6, tc.s1),
				movLit(20, 0x11111111),
				sop2(38, 20, 4, 6), // s_bfe_i32 s20, s4, s6
				endpgm,
			))
			got := find(t, snaps, "s_bfe_i32")
			if got.s32(20) != tc.want {
				t.Errorf("%v: s_bfe_i32 s20, s4, s6 with s4=%#x s6=%#x (offset %d, width %d): "+
					"the ISA requires the extracted field to be sign-extended, D=%#x (%s); "+
					"the ALU left D=%#x (zero-extended field)",
					k, tc.s0, tc.s1, tc.s1&31, tc.s1>>16&0x7f, tc.want, tc.why, got.s32(20))
			}
			if got.scc != 1 {
				t.Errorf("%v: SCC must be 1 for a non-zero result, got %d", k, got.scc)
			}
		}
	}
}
