// Copy this directory to <tree>/c03demo/<name>/ and run from the tree root:
//
//	export PATH=/opt/veriftools/go1.26.8/bin:$PATH GOTOOLCHAIN=local GOFLAGS=-mod=mod GOPROXY=off GOSUMDB=off
//	go test ./c03demo/s_getpc_b64/ -v
//
// C03: S_GETPC_B64 is D.u64 = PC + 4: the destination receives the byte
// address of the instruction that FOLLOWS s_getpc_b64 (a 4-byte instruction).
//
// The two ALUs are used with two kinds of InstEmuState that do not agree on
// what PC() is while an instruction executes:
//   - emu.ComputeUnit.runWfUntilBarrier (amd/emu/computeunit.go) does
//     wf.SetPC(wf.PC() + inst.ByteSize) BEFORE alu.Run: PC() is already the
//     address of the next instruction;
//   - the timing ScalarUnit (amd/timing/cu/scalarunit.go) calls alu.Run first
//     and ComputeUnit.UpdatePCAndSetReady adds inst.ByteSize afterwards:
//     PC() is the address of the executing instruction.
//
// (The branch handlers are right in both because they only add simm16*4.)
//
// emu.ALUImpl.runSGETPCB64 (amd/emu/alusop1.go) writes PC()+4: right in timing,
// 4 bytes too far in emulation (the default emulation ALU).
// cdna3.ALU.runSGETPCB64 (amd/emu/cdna3/sop1.go) writes PC(): right in
// emulation, 4 bytes short in timing (the MI300A timing configuration uses
// cdna3.NewALU). Each sibling is wrong on one of the two observation points of
// the property; s_getpc_b64 is how code objects address their constants
// (s_getpc_b64 / s_add_u32 sym@rel32@lo+4 / s_addc_u32 sym@rel32@hi+12), so
// every such address is off by 4.
package demo_test

import (
	"encoding/binary"
	"testing"

	"github.com/sarchlab/akita/v4/sim"
	"github.com/sarchlab/mgpusim/v4/amd/emu"
	"github.com/sarchlab/mgpusim/v4/amd/emu/cdna3"
	"github.com/sarchlab/mgpusim/v4/amd/insts"
	"github.com/sarchlab/mgpusim/v4/amd/kernels"
	"github.com/sarchlab/mgpusim/v4/amd/timing/cu"
	"github.com/sarchlab/mgpusim/v4/amd/timing/wavefront"
)

// Emulation: real emu.ComputeUnit, real decoder, program in memory.
func TestS_GETPC_B64_Emulation(t *testing.T) {
	for _, k := range []aluKind{gcn3ALU, cdna3ALU} {
		snaps := runEmu(t, k, prog(
			movLit(2, 0xdeadbeef), // 8 bytes at codeBase
			sop1(28, 0, 0),        // s_getpc_b64 s[0:1]  at codeBase+8
			sopp(0, 0),            // s_nop               at codeBase+12
			endpgm,
		))
		got := find(t, snaps, "s_getpc_b64")
		if got.instPC != codeBase+8 {
			t.Fatalf("harness: s_getpc_b64 expected at %#x, ran at %#x", codeBase+8, got.instPC)
		}
		want := codeBase + 12
		if got.s64(0) != want {
			t.Errorf("emulation, %v: s_getpc_b64 s[0:1] at address %#x must return the address of the next instruction %#x (PC+4); got s[0:1]=%#x",
				k, got.instPC, want, got.s64(0))
		}
		if got.pc != want {
			t.Errorf("emulation, %v: execution must continue at %#x, PC=%#x", k, want, got.pc)
		}
	}
}

// Timing: the real cu.ScalarUnit pipeline (read / exec / write stages), a
// real timing wavefront with the real CURegFileAccessor and a
// SimpleRegisterFile; only the surrounding ComputeUnit is reduced to what the
// scalar unit touches (ticking component for tracing, scalar register file).
func runTimingScalar(t *testing.T, kind aluKind, word uint32, pc uint64) *wavefront.Wavefront {
	t.Helper()
	engine := sim.NewSerialEngine()
	c := &cu.ComputeUnit{}
	c.TickingComponent = sim.NewTickingComponent("CU", engine, 1*sim.GHz, c)
	c.SRegFile = cu.NewSimpleRegisterFile(4*3200, 0)
	var alu emu.ALU
	if kind == gcn3ALU {
		alu = emu.NewALU(nil)
	} else {
		alu = cdna3.NewALU(nil)
	}
	su := cu.NewScalarUnit(c, alu)

	var buf [8]byte
	binary.LittleEndian.PutUint32(buf[:], word)
	inst, err := insts.NewDisassembler().Decode(buf[:])
	if err != nil {
		t.Fatal(err)
	}
	wf := wavefront.NewWavefront(kernels.NewWavefront())
	wf.RegAccessor = &cu.CURegFileAccessor{CU: c, WF: wf}
	wf.SetDynamicInst(wavefront.NewInst(inst))
	wf.SetPC(pc)
	wf.State = wavefront.WfRunning
	su.AcceptWave(wf)
	for i := 0; i < 6; i++ {
		su.Run()
	}
	if wf.State != wavefront.WfReady {
		t.Fatalf("the instruction did not retire from the scalar unit")
	}
	return wf
}

func TestS_GETPC_B64_Timing(t *testing.T) {
	const at = uint64(0x1_0000_1008)
	for _, k := range []aluKind{gcn3ALU, cdna3ALU} {
		wf := runTimingScalar(t, k, sop1(28, 0, 0), at)
		got := wf.ReadOperand(insts.NewSRegOperand(0, 0, 2), 0)
		if wf.PC() != at+4 {
			t.Errorf("timing, %v: after retiring, PC must be %#x, is %#x", k, at+4, wf.PC())
		}
		if got != at+4 {
			t.Errorf("timing, %v: s_getpc_b64 s[0:1] at address %#x must return the address of the next instruction %#x (PC+4); got s[0:1]=%#x",
				k, at, at+4, got)
		}
	}
}
