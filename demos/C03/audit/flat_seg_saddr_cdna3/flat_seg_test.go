// Copy this directory to <tree>/c03demo/<name>/ and run from the tree root:
//
//	go test ./c03demo/flat_seg_saddr_cdna3/ -v
//
// C03 (ISA conformance, FLAT address computation): in the GFX9/CDNA3 FLAT
// encoding the SEG field (bits 15:14) selects flat (0), scratch (1) or global
// (2).  Only scratch and global instructions have an SADDR operand; for a
// FLAT-segment instruction (flat_load_dword v1, v[2:3]) the address is always
// the 64-bit VGPR pair and the SADDR bits are not an operand - assemblers
// emit 0 there (LLVM: "Inst{54-48} = !if(has_saddr, !if(enabled_saddr, saddr,
// 0x7f), 0)"; e.g. flat_load_dword v1, v[3:4] = dc500000 01000003).
//
// decodeFLAT never looks at SEG.  With IsCDNA3 it treats every SADDR value
// other than 0x7F as "scalar base", so a flat_* instruction is executed as
// global_* v1, v2, s[0:1]: address = s[0:1] + zext(v2) instead of v[2:3].
// (The GCN3 branch papers over this by also treating SADDR==0 as OFF, which
// in turn makes "global_load_dword v1, v2, s[0:1]" wrong there.)
package flatseg_test

import "testing"

func TestFlatSegmentLoadUsesVgprPairCDNA3(t *testing.T) {
	mem := newFakeMem()
	mem.put32(0x0000_0001_0000_1000, 0x11111111) // where v[2:3] points
	mem.put32(0x0000_7000_0000_1000, 0x22222222) // s[0:1] + v2

	u := bothALUs(mem)[1]
	s := newState()
	s.SetEXEC(1)
	s.setS(0, 0x00000000) // s[0:1] = 0x0000_7000_0000_0000 (kernarg pointer, say)
	s.setS(1, 0x00007000)
	s.setV64(0, 2, 0x0000_0001_0000_1000)

	// flat_load_dword v1, v[2:3]      (seg = 0, saddr bits = 0)
	inst := decode(t, true, encFLAT(20, 0, 0, 0, 2, 0, 1))
	if p := run(u.alu, s, inst); p != nil {
		t.Fatalf("%s: panicked: %v", u.name, p)
	}
	if got := s.v(0, 1); got != 0x11111111 {
		t.Errorf("%s: flat_load_dword v1, v[2:3] with v[2:3]=0x100001000 must "+
			"load the dword at 0x100001000 (0x11111111); got 0x%08x, the "+
			"access went to 0x%x (= s[0:1] + v2)", u.name, got, mem.reads)
	}
}
