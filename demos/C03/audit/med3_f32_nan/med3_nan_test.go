// Copy this directory to <tree>/c03demo/<name>/ and run from the tree root:
//
//	go test ./c03demo/med3_f32_nan/ -v
//
// C03 (ISA conformance): V_MED3_F32 (VOP3a 470), GCN3 ISA 12.10:
//
//	If (isNan(S0.f) || isNan(S1.f) || isNan(S2.f))
//	    D.f = MIN3(S0.f, S1.f, S2.f)
//	Else ...
//
// and MIN3 / V_MIN_F32 return the non-NaN operand (that is how MinF32 in
// amd/emu/util.go and V_MIN3_F32 of the same file behave).  With two NaN
// inputs the result is therefore the remaining number.
//
// runVMED3F32 (both ALUs) sorts the three values with sort.Float64s, which
// orders NaNs first, and returns element [1]: with two NaNs that is a NaN.
// With exactly one NaN it returns the smaller of the two numbers, which
// happens to agree with MIN3.
package med3nan_test

import (
	"math"
	"testing"
)

func TestVMed3F32TwoNaNs(t *testing.T) {
	nan := float32(math.NaN())
	for _, u := range bothALUs(nil) {
		s := newState()
		s.SetEXEC(1)
		s.setV(0, 2, b32(nan))
		s.setV(0, 3, b32(5))
		s.setV(0, 4, b32(nan))
		// v_med3_f32 v0, v2, v3, v4
		inst := decode(t, false, encVOP3a(470, 0, 0, srcV(2), srcV(3), srcV(4), 0))
		if p := run(u.alu, s, inst); p != nil {
			t.Fatalf("%s: panicked: %v", u.name, p)
		}
		med := f32(s.v(0, 0))

		// the same ALU's MIN3 on the same inputs
		inst = decode(t, false, encVOP3a(464, 1, 0, srcV(2), srcV(3), srcV(4), 0))
		if p := run(u.alu, s, inst); p != nil {
			t.Fatalf("%s: panicked: %v", u.name, p)
		}
		min3 := f32(s.v(0, 1))

		if med != 5 {
			t.Errorf("%s: v_med3_f32(NaN, 5, NaN) must equal MIN3(NaN, 5, NaN) "+
				"= 5 (this ALU's own v_min3_f32 gives %v); got %v",
				u.name, min3, med)
		}
	}
}
