// Copy this directory to <tree>/c03demo/<name>/ and run from the tree root:
//
//	go test ./c03demo/bfe_i32/ -v
//
// C03 (ISA conformance; both ALUs obey the same specification): V_BFE_I32
// (VOP3a 457), GCN3 ISA 12.10 (">>>" is the arithmetic shift):
//
//	If (src2[4:0] == 0)                    dst = 0
//	Else if (src2[4:0] + src1[4:0] < 32)   dst = (src0 << (32-src1[4:0]-src2[4:0])) >>> (32-src2[4:0])
//	Else                                   dst = src0 >>> src1[4:0]
//
// i.e. when the field reaches (or would pass) bit 31 the result is src0
// shifted right ARITHMETICALLY by the offset: the sign of the field is bit 31.
//
//   - GCN3 handler (amd/emu/aluvop3a.go runVBFEI32): the else branch is
//     "extracted := src0 >> offset" on a uint32 - a logical shift - followed
//     by int32(): never sign-extends.
//   - CDNA3 handler (amd/emu/cdna3/vop3a.go runVBFEI32): masks the shifted
//     value to `width` bits and takes bit width-1 as the sign; right for
//     offset+width == 32, but for offset+width > 32 that bit lies beyond
//     bit 31 of the source and is always 0.
//
// So each ALU violates the specification and the two disagree with each
// other.
package bfei32_test

import "testing"

func TestVBfeI32FieldReachingBit31(t *testing.T) {
	cases := []struct {
		src, off, width uint32
		want            uint32
	}{
		{0x80001234, 16, 16, 0xFFFF8000}, // offset+width == 32
		{0x80001234, 24, 16, 0xFFFFFF80}, // offset+width  > 32
		{0xF0000000, 28, 31, 0xFFFFFFFF},
	}
	alus := bothALUs(nil)
	for _, c := range cases {
		var got [2]uint32
		for i, u := range alus {
			s := newState()
			s.SetEXEC(1)
			s.setV(0, 2, c.src)
			s.setV(0, 3, c.off)
			s.setV(0, 4, c.width)
			// v_bfe_i32 v0, v2, v3, v4
			inst := decode(t, true, encVOP3a(457, 0, 0, srcV(2), srcV(3), srcV(4), 0))
			if p := run(u.alu, s, inst); p != nil {
				t.Fatalf("%s: panicked: %v", u.name, p)
			}
			got[i] = s.v(0, 0)
			if got[i] != c.want {
				t.Errorf("%s: v_bfe_i32 v0, 0x%08x, %d, %d: offset+width >= 32, "+
					"so D = src0 >>> offset (arithmetic) = 0x%08x; got 0x%08x",
					u.name, c.src, c.off, c.width, c.want, got[i])
			}
		}
		if got[0] != got[1] {
			t.Errorf("v_bfe_i32 0x%08x, %d, %d: the ALUs disagree: %s=0x%08x "+
				"%s=0x%08x", c.src, c.off, c.width,
				alus[0].name, got[0], alus[1].name, got[1])
		}
	}
}
