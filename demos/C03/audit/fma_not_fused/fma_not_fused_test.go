// Copy this directory to <tree>/c03demo/<name>/ and run from the tree root:
//
//	go test ./c03demo/fma_not_fused/ -v
//
// C03 (ISA conformance, "exactly-rounded float add/mul/fma"): V_FMA_F64
// (VOP3a 460), V_FMA_F32 (VOP3a 459) and V_PK_FMA_F32 (VOP3P 0x30) are FUSED
// multiply-adds: D = round(S0*S1 + S2) with a single rounding of the exact
// result.  V_DIV_FMAS_F64 is specified on top of the same fused operation.
//
// The handlers compute "src0*src1 + src2" with Go's * and + operators.  On
// amd64 (GOAMD64=v1, the toolchain default) the compiler does not fuse them,
// so the product is rounded before the addition.  Whenever the addend cancels
// the leading bits of the product the low half of the product is lost: the
// result is 0 where the ISA prescribes a non-zero value.  This is precisely
// the residual computation (e = fma(-d, q, n)) that Newton-Raphson division
// and the v_div_scale/v_div_fmas/v_div_fixup sequence depend on.
package fmafused_test

import (
	"math"
	"testing"
)

func TestVFmaF64IsFused(t *testing.T) {
	// (1+2^-27)*(1-2^-27) = 1 - 2^-54 exactly; as a double it rounds to 1.0.
	a := 1 + math.Ldexp(1, -27)
	b := 1 - math.Ldexp(1, -27)
	c := -1.0
	want := math.FMA(a, b, c) // -2^-54
	if want != -math.Ldexp(1, -54) {
		t.Fatalf("test oracle broken: %v", want)
	}

	for _, u := range bothALUs(nil) {
		s := newState()
		s.SetEXEC(1)
		s.setV64(0, 2, b64(a))
		s.setV64(0, 4, b64(b))
		s.setV64(0, 6, b64(c))
		// v_fma_f64 v[0:1], v[2:3], v[4:5], v[6:7]
		inst := decode(t, true, encVOP3a(460, 0, 0, srcV(2), srcV(4), srcV(6), 0))
		if p := run(u.alu, s, inst); p != nil {
			t.Fatalf("%s: panicked: %v", u.name, p)
		}
		if got := f64(s.v64(0, 0)); got != want {
			t.Errorf("%s: v_fma_f64 (1+2^-27)*(1-2^-27) + (-1) must be the "+
				"singly rounded exact result %v (0x%016x); got %v (0x%016x): "+
				"the product was rounded before the addition",
				u.name, want, b64(want), got, s.v64(0, 0))
		}

		// v_div_fmas_f64 with VCC=0 is the same fused operation.
		s = newState()
		s.SetEXEC(1)
		s.SetVCC(0)
		s.setV64(0, 2, b64(a))
		s.setV64(0, 4, b64(b))
		s.setV64(0, 6, b64(c))
		inst = decode(t, true, encVOP3a(483, 0, 0, srcV(2), srcV(4), srcV(6), 0))
		if p := run(u.alu, s, inst); p != nil {
			t.Fatalf("%s: panicked: %v", u.name, p)
		}
		if got := f64(s.v64(0, 0)); got != want {
			t.Errorf("%s: v_div_fmas_f64 (VCC=0) (1+2^-27)*(1-2^-27) + (-1) "+
				"must be the fused result %v; got %v", u.name, want, got)
		}
	}
}

func fma32(a, b, c float32) float32 {
	// The product of two float32 is exact in float64 and, for the operands
	// used here, so is the sum.
	return float32(float64(a)*float64(b) + float64(c))
}

func TestVFmaF32IsFusedCDNA3(t *testing.T) {
	// (1+2^-12)^2 = 1 + 2^-11 + 2^-24; as a float32 it rounds to 1 + 2^-11.
	a := float32(1 + math.Ldexp(1, -12))
	c := -float32(1 + math.Ldexp(1, -11))
	want := fma32(a, a, c) // 2^-24
	if want != float32(math.Ldexp(1, -24)) {
		t.Fatalf("test oracle broken: %v", want)
	}

	u := bothALUs(nil)[1] // the GCN3 ALU does not implement opcode 459

	s := newState()
	s.SetEXEC(1)
	s.setV(0, 2, b32(a))
	s.setV(0, 3, b32(a))
	s.setV(0, 4, b32(c))
	// v_fma_f32 v0, v2, v3, v4
	inst := decode(t, true, encVOP3a(459, 0, 0, srcV(2), srcV(3), srcV(4), 0))
	if p := run(u.alu, s, inst); p != nil {
		t.Fatalf("%s: panicked: %v", u.name, p)
	}
	if got := f32(s.v(0, 0)); got != want {
		t.Errorf("%s: v_fma_f32 (1+2^-12)*(1+2^-12) - (1+2^-11) must be the "+
			"fused result %v (0x%08x); got %v (0x%08x)",
			u.name, want, b32(want), got, s.v(0, 0))
	}

	// v_pk_fma_f32 v[0:1], v[2:3], v[4:5], v[6:7]  (op_sel_hi = 111: plain
	// lane-wise operation)
	s = newState()
	s.SetEXEC(1)
	s.setV64(0, 2, uint64(b32(a))|uint64(b32(a))<<32)
	s.setV64(0, 4, uint64(b32(a))|uint64(b32(a))<<32)
	s.setV64(0, 6, uint64(b32(c))|uint64(b32(c))<<32)
	inst = decode(t, true, encVOP3P(0x30, 0, 0, 0, 7, srcV(2), srcV(4), srcV(6), 0))
	if p := run(u.alu, s, inst); p != nil {
		t.Fatalf("%s: panicked: %v", u.name, p)
	}
	lo, hi := f32(s.v(0, 0)), f32(s.v(0, 1))
	if lo != want || hi != want {
		t.Errorf("%s: v_pk_fma_f32 must give the fused result %v in both "+
			"halves; got lo=%v hi=%v", u.name, want, lo, hi)
	}
}
