// Copy this directory to <tree>/c03demo/<name>/ and run from the tree root:
//
//	go test ./c03demo/flat_subdword_overread_gcn3/ -v
//
// C03 (ISA conformance, memory effects of sub-dword loads): FLAT_LOAD_UBYTE /
// FLAT_LOAD_SBYTE access ONE byte and FLAT_LOAD_USHORT two bytes at the
// computed address ("nothing else" is touched).
//
// The GCN3 ALU (amd/emu/alu_flat.go) issues storageAccessor.Read(pid, addr, 4)
// for all three and masks the result afterwards.  When the byte is the last
// one of a mapped page (the last element of a page-sized uint8 buffer) the
// three extra bytes lie in the next, possibly unmapped page and the real
// storageAccessorImpl panics with "page not found in page table".  The CDNA3
// ALU reads exactly 1 / 2 bytes.
package flatoverread_test

import (
	"fmt"
	"testing"

	"github.com/sarchlab/akita/v4/mem/vm"
)

// pagedMem maps exactly one 4 KiB page and faults like
// emu.storageAccessorImpl does on anything outside of it.
type pagedMem struct {
	base uint64
	data [4096]byte
}

func (m *pagedMem) Read(_ vm.PID, addr, n uint64) []byte {
	if addr < m.base || addr+n > m.base+4096 {
		panic(fmt.Sprintf("page not found in page table: read of %d bytes at 0x%x", n, addr))
	}
	out := make([]byte, n)
	copy(out, m.data[addr-m.base:])
	return out
}

func (m *pagedMem) Write(_ vm.PID, addr uint64, d []byte) {
	copy(m.data[addr-m.base:], d)
}

func TestFlatLoadUByteReadsOneByte(t *testing.T) {
	mem := &pagedMem{base: 0x10000}
	mem.data[4095] = 0x7E
	mem.data[4094] = 0x34

	for _, u := range bothALUs(mem) {
		s := newState()
		s.SetEXEC(1)
		s.setV64(0, 2, 0x10000+4095)
		// flat_load_ubyte v1, v[2:3]
		inst := decode(t, false, encFLAT(16, 0, 0, 0, 2, 0, 1))
		if p := run(u.alu, s, inst); p != nil {
			t.Errorf("%s: flat_load_ubyte of the last byte of a mapped page "+
				"must access that single byte and return 0x7E; it faulted: %v",
				u.name, p)
		} else if got := s.v(0, 1); got != 0x7E {
			t.Errorf("%s: flat_load_ubyte: want 0x7E, got 0x%x", u.name, got)
		}

		s = newState()
		s.SetEXEC(1)
		s.setV64(0, 2, 0x10000+4094)
		// flat_load_ushort v1, v[2:3]
		inst = decode(t, false, encFLAT(18, 0, 0, 0, 2, 0, 1))
		if p := run(u.alu, s, inst); p != nil {
			t.Errorf("%s: flat_load_ushort of the last two bytes of a mapped "+
				"page must access those two bytes and return 0x7E34; it "+
				"faulted: %v", u.name, p)
		} else if got := s.v(0, 1); got != 0x7E34 {
			t.Errorf("%s: flat_load_ushort: want 0x7E34, got 0x%x", u.name, got)
		}
	}
}
