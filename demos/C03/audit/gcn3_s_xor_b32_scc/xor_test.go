// Copy this directory to <tree>/c03demo/<name>/ and run from the tree root:
//
//	export PATH=/opt/veriftools/go1.26.8/bin:$PATH GOTOOLCHAIN=local GOFLAGS=-mod=mod GOPROXY=off GOSUMDB=off
//	go test ./c03demo/gcn3_s_xor_b32_scc/ -v
//
// C03: S_XOR_B32 is D.u = S0.u ^ S1.u (32 bits); SCC = (D.u != 0).
// emu.ALUImpl.runSOP2 (amd/emu/alusop2.go) routes opcode 16 (S_XOR_B32) and
// opcode 17 (S_XOR_B64) to the same handler runSXORB64, which XORs the full
// 64-bit values ReadOperand returns and tests the 64-bit result. A negative
// inline constant is delivered sign-extended to 64 bits (uint64(IntValue)),
// so "s_xor_b32 sD, sX, -1" (a 32-bit NOT) always leaves SCC=1, also when the
// 32-bit result written to sD is 0. The CDNA3 sibling has a separate 32-bit
// handler (runSXORB32) and is right.
package demo_test

import "testing"

func TestGCN3_S_XOR_B32_SCCLooksAt32Bits(t *testing.T) {
	for _, k := range []aluKind{gcn3ALU, cdna3ALU} {
		snaps := runEmu(t, k, prog(
			movLit(4, 0xffffffff),
			sop2(16, 20, 4, inlineInt(-1)), // s_xor_b32 s20, s4, -1
			sopp(4, 2),                     // s_cbranch_scc0 +2
			movLit(30, 0xdead),
			endpgm,
		))
		got := find(t, snaps, "s_xor_b32")
		if got.s32(20) != 0 {
			t.Errorf("%v: 0xffffffff ^ 0xffffffff must be 0, got %#x", k, got.s32(20))
		}
		if got.scc != 0 {
			t.Errorf("%v: s_xor_b32 s20, s4, -1 with s4=0xffffffff: D=0, so the ISA requires SCC=(D!=0)=0; got SCC=%d "+
				"(the 32-bit instruction was evaluated as 0x00000000ffffffff ^ 0xffffffffffffffff)", k, got.scc)
		}
		if snaps[len(snaps)-1].s32(30) == 0xdead {
			t.Errorf("%v: the dependent s_cbranch_scc0 was not taken although the result is zero", k)
		}

		// -16 ^ 0xfffffff0 == 0 as well
		snaps = runEmu(t, k, prog(
			movLit(4, 0xfffffff0),
			sop2(16, 20, inlineInt(-16), 4), // s_xor_b32 s20, -16, s4
			endpgm,
		))
		got = find(t, snaps, "s_xor_b32")
		if got.s32(20) != 0 || got.scc != 0 {
			t.Errorf("%v: s_xor_b32 s20, -16, s4 with s4=0xfffffff0: want D=0 SCC=0, got D=%#x SCC=%d", k, got.s32(20), got.scc)
		}
	}
}
