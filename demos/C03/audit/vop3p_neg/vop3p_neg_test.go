// Copy this directory to <tree>/c03demo/<name>/ and run from the tree root:
//
//	go test ./c03demo/vop3p_neg/ -v
//
// C03 (ISA conformance): VOP3P has two independent negate fields (CDNA3 ISA
// 13.3.6, table "VOP3P Fields"): NEG [63:61] negates sources 0,1,2 of the LOW
// result, NEG_HI [10:8] negates sources 0,1,2 of the HIGH result.  For
// V_PK_MUL_F32 / V_PK_ADD_F32 / V_PK_FMA_F32
//
//	D.lo = op( neg_lo[0]? -A.lo' : A.lo', ... )
//	D.hi = op( neg_hi[0]? -A.hi' : A.hi', ... )
//
// The CDNA3 handlers apply inst.Src{0,1,2}Neg (the NEG field = neg_lo) to
// BOTH halves and never look at NEG_HI (the decoder puts it in inst.Abs and
// comments "neg_hi ... ignored").  A neg_lo-only or neg_hi-only instruction,
// which the compiler emits when it folds an fneg of one element of a
// <2 x float>, produces a wrong sign in one half.
package vop3pneg_test

import "testing"

func TestVPkF32NegLoAndNegHiAreIndependent(t *testing.T) {
	u := bothALUs(nil)[1] // VOP3P exists only in the CDNA3 ALU

	type tc struct {
		name         string
		op7          int
		negHi, negLo uint32
		wantLo       float32
		wantHi       float32
	}
	// A = (2, 3), B = (5, 7), C = (100, 1000)
	cases := []tc{
		{"v_pk_mul_f32 neg_lo:[1,0]", 0x31, 0, 1, -10, 21},
		{"v_pk_mul_f32 neg_hi:[1,0]", 0x31, 1, 0, 10, -21},
		{"v_pk_add_f32 neg_lo:[0,1]", 0x32, 0, 2, 2 - 5, 3 + 7},
		{"v_pk_add_f32 neg_hi:[0,1]", 0x32, 2, 0, 2 + 5, 3 - 7},
		{"v_pk_fma_f32 neg_lo:[0,0,1]", 0x30, 0, 4, 2*5 - 100, 3*7 + 1000},
		{"v_pk_fma_f32 neg_hi:[0,0,1]", 0x30, 4, 0, 2*5 + 100, 3*7 - 1000},
	}
	for _, c := range cases {
		s := newState()
		s.SetEXEC(1)
		s.setV(0, 2, b32(2))
		s.setV(0, 3, b32(3))
		s.setV(0, 4, b32(5))
		s.setV(0, 5, b32(7))
		s.setV(0, 6, b32(100))
		s.setV(0, 7, b32(1000))
		src2 := uint32(0)
		opSelHi := uint32(3)
		if c.op7 == 0x30 {
			src2 = srcV(6)
			opSelHi = 7
		}
		// v_pk_xxx_f32 v[0:1], v[2:3], v[4:5](, v[6:7])  op_sel_hi all ones
		inst := decode(t, true,
			encVOP3P(c.op7, 0, c.negHi, 0, opSelHi, srcV(2), srcV(4), src2, c.negLo))
		if p := run(u.alu, s, inst); p != nil {
			t.Fatalf("%s: %s panicked: %v", u.name, c.name, p)
		}
		lo, hi := f32(s.v(0, 0)), f32(s.v(0, 1))
		if lo != c.wantLo || hi != c.wantHi {
			t.Errorf("%s: %s on A=(2,3) B=(5,7) C=(100,1000): neg_lo negates "+
				"only the operands of the low result and neg_hi only those of "+
				"the high result, so D must be (%v, %v); got (%v, %v)",
				u.name, c.name, c.wantLo, c.wantHi, lo, hi)
		}
	}
}
