// Copy this directory to <tree>/c03demo/<name>/ and run from the tree root:
//
//	export PATH=/opt/veriftools/go1.26.8/bin:$PATH GOTOOLCHAIN=local GOFLAGS=-mod=mod GOPROXY=off GOSUMDB=off
//	go test ./c03demo/cdna3_s_bfe_i32_highfield/ -v
//
// C03: S_BFE_I32: D.i = (S0.i >> S1.u[4:0]) & ((1 << S1.u[22:16]) - 1);
// sign-extend. S0 is SIGNED, so the shift is arithmetic: when the field reaches
// beyond bit 31 (offset + width > 32) the missing bits are copies of S0[31],
// and the result is the sign-extended top (32 - offset) bits of S0 (which is
// also what the hardware/LLVM "width is clamped to 32 - offset" rule gives).
// cdna3.ALU.runSBFEI32 (amd/emu/cdna3/sop2.go) zero-extends S0 to 64 bits
// before shifting (src0 := uint64(uint32(...))), so the bits above 31 are 0,
// the "sign bit" it tests (bit width-1 of the shifted value) is 0, and a
// negative field comes out positive.
package demo_test

import "testing"

func TestCDNA3_S_BFE_I32_FieldReachingPastBit31(t *testing.T) {
	type c struct {
		s0, s1, want uint32
	}
	cases := []c{
		// offset 28, width 8: bits [31:28] = 0b1000, signed -> -8
		{0x80000001, 8<<16 | 28, 0xfffffff8},
		// offset 16, width 32 ("upper half, signed", as in s_ashr_i32 x, 16)
		{0xcf26c5c5, 32<<16 | 16, 0xffffcf26},
		// offset 31, width 2: bit 31 alone, signed -> -1
		{0x80000000, 2<<16 | 31, 0xffffffff},
		// positive top bits: unchanged
		{0x70000000, 8<<16 | 28, 0x00000007},
	}
	for _, k := range []aluKind{cdna3ALU} {
		for _, tc := range cases {
			snaps := runEmu(t, k, prog(
				movLit(4, tc.s0),
				movLit(6, tc.s1),
				sop2(38, 20, 4, 6), // s_bfe_i32 s20, s4, s6
				endpgm,
			))
			got := find(t, snaps, "s_bfe_i32")
			if got.s32(20) != tc.want {
				t.Errorf("%v: s_bfe_i32 s20, s4, s6 with s4=%#x, offset %d, width %d: "+
					"(S0.i >> offset) is an arithmetic shift of a signed value, the ISA result is D=%#x; got D=%#x",
					k, tc.s0, tc.s1&31, tc.s1>>16&0x7f, tc.want, got.s32(20))
			}
		}
	}
}
