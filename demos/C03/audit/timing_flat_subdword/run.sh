#!/bin/sh
# Run from the worktree root: sh AUDIT/demo/timing_flat_subdword/run.sh
set -e
export PATH=/opt/veriftools/go1.26.8/bin:$PATH GOTOOLCHAIN=local GOFLAGS=-mod=mod GOPROXY=off GOSUMDB=off
dst=amd/timing/cu/zz_c03c_audit_subdword_test.go
cp AUDIT/demo/timing_flat_subdword/coalescer_subdword_test.go.txt "$dst"
trap 'rm -f "$dst"' EXIT
go test $(ls amd/timing/cu/*.go | grep -v _test.go) "$dst" -run TestTimingFlatStoreByteWritesOneByte -v
