// Copy this directory to <tree>/c03demo/<name>/ and run from the tree root:
//
//	go test ./c03demo/subb_vop3b_src2/ -v
//
// C03 (ISA conformance): the VOP3b form of V_SUBB_U32 / V_SUBB_CO_U32
// (opcode 285) is "D.u = S0.u - S1.u - carry_in; sgpr = carry-out, S2 =
// carry-in" (GCN3 ISA 13.x, opcode list: "VOP3: sgpr=carry-out,
// S2.u=carry-in").  It is the second half of every 64-bit subtraction whose
// borrow lives in an SGPR pair.
//
// The decode table gives v_subb_u32_e64 an SRC2 width of 0 (its siblings
// v_addc_u32_e64 and v_subbrev_u32_e64 have 64), so decodeVOP3b leaves
// inst.Src2 nil, and runVSUBBU32VOP3b (both ALUs) dereferences it: executing
// the instruction crashes the simulator instead of producing
// D = S0 - S1 - borrow.
package subbsrc2_test

import "testing"

func TestVSubbU32VOP3bFromMachineCode(t *testing.T) {
	for _, u := range bothALUs(nil) {
		s := newState()
		s.SetEXEC(1)
		s.setV(0, 2, 10)
		s.setV(0, 3, 3)
		s.setS(10, 1) // borrow-in of lane 0 in s[10:11]
		s.setS(11, 0)
		// v_subb_u32 v0, s[8:9], v2, v3, s[10:11]
		inst := decode(t, false, encVOP3b(285, 0, srcS(8), srcV(2), srcV(3), srcS(10), 0))
		if inst.InstName != "v_subb_u32_e64" {
			t.Fatalf("decoded %q", inst.InstName)
		}
		if inst.Src2 == nil {
			t.Errorf("decoder: v_subb_u32_e64 v0, s[8:9], v2, v3, s[10:11] " +
				"must have its borrow-in operand s[10:11] in Src2; Src2 is nil")
		}
		if p := run(u.alu, s, inst); p != nil {
			t.Errorf("%s: v_subb_u32_e64 must compute 10-3-1 = 6 and write "+
				"the borrow-out to s[8:9]; the handler panicked: %v", u.name, p)
			continue
		}
		if got := s.v(0, 0); got != 6 {
			t.Errorf("%s: v_subb_u32_e64 10-3-borrow(1) must be 6; got %d",
				u.name, got)
		}
	}
}
