// Copy this directory to <tree>/c03demo/<name>/ and run from the tree root:
//
//	go test ./c03demo/smem_addr/ -v
//
// C03 (ISA conformance, s_load addressing).
//
//  1. CDNA3 ISA 13.2.1, SMEM field OFFSET = bits [52:32] (21 bits): "An
//     immediate SIGNED byte offset ... Signed offsets only work with
//     S_LOAD/STORE."  decodeSMEM extracts bits [51:32] (20 bits) as an
//     unsigned number for every architecture, so on CDNA3
//     "s_load_dword s5, s[2:3], -0x10" reads from base + 0xFFFF0.
//
//  2. GCN3 ISA 7.2.1: "Memory Address = BASE + OFFSET, truncated to a Dword
//     address."  runSLOADDWORD* use base+offset as is, so an SGPR offset (or
//     base) that is not a multiple of 4 reads a misaligned dword.
package smemaddr_test

import "testing"

func encSMEM(op int, imm uint32, sdata, sbase int, offset uint32) []byte {
	lo := 0xC0000000 | uint32(op)<<18 | imm<<17 | uint32(sdata)<<6 | uint32(sbase>>1)
	return words(lo, offset)
}

func TestSLoadNegativeImmediateOffsetCDNA3(t *testing.T) {
	mem := newFakeMem()
	const base = 0x0000_0002_0000_1000
	mem.put32(base-0x10, 0xAAAAAAAA)
	mem.put32(base+0xFFFF0, 0xBBBBBBBB)

	u := bothALUs(mem)[1]
	s := newState()
	s.setS(2, uint32(base&0xFFFFFFFF))
	s.setS(3, uint32(base>>32))
	// s_load_dword s5, s[2:3], -0x10   (IMM=1, OFFSET = 21-bit two's complement)
	inst := decode(t, true, encSMEM(0, 1, 5, 2, 0x1FFFF0))
	if p := run(u.alu, s, inst); p != nil {
		t.Fatalf("%s: panicked: %v", u.name, p)
	}
	if got := s.sreg(5); got != 0xAAAAAAAA {
		t.Errorf("%s: s_load_dword s5, s[2:3], -0x10 must read the dword at "+
			"base-0x10 (0xAAAAAAAA): the CDNA3 immediate offset is a 21-bit "+
			"signed byte offset; got 0x%08x, the access went to 0x%x "+
			"(base = 0x%x)", u.name, got, mem.reads, uint64(base))
	}
}

func TestSLoadAddressTruncatedToDword(t *testing.T) {
	for idx := 0; idx < 2; idx++ {
		mem := newFakeMem()
		const base = 0x0000_0002_0000_1000
		mem.put32(base+4, 0x44444444)
		mem.put32(base+8, 0x88888888)
		u := bothALUs(mem)[idx]
		s := newState()
		s.setS(2, uint32(base&0xFFFFFFFF))
		s.setS(3, uint32(base>>32))
		s.setS(4, 6) // byte offset 6: not dword aligned
		// s_load_dword s5, s[2:3], s4   (IMM=0, OFFSET = SGPR number)
		inst := decode(t, false, encSMEM(0, 0, 5, 2, 4))
		if p := run(u.alu, s, inst); p != nil {
			t.Fatalf("%s: panicked: %v", u.name, p)
		}
		if got := s.sreg(5); got != 0x44444444 {
			t.Errorf("%s: s_load_dword s5, s[2:3], s4 with s4=6: the address "+
				"base+6 is truncated to the dword address base+4, so s5 must "+
				"be 0x44444444; got 0x%08x (access at 0x%x, base 0x%x)",
				u.name, got, mem.reads, uint64(base))
		}
	}
}
