// Copy this directory to <tree>/c03demo/<name>/ and run from the tree root:
//
//	go test ./c03demo/div_scale_f64_huge_den/ -v
//
// C03 (ISA conformance): V_DIV_SCALE_F64 "scales inputs for division to avoid
// subnormal terms during Newton-Raphson correction" (GCN3 ISA, opcode 481).
// AMD's published pseudo-code of the instruction (Vega / CDNA / RDNA ISA
// manuals; the GCN3 manual in docs/ only has the prose) reads
//
//	...
//	else if (1 / S1.d == DENORM && S2.d / S1.d == DENORM) { VCC = 1; if (S0.d == S1.d) D.d = ldexp(S0.d, 128) }
//	else if (1 / S1.d == DENORM)                            D.d = ldexp(S0.d, -128)
//	else if (S2.d / S1.d == DENORM)                         { VCC = 1; if (S0.d == S2.d) D.d = ldexp(S0.d, 128) }
//	...
//
// When only the reciprocal of the denominator would be subnormal (|S1| >
// 2^1022) the operand is scaled DOWN by 2^128.  runVDIVSCALEF64 of the GCN3
// ALU scales it UP in that branch ("dstVal = src0 * 2^128"), which overflows
// the very operand the instruction is meant to protect: the scaled
// denominator becomes +Inf.
//
// Confidence: medium - the exponent sign is taken from the later manuals, not
// from the GCN3 PDF in docs/ (which gives no pseudo-code for this opcode); the
// observed result (+Inf for a finite, in-range operand) is wrong under any
// reading of "avoid subnormal terms".
package divscalehuge_test

import (
	"math"
	"testing"
)

func TestVDivScaleF64HugeDenominatorGCN3(t *testing.T) {
	u := bothALUs(nil)[0]
	den := math.Ldexp(1, 1023) // 1/den = 2^-1023 is subnormal
	num := math.Ldexp(1, 10)   // num/den = 2^-1013 is normal

	s := newState()
	s.SetEXEC(1)
	s.setV64(0, 2, b64(den)) // S0 == S1: scale the denominator
	s.setV64(0, 4, b64(den))
	s.setV64(0, 6, b64(num))
	// v_div_scale_f64 v[0:1], vcc, v[2:3], v[4:5], v[6:7]
	inst := decode(t, false, encVOP3b(481, 0, srcVCCLO, srcV(2), srcV(4), srcV(6), 0))
	if p := run(u.alu, s, inst); p != nil {
		t.Fatalf("%s: panicked: %v", u.name, p)
	}
	want := math.Ldexp(den, -128)
	if got := f64(s.v64(0, 0)); got != want {
		t.Errorf("%s: v_div_scale_f64 S0=S1=2^1023, S2=2^10: 1/S1 is "+
			"subnormal but S2/S1 is not, so D must be ldexp(S0,-128) = %v; "+
			"got %v", u.name, want, got)
	}
}
