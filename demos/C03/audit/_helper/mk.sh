#!/bin/sh
# usage: mk.sh <dir> <pkg>
mkdir -p "$1"
sed "s/PKG_test/$2_test/" "$(dirname "$0")/helper_test.go.txt" > "$1/helper_test.go"
