// Copy this directory to <tree>/c03demo/<name>/ and run from the tree root:
//
//	go test ./c03demo/mad_u32_u24/ -v
//
// C03 (ISA conformance): VOP3a opcode 451 is V_MAD_U32_U24 (the decode table
// names it so): D.u = S0.u[23:0] * S1.u[23:0] + S2.u.  Only the low 24 bits
// of the two factors take part; compilers use the instruction exactly because
// they know (or do not care) what bits 31:24 hold.
//
// Both ALUs route opcode 451 to runVMADU64U32 ("case 451, 488"), which
// multiplies the full 32-bit registers, so any factor with a bit above bit 23
// set produces a wrong result.  The sibling V_MAD_I32_I24 (450) does extract
// the 24-bit fields.
package madu24_test

import "testing"

func TestVMadU32U24UsesOnly24Bits(t *testing.T) {
	for _, u := range bothALUs(nil) {
		s := newState()
		s.SetEXEC(1)
		s.setV(0, 2, 0xAB000002) // S0: low 24 bits = 2
		s.setV(0, 3, 0xCD000003) // S1: low 24 bits = 3
		s.setV(0, 4, 1)          // S2
		// v_mad_u32_u24 v0, v2, v3, v4
		inst := decode(t, true, encVOP3a(451, 0, 0, srcV(2), srcV(3), srcV(4), 0))
		if inst.InstName != "v_mad_u32_u24" {
			t.Fatalf("decoded %q", inst.InstName)
		}
		if p := run(u.alu, s, inst); p != nil {
			t.Fatalf("%s: panicked: %v", u.name, p)
		}
		if got := s.v(0, 0); got != 7 {
			t.Errorf("%s: v_mad_u32_u24 v0, 0xAB000002, 0xCD000003, 1 must be "+
				"S0[23:0]*S1[23:0]+S2 = 2*3+1 = 7; got 0x%08x", u.name, got)
		}
	}
}
