package demo_test

import (
	"math/bits"
	"math/rand"
	"testing"
)

type sop1Spec struct {
	name string
	op   uint32
	s64  bool
	d64  bool
	f    func(s st) res
}

func saveexec(g func(s0, e uint64) uint64) func(s st) res {
	return func(s st) res {
		e := g(s.s0, s.exec)
		return res{d: s.exec, exec: e, scc: b2(e != 0), wrD: true}
	}
}

var sop1Specs = []sop1Spec{
	{"s_mov_b32", 0, false, false, func(s st) res { return res{d: uint64(uint32(s.s0)), scc: s.scc, exec: s.exec} }},
	{"s_mov_b64", 1, true, true, func(s st) res { return res{d: s.s0, scc: s.scc, exec: s.exec} }},
	{"s_not_b32", 4, false, false, func(s st) res { r := uint64(^uint32(s.s0)); return res{d: r, scc: b2(r != 0), exec: s.exec} }},
	{"s_brev_b32", 8, false, false, func(s st) res { return res{d: uint64(bits.Reverse32(uint32(s.s0))), scc: s.scc, exec: s.exec} }},
	{"s_and_saveexec_b64", 32, true, true, saveexec(func(a, e uint64) uint64 { return a & e })},
	{"s_or_saveexec_b64", 33, true, true, saveexec(func(a, e uint64) uint64 { return a | e })},
	{"s_xor_saveexec_b64", 34, true, true, saveexec(func(a, e uint64) uint64 { return a ^ e })},
	{"s_andn2_saveexec_b64", 35, true, true, saveexec(func(a, e uint64) uint64 { return a &^ e })},
	{"s_orn2_saveexec_b64", 36, true, true, saveexec(func(a, e uint64) uint64 { return a | ^e })},
	{"s_nand_saveexec_b64", 37, true, true, saveexec(func(a, e uint64) uint64 { return ^(a & e) })},
	{"s_nor_saveexec_b64", 38, true, true, saveexec(func(a, e uint64) uint64 { return ^(a | e) })},
	{"s_xnor_saveexec_b64", 39, true, true, saveexec(func(a, e uint64) uint64 { return ^(a ^ e) })},
	{"s_abs_i32", 48, false, false, func(s st) res {
		v := int32(s.s0)
		if v < 0 {
			v = -v
		}
		return res{d: uint64(uint32(v)), scc: b2(v != 0), exec: s.exec}
	}},
}

func TestSweepSOP1(t *testing.T) {
	r := rand.New(rand.NewSource(2))
	for _, k := range []aluKind{gcn3ALU, cdna3ALU} {
		for _, sp := range sop1Specs {
			fails := 0
			for it := 0; it < 800 && fails < 3; it++ {
				a := genOperand(r, 4, sp.s64)
				sccIn := byte(r.Intn(2))
				elo, ehi := rnd32(r), rnd32(r)
				var words []uint32
				words = append(words, a.setup...)
				words = append(words, movLit(20, 0x11111111)...)
				words = append(words, movLit(21, 0x22222222)...)
				words = append(words, movLit(22, 0x33333333)...)
				words = append(words, movLit(execLo, elo)...)
				words = append(words, movLit(execLo+1, ehi)...)
				if sccIn == 1 {
					words = append(words, sopc(6, inlineInt(0), inlineInt(0)))
				} else {
					words = append(words, sopc(7, inlineInt(0), inlineInt(0)))
				}
				words = append(words, sop1(sp.op, 20, a.code))
				if a.lit != nil {
					words = append(words, *a.lit)
				}
				words = append(words, endpgm)
				snaps := runEmu(t, k, words)
				var got snap
				for _, s := range snaps[len(snaps)-2:] {
					if s.name == sp.name {
						got = s
					}
				}
				exec := uint64(elo) | uint64(ehi)<<32
				want := sp.f(st{s0: a.val, scc: sccIn, exec: exec})
				var gotD uint64
				if sp.d64 {
					gotD = got.s64(20)
				} else {
					gotD = uint64(got.s32(20))
					if got.s32(21) != 0x22222222 {
						t.Errorf("%v %s clobbered s21", k, sp.name)
					}
				}
				if got.s32(22) != 0x33333333 {
					t.Errorf("%v %s clobbered s22", k, sp.name)
				}
				if gotD != want.d || got.scc != want.scc || got.exec != want.exec {
					fails++
					t.Errorf("%v: %s s20, %s (SCC in %d, EXEC in %#x): want D=%#x SCC=%d EXEC=%#x, got D=%#x SCC=%d EXEC=%#x",
						k, sp.name, a.desc, sccIn, exec, want.d, want.scc, want.exec, gotD, got.scc, got.exec)
				}
			}
		}
	}
}

func TestSweepSOPK(t *testing.T) {
	r := rand.New(rand.NewSource(3))
	type kspec struct {
		name string
		op   uint32
		f    func(d uint32, imm int32, scc byte) (uint32, byte)
	}
	specs := []kspec{
		{"s_movk_i32", 0, func(d uint32, imm int32, scc byte) (uint32, byte) { return uint32(imm), scc }},
		{"s_cmovk_i32", 1, func(d uint32, imm int32, scc byte) (uint32, byte) {
			if scc == 1 {
				return uint32(imm), scc
			}
			return d, scc
		}},
		{"s_cmpk_eq_i32", 2, func(d uint32, imm int32, scc byte) (uint32, byte) { return d, b2(int32(d) == imm) }},
		{"s_cmpk_lg_i32", 3, func(d uint32, imm int32, scc byte) (uint32, byte) { return d, b2(int32(d) != imm) }},
		{"s_mulk_i32", 15, func(d uint32, imm int32, scc byte) (uint32, byte) { return uint32(int32(d) * imm), scc }},
	}
	for _, k := range []aluKind{gcn3ALU, cdna3ALU} {
		for _, sp := range specs {
			fails := 0
			for it := 0; it < 600 && fails < 3; it++ {
				d := rnd32(r)
				imm16 := uint16(rnd32(r))
				if r.Intn(3) == 0 {
					d = uint32(int32(int16(imm16)))
				}
				sccIn := byte(r.Intn(2))
				var words []uint32
				words = append(words, movLit(20, d)...)
				words = append(words, movLit(21, 0x22222222)...)
				if sccIn == 1 {
					words = append(words, sopc(6, inlineInt(0), inlineInt(0)))
				} else {
					words = append(words, sopc(7, inlineInt(0), inlineInt(0)))
				}
				words = append(words, sopk(sp.op, 20, uint32(imm16)), endpgm)
				snaps := runEmu(t, k, words)
				got := find(t, snaps, sp.name)
				wd, ws := sp.f(d, int32(int16(imm16)), sccIn)
				if got.s32(20) != wd || got.scc != ws || got.s32(21) != 0x22222222 {
					fails++
					t.Errorf("%v: %s s20(=%#x), %#x (SCC in %d): want D=%#x SCC=%d, got D=%#x SCC=%d s21=%#x",
						k, sp.name, d, imm16, sccIn, wd, ws, got.s32(20), got.scc, got.s32(21))
				}
			}
		}
	}
}

func TestSweepSOPC(t *testing.T) {
	r := rand.New(rand.NewSource(4))
	type cspec struct {
		name string
		op   uint32
		f    func(a, b uint32) bool
	}
	specs := []cspec{
		{"s_cmp_eq_i32", 0, func(a, b uint32) bool { return a == b }},
		{"s_cmp_lg_i32", 1, func(a, b uint32) bool { return a != b }},
		{"s_cmp_gt_i32", 2, func(a, b uint32) bool { return int32(a) > int32(b) }},
		{"s_cmp_ge_i32", 3, func(a, b uint32) bool { return int32(a) >= int32(b) }},
		{"s_cmp_lt_i32", 4, func(a, b uint32) bool { return int32(a) < int32(b) }},
		{"s_cmp_le_i32", 5, func(a, b uint32) bool { return int32(a) <= int32(b) }},
		{"s_cmp_eq_u32", 6, func(a, b uint32) bool { return a == b }},
		{"s_cmp_lg_u32", 7, func(a, b uint32) bool { return a != b }},
		{"s_cmp_gt_u32", 8, func(a, b uint32) bool { return a > b }},
		{"s_cmp_ge_u32", 9, func(a, b uint32) bool { return a >= b }},
		{"s_cmp_lt_u32", 10, func(a, b uint32) bool { return a < b }},
		{"s_cmp_le_u32", 11, func(a, b uint32) bool { return a <= b }},
	}
	for _, k := range []aluKind{gcn3ALU, cdna3ALU} {
		for _, sp := range specs {
			ok := true
			func() {
				defer func() {
					if e := recover(); e != nil {
						t.Logf("%v: %s not implemented", k, sp.name)
						ok = false
					}
				}()
				runEmu(t, k, prog(sopc(sp.op, inlineInt(1), inlineInt(1)), endpgm))
			}()
			if !ok {
				continue
			}
			fails := 0
			for it := 0; it < 600 && fails < 3; it++ {
				a := genOperand(r, 4, false)
				b := genOperand(r, 6, false)
				if r.Intn(4) == 0 {
					b = a
					b.code = a.code
				}
				if a.lit != nil && b.lit != nil {
					b = a
				}
				var words []uint32
				words = append(words, a.setup...)
				words = append(words, b.setup...)
				words = append(words, sopc(sp.op, a.code, b.code))
				if a.lit != nil {
					words = append(words, *a.lit)
				} else if b.lit != nil {
					words = append(words, *b.lit)
				}
				words = append(words, endpgm)
				snaps := runEmu(t, k, words)
				got := snaps[len(snaps)-2]
				want := b2(sp.f(uint32(a.val), uint32(b.val)))
				if got.scc != want {
					fails++
					t.Errorf("%v: %s %s, %s: want SCC=%d got %d (%s)", k, sp.name, a.desc, b.desc, want, got.scc, got.name)
				}
			}
		}
	}
}
