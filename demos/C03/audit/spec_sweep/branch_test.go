package demo_test

import "testing"

func TestBranches(t *testing.T) {
	for _, k := range []aluKind{gcn3ALU, cdna3ALU} {
		snaps := runEmu(t, k, prog(
			movLit(0, 3),
			movLit(1, 0),
			sop2(0, 1, 1, inlineInt(1)), // s_add_u32 s1, s1, 1
			sop2(1, 0, 0, inlineInt(1)), // s_sub_u32 s0, s0, 1
			sopc(7, 0, inlineInt(0)),    // s_cmp_lg_u32 s0, 0
			sopp(5, 0xfffc),             // s_cbranch_scc1 -4
			sopp(2, 2),                  // s_branch +2 (skip the 2-dword mov)
			movLit(1, 0xbad),
			sopp(4, 2), // s_cbranch_scc0 +2 (scc is 0 -> taken)
			movLit(1, 0xbad2),
			endpgm,
		))
		last := snaps[len(snaps)-1]
		if last.s32(1) != 3 || last.s32(0) != 0 {
			t.Errorf("%v: loop of 3 iterations and two forward branches: want s1=3 s0=0, got s1=%#x s0=%#x",
				k, last.s32(1), last.s32(0))
		}
	}
}
