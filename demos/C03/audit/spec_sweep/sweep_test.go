// Run from the worktree root (takes one to two minutes):
//
//	export PATH=/opt/veriftools/go1.26.8/bin:$PATH GOTOOLCHAIN=local GOFLAGS=-mod=mod GOPROXY=off GOSUMDB=off
//	go test ./c03demo/spec_sweep/ 2>&1 | grep -v '^20'
//
// Differential sweep used by the audit: an independent transcription of the
// ISA semantics of every SOP2 / SOP1 / SOPK / SOPC opcode that either ALU
// implements, compared with both ALUs on a real emu.ComputeUnit over corner
// and random operand values and operand kinds (SGPR, inline integer, 32-bit
// literal). It FAILS, listing a few counter-examples per defective handler
// (findings 1, 2, 3, 4, 6 and 7 of AUDIT/findings.md); every other handler agrees
// with the transcription on all samples. TestBranches passes (s_branch /
// s_cbranch_* were found correct).
package demo_test

import (
	"fmt"
	"math/bits"
	"math/rand"
	"testing"
)

type st struct {
	s0, s1 uint64 // already widened per ISA operand rules
	d      uint64 // old dst
	scc    byte
	exec   uint64
}

type res struct {
	d    uint64
	scc  byte
	exec uint64
	wrD  bool
}

func b2(b bool) byte {
	if b {
		return 1
	}
	return 0
}

type opSpec struct {
	name string
	op   uint32
	w64  bool // all operands 64 bit
	f    func(s st) res
}

func sext(v uint64, bitsN uint) uint64 {
	if bitsN == 0 {
		return 0
	}
	if bitsN >= 64 {
		return v
	}
	sh := 64 - bitsN
	return uint64(int64(v<<sh) >> sh)
}

var sop2Specs = []opSpec{
	{"s_add_u32", 0, false, func(s st) res {
		r := uint64(uint32(s.s0)) + uint64(uint32(s.s1))
		return res{d: r & 0xffffffff, scc: b2(r>>32 != 0), wrD: true}
	}},
	{"s_sub_u32", 1, false, func(s st) res {
		a, b := uint32(s.s0), uint32(s.s1)
		return res{d: uint64(a - b), scc: b2(b > a), wrD: true}
	}},
	{"s_add_i32", 2, false, func(s st) res {
		a, b := int64(int32(s.s0)), int64(int32(s.s1))
		r := a + b
		return res{d: uint64(uint32(r)), scc: b2(r != int64(int32(r))), wrD: true}
	}},
	{"s_sub_i32", 3, false, func(s st) res {
		a, b := int64(int32(s.s0)), int64(int32(s.s1))
		r := a - b
		return res{d: uint64(uint32(r)), scc: b2(r != int64(int32(r))), wrD: true}
	}},
	{"s_addc_u32", 4, false, func(s st) res {
		r := uint64(uint32(s.s0)) + uint64(uint32(s.s1)) + uint64(s.scc)
		return res{d: r & 0xffffffff, scc: b2(r>>32 != 0), wrD: true}
	}},
	{"s_subb_u32", 5, false, func(s st) res {
		a, b := uint64(uint32(s.s0)), uint64(uint32(s.s1))+uint64(s.scc)
		return res{d: uint64(uint32(a - b)), scc: b2(b > a), wrD: true}
	}},
	{"s_min_i32", 6, false, func(s st) res {
		a, b := int32(s.s0), int32(s.s1)
		if a < b {
			return res{d: uint64(uint32(a)), scc: 1, wrD: true}
		}
		return res{d: uint64(uint32(b)), wrD: true}
	}},
	{"s_min_u32", 7, false, func(s st) res {
		a, b := uint32(s.s0), uint32(s.s1)
		if a < b {
			return res{d: uint64(a), scc: 1, wrD: true}
		}
		return res{d: uint64(b), wrD: true}
	}},
	{"s_max_i32", 8, false, func(s st) res {
		a, b := int32(s.s0), int32(s.s1)
		if a > b {
			return res{d: uint64(uint32(a)), scc: 1, wrD: true}
		}
		return res{d: uint64(uint32(b)), wrD: true}
	}},
	{"s_max_u32", 9, false, func(s st) res {
		a, b := uint32(s.s0), uint32(s.s1)
		if a > b {
			return res{d: uint64(a), scc: 1, wrD: true}
		}
		return res{d: uint64(b), wrD: true}
	}},
	{"s_cselect_b32", 10, false, func(s st) res {
		if s.scc == 1 {
			return res{d: uint64(uint32(s.s0)), scc: s.scc, wrD: true}
		}
		return res{d: uint64(uint32(s.s1)), scc: s.scc, wrD: true}
	}},
	{"s_cselect_b64", 11, true, func(s st) res {
		if s.scc == 1 {
			return res{d: s.s0, scc: s.scc, wrD: true}
		}
		return res{d: s.s1, scc: s.scc, wrD: true}
	}},
	{"s_and_b32", 12, false, func(s st) res { r := uint64(uint32(s.s0) & uint32(s.s1)); return res{d: r, scc: b2(r != 0), wrD: true} }},
	{"s_and_b64", 13, true, func(s st) res { r := s.s0 & s.s1; return res{d: r, scc: b2(r != 0), wrD: true} }},
	{"s_or_b32", 14, false, func(s st) res { r := uint64(uint32(s.s0) | uint32(s.s1)); return res{d: r, scc: b2(r != 0), wrD: true} }},
	{"s_or_b64", 15, true, func(s st) res { r := s.s0 | s.s1; return res{d: r, scc: b2(r != 0), wrD: true} }},
	{"s_xor_b32", 16, false, func(s st) res { r := uint64(uint32(s.s0) ^ uint32(s.s1)); return res{d: r, scc: b2(r != 0), wrD: true} }},
	{"s_xor_b64", 17, true, func(s st) res { r := s.s0 ^ s.s1; return res{d: r, scc: b2(r != 0), wrD: true} }},
	{"s_andn2_b32", 18, false, func(s st) res {
		r := uint64(uint32(s.s0) &^ uint32(s.s1))
		return res{d: r, scc: b2(r != 0), wrD: true}
	}},
	{"s_andn2_b64", 19, true, func(s st) res { r := s.s0 &^ s.s1; return res{d: r, scc: b2(r != 0), wrD: true} }},
	{"s_orn2_b32", 20, false, func(s st) res {
		r := uint64(uint32(s.s0) | ^uint32(s.s1))
		return res{d: r, scc: b2(r != 0), wrD: true}
	}},
	{"s_orn2_b64", 21, true, func(s st) res { r := s.s0 | ^s.s1; return res{d: r, scc: b2(r != 0), wrD: true} }},
	{"s_lshl_b32", 28, false, func(s st) res { r := uint64(uint32(s.s0) << (s.s1 & 31)); return res{d: r, scc: b2(r != 0), wrD: true} }},
	{"s_lshl_b64", 29, true, func(s st) res { r := s.s0 << (s.s1 & 63); return res{d: r, scc: b2(r != 0), wrD: true} }},
	{"s_lshr_b32", 30, false, func(s st) res { r := uint64(uint32(s.s0) >> (s.s1 & 31)); return res{d: r, scc: b2(r != 0), wrD: true} }},
	{"s_lshr_b64", 31, true, func(s st) res { r := s.s0 >> (s.s1 & 63); return res{d: r, scc: b2(r != 0), wrD: true} }},
	{"s_ashr_i32", 32, false, func(s st) res {
		r := uint64(uint32(int32(s.s0) >> (s.s1 & 31)))
		return res{d: r, scc: b2(r != 0), wrD: true}
	}},
	{"s_ashr_i64", 33, true, func(s st) res { r := uint64(int64(s.s0) >> (s.s1 & 63)); return res{d: r, scc: b2(r != 0), wrD: true} }},
	{"s_bfm_b32", 34, false, func(s st) res {
		r := uint64(uint32((uint64(1)<<(s.s0&31) - 1) << (s.s1 & 31)))
		return res{d: r, scc: s.scc, wrD: true}
	}},
	{"s_mul_i32", 36, false, func(s st) res { return res{d: uint64(uint32(int32(s.s0) * int32(s.s1))), scc: s.scc, wrD: true} }},
	{"s_bfe_u32", 37, false, func(s st) res {
		off, w := uint(s.s1&31), uint(s.s1>>16&0x7f)
		var m uint64 = ^uint64(0)
		if w < 64 {
			m = 1<<w - 1
		}
		r := uint64(uint32(uint64(uint32(s.s0)) >> off & m))
		return res{d: r, scc: b2(r != 0), wrD: true}
	}},
	{"s_bfe_i32", 38, false, func(s st) res {
		// D.i = (S0.i >> S1[4:0]) & ((1 << S1[22:16]) - 1); sign-extend
		off, w := uint(s.s1&31), uint(s.s1>>16&0x7f)
		sh := uint64(int64(int32(s.s0)) >> off) // arithmetic shift of the signed source
		var r uint64
		switch {
		case w == 0:
			r = 0
		case w >= 32:
			r = sh
		default:
			r = sext(sh&(1<<w-1), w)
		}
		r = uint64(uint32(r))
		return res{d: r, scc: b2(r != 0), wrD: true}
	}},
	{"s_mul_hi_u32", 44, false, func(s st) res {
		hi, _ := bits.Mul64(uint64(uint32(s.s0)), uint64(uint32(s.s1)))
		_ = hi
		return res{d: uint64(uint32(s.s0)) * uint64(uint32(s.s1)) >> 32, scc: s.scc, wrD: true}
	}},
}

var corner32 = []uint32{0, 1, 2, 3, 31, 32, 33, 63, 64, 0x7f, 0x80, 0xff, 0x7fff, 0x8000, 0xffff, 0x10000,
	0x7fffffff, 0x80000000, 0x80000001, 0xfffffffe, 0xffffffff, 0xdeadbeef, 0x00040004, 0x0001001f, 0x0008001c, 0x00200000, 0x007f0000, 0x00200010, 0x000100ff}

func rnd32(r *rand.Rand) uint32 {
	if r.Intn(3) != 0 {
		return corner32[r.Intn(len(corner32))]
	}
	return r.Uint32()
}

// operand generator: returns operand code, setup instructions and the value
// the ISA says the operand has (64-bit widened if w64).
type operand struct {
	code  uint32
	setup []uint32
	lit   *uint32
	val   uint64
	desc  string
}

func genOperand(r *rand.Rand, base uint32, w64 bool) operand {
	switch r.Intn(4) {
	case 0: // inline int
		v := r.Intn(81) - 16
		return operand{code: inlineInt(v), val: uint64(int64(v)), desc: fmt.Sprintf("%d", v)}
	case 1: // literal
		v := rnd32(r)
		return operand{code: literal, lit: &v, val: uint64(v), desc: fmt.Sprintf("lit(%#x)", v)}
	default:
		lo := rnd32(r)
		hi := rnd32(r)
		o := operand{code: base, desc: fmt.Sprintf("s%d", base)}
		o.setup = append(o.setup, movLit(base, lo)...)
		o.setup = append(o.setup, movLit(base+1, hi)...)
		o.val = uint64(lo)
		if w64 {
			o.val |= uint64(hi) << 32
			o.desc = fmt.Sprintf("s[%d:%d]", base, base+1)
		}
		o.desc += fmt.Sprintf("=%#x", o.val)
		return o
	}
}

func TestSweepSOP2(t *testing.T) {
	r := rand.New(rand.NewSource(1))
	for _, k := range []aluKind{gcn3ALU, cdna3ALU} {
		implemented := map[uint32]bool{}
		for _, sp := range sop2Specs {
			func() {
				defer func() {
					if e := recover(); e != nil {
						t.Logf("%v: %s not implemented (%v)", k, sp.name, e)
					}
				}()
				runEmu(t, k, prog(sop2(sp.op, 20, inlineInt(1), inlineInt(1)), endpgm))
				implemented[sp.op] = true
			}()
		}
		for _, sp := range sop2Specs {
			if !implemented[sp.op] {
				continue
			}
			fails := 0
			for it := 0; it < 1200 && fails < 4; it++ {
				a := genOperand(r, 4, sp.w64)
				b := genOperand(r, 6, sp.w64)
				if a.lit != nil && b.lit != nil {
					b.lit = a.lit
					b.val = a.val
					b.desc = a.desc
				}
				if a.setup == nil && a.lit == nil && b.setup != nil && !sp.w64 && r.Intn(4) == 0 {
					// register equal to the low 32 bits of the inline constant
					lo := uint32(a.val)
					b.setup = append(movLit(6, lo), movLit(7, rnd32(r))...)
					b.val = uint64(lo)
					b.desc = fmt.Sprintf("s6=%#x", lo)
				}
				sccIn := byte(r.Intn(2))
				var words []uint32
				words = append(words, a.setup...)
				words = append(words, b.setup...)
				words = append(words, movLit(20, 0x11111111)...)
				words = append(words, movLit(21, 0x22222222)...)
				words = append(words, movLit(22, 0x33333333)...)
				// set SCC: s_cmp_eq_u32 0, 0 -> 1 ; s_cmp_lg_u32 0,0 -> 0
				if sccIn == 1 {
					words = append(words, sopc(6, inlineInt(0), inlineInt(0)))
				} else {
					words = append(words, sopc(7, inlineInt(0), inlineInt(0)))
				}
				words = append(words, sop2(sp.op, 20, a.code, b.code))
				if a.lit != nil {
					words = append(words, *a.lit)
				} else if b.lit != nil {
					words = append(words, *b.lit)
				}
				words = append(words, endpgm)
				snaps := runEmu(t, k, words)
				got := find(t, snaps, sp.name)
				want := sp.f(st{s0: a.val, s1: b.val, scc: sccIn})
				var gotD, wantD uint64
				if sp.w64 {
					gotD, wantD = got.s64(20), want.d
				} else {
					gotD, wantD = uint64(got.s32(20)), want.d
					if got.s32(21) != 0x22222222 {
						t.Errorf("%v %s clobbered s21", k, sp.name)
						fails++
					}
				}
				if got.s32(22) != 0x33333333 {
					t.Errorf("%v %s clobbered s22", k, sp.name)
					fails++
				}
				if gotD != wantD || got.scc != want.scc {
					fails++
					t.Errorf("%v: %s s20, %s, %s (SCC in %d): want D=%#x SCC=%d, got D=%#x SCC=%d",
						k, sp.name, a.desc, b.desc, sccIn, wantD, want.scc, gotD, got.scc)
				}
			}
		}
	}
}
