// Copy this directory to <tree>/c03demo/<name>/ and run from the tree root:
//
//	export PATH=/opt/veriftools/go1.26.8/bin:$PATH GOTOOLCHAIN=local GOFLAGS=-mod=mod GOPROXY=off GOSUMDB=off
//	go test ./c03demo/inline_float_64bit/ -v
//
// C03: the inline float constants (operand codes 240..248: 0.5, -0.5, 1.0,
// -1.0, 2.0, -2.0, 4.0, -4.0, 1/(2*pi)) have the width of the operation: a
// 64-bit operation sees the DOUBLE bit pattern (1.0 = 0x3ff0000000000000).
// This is how compilers materialise an f64 constant in an SGPR pair:
//
//	s_mov_b64 s[0:1], 1.0
//
// emu.Wavefront.ReadOperand (amd/emu/wavefront.go) and
// wavefront.Wavefront.ReadOperand (amd/timing/wavefront/wavefront.go) return
// uint64(math.Float32bits(float32(FloatValue))) for every FloatOperand, no
// matter the operand width, and no scalar handler (s_mov_b64, s_and_b64,
// s_cselect_b64, ...) of either ALU corrects it: the pair receives
// 0x00000000_3f800000, which as a double is 5.26e-315.
package demo_test

import (
	"math"
	"testing"
)

func TestInlineFloatConstantIn64BitScalarOp(t *testing.T) {
	for _, k := range []aluKind{gcn3ALU, cdna3ALU} {
		snaps := runEmu(t, k, prog(
			sop1(1, 20, 242), // s_mov_b64 s[20:21], 1.0
			sop1(1, 22, 245), // s_mov_b64 s[22:23], -2.0
			endpgm,
		))
		last := snaps[len(snaps)-1]
		if got := last.s64(20); got != math.Float64bits(1.0) {
			t.Errorf("%v: s_mov_b64 s[20:21], 1.0: a 64-bit operation reads the inline constant as a double, the ISA result is %#x; got %#x (= %g as a double)",
				k, math.Float64bits(1.0), got, math.Float64frombits(got))
		}
		if got := last.s64(22); got != math.Float64bits(-2.0) {
			t.Errorf("%v: s_mov_b64 s[22:23], -2.0: the ISA result is %#x; got %#x (= %g as a double)",
				k, math.Float64bits(-2.0), got, math.Float64frombits(got))
		}
	}
}
