// Copy this directory to <tree>/c03demo/<name>/ and run from the tree root:
//
//	go test ./c03demo/div_fixup_f64/ -run TestDivFixupF64SpecialCases -v
//
// C03 (ISA conformance): V_DIV_FIXUP_F64 (VOP3a opcode 479; S0 = quotient,
// S1 = denominator, S2 = numerator) produces, per the GCN3 / CDNA3 ISA:
//
//	numerator or denominator NaN      -> quiet NaN
//	0 / 0, inf / inf                  -> 0xFFF8000000000000 (-NaN)
//	x / 0, inf / y                    -> +-INF  (sign = sign(S1)^sign(S2))
//	x / inf, 0 / y                    -> +-0
//	otherwise                         -> +-|S0|
//
// calculateDivFixUpF64 (duplicated in amd/emu/aluvop3a.go and
// amd/emu/cdna3/vop3a.go) writes the IEEE bit patterns as Go *numeric*
// constants: "dst = 0x7FF0000000000000" assigns the finite number 9.22e18,
// "math.Abs(src2) == 0x7FF0000000000000" compares against 9.22e18 instead of
// +Inf, and "src2 == nan" is never true.  So none of the special cases yields
// the prescribed value, and an infinite denominator reaches a log.Panic.
package divfixup64_test

import (
	"math"
	"testing"
)

func TestDivFixupF64SpecialCases(t *testing.T) {
	inf := math.Inf(1)
	cases := []struct {
		name           string
		quot, den, num float64
		want           uint64
		wantNaN        bool
	}{
		{"1/0 -> +INF", 123.0, 0, 1, 0x7FF0000000000000, false},
		{"-1/0 -> -INF", 123.0, 0, -1, 0xFFF0000000000000, false},
		{"0/-5 -> -0", 123.0, -5, 0, 0x8000000000000000, false},
		{"0/0 -> NaN", 123.0, 0, 0, 0, true},
		{"NaN/2 -> NaN", 123.0, 2, math.NaN(), 0, true},
		{"2/NaN -> NaN", 123.0, math.NaN(), 2, 0, true},
		{"1/INF -> +0", 123.0, inf, 1, 0, false},
		{"INF/2 -> +INF", 123.0, 2, inf, 0x7FF0000000000000, false},
		{"INF/INF -> NaN", 123.0, inf, inf, 0, true},
	}

	for _, a := range bothALUs(nil) {
		for _, c := range cases {
			s := newState()
			s.SetEXEC(1)
			s.setV64(0, 2, b64(c.quot))
			s.setV64(0, 4, b64(c.den))
			s.setV64(0, 6, b64(c.num))
			// v_div_fixup_f64 v[0:1], v[2:3], v[4:5], v[6:7]
			inst := decode(t, true, encVOP3a(479, 0, 0, srcV(2), srcV(4), srcV(6), 0))
			if p := run(a.alu, s, inst); p != nil {
				t.Errorf("%s: v_div_fixup_f64 %s: the ISA defines a result "+
					"for this input, but the handler panicked: %v",
					a.name, c.name, p)
				continue
			}
			got := s.v64(0, 0)
			if c.wantNaN {
				if !math.IsNaN(f64(got)) {
					t.Errorf("%s: v_div_fixup_f64 %s: must be a NaN, got "+
						"0x%016x (%v)", a.name, c.name, got, f64(got))
				}
				continue
			}
			if got != c.want {
				t.Errorf("%s: v_div_fixup_f64 %s: must be 0x%016x (%v), got "+
					"0x%016x (%v)", a.name, c.name, c.want, f64(c.want),
					got, f64(got))
			}
		}
	}
}
