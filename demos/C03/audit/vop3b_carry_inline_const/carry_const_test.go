// Copy this directory to <tree>/c03demo/<name>/ and run from the tree root:
//
//	go test ./c03demo/vop3b_carry_inline_const/ -v
//
// C03 (ISA conformance, carries on corner values): V_ADD_U32 / V_ADDC_U32 /
// V_SUBREV_U32 / V_SUBB_U32 in their VOP3b form compute on 32-bit operands:
// D.u = S0.u + S1.u (+ carry_in); SDST[lane] = unsigned overflow / borrow of
// the 32-bit operation.  A negative inline constant (operand codes 193..208 =
// -1..-16) is the 32-bit two's complement value, e.g. -1 = 0xFFFFFFFF.
//
// ReadOperand returns an inline integer as a sign-extended 64-bit number
// (uint64(int64(-1)) = 0xFFFFFFFFFFFFFFFF).  The VOP3b handlers of both ALUs
// add/subtract the untruncated 64-bit values and derive the carry from
// "result > 0xffffffff", so with a negative inline constant the carry-out is
// inverted: 0xFFFFFFFF + 1 reports no carry, 0xFFFFFFFF + 0 reports one.  The
// pattern "v_add_co_u32 v0, s[..], -1, v0 ; v_addc_co_u32 v1, ..., -1/0, v1"
// is how the compiler decrements a 64-bit value.
package carryconst_test

import "testing"

const srcMinus1 = 193 // inline constant -1

func TestVop3bCarryWithNegativeInlineConstant(t *testing.T) {
	for _, u := range bothALUs(nil) {
		// v_add_u32_e64 v0, s[8:9], -1, v2
		add := decode(t, false, encVOP3b(281, 0, srcS(8), srcMinus1, srcV(2), 0, 0))
		for _, c := range []struct {
			v2        uint32
			wantD     uint32
			wantCarry uint32
		}{
			{1, 0, 1},          // 0xFFFFFFFF + 1 = 0x1_00000000
			{0, 0xFFFFFFFF, 0}, // 0xFFFFFFFF + 0
			{5, 4, 1},          // 0xFFFFFFFF + 5
		} {
			s := newState()
			s.SetEXEC(1)
			s.setV(0, 2, c.v2)
			if p := run(u.alu, s, add); p != nil {
				t.Fatalf("%s: panicked: %v", u.name, p)
			}
			if d, cy := s.v(0, 0), s.sreg(8); d != c.wantD || cy != c.wantCarry {
				t.Errorf("%s: v_add_u32_e64 v0, s[8:9], -1, v2=%d: must give "+
					"D=0x%08x carry-out(lane0)=%d; got D=0x%08x s8=0x%x",
					u.name, c.v2, c.wantD, c.wantCarry, d, cy)
			}
		}

		// v_subrev_u32_e64 v0, s[8:9], -1, v2   : D = v2 - 0xFFFFFFFF
		subrev := decode(t, false, encVOP3b(283, 0, srcS(8), srcMinus1, srcV(2), 0, 0))
		s := newState()
		s.SetEXEC(1)
		s.setV(0, 2, 5)
		if p := run(u.alu, s, subrev); p != nil {
			t.Fatalf("%s: panicked: %v", u.name, p)
		}
		if d, b := s.v(0, 0), s.sreg(8); d != 6 || b != 1 {
			t.Errorf("%s: v_subrev_u32_e64 v0, s[8:9], -1, v2=5: 5 - "+
				"0xFFFFFFFF must give D=6 with borrow-out 1; got D=%d s8=0x%x",
				u.name, d, b)
		}

		// v_addc_u32_e64 v0, s[8:9], -1, v2, s[10:11]  (carry-in 0)
		addc := decode(t, false, encVOP3b(284, 0, srcS(8), srcMinus1, srcV(2), srcS(10), 0))
		s = newState()
		s.SetEXEC(1)
		s.setV(0, 2, 0)
		if p := run(u.alu, s, addc); p != nil {
			t.Fatalf("%s: panicked: %v", u.name, p)
		}
		if d, cy := s.v(0, 0), s.sreg(8); d != 0xFFFFFFFF || cy != 0 {
			t.Errorf("%s: v_addc_u32_e64 v0, s[8:9], -1, v2=0, carry-in 0: "+
				"0xFFFFFFFF+0+0 must give D=0xFFFFFFFF carry-out 0; got "+
				"D=0x%08x s8=0x%x", u.name, d, cy)
		}
	}
}
