// Copy this directory to <tree>/c03demo/<name>/ and run from the tree root:
//
//	go test ./c03demo/mad_u64_u32/ -v
//
// C03 (ISA conformance): V_MAD_U64_U32 (opcode 488) is a VOP3B instruction
// (CDNA3 ISA 13.3.5 lists it among the VOP3B opcodes, with the carry-out
// SGPR in SDST):
//
//	{vcc_out, D.u64} = S0.u32 * S1.u32 + S2.u64
//
// i.e. a 64-bit destination pair, a 64-bit addend pair and a carry written to
// the scalar destination.
//
// The decode table declares opcode 488 as a VOP3a instruction whose
// destination and third source are 32 bits wide, and isVOP3bOpcode does not
// list 488.  The handler (runVMADU64U32, both ALUs) therefore reads only the
// low dword of the addend, writes only the low dword of the result (the high
// destination register keeps its stale value) and never writes the carry.
package madu64_test

import "testing"

func TestVMadU64U32FromMachineCode(t *testing.T) {
	for _, u := range bothALUs(nil) {
		s := newState()
		s.SetEXEC(1)
		s.SetVCC(0)
		s.setV(0, 1, 0xDEADBEEF) // stale content of the high destination
		s.setV(0, 2, 0xFFFFFFFF)
		s.setV(0, 3, 0xFFFFFFFF)
		s.setV64(0, 4, 0x0000000100000005)
		// v_mad_u64_u32 v[0:1], vcc, v2, v3, v[4:5]
		inst := decode(t, true, encVOP3b(488, 0, srcVCCLO, srcV(2), srcV(3), srcV(4), 0))
		if inst.InstName != "v_mad_u64_u32" {
			t.Fatalf("decoded %q", inst.InstName)
		}
		if p := run(u.alu, s, inst); p != nil {
			t.Fatalf("%s: panicked: %v", u.name, p)
		}
		// 0xFFFFFFFF^2 = 0xFFFFFFFE00000001; + 0x100000005 = 0xFFFFFFFF00000006
		if got := s.v64(0, 0); got != 0xFFFFFFFF00000006 {
			t.Errorf("%s: v_mad_u64_u32 v[0:1], vcc, 0xFFFFFFFF, 0xFFFFFFFF, "+
				"0x100000005 must write the 64-bit result 0xFFFFFFFF00000006 "+
				"to v[0:1]; got 0x%016x (v1 kept its previous value)",
				u.name, got)
		}

		// Carry out.
		s = newState()
		s.SetEXEC(1)
		s.SetVCC(0)
		s.setV(0, 2, 0xFFFFFFFF)
		s.setV(0, 3, 0xFFFFFFFF)
		s.setV64(0, 4, 0xFFFFFFFFFFFFFFFF)
		if p := run(u.alu, s, inst); p != nil {
			t.Fatalf("%s: panicked: %v", u.name, p)
		}
		if got := s.v64(0, 0); got != 0xFFFFFFFE00000000 {
			t.Errorf("%s: v_mad_u64_u32 0xFFFFFFFF*0xFFFFFFFF + "+
				"0xFFFFFFFFFFFFFFFF must be 0xFFFFFFFE00000000 (mod 2^64); "+
				"got 0x%016x", u.name, got)
		}
		if got := s.VCC(); got != 1 {
			t.Errorf("%s: the addition overflowed 64 bits, so the carry-out "+
				"bit of lane 0 must be set in SDST (vcc); vcc = 0x%x",
				u.name, got)
		}
	}
}
