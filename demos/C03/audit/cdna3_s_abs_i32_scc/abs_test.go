// Copy this directory to <tree>/c03demo/<name>/ and run from the tree root:
//
//	export PATH=/opt/veriftools/go1.26.8/bin:$PATH GOTOOLCHAIN=local GOFLAGS=-mod=mod GOPROXY=off GOSUMDB=off
//	go test ./c03demo/cdna3_s_abs_i32_scc/ -v
//
// C03: S_ABS_I32 is D.i = (S0.i < 0) ? -S0.i : S0.i; SCC = (D.i != 0).
// cdna3.ALU.runSABSI32 (amd/emu/cdna3/sop1.go) sets SCC = (S0.i < 0) instead:
// for every positive source SCC is cleared although the result is non-zero.
// The GCN3 sibling (amd/emu/alusop1.go runSABSI32) implements SCC = (D != 0).
// (amd/emu/cdna3/opcode_test.go even pins the wrong value: "expected SCC=0 for
// non-negative input".)
package demo_test

import "testing"

func TestCDNA3_S_ABS_I32_SCCIsResultNonZero(t *testing.T) {
	type c struct {
		src     uint32
		wantD   uint32
		wantSCC byte
	}
	cases := []c{
		{7, 7, 1},
		{0x7fffffff, 0x7fffffff, 1},
		{0xfffffff9, 7, 1},
		{0, 0, 0},
		{0x80000000, 0x80000000, 1},
	}
	for _, k := range []aluKind{gcn3ALU, cdna3ALU} {
		for _, tc := range cases {
			snaps := runEmu(t, k, prog(
				movLit(4, tc.src),
				sop1(48, 20, 4), // s_abs_i32 s20, s4
				// a dependent branch, as a compiler would emit it
				sopp(5, 2), // s_cbranch_scc1 +2
				movLit(30, 0xdead),
				endpgm,
			))
			got := find(t, snaps, "s_abs_i32")
			if got.s32(20) != tc.wantD || got.scc != tc.wantSCC {
				t.Errorf("%v: s_abs_i32 s20, s4 with s4=%#x: the ISA requires D=%#x and SCC=(D!=0)=%d; got D=%#x SCC=%d",
					k, tc.src, tc.wantD, tc.wantSCC, got.s32(20), got.scc)
			}
			last := snaps[len(snaps)-1]
			fellThrough := last.s32(30) == 0xdead
			if fellThrough != (tc.wantSCC == 0) {
				t.Errorf("%v: s_abs_i32 s20, %#x ; s_cbranch_scc1 L: the branch must be taken iff |x| != 0; fell through = %v",
					k, tc.src, fellThrough)
			}
		}
	}
}
