// Package c03fminmaxdemo: v_min_f32 / v_max_f32 / v_min3_f32 / v_max3_f32 with NaN operands, decoded
// with the repository's disassembler and executed on a real emu.Wavefront by both ALUs.
//
//	mkdir <tree>/amd/emu/c03fminmaxdemo && cp c03_fminmax_test.go <tree>/amd/emu/c03fminmaxdemo/
//	go test -count=1 -v ./amd/emu/c03fminmaxdemo/
//
// ISA: `if S0 == NaN then D = S1 else if S1 == NaN then D = S0 else D = min(S0, S1)`; the
// three-operand forms are V_MIN_F32(V_MIN_F32(S0, S1), S2).
package c03fminmaxdemo

import (
	"encoding/binary"
	"math"
	"testing"

	"github.com/sarchlab/mgpusim/v4/amd/emu"
	"github.com/sarchlab/mgpusim/v4/amd/emu/cdna3"
	"github.com/sarchlab/mgpusim/v4/amd/insts"
)

type wfState struct {
	*emu.Wavefront
	inst *insts.Inst
}

func (s *wfState) Inst() *insts.Inst { return s.inst }

func decode(t *testing.T, words ...uint32) *insts.Inst {
	t.Helper()
	buf := make([]byte, 4*len(words))
	for i, w := range words {
		binary.LittleEndian.PutUint32(buf[4*i:], w)
	}
	inst, err := insts.NewDisassembler().Decode(buf)
	if err != nil {
		t.Fatalf("decode %x: %v", words, err)
	}
	return inst
}

func setV(wf *emu.Wavefront, lane, reg int, v uint32) {
	binary.LittleEndian.PutUint32(wf.VRegFile[lane*256*4+reg*4:], v)
}

func getV(wf *emu.Wavefront, lane, reg int) uint32 {
	return binary.LittleEndian.Uint32(wf.VRegFile[lane*256*4+reg*4:])
}

var (
	qnan = uint32(0x7fc00000)
	one  = math.Float32bits(1)
	two  = math.Float32bits(2)
	m3   = math.Float32bits(-3)
)

func alus() map[string]func(s emu.InstEmuState) {
	return map[string]func(s emu.InstEmuState){
		"GCN3":  func(s emu.InstEmuState) { emu.NewALU(nil).Run(s) },
		"CDNA3": func(s emu.InstEmuState) { cdna3.NewALU(nil).Run(s) },
	}
}

func isNaN(b uint32) bool { f := math.Float32frombits(b); return f != f }

func TestC03MinMaxF32WithOneNaNOperand(t *testing.T) {
	// VOP2: [31]=0 op[30:25] vdst[24:17] vsrc1[16:9] src0[8:0]; v_min_f32 = 10, v_max_f32 = 11
	for _, c := range []struct {
		name string
		op   uint32
	}{{"v_min_f32", 10}, {"v_max_f32", 11}} {
		inst := decode(t, c.op<<25|2<<17|1<<9|256) // v2 = op(v0, v1)
		for alu, run := range alus() {
			wf := emu.NewWavefront(nil)
			lanes := [][2]uint32{{qnan, two}, {two, qnan}, {one, two}, {two, one}, {qnan, qnan}, {m3, qnan}}
			for l, p := range lanes {
				setV(wf, l, 0, p[0])
				setV(wf, l, 1, p[1])
			}
			wf.SetEXEC(uint64(1)<<len(lanes) - 1)
			run(&wfState{wf, inst})
			for l, p := range lanes {
				got := getV(wf, l, 2)
				var want uint32
				switch {
				case isNaN(p[0]) && isNaN(p[1]):
					if !isNaN(got) {
						t.Errorf("%s %s lane %d: both operands NaN, got %#x", alu, c.name, l, got)
					}
					continue
				case isNaN(p[0]):
					want = p[1]
				case isNaN(p[1]):
					want = p[0]
				default:
					a, b := math.Float32frombits(p[0]), math.Float32frombits(p[1])
					if (c.op == 10) == (a < b) {
						want = p[0]
					} else {
						want = p[1]
					}
				}
				if got != want {
					t.Errorf("%s %s lane %d: S0=%#x S1=%#x -> %#x, ISA prescribes %#x", alu, c.name, l, p[0], p[1], got, want)
				}
			}
		}
	}
}

func TestC03Min3Max3F32WithNaNOperands(t *testing.T) {
	// VOP3a: [31:26]=110100 op[25:16] vdst[7:0] | src0[8:0] src1[17:9] src2[26:18]; v_min3_f32 = 464, v_max3_f32 = 467
	for _, c := range []struct {
		name string
		op   uint32
	}{{"v_min3_f32", 464}, {"v_max3_f32", 467}} {
		inst := decode(t, 0xD0000000|c.op<<16|3, 256|257<<9|258<<18) // v3 = op(v0, v1, v2)
		for alu, run := range alus() {
			wf := emu.NewWavefront(nil)
			lanes := [][3]uint32{{qnan, one, two}, {one, qnan, two}, {one, two, qnan}, {qnan, qnan, m3}, {two, one, m3}}
			for l, p := range lanes {
				for r := 0; r < 3; r++ {
					setV(wf, l, r, p[r])
				}
			}
			wf.SetEXEC(uint64(1)<<len(lanes) - 1)
			run(&wfState{wf, inst})
			for l, p := range lanes {
				got := getV(wf, l, 3)
				have := false
				var best float32
				for _, b := range p {
					if isNaN(b) {
						continue
					}
					f := math.Float32frombits(b)
					if !have || (c.op == 464 && f < best) || (c.op == 467 && f > best) {
						best, have = f, true
					}
				}
				if got != math.Float32bits(best) {
					t.Errorf("%s %s lane %d: (%#x, %#x, %#x) -> %#x, ISA prescribes %#x", alu, c.name, l, p[0], p[1], p[2], got, math.Float32bits(best))
				}
			}
		}
	}
}
