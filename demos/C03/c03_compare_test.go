// Package c03cmpdemo: compare instructions decoded with the repository's disassembler and executed
// on a real emu.Wavefront (style of /verif/seeded/C03-2/demo).
//
//	mkdir <tree>/amd/emu/c03cmpdemo && cp c03_compare_test.go <tree>/amd/emu/c03cmpdemo/
//	go test -count=1 -v ./amd/emu/c03cmpdemo/
package c03cmpdemo

import (
	"encoding/binary"
	"testing"

	"github.com/sarchlab/mgpusim/v4/amd/emu"
	"github.com/sarchlab/mgpusim/v4/amd/emu/cdna3"
	"github.com/sarchlab/mgpusim/v4/amd/insts"
)

type wfState struct {
	*emu.Wavefront
	inst *insts.Inst
}

func (s *wfState) Inst() *insts.Inst { return s.inst }

func decode(t *testing.T, words ...uint32) *insts.Inst {
	t.Helper()
	buf := make([]byte, 4*len(words))
	for i, w := range words {
		binary.LittleEndian.PutUint32(buf[4*i:], w)
	}
	inst, err := insts.NewDisassembler().Decode(buf)
	if err != nil {
		t.Fatalf("decode %x: %v", words, err)
	}
	return inst
}

func setV(wf *emu.Wavefront, lane, reg int, v uint32) {
	binary.LittleEndian.PutUint32(wf.VRegFile[lane*256*4+reg*4:], v)
}

const qnan = 0x7fc00000

// VOPC: [31:25]=0111110 op[24:17] vsrc1[16:9] src0[8:0]
func vopc(op, src0, vsrc1 uint32) uint32 { return 0x7c000000 | op<<17 | vsrc1<<9 | src0 }

func TestC03CmpNeU32WithInlineMinusOne(t *testing.T) {
	// v_cmp_ne_u32 vcc, -1, v1   (src0 = 193: inline constant -1)
	inst := decode(t, vopc(0xCD, 193, 1))
	wf := emu.NewWavefront(nil)
	setV(wf, 0, 1, 0xffffffff) // equal to -1 as u32
	setV(wf, 1, 1, 7)
	wf.SetEXEC(3)
	st := &wfState{wf, inst}
	emu.NewALU(nil).Run(st)
	if st.VCC() != 2 {
		t.Errorf("%s: VCC = %#b; lane 0 holds 0xffffffff == -1 (not different), lane 1 holds 7 (different): want 0b10", inst.InstName, st.VCC())
	}
}

func TestC03CmpLgF32NaNIsUnordered(t *testing.T) {
	// v_cmp_lg_f32 vcc, v0, v1 ; v_cmp_nlg_f32 vcc, v0, v1
	for _, c := range []struct {
		op   uint32
		want uint64
	}{{0x45, 0b010}, {0x4A, 0b101}} {
		inst := decode(t, vopc(c.op, 256, 1))
		for name, run := range map[string]func(s emu.InstEmuState){
			"GCN3":  func(s emu.InstEmuState) { emu.NewALU(nil).Run(s) },
			"CDNA3": func(s emu.InstEmuState) { cdna3.NewALU(nil).Run(s) },
		} {
			if name == "CDNA3" && c.op == 0x4A {
				continue // not implemented there
			}
			wf := emu.NewWavefront(nil)
			setV(wf, 0, 0, qnan)       // lane 0: NaN vs 1.0  -> unordered
			setV(wf, 0, 1, 0x3f800000) //
			setV(wf, 1, 0, 0x3f800000) // lane 1: 1.0 vs 2.0 -> less
			setV(wf, 1, 1, 0x40000000) //
			setV(wf, 2, 0, 0x40000000) // lane 2: 2.0 vs 2.0 -> equal
			setV(wf, 2, 1, 0x40000000)
			wf.SetEXEC(7)
			st := &wfState{wf, inst}
			run(st)
			if st.VCC() != c.want {
				t.Errorf("%s %s: VCC = %#03b for lanes (NaN?1, 1<2, 2==2), the ISA prescribes %#03b", name, inst.InstName, st.VCC(), c.want)
			}
		}
	}
}

func TestC03Cdna3CmpGeF32E64(t *testing.T) {
	// v_cmp_ge_f32_e64 s[0:1], v0, v1 : VOP3a opcode 0x46
	inst := decode(t, 0xD0460000, 0x00020300)
	wf := emu.NewWavefront(nil)
	setV(wf, 0, 0, 0x3f800000) // 1.0 >= 2.0 : false
	setV(wf, 0, 1, 0x40000000)
	setV(wf, 1, 0, 0x40000000) // 2.0 >= 1.0 : true
	setV(wf, 1, 1, 0x3f800000)
	wf.SetEXEC(3)
	st := &wfState{wf, inst}
	cdna3.NewALU(nil).Run(st)
	if got := st.ReadOperand(inst.Dst, 0); got != 2 {
		t.Errorf("CDNA3 %s: result mask %#b for lanes (1>=2, 2>=1), want 0b10", inst.InstName, got)
	}
}

// 32-bit instructions with the inline constant -1 (operand code 193), which ReadOperand returns
// sign-extended to 64 bits.
func TestC03InlineMinusOneIn32BitInstructions(t *testing.T) {
	// s_lshr_b32 s2, -1, 4   : SOP2 op 30 (s_lshr_b32): 10 | op<<23 | sdst<<16 | ssrc1<<8 | ssrc0
	inst := decode(t, 0x80000000|30<<23|2<<16|132<<8|193)
	wf := emu.NewWavefront(nil)
	st := &wfState{wf, inst}
	emu.NewALU(nil).Run(st)
	if got := binary.LittleEndian.Uint32(wf.SRegFile[8:]); got != 0x0fffffff {
		t.Errorf("%s: s2 = %#x, 0xffffffff >> 4 is 0x0fffffff", inst.InstName, got)
	}

	// v_addc_u32 v2, vcc, -1, v1, vcc  (VOP2 op 28): 64-bit decrement of the high word, carry-in 0, v1 = 0
	inst = decode(t, 28<<25|2<<17|1<<9|193)
	wf = emu.NewWavefront(nil)
	setV(wf, 0, 1, 0)
	wf.SetEXEC(1)
	wf.SetVCC(0)
	st = &wfState{wf, inst}
	emu.NewALU(nil).Run(st)
	if st.VCC()&1 != 0 {
		t.Errorf("%s: 0xffffffff + 0 + 0 reported a carry-out", inst.InstName)
	}
	setV(wf, 0, 1, 5)
	wf.SetVCC(0)
	emu.NewALU(nil).Run(st)
	if st.VCC()&1 != 1 {
		t.Errorf("%s: 0xffffffff + 5 reported no carry-out", inst.InstName)
	}
}
