// Package classsnan: v_cmp_class_f32 in its VOPC (e32) encoding on the CDNA3 ALU.
//
//	mkdir <tree>/amd/emu/classsnan && cp class_snan_test.go <tree>/amd/emu/classsnan/
//	go test -count=1 -v ./amd/emu/classsnan/
//
// The class mask of SRC1 has one bit per IEEE class: bit 0 signalling NaN, bit 1 quiet NaN,
// bit 2 -infinity ... bit 9 +infinity. A NaN is quiet when the top bit of its fraction
// (bit 22) is set. 0x7F800001 is a signalling NaN: mask 1 selects it, mask 2 does not.
package classsnan

import (
	"testing"

	"github.com/sarchlab/mgpusim/v4/amd/emu"
	"github.com/sarchlab/mgpusim/v4/amd/emu/cdna3"
	"github.com/sarchlab/mgpusim/v4/amd/insts"
)

type wfState struct {
	*emu.Wavefront
	inst *insts.Inst
}

func (s *wfState) Inst() *insts.Inst { return s.inst }

func TestCmpClassF32SignallingNaN(t *testing.T) {
	values := []struct {
		bits  uint32
		class uint
	}{
		{0x7F800001, 0}, {0xFFA00000, 0}, // signalling NaNs
		{0x7FC00000, 1}, {0xFFC00001, 1}, // quiet NaNs
		{0xFF800000, 2}, {0xBF800000, 3}, {0x80000001, 4}, {0x80000000, 5},
		{0x00000000, 6}, {0x00000001, 7}, {0x3F800000, 8}, {0x7F800000, 9},
	}
	for _, enc := range []struct {
		name   string
		format insts.FormatType
		opcode insts.Opcode
	}{{"e32", insts.VOPC, 0x10}, {"e64", insts.VOP3a, 0x10}} {
		for bit := uint(0); bit < 10; bit++ {
			inst := insts.NewInst()
			inst.FormatType = enc.format
			inst.Opcode = enc.opcode
			inst.InstName = "v_cmp_class_f32"
			inst.Src0 = insts.NewVRegOperand(0, 0, 1)
			inst.Src1 = insts.NewVRegOperand(1, 1, 1)
			inst.Dst = insts.NewSRegOperand(10, 10, 2)
			st := &wfState{Wavefront: emu.NewWavefront(nil), inst: inst}
			st.SetEXEC((1 << uint(len(values))) - 1)
			for lane, v := range values {
				st.WriteOperand(inst.Src0, lane, uint64(v.bits))
				st.WriteOperand(inst.Src1, lane, uint64(1)<<bit)
			}
			cdna3.NewALU(nil).Run(st)
			got := st.VCC()
			if enc.format == insts.VOP3a {
				got = st.ReadOperand(inst.Dst, 0)
			}
			for lane, v := range values {
				want := v.class == bit
				if (got>>uint(lane))&1 == 1 != want {
					t.Errorf("%s: value %#08x (class %d) with mask bit %d: result %v, want %v", enc.name, v.bits, v.class, bit, !want, want)
				}
			}
		}
	}
}
