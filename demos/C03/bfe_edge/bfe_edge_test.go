// Package bfeedge: signed bit-field extract of a field that reaches past bit 31.
//
//	mkdir <tree>/amd/emu/bfeedge && cp bfe_edge_test.go <tree>/amd/emu/bfeedge/
//	go test -count=1 -v ./amd/emu/bfeedge/
//
// V_BFE_I32 / S_BFE_I32: D.i = (S0.i >> offset) & ((1 << width) - 1), sign-extended from
// bit width-1. S0.i is shifted arithmetically, so a field that reaches past bit 31 is
// filled with the sign of the source: for S0 = 0x80000000, offset 1, width 31 the field
// is 0x40000000 | sign fill = 0xC0000000 and, the top bit of the field being set, the
// result is 0xC0000000.
package bfeedge

import (
	"testing"

	"github.com/sarchlab/mgpusim/v4/amd/emu"
	"github.com/sarchlab/mgpusim/v4/amd/emu/cdna3"
	"github.com/sarchlab/mgpusim/v4/amd/insts"
)

type wfState struct {
	*emu.Wavefront
	inst *insts.Inst
}

func (s *wfState) Inst() *insts.Inst { return s.inst }

type runner interface{ Run(state emu.InstEmuState) }

func spec(s0 uint32, off, width uint32) uint32 {
	if width == 0 {
		return 0
	}
	v := uint32(int32(s0) >> off)
	if width < 32 {
		v &= (1 << width) - 1
		if v&(1<<(width-1)) != 0 {
			v |= ^uint32(0) << width
		}
	}
	return v
}

var cases = []struct{ s0, off, width uint32 }{
	{0xF0, 4, 4}, {0x80000000, 1, 31}, {0x80000000, 4, 28}, {0xF0000000, 24, 8},
	{0x80000000, 8, 28}, {0x7FFFFFFF, 3, 31}, {0xDEADBEEF, 13, 27}, {0x12345678, 0, 31},
}

func TestVectorBFEI32(t *testing.T) {
	for name, alu := range map[string]runner{"GCN3": emu.NewALU(nil), "CDNA3": cdna3.NewALU(nil)} {
		inst := insts.NewInst()
		inst.FormatType = insts.VOP3a
		inst.Opcode = 457 // v_bfe_i32
		inst.InstName = "v_bfe_i32"
		inst.Src0 = insts.NewVRegOperand(0, 0, 1)
		inst.Src1 = insts.NewVRegOperand(1, 1, 1)
		inst.Src2 = insts.NewVRegOperand(2, 2, 1)
		inst.Dst = insts.NewVRegOperand(3, 3, 1)
		st := &wfState{Wavefront: emu.NewWavefront(nil), inst: inst}
		st.SetEXEC((1 << uint(len(cases))) - 1)
		for lane, c := range cases {
			st.WriteOperand(inst.Src0, lane, uint64(c.s0))
			st.WriteOperand(inst.Src1, lane, uint64(c.off))
			st.WriteOperand(inst.Src2, lane, uint64(c.width))
		}
		alu.Run(st)
		for lane, c := range cases {
			got := uint32(st.ReadOperand(inst.Dst, lane))
			if want := spec(c.s0, c.off, c.width); got != want {
				t.Errorf("%s v_bfe_i32 S0=%#x offset=%d width=%d: got %#x, the ISA formula gives %#x", name, c.s0, c.off, c.width, got, want)
			}
		}
	}
}

func TestScalarBFEI32CDNA3(t *testing.T) {
	alu := cdna3.NewALU(nil)
	for _, c := range cases {
		inst := insts.NewInst()
		inst.FormatType = insts.SOP2
		inst.Opcode = 38 // s_bfe_i32
		inst.InstName = "s_bfe_i32"
		inst.Src0 = insts.NewSRegOperand(0, 0, 1)
		inst.Src1 = insts.NewSRegOperand(2, 2, 1)
		inst.Dst = insts.NewSRegOperand(4, 4, 1)
		st := &wfState{Wavefront: emu.NewWavefront(nil), inst: inst}
		st.WriteOperand(inst.Src0, 0, uint64(c.s0))
		st.WriteOperand(inst.Src1, 0, uint64(c.off|c.width<<16))
		alu.Run(st)
		got := uint32(st.ReadOperand(inst.Dst, 0))
		if want := spec(c.s0, c.off, c.width); got != want {
			t.Errorf("CDNA3 s_bfe_i32 S0=%#x offset=%d width=%d: got %#x, the ISA formula gives %#x", c.s0, c.off, c.width, got, want)
		}
	}
}
