// Package c03sdwademo: SDWA sub-dword selection, decoded with the repository's disassembler and
// executed on a real emu.Wavefront by both ALUs.
//
//	mkdir <tree>/amd/emu/c03sdwademo && cp c03_sdwa_test.go <tree>/amd/emu/c03sdwademo/
//	go test -count=1 -v ./amd/emu/c03sdwademo/
//
// ISA (SDWA dword): dst_sel places the low bits of the result in the chosen field; dst_unused says
// what happens to the other bits: 0 = pad with zeros, 1 = sign-extend above / zero below,
// 2 = preserve the old register bits. src*_sel moves the chosen field to the low bits.
package c03sdwademo

import (
	"encoding/binary"
	"testing"

	"github.com/sarchlab/mgpusim/v4/amd/emu"
	"github.com/sarchlab/mgpusim/v4/amd/emu/cdna3"
	"github.com/sarchlab/mgpusim/v4/amd/insts"
)

type wfState struct {
	*emu.Wavefront
	inst *insts.Inst
}

func (s *wfState) Inst() *insts.Inst { return s.inst }

func decode(t *testing.T, words ...uint32) *insts.Inst {
	t.Helper()
	buf := make([]byte, 4*len(words))
	for i, w := range words {
		binary.LittleEndian.PutUint32(buf[4*i:], w)
	}
	inst, err := insts.NewDisassembler().Decode(buf)
	if err != nil {
		t.Fatalf("decode %x: %v", words, err)
	}
	return inst
}

func setV(wf *emu.Wavefront, lane, reg int, v uint32) {
	binary.LittleEndian.PutUint32(wf.VRegFile[lane*256*4+reg*4:], v)
}

func getV(wf *emu.Wavefront, lane, reg int) uint32 {
	return binary.LittleEndian.Uint32(wf.VRegFile[lane*256*4+reg*4:])
}

const (
	byte0, byte1, byte2, byte3, word0, word1, dword = 0, 1, 2, 3, 4, 5, 6
	pad, sext, preserve                             = 0, 1, 2
)

// vop2 op vdst, v<src0>, v<vsrc1> with an SDWA dword
func sdwa(op, vdst, src0, vsrc1, dstSel, dstUnused, src0Sel, src1Sel uint32) []uint32 {
	return []uint32{op<<25 | vdst<<17 | vsrc1<<9 | 249, src0 | dstSel<<8 | dstUnused<<11 | src0Sel<<16 | src1Sel<<24}
}

func alus() map[string]func(s emu.InstEmuState) {
	return map[string]func(s emu.InstEmuState){
		"GCN3":  func(s emu.InstEmuState) { emu.NewALU(nil).Run(s) },
		"CDNA3": func(s emu.InstEmuState) { cdna3.NewALU(nil).Run(s) },
	}
}

func TestC03SDWADstUnused(t *testing.T) {
	const old = 0x11223344
	for _, c := range []struct {
		name            string
		dstSel, dstUnus uint32
		want            uint32
	}{
		// v_or_b32 v2, v0, v1 with byte 0 of v0 = 0x85, byte 0 of v1 = 0x02 -> result field 0x87
		{"BYTE_1 PAD", byte1, pad, 0x00008700},
		{"BYTE_1 PRESERVE", byte1, preserve, 0x11228744},
		{"BYTE_1 SEXT", byte1, sext, 0xffff8700},
		{"WORD_1 PRESERVE", word1, preserve, 0x00873344},
		{"BYTE_0 SEXT", byte0, sext, 0xffffff87},
		{"BYTE_3 PRESERVE", byte3, preserve, 0x87223344},
		{"BYTE_3 SEXT", byte3, sext, 0x87000000},
	} {
		inst := decode(t, sdwa(20, 2, 0, 1, c.dstSel, c.dstUnus, byte0, byte0)...)
		for alu, run := range alus() {
			wf := emu.NewWavefront(nil)
			setV(wf, 0, 0, 0xaabbcc85)
			setV(wf, 0, 1, 0x55667702)
			setV(wf, 0, 2, old)
			wf.SetEXEC(1)
			run(&wfState{wf, inst})
			if got := getV(wf, 0, 2); got != c.want {
				t.Errorf("%s v_or_b32_sdwa dst_sel/dst_unused %s: v2 = %#08x, ISA prescribes %#08x (old v2 %#08x)", alu, c.name, got, c.want, old)
			}
		}
	}
}

func TestC03SDWAAddMovesSelectedFields(t *testing.T) {
	// v_add_u32 v2, vcc, v0, v1  src0_sel:BYTE_1 src1_sel:BYTE_2 dst_sel:WORD_1 (pad)
	inst := decode(t, sdwa(25, 2, 0, 1, word1, pad, byte1, byte2)...)
	for alu, run := range alus() {
		wf := emu.NewWavefront(nil)
		setV(wf, 0, 0, 0x00001200) // byte 1 = 0x12
		setV(wf, 0, 1, 0x00340000) // byte 2 = 0x34
		setV(wf, 0, 2, 0xdeadbeef)
		wf.SetEXEC(1)
		rejected := false
		func() {
			defer func() {
				if recover() != nil {
					rejected = true // "SDWA ... not implemented": refusing is fine, executing it as a plain add is not
				}
			}()
			run(&wfState{wf, inst})
		}()
		if rejected {
			continue
		}
		if got, want := getV(wf, 0, 2), uint32(0x00460000); got != want {
			t.Errorf("%s v_add_u32_sdwa: v2 = %#08x, ISA prescribes %#08x (0x12 + 0x34 placed in word 1)", alu, got, want)
		}
	}
}
