// Run (from the worktree root):
//
//	export PATH=/opt/veriftools/go1.26.8/bin:$PATH GOTOOLCHAIN=local GOFLAGS=-mod=mod GOPROXY=off GOSUMDB=off
//	go test ./AUDIT/demo/matrixtranspose_few_columns/ -count=1 -v
//
// MatrixTranspose.exec gives every GPU numWGWidth/numGPUs work-group columns
// (integer division) starting at column gpu*(numWGWidth/numGPUs). For
// Width=128 there are 2 work-group columns: with 4 GPUs every GPU gets offset 0
// and half a work-group; with 3 GPUs and Width=256 one column is never done.
package mt

import (
	"testing"

	"github.com/sarchlab/mgpusim/v4/AUDIT/demo/plat"
	"github.com/sarchlab/mgpusim/v4/amd/arch"
	"github.com/sarchlab/mgpusim/v4/amd/benchmarks/amdappsdk/matrixtranspose"
)

func run(width, numGPUs int) []uint32 {
	p := plat.NewEmu(numGPUs, arch.GCN3)
	defer p.Close()
	b := matrixtranspose.NewBenchmark(p.Driver)
	b.Width = width
	b.Arch = arch.GCN3
	b.SelectGPU(plat.GPUSet(numGPUs))
	b.Run()
	out := make([]uint32, width*width)
	p.Driver.MemCopyD2H(plat.ContextField(b, "context"), out,
		plat.PtrField(b, "dOutputData"))
	return out
}

func compare(t *testing.T, width, numGPUs int, control bool) {
	ref, got := run(width, 1), run(width, numGPUs)
	bad, first := 0, -1
	for i := range ref {
		if ref[i] != got[i] {
			bad++
			if first < 0 {
				first = i
			}
		}
	}
	if bad == 0 {
		return
	}
	if control {
		t.Errorf("control failed: %d elements differ", bad)
		return
	}
	t.Errorf("C18: MatrixTranspose(width=%d) must give the same output on %d "+
		"GPUs as on 1 GPU, but %d of %d elements differ; first at (%d,%d): "+
		"1 GPU -> %d, %d GPUs -> %d", width, numGPUs, bad, len(ref),
		first/width, first%width, ref[first], numGPUs, got[first])
}

func TestMTControl(t *testing.T)           { compare(t, 128, 2, true) }
func TestMTFourGPUsWidth128(t *testing.T)  { compare(t, 128, 4, false) }
func TestMTThreeGPUsWidth256(t *testing.T) { compare(t, 256, 3, false) }
