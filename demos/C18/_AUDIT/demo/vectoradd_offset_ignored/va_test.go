// Run (from the worktree root):
//
//	export PATH=/opt/veriftools/go1.26.8/bin:$PATH GOTOOLCHAIN=local GOFLAGS=-mod=mod GOPROXY=off GOSUMDB=off
//	go test ./AUDIT/demo/vectoradd_offset_ignored/ -count=1 -v
//
// VectorAdd gives GPU i a grid of numData/numGPUs work-items and passes
// i*gridSize only as the "hidden global offset" kernel argument. The (HIP)
// kernel computes its index from the work-group id alone, so every GPU adds the
// FIRST numData/numGPUs elements and the rest of A is never written.
package va

import (
	"math"
	"testing"

	"github.com/sarchlab/mgpusim/v4/AUDIT/demo/plat"
	"github.com/sarchlab/mgpusim/v4/amd/arch"
	"github.com/sarchlab/mgpusim/v4/amd/benchmarks/amdappsdk/vectoradd"
)

func run(width, height uint32, numGPUs int) []float32 {
	p := plat.NewEmu(numGPUs, arch.GCN3)
	defer p.Close()
	b := vectoradd.NewBenchmark(p.Driver)
	b.Width, b.Height = width, height
	b.SelectGPU(plat.GPUSet(numGPUs))
	b.Run()
	out := make([]float32, width*height)
	p.Driver.MemCopyD2H(plat.ContextField(b, "context"), out,
		plat.PtrField(b, "dA"))
	return out
}

func TestVectorAddTwoGPUs(t *testing.T) {
	ref, got := run(1024, 4, 1), run(1024, 4, 2) // 4096 elements, 2048 per GPU
	bad, first := 0, -1
	for i := range ref {
		if math.Float32bits(ref[i]) != math.Float32bits(got[i]) {
			bad++
			if first < 0 {
				first = i
			}
		}
	}
	if bad != 0 {
		t.Errorf("C18: VectorAdd(1024x4) must give the same A on 2 GPUs as on "+
			"1 GPU, but %d of %d elements differ, first at %d: 1 GPU -> %v, "+
			"2 GPUs -> %v (the second GPU recomputed elements 0..2047)",
			bad, len(ref), first, ref[first], got[first])
	}
}
