// Run (from the worktree root):
//
//	export PATH=/opt/veriftools/go1.26.8/bin:$PATH GOTOOLCHAIN=local GOFLAGS=-mod=mod GOPROXY=off GOSUMDB=off
//	go test ./AUDIT/demo/timing_remote_write_stale_l1/ -count=1 -v
//
// On the timing platform a write that GPU 2 makes to GPU 1's memory is
// forwarded by the RDMA engines to GPU 1's L2, but the L1 vector caches of
// GPU 1 keep the lines they loaded in an earlier kernel: nothing invalidates
// the L1 caches at a kernel boundary (the command processor resets them only
// for the cache flush that precedes a memory copy). The next kernel on GPU 1
// therefore computes from stale data.
//
// Three ReLU kernels (out[i] = max(in[i], 0)), no memory copy in between:
//
//	K1 on GPU 1:      Y1 = relu(X)    (loads X into GPU 1's L1 caches)
//	K2 on GPU "w":    X  = relu(Z)    (overwrites X; w = 1 or 2)
//	K3 on GPU 1:      Y3 = relu(X)    must be relu(relu(Z))
//
// All buffers live on GPU 1. With w = 1 the result is right, with w = 2 (the
// same work moved to another GPU) Y3 is computed from the old X.
package stale

import (
	"os"
	"testing"

	"github.com/sarchlab/mgpusim/v4/AUDIT/demo/plat"
	"github.com/sarchlab/mgpusim/v4/amd/driver"
	"github.com/sarchlab/mgpusim/v4/amd/insts"
)

type reluArgs struct {
	Count               uint32
	Padding             uint32
	Input               driver.Ptr
	Output              driver.Ptr
	HiddenGlobalOffsetX int64
	HiddenGlobalOffsetY int64
	HiddenGlobalOffsetZ int64
}

const n = 4096

func run(t *testing.T, timing bool, writerGPU int) (bad int, first int, got, want float32) {
	hsaco, err := os.ReadFile(
		"../../../amd/benchmarks/dnn/layer_benchmarks/relu/kernels.hsaco")
	if err != nil {
		t.Fatal(err)
	}
	co := insts.LoadKernelCodeObjectFromBytes(hsaco, "ReLUForward")

	var p *plat.Platform
	if timing {
		p = plat.NewTiming(2)
	} else {
		p = plat.NewEmu(2, 0)
	}
	defer p.Close()
	d := p.Driver
	ctx := d.Init()

	d.SelectGPU(ctx, 1)
	x := d.AllocateMemory(ctx, n*4)
	y1 := d.AllocateMemory(ctx, n*4)
	y3 := d.AllocateMemory(ctx, n*4)
	z := d.AllocateMemory(ctx, n*4)
	hx := make([]float32, n)
	hz := make([]float32, n)
	for i := range hx {
		hx[i] = float32(i + 1)         // old X: 1, 2, 3, ...
		hz[i] = float32(1000000 + 2*i) // new X
	}
	d.MemCopyH2D(ctx, x, hx)
	d.MemCopyH2D(ctx, z, hz)

	launch := func(gpu int, in, out driver.Ptr) {
		d.SelectGPU(ctx, gpu)
		q := d.CreateCommandQueue(ctx)
		d.EnqueueLaunchKernel(q, co,
			[3]uint32{n, 1, 1}, [3]uint16{64, 1, 1},
			&reluArgs{Count: n, Input: in, Output: out})
		d.DrainCommandQueue(q)
	}
	launch(1, x, y1)
	launch(writerGPU, z, x)
	launch(1, x, y3)

	h3 := make([]float32, n)
	d.MemCopyD2H(ctx, h3, y3)
	first = -1
	for i := range h3 {
		if h3[i] != hz[i] {
			bad++
			if first < 0 {
				first, got, want = i, h3[i], hz[i]
			}
		}
	}
	return
}

func TestControls(t *testing.T) {
	if bad, _, _, _ := run(t, false, 2); bad != 0 {
		t.Errorf("emulation, K2 on GPU 2: %d wrong", bad)
	}
	if bad, _, _, _ := run(t, true, 1); bad != 0 {
		t.Errorf("timing, K2 on GPU 1: %d wrong", bad)
	}
}

func TestTimingWriterOnOtherGPU(t *testing.T) {
	if bad, first, got, want := run(t, true, 2); bad != 0 {
		t.Errorf("C18: with all three kernels on GPU 1 the timing platform "+
			"gives Y3 = relu(relu(Z)); moving the middle kernel to GPU 2 must "+
			"not change the final data, but %d of %d elements of Y3 are "+
			"wrong; element %d = %v (the value of X before GPU 2 overwrote "+
			"it), want %v", bad, n, first, got, want)
	}
}
