// Run (from the worktree root):
//
//	export PATH=/opt/veriftools/go1.26.8/bin:$PATH GOTOOLCHAIN=local GOFLAGS=-mod=mod GOPROXY=off GOSUMDB=off
//	go test ./AUDIT/demo/timing_remote_write_stale_l1/ -run TestAllReduce -count=1 -v
//
// The same defect seen through a workload of the repository: the ring
// all-reduce of amd/benchmarks/mccl (used by the data-parallel DNN trainers).
// In every step a kernel on GPU i writes into the scratch buffer of GPU i+1,
// and the next kernel on GPU i+1 reads that buffer. With a scratch buffer
// smaller than the data the buffer is re-used, GPU i+1 still has the lines of
// the previous round in its L1 caches and reduces stale values. Emulation gives
// the exact average, the timing platform does not.
package stale

import (
	"testing"

	"github.com/sarchlab/mgpusim/v4/AUDIT/demo/plat"
	"github.com/sarchlab/mgpusim/v4/amd/arch"
	"github.com/sarchlab/mgpusim/v4/amd/benchmarks/mccl"
	"github.com/sarchlab/mgpusim/v4/amd/driver"
)

// allReduce returns the number of wrong elements over all GPUs and the first
// wrong one.
func allReduce(p *plat.Platform, n, dataSize, bufSize int) (
	bad, gpu, elem int, got, want float32,
) {
	d := p.Driver
	ctx := d.Init()
	ctxs := make([]*driver.Context, n)
	datas := make([]driver.Ptr, n)
	bufs := make([]driver.Ptr, n)
	sum := make([]float32, dataSize)
	for i := 0; i < n; i++ {
		ctxs[i] = d.InitWithExistingPID(ctx)
		d.SelectGPU(ctxs[i], i+1)
		h := make([]float32, dataSize)
		for j := range h {
			h[j] = float32((i + 1) * (j%17 + 1))
			sum[j] += h[j]
		}
		datas[i] = d.AllocateMemory(ctxs[i], uint64(dataSize*4))
		d.MemCopyH2D(ctxs[i], datas[i], h)
		bufs[i] = d.AllocateMemory(ctxs[i], uint64(bufSize*4))
	}
	comms := mccl.CommInitAllMultipleContexts(n, d, ctxs, plat.GPUSet(n))
	mccl.AllReduceRing(d, comms, datas, dataSize, bufs, bufSize)

	for i := 0; i < n; i++ {
		h := make([]float32, dataSize)
		d.MemCopyD2H(ctx, h, datas[i])
		for j := range h {
			w := sum[j] / float32(n)
			if diff := h[j] - w; diff > 1e-3 || diff < -1e-3 {
				if bad == 0 {
					gpu, elem, got, want = i+1, j, h[j], w
				}
				bad++
			}
		}
	}
	return
}

func TestAllReduceEmuControl(t *testing.T) {
	p := plat.NewEmu(2, arch.GCN3)
	defer p.Close()
	if bad, gpu, elem, got, want := allReduce(p, 2, 1029, 256); bad != 0 {
		t.Errorf("emulation: %d wrong, GPU %d element %d = %v want %v",
			bad, gpu, elem, got, want)
	}
}

func TestAllReduceTimingTwoGPUs(t *testing.T) {
	p := plat.NewTiming(2)
	defer p.Close()
	if bad, gpu, elem, got, want := allReduce(p, 2, 1029, 256); bad != 0 {
		t.Errorf("C18: the ring all-reduce of 1029 floats over 2 GPUs gives "+
			"the exact average in emulation and must give the same data on "+
			"the timing platform, but %d elements are wrong; GPU %d element "+
			"%d = %v, want %v", bad, gpu, elem, got, want)
	}
}
