// Run (from the worktree root):
//
//	export PATH=/opt/veriftools/go1.26.8/bin:$PATH GOTOOLCHAIN=local GOFLAGS=-mod=mod GOPROXY=off GOSUMDB=off
//	go test ./AUDIT/demo/timing_drain_ack_has_no_receiver/ -count=1 -v
//
// timingconfig.Builder.createGPU never tells the command processors where the
// driver is (the assignment is commented out) and never registers the page
// migration controllers (configPMC is commented out). The command processor
// forwards the RDMA engine's DrainRsp with
// protocol.NewRDMADrainRspToDriver(m.ToDriver, m.Driver), which dereferences
// the nil port: on the timing platform the drain handshake of C18 can never be
// acknowledged, the first remote access to a unified-memory page kills the
// simulation. The emulation platform sets CommandProcessor.Driver.
package drain

import (
	"os"
	"os/exec"
	"strings"
	"testing"

	"github.com/sarchlab/mgpusim/v4/AUDIT/demo/plat"
	"github.com/sarchlab/mgpusim/v4/amd/arch"
	"github.com/sarchlab/mgpusim/v4/amd/benchmarks/heteromark/fir"
	"github.com/sarchlab/mgpusim/v4/amd/timing/cp"
)

func TestCommandProcessorsKnowTheDriver(t *testing.T) {
	p := plat.NewTiming(2)
	defer p.Close()
	for _, name := range []string{
		"GPU[1].CommandProcessor", "GPU[2].CommandProcessor"} {
		c := p.Sim.GetComponentByName(name).(*cp.CommandProcessor)
		if c.Driver == nil {
			t.Errorf("C18: %s.Driver is nil on the timing platform; the "+
				"acknowledgement of an RDMA drain (and of the restart, the TLB "+
				"shootdown and the page migration that follow it) is addressed "+
				"to this port, so a drain request can never be acknowledged",
				name)
		}
	}
}

func runFIR(unifiedMemory bool, numGPUs int) {
	p := plat.NewTiming(numGPUs)
	defer p.Close()
	b := fir.NewBenchmark(p.Driver)
	b.Length = 4096
	b.Arch = arch.GCN3
	b.SelectGPU(plat.GPUSet(numGPUs))
	if unifiedMemory {
		b.SetUnifiedMemory()
	}
	b.Run()
	b.Verify() // log.Fatalf on mismatch
}

func TestFIRChild(t *testing.T) {
	switch os.Getenv("C18_CHILD") {
	case "distributed":
		runFIR(false, 2)
	case "unified":
		runFIR(true, 2)
	default:
		t.Skip("helper of TestFIRUnifiedMemoryTwoGPUs")
	}
}

func runChild(mode string) (string, error) {
	cmd := exec.Command(os.Args[0], "-test.run=^TestFIRChild$", "-test.count=1")
	cmd.Env = append(os.Environ(), "C18_CHILD="+mode)
	out, err := cmd.CombinedOutput()
	plat.RemoveRecorderFiles("akita_sim_*") // a dead child cannot clean up
	return string(out), err
}

func TestFIRUnifiedMemoryTwoGPUs(t *testing.T) {
	if out, err := runChild("distributed"); err != nil {
		t.Fatalf("control (distributed buffers, 2 GPUs, timing) failed: %v\n%s",
			err, out)
	}
	out, err := runChild("unified")
	if err != nil {
		var trace []string
		for _, l := range strings.Split(out, "\n") {
			if strings.Contains(l, "Panic:") ||
				strings.Contains(l, "NewRDMADrainRspToDriver") ||
				strings.Contains(l, "processRDMADrainRsp") {
				trace = append(trace, strings.TrimSpace(l))
			}
		}
		t.Errorf("C18: FIR on 2 GPUs of the timing platform verifies with "+
			"distributed buffers and must give the same data with unified "+
			"memory; instead the simulation died (%v) while acknowledging "+
			"the RDMA drain:\n  %s", err, strings.Join(trace, "\n  "))
	}
}
