// Run (from the worktree root):
//
//	export PATH=/opt/veriftools/go1.26.8/bin:$PATH GOTOOLCHAIN=local GOFLAGS=-mod=mod GOPROXY=off GOSUMDB=off
//	go test ./AUDIT/demo/codeobject_copy_race/ -count=1 -v
//
// Driver.EnqueueLaunchKernel keeps one device copy of a kernel code object
// (Driver.codeObjGPUAddrs, keyed by the code object). The host-to-device copy
// of the code is enqueued only on the queue that launches the kernel FIRST; a
// launch of the same kernel on the queue of another GPU re-uses the address but
// its queue does not wait for that copy. The usual multi-GPU pattern of the
// benchmarks ("for every GPU: create a queue, enqueue the kernel") therefore
// lets GPU 2 start a kernel whose instructions have not been written yet
// whenever the copy on queue 1 is slower than the two small copies (kernel
// arguments, dispatch packet) on queue 2, or queue 1 is still busy with
// earlier commands.
//
// The test uses the real driver (timing-style copy middleware) and two scripted
// command processors. GPU 1 answers copies after 50000 cycles (a busy DMA
// engine), GPU 2 after 10 cycles.
package race

import (
	"fmt"
	"os"
	"testing"

	"github.com/sarchlab/akita/v4/mem/vm"
	"github.com/sarchlab/akita/v4/sim"
	"github.com/sarchlab/akita/v4/sim/directconnection"
	"github.com/sarchlab/mgpusim/v4/amd/driver"
	"github.com/sarchlab/mgpusim/v4/amd/insts"
	"github.com/sarchlab/mgpusim/v4/amd/protocol"
)

type event struct {
	at   sim.VTimeInSec
	what string
	msg  sim.Msg
}

type pending struct {
	due sim.VTimeInSec
	rsp sim.Msg
	req sim.Msg
}

// fakeCP answers the driver like a command processor would, after a fixed
// delay for memory copies.
type fakeCP struct {
	*sim.TickingComponent
	port      sim.Port
	copyDelay int
	log       *[]event
	name      string
	queue     []pending
}

func (f *fakeCP) Tick() bool {
	progress := false
	now := f.Engine.CurrentTime()

	for len(f.queue) > 0 && f.queue[0].due <= now {
		if f.port.Send(f.queue[0].rsp) != nil {
			break
		}
		*f.log = append(*f.log, event{now, f.name + " completed", f.queue[0].req})
		f.queue = f.queue[1:]
		progress = true
	}

	if m := f.port.RetrieveIncoming(); m != nil {
		progress = true
		*f.log = append(*f.log, event{now, f.name + " received", m})
		delay := 1
		var rsp sim.Msg
		switch req := m.(type) {
		case *protocol.MemCopyH2DReq:
			delay = f.copyDelay
			rsp = sim.GeneralRspBuilder{}.WithSrc(f.port.AsRemote()).
				WithDst(req.Src).WithOriginalReq(req).Build()
		case *protocol.FlushReq:
			rsp = sim.GeneralRspBuilder{}.WithSrc(f.port.AsRemote()).
				WithDst(req.Src).WithOriginalReq(req).Build()
		case *protocol.LaunchKernelReq:
			delay = 100
			rsp = protocol.NewLaunchKernelRsp(f.port.AsRemote(), req.Src, req.ID)
		default:
			panic(fmt.Sprintf("unexpected %T", m))
		}
		f.queue = append(f.queue, pending{
			due: now + sim.VTimeInSec(delay)*1e-9, rsp: rsp, req: m})
	}

	return progress || len(f.queue) > 0
}

func newFakeCP(name string, e sim.Engine, delay int, log *[]event) *fakeCP {
	f := &fakeCP{copyDelay: delay, log: log, name: name}
	f.TickingComponent = sim.NewTickingComponent(name, e, 1*sim.GHz, f)
	f.port = sim.NewPort(f, 4096, 4096, name+".ToDriver")
	return f
}

type kernArgs struct {
	Out, In driver.Ptr
}

func TestKernelOnSecondGPUWaitsForCodeObjectCopy(t *testing.T) {
	hsaco, err := os.ReadFile(
		"../../../amd/benchmarks/dnn/layer_benchmarks/relu/kernels.hsaco")
	if err != nil {
		t.Fatal(err)
	}
	co := insts.LoadKernelCodeObjectFromBytes(hsaco, "ReLUForward")
	if co == nil {
		t.Fatal("cannot load kernel")
	}

	engine := sim.NewSerialEngine()
	pageTable := vm.NewPageTable(12)
	d := driver.MakeBuilder().
		WithEngine(engine).
		WithPageTable(pageTable).
		WithLog2PageSize(12).
		WithH2DCycles(5).
		WithD2HCycles(5).
		Build("Driver")

	var log []event
	gpu1 := newFakeCP("GPU1", engine, 50000, &log)
	gpu2 := newFakeCP("GPU2", engine, 10, &log)
	conn := directconnection.MakeBuilder().
		WithEngine(engine).WithFreq(1 * sim.GHz).Build("Conn")
	conn.PlugIn(d.GetPortByName("GPU"))
	conn.PlugIn(gpu1.port)
	conn.PlugIn(gpu2.port)
	props := driver.DeviceProperties{CUCount: 4, DRAMSize: 1 << 30}
	d.RegisterGPU(gpu1.port, props)
	d.RegisterGPU(gpu2.port, props)

	d.Run()
	defer d.Terminate()

	// The multi-GPU launch pattern of the benchmarks (FIR, ReLU, AES, ...).
	ctx := d.Init()
	queues := make([]*driver.CommandQueue, 2)
	for i, gpu := range []int{1, 2} {
		d.SelectGPU(ctx, gpu)
		queues[i] = d.CreateCommandQueue(ctx)
		d.EnqueueLaunchKernel(queues[i], co,
			[3]uint32{256, 1, 1}, [3]uint16{64, 1, 1}, &kernArgs{})
	}
	for _, q := range queues {
		d.DrainCommandQueue(q)
	}

	// Find the launch on GPU 2 and the physical range of its instructions.
	var launch2 *protocol.LaunchKernelReq
	var launch2At sim.VTimeInSec
	for _, e := range log {
		if l, ok := e.msg.(*protocol.LaunchKernelReq); ok &&
			e.what == "GPU2 received" {
			launch2, launch2At = l, e.at
		}
	}
	if launch2 == nil {
		t.Fatal("no kernel launch reached GPU 2")
	}
	page, found := pageTable.Find(launch2.PID, launch2.Packet.KernelObject)
	if !found {
		t.Fatal("code object address is not mapped")
	}
	codePAddr := page.PAddr + launch2.Packet.KernelObject - page.VAddr

	// When was that range written?
	var copyDone sim.VTimeInSec = -1
	var copyTo string
	for _, e := range log {
		c, ok := e.msg.(*protocol.MemCopyH2DReq)
		if !ok || c.DstAddress != codePAddr {
			continue
		}
		if e.what == "GPU1 completed" || e.what == "GPU2 completed" {
			copyDone, copyTo = e.at, e.what[:4]
		}
	}
	if copyDone < 0 {
		t.Fatalf("C18: the kernel was launched on GPU 2 with KernelObject "+
			"0x%x (physical 0x%x), but no host-to-device copy ever wrote "+
			"that address", launch2.Packet.KernelObject, codePAddr)
	}
	if launch2At < copyDone {
		t.Errorf("C18: spreading a kernel over two GPUs must run the same "+
			"instructions as on one GPU. GPU 2 received the LaunchKernelReq "+
			"(KernelObject 0x%x -> physical 0x%x) at %.0f ns, but the copy of "+
			"the kernel's code to that address (performed by %s, enqueued "+
			"only on the queue of GPU 1) completed at %.0f ns: GPU 2 starts "+
			"fetching instructions %.0f ns before they are in memory",
			launch2.Packet.KernelObject, codePAddr, float64(launch2At)*1e9,
			copyTo, float64(copyDone)*1e9, float64(copyDone-launch2At)*1e9)
	}
}
