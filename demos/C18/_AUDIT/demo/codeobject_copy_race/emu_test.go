// Run (from the worktree root):
//
//	export PATH=/opt/veriftools/go1.26.8/bin:$PATH GOTOOLCHAIN=local GOFLAGS=-mod=mod GOPROXY=off GOSUMDB=off
//	go test ./AUDIT/demo/codeobject_copy_race/ -run TestEmuTwoPhaseWorkload -count=1 -v
//
// End-to-end version of the race on the unmodified emulation platform with two
// GPUs. Phase 1 of the workload runs a (long) FIR kernel on GPU 1 only; phase 2
// runs ReLU on both GPUs, each GPU on its own queue, half of the elements each.
// Nothing is drained between the phases, which is legal: commands of one queue
// execute in order. Queue 1 = [FIR ..., copy ReLU code, ..., ReLU], queue 2 =
// [..., ReLU]. GPU 2 starts ReLU while the copy of the ReLU code is still
// waiting behind FIR on queue 1, executes the zero-filled memory and finally
// runs off the mapped pages, which panics inside the simulation goroutine (the
// driver then calls atexit.Exit(1)); therefore the workload runs in a child
// process. The same workload with phase 2 on GPU 1 only passes.
package race

import (
	"os"
	"os/exec"
	"strings"
	"testing"

	"github.com/sarchlab/mgpusim/v4/AUDIT/demo/plat"
	"github.com/sarchlab/mgpusim/v4/amd/arch"
	"github.com/sarchlab/mgpusim/v4/amd/driver"
	"github.com/sarchlab/mgpusim/v4/amd/insts"
)

type reluArgs struct {
	Count               uint32
	Padding             uint32
	Input               driver.Ptr
	Output              driver.Ptr
	HiddenGlobalOffsetX int64
	HiddenGlobalOffsetY int64
	HiddenGlobalOffsetZ int64
}

type firArgs struct {
	Output              driver.Ptr
	Filter              driver.Ptr
	Input               driver.Ptr
	History             driver.Ptr
	NumTaps             uint32
	Padding             uint32
	HiddenGlobalOffsetX int64
	HiddenGlobalOffsetY int64
	HiddenGlobalOffsetZ int64
}

// twoPhaseWorkload returns the number of wrong ReLU outputs.
func twoPhaseWorkload(phase2GPUs []int) int {
	relu, err := os.ReadFile(
		"../../../amd/benchmarks/dnn/layer_benchmarks/relu/kernels.hsaco")
	if err != nil {
		panic(err)
	}
	fir, err := os.ReadFile(
		"../../../amd/benchmarks/heteromark/fir/kernels.hsaco")
	if err != nil {
		panic(err)
	}
	coReLU := insts.LoadKernelCodeObjectFromBytes(relu, "ReLUForward")
	coFIR := insts.LoadKernelCodeObjectFromBytes(fir, "FIR")

	p := plat.NewEmu(2, arch.GCN3)
	defer p.Close()
	d := p.Driver
	ctx := d.Init()

	const n, firLen = 4096, 65536
	d.SelectGPU(ctx, 1)
	in := d.AllocateMemory(ctx, n*4)
	out := d.AllocateMemory(ctx, n*4)
	firOut := d.AllocateMemory(ctx, firLen*4)
	firIn := d.AllocateMemory(ctx, firLen*4)
	filter := d.AllocateMemory(ctx, 64)
	history := d.AllocateMemory(ctx, 64)
	hIn := make([]float32, n)
	for i := range hIn {
		hIn[i] = float32(i) - 100.5
	}
	d.MemCopyH2D(ctx, in, hIn)

	queues := map[int]*driver.CommandQueue{}
	for _, gpu := range []int{1, 2} {
		d.SelectGPU(ctx, gpu)
		queues[gpu] = d.CreateCommandQueue(ctx)
	}

	// Phase 1: GPU 1 only.
	d.EnqueueLaunchKernel(queues[1], coFIR,
		[3]uint32{firLen, 1, 1}, [3]uint16{256, 1, 1},
		&firArgs{Output: firOut, Filter: filter, Input: firIn,
			History: history, NumTaps: 16})

	// Phase 2: ReLU split evenly over phase2GPUs.
	per := n / len(phase2GPUs)
	for i, gpu := range phase2GPUs {
		d.SelectGPU(ctx, gpu)
		d.EnqueueLaunchKernel(queues[gpu], coReLU,
			[3]uint32{uint32(per), 1, 1}, [3]uint16{64, 1, 1},
			&reluArgs{Count: n, Input: in, Output: out,
				HiddenGlobalOffsetX: int64(i * per)})
	}
	for _, q := range queues {
		d.DrainCommandQueue(q)
	}

	hOut := make([]float32, n)
	d.MemCopyD2H(ctx, hOut, out)
	bad := 0
	for i := range hOut {
		want := hIn[i]
		if want < 0 {
			want = 0
		}
		if hOut[i] != want {
			bad++
		}
	}
	return bad
}

func TestEmuTwoPhaseWorkloadChild(t *testing.T) {
	switch os.Getenv("C18_CHILD") {
	case "one":
		if bad := twoPhaseWorkload([]int{1}); bad != 0 {
			t.Fatalf("%d wrong outputs", bad)
		}
	case "two":
		if bad := twoPhaseWorkload([]int{1, 2}); bad != 0 {
			t.Fatalf("%d wrong outputs", bad)
		}
	default:
		t.Skip("helper of TestEmuTwoPhaseWorkload")
	}
}

func runChild(mode string) (string, error) {
	cmd := exec.Command(os.Args[0],
		"-test.run=^TestEmuTwoPhaseWorkloadChild$", "-test.count=1")
	cmd.Env = append(os.Environ(), "C18_CHILD="+mode)
	out, err := cmd.CombinedOutput()
	plat.RemoveRecorderFiles("akita_sim_*") // a dead child cannot clean up
	return string(out), err
}

func firstLines(s string, n int) string {
	lines := strings.Split(s, "\n")
	if len(lines) > n {
		lines = lines[:n]
	}
	return strings.Join(lines, "\n")
}

func TestEmuTwoPhaseWorkload(t *testing.T) {
	if out, err := runChild("one"); err != nil {
		t.Fatalf("control (phase 2 on GPU 1 only) failed: %v\n%s",
			err, firstLines(out, 5))
	}
	if out, err := runChild("two"); err != nil {
		t.Errorf("C18: the two-phase workload gives correct ReLU outputs when "+
			"phase 2 runs on GPU 1 only, and must give the same data when "+
			"phase 2 is spread over GPUs 1 and 2; instead the simulation "+
			"died (%v) because GPU 2 executed the not-yet-copied kernel "+
			"code:\n%s", err, firstLines(out, 3))
	}
}
