// Run (from the worktree root):
//
//	export PATH=/opt/veriftools/go1.26.8/bin:$PATH GOTOOLCHAIN=local GOFLAGS=-mod=mod GOPROXY=off GOSUMDB=off
//	go test ./AUDIT/demo/mccl_shared_context_one_gpu/ -count=1 -v
//
// mccl.AllReduceRing / BroadcastRing create "one queue per communicator" with
// d.CreateCommandQueue(comms[i].Ctx) WITHOUT selecting comms[i].GPUID first.
// A queue is bound to the GPU that its context has selected when the queue is
// created, so with the single shared context of mccl.CommInitAll (the form used
// by the repository's own mccl_test.go) every queue is bound to the same GPU,
// the one the application happened to select last. The later
// d.SelectGPU(comms[i].Ctx, comms[i].GPUID) only decides where the kernel
// arguments are allocated. All ranks' kernels then run concurrently on that one
// GPU. On the timing platform this goes unnoticed; on the emulation platform
// the concurrent kernels of one GPU trip the dispatcher
// ("In emulation all finished WGs from more than one dispatcher") and the
// simulation dies, while the same collective with one context per GPU
// (CommInitAllMultipleContexts) gives the right data.
package mcclone

import (
	"os"
	"os/exec"
	"strings"
	"testing"

	"github.com/sarchlab/mgpusim/v4/AUDIT/demo/plat"
	"github.com/sarchlab/mgpusim/v4/amd/arch"
	"github.com/sarchlab/mgpusim/v4/amd/benchmarks/mccl"
	"github.com/sarchlab/mgpusim/v4/amd/driver"
)

func allReduce(t *testing.T, shared bool) {
	const n, dataSize, bufSize = 2, 1024, 1024
	p := plat.NewEmu(n, arch.GCN3)
	defer p.Close()
	d := p.Driver
	ctx := d.Init()

	datas := make([]driver.Ptr, n)
	bufs := make([]driver.Ptr, n)
	for i := 0; i < n; i++ {
		h := make([]float32, dataSize)
		for j := range h {
			h[j] = float32(i + 1)
		}
		d.SelectGPU(ctx, i+1)
		datas[i] = d.AllocateMemory(ctx, dataSize*4)
		d.MemCopyH2D(ctx, datas[i], h)
		bufs[i] = d.AllocateMemory(ctx, bufSize*4)
	}

	var comms []*mccl.Communicator
	if shared {
		comms = mccl.CommInitAll(n, d, ctx, plat.GPUSet(n))
	} else {
		ctxs := make([]*driver.Context, n)
		for i := range ctxs {
			ctxs[i] = d.InitWithExistingPID(ctx)
			d.SelectGPU(ctxs[i], i+1)
		}
		comms = mccl.CommInitAllMultipleContexts(n, d, ctxs, plat.GPUSet(n))
	}
	mccl.AllReduceRing(d, comms, datas, dataSize, bufs, bufSize)

	for i := 0; i < n; i++ {
		h := make([]float32, dataSize)
		d.MemCopyD2H(ctx, h, datas[i])
		for j := range h {
			if h[j] != 1.5 {
				t.Fatalf("GPU %d element %d = %v, want 1.5", i+1, j, h[j])
			}
		}
	}
}

func TestChild(t *testing.T) {
	switch os.Getenv("C18_CHILD") {
	case "shared":
		allReduce(t, true)
	case "perGPU":
		allReduce(t, false)
	default:
		t.Skip("helper of TestAllReduceSharedContext")
	}
}

func runChild(mode string) (string, error) {
	cmd := exec.Command(os.Args[0], "-test.run=^TestChild$", "-test.count=1")
	cmd.Env = append(os.Environ(), "C18_CHILD="+mode)
	out, err := cmd.CombinedOutput()
	plat.RemoveRecorderFiles("akita_sim_*") // a dead child cannot clean up
	return string(out), err
}

func TestAllReduceSharedContext(t *testing.T) {
	if out, err := runChild("perGPU"); err != nil {
		t.Fatalf("control (one context per GPU) failed: %v\n%s", err, out)
	}
	if out, err := runChild("shared"); err != nil {
		first := strings.SplitN(out, "\n", 3)
		t.Errorf("C18: the all-reduce of two GPUs gives 1.5 everywhere with "+
			"one context per GPU and must give the same data with the "+
			"shared context of CommInitAll; instead the emulation died (%v): "+
			"%s", err, strings.Join(first[:len(first)-1], " | "))
	}
}
