// Run (from the worktree root):
//
//	export PATH=/opt/veriftools/go1.26.8/bin:$PATH GOTOOLCHAIN=local GOFLAGS=-mod=mod GOPROXY=off GOSUMDB=off
//	go test ./AUDIT/demo/fwt_every_gpu_runs_everything/ -count=1 -v
//
// FastWalshTransform.exec enqueues the complete, in-place transform (all
// log2(Length) steps over the whole array) on the queue of EVERY selected GPU.
// With one GPU the array is transformed once; with two GPUs two complete
// transforms run concurrently on the same buffer.
package fwt

import (
	"fmt"
	"testing"

	"github.com/sarchlab/mgpusim/v4/AUDIT/demo/plat"
	"github.com/sarchlab/mgpusim/v4/amd/arch"
	"github.com/sarchlab/mgpusim/v4/amd/benchmarks/amdappsdk/fastwalshtransform"
)

// run returns "" if the device result equals the CPU transform of the same
// input (the benchmark's own Verify), otherwise the mismatch.
func run(length uint32, numGPUs int) (failure string) {
	p := plat.NewEmu(numGPUs, arch.GCN3)
	defer p.Close()
	b := fastwalshtransform.NewBenchmark(p.Driver)
	b.Length = length
	b.Arch = arch.GCN3
	b.SelectGPU(plat.GPUSet(numGPUs))
	b.Run()
	defer func() {
		if r := recover(); r != nil {
			failure = fmt.Sprint(r)
		}
	}()
	b.Verify()
	return ""
}

func TestFWTOneGPUControl(t *testing.T) {
	if f := run(1024, 1); f != "" {
		t.Errorf("control failed: %s", f)
	}
}

func TestFWTTwoGPUs(t *testing.T) {
	if f := run(1024, 2); f != "" {
		t.Errorf("C18: FastWalshTransform(length=1024) must leave the same "+
			"data in the buffer on 2 GPUs as on 1 GPU (where it equals the CPU "+
			"transform), but on 2 GPUs: %s (in this message the benchmark "+
			"prints the device value after 'expected' and the CPU value "+
			"after 'found')", f)
	}
}
